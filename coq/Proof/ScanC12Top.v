(* C12 at the level of core.Scan: the fresh full scan satisfies the
   specification, passes the checker, and the checker is sound. *)
From Coq Require Import List Bool Arith String Ascii NArith Lia.
From Mv Require Import Model.Entry Model.Fs Model.Scan Model.ScanSpec
     Proof.EntryFacts Proof.ScanFacts Proof.ScanC12 Proof.ScanCount Proof.ScanUtf8.
Import ListNotations.
Open Scope string_scope.

(* what C12 states about a snapshot of the tree [root] *)
Definition c12_holds (H : string -> string) (ign : path -> bool -> ival)
           (flt : path -> fop -> outcome) (cfg : config)
           (root : option node) (s : snapshot) : Prop :=
  match root with
  | None => s_content s = None /\ s_cnt s = cnt0
  | Some x =>
    exists e, s_content s = Some e /\
              describes H ign (root_opened flt) cfg (m_dev (node_meta x)) [] false x (Some e) /\
              s_cnt s = content_counts root (Some e) /\
              s_preserves s = c_preserves cfg
  end.

Lemma cnt_eqb_eq : forall a b, cnt_eqb a b = true -> a = b.
Proof.
  intros a b Hc. unfold cnt_eqb in Hc. repeat (apply andb_true_iff in Hc; destruct Hc as [Hc ?]).
  apply cnt_eq; apply N.eqb_eq; assumption.
Qed.

Lemma cnt_eqb_refl : forall a, cnt_eqb a a = true.
Proof. intro a. unfold cnt_eqb. rewrite !N.eqb_refl. reflexivity. Qed.

Lemma check_C12_sound : forall H ign flt cfg root s,
  check_C12 H ign flt cfg root s = true -> c12_holds H ign flt cfg root s.
Proof.
  intros H ign flt cfg [x|] s Hc; unfold check_C12 in Hc; cbn [c12_holds].
  - assert (Hx : exists e, s_content s = Some e /\
               check_node H ign (root_opened flt) cfg (m_dev (node_meta x)) [] false x (Some e)
               && cnt_eqb (s_cnt s) (content_counts (Some x) (Some e))
               && Bool.eqb (s_preserves s) (c_preserves cfg) = true).
    { destruct x; destruct (s_content s) as [e|]; try discriminate; exists e; auto. }
    destruct Hx as [e [He Hb]]. exists e. split; [exact He|].
    apply andb_true_iff in Hb. destruct Hb as [Hb Hp]. apply andb_true_iff in Hb. destruct Hb as [Hn Hcnt].
    split; [apply check_sound; exact Hn|]. split; [apply cnt_eqb_eq; exact Hcnt|].
    apply eqb_prop. exact Hp.
  - apply andb_true_iff in Hc. destruct Hc as [H1 H2]. apply oentry_eqb_eq in H1.
    split; [exact H1|apply cnt_eqb_eq; exact H2].
Qed.

(* the shape of a successful fresh scan of an existing root *)
Lemma scan_full_some : forall H ign flt cfg x s c ic,
  flt [] FOpenRoot = Ok ->
  scan_full H ign flt cfg (Some x) = SOk s c ic ->
  exists e cnt,
    fnode H ign (root_opened flt) cfg (m_dev (node_meta x)) [] x false = HOk e c ic cnt /\
    s = {| s_content := Some e; s_preserves := c_preserves cfg;
           s_decomposes := c_decomposes cfg; s_cnt := cnt |} /\
    is_other x = false /\ (forall m t, x <> NLink m t).
Proof.
  intros H ign flt cfg x s c ic Ho Hs. unfold scan_full, scan in Hs. rewrite Ho in Hs.
  destruct x as [m cc|m d|m t|m ty]; try discriminate.
  - cbn [is_dir node_meta] in Hs.
    match type of Hs with
    | match ?r with _ => _ end = _ => destruct r as [| |e t ic' cnt] eqn:Er; try discriminate
    end.
    inversion Hs. subst. exists e, cnt. repeat split; try exact Er; congruence.
  - cbn [is_dir node_meta] in Hs.
    match type of Hs with
    | match ?r with _ => _ end = _ => destruct r as [| |e t ic' cnt] eqn:Er; try discriminate
    end.
    inversion Hs. subst. exists e, cnt. repeat split; try exact Er; congruence.
Qed.

Lemma c12_describes_lemma : forall H ign flt cfg x s c ic,
  scan_wf x = true -> flt [] FOpenRoot = Ok ->
  scan_full H ign flt cfg (Some x) = SOk s c ic ->
  describes H ign (root_opened flt) cfg (m_dev (node_meta x)) [] false x (s_content s).
Proof.
  intros H ign flt cfg x s c ic Hwf Ho Hs.
  destruct (scan_full_some _ _ _ _ _ _ _ _ Ho Hs) as [e [cnt [Hf [-> _]]]].
  cbn [s_content]. apply check_sound. apply fresh_check; [exact Hwf|].
  rewrite Hf. reflexivity.
Qed.

Lemma c12_counts_lemma : forall H ign flt cfg x s c ic,
  scan_wf x = true -> flt [] FOpenRoot = Ok ->
  scan_full H ign flt cfg (Some x) = SOk s c ic ->
  s_cnt s = content_counts (Some x) (s_content s).
Proof.
  intros H ign flt cfg x s c ic Hwf Ho Hs.
  destruct (scan_full_some _ _ _ _ _ _ _ _ Ho Hs) as [e [cnt [Hf [-> _]]]].
  cbn [s_content s_cnt content_counts].
  destruct (fresh_counts _ _ _ _ _ _ Hwf _ _ _ _ _ _ Hf) as [G1 [G2 [G3 [G4 _]]]].
  apply cnt_eq; assumption.
Qed.

Lemma c12_absent_lemma : forall H ign flt cfg s c ic,
  scan_full H ign flt cfg None = SOk s c ic ->
  s_content s = None /\ s_cnt s = cnt0 /\ c = ct_empty /\ ic = [].
Proof.
  intros H ign flt cfg s c ic Hs. unfold scan_full, scan in Hs. cbn in Hs. inversion Hs. auto.
Qed.

Lemma c12_model_passes : forall H ign flt cfg root s c ic,
  match root with Some x => scan_wf x = true /\ flt [] FOpenRoot = Ok | None => True end ->
  scan_full H ign flt cfg root = SOk s c ic ->
  check_C12 H ign flt cfg root s = true.
Proof.
  intros H ign flt cfg [x|] s c ic Hpre Hs; unfold check_C12.
  - destruct Hpre as [Hwf Ho].
    pose proof (c12_counts_lemma _ _ _ _ _ _ _ _ Hwf Ho Hs) as Hc.
    destruct (scan_full_some _ _ _ _ _ _ _ _ Ho Hs) as [e [cnt [Hf [-> [Hno Hnl]]]]].
    cbn [s_content s_cnt s_preserves] in *.
    assert (Hn : check_node H ign (root_opened flt) cfg (m_dev (node_meta x)) [] false x (Some e) = true).
    { apply fresh_check; [exact Hwf|]. rewrite Hf. reflexivity. }
    destruct x as [m cc|m d|m t|m ty]; try discriminate.
    + rewrite Hn, Hc, cnt_eqb_refl, eqb_reflx. reflexivity.
    + rewrite Hn, Hc, cnt_eqb_refl, eqb_reflx. reflexivity.
    + exfalso. apply (Hnl m t). reflexivity.
  - destruct (c12_absent_lemma _ _ _ _ _ _ _ Hs) as [H1 [H2 _]]. rewrite H1, H2. reflexivity.
Qed.

(* ---------- temporary names ---------- *)
Lemma lists_entry_key : forall H ign flt cfg rootdev p mask n y k e,
  lists H ign flt cfg rootdev p mask n y (LEntry k e) ->
  is_temp n = false /\ out_key n = Some k.
Proof.
  intros H ign flt cfg rootdev p mask n y k e Hl. unfold out_key.
  inversion Hl; subst; match goal with
                       | Ht : is_temp _ = false, Hv : utf8_valid _ = _ |- _ => rewrite Ht, Hv; auto
                       end.
Qed.

(* no listed name carries the temporary prefix *)
Lemma no_temp_key : forall H ign flt cfg rootdev p mask c out,
  describes_kids H ign flt cfg rootdev p mask c out ->
  forall k e, lookup k out = Some e -> is_temp k = false.
Proof.
  intros H ign flt cfg rootdev p mask c out Hd k e El.
  inversion Hd as [p0 mask0 c0 out0 Hs Ha Hb]. subst.
  destruct (Ha _ _ El) as [n' [y' [Hin' Hl]]].
  apply lists_entry_key in Hl. destruct Hl as [Ht' Hk].
  apply out_key_cases in Hk. destruct Hk as [_ [[V ->]|[V ->]]].
  - exact Ht'.
  - apply escape_not_temp. exact Ht'.
Qed.

(* every listed key is accounted for by a child without the temporary prefix *)
Lemma listed_not_temp : forall H ign flt cfg rootdev p mask c out,
  describes_kids H ign flt cfg rootdev p mask c out ->
  forall k e, lookup k out = Some e ->
              exists n y, In (n, y) c /\ is_temp n = false /\ out_key n = Some k.
Proof.
  intros H ign flt cfg rootdev p mask c out Hd k e El.
  inversion Hd as [p0 mask0 c0 out0 Hs Ha Hb]. subst.
  destruct (Ha _ _ El) as [n [y [Hin Hl]]]. apply lists_entry_key in Hl.
  exists n, y. tauto.
Qed.

(* ---------- a non-trivial instance ---------- *)
From Mv Require Import Common.Bytes.
Definition ex_meta (mode size : N) : meta :=
  {| m_mode := mode; m_size := size; m_mtime := 1600000000000000000; m_fid := 7; m_dev := 3 |}.
Definition ex_tree : node :=
  NDir (ex_meta 493 0)
    [ (".mutagen-temporary-x", NFile (ex_meta 420 1) "t");
      ("a", NFile (ex_meta 493 5) "hello");
      (bs [98;97;100;255], NFile (ex_meta 420 0) "");
      ("d", NDir (ex_meta 493 0) [("l", NLink (ex_meta 511 4) "../a");
                                  ("m", NLink (ex_meta 511 5) "/etc/");
                                  ("p", NOther (ex_meta 420 0) 4096)]);
      ("ig", NDir (ex_meta 493 0) [("x", NFile (ex_meta 420 1) "x")]) ].
Definition ex_H (s : string) : string := "h:" ++ s.
Definition ex_ign (p : path) (d : bool) : ival :=
  if path_eqb p ["ig"] then (IIgnored, false) else (INominal, false).
Definition ex_flt (p : path) (o : fop) : outcome := Ok.
Definition ex_cfg : config :=
  {| c_sym := SLPortable; c_perm := PMPortable; c_preserves := true; c_decomposes := false;
     c_fix16 := false |}.

Lemma c12_example :
  scan_wf ex_tree = true /\
  exists c ic,
    scan_full ex_H ex_ign ex_flt ex_cfg (Some ex_tree) =
    SOk {| s_content :=
             Some (EDir [("a", EFile true "h:hello");
                         (escape_name (bs [98;97;100;255]), EProblem "non-UTF-8 filename");
                         ("d", EDir [("l", ELink "../a");
                                     ("m", EProblem "invalid symbolic link: target is absolute");
                                     ("p", EUntracked)]);
                         ("ig", EUntracked)]);
           s_preserves := true; s_decomposes := false;
           s_cnt := {| n_dirs := 2; n_files := 1; n_links := 1; n_bytes := 5 |} |} c ic.
Proof. split; [vm_compute; reflexivity|]. eexists. eexists. vm_compute. reflexivity. Qed.
