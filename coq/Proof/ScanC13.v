(* C13: an accelerated scan (baseline + recheck paths + digest cache + ignore
   cache) returns what a fresh full scan returns. *)
From Coq Require Import List Bool Arith String Ascii NArith Lia.
From Mv Require Import Model.Entry Model.Fs Model.Scan Model.ScanSpec
     Proof.EntryFacts Proof.ScanFacts Proof.ScanC12 Proof.ScanCount Proof.ScanWalk.
Import ListNotations.
Open Scope string_scope.
Open Scope list_scope.

(* ---------- paths in trees ---------- *)
Lemma get_app : forall p q x,
  get (p ++ q) x = match get p x with Some y => get q y | None => None end.
Proof.
  induction p as [|n p IH]; intros q x; [reflexivity|].
  cbn [app get]. destruct x as [m c| | |]; try reflexivity.
  destruct (nlookup n c); [apply IH|reflexivity].
Qed.

Lemma get_snoc : forall p n x m c,
  get p x = Some (NDir m c) -> get (p ++ [n]) x = nlookup n c.
Proof.
  intros p n x m c Hg. rewrite get_app, Hg. cbn [get]. destruct (nlookup n c); reflexivity.
Qed.

Lemma nlookup_in : forall n (c : list (name * node)) y, nlookup n c = Some y -> In (n, y) c.
Proof. intros n c y. rewrite nlookup_alookup. apply alookup_some_in. Qed.

Lemma scan_wf_get : forall p x y, scan_wf x = true -> get p x = Some y -> scan_wf y = true.
Proof.
  induction p as [|n p IH]; intros x y Hw Hg.
  - cbn in Hg. inversion Hg. subst. exact Hw.
  - cbn [get] in Hg. destruct x as [m c| | |]; try discriminate.
    destruct (nlookup n c) as [z|] eqn:En; [|discriminate].
    apply (IH z y); [|exact Hg]. apply (scan_wf_child _ _ _ _ Hw (nlookup_in _ _ _ En)).
Qed.

Lemma scan_wf_sorted : forall m c, scan_wf (NDir m c) = true -> sorted_names (map fst c) = true.
Proof.
  intros m c Hw. unfold scan_wf in Hw. apply andb_true_iff in Hw. destruct Hw as [Hw _].
  apply (wf_dir_sorted _ _ Hw).
Qed.

Lemma in_nlookup : forall m c n y,
  scan_wf (NDir m c) = true -> In (n, y) c -> nlookup n c = Some y.
Proof.
  intros m c n y Hw Hin. rewrite nlookup_alookup. apply in_alookup_sorted; [|exact Hin].
  apply (scan_wf_sorted _ _ Hw).
Qed.

(* ---------- equivalence of results up to the ignore-cache entries ---------- *)
Definition res_equiv (a b : hres) : Prop :=
  match a, b with
  | HAbort, HAbort | HVanished, HVanished => True
  | HOk e t _ cnt, HOk e' t' _ cnt' => e = e' /\ t = t' /\ cnt = cnt'
  | _, _ => False
  end.

Definition cres_equiv (a b : cres) : Prop :=
  match a, b with
  | CAbort, CAbort | COmit, COmit => True
  | CList k e t _ cnt, CList k' e' t' _ cnt' => k = k' /\ e = e' /\ t = t' /\ cnt = cnt'
  | _, _ => False
  end.

Lemma res_equiv_refl : forall r, res_equiv r r.
Proof. intros [| |e t ic cnt]; cbn; auto. Qed.

Lemma cres_equiv_refl : forall r, cres_equiv r r.
Proof. intros [| |k e t ic cnt]; cbn; auto. Qed.

Lemma of_hres_equiv : forall n ic ic' a b,
  res_equiv a b -> cres_equiv (of_hres n ic a) (of_hres n ic' b).
Proof.
  intros n ic ic' [| |e t i cnt] [| |e' t' i' cnt']; cbn; tauto.
Qed.

Definition kacc_equiv (a b : option kids_acc) : Prop :=
  match a, b with
  | None, None => True
  | Some (o1, _, c1), Some (o2, _, c2) => o1 = o2 /\ c1 = c2
  | _, _ => False
  end.

Lemma run_kids_equiv : forall rs1 rs2,
  Forall2 cres_equiv rs1 rs2 -> kacc_equiv (run_kids rs1) (run_kids rs2).
Proof.
  induction 1 as [|a b rs1 rs2 Hab Hrest IH]; [cbn; auto|].
  rewrite !run_kids_cons.
  destruct a as [| |k e t ic cnt]; destruct b as [| |k' e' t' ic' cnt']; cbn in Hab; try tauto;
    cbn [step]; try exact I; try exact IH.
  destruct Hab as [-> [-> [-> ->]]].
  destruct (run_kids rs1) as [[[o1 i1] c1]|]; destruct (run_kids rs2) as [[[o2 i2] c2]|];
    cbn in IH |- *; try tauto.
  destruct IH as [-> ->]. auto.
Qed.

Lemma Forall2_map_in : forall {A B} (R : B -> B -> Prop) (f g : A -> B) l,
  (forall a, In a l -> R (f a) (g a)) -> Forall2 R (map f l) (map g l).
Proof.
  intros A B R f g l. induction l as [|a l IH]; intro Hl; [constructor|].
  cbn [map]. constructor; [apply Hl; left; reflexivity|].
  apply IH. intros a' Ha'. apply Hl. right. exact Ha'.
Qed.

Section C13.
  Variable H : string -> string.
  Variable ign : path -> bool -> ival.
  Variable flt : path -> fop -> outcome.
  Variable cfg : config.
  Variable rootdev : N.

  Notation fnode' := (fnode H ign flt cfg rootdev).
  Notation fdir' := (fdir H ign flt cfg rootdev).
  Notation fchild p mask :=
    (fun ny : name * node =>
       child_res H ign flt cfg ct_empty [] nocache fdir' p mask None (fst ny) (snd ny)).

  (* ---------- what a fresh scan records for one child ---------- *)
  Inductive old_class (p : path) (mask : bool) (k n : name) (y : node)
            (e : entry) (t : ctree) (cnt : counters) : Prop :=
  | OC_dir : forall m2 c2 mask' out2 ics2 cnts2 ic',
      k = n -> y = NDir m2 c2 ->
      decide mask (ign (p ++ [n]) true) = DScan mask' ->
      run_kids (map (fchild (p ++ [n]) mask') c2) = Some (out2, ics2, cnts2) ->
      e = (if mask' then EPhantom else EDir) (amap fst out2) ->
      t = CT None (amap snd out2) ->
      fnode' (p ++ [n]) y mask' = HOk e t ic' cnt ->
      old_class p mask k n y e t cnt
  | OC_file : forall mo do,
      k = n -> y = NFile mo do ->
      t = CT (Some (new_centry (S_IFREG + m_mode mo) mo (H do))) [] ->
      mtime_valid (m_mtime mo) = true -> (forall d, e <> EDir d) ->
      old_class p mask k n y e t cnt
  | OC_other :
      ct_val t = None -> ct_kids t = [] -> (forall d, e <> EDir d) ->
      old_class p mask k n y e t cnt.

  Lemma file_class : forall p mask k n mo do e t ic cnt,
    k = n ->
    fnode' (p ++ [n]) (NFile mo do) mask = HOk e t ic cnt ->
    old_class p mask k n (NFile mo do) e t cnt.
  Proof.
    intros p mask k n mo do e t ic cnt Hk Ef.
    cbn [fnode] in Ef. unfold scan_file in Ef. rewrite ct_get_empty in Ef.
    destruct (flt (p ++ [n]) FOpenFile) as [|e0|]; [| |discriminate].
    2:{ destruct (is_not_exist e0); [discriminate|].
        inversion Ef; subst; apply OC_other; try reflexivity; discriminate. }
    destruct (flt (p ++ [n]) FReadData) as [|e0|]; [| |discriminate].
    2:{ inversion Ef; subst; apply OC_other; try reflexivity; discriminate. }
    destruct (negb (N.eqb (strlen do) (m_size mo))).
    { inversion Ef; subst; apply OC_other; try reflexivity; discriminate. }
    unfold file_finish in Ef. destruct (mtime_valid (m_mtime mo)) eqn:Emt; cbn [negb] in Ef.
    2:{ inversion Ef; subst; apply OC_other; try reflexivity; discriminate. }
    inversion Ef. subst. eapply OC_file; [reflexivity|reflexivity|reflexivity|exact Emt|discriminate].
  Qed.

  Lemma link_class : forall p mask k n ml tl e t ic cnt,
    fnode' (p ++ [n]) (NLink ml tl) mask = HOk e t ic cnt ->
    old_class p mask k n (NLink ml tl) e t cnt.
  Proof.
    intros p mask k n ml tl e t ic cnt Ef.
    cbn [fnode] in Ef. unfold scan_link_mode, scan_link in Ef.
    destruct (c_sym cfg).
    - inversion Ef; subst; apply OC_other; try reflexivity; discriminate.
    - destruct (flt (p ++ [n]) FReadLink) as [|e0|]; [| |discriminate].
      2:{ destruct (is_not_exist e0); [discriminate|].
          inversion Ef; subst; apply OC_other; try reflexivity; discriminate. }
      destruct (normalize_link (c_fix16 cfg) (p ++ [n]) tl);
        inversion Ef; subst; apply OC_other; try reflexivity; discriminate.
    - destruct (flt (p ++ [n]) FReadLink) as [|e0|]; [| |discriminate].
      2:{ destruct (is_not_exist e0); [discriminate|].
          inversion Ef; subst; apply OC_other; try reflexivity; discriminate. }
      destruct (String.eqb tl "");
        inversion Ef; subst; apply OC_other; try reflexivity; discriminate.
  Qed.

  Lemma dir_class : forall p mask k n m2 c2 mask' e t ic cnt,
    k = n ->
    decide mask (ign (p ++ [n]) true) = DScan mask' ->
    fnode' (p ++ [n]) (NDir m2 c2) mask' = HOk e t ic cnt ->
    old_class p mask k n (NDir m2 c2) e t cnt.
  Proof.
    intros p mask k n m2 c2 mask' e t ic cnt Hk Ed Ef.
    pose proof Ef as Ef0. cbn [fnode] in Ef. unfold fdir in Ef. rewrite scan_dir_dir in Ef.
    destruct (negb (N.eqb (m_dev m2) rootdev)).
    { inversion Ef; subst; apply OC_other; try reflexivity; discriminate. }
    destruct (flt (p ++ [n]) FOpenDir) as [|e0|]; [| |discriminate].
    2:{ destruct (is_not_exist e0); [discriminate|].
        inversion Ef; subst; apply OC_other; try reflexivity; discriminate. }
    destruct (flt (p ++ [n]) FReadContents) as [|e0|]; [| |discriminate].
    2:{ inversion Ef; subst; apply OC_other; try reflexivity; discriminate. }
    fold fdir' in Ef.
    destruct (run_kids (map (fchild (p ++ [n]) mask') c2)) as [[[out2 ics2] cnts2]|] eqn:Erk; [|discriminate].
    inversion Ef. subst e t ic cnt.
    apply (OC_dir p mask k n _ _ _ _ m2 c2 mask' out2 ics2 cnts2 ics2); try reflexivity;
      try assumption.
  Qed.

  Lemma fchild_class : forall p mask n y k e t ic cnt,
    fchild p mask (n, y) = CList k e t ic cnt -> old_class p mask k n y e t cnt.
  Proof.
    intros p mask n y k e t ic cnt Er. cbn [fst snd] in Er. rewrite child_res_eq in Er.
    assert (Hleaf : forall e0, e0 = EUntracked \/ e0 = nonutf8_entry mask ->
              old_class p mask k n y e0 ct_empty cnt).
    { intros e0 He0. apply OC_other; try reflexivity.
      intros d0 Hd. destruct He0 as [->| ->]; [discriminate|destruct mask; discriminate]. }
    destruct (flt (p ++ [n]) FCheck) eqn:Eck; try discriminate;
      (destruct (is_temp n) eqn:Et; [discriminate|]);
      (destruct (utf8_valid n) eqn:Ev; cbn [negb] in Er;
       [|inversion Er; subst; apply Hleaf; right; reflexivity]);
      (destruct (is_other y) eqn:Eo;
       [destruct y; try discriminate; inversion Er; subst; apply Hleaf; left; reflexivity|]).
    all: assert (Er2 : match decide mask (ign (p ++ [n]) (is_dir y)) with
                       | DUntracked => CList n EUntracked ct_empty [((p ++ [n], is_dir y), ign (p ++ [n]) (is_dir y))] cnt0
                       | DScan mask' => of_hres n [((p ++ [n], is_dir y), ign (p ++ [n]) (is_dir y))]
                                                (fnode' (p ++ [n]) y mask')
                       end = CList k e t ic cnt)
      by (rewrite <- Er; destruct y; try discriminate; cbv zeta; unfold ignore_of; cbn [ic_lookup];
          destruct (decide mask _); try reflexivity; rewrite handle_fresh; reflexivity).
    all: clear Er; destruct (decide mask (ign (p ++ [n]) (is_dir y))) as [|mask'] eqn:Ed;
      [inversion Er2; subst; apply Hleaf; left; reflexivity|].
    all: destruct (fnode' (p ++ [n]) y mask') as [| |e1 t1 ic1 cnt1] eqn:Ef; try discriminate.
    all: cbn [of_hres] in Er2; inversion Er2; subst k e t ic cnt; clear Er2.
    all: destruct y as [m2 c2|mo do|ml tl|? ?]; try discriminate.
    all: try (apply (dir_class p mask n n m2 c2 mask' e1 t1 ic1 cnt1 eq_refl Ed Ef)).
    all: try (eapply file_class; [reflexivity|exact Ef]).
    all: try (eapply link_class; exact Ef).
  Qed.

  (* ---------- the accelerated scan ---------- *)
  Variable oc : ctree.
  Variable oic : icache.
  Variable dirty : path -> bool.
  Variables XO XN : node.

  Hypothesis Hnofault : forall p, flt p FOpenFile = Ok /\ flt p FReadData = Ok.
  Hypothesis Hoic : forall p d v, ic_lookup p d oic = Some v -> v = ign p d.
  Hypothesis HwfO : scan_wf XO = true.
  Hypothesis HwfN : scan_wf XN = true.
  (* a directory that is not dirty and was not empty is unchanged *)
  Hypothesis G1 : forall q yo yn,
      dirty q = false -> get q XO = Some yo -> get q XN = Some yn ->
      is_dir yo = true -> is_dir yn = true -> nchildren yo <> [] -> yo = yn.
  (* a file whose modification time, size and file id are unchanged has the
     same content *)
  Hypothesis G2 : forall q mo do mn dn,
      get q XO = Some (NFile mo do) -> get q XN = Some (NFile mn dn) ->
      m_mtime mo = m_mtime mn -> m_size mo = m_size mn -> m_fid mo = m_fid mn -> do = dn.

  Notation adir := (scan_dir H ign flt cfg rootdev oc oic dirty).
  Notation achild p mask bl :=
    (fun ny : name * node =>
       child_res H ign flt cfg oc oic dirty adir p mask bl (fst ny) (snd ny)).

  Lemma ignore_of_nil : forall cp d, ignore_of ign [] cp d = ign cp d.
  Proof. reflexivity. Qed.

  Lemma ignore_of_oic : forall cp d, ignore_of ign oic cp d = ign cp d.
  Proof.
    intros cp d. unfold ignore_of. destruct (ic_lookup cp d oic) as [v|] eqn:E; [|reflexivity].
    apply (Hoic _ _ _ E).
  Qed.

  (* what is known about the previous scan of the directory at [p] *)
  Record old_dir (p : path) (mask : bool) (co : list (name * node))
         (oldkids : list (name * (entry * ctree))) : Prop := {
    od_where : co = [] \/ exists mo, get p XO = Some (NDir mo co);
    od_run : exists ics cnts, run_kids (map (fchild p mask) co) = Some (oldkids, ics, cnts);
    od_cache : forall n q, ct_get (p ++ n :: q) oc =
                           match alookup n oldkids with
                           | Some v => ct_get q (snd v)
                           | None => None
                           end
  }.

  Lemma old_lookup : forall p mask co oldkids n e t,
    old_dir p mask co oldkids -> alookup n oldkids = Some (e, t) ->
    exists no yo ic cnt, In (no, yo) co /\ fchild p mask (no, yo) = CList n e t ic cnt.
  Proof.
    intros p mask co oldkids n e t Hod Hl. destruct (od_run _ _ _ _ Hod) as [ics [cnts Hr]].
    rewrite (run_kids_lookup _ _ _ _ Hr) in Hl.
    destruct (first_listed_in _ _ _ Hl) as [r [Hin [Hk Hv]]].
    apply in_map_iff in Hin. destruct Hin as [[no yo] [Er Hin]].
    destruct r as [| |k e2 t2 ic cnt]; try discriminate. cbn in Hk, Hv. inversion Hk. inversion Hv. subst.
    exists no, yo, ic, cnt. split; [exact Hin|exact Er].
  Qed.

  Lemma old_child_get : forall p mask co oldkids no yo,
    old_dir p mask co oldkids -> In (no, yo) co ->
    get (p ++ [no]) XO = Some yo.
  Proof.
    intros p mask co oldkids no yo Hod Hin. destruct (od_where _ _ _ _ Hod) as [->|[mo Hg]]; [destruct Hin|].
    rewrite (get_snoc _ _ _ _ _ Hg). apply (in_nlookup mo); [|exact Hin].
    apply (scan_wf_get _ _ _ HwfO Hg).
  Qed.

  Lemma new_child_get : forall p m c n y,
    get p XN = Some (NDir m c) -> In (n, y) c -> get (p ++ [n]) XN = Some y.
  Proof.
    intros p m c n y Hg Hin. rewrite (get_snoc _ _ _ _ _ Hg). apply (in_nlookup m); [|exact Hin].
    apply (scan_wf_get _ _ _ HwfN Hg).
  Qed.

  Lemma old_dir_nil : forall p mask,
    (forall n q, ct_get (p ++ n :: q) oc = None) -> old_dir p mask [] [].
  Proof.
    intros p mask Hc. constructor; [left; reflexivity|exists [], cnt0; reflexivity|].
    intros n q. rewrite Hc. reflexivity.
  Qed.

  (* ----- regular files: the digest cache gives what hashing gives ----- *)
  Lemma file_equiv : forall p mask co oldkids m c n mf df,
    get p XN = Some (NDir m c) -> In (n, NFile mf df) c -> old_dir p mask co oldkids ->
    scan_file H flt cfg oc (p ++ [n]) mf df = scan_file H flt cfg ct_empty (p ++ [n]) mf df.
  Proof.
    intros p mask co oldkids m c n mf df Hg Hin Hod.
    pose proof (new_child_get _ _ _ _ _ Hg Hin) as Hgn.
    pose proof (scan_wf_get _ _ _ HwfN Hgn) as Hwf.
    unfold scan_wf in Hwf. apply andb_true_iff in Hwf. destruct Hwf as [Hwf _].
    cbn [wf_node node_meta] in Hwf. apply andb_true_iff in Hwf. destruct Hwf as [_ Hsz].
    apply N.eqb_eq in Hsz.
    unfold scan_file. rewrite ct_get_empty.
    destruct (Hnofault (p ++ [n])) as [Ho Hr]. rewrite Ho, Hr.
    rewrite <- Hsz. rewrite N.eqb_refl. cbn [negb].
    destruct (ct_get (p ++ [n]) oc) as [ce|] eqn:Ec; [|reflexivity].
    destruct (content_match (S_IFREG + m_mode mf) mf ce) eqn:Em; [|reflexivity].
    pose proof (od_cache _ _ _ _ Hod n []) as Hc. rewrite Ec in Hc.
    destruct (alookup n oldkids) as [[eo to]|] eqn:El; [|discriminate]. cbn [ct_get snd] in Hc.
    destruct (old_lookup _ _ _ _ _ _ _ Hod El) as [no [yo [ic [cnt [Hino Er]]]]].
    pose proof (fchild_class _ _ _ _ _ _ _ _ _ Er) as Hcl.
    destruct Hcl as [m2 c2 mask' out2 ics2 cnts2 ic' _ _ _ _ _ Ht _|mo do Hk Hy Ht Hmt _|Hv _ _].
    - subst to. discriminate.
    - subst no yo to. cbn [ct_val] in Hc.
      assert (Ece : ce = new_centry (S_IFREG + m_mode mo) mo (H do)) by congruence.
      subst ce. clear Hc.
      pose proof (old_child_get _ _ _ _ _ _ Hod Hino) as Hgo.
      unfold content_match in Em.
      apply andb_true_iff in Em. destruct Em as [Em Efid].
      apply andb_true_iff in Em. destruct Em as [Em Esize].
      apply andb_true_iff in Em. destruct Em as [_ Emtime].
      apply N.eqb_eq in Efid. apply N.eqb_eq in Esize. apply N.eqb_eq in Emtime.
      cbn [new_centry ce_mtime] in Emtime. cbn [new_centry ce_size] in Esize. cbn [new_centry ce_fid] in Efid.
      assert (Ed : do = df) by (apply (G2 _ _ _ _ _ Hgo Hgn); congruence).
      subst do. change (ce_digest (new_centry (S_IFREG + m_mode mo) mo (H df))) with (H df).
      change (ce_mode (new_centry (S_IFREG + m_mode mo) mo (H df))) with (S_IFREG + m_mode mo)%N.
      destruct (N.eqb (S_IFREG + m_mode mf) (S_IFREG + m_mode mo)) eqn:Emode.
      + apply N.eqb_eq in Emode. unfold file_finish.
        assert (Hmt' : mtime_valid (m_mtime mf) = true) by congruence.
        rewrite Hmt'. cbn [negb]. unfold new_centry. rewrite Emode.
        rewrite Emtime, Esize, Efid. reflexivity.
      + reflexivity.
    - congruence.
  Qed.

  (* ----- the induction ----- *)
  Definition accel_ok (y : node) : Prop :=
    forall p mask bl co (oldkids : list (name * (entry * ctree))),
      get p XN = Some y -> is_dir y = true ->
      old_dir p mask co oldkids ->
      (bl = None \/ bl = Some (amap fst oldkids)) ->
      res_equiv (adir p y bl mask) (fdir' p y None mask).

  Lemma run_kids_nil_out : forall out ics cnts,
    run_kids [] = Some (out, ics, cnts) -> out = [].
  Proof. intros out ics cnts Hr. cbn in Hr. congruence. Qed.

  Lemma dir_baseline_cases : forall bl (oldkids : list (name * (entry * ctree))) n,
    (bl = None \/ bl = Some (amap fst oldkids)) ->
    dir_baseline bl n =
    match bl, alookup n oldkids with
    | Some _, Some (EDir d, _) => Some d
    | _, _ => None
    end.
  Proof.
    intros bl oldkids n [->| ->]; [reflexivity|]. unfold dir_baseline.
    rewrite lookup_alookup, alookup_amap. destruct (alookup n oldkids) as [[e t]|]; [|reflexivity].
    cbn [option_map fst]. destruct e; reflexivity.
  Qed.

  Lemma dir_equiv : forall p mask bl co oldkids m c n m2 c2 mask',
    get p XN = Some (NDir m c) -> In (n, NDir m2 c2) c ->
    old_dir p mask co oldkids ->
    (bl = None \/ bl = Some (amap fst oldkids)) ->
    is_temp n = false -> utf8_valid n = true ->
    decide mask (ign (p ++ [n]) true) = DScan mask' ->
    accel_ok (NDir m2 c2) ->
    res_equiv (handle H flt cfg oc oic dirty adir (p ++ [n]) bl n (NDir m2 c2) mask')
              (fnode' (p ++ [n]) (NDir m2 c2) mask').
  Proof.
    intros p mask bl co oldkids m c n m2 c2 mask' Hg Hin Hod Hbl Et Ev Ed IHy.
    pose proof (new_child_get _ _ _ _ _ Hg Hin) as Hgn.
    unfold handle. cbn [fnode]. rewrite (dir_baseline_cases _ _ _ Hbl).
    (* the case where nothing usable is known about the old content at n *)
    assert (Hnone : (forall n2 q, ct_get ((p ++ [n]) ++ n2 :: q) oc = None) ->
                    res_equiv (adir (p ++ [n]) (NDir m2 c2) None mask')
                              (fdir' (p ++ [n]) (NDir m2 c2) None mask')).
    { intro Hc. apply (IHy (p ++ [n]) mask' None [] []); auto.
      apply old_dir_nil. exact Hc. }
    destruct (alookup n oldkids) as [[eo to]|] eqn:El.
    2:{ assert (Hc : forall n2 q, ct_get ((p ++ [n]) ++ n2 :: q) oc = None).
        { intros n2 q. rewrite <- app_assoc. cbn [app]. rewrite (od_cache _ _ _ _ Hod), El. reflexivity. }
        destruct bl; apply Hnone; exact Hc. }
    destruct (old_lookup _ _ _ _ _ _ _ Hod El) as [no [yo [ic [cnt [Hino Er]]]]].
    pose proof (fchild_class _ _ _ _ _ _ _ _ _ Er) as Hcl.
    assert (Hflat : ct_kids to = [] -> (forall d, eo <> EDir d) ->
                    res_equiv match bl with
                              | Some _ => match eo with
                                          | EDir d => if reusable dirty (p ++ [n]) d then reuse oc oic (p ++ [n]) d
                                                      else adir (p ++ [n]) (NDir m2 c2) (Some d) mask'
                                          | _ => adir (p ++ [n]) (NDir m2 c2) None mask'
                                          end
                              | None => adir (p ++ [n]) (NDir m2 c2) None mask'
                              end (fdir' (p ++ [n]) (NDir m2 c2) None mask')).
    { intros Hk Hne.
      assert (Hc : forall n2 q, ct_get ((p ++ [n]) ++ n2 :: q) oc = None).
      { intros n2 q. rewrite <- app_assoc. cbn [app]. rewrite (od_cache _ _ _ _ Hod), El.
        cbn [snd ct_get]. rewrite Hk. reflexivity. }
      destruct bl; [|apply Hnone; exact Hc].
      destruct eo; try (apply Hnone; exact Hc). exfalso. apply (Hne c0). reflexivity. }
    assert (Hgoal : res_equiv match bl with
                              | Some _ => match eo with
                                          | EDir d => if reusable dirty (p ++ [n]) d then reuse oc oic (p ++ [n]) d
                                                      else adir (p ++ [n]) (NDir m2 c2) (Some d) mask'
                                          | _ => adir (p ++ [n]) (NDir m2 c2) None mask'
                                          end
                              | None => adir (p ++ [n]) (NDir m2 c2) None mask'
                              end (fdir' (p ++ [n]) (NDir m2 c2) None mask')).
    2:{ destruct bl; [destruct eo|]; exact Hgoal. }
    destruct Hcl as [mo2 co2 mask'o out2 ics2 cnts2 ic' Hk Hy Hdo Hrk He Ht Hfn|mo do Hk Hy Ht Hmt Hne|Hv Hk Hne].
    2:{ apply Hflat; [subst to; reflexivity|exact Hne]. }
    2:{ apply Hflat; assumption. }
    (* the old content at n was a directory that was scanned *)
    subst no yo. rewrite Ed in Hdo. inversion Hdo. subst mask'o. clear Hdo.
    pose proof (old_child_get _ _ _ _ _ _ Hod Hino) as Hgo.
    assert (Hod2 : old_dir (p ++ [n]) mask' co2 out2).
    { constructor.
      - right. exists mo2. exact Hgo.
      - exists ics2, cnts2. exact Hrk.
      - intros n2 q. rewrite <- app_assoc. cbn [app]. rewrite (od_cache _ _ _ _ Hod), El.
        cbn [snd]. subst to. cbn [ct_get ct_kids]. rewrite alookup_amap.
        destruct (alookup n2 out2); reflexivity. }
    destruct bl as [bc|].
    2:{ apply (IHy (p ++ [n]) mask' None co2 out2); auto. }
    destruct mask'.
    { subst eo. apply (IHy (p ++ [n]) true None co2 out2); auto. }
    subst eo. cbv iota.
    destruct (reusable dirty (p ++ [n]) (amap fst out2)) eqn:Eru.
    2:{ apply (IHy (p ++ [n]) false (Some (amap fst out2)) co2 out2); auto. }
    (* re-use of the baseline *)
    unfold reusable in Eru. apply negb_true_iff in Eru. apply orb_false_iff in Eru.
    destruct Eru as [Edirty Enonempty].
    assert (Hco2 : co2 <> []).
    { intros ->. apply run_kids_nil_out in Hrk. subst out2. discriminate. }
    assert (Eyy : NDir mo2 co2 = NDir m2 c2).
    { apply (G1 (p ++ [n])); auto. }
    rewrite Eyy in Hfn.
    pose proof (scan_wf_get _ _ _ HwfN Hgn) as Hwf2.
    destruct (fresh_counts _ _ _ _ _ _ Hwf2 _ _ _ _ _ _ Hfn) as [C1 [C2 [C3 [_ [C5 C6]]]]].
    assert (Hc : forall q, ct_get ((p ++ [n]) ++ q) oc = ct_get q to).
    { intro q. rewrite <- app_assoc. cbn [app]. rewrite (od_cache _ _ _ _ Hod), El. reflexivity. }
    destruct (walk_shape oc oic _ _ _ C6 Hc) as [icw Hw].
    unfold reuse. rewrite Hw. cbn [fnode] in Hfn. rewrite Hfn. cbn [res_equiv].
    split; [reflexivity|split; [reflexivity|]].
    apply cnt_eq; cbn [cnt_et n_dirs n_files n_links n_bytes]; congruence.
  Qed.

  Lemma child_equiv : forall p mask bl co oldkids m c n y,
    get p XN = Some (NDir m c) -> In (n, y) c ->
    old_dir p mask co oldkids ->
    (bl = None \/ bl = Some (amap fst oldkids)) ->
    accel_ok y ->
    cres_equiv (achild p mask bl (n, y)) (fchild p mask (n, y)).
  Proof.
    intros p mask bl co oldkids m c n y Hg Hin Hod Hbl IHy. cbn [fst snd].
    rewrite !child_res_eq. rewrite ignore_of_oic. unfold ignore_of. cbn [ic_lookup].
    destruct (flt (p ++ [n]) FCheck); try exact I;
      (destruct (is_temp n) eqn:Et; [exact I|]);
      (destruct (utf8_valid n) eqn:Ev; cbn [negb]; [|apply cres_equiv_refl]).
    all: destruct y as [m2 c2|mf df|ml tl|mx ty]; try apply cres_equiv_refl; cbv zeta; cbn [is_dir].
    all: match goal with |- context [decide ?mk ?v] => destruct (decide mk v) as [|mask'] eqn:Ed end;
      [cbn [cres_equiv]; repeat split; reflexivity|].
    all: apply of_hres_equiv; rewrite handle_fresh.
    all: first [ eapply (dir_equiv p mask bl co oldkids m c n); eassumption
               | unfold handle; cbn [fnode]; rewrite (file_equiv _ _ _ _ _ _ _ _ _ Hg Hin Hod); apply res_equiv_refl
               | apply res_equiv_refl ].
  Qed.

  Lemma accel_dir : forall y, accel_ok y.
  Proof.
    induction y as [m c IH|m d|m t|m ty] using node_nested_ind; unfold accel_ok;
      intros p mask bl co oldkids Hg Hd Hod Hbl; try discriminate.
    unfold fdir. rewrite !scan_dir_dir. fold fdir'.
    destruct (negb (N.eqb (m_dev m) rootdev)); [apply res_equiv_refl|].
    destruct (flt p FOpenDir) as [|e|]; [|apply res_equiv_refl|exact I].
    destruct (flt p FReadContents) as [|e|]; [|apply res_equiv_refl|exact I].
    assert (HF : Forall2 cres_equiv (map (achild p mask bl) c) (map (fchild p mask) c)).
    { apply Forall2_map_in. intros [n y] Hin. rewrite Forall_forall in IH.
      apply (child_equiv p mask bl co oldkids m c n y Hg Hin Hod Hbl). apply (IH _ Hin). }
    apply run_kids_equiv in HF.
    destruct (run_kids (map (achild p mask bl) c)) as [[[o1 i1] c1]|];
      destruct (run_kids (map (fchild p mask) c)) as [[[o2 i2] c2]|]; cbn in HF; try tauto.
    destruct HF as [-> ->]. cbn. auto.
  Qed.
End C13.
