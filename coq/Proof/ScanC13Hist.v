(* C13: histories of edit batches, supersets of the recheck paths, the
   "every changed path is reported" form of the hypothesis, and the necessity
   of the no-unreadable-file hypothesis. *)
From Coq Require Import List Bool Arith String Ascii NArith Lia.
From Mv Require Import Model.Entry Model.Fs Model.Scan Model.ScanSpec
     Proof.EntryFacts Proof.ScanFacts Proof.ScanC12 Proof.ScanCount Proof.ScanWalk
     Proof.ScanC12Top Proof.ScanC13 Proof.ScanIc Proof.ScanC13Top.
Import ListNotations.
Open Scope string_scope.
Open Scope list_scope.

(* the relation between the tree before and after an edit batch under which
   C13 promises equality *)
Definition edit_ok (recheck : list path) (xo xn : node) : Prop :=
  scan_wf xn = true /\ is_dir xn = true /\
  (is_dir xo = true ->
   m_dev (node_meta xo) = m_dev (node_meta xn) /\
   unchanged_off_dirty recheck xo xn /\ key_sound xo xn /\ (recheck = [] -> xo = xn)).

Definition sstate := (snapshot * ctree * icache)%type.

Lemma last_cons_default : forall {A} (l : list A) a d1 d2, last (a :: l) d1 = last (a :: l) d2.
Proof.
  intros A l. induction l as [|b l IH]; intros a d1 d2; [reflexivity|].
  change (last (a :: b :: l) d1) with (last (b :: l) d1).
  change (last (a :: b :: l) d2) with (last (b :: l) d2). apply IH.
Qed.

Section Hist.
  Variable H : string -> string.
  Variable ign : path -> bool -> ival.
  Variable flt : path -> fop -> outcome.
  Variable cfg : config.
  Hypothesis Hnf : nofilefaults flt.

  Lemma scan_full_ic_ok : forall x s c ic,
    is_dir x = true -> scan_full H ign flt cfg (Some x) = SOk s c ic -> ic_consistent ign ic.
  Proof.
    intros [m cc| | |] s c ic Hd Hs; try discriminate. rewrite scan_full_dir in Hs.
    destruct (flt [] FOpenRoot) as [|e|]; [| |discriminate].
    2:{ destruct (is_not_exist e); [|discriminate]. inversion Hs. apply ic_consistent_nil. }
    pose proof (scan_dir_ic_ok H ign (root_opened flt) cfg (m_dev m) ct_empty [] (ic_consistent_nil ign)
                               nocache (NDir m cc) [] None false) as Hic.
    unfold fdir in Hs.
    destruct (scan_dir H ign (root_opened flt) cfg (m_dev m) ct_empty [] nocache [] (NDir m cc) None false)
      as [| |e t ic' cnt]; try discriminate.
    inversion Hs. subst. apply ic_all_ok_consistent. exact Hic.
  Qed.

  (* one accelerated scan after an edit batch *)
  Theorem c13_step : forall xo xn recheck s0 c0 ic0f ic0,
    scan_wf xo = true -> edit_ok recheck xo xn ->
    scan_full H ign flt cfg (Some xo) = SOk s0 c0 ic0f ->
    ic_consistent ign ic0 ->
    out_agree ign (scan_accel H ign flt cfg s0 recheck c0 ic0 (Some xn))
              (scan_full H ign flt cfg (Some xn)).
  Proof.
    intros xo xn recheck s0 c0 ic0f ic0 Hwo [Hwn [Hdn Hrel]] Hs0 Hic.
    destruct xn as [mN cN| | |]; try discriminate.
    apply (c13_equal_dir H ign flt cfg Hnf (Some xo) mN cN recheck s0 c0 ic0f ic0); auto.
    intros mo co Exo. inversion Exo. subst xo. apply Hrel. reflexivity.
  Qed.

  (* the controller's loop: every scan uses the previous result as baseline *)
  Fixpoint run_history (st : sstate) (steps : list (node * list path)) : option sstate :=
    match steps with
    | [] => Some st
    | (x, rc) :: rest =>
      match scan_accel H ign flt cfg (fst (fst st)) rc (snd (fst st)) (snd st) (Some x) with
      | SOk s c ic => run_history (s, c, ic) rest
      | SErr => None
      end
    end.

  Fixpoint history_ok (x0 : node) (steps : list (node * list path)) : Prop :=
    match steps with
    | [] => True
    | (x, rc) :: rest => edit_ok rc x0 x /\ history_ok x rest
    end.

  Definition last_tree (x0 : node) (steps : list (node * list path)) : node :=
    fst (last steps (x0, [])).

  Theorem c13_history_lemma : forall steps x0 s0 c0 ic0 s c ic,
    scan_wf x0 = true -> is_dir x0 = true ->
    scan_full H ign flt cfg (Some x0) = SOk s0 c0 ic0 ->
    history_ok x0 steps ->
    run_history (s0, c0, ic0) steps = Some (s, c, ic) ->
    exists ic', scan_full H ign flt cfg (Some (last_tree x0 steps)) = SOk s c ic'.
  Proof.
    assert (Hgen : forall steps x0 s0 c0 icf ic0 s c ic,
      scan_wf x0 = true ->
      scan_full H ign flt cfg (Some x0) = SOk s0 c0 icf -> ic_consistent ign ic0 ->
      history_ok x0 steps ->
      run_history (s0, c0, ic0) steps = Some (s, c, ic) ->
      exists ic', scan_full H ign flt cfg (Some (last_tree x0 steps)) = SOk s c ic').
    { induction steps as [|[x rc] rest IH]; intros x0 s0 c0 icf ic0 s c ic Hw Hs Hic Hok Hrun.
      - cbn in Hrun. inversion Hrun. subst. exists icf. exact Hs.
      - cbn [history_ok] in Hok. destruct Hok as [Hedit Hrest].
        cbn [run_history fst snd] in Hrun.
        pose proof (c13_step x0 x rc s0 c0 icf ic0 Hw Hedit Hs Hic) as Hag.
        destruct (scan_accel H ign flt cfg s0 rc c0 ic0 (Some x)) as [|s1 c1 ic1]; [discriminate|].
        destruct (scan_full H ign flt cfg (Some x)) as [|s1' c1' ic1'] eqn:Ef; cbn in Hag; [tauto|].
        destruct Hag as [-> [-> Hic1]].
        destruct Hedit as [Hwx _].
        destruct (IH x s1' c1' ic1' ic1 s c ic Hwx Ef Hic1 Hrest Hrun) as [ic' Hl].
        exists ic'. unfold last_tree in *. cbn [last].
        destruct rest as [|r rest']; [exact Hl|].
        rewrite (last_cons_default rest' r (x0, []) (x, [])). exact Hl. }
    intros steps x0 s0 c0 ic0 s c ic Hw Hd Hs Hok Hrun.
    apply (Hgen steps x0 s0 c0 ic0 ic0 s c ic Hw Hs); auto.
    apply (scan_full_ic_ok x0 s0 c0 ic0 Hd Hs).
  Qed.

  (* supersets of the recheck paths *)
  Lemma dirty_of_mono : forall r1 r2 q,
    incl r1 r2 -> dirty_of r2 q = false -> dirty_of r1 q = false.
  Proof.
    intros r1 r2 q Hi Hd. unfold dirty_of in *.
    destruct (existsb (fun r => is_prefix q r) r1) eqn:E; [|reflexivity].
    apply existsb_exists in E. destruct E as [r [Hin Hp]].
    assert (Hc : existsb (fun r => is_prefix q r) r2 = true).
    { apply existsb_exists. exists r. split; [apply Hi; exact Hin|exact Hp]. }
    congruence.
  Qed.

  Lemma edit_ok_mono : forall r1 r2 xo xn, incl r1 r2 -> edit_ok r1 xo xn -> edit_ok r2 xo xn.
  Proof.
    intros r1 r2 xo xn Hi [H1 [H2 H3]]. split; [exact H1|split; [exact H2|]].
    intro Hd. destruct (H3 Hd) as [A [B [C D]]]. split; [exact A|split; [|split; [exact C|]]].
    - intros q yo yn Hq. apply B. apply (dirty_of_mono r1 r2 q Hi Hq).
    - intro Hn. apply D. subst r2. destruct r1 as [|r r1]; [reflexivity|].
      exfalso. apply (Hi r). left. reflexivity.
  Qed.

  Theorem c13_extra_paths_lemma : forall xo xn r1 r2 s0 c0 ic0f ic0,
    scan_wf xo = true -> edit_ok r1 xo xn -> incl r1 r2 ->
    scan_full H ign flt cfg (Some xo) = SOk s0 c0 ic0f ->
    ic_consistent ign ic0 ->
    out_agree ign (scan_accel H ign flt cfg s0 r2 c0 ic0 (Some xn))
              (scan_full H ign flt cfg (Some xn)).
  Proof.
    intros xo xn r1 r2 s0 c0 ic0f ic0 Hw He Hi Hs Hic.
    apply (c13_step xo xn r2 s0 c0 ic0f ic0 Hw (edit_ok_mono r1 r2 xo xn Hi He) Hs Hic).
  Qed.
End Hist.

(* ---------- a non-trivial instance ---------- *)
Definition ex13_old : node :=
  NDir (ex_meta 493 0)
    [ ("a", NFile (ex_meta 420 1) "x");
      ("d", NDir (ex_meta 493 0) [("f", NFile (ex_meta 493 2) "yy"); ("l", NLink (ex_meta 511 1) "f")]) ].

Definition ex13_new : node :=
  NDir (ex_meta 493 0)
    [ ("a", NFile {| m_mode := 420; m_size := 2; m_mtime := 1600000001000000000; m_fid := 7; m_dev := 3 |} "zz");
      ("b", NLink (ex_meta 511 1) "a");
      ("d", NDir (ex_meta 493 0) [("f", NFile (ex_meta 493 2) "yy"); ("l", NLink (ex_meta 511 1) "f")]) ].

Definition ex13_recheck : list path := [["a"]; ["b"]].

Lemma ex13_edit_ok : edit_ok ex13_recheck ex13_old ex13_new.
Proof.
  split; [vm_compute; reflexivity|split; [reflexivity|]]. intros _.
  split; [reflexivity|split; [|split; [|discriminate]]].
  - intros q yo yn Hq Ho Hn Hdo Hdn _.
    destruct q as [|n q]; [discriminate|].
    cbn [ex13_old ex13_new get nlookup] in Ho, Hn.
    destruct (String.eqb n "a") eqn:Ea.
    { destruct q; cbn in Ho; [|discriminate]. inversion Ho. subst. discriminate. }
    destruct (String.eqb n "b") eqn:Eb.
    { apply str_eqb_eq in Eb. subst n. discriminate. }
    destruct (String.eqb n "d"); congruence.
  - intros q mo do mn dn Ho Hn Hm Hsz Hf.
    destruct q as [|n q]; [discriminate|].
    cbn [ex13_old ex13_new get nlookup] in Ho, Hn.
    destruct (String.eqb n "a") eqn:Ea.
    { destruct q; cbn in Ho, Hn; [|discriminate]. inversion Ho. inversion Hn. subst. discriminate. }
    destruct (String.eqb n "b") eqn:Eb.
    { apply str_eqb_eq in Eb. subst n. discriminate. }
    destruct (String.eqb n "d"); congruence.
Qed.

Lemma ex13_equal :
  exists s0 c0 ic0 s c ic ic',
    scan_full ex_H ex_ign ex_flt ex_cfg (Some ex13_old) = SOk s0 c0 ic0 /\
    scan_accel ex_H ex_ign ex_flt ex_cfg s0 ex13_recheck c0 ic0 (Some ex13_new) = SOk s c ic /\
    scan_full ex_H ex_ign ex_flt ex_cfg (Some ex13_new) = SOk s c ic' /\
    at_path (s_content s) ["d"; "f"] = Some (EFile true "h:yy") /\
    at_path (s_content s) ["a"] = Some (EFile false "h:zz").
Proof. do 7 eexists. vm_compute. repeat split; reflexivity. Qed.

(* ---------- why unreadable files must be excluded ---------- *)
(* A file whose (mtime, size, file id) are unchanged but which can no longer
   be opened is reported from the digest cache by a scan that has one, and as
   a problem by a scan that has none. *)
Definition ex13_flt (p : path) (o : fop) : outcome :=
  match o with
  | FOpenFile => if path_eqb p ["a"] then Fail EACCES else Ok
  | _ => Ok
  end.

Lemma ex13_unreadable :
  exists s0 c0 ic0 s c ic s' c' ic',
    scan_full ex_H ex_ign ex_flt ex_cfg (Some ex13_old) = SOk s0 c0 ic0 /\
    scan_accel ex_H ex_ign ex13_flt ex_cfg s0 [["a"]] c0 ic0 (Some ex13_old) = SOk s c ic /\
    scan_full ex_H ex_ign ex13_flt ex_cfg (Some ex13_old) = SOk s' c' ic' /\
    at_path (s_content s) ["a"] = Some (EFile false "h:x") /\
    at_path (s_content s') ["a"] = Some (EProblem "unable to open file: permission denied").
Proof. do 9 eexists. vm_compute. repeat split; reflexivity. Qed.

(* ---------- "every created, deleted or modified path is reported" ---------- *)
Definition shallow_same (a b : node) : Prop :=
  match a, b with
  | NDir m c, NDir m' c' => m = m' /\ map fst c = map fst c'
  | NFile m d, NFile m' d' => m = m' /\ d = d'
  | NLink m t, NLink m' t' => m = m' /\ t = t'
  | NOther m ty, NOther m' ty' => m = m' /\ ty = ty'
  | _, _ => False
  end.

(* the path q was created, deleted or modified between XO and XN *)
Definition changed (XO XN : node) (q : path) : Prop :=
  match get q XO, get q XN with
  | None, None => False
  | Some a, Some b => ~ shallow_same a b
  | _, _ => True
  end.

Definition same_at (yo yn : node) (q : path) : Prop :=
  match get q yo, get q yn with
  | None, None => True
  | Some a, Some b => shallow_same a b
  | _, _ => False
  end.

Lemma alist_ext : forall {A} (c c' : list (name * A)),
  sorted_names (map fst c) = true -> sorted_names (map fst c') = true ->
  (forall k, alookup k c = alookup k c') -> c = c'.
Proof.
  intros A. induction c as [|[n y] t IH]; intros [|[n' y'] t'] Hs Hs' He.
  - reflexivity.
  - specialize (He n'). cbn in He. rewrite str_eqb_refl in He. discriminate.
  - specialize (He n). cbn in He. rewrite str_eqb_refl in He. discriminate.
  - cbn [map fst] in Hs, Hs'.
    pose proof (sorted_names_head_notin _ _ Hs) as Hn.
    pose proof (sorted_names_head_notin _ _ Hs') as Hn'.
    pose proof Hs as Hs0. pose proof Hs' as Hs0'.
    apply sorted_names_cons in Hs0. destruct Hs0 as [Hgt Hst].
    apply sorted_names_cons in Hs0'. destruct Hs0' as [Hgt' Hst'].
    assert (En : n = n').
    { pose proof (He n) as H1. pose proof (He n') as H2. cbn [alookup] in H1, H2.
      rewrite str_eqb_refl in H1, H2.
      destruct (String.eqb n n') eqn:E; [apply str_eqb_eq in E; exact E|].
      rewrite (str_eqb_sym n' n), E in H2.
      assert (I1 : In n (map fst t')) by (apply alookup_in_keys; congruence).
      assert (I2 : In n' (map fst t)) by (apply alookup_in_keys; congruence).
      pose proof (Hgt' _ I1) as L1. pose proof (Hgt _ I2) as L2.
      rewrite (str_ltb_asym _ _ L1) in L2. discriminate. }
    subst n'.
    assert (Ey : y = y').
    { specialize (He n). cbn [alookup] in He. rewrite str_eqb_refl in He. congruence. }
    subst y'. f_equal. apply IH; [exact Hst|exact Hst'|].
    intro k. specialize (He k). cbn [alookup] in He.
    destruct (String.eqb k n) eqn:E; [|exact He].
    apply str_eqb_eq in E. subst k.
    rewrite (proj2 (alookup_none_notin n t) Hn), (proj2 (alookup_none_notin n t') Hn'). reflexivity.
Qed.

Lemma deep_eq : forall yo,
  scan_wf yo = true -> forall yn, scan_wf yn = true ->
  (forall q, same_at yo yn q) -> yo = yn.
Proof.
  induction yo as [m c IH|m d|m t|m ty] using node_nested_ind; intros Hwo yn Hwn Hs.
  - pose proof (Hs []) as H0. cbn in H0. destruct yn as [m' c'| | |]; try contradiction.
    destruct H0 as [<- Hnames]. f_equal.
    apply alist_ext; [apply (scan_wf_sorted _ _ Hwo)|apply (scan_wf_sorted _ _ Hwn)|].
    intro k. rewrite <- (nlookup_alookup k c), <- (nlookup_alookup k c').
    destruct (nlookup k c) as [y|] eqn:Ec; destruct (nlookup k c') as [y'|] eqn:Ec'.
    + f_equal. rewrite Forall_forall in IH. apply nlookup_in in Ec. apply nlookup_in in Ec'.
      apply (IH _ Ec (scan_wf_child _ _ _ _ Hwo Ec) y' (scan_wf_child _ _ _ _ Hwn Ec')).
      intro q. specialize (Hs (k :: q)). unfold same_at in Hs. cbn [get] in Hs.
      rewrite (in_nlookup _ _ _ _ Hwo Ec), (in_nlookup _ _ _ _ Hwn Ec') in Hs. exact Hs.
    + exfalso. rewrite nlookup_alookup in Ec, Ec'.
      assert (I1 : In k (map fst c)) by (apply alookup_in_keys; congruence).
      rewrite Hnames in I1. apply alookup_in_keys in I1. congruence.
    + exfalso. rewrite nlookup_alookup in Ec, Ec'.
      assert (I1 : In k (map fst c')) by (apply alookup_in_keys; congruence).
      rewrite <- Hnames in I1. apply alookup_in_keys in I1. congruence.
    + reflexivity.
  - specialize (Hs []). cbn in Hs. destruct yn; try contradiction. destruct Hs as [-> ->]. reflexivity.
  - specialize (Hs []). cbn in Hs. destruct yn; try contradiction. destruct Hs as [-> ->]. reflexivity.
  - specialize (Hs []). cbn in Hs. destruct yn; try contradiction. destruct Hs as [-> ->]. reflexivity.
Qed.

Lemma is_prefix_app : forall p q r, is_prefix (p ++ q) r = true -> is_prefix p r = true.
Proof.
  induction p as [|a p IH]; intros q r Hp; [reflexivity|].
  destruct r as [|b r]; [discriminate|]. cbn [app is_prefix] in *.
  apply andb_true_iff in Hp. destruct Hp as [-> Hp]. apply (IH _ _ Hp).
Qed.

Lemma dirty_of_up : forall recheck p q, dirty_of recheck p = false -> dirty_of recheck (p ++ q) = false.
Proof.
  intros recheck p q Hd. unfold dirty_of in *.
  destruct (existsb (fun r => is_prefix (p ++ q) r) recheck) eqn:E; [|reflexivity].
  apply existsb_exists in E. destruct E as [r [Hin Hp]].
  assert (Hc : existsb (fun r => is_prefix p r) recheck = true).
  { apply existsb_exists. exists r. split; [exact Hin|apply (is_prefix_app _ _ _ Hp)]. }
  congruence.
Qed.

Lemma shallow_same_dec : forall a b, shallow_same a b \/ ~ shallow_same a b.
Proof.
  assert (Hm : forall m m' : meta, m = m' \/ m <> m').
  { intros [a1 a2 a3 a4 a5] [b1 b2 b3 b4 b5].
    destruct (N.eq_dec a1 b1); [|right; congruence]. destruct (N.eq_dec a2 b2); [|right; congruence].
    destruct (N.eq_dec a3 b3); [|right; congruence]. destruct (N.eq_dec a4 b4); [|right; congruence].
    destruct (N.eq_dec a5 b5); [|right; congruence]. left. congruence. }
  intros [m c|m d|m t|m ty] [m' c'|m' d'|m' t'|m' ty']; cbn; try (right; tauto).
  - destruct (Hm m m'); [|right; tauto].
    destruct (list_eq_dec string_dec (map fst c) (map fst c')); [left; auto|right; tauto].
  - destruct (Hm m m'); [|right; tauto]. destruct (string_dec d d'); [left; auto|right; tauto].
  - destruct (Hm m m'); [|right; tauto]. destruct (string_dec t t'); [left; auto|right; tauto].
  - destruct (Hm m m'); [|right; tauto]. destruct (N.eq_dec ty ty'); [left; auto|right; tauto].
Qed.

(* if every changed path is a recheck path (or lies above one), every
   directory that is not dirty is unchanged *)
Lemma reported_unchanged : forall recheck XO XN,
  scan_wf XO = true -> scan_wf XN = true ->
  (forall q, changed XO XN q -> dirty_of recheck q = true) ->
  unchanged_off_dirty recheck XO XN /\ (recheck = [] -> XO = XN).
Proof.
  intros recheck XO XN Hwo Hwn Hrep.
  assert (Hsub : forall q yo yn, dirty_of recheck q = false ->
            get q XO = Some yo -> get q XN = Some yn -> yo = yn).
  { intros q yo yn Hq Ho Hn.
    apply (deep_eq yo (scan_wf_get _ _ _ Hwo Ho) yn (scan_wf_get _ _ _ Hwn Hn)).
    intro q'. unfold same_at.
    pose proof (Hrep (q ++ q')) as Hr. unfold changed in Hr. rewrite !get_app, Ho, Hn in Hr.
    pose proof (dirty_of_up recheck q q' Hq) as Hd.
    destruct (get q' yo) as [a|]; destruct (get q' yn) as [b|].
    - destruct (shallow_same_dec a b) as [Hs|Hs]; [exact Hs|]. specialize (Hr Hs). congruence.
    - specialize (Hr I). congruence.
    - specialize (Hr I). congruence.
    - exact I. }
  split.
  - intros q yo yn Hq Ho Hn _ _ _. apply (Hsub q yo yn Hq Ho Hn).
  - intros ->. apply (Hsub [] XO XN); reflexivity.
Qed.

(* ---------- the statement in the form "every changed path is reported" ---------- *)
Lemma is_prefix_refl : forall q, is_prefix q q = true.
Proof. induction q as [|a q IH]; [reflexivity|]. cbn. rewrite str_eqb_refl. exact IH. Qed.

Lemma dirty_of_in : forall recheck q, In q recheck -> dirty_of recheck q = true.
Proof.
  intros recheck q Hin. unfold dirty_of. apply existsb_exists. exists q.
  split; [exact Hin|apply is_prefix_refl].
Qed.

Theorem c13_equal_reported_lemma : forall H ign flt cfg xo xn recheck s0 c0 ic0f ic0,
  nofilefaults flt ->
  scan_wf xo = true -> scan_wf xn = true -> is_dir xo = true -> is_dir xn = true ->
  m_dev (node_meta xo) = m_dev (node_meta xn) ->
  (forall q, changed xo xn q -> In q recheck) ->
  key_sound xo xn ->
  scan_full H ign flt cfg (Some xo) = SOk s0 c0 ic0f ->
  ic_consistent ign ic0 ->
  out_agree ign (scan_accel H ign flt cfg s0 recheck c0 ic0 (Some xn))
            (scan_full H ign flt cfg (Some xn)).
Proof.
  intros H ign flt cfg xo xn recheck s0 c0 ic0f ic0 Hnf Hwo Hwn Hdo Hdn Hdev Hrep Hkey Hs Hic.
  destruct (reported_unchanged recheck xo xn Hwo Hwn
              (fun q Hc => dirty_of_in recheck q (Hrep q Hc))) as [HG1 Hnil].
  apply (c13_step H ign flt cfg Hnf xo xn recheck s0 c0 ic0f ic0 Hwo); auto.
  split; [exact Hwn|split; [exact Hdn|]]. intros _. auto.
Qed.

(* ---------- the checker ---------- *)
Definition c13_holds (accel full : scan_out) : Prop :=
  match accel, full with
  | SOk sa _ _, SOk sf _ _ => sa = sf
  | SErr, SErr => True
  | _, _ => False
  end.

Lemma snapshot_eqb_eq : forall a b, snapshot_eqb a b = true -> a = b.
Proof.
  intros [c1 p1 d1 n1] [c2 p2 d2 n2] He. unfold snapshot_eqb in He. cbn in He.
  apply andb_true_iff in He. destruct He as [He H4]. apply andb_true_iff in He. destruct He as [He H3].
  apply andb_true_iff in He. destruct He as [H1 H2].
  apply oentry_eqb_eq in H1. apply eqb_prop in H2. apply eqb_prop in H3. apply cnt_eqb_eq in H4.
  subst. reflexivity.
Qed.

Lemma snapshot_eqb_refl : forall a, snapshot_eqb a a = true.
Proof.
  intros [c p d n]. unfold snapshot_eqb. cbn. rewrite oentry_eqb_refl, !eqb_reflx, cnt_eqb_refl. reflexivity.
Qed.

Lemma check_C13_sound : forall a f, check_C13 a f = true -> c13_holds a f.
Proof.
  intros [|sa ca ia] [|sf cf jf]; cbn; try discriminate; auto. apply snapshot_eqb_eq.
Qed.

Lemma check_C13_of_agree : forall ign a f, out_agree ign a f -> check_C13 a f = true.
Proof.
  intros ign [|sa ca ia] [|sf cf jf]; cbn; try tauto. intros [-> _]. apply snapshot_eqb_refl.
Qed.
