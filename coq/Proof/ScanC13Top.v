(* C13 at the level of core.Scan. *)
From Coq Require Import List Bool Arith String Ascii NArith Lia.
From Mv Require Import Model.Entry Model.Fs Model.Scan Model.ScanSpec
     Proof.EntryFacts Proof.ScanFacts Proof.ScanC12 Proof.ScanCount Proof.ScanWalk
     Proof.ScanC12Top Proof.ScanC13 Proof.ScanIc.
Import ListNotations.
Open Scope string_scope.
Open Scope list_scope.

Section NoBaseline.
  Variable H : string -> string.
  Variable ign : path -> bool -> ival.
  Variable flt : path -> fop -> outcome.
  Variable cfg : config.
  Variable rootdev : N.
  Variable oc : ctree.
  Variable oic : icache.

  (* without a baseline the set of dirty paths is never consulted *)
  Lemma scan_dir_nobl : forall d1 d2 x p mask,
    scan_dir H ign flt cfg rootdev oc oic d1 p x None mask =
    scan_dir H ign flt cfg rootdev oc oic d2 p x None mask.
  Proof.
    intros d1 d2. induction x as [m c IH|m d|m t|m ty] using node_nested_ind; intros p mask;
      try reflexivity.
    rewrite !scan_dir_dir.
    destruct (negb (N.eqb (m_dev m) rootdev)); [reflexivity|].
    destruct (flt p FOpenDir); [|reflexivity|reflexivity].
    destruct (flt p FReadContents); [|reflexivity|reflexivity].
    assert (E : map (fun ny : name * node =>
                       child_res H ign flt cfg oc oic d1 (scan_dir H ign flt cfg rootdev oc oic d1)
                                 p mask None (fst ny) (snd ny)) c =
                map (fun ny : name * node =>
                       child_res H ign flt cfg oc oic d2 (scan_dir H ign flt cfg rootdev oc oic d2)
                                 p mask None (fst ny) (snd ny)) c).
    { apply map_ext_in. intros [n y] Hin. cbn [fst snd]. rewrite !child_res_eq.
      rewrite Forall_forall in IH. specialize (IH _ Hin). cbn [snd] in IH.
      destruct (flt (p ++ [n]) FCheck); try reflexivity;
        (destruct (is_temp n); [reflexivity|]);
        (destruct (utf8_valid n); cbn [negb]; [|reflexivity]);
        destruct y; try reflexivity; cbv zeta;
        match goal with |- context [decide ?mk ?v] => destruct (decide mk v) end; try reflexivity;
        unfold handle; cbn [dir_baseline]; rewrite IH; reflexivity. }
    rewrite E. reflexivity.
  Qed.
End NoBaseline.

Definition nofilefaults (flt : path -> fop -> outcome) : Prop :=
  forall p, flt p FOpenFile = Ok /\ flt p FReadData = Ok.

(* every directory that is not marked dirty and was not empty is unchanged *)
Definition unchanged_off_dirty (recheck : list path) (XO XN : node) : Prop :=
  forall q yo yn,
    dirty_of recheck q = false -> get q XO = Some yo -> get q XN = Some yn ->
    is_dir yo = true -> is_dir yn = true -> nchildren yo <> [] -> yo = yn.

(* every content change alters the modification time, the size or the file id *)
Definition key_sound (XO XN : node) : Prop :=
  forall q mo do mn dn,
    get q XO = Some (NFile mo do) -> get q XN = Some (NFile mn dn) ->
    m_mtime mo = m_mtime mn -> m_size mo = m_size mn -> m_fid mo = m_fid mn -> do = dn.

Definition out_agree (ign : path -> bool -> ival) (acc full : scan_out) : Prop :=
  match acc, full with
  | SOk s c ic, SOk s' c' _ => s = s' /\ c = c' /\ ic_consistent ign ic
  | SErr, SErr => True
  | _, _ => False
  end.

Lemma nofilefaults_root : forall flt, nofilefaults flt -> nofilefaults (root_opened flt).
Proof.
  intros flt Hn p. destruct (Hn p) as [H1 H2]. destruct p as [|n p]; cbn; auto.
Qed.

Lemma key_sound_refl : forall X, key_sound X X.
Proof. intros X q mo do mn dn H1 H2 _ _ _. rewrite H1 in H2. congruence. Qed.

Lemma shape_flat : forall e t,
  shape_ok e t = true -> (forall c, e <> EDir c) -> (forall c, e <> EPhantom c) -> ct_kids t = [].
Proof.
  intros e t Hs H1 H2. destruct e; destruct t as [[ce|] [|? ?]]; try discriminate; try reflexivity;
    exfalso; first [apply (H1 c); reflexivity|apply (H2 c); reflexivity].
Qed.

Section Top.
  Variable H : string -> string.
  Variable ign : path -> bool -> ival.
  Variable flt : path -> fop -> outcome.
  Variable cfg : config.
  Hypothesis Hnf : nofilefaults flt.

  Notation flt' := (root_opened flt).

  (* what a full scan of the old root leaves in the digest cache, seen from the
     new scan with root device [dev] *)
  Inductive old_root (dev : N) (XO : option node) (s0 : snapshot) (c0 : ctree) : Prop :=
  | OR_flat :
      ct_kids c0 = [] -> (forall c, s_content s0 <> Some (EDir c)) ->
      old_root dev XO s0 c0
  | OR_dir : forall mo co oldkids ics cnts,
      XO = Some (NDir mo co) ->
      run_kids (map (fun ny : name * node =>
                       child_res H ign flt' cfg ct_empty [] nocache (fdir H ign flt' cfg (m_dev mo))
                                 [] false None (fst ny) (snd ny)) co) = Some (oldkids, ics, cnts) ->
      s_content s0 = Some (EDir (amap fst oldkids)) ->
      c0 = CT None (amap snd oldkids) ->
      s_preserves s0 = c_preserves cfg -> s_decomposes s0 = c_decomposes cfg ->
      old_root dev XO s0 c0.

  Lemma old_root_of_scan : forall dev XO s0 c0 ic0,
    match XO with Some xo => scan_wf xo = true | None => True end ->
    scan_full H ign flt cfg XO = SOk s0 c0 ic0 -> old_root dev XO s0 c0.
  Proof.
    intros dev [xo|] s0 c0 ic0 Hwf Hs.
    2:{ destruct (c12_absent_lemma _ _ _ _ _ _ _ Hs) as [H1 [_ [-> _]]].
        apply OR_flat; [reflexivity|]. intros c Hc. congruence. }
    unfold scan_full, scan in Hs.
    destruct (flt [] FOpenRoot) as [|e|] eqn:Eo; [| |discriminate].
    2:{ destruct (is_not_exist e); [|discriminate]. inversion Hs. subst.
        apply OR_flat; [reflexivity|]. intros c Hc. discriminate. }
    destruct xo as [mo co|mf df|ml tl|mx ty]; try discriminate.
    - cbn [is_dir node_meta] in Hs.
      match type of Hs with
      | match ?r with _ => _ end = _ => destruct r as [| |e t ic cnt] eqn:Er; try discriminate
      end.
      inversion Hs. subst s0 c0 ic0. clear Hs.
      rewrite scan_dir_dir in Er. rewrite N.eqb_refl in Er. cbn [negb] in Er.
      change (flt' [] FOpenDir) with Ok in Er. cbv iota in Er.
      destruct (flt' [] FReadContents) as [|e0|]; [| |discriminate].
      2:{ inversion Er. subst. apply OR_flat; [reflexivity|]. intros c Hc. discriminate. }
      match type of Er with
      | match run_kids ?rs with _ => _ end = _ =>
        destruct (run_kids rs) as [[[oldkids ics] cnts]|] eqn:Erk; [|discriminate]
      end.
      inversion Er. subst e t ic cnt.
      apply (OR_dir dev _ _ _ mo co oldkids ics cnts); try reflexivity. exact Erk.
    - cbn [is_dir node_meta] in Hs.
      match type of Hs with
      | match ?r with _ => _ end = _ => destruct r as [| |e t ic cnt] eqn:Er; try discriminate
      end.
      inversion Hs. subst s0 c0 ic0. clear Hs.
      assert (Hf : fnode H ign flt' cfg (m_dev mf) [] (NFile mf df) false = HOk e t ic cnt) by exact Er.
      destruct (fresh_counts _ _ _ _ _ _ Hwf _ _ _ _ _ _ Hf) as [_ [_ [_ [_ [_ Hsh]]]]].
      assert (Hne : (forall c, e <> EDir c) /\ (forall c, e <> EPhantom c)).
      { cbn [fnode] in Hf. unfold scan_file in Hf. rewrite ct_get_empty in Hf.
        repeat match type of Hf with
               | (match ?x with _ => _ end) = _ => destruct x; try discriminate
               | (if ?x then _ else _) = _ => destruct x; try discriminate
               end;
          unfold file_finish in Hf;
          repeat match type of Hf with
                 | (match ?x with _ => _ end) = _ => destruct x; try discriminate
                 | (if ?x then _ else _) = _ => destruct x; try discriminate
                 end;
          inversion Hf; split; intros; discriminate. }
      destruct Hne as [N1 N2].
      apply OR_flat; [apply (shape_flat _ _ Hsh N1 N2)|].
      cbn [s_content]. intros c Hc. inversion Hc. apply (N1 c). assumption.
  Qed.

  (* the two scans of a directory root, unfolded *)
  Lemma scan_full_dir : forall m c,
    scan_full H ign flt cfg (Some (NDir m c)) =
    match flt [] FOpenRoot with
    | Cancelled => SErr
    | Fail e => if is_not_exist e then SOk empty_snapshot ct_empty [] else SErr
    | Ok =>
      match fdir H ign flt' cfg (m_dev m) [] (NDir m c) None false with
      | HOk e t ic cnt =>
        SOk {| s_content := Some e; s_preserves := c_preserves cfg;
               s_decomposes := c_decomposes cfg; s_cnt := cnt |} t ic
      | _ => SErr
      end
    end.
  Proof. intros m c. unfold scan_full, scan. destruct (flt [] FOpenRoot); reflexivity. Qed.

  Lemma res_equiv_out : forall oic dirty oc m c bl r_full,
    ic_consistent ign oic ->
    res_equiv (scan_dir H ign flt' cfg (m_dev m) oc oic dirty [] (NDir m c) bl false) r_full ->
    out_agree ign
      match scan_dir H ign flt' cfg (m_dev m) oc oic dirty [] (NDir m c) bl false with
      | HOk e t ic cnt =>
        SOk {| s_content := Some e; s_preserves := c_preserves cfg;
               s_decomposes := c_decomposes cfg; s_cnt := cnt |} t ic
      | _ => SErr
      end
      match r_full with
      | HOk e t ic cnt =>
        SOk {| s_content := Some e; s_preserves := c_preserves cfg;
               s_decomposes := c_decomposes cfg; s_cnt := cnt |} t ic
      | _ => SErr
      end.
  Proof.
    intros oic dirty oc m c bl r_full Hoic He.
    pose proof (scan_dir_ic_ok H ign flt' cfg (m_dev m) oc oic Hoic dirty (NDir m c) [] bl false) as Hic.
    destruct (scan_dir H ign flt' cfg (m_dev m) oc oic dirty [] (NDir m c) bl false) as [| |e t ic cnt];
      destruct r_full as [| |e' t' ic' cnt']; cbn in He; try tauto; cbn [out_agree]; try exact I.
    destruct He as [-> [-> ->]]. split; [reflexivity|split; [reflexivity|]].
    apply ic_all_ok_consistent. exact Hic.
  Qed.

  Theorem c13_equal_dir : forall (XO : option node) mN cN recheck s0 c0 ic0f ic0,
    match XO with Some xo => scan_wf xo = true | None => True end ->
    scan_wf (NDir mN cN) = true ->
    scan_full H ign flt cfg XO = SOk s0 c0 ic0f ->
    ic_consistent ign ic0 ->
    (forall mo co, XO = Some (NDir mo co) ->
       m_dev mo = m_dev mN /\
       unchanged_off_dirty recheck (NDir mo co) (NDir mN cN) /\
       key_sound (NDir mo co) (NDir mN cN) /\
       (recheck = [] -> NDir mo co = NDir mN cN)) ->
    out_agree ign (scan_accel H ign flt cfg s0 recheck c0 ic0 (Some (NDir mN cN)))
              (scan_full H ign flt cfg (Some (NDir mN cN))).
  Proof.
    intros XO mN cN recheck s0 c0 ic0f ic0 HwfO HwfN Hs0 Hoic Hrel.
    pose proof (old_root_of_scan (m_dev mN) XO s0 c0 ic0f HwfO Hs0) as OR.
    pose proof (nofilefaults_root _ Hnf) as Hnf'.
    rewrite scan_full_dir. unfold scan_accel, scan.
    destruct (flt [] FOpenRoot) as [|e|] eqn:Eroot.
    2:{ destruct (is_not_exist e); cbn [out_agree]; [|exact I].
        split; [reflexivity|split; [reflexivity|apply ic_consistent_nil]]. }
    2:{ exact I. }
    cbn [is_dir node_meta].
    destruct OR as [Hflat Hnd|mo co oldkids ics cnts EXO Erk Hcont Hc0 Hpres Hdec].
    - (* nothing re-usable is known: the baseline is not a directory *)
      assert (Hbv : baseline_valid cfg RKDir s0 = false).
      { unfold baseline_valid. destruct (s_content s0) as [[cc| | | | |]|]; try reflexivity.
        exfalso. apply (Hnd cc). reflexivity. }
      rewrite Hbv.
      rewrite (scan_dir_nobl H ign flt' cfg (m_dev mN) c0 ic0 (fun _ => false) (fun _ => true)).
      apply res_equiv_out; [exact Hoic|].
      assert (G1' : forall q yo yn, (fun _ : path => true) q = false ->
                      get q (NDir mN cN) = Some yo -> get q (NDir mN cN) = Some yn ->
                      is_dir yo = true -> is_dir yn = true -> nchildren yo <> [] -> yo = yn)
        by (intros q yo yn Hq; discriminate).
      pose proof (accel_dir H ign flt' cfg (m_dev mN) c0 ic0 (fun _ => true) (NDir mN cN) (NDir mN cN)
                            Hnf' Hoic HwfN HwfN G1' (key_sound_refl _) (NDir mN cN)) as A.
      unfold accel_ok in A. apply (A [] false None [] []); try reflexivity.
      + apply old_dir_nil. intros n q. cbn [app ct_get]. rewrite Hflat. reflexivity.
      + left. reflexivity.
    - (* the old root was a directory that was scanned *)
      destruct (Hrel mo co EXO) as [Hdev [HG1 [HG2 Hnil]]].
      assert (Hbv : baseline_valid cfg RKDir s0 = true).
      { unfold baseline_valid. rewrite Hcont, Hpres, Hdec, !eqb_reflx. reflexivity. }
      rewrite Hbv.
      destruct recheck as [|r0 rs].
      + (* no recheck path: the baseline is returned as it is *)
        specialize (Hnil eq_refl). rewrite EXO, Hnil in Hs0. rewrite scan_full_dir, Eroot in Hs0.
        destruct (fdir H ign flt' cfg (m_dev mN) [] (NDir mN cN) None false) as [| |e t ic cnt];
          try discriminate.
        inversion Hs0. subst. cbn [out_agree]. auto.
      + rewrite Hcont. apply res_equiv_out; [exact Hoic|].
        subst XO. rewrite Hdev in Erk.
        pose proof (accel_dir H ign flt' cfg (m_dev mN) c0 ic0 (dirty_of (r0 :: rs)) (NDir mo co) (NDir mN cN)
                              Hnf' Hoic HwfO HwfN HG1 HG2 (NDir mN cN)) as A.
        unfold accel_ok in A.
        apply (A [] false (Some (amap fst oldkids)) co oldkids); try reflexivity.
        * constructor.
          -- right. exists mo. reflexivity.
          -- exists ics, cnts. exact Erk.
          -- intros n q. subst c0. cbn [app ct_get ct_kids]. rewrite alookup_amap.
             destruct (alookup n oldkids); reflexivity.
        * right. reflexivity.
  Qed.
End Top.
