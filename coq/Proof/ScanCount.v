(* Counters of a fresh scan: they equal the folds over the returned content
   (relative to the filesystem and relative to the returned digest cache), and
   the returned digest cache mirrors the returned content ([shape_ok]). *)
From Coq Require Import List Bool Arith String Ascii NArith Lia.
From Mv Require Import Model.Entry Model.Fs Model.Scan Model.ScanSpec
     Proof.EntryFacts Proof.ScanFacts Proof.ScanC12.
Import ListNotations.
Open Scope string_scope.

(* ---------- counters ---------- *)
Lemma cnt_eq : forall a b,
  n_dirs a = n_dirs b -> n_files a = n_files b -> n_links a = n_links b -> n_bytes a = n_bytes b ->
  a = b.
Proof. intros [] []; cbn; intros; subst; reflexivity. Qed.

Lemma cnt_add_comm : forall a b, cnt_add a b = cnt_add b a.
Proof. intros a b. apply cnt_eq; cbn; lia. Qed.

Lemma cnt_add_assoc : forall a b c, cnt_add a (cnt_add b c) = cnt_add (cnt_add a b) c.
Proof. intros a b c. apply cnt_eq; cbn; lia. Qed.

Lemma cnt_add_0_l : forall a, cnt_add cnt0 a = a.
Proof. intros a. apply cnt_eq; cbn; lia. Qed.

Lemma cnt_add_0_r : forall a, cnt_add a cnt0 = a.
Proof. intros a. apply cnt_eq; cbn; lia. Qed.

(* ---------- folds with named list functions ---------- *)
Definition cd_list (c : list (name * entry)) : N :=
  fold_right (fun ne a => (count_dirs (snd ne) + a)%N) 0%N c.
Definition cf_list (c : list (name * entry)) : N :=
  fold_right (fun ne a => (count_files (snd ne) + a)%N) 0%N c.
Definition cl_list (c : list (name * entry)) : N :=
  fold_right (fun ne a => (count_links (snd ne) + a)%N) 0%N c.
Definition cb_list (x : option node) (c : list (name * entry)) : N :=
  fold_right (fun ne a =>
                (count_bytes (match x with Some (NDir _ cc) => nlookup (fst ne) cc | _ => None end) (snd ne) + a)%N)
             0%N c.

Lemma count_dirs_dir : forall c, count_dirs (EDir c) = (1 + cd_list c)%N.
Proof.
  intro c. cbn [count_dirs]. f_equal.
  induction c as [|[n e] c IH]; [reflexivity|]. cbn [cd_list fold_right snd]. rewrite IH. reflexivity.
Qed.
Lemma count_dirs_phantom : forall c, count_dirs (EPhantom c) = (1 + cd_list c)%N.
Proof.
  intro c. cbn [count_dirs]. f_equal.
  induction c as [|[n e] c IH]; [reflexivity|]. cbn [cd_list fold_right snd]. rewrite IH. reflexivity.
Qed.
Lemma count_files_dir : forall c, count_files (EDir c) = cf_list c.
Proof.
  intro c. cbn [count_files].
  induction c as [|[n e] c IH]; [reflexivity|]. cbn [cf_list fold_right snd]. rewrite IH. reflexivity.
Qed.
Lemma count_files_phantom : forall c, count_files (EPhantom c) = cf_list c.
Proof.
  intro c. cbn [count_files].
  induction c as [|[n e] c IH]; [reflexivity|]. cbn [cf_list fold_right snd]. rewrite IH. reflexivity.
Qed.
Lemma count_links_dir : forall c, count_links (EDir c) = cl_list c.
Proof.
  intro c. cbn [count_links].
  induction c as [|[n e] c IH]; [reflexivity|]. cbn [cl_list fold_right snd]. rewrite IH. reflexivity.
Qed.
Lemma count_links_phantom : forall c, count_links (EPhantom c) = cl_list c.
Proof.
  intro c. cbn [count_links].
  induction c as [|[n e] c IH]; [reflexivity|]. cbn [cl_list fold_right snd]. rewrite IH. reflexivity.
Qed.
Lemma count_bytes_dir : forall x c, count_bytes x (EDir c) = cb_list x c.
Proof.
  intros x c. cbn [count_bytes].
  induction c as [|[n e] c IH]; [reflexivity|]. cbn [cb_list fold_right fst snd]. rewrite IH. reflexivity.
Qed.
Lemma count_bytes_phantom : forall x c, count_bytes x (EPhantom c) = cb_list x c.
Proof.
  intros x c. cbn [count_bytes].
  induction c as [|[n e] c IH]; [reflexivity|]. cbn [cb_list fold_right fst snd]. rewrite IH. reflexivity.
Qed.

(* ---------- bytes recorded in a digest cache subtree; shape ---------- *)
Fixpoint ct_bytes (t : ctree) : N :=
  let fix go (l : list (name * ctree)) : N :=
    match l with [] => 0%N | (_, s) :: r => (ct_bytes s + go r)%N end in
  match t with
  | CT v c => ((match v with Some ce => ce_size ce | None => 0 end) + go c)%N
  end.

Definition ctb_list (l : list (name * ctree)) : N :=
  fold_right (fun ns a => (ct_bytes (snd ns) + a)%N) 0%N l.

Lemma ct_bytes_ct : forall v c,
  ct_bytes (CT v c) = ((match v with Some ce => ce_size ce | None => 0 end) + ctb_list c)%N.
Proof.
  intros v c. cbn [ct_bytes]. f_equal.
  induction c as [|[n s] c IH]; [reflexivity|]. cbn [ctb_list fold_right snd]. rewrite IH. reflexivity.
Qed.

(* the cache subtree has exactly the shape of the entry *)
Fixpoint shape_ok (e : entry) (t : ctree) {struct e} : bool :=
  let fix go (c : list (name * entry)) (ts : list (name * ctree)) : bool :=
    match c, ts with
    | [], [] => true
    | (k, x) :: c', (k', s) :: ts' => String.eqb k k' && shape_ok x s && go c' ts'
    | _, _ => false
    end in
  match e, t with
  | EDir c, CT None ts | EPhantom c, CT None ts => sorted_names (map fst c) && go c ts
  | EFile _ _, CT (Some _) [] => true
  | ELink _, CT None [] | EUntracked, CT None [] | EProblem _, CT None [] => true
  | _, _ => false
  end.

Fixpoint shape_list (c : list (name * entry)) (ts : list (name * ctree)) : bool :=
  match c, ts with
  | [], [] => true
  | (k, x) :: c', (k', s) :: ts' => String.eqb k k' && shape_ok x s && shape_list c' ts'
  | _, _ => false
  end.

Lemma shape_ok_dir : forall c ts,
  shape_ok (EDir c) (CT None ts) = sorted_names (map fst c) && shape_list c ts.
Proof.
  intros c ts. reflexivity.
Qed.
Lemma shape_ok_phantom : forall c ts,
  shape_ok (EPhantom c) (CT None ts) = sorted_names (map fst c) && shape_list c ts.
Proof.
  intros c ts. reflexivity.
Qed.

Lemma shape_list_amap : forall out : list (name * (entry * ctree)),
  shape_list (amap fst out) (amap snd out) = forallb (fun kv => shape_ok (fst (snd kv)) (snd (snd kv))) out.
Proof.
  induction out as [|[k [e t]] out IH]; [reflexivity|].
  cbn [amap map fst snd shape_list forallb]. rewrite str_eqb_refl. cbn [andb].
  unfold amap in IH. rewrite IH. reflexivity.
Qed.

(* ---------- sums over the recorded contents ---------- *)
Section Sum.
  Variable g : name -> entry * ctree -> counters.

  Fixpoint sum_out (out : list (name * (entry * ctree))) : counters :=
    match out with
    | [] => cnt0
    | (k, v) :: r => cnt_add (g k v) (sum_out r)
    end.

  Lemma sum_ains : forall k v l, sum_out (ains k v l) = cnt_add (g k v) (sum_out l).
  Proof.
    intros k v l. induction l as [|[m x] l IH]; cbn [ains sum_out]; [reflexivity|].
    destruct (String.ltb k m); cbn [sum_out]; [reflexivity|].
    rewrite IH. rewrite !cnt_add_assoc. f_equal. apply cnt_add_comm.
  Qed.

  Lemma adel_absent : forall {A} k (l : list (name * A)), alookup k l = None -> adel k l = l.
  Proof.
    intros A k l. induction l as [|[m x] l IH]; cbn [alookup adel]; [reflexivity|].
    destruct (String.eqb k m); [discriminate|]. intro Hn. rewrite IH by exact Hn. reflexivity.
  Qed.

  Lemma ains_head : forall {A} k (v : A) l,
    (forall m, In m (map fst l) -> String.ltb k m = true) -> ains k v l = (k, v) :: l.
  Proof.
    intros A k v [|[m x] l] Hgt; [reflexivity|]. cbn [ains].
    rewrite (Hgt m) by (left; reflexivity). reflexivity.
  Qed.

  Lemma aset_same : forall {A} k (v : A) l,
    sorted_names (map fst l) = true -> alookup k l = Some v -> aset k v l = l.
  Proof.
    intros A k v l. induction l as [|[m x] l IH]; cbn [map fst alookup]; intros Hs Hl; [discriminate|].
    pose proof Hs as Hs0. apply sorted_names_cons in Hs. destruct Hs as [Hgt Hs].
    unfold aset. cbn [adel]. destruct (String.eqb k m) eqn:E.
    - apply str_eqb_eq in E. subst m. inversion Hl. subst x.
      rewrite adel_absent.
      + apply ains_head. exact Hgt.
      + apply alookup_none_notin. apply (sorted_names_head_notin _ _ Hs0).
    - cbn [ains].
      assert (Hk : String.ltb m k = true).
      { apply Hgt. apply alookup_in_keys. congruence. }
      rewrite (str_ltb_asym _ _ Hk). f_equal. apply (IH Hs Hl).
  Qed.

  (* every listed outcome carries the counters [g] assigns to its value; an
     outcome whose key is listed again further on carries no counters and the
     same value *)
  Fixpoint kids_good (rs : list cres) : Prop :=
    match rs with
    | [] => True
    | r :: rest =>
      kids_good rest /\
      match r with
      | CList k e t _ cnt =>
        cnt = g k (e, t) /\
        (first_listed k rest = None \/ (cnt = cnt0 /\ first_listed k rest = Some (e, t)))
      | _ => True
      end
    end.

  Lemma kids_good_sum : forall rs out ics cnts,
    kids_good rs -> run_kids rs = Some (out, ics, cnts) -> cnts = sum_out out.
  Proof.
    induction rs as [|r rs IH]; intros out ics cnts Hg Hr.
    - cbn in Hr. inversion Hr. reflexivity.
    - rewrite run_kids_cons in Hr. cbn [kids_good] in Hg. destruct Hg as [Hg Hr0].
      destruct r as [| |k e t ic cnt]; cbn [step] in Hr.
      + discriminate.
      + apply (IH _ _ _ Hg Hr).
      + destruct (run_kids rs) as [[[out' ics'] cnts']|] eqn:Er; [|discriminate].
        inversion Hr. subst. clear Hr.
        pose proof (IH _ _ _ Hg eq_refl) as Hc. subst cnts'.
        pose proof (run_kids_lookup _ _ _ _ Er k) as Hl.
        destruct Hr0 as [Hcnt [Hn|[Hz Hs]]].
        * rewrite Hn in Hl. unfold aset. rewrite adel_absent by exact Hl.
          rewrite sum_ains. rewrite Hcnt. reflexivity.
        * rewrite Hs in Hl. rewrite aset_same; [|apply (run_kids_sorted _ _ _ _ Er)|exact Hl].
          rewrite Hz. apply cnt_add_0_l.
  Qed.
End Sum.

(* the two assignments of counters to a recorded value *)
Definition g_fs (c : list (name * node)) (k : name) (v : entry * ctree) : counters :=
  {| n_dirs := count_dirs (fst v); n_files := count_files (fst v); n_links := count_links (fst v);
     n_bytes := count_bytes (nlookup k c) (fst v) |}.

Definition g_ct (k : name) (v : entry * ctree) : counters :=
  {| n_dirs := count_dirs (fst v); n_files := count_files (fst v); n_links := count_links (fst v);
     n_bytes := ct_bytes (snd v) |}.

Lemma sum_fs_dirs : forall c out, n_dirs (sum_out (g_fs c) out) = cd_list (amap fst out).
Proof.
  intros c out. induction out as [|[k [e t]] out IH]; [reflexivity|].
  cbn [sum_out cnt_add n_dirs g_fs amap map fst snd cd_list fold_right]. unfold amap, cd_list in IH.
  rewrite IH. reflexivity.
Qed.
Lemma sum_fs_files : forall c out, n_files (sum_out (g_fs c) out) = cf_list (amap fst out).
Proof.
  intros c out. induction out as [|[k [e t]] out IH]; [reflexivity|].
  cbn [sum_out cnt_add n_files g_fs amap map fst snd cf_list fold_right]. unfold amap, cf_list in IH.
  rewrite IH. reflexivity.
Qed.
Lemma sum_fs_links : forall c out, n_links (sum_out (g_fs c) out) = cl_list (amap fst out).
Proof.
  intros c out. induction out as [|[k [e t]] out IH]; [reflexivity|].
  cbn [sum_out cnt_add n_links g_fs amap map fst snd cl_list fold_right]. unfold amap, cl_list in IH.
  rewrite IH. reflexivity.
Qed.
Lemma sum_fs_bytes : forall m c out,
  n_bytes (sum_out (g_fs c) out) = cb_list (Some (NDir m c)) (amap fst out).
Proof.
  intros m c out. induction out as [|[k [e t]] out IH]; [reflexivity|].
  cbn [sum_out cnt_add n_bytes g_fs amap map fst snd cb_list fold_right]. unfold amap, cb_list in IH.
  rewrite IH. reflexivity.
Qed.
Lemma sum_ct_bytes : forall out, n_bytes (sum_out g_ct out) = ctb_list (amap snd out).
Proof.
  intros out. induction out as [|[k [e t]] out IH]; [reflexivity|].
  cbn [sum_out cnt_add n_bytes g_ct amap map fst snd ctb_list fold_right]. unfold amap, ctb_list in IH.
  rewrite IH. reflexivity.
Qed.
Lemma sum_ct_fs : forall c out,
  n_dirs (sum_out g_ct out) = n_dirs (sum_out (g_fs c) out) /\
  n_files (sum_out g_ct out) = n_files (sum_out (g_fs c) out) /\
  n_links (sum_out g_ct out) = n_links (sum_out (g_fs c) out).
Proof.
  intros c out. induction out as [|[k [e t]] out IH]; [auto|].
  cbn [sum_out cnt_add n_dirs n_files n_links g_ct g_fs fst snd].
  destruct IH as [-> [-> ->]]. auto.
Qed.

(* ---------- the counters and the cache shape of a fresh scan ---------- *)
Definition good_res (x : node) (e : entry) (t : ctree) (cnt : counters) : Prop :=
  n_dirs cnt = count_dirs e /\ n_files cnt = count_files e /\ n_links cnt = count_links e /\
  n_bytes cnt = count_bytes (Some x) e /\ n_bytes cnt = ct_bytes t /\ shape_ok e t = true.

Lemma good_res_leaf : forall x e,
  count_dirs e = 0%N -> count_files e = 0%N -> count_links e = 0%N ->
  (forall y, count_bytes y e = 0%N) -> shape_ok e ct_empty = true ->
  good_res x e ct_empty cnt0.
Proof.
  intros x e H1 H2 H3 H4 H5. unfold good_res. rewrite H1, H2, H3, H4, H5. cbn. auto 10.
Qed.

Section Counts.
  Variable H : string -> string.
  Variable ign : path -> bool -> ival.
  Variable flt : path -> fop -> outcome.
  Variable cfg : config.
  Variable rootdev : N.

  Notation fnode' := (fnode H ign flt cfg rootdev).
  Notation fchild p mask :=
    (fun ny : name * node =>
       child_res H ign flt cfg ct_empty [] nocache (fdir H ign flt cfg rootdev) p mask None (fst ny) (snd ny)).

  Lemma child_invalid_cnt : forall p mask n y k e t ic cnt,
    utf8_valid n = false ->
    fchild p mask (n, y) = CList k e t ic cnt ->
    e = nonutf8_entry mask /\ t = ct_empty /\ cnt = cnt0.
  Proof.
    intros p mask n y k e t ic cnt Hv. cbn [fst snd]. rewrite child_res_eq. rewrite Hv.
    match goal with |- context [flt ?q FCheck] => destruct (flt q FCheck) end; try discriminate;
      destruct (is_temp n); try discriminate; cbn [negb];
      intro Hq; inversion Hq; auto.
  Qed.

  (* kids_good for the children of a well-formed directory *)
  Lemma kids_good_children : forall g p mask m c,
    scan_wf (NDir m c) = true ->
    (forall n y k e t ic cnt, In (n, y) c -> fchild p mask (n, y) = CList k e t ic cnt ->
                              cnt = g k (e, t)) ->
    forall l, (forall ny, In ny l -> In ny c) -> sorted_names (map fst l) = true ->
              kids_good g (map (fchild p mask) l).
  Proof.
    intros g p mask m c Hwf Hg. induction l as [|[n y] l IH]; intros Hsub Hs; [exact I|].
    cbn [map kids_good]. split.
    { apply IH; [intros ny Hny; apply Hsub; right; exact Hny|apply (sorted_names_tail _ _ Hs)]. }
    destruct (fchild p mask (n, y)) as [| |k e t ic cnt] eqn:Er; [exact I|exact I|].
    assert (Hin : In (n, y) c) by (apply Hsub; left; reflexivity).
    split; [apply (Hg _ _ _ _ _ _ _ Hin Er)|].
    destruct (first_listed k (map (fchild p mask) l)) as [v'|] eqn:Ef; [|left; reflexivity].
    right. destruct (first_listed_in _ _ _ Ef) as [r' [Hr' [Hk' Hv']]].
    apply in_map_iff in Hr'. destruct Hr' as [[n' y'] [Er' Hin'l]].
    assert (Hin' : In (n', y') c) by (apply Hsub; right; exact Hin'l).
    pose proof (children_compat H ign flt cfg ct_empty [] nocache (fdir H ign flt cfg rootdev)
                                p mask None m c Hwf k (CList k e t ic cnt) r') as Hcompat.
    assert (Hv : val_of (CList k e t ic cnt) = val_of r').
    { apply Hcompat; [| |reflexivity|exact Hk'].
      - apply in_map_iff. exists (n, y). split; [exact Er|exact Hin].
      - apply in_map_iff. exists (n', y'). split; [exact Er'|exact Hin']. }
    cbn [val_of] in Hv. rewrite Hv' in Hv. inversion Hv. subst v'. split; [|reflexivity].
    (* the head must be an invalid name *)
    destruct r' as [| |k2 e2 t2 ic2 cnt2]; try discriminate. cbn in Hk'. inversion Hk'. subst k2.
    cbn [fst snd] in Er, Er'.
    pose proof (child_key _ _ _ _ _ _ _ _ _ _ _ _ _ _ _ _ _ _ Er) as O1.
    pose proof (child_key _ _ _ _ _ _ _ _ _ _ _ _ _ _ _ _ _ _ Er') as O2.
    apply out_key_cases in O1. apply out_key_cases in O2.
    unfold scan_wf in Hwf. apply andb_true_iff in Hwf. destruct Hwf as [Hw He].
    destruct O1 as [_ [[V1 N1]|[V1 N1]]].
    - exfalso. destruct O2 as [_ [[V2 N2]|[V2 N2]]].
      + subst k. subst n'. apply (sorted_names_head_notin _ _ Hs).
        apply in_map_iff. exists (n, y'). split; [reflexivity|exact Hin'l].
      + apply (escape_safe_sibling _ _ _ _ _ _ He Hin' Hin V2 V1). congruence.
    - apply (child_invalid_cnt p mask n y k e t ic cnt V1). exact Er.
  Qed.

  Lemma fresh_counts : forall x,
    scan_wf x = true ->
    forall p mask e t ic cnt, fnode' p x mask = HOk e t ic cnt -> good_res x e t cnt.
  Proof.
    induction x as [m c IH|m d|m tg|m ty] using node_nested_ind; intros Hwf p mask e t ic cnt Hr.
    - (* directory *)
      cbn [fnode] in Hr. unfold fdir in Hr. rewrite scan_dir_dir in Hr.
      destruct (negb (N.eqb (m_dev m) rootdev)).
      { inversion Hr. apply good_res_leaf; reflexivity. }
      destruct (flt p FOpenDir) as [|e0|]; [| |discriminate].
      2:{ destruct (is_not_exist e0); [discriminate|]. inversion Hr. apply good_res_leaf; reflexivity. }
      destruct (flt p FReadContents) as [|e0|]; [| |discriminate].
      2:{ inversion Hr. apply good_res_leaf; reflexivity. }
      fold (fdir H ign flt cfg rootdev) in Hr.
      set (rs := map (fchild p mask) c) in *.
      destruct (run_kids rs) as [[[out ics] cnts]|] eqn:Erk; [|discriminate].
      inversion Hr. subst e t ic cnt. clear Hr.
      pose proof Hwf as Hwf0.
      unfold scan_wf in Hwf0. apply andb_true_iff in Hwf0. destruct Hwf0 as [Hw He].
      pose proof (wf_dir_sorted _ _ Hw) as Hs.
      (* facts about each listed child *)
      assert (Hchild : forall n y k e t ic cnt, In (n, y) c -> fchild p mask (n, y) = CList k e t ic cnt ->
                cnt = g_fs c k (e, t) /\ cnt = g_ct k (e, t) /\ shape_ok e t = true).
      { intros n y k e t ic cnt Hin Er. cbn [fst snd] in Er.
        assert (Hleaf : forall e0, e0 = EUntracked \/ e0 = nonutf8_entry mask ->
                  cnt0 = g_fs c k (e0, ct_empty) /\ cnt0 = g_ct k (e0, ct_empty) /\ shape_ok e0 ct_empty = true).
        { intros e0 [ -> | -> ]; [|destruct mask]; (split; [apply cnt_eq; reflexivity|split; [apply cnt_eq; reflexivity|reflexivity]]). }
        rewrite child_res_eq in Er.
        destruct (flt (p ++ [n])%list FCheck) eqn:Eck; try discriminate;
          (destruct (is_temp n) eqn:Et; [discriminate|]);
          (destruct (utf8_valid n) eqn:Ev; cbn [negb] in Er;
           [|inversion Er; subst; apply Hleaf; right; reflexivity]);
          (destruct (is_other y) eqn:Eo;
           [destruct y; try discriminate; inversion Er; subst; apply Hleaf; left; reflexivity|]).
        all: assert (Er2 : match decide mask (ign (p ++ [n])%list (is_dir y)) with
                           | DUntracked => CList n EUntracked ct_empty [(((p ++ [n])%list, is_dir y), ign (p ++ [n])%list (is_dir y))] cnt0
                           | DScan mask' => of_hres n [(((p ++ [n])%list, is_dir y), ign (p ++ [n])%list (is_dir y))]
                                                    (fnode' (p ++ [n])%list y mask')
                           end = CList k e t ic cnt)
          by (rewrite <- Er; destruct y; try discriminate; cbv zeta; unfold ignore_of; cbn [ic_lookup];
              destruct (decide mask _); try reflexivity; rewrite handle_fresh; reflexivity).
        all: clear Er; destruct (decide mask (ign (p ++ [n])%list (is_dir y))) as [|mask'];
          [inversion Er2; subst; apply Hleaf; left; reflexivity|].
        all: destruct (fnode' (p ++ [n])%list y mask') as [| |e1 t1 ic1 cnt1] eqn:Ef; try discriminate.
        all: cbn [of_hres] in Er2; inversion Er2; subst k e t ic cnt; clear Er2.
        all: rewrite Forall_forall in IH; pose proof (IH _ Hin (scan_wf_child _ _ _ _ Hwf Hin) _ _ _ _ _ _ Ef) as G.
        all: destruct G as [G1 [G2 [G3 [G4 [G5 G6]]]]].
        all: assert (Hnl : nlookup n c = Some y) by (rewrite nlookup_alookup; apply in_alookup_sorted; assumption).
        all: split; [apply cnt_eq; cbn [g_fs fst n_dirs n_files n_links n_bytes]; try assumption; rewrite Hnl; assumption|].
        all: split; [apply cnt_eq; cbn [g_ct fst snd n_dirs n_files n_links n_bytes]; assumption|exact G6]. }
      assert (Hsub : forall ny, In ny c -> In ny c) by auto.
      pose proof (kids_good_children (g_fs c) p mask m c Hwf
                    (fun n y k e t ic cnt Hin Er => proj1 (Hchild n y k e t ic cnt Hin Er)) c Hsub Hs) as Kfs.
      pose proof (kids_good_children g_ct p mask m c Hwf
                    (fun n y k e t ic cnt Hin Er => proj1 (proj2 (Hchild n y k e t ic cnt Hin Er))) c Hsub Hs) as Kct.
      fold rs in Kfs, Kct.
      pose proof (kids_good_sum _ _ _ _ _ Kfs Erk) as Sfs.
      pose proof (kids_good_sum _ _ _ _ _ Kct Erk) as Sct.
      assert (Hshape : forallb (fun kv : name * (entry * ctree) => shape_ok (fst (snd kv)) (snd (snd kv))) out = true).
      { apply forallb_forall. intros [k [e t]] Hin. cbn [fst snd].
        pose proof (in_alookup_sorted _ _ _ (run_kids_sorted _ _ _ _ Erk) Hin) as Hl.
        rewrite (run_kids_lookup _ _ _ _ Erk) in Hl.
        destruct (first_listed_in _ _ _ Hl) as [r [Hr [Hk Hv]]].
        unfold rs in Hr. apply in_map_iff in Hr. destruct Hr as [[n y] [Er Hin']].
        destruct r as [| |k2 e2 t2 ic2 cnt2]; try discriminate. cbn in Hv. inversion Hv. subst e2 t2.
        apply (Hchild _ _ _ _ _ _ _ Hin' Er). }
      assert (E1 : n_dirs cnts = cd_list (amap fst out)) by (rewrite Sfs; apply sum_fs_dirs).
      assert (E2 : n_files cnts = cf_list (amap fst out)) by (rewrite Sfs; apply sum_fs_files).
      assert (E3 : n_links cnts = cl_list (amap fst out)) by (rewrite Sfs; apply sum_fs_links).
      assert (E4 : n_bytes cnts = cb_list (Some (NDir m c)) (amap fst out)) by (rewrite Sfs; apply sum_fs_bytes).
      assert (E5 : n_bytes cnts = ctb_list (amap snd out)) by (rewrite Sct; apply sum_ct_bytes).
      assert (Hsorted : sorted_names (map fst (amap fst out)) = true)
        by (rewrite amap_keys; apply (run_kids_sorted _ _ _ _ Erk)).
      unfold good_res.
      destruct mask.
      + rewrite count_dirs_phantom, count_files_phantom, count_links_phantom, count_bytes_phantom,
          ct_bytes_ct, shape_ok_phantom, shape_list_amap, Hsorted, Hshape.
        cbn [cnt_add cnt_dir n_dirs n_files n_links n_bytes].
        rewrite <- E1, <- E2, <- E3, <- E4, <- E5. repeat split; try reflexivity; lia.
      + rewrite count_dirs_dir, count_files_dir, count_links_dir, count_bytes_dir,
          ct_bytes_ct, shape_ok_dir, shape_list_amap, Hsorted, Hshape.
        cbn [cnt_add cnt_dir n_dirs n_files n_links n_bytes].
        rewrite <- E1, <- E2, <- E3, <- E4, <- E5. repeat split; try reflexivity; lia.
    - (* file *)
      cbn [fnode] in Hr. unfold scan_file in Hr. rewrite ct_get_empty in Hr.
      destruct (flt p FOpenFile) as [|e0|]; [| |discriminate].
      2:{ destruct (is_not_exist e0); [discriminate|]. inversion Hr. apply good_res_leaf; reflexivity. }
      destruct (flt p FReadData) as [|e0|]; [| |discriminate].
      2:{ inversion Hr. apply good_res_leaf; reflexivity. }
      destruct (negb (N.eqb (strlen d) (m_size m))).
      { inversion Hr. apply good_res_leaf; reflexivity. }
      unfold file_finish in Hr. destruct (negb (mtime_valid (m_mtime m))).
      { inversion Hr. apply good_res_leaf; reflexivity. }
      inversion Hr. unfold good_res. cbn. repeat split; try reflexivity. lia.
    - (* link *)
      cbn [fnode] in Hr. unfold scan_link_mode, scan_link in Hr.
      destruct (c_sym cfg).
      + inversion Hr. apply good_res_leaf; reflexivity.
      + destruct (flt p FReadLink) as [|e0|]; [| |discriminate].
        2:{ destruct (is_not_exist e0); [discriminate|]. inversion Hr. apply good_res_leaf; reflexivity. }
        destruct (normalize_link (c_fix16 cfg) p tg); inversion Hr.
        * unfold good_res. cbn. auto 10.
        * apply good_res_leaf; reflexivity.
      + destruct (flt p FReadLink) as [|e0|]; [| |discriminate].
        2:{ destruct (is_not_exist e0); [discriminate|]. inversion Hr. apply good_res_leaf; reflexivity. }
        destruct (String.eqb tg ""); inversion Hr.
        * apply good_res_leaf; reflexivity.
        * unfold good_res. cbn. auto 10.
    - discriminate.
  Qed.
End Counts.
