(* Basic facts for the scan model: association lists with sorted insertion,
   nested induction on Model/Fs.v nodes, the directory loop of scan_dir as a
   fold over per-content outcomes, and lookups in the contents it builds. *)
From Coq Require Import List Bool Arith String Ascii NArith Lia.
From Mv Require Import Model.Entry Model.Fs Model.Scan Model.ScanSpec Proof.EntryFacts.
Import ListNotations.
Open Scope string_scope.

(* ---------- association lists ---------- *)
Section AssocFacts.
  Context {A : Type}.
  Implicit Types c : list (name * A).

  Lemma alookup_adel : forall k n c,
    alookup k (adel n c) = if String.eqb k n then None else alookup k c.
  Proof.
    intros k n c. induction c as [|[m x] t IH]; cbn [adel alookup].
    - destruct (String.eqb k n); reflexivity.
    - destruct (String.eqb n m) eqn:E.
      + apply str_eqb_eq in E. subst m. rewrite IH. destruct (String.eqb k n); reflexivity.
      + cbn [alookup]. rewrite IH. destruct (String.eqb k n) eqn:E2; [|reflexivity].
        apply str_eqb_eq in E2. subst k. rewrite E. reflexivity.
  Qed.

  Lemma alookup_ains_other : forall k n v c,
    String.eqb k n = false -> alookup k (ains n v c) = alookup k c.
  Proof.
    intros k n v c E. induction c as [|[m x] t IH]; cbn [ains alookup].
    - rewrite E. reflexivity.
    - destruct (String.ltb n m); cbn [alookup]; [rewrite E; reflexivity|].
      rewrite IH. reflexivity.
  Qed.

  Lemma alookup_ains_same : forall n v c,
    alookup n c = None -> alookup n (ains n v c) = Some v.
  Proof.
    intros n v c. induction c as [|[m x] t IH]; cbn [ains alookup]; intro Hn.
    - rewrite str_eqb_refl. reflexivity.
    - destruct (String.eqb n m) eqn:E; [discriminate|].
      destruct (String.ltb n m); cbn [alookup].
      + rewrite str_eqb_refl. reflexivity.
      + rewrite E. apply IH. exact Hn.
  Qed.

  Lemma alookup_aset : forall k n v c,
    alookup k (aset n v c) = if String.eqb k n then Some v else alookup k c.
  Proof.
    intros k n v c. unfold aset. destruct (String.eqb k n) eqn:E.
    - apply str_eqb_eq in E. subst k. apply alookup_ains_same.
      rewrite alookup_adel, str_eqb_refl. reflexivity.
    - rewrite alookup_ains_other by exact E. rewrite alookup_adel, E. reflexivity.
  Qed.

  Lemma alookup_in_keys : forall n c, alookup n c <> None <-> In n (map fst c).
  Proof.
    intros n c. induction c as [|[m e] t IH]; cbn [alookup map fst In].
    - split; [congruence|tauto].
    - destruct (String.eqb n m) eqn:E.
      + apply str_eqb_eq in E. subst. split; [auto|congruence].
      + apply str_eqb_neq in E. rewrite IH. split; [auto|intros [->|]; [congruence|auto]].
  Qed.

  Lemma alookup_none_notin : forall n c, alookup n c = None <-> ~ In n (map fst c).
  Proof.
    intros n c. rewrite <- alookup_in_keys. destruct (alookup n c); split; try congruence.
    intro Hc. exfalso. apply Hc. congruence.
  Qed.

  Lemma alookup_some_in : forall n c v, alookup n c = Some v -> In (n, v) c.
  Proof.
    intros n c v. induction c as [|[m e] t IH]; cbn [alookup]; [discriminate|].
    destruct (String.eqb n m) eqn:E.
    - apply str_eqb_eq in E. subst. intros [= ->]. left. reflexivity.
    - intro Hn. right. apply IH. exact Hn.
  Qed.

  Lemma in_alookup_sorted : forall n v c,
    sorted_names (map fst c) = true -> In (n, v) c -> alookup n c = Some v.
  Proof.
    intros n v c. induction c as [|[m e] t IH]; cbn [map fst]; intros Hs Hin; [destruct Hin|].
    cbn [alookup]. destruct Hin as [Heq|Hin].
    - inversion Heq. subst. rewrite str_eqb_refl. reflexivity.
    - pose proof (sorted_names_head_notin _ _ Hs) as Hn.
      destruct (String.eqb n m) eqn:E.
      + apply str_eqb_eq in E. subst. exfalso. apply Hn.
        apply in_map_iff. exists (m, v). split; [reflexivity|exact Hin].
      + apply IH; [apply (sorted_names_tail _ _ Hs)|exact Hin].
  Qed.

  Lemma adel_keys : forall m n c,
    In m (map fst (adel n c)) <-> In m (map fst c) /\ m <> n.
  Proof.
    intros m n c. rewrite <- !alookup_in_keys. rewrite alookup_adel.
    destruct (String.eqb m n) eqn:E.
    - apply str_eqb_eq in E. split; [congruence|intros [_ Hc]; congruence].
    - apply str_eqb_neq in E. tauto.
  Qed.

  Lemma ains_keys : forall m n v c,
    In m (map fst (ains n v c)) <-> m = n \/ In m (map fst c).
  Proof.
    intros m n v c. induction c as [|[k x] t IH]; cbn [ains map fst In].
    - split; [intros [->|[]]; auto|intros [->|[]]; auto].
    - destruct (String.ltb n k); cbn [map fst In].
      + split; [intros [->|[->|Hc]]; auto|intros [->|[->|Hc]]; auto].
      + rewrite IH. split; [intros [->|[->|Hc]]; auto|intros [->|[->|Hc]]; auto].
  Qed.

  Lemma adel_sorted : forall n c,
    sorted_names (map fst c) = true -> sorted_names (map fst (adel n c)) = true.
  Proof.
    intros n c. induction c as [|[m x] t IH]; cbn [adel map fst]; intro Hs; [reflexivity|].
    apply sorted_names_cons in Hs. destruct Hs as [Hgt Hs].
    destruct (String.eqb n m); [apply IH; exact Hs|].
    cbn [map fst]. apply sorted_names_cons. split; [|apply IH; exact Hs].
    intros k Hk. apply adel_keys in Hk. apply Hgt. apply Hk.
  Qed.

  Lemma ains_sorted : forall n v c,
    sorted_names (map fst c) = true -> ~ In n (map fst c) ->
    sorted_names (map fst (ains n v c)) = true.
  Proof.
    intros n v c. induction c as [|[m x] t IH]; cbn [ains map fst]; intros Hs Hn; [reflexivity|].
    pose proof Hs as Hs0.
    apply sorted_names_cons in Hs. destruct Hs as [Hgt Hs].
    destruct (String.ltb n m) eqn:E; cbn [map fst].
    - apply sorted_names_cons. split; [|exact Hs0].
      intros k [<-|Hk]; [exact E|]. apply (str_ltb_trans _ m); [exact E|apply Hgt; exact Hk].
    - apply sorted_names_cons. split.
      + intros k Hk. apply ains_keys in Hk. destruct Hk as [->|Hk]; [|apply Hgt; exact Hk].
        apply str_ltb_total; [|exact E]. apply str_eqb_neq. intro Hc. apply Hn. left. auto.
      + apply IH; [exact Hs|]. intro Hc. apply Hn. right. exact Hc.
  Qed.

  Lemma aset_sorted : forall n v c,
    sorted_names (map fst c) = true -> sorted_names (map fst (aset n v c)) = true.
  Proof.
    intros n v c Hs. unfold aset. apply ains_sorted; [apply adel_sorted; exact Hs|].
    intro Hc. apply adel_keys in Hc. destruct Hc as [_ Hc]. apply Hc. reflexivity.
  Qed.

  Lemma aset_keys : forall m n v c,
    In m (map fst (aset n v c)) <-> m = n \/ In m (map fst c).
  Proof.
    intros m n v c. unfold aset. rewrite ains_keys, adel_keys.
    destruct (String.eqb m n) eqn:E.
    - apply str_eqb_eq in E. tauto.
    - apply str_eqb_neq in E. tauto.
  Qed.
End AssocFacts.

Lemma amap_keys : forall {A B} (f : A -> B) c, map fst (amap f c) = map fst c.
Proof.
  intros A B f c. unfold amap. rewrite map_map. apply map_ext. intros [n x]. reflexivity.
Qed.

Lemma alookup_amap : forall {A B} (f : A -> B) k c,
  alookup k (amap f c) = option_map f (alookup k c).
Proof.
  intros A B f k c. induction c as [|[m x] t IH]; cbn [amap map alookup fst snd]; [reflexivity|].
  destruct (String.eqb k m); [reflexivity|]. exact IH.
Qed.

Lemma lookup_alookup : forall k (c : list (name * entry)), lookup k c = alookup k c.
Proof.
  intros k c. induction c as [|[m x] t IH]; cbn [lookup alookup]; [reflexivity|].
  destruct (String.eqb k m); [reflexivity|exact IH].
Qed.

Lemma nlookup_alookup : forall k (c : list (name * node)), nlookup k c = alookup k c.
Proof.
  intros k c. induction c as [|[m x] t IH]; cbn [nlookup alookup]; [reflexivity|].
  destruct (String.eqb k m); [reflexivity|exact IH].
Qed.

(* ---------- nested induction on nodes ---------- *)
Section NodeInd.
  Variable P : node -> Prop.
  Hypothesis Hdir : forall m c, Forall (fun ny => P (snd ny)) c -> P (NDir m c).
  Hypothesis Hfile : forall m d, P (NFile m d).
  Hypothesis Hlink : forall m t, P (NLink m t).
  Hypothesis Hother : forall m ty, P (NOther m ty).

  Fixpoint node_nested_ind (x : node) : P x :=
    match x with
    | NDir m c =>
      Hdir m c ((fix go (l : list (name * node)) : Forall (fun ny => P (snd ny)) l :=
                   match l with
                   | [] => Forall_nil _
                   | ny :: t => Forall_cons ny (node_nested_ind (snd ny)) (go t)
                   end) c)
    | NFile m d => Hfile m d
    | NLink m t => Hlink m t
    | NOther m ty => Hother m ty
    end.
End NodeInd.

(* ---------- well-formedness of children ---------- *)
Definition name_ok (n : name) : bool :=
  negb (String.eqb n "") && negb (String.eqb n ".") && negb (String.eqb n "..")
  && negb (existsb (fun a => Ascii.eqb a "/"%char) (list_ascii_of_string n)).

Definition wf_kids (l : list (name * node)) : bool :=
  forallb (fun ny => name_ok (fst ny) && wf_node (snd ny)) l.

Lemma wf_node_dir : forall m c,
  wf_node (NDir m c) = meta_wf m && (wf_kids c && sorted_names (map fst c)).
Proof.
  intros m c. cbn [wf_node node_meta]. f_equal. f_equal.
  induction c as [|[n y] t IH]; [reflexivity|].
  cbn [wf_kids forallb fst snd]. unfold name_ok. rewrite IH. rewrite <- !andb_assoc. reflexivity.
Qed.

Lemma wf_dir_sorted : forall m c, wf_node (NDir m c) = true -> sorted_names (map fst c) = true.
Proof.
  intros m c Hw. rewrite wf_node_dir in Hw.
  apply andb_true_iff in Hw. destruct Hw as [_ Hw]. apply andb_true_iff in Hw. apply Hw.
Qed.

Lemma wf_dir_child : forall m c n y,
  wf_node (NDir m c) = true -> In (n, y) c -> wf_node y = true.
Proof.
  intros m c n y Hw Hin. rewrite wf_node_dir in Hw.
  apply andb_true_iff in Hw. destruct Hw as [_ Hw]. apply andb_true_iff in Hw. destruct Hw as [Hw _].
  unfold wf_kids in Hw. rewrite forallb_forall in Hw. specialize (Hw _ Hin).
  apply andb_true_iff in Hw. apply Hw.
Qed.

Definition esc_ok (c : list (name * node)) : bool :=
  forallb (fun ny => utf8_valid (fst ny) ||
                     negb (existsb (fun mz => utf8_valid (fst mz) && String.eqb (fst mz) (escape_name (fst ny))) c)) c.

Definition esc_kids (l : list (name * node)) : bool := forallb (fun ny => escape_safe (snd ny)) l.

Lemma escape_safe_dir : forall m c, escape_safe (NDir m c) = esc_ok c && esc_kids c.
Proof.
  intros m c. cbn [escape_safe]. f_equal.
  induction c as [|[n y] t IH]; [reflexivity|].
  cbn [esc_kids forallb snd]. rewrite IH. reflexivity.
Qed.

Lemma escape_safe_child : forall m c n y,
  escape_safe (NDir m c) = true -> In (n, y) c -> escape_safe y = true.
Proof.
  intros m c n y Hw Hin. rewrite escape_safe_dir in Hw.
  apply andb_true_iff in Hw. destruct Hw as [_ Hw].
  unfold esc_kids in Hw. rewrite forallb_forall in Hw. apply (Hw _ Hin).
Qed.

(* an invalid name's escaped form is not a valid sibling name *)
Lemma escape_safe_sibling : forall m c n y n' y',
  escape_safe (NDir m c) = true -> In (n, y) c -> In (n', y') c ->
  utf8_valid n = false -> utf8_valid n' = true -> n' <> escape_name n.
Proof.
  intros m c n y n' y' Hw Hin Hin' Hv Hv' Heq. rewrite escape_safe_dir in Hw.
  apply andb_true_iff in Hw. destruct Hw as [Hw _].
  unfold esc_ok in Hw. rewrite forallb_forall in Hw. specialize (Hw _ Hin).
  cbn [fst] in Hw. rewrite Hv in Hw. cbn [orb] in Hw.
  apply negb_true_iff in Hw.
  assert (Hc : existsb (fun mz : name * node => utf8_valid (fst mz) && String.eqb (fst mz) (escape_name n)) c = true).
  { apply existsb_exists. exists (n', y'). split; [exact Hin'|].
    cbn [fst]. rewrite Hv'. subst n'. rewrite str_eqb_refl. reflexivity. }
  exact (eq_true_false_abs _ Hc Hw).
Qed.

Lemma scan_wf_child : forall m c n y,
  scan_wf (NDir m c) = true -> In (n, y) c -> scan_wf y = true.
Proof.
  intros m c n y Hw Hin. unfold scan_wf in *. apply andb_true_iff in Hw. destruct Hw as [H1 H2].
  rewrite (wf_dir_child _ _ _ _ H1 Hin), (escape_safe_child _ _ _ _ H2 Hin). reflexivity.
Qed.

(* children of a well-formed directory: a name determines the node *)
Lemma sorted_in_unique : forall {A} (c : list (name * A)) n y y',
  sorted_names (map fst c) = true -> In (n, y) c -> In (n, y') c -> y = y'.
Proof.
  intros A c n y y' Hs H1 H2.
  pose proof (in_alookup_sorted _ _ _ Hs H1) as E1.
  pose proof (in_alookup_sorted _ _ _ Hs H2) as E2. congruence.
Qed.

(* ---------- the directory loop as a fold ---------- *)
Definition run_kids (rs : list cres) : option kids_acc :=
  fold_right step (Some ([], [], cnt0)) rs.

Definition key_of (r : cres) : option name :=
  match r with CList k _ _ _ _ => Some k | _ => None end.

Definition val_of (r : cres) : option (entry * ctree) :=
  match r with CList _ e t _ _ => Some (e, t) | _ => None end.

(* the value recorded under k: that of the first listed outcome with key k *)
Fixpoint first_listed (k : name) (rs : list cres) : option (entry * ctree) :=
  match rs with
  | [] => None
  | CList k' e t _ _ :: rest => if String.eqb k k' then Some (e, t) else first_listed k rest
  | _ :: rest => first_listed k rest
  end.

Lemma run_kids_cons : forall r rs, run_kids (r :: rs) = step r (run_kids rs).
Proof. reflexivity. Qed.

Lemma run_kids_lookup : forall rs out ics cnts,
  run_kids rs = Some (out, ics, cnts) ->
  forall k, alookup k out = first_listed k rs.
Proof.
  induction rs as [|r rs IH]; intros out ics cnts Hr k.
  - cbn in Hr. inversion Hr. reflexivity.
  - rewrite run_kids_cons in Hr. destruct r as [| |k' e t ic cnt]; cbn [step first_listed] in *.
    + discriminate.
    + apply (IH _ _ _ Hr).
    + destruct (run_kids rs) as [[[out' ics'] cnts']|] eqn:Er; [|discriminate].
      inversion Hr. subst. rewrite alookup_aset.
      destruct (String.eqb k k'); [reflexivity|]. apply (IH _ _ _ eq_refl).
Qed.

Lemma run_kids_sorted : forall rs out ics cnts,
  run_kids rs = Some (out, ics, cnts) -> sorted_names (map fst out) = true.
Proof.
  induction rs as [|r rs IH]; intros out ics cnts Hr.
  - cbn in Hr. inversion Hr. reflexivity.
  - rewrite run_kids_cons in Hr. destruct r as [| |k' e t ic cnt]; cbn [step] in *.
    + discriminate.
    + apply (IH _ _ _ Hr).
    + destruct (run_kids rs) as [[[out' ics'] cnts']|] eqn:Er; [|discriminate].
      inversion Hr. subst. apply aset_sorted. apply (IH _ _ _ eq_refl).
Qed.

Lemma run_kids_no_abort : forall rs acc,
  run_kids rs = Some acc -> forall r, In r rs -> r <> CAbort.
Proof.
  induction rs as [|r0 rs IH]; intros acc Hr r Hin; [destruct Hin|].
  rewrite run_kids_cons in Hr. destruct Hin as [<-|Hin].
  - intros ->. cbn in Hr. discriminate.
  - destruct r0 as [| |k' e t ic cnt]; cbn [step] in Hr.
    + discriminate.
    + apply (IH _ Hr _ Hin).
    + destruct (run_kids rs) as [acc'|] eqn:Er; [|discriminate]. apply (IH _ eq_refl _ Hin).
Qed.

Lemma first_listed_none : forall k rs,
  (forall r, In r rs -> key_of r <> Some k) -> first_listed k rs = None.
Proof.
  intros k rs. induction rs as [|r rs IH]; intro Hn; [reflexivity|].
  destruct r as [| |k' e t ic cnt]; cbn [first_listed].
  - apply IH. intros r Hr. apply Hn. right. exact Hr.
  - apply IH. intros r Hr. apply Hn. right. exact Hr.
  - destruct (String.eqb k k') eqn:E.
    + apply str_eqb_eq in E. subst. exfalso. apply (Hn (CList k' e t ic cnt)); [left; reflexivity|reflexivity].
    + apply IH. intros r Hr. apply Hn. right. exact Hr.
Qed.

Lemma first_listed_in : forall k rs v,
  first_listed k rs = Some v -> exists r, In r rs /\ key_of r = Some k /\ val_of r = Some v.
Proof.
  intros k rs v. induction rs as [|r rs IH]; cbn [first_listed]; [discriminate|].
  destruct r as [| |k' e t ic cnt].
  - intro Hf. destruct (IH Hf) as [r [Hin Hr]]. exists r. split; [right; exact Hin|exact Hr].
  - intro Hf. destruct (IH Hf) as [r [Hin Hr]]. exists r. split; [right; exact Hin|exact Hr].
  - destruct (String.eqb k k') eqn:E.
    + apply str_eqb_eq in E. subst. intros [= <-]. exists (CList k' e t ic cnt).
      split; [left; reflexivity|split; reflexivity].
    + intro Hf. destruct (IH Hf) as [r [Hin Hr]]. exists r. split; [right; exact Hin|exact Hr].
Qed.

(* when outcomes with equal keys carry equal values, any listed outcome with
   key k gives the value recorded under k *)
Lemma first_listed_any : forall k rs r v,
  (forall r1 r2, In r1 rs -> In r2 rs -> key_of r1 = Some k -> key_of r2 = Some k ->
                 val_of r1 = val_of r2) ->
  In r rs -> key_of r = Some k -> val_of r = Some v ->
  first_listed k rs = Some v.
Proof.
  intros k rs r v Hc Hin Hk Hv.
  destruct (first_listed k rs) as [v'|] eqn:Ef.
  - destruct (first_listed_in _ _ _ Ef) as [r' [Hin' [Hk' Hv']]].
    specialize (Hc _ _ Hin Hin' Hk Hk'). congruence.
  - exfalso. revert Ef. clear Hc Hv. induction rs as [|r0 rs IH]; [destruct Hin|].
    destruct Hin as [->|Hin].
    + destruct r as [| |k' e t ic cnt]; cbn in Hk; try discriminate.
      inversion Hk. subst. cbn [first_listed]. rewrite str_eqb_refl. discriminate.
    + destruct r0 as [| |k' e t ic cnt]; cbn [first_listed]; try (apply IH; exact Hin).
      destruct (String.eqb k k'); [discriminate|apply IH; exact Hin].
Qed.

Lemma run_kids_keys : forall rs out ics cnts k,
  run_kids rs = Some (out, ics, cnts) -> In k (map fst out) ->
  exists r, In r rs /\ key_of r = Some k.
Proof.
  intros rs out ics cnts k Hr Hin. apply alookup_in_keys in Hin.
  rewrite (run_kids_lookup _ _ _ _ Hr) in Hin.
  destruct (first_listed k rs) as [v|] eqn:Ef; [|congruence].
  destruct (first_listed_in _ _ _ Ef) as [r [H1 [H2 _]]]. exists r. auto.
Qed.
