(* The ignore cache a scan returns agrees with the ignorer whenever the ignore
   cache it was given does; without a baseline the dirty-path set is never
   consulted. *)
From Coq Require Import List Bool Arith String Ascii NArith Lia.
From Mv Require Import Model.Entry Model.Fs Model.Scan Model.ScanSpec
     Proof.EntryFacts Proof.ScanFacts Proof.ScanC12 Proof.ScanCount Proof.ScanWalk.
Import ListNotations.
Open Scope string_scope.
Open Scope list_scope.

Definition ic_consistent (ign : path -> bool -> ival) (ic : icache) : Prop :=
  forall p d v, ic_lookup p d ic = Some v -> v = ign p d.

Definition ic_all_ok (ign : path -> bool -> ival) (ic : icache) : Prop :=
  Forall (fun kv => snd kv = ign (fst (fst kv)) (snd (fst kv))) ic.

Lemma ic_all_ok_consistent : forall ign ic, ic_all_ok ign ic -> ic_consistent ign ic.
Proof.
  intros ign ic Ha p d v. induction Ha as [|[[q e] w] ic Hh Ht IH]; cbn [ic_lookup]; [discriminate|].
  destruct (path_eqb p q && Bool.eqb d e) eqn:E.
  - apply andb_true_iff in E. destruct E as [E1 E2]. apply path_eqb_eq in E1. apply eqb_prop in E2.
    subst. intros [= <-]. exact Hh.
  - exact IH.
Qed.

Lemma ic_all_ok_app : forall ign a b, ic_all_ok ign a -> ic_all_ok ign b -> ic_all_ok ign (a ++ b).
Proof. intros ign a b Ha Hb. apply Forall_app. split; assumption. Qed.

Lemma ic_consistent_nil : forall ign, ic_consistent ign [].
Proof. intros ign p d v Hl. discriminate. Qed.

Section Ic.
  Variable H : string -> string.
  Variable ign : path -> bool -> ival.
  Variable flt : path -> fop -> outcome.
  Variable cfg : config.
  Variable rootdev : N.
  Variable oc : ctree.
  Variable oic : icache.
  Hypothesis Hoic : ic_consistent ign oic.

  Lemma ic_prop_ok : forall p d, ic_all_ok ign (ic_prop oic p d).
  Proof.
    intros p d. unfold ic_prop. destruct (ic_lookup p d oic) as [v|] eqn:E; [|constructor].
    constructor; [|constructor]. cbn [fst snd]. apply (Hoic _ _ _ E).
  Qed.

  Lemma walk_ic_ok : forall e p, ic_all_ok ign (snd (fst (fst (walk oc oic p e)))).
  Proof.
    induction e as [c IH|x d|tg| |msg|c IH] using entry_nested_ind; intro p.
    - rewrite walk_dir.
      assert (Hk : ic_all_ok ign (snd (fst (fst (walk_kids oc oic p c))))).
      { induction c as [|[n x] c IHc]; [constructor|].
        inversion IH as [|? ? Hh Ht]. subst. cbn [walk_kids fold_right]. fold (walk_kids oc oic p c).
        unfold walk_step. cbn [fst snd]. specialize (Hh (p ++ [n])). cbn [snd] in Hh. specialize (IHc Ht).
        destruct (walk oc oic (p ++ [n]) x) as [[[t ic] cnt] miss].
        destruct (walk_kids oc oic p c) as [[[ts ics] cnts] misss]. cbn [fst snd] in *.
        apply ic_all_ok_app; assumption. }
      destruct (walk_kids oc oic p c) as [[[ts ics] cnts] miss]. cbn [fst snd] in *.
      apply ic_all_ok_app; [apply ic_prop_ok|exact Hk].
    - cbn [walk]. destruct (ct_get p oc); cbn [fst snd]; apply ic_prop_ok.
    - cbn [walk fst snd]. apply ic_prop_ok.
    - cbn [walk fst snd]. constructor.
    - cbn [walk fst snd]. constructor.
    - rewrite walk_phantom.
      assert (Hk : ic_all_ok ign (snd (fst (fst (walk_kids oc oic p c))))).
      { induction c as [|[n x] c IHc]; [constructor|].
        inversion IH as [|? ? Hh Ht]. subst. cbn [walk_kids fold_right]. fold (walk_kids oc oic p c).
        unfold walk_step. cbn [fst snd]. specialize (Hh (p ++ [n])). cbn [snd] in Hh. specialize (IHc Ht).
        destruct (walk oc oic (p ++ [n]) x) as [[[t ic] cnt] miss].
        destruct (walk_kids oc oic p c) as [[[ts ics] cnts] misss]. cbn [fst snd] in *.
        apply ic_all_ok_app; assumption. }
      destruct (walk_kids oc oic p c) as [[[ts ics] cnts] miss]. cbn [fst snd] in *.
      apply ic_all_ok_app; [apply ic_prop_ok|exact Hk].
  Qed.

  Definition hres_ic_ok (r : hres) : Prop :=
    match r with HOk _ _ ic _ => ic_all_ok ign ic | _ => True end.

  Definition cres_ic_ok (r : cres) : Prop :=
    match r with CList _ _ _ ic _ => ic_all_ok ign ic | _ => True end.

  Lemma run_kids_ic_ok : forall rs out ics cnts,
    Forall cres_ic_ok rs -> run_kids rs = Some (out, ics, cnts) -> ic_all_ok ign ics.
  Proof.
    induction rs as [|r rs IH]; intros out ics cnts Hall Hr.
    - cbn in Hr. inversion Hr. constructor.
    - rewrite run_kids_cons in Hr. inversion Hall as [|? ? Hh Ht]. subst.
      destruct r as [| |k e t ic cnt]; cbn [step] in Hr.
      + discriminate.
      + apply (IH _ _ _ Ht Hr).
      + destruct (run_kids rs) as [[[out' ics'] cnts']|] eqn:Er; [|discriminate].
        inversion Hr. subst. apply ic_all_ok_app; [exact Hh|apply (IH _ _ _ Ht eq_refl)].
  Qed.

  Lemma ignore_of_ok : forall cp d, ignore_of ign oic cp d = ign cp d.
  Proof.
    intros cp d. unfold ignore_of. destruct (ic_lookup cp d oic) as [v|] eqn:E; [|reflexivity].
    apply (Hoic _ _ _ E).
  Qed.

  Lemma scan_dir_ic_ok : forall dirty x p bl mask,
    hres_ic_ok (scan_dir H ign flt cfg rootdev oc oic dirty p x bl mask).
  Proof.
    intros dirty.
    induction x as [m c IH|m d|m t|m ty] using node_nested_ind; intros p bl mask; try exact I.
    rewrite scan_dir_dir.
    destruct (negb (N.eqb (m_dev m) rootdev)); [constructor|].
    destruct (flt p FOpenDir) as [|e|]; [|destruct (is_not_exist e); [exact I|constructor]|exact I].
    destruct (flt p FReadContents) as [|e|]; [|constructor|exact I].
    match goal with |- context [run_kids ?rs] => destruct (run_kids rs) as [[[out ics] cnts]|] eqn:Erk end;
      [|exact I].
    cbn [hres_ic_ok]. eapply run_kids_ic_ok; [|exact Erk].
    apply Forall_forall. intros r Hr. apply in_map_iff in Hr. destruct Hr as [[n y] [Er Hin]].
    cbn [fst snd] in Er. subst r. rewrite child_res_eq. rewrite ignore_of_ok.
    destruct (flt (p ++ [n]) FCheck); try exact I;
      (destruct (is_temp n); [exact I|]);
      (destruct (utf8_valid n); cbn [negb]; [|constructor]).
    all: destruct y as [m2 c2|mf df|ml tl|mx ty]; try constructor; cbv zeta; cbn [is_dir].
    all: match goal with |- context [decide ?mk ?v] => destruct (decide mk v) as [|mask'] end;
      [cbn [cres_ic_ok]; constructor; [reflexivity|constructor]|].
    all: unfold handle.
    all: match goal with
         | |- cres_ic_ok (of_hres _ _ ?h) =>
           assert (Hh : hres_ic_ok h);
             [|destruct h as [| |e0 t0 ic0 cnt0']; try exact I; cbn [of_hres cres_ic_ok];
               apply ic_all_ok_app; [constructor; [reflexivity|constructor]|exact Hh]]
         end.
    all: try (rewrite Forall_forall in IH; specialize (IH _ Hin); cbn [snd] in IH;
              destruct (dir_baseline bl n) as [d0|];
              [destruct (reusable dirty (p ++ [n]) d0); [|apply IH]|apply IH];
              unfold reuse;
              pose proof (walk_ic_ok (EDir d0) (p ++ [n])) as Hw;
              destruct (walk oc oic (p ++ [n]) (EDir d0)) as [[[tw icw] cntw] missw];
              destruct missw; [exact I|exact Hw]).
    all: try (unfold scan_file;
              destruct (ct_get (p ++ [n]) oc) as [ce|];
              [destruct (content_match (S_IFREG + m_mode mf) mf ce)|];
              unfold file_finish;
              repeat match goal with
                     | |- hres_ic_ok (match ?x with _ => _ end) => destruct x
                     | |- hres_ic_ok (if ?x then _ else _) => destruct x
                     end; try exact I; constructor).
    all: unfold scan_link_mode, scan_link;
      repeat match goal with
             | |- hres_ic_ok (match ?x with _ => _ end) => destruct x
             | |- hres_ic_ok (if ?x then _ else _) => destruct x
             end; try exact I; constructor.
  Qed.
End Ic.
