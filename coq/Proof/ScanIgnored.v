(* Lemmas for the C03 scan premise (Model/ScanIgnored.v). *)
From Coq Require Import List Bool Arith String Ascii Lia.
Import ListNotations.
From Mv Require Import Model.Entry Model.IgnoreScan Model.ScanIgnored.
From Mv Require Import Proof.IgnoreScan.
Open Scope list_scope.

Lemma check_c03_scan_sound ign snap :
  check_c03_scan ign snap = true ->
  forall q e, In (q, e) (entries [] snap) -> synchronizable_entry e = true ->
              eff_ignored ign q (entry_is_dir e) = false.
Proof.
  unfold check_c03_scan. rewrite forallb_forall. intros H q e Hin Hs.
  specialize (H (q, e) Hin). cbn [fst snd] in H. rewrite Hs in H. cbn [negb orb] in H.
  apply negb_true_iff in H. exact H.
Qed.

Section Walk.
Variable ign : ignorer.
Hypothesis Hcont : cont_only_dirs ign.

(* the mask handed down by the walk is the effective verdict on the directory *)
Lemma decide_eff n rp (d : bool) mask mask' :
  mask = eff_ignored ign rp true ->
  decide (fst (ign (n :: rp) d)) (snd (ign (n :: rp) d)) mask = Some mask' ->
  (d = false -> mask' = false) /\ mask' = eff_ignored ign (n :: rp) d.
Proof.
  intros Hm Hdec. cbn [eff_ignored]. rewrite <- Hm.
  destruct d.
  - split; [discriminate|]. unfold decide in Hdec.
    destruct (fst (ign (n :: rp) true)).
    + destruct (mask && negb _) in Hdec; [discriminate|]. injection Hdec as <-. reflexivity.
    + destruct (negb _) in Hdec; [discriminate|]. injection Hdec as <-. reflexivity.
    + injection Hdec as <-. reflexivity.
  - unfold decide in Hdec. rewrite (Hcont (n :: rp)) in Hdec. cbn [negb] in Hdec.
    destruct (fst (ign (n :: rp) false)).
    + rewrite andb_true_r in Hdec. destruct mask; [discriminate|]. injection Hdec as <-. auto.
    + discriminate.
    + injection Hdec as <-. auto.
Qed.

Lemma scan_no_ignored_content node :
  forall rp mask,
    mask = eff_ignored ign rp true ->
    forall q e, In (q, e) (entries rp (fst (scan_node ign rp mask node))) ->
      synchronizable_entry e = true -> eff_ignored ign q (entry_is_dir e) = false.
Proof.
  induction node as [c IHc|d|t| |] using fnode_ind2; intros rp mask Hmask q e Hin Hs;
    try (cbn in Hin; destruct Hin); try (destruct mask; cbn in Hin; destruct Hin).
  rewrite scan_node_dir in Hin.
  destruct (scan_list ign rp mask c) as [es evs] eqn:Hsl. cbn [fst] in Hin.
  assert (Hin' : In (q, e) (entries_list rp es)).
  { destruct mask; [rewrite entries_phantom in Hin|rewrite entries_dir in Hin]; exact Hin. }
  clear Hin. revert es evs Hsl Hin'. induction c as [|[n ch] rest IHl]; intros es evs Hsl Hin.
  - cbn in Hsl. injection Hsl as <- <-. destruct Hin.
  - inversion IHc as [|x0 l0 Hch Hrest]; subst x0 l0. cbn [snd] in Hch.
    specialize (IHl Hrest).
    cbn [scan_list] in Hsl.
    destruct (scan_child ign rp mask n ch) as [e0 ev] eqn:Hsc.
    destruct (scan_list ign rp mask rest) as [es' evs'] eqn:Hsl'.
    injection Hsl as <- <-. cbn [entries_list] in Hin.
    destruct (scan_child_spec ign rp mask n ch) as [[Hk H]|[(Hk & Hdec & H)|(Hk & mask' & Hdec & H)]];
      rewrite Hsc in H; injection H as -> ->.
    + destruct Hin as [[= <- <-]|Hin].
      { destruct ch; try discriminate; destruct mask; discriminate. }
      assert (Hnone : entries (n :: rp) (match ch with FBadName => bad_name_entry mask | _ => EUntracked end) = []).
      { destruct ch; try reflexivity. destruct mask; reflexivity. }
      rewrite Hnone in Hin. cbn [app] in Hin. exact (IHl es' evs' eq_refl Hin).
    + destruct Hin as [[= <- <-]|Hin]; [discriminate|]. cbn [entries app] in Hin.
      exact (IHl es' evs' eq_refl Hin).
    + destruct (decide_eff n rp (is_fdir ch) mask mask' Hmask Hdec) as [Hfile Hm'].
      destruct Hin as [[= <- <-]|Hin].
      * destruct ch as [c'|dg|tg| |]; try discriminate.
        -- rewrite scan_node_dir in Hs |- *. destruct (scan_list ign (n :: rp) mask' c'). cbn [fst] in *.
           destruct mask'; [discriminate|]. cbn [entry_is_dir]. symmetry. exact Hm'.
        -- cbn [scan_node fst entry_is_dir]. cbn [is_fdir] in *. rewrite <- Hm'. apply Hfile. reflexivity.
        -- cbn [scan_node fst entry_is_dir]. cbn [is_fdir] in *. rewrite <- Hm'. apply Hfile. reflexivity.
      * apply in_app_or in Hin. destruct Hin as [Hin|Hin]; [|exact (IHl es' evs' eq_refl Hin)].
        assert (Hd : is_fdir ch = true).
        { destruct ch; try reflexivity; cbn in Hin; try destruct Hin; destruct mask'; destruct Hin. }
        rewrite Hd in Hm'. exact (Hch (n :: rp) mask' Hm' q e Hin Hs).
Qed.

Theorem scan_passes_c03 root : check_c03_scan ign (snapshot ign root) = true.
Proof.
  unfold check_c03_scan. apply forallb_forall. intros [q e] Hin. cbn [fst snd].
  destruct (synchronizable_entry e) eqn:Hs; [|reflexivity]. cbn [negb orb].
  apply negb_true_iff. unfold snapshot, scan in Hin.
  exact (scan_no_ignored_content root [] false eq_refl q e Hin Hs).
Qed.
End Walk.

Lemma table_cont_only_dirs_sound t :
  table_cont_only_dirs t = true -> cont_only_dirs (table_ignorer t).
Proof.
  unfold table_cont_only_dirs, cont_only_dirs, table_ignorer. rewrite forallb_forall. intros H q.
  match goal with |- context [find ?f t] => destruct (find f t) as [[[[p d] st] c]|] eqn:E end; [|reflexivity].
  apply find_some in E. destruct E as [Hin Hb]. specialize (H _ Hin). cbn in H.
  apply andb_prop in Hb. destruct Hb as [_ Hd]. destruct d; [discriminate|]. cbn [orb] in H.
  apply negb_true_iff in H. exact H.
Qed.
