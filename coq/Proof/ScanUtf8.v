(* The escaped form of a name carries the temporary prefix only if the name
   itself does (a fact about the model of strings.ToValidUTF8). *)
From Coq Require Import List Bool Arith String Ascii NArith Lia.
From Mv Require Import Model.Entry Model.Fs Model.Scan.
Import ListNotations.
Open Scope list_scope.

(* ---------- strings and byte lists ---------- *)
Lemma prefix_app_iff : forall s1 s2,
  String.prefix s1 s2 = true <-> exists s3, s2 = (s1 ++ s3)%string.
Proof.
  induction s1 as [|a s1 IH]; intros s2.
  - split; [intros _; exists s2; reflexivity|intros _; destruct s2; reflexivity].
  - destruct s2 as [|b s2]; cbn.
    + split; [discriminate|intros [s3 Hs]; discriminate].
    + destruct (ascii_dec a b) as [->|Hn].
      * rewrite IH. split; intros [s3 Hs]; exists s3; [rewrite Hs; reflexivity|].
        inversion Hs. reflexivity.
      * split; [discriminate|]. intros [s3 Hs]. inversion Hs. congruence.
Qed.

Lemma list_ascii_app : forall s1 s2,
  list_ascii_of_string (s1 ++ s2)%string = list_ascii_of_string s1 ++ list_ascii_of_string s2.
Proof. induction s1 as [|a s1 IH]; intro s2; cbn; [reflexivity|rewrite IH; reflexivity]. Qed.

Lemma bytes_app : forall s1 s2,
  bytes_of_string (s1 ++ s2)%string = bytes_of_string s1 ++ bytes_of_string s2.
Proof. intros s1 s2. unfold bytes_of_string. rewrite list_ascii_app, map_app. reflexivity. Qed.

Lemma string_of_list_app : forall l1 l2,
  string_of_list_ascii (l1 ++ l2) = (string_of_list_ascii l1 ++ string_of_list_ascii l2)%string.
Proof. induction l1 as [|a l1 IH]; intro l2; cbn; [reflexivity|rewrite IH; reflexivity]. Qed.

Lemma string_of_bytes_app : forall l1 l2,
  string_of_bytes (l1 ++ l2) = (string_of_bytes l1 ++ string_of_bytes l2)%string.
Proof. intros l1 l2. unfold string_of_bytes. rewrite map_app, string_of_list_app. reflexivity. Qed.

Lemma string_bytes_roundtrip : forall s, string_of_bytes (bytes_of_string s) = s.
Proof.
  intro s. unfold string_of_bytes, bytes_of_string. rewrite map_map.
  rewrite (map_ext _ (fun a => a)) by (intro a; apply ascii_N_embedding).
  rewrite map_id. apply string_of_list_ascii_of_string.
Qed.

Definition small (l : list N) : Prop := Forall (fun b => (b < 256)%N) l.

Lemma bytes_string_roundtrip : forall l, small l -> bytes_of_string (string_of_bytes l) = l.
Proof.
  intros l Hl. unfold string_of_bytes, bytes_of_string.
  rewrite list_ascii_of_string_of_list_ascii, map_map.
  induction Hl as [|b l Hb Hl IH]; [reflexivity|]. cbn [map]. rewrite IH.
  rewrite N_ascii_embedding by exact Hb. reflexivity.
Qed.

Lemma bytes_small : forall s, small (bytes_of_string s).
Proof.
  intro s. unfold small, bytes_of_string. apply Forall_forall. intros b Hb.
  apply in_map_iff in Hb. destruct Hb as [a [<- _]]. apply N_ascii_bounded.
Qed.

Lemma small_firstn : forall n l, small l -> small (firstn n l).
Proof.
  induction n as [|n IH]; intros l Hl; [constructor|]. destruct l as [|b l]; [constructor|].
  inversion Hl. subst. cbn [firstn]. constructor; [assumption|apply IH; assumption].
Qed.

Lemma small_skipn : forall n l, small l -> small (skipn n l).
Proof.
  induction n as [|n IH]; intros l Hl; [exact Hl|]. destruct l as [|b l]; [exact Hl|].
  inversion Hl. apply IH. assumption.
Qed.

Lemma to_valid_small : forall f l r, small l -> small (to_valid_f f l r).
Proof.
  induction f as [|f IH]; intros l r Hl; [constructor|]. cbn [to_valid_f].
  destruct l as [|b t]; [constructor|].
  destruct (utf8_width (b :: t)) as [|w].
  - apply Forall_app. split.
    + destruct r; [constructor|]. repeat constructor.
    + apply IH. inversion Hl. assumption.
  - apply Forall_app. split; [apply small_firstn; exact Hl|apply IH; apply small_skipn; exact Hl].
Qed.

(* ---------- the prefix argument ---------- *)
Definition ascii7 (l : list N) : Prop := Forall (fun b => (b < 128)%N) l.

Lemma width_ascii7 : forall b t, (b < 128)%N -> utf8_width (b :: t) = 1.
Proof. intros b t Hb. cbn [utf8_width]. apply N.ltb_lt in Hb. rewrite Hb. reflexivity. Qed.

Lemma width_head : forall b t w, utf8_width (b :: t) = S (S w) -> (194 <= b)%N.
Proof.
  intros b t w. cbn [utf8_width].
  destruct (N.ltb b 128); [discriminate|].
  destruct (N.leb 194 b && N.leb b 223) eqn:E1.
  { apply andb_true_iff in E1. destruct E1 as [E1 _]. apply N.leb_le in E1. intros _. exact E1. }
  destruct (N.leb 224 b && N.leb b 239) eqn:E2.
  { apply andb_true_iff in E2. destruct E2 as [E2 _]. apply N.leb_le in E2. intros _. lia. }
  destruct (N.leb 240 b && N.leb b 244) eqn:E3.
  { apply andb_true_iff in E3. destruct E3 as [E3 _]. apply N.leb_le in E3. intros _. lia. }
  discriminate.
Qed.

(* if P (7-bit bytes) is a prefix of (to_valid l ++ T) then P is a prefix of l,
   or l is a proper prefix of P and the rest of P is a prefix of T *)
Lemma to_valid_prefix : forall P, ascii7 P ->
  forall f (l : list N) T R, List.length l <= f ->
    to_valid_f f l false ++ T = P ++ R ->
    (exists R', l = P ++ R') \/
    (exists P1 P2, P = P1 ++ P2 /\ P2 <> [] /\ l = P1 /\ exists R2, T = P2 ++ R2).
Proof.
  induction P as [|a P IH]; intros Ha f l T R Hf He.
  - left. exists l. reflexivity.
  - inversion Ha as [|? ? Ha1 Ha2]. subst.
    destruct l as [|b t].
    + right. exists [], (a :: P). split; [reflexivity|split; [discriminate|split; [reflexivity|]]].
      destruct f; cbn in He; exists R; exact He.
    + destruct f as [|f]; [cbn in Hf; lia|]. cbn [to_valid_f] in He.
      destruct (utf8_width (b :: t)) as [|w] eqn:Ew.
      * cbn in He. inversion He. lia.
      * assert (Eb : b = a).
        { cbn [firstn app] in He. inversion He. reflexivity. }
        subst b. rewrite (width_ascii7 a t Ha1) in Ew. inversion Ew. subst w.
        cbn [firstn skipn app] in He. inversion He as [He'].
        cbn [List.length] in Hf.
        destruct (IH Ha2 f t T R ltac:(lia) He') as [[R' ->]|[P1 [P2 [-> [Hne [-> HT]]]]]].
        -- left. exists R'. reflexivity.
        -- right. exists (a :: P1), P2. auto.
Qed.

Definition temp_bytes : list N := bytes_of_string temp_prefix.
Definition suffix_bytes : list N := bytes_of_string " (non-UTF-8)".

Lemma temp_bytes_ascii7 : ascii7 temp_bytes.
Proof. unfold ascii7, temp_bytes. vm_compute. repeat constructor. Qed.

(* no non-empty suffix of the temporary prefix is a prefix of " (non-UTF-8)" *)
Lemma temp_suffix_clash : forall P1 P2 R2,
  temp_bytes = P1 ++ P2 -> P2 <> [] -> suffix_bytes = P2 ++ R2 -> False.
Proof.
  intros P1 P2 R2 Hp Hne Hs. destruct P2 as [|c P2]; [congruence|].
  assert (Hc : c = 32%N) by (vm_compute in Hs; inversion Hs; reflexivity).
  subst c.
  assert (Hin : In 32%N temp_bytes) by (rewrite Hp; apply in_or_app; right; left; reflexivity).
  vm_compute in Hin. repeat (destruct Hin as [Hin|Hin]; [discriminate|]). exact Hin.
Qed.

Lemma escape_temp : forall n, is_temp (escape_name n) = true -> is_temp n = true.
Proof.
  intros n Ht. unfold is_temp in *. apply prefix_app_iff in Ht. destruct Ht as [s3 Hs].
  unfold escape_name in Hs. apply (f_equal bytes_of_string) in Hs.
  rewrite !bytes_app in Hs.
  rewrite bytes_string_roundtrip in Hs by (apply to_valid_small; apply bytes_small).
  fold temp_bytes suffix_bytes in Hs.
  destruct (to_valid_prefix temp_bytes temp_bytes_ascii7 _ _ _ _ (le_n _) Hs)
    as [[R' Hl]|[P1 [P2 [Hp [Hne [_ [R2 HT]]]]]]].
  - apply prefix_app_iff. exists (string_of_bytes R').
    rewrite <- (string_bytes_roundtrip n), Hl, string_of_bytes_app.
    unfold temp_bytes. rewrite string_bytes_roundtrip. reflexivity.
  - exfalso. apply (temp_suffix_clash P1 P2 R2 Hp Hne HT).
Qed.

Lemma escape_not_temp : forall n, is_temp n = false -> is_temp (escape_name n) = false.
Proof.
  intros n Hn. destruct (is_temp (escape_name n)) eqn:E; [|reflexivity].
  apply escape_temp in E. congruence.
Qed.
