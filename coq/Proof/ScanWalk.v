(* The walk over a re-used baseline directory reproduces the cache subtree and
   the counters of the scan that produced the baseline. *)
From Coq Require Import List Bool Arith String Ascii NArith Lia.
From Mv Require Import Model.Entry Model.Fs Model.Scan Model.ScanSpec
     Proof.EntryFacts Proof.ScanFacts Proof.ScanC12 Proof.ScanCount.
Import ListNotations.
Open Scope string_scope.
Open Scope list_scope.

(* counters determined by a content and its cache subtree *)
Definition cnt_et (e : entry) (t : ctree) : counters :=
  {| n_dirs := count_dirs e; n_files := count_files e; n_links := count_links e;
     n_bytes := ct_bytes t |}.

Lemma ct_get_app : forall p q t,
  ct_get (p ++ q) t = match p with
                      | [] => ct_get q t
                      | n :: p' => match alookup n (ct_kids t) with
                                   | Some s => ct_get (p' ++ q) s
                                   | None => None
                                   end
                      end.
Proof. intros [|n p'] q t; reflexivity. Qed.

Section Walk.
  Variable oc : ctree.
  Variable oic : icache.

  Definition walk_step (p : path) (nx : name * entry)
             (acc : list (name * ctree) * icache * counters * bool) :=
    let '(t, ic, cnt, miss) := walk oc oic (p ++ [fst nx])%list (snd nx) in
    let '(ts, ics, cnts, misss) := acc in
    ((fst nx, t) :: ts, (ic ++ ics)%list, cnt_add cnt cnts, miss || misss).

  Definition walk_kids (p : path) (c : list (name * entry)) :=
    fold_right (walk_step p) ([], [], cnt0, false) c.

  Lemma walk_dir : forall p c,
    walk oc oic p (EDir c) =
    let '(ts, ics, cnts, miss) := walk_kids p c in
    (CT None ts, (ic_prop oic p true ++ ics)%list, cnt_add cnt_dir cnts, miss).
  Proof.
    intros p c. cbn [walk].
    match goal with
    | |- context [?K c] => is_fix K; assert (EK : forall l, K l = walk_kids p l)
    end.
    { induction l as [|[n x] l IH]; [reflexivity|].
      cbn [walk_kids fold_right]. unfold walk_step at 1. cbn [fst snd].
      fold (walk_kids p l). rewrite <- IH. reflexivity. }
    rewrite EK. reflexivity.
  Qed.

  Lemma walk_phantom : forall p c,
    walk oc oic p (EPhantom c) =
    let '(ts, ics, cnts, miss) := walk_kids p c in
    (CT None ts, (ic_prop oic p true ++ ics)%list, cnt_add cnt_dir cnts, miss).
  Proof.
    intros p c. cbn [walk].
    match goal with
    | |- context [?K c] => is_fix K; assert (EK : forall l, K l = walk_kids p l)
    end.
    { induction l as [|[n x] l IH]; [reflexivity|].
      cbn [walk_kids fold_right]. unfold walk_step at 1. cbn [fst snd].
      fold (walk_kids p l). rewrite <- IH. reflexivity. }
    rewrite EK. reflexivity.
  Qed.

  Definition sum_zip (c : list (name * entry)) (ts : list (name * ctree)) : counters :=
    {| n_dirs := cd_list c; n_files := cf_list c; n_links := cl_list c; n_bytes := ctb_list ts |}.

  Lemma walk_shape : forall e t p,
    shape_ok e t = true ->
    (forall q, ct_get (p ++ q) oc = ct_get q t) ->
    exists ic, walk oc oic p e = (t, ic, cnt_et e t, false).
  Proof.
    induction e as [c IH|x d|tg| |msg|c IH] using entry_nested_ind; intros t p Hs Hoc.
    - (* directory *)
      destruct t as [[ce|] ts]; [discriminate|]. rewrite shape_ok_dir in Hs.
      apply andb_true_iff in Hs. destruct Hs as [Hsort Hl].
      assert (Hk : forall c' ts', shape_list c' ts' = true ->
                Forall (fun ne => forall t p, shape_ok (snd ne) t = true ->
                           (forall q, ct_get (p ++ q) oc = ct_get q t) ->
                           exists ic, walk oc oic p (snd ne) = (t, ic, cnt_et (snd ne) t, false)) c' ->
                (forall k s, In (k, s) ts' -> alookup k ts = Some s) ->
                exists ics, walk_kids p c' = (ts', ics, sum_zip c' ts', false)).
      { induction c' as [|[k x] c' IHc]; intros [|[k' s] ts'] Hsl Hall Hin; try discriminate.
        - exists []. reflexivity.
        - cbn [shape_list] in Hsl. apply andb_true_iff in Hsl. destruct Hsl as [Hsl Hrest].
          apply andb_true_iff in Hsl. destruct Hsl as [Hkk Hx]. apply str_eqb_eq in Hkk. subst k'.
          inversion Hall as [|? ? Hhead Htail]. subst.
          destruct (IHc ts' Hrest Htail (fun k0 s0 H0 => Hin k0 s0 (or_intror H0))) as [ics Hw].
          cbn [snd] in Hhead.
          destruct (Hhead s (p ++ [k])%list Hx) as [ic Hwx].
          { intro q. rewrite <- app_assoc. cbn [app]. rewrite Hoc. cbn [ct_get ct_kids].
            rewrite (Hin k s (or_introl eq_refl)). reflexivity. }
          exists (ic ++ ics)%list. cbn [walk_kids fold_right]. fold (walk_kids p c'). rewrite Hw.
          unfold walk_step. cbn [fst snd]. rewrite Hwx. reflexivity. }
      assert (Hts : forall k s, In (k, s) ts -> alookup k ts = Some s).
      { intros k s Hin. apply in_alookup_sorted; [|exact Hin].
        assert (Ekeys : forall c' ts', shape_list c' ts' = true -> map fst ts' = map fst c').
        { induction c' as [|[k0 x0] c' IHc]; intros [|[k1 s1] ts'] Hsl; try discriminate; [reflexivity|].
          cbn [shape_list] in Hsl. apply andb_true_iff in Hsl. destruct Hsl as [Hsl Hrest].
          apply andb_true_iff in Hsl. destruct Hsl as [Hkk _]. apply str_eqb_eq in Hkk. subst.
          cbn [map fst]. f_equal. apply IHc. exact Hrest. }
        rewrite (Ekeys _ _ Hl). exact Hsort. }
      destruct (Hk c ts Hl IH Hts) as [ics Hw].
      assert (Ec : cnt_add cnt_dir (sum_zip c ts) = cnt_et (EDir c) (CT None ts)).
      { apply cnt_eq; cbn [cnt_et cnt_add cnt_dir sum_zip n_dirs n_files n_links n_bytes].
        + rewrite count_dirs_dir. reflexivity.
        + rewrite count_files_dir. lia.
        + rewrite count_links_dir. lia.
        + rewrite ct_bytes_ct. reflexivity. }
      rewrite walk_dir, Hw, Ec. eexists. reflexivity.
    - (* file *)
      destruct t as [[ce|] [|? ?]]; try discriminate.
      cbn [walk]. specialize (Hoc []). rewrite app_nil_r in Hoc. rewrite Hoc. cbn [ct_get ct_val].
      assert (Ec : cnt_file (ce_size ce) = cnt_et (EFile x d) (CT (Some ce) []))
        by (apply cnt_eq; cbn; try reflexivity; lia).
      rewrite Ec. eexists. reflexivity.
    - destruct t as [[ce|] [|? ?]]; try discriminate. cbn [walk]. eexists. reflexivity.
    - destruct t as [[ce|] [|? ?]]; try discriminate. cbn [walk]. eexists. reflexivity.
    - destruct t as [[ce|] [|? ?]]; try discriminate. cbn [walk]. eexists. reflexivity.
    - (* phantom directory *)
      destruct t as [[ce|] ts]; [discriminate|]. rewrite shape_ok_phantom in Hs.
      apply andb_true_iff in Hs. destruct Hs as [Hsort Hl].
      assert (Hk : forall c' ts', shape_list c' ts' = true ->
                Forall (fun ne => forall t p, shape_ok (snd ne) t = true ->
                           (forall q, ct_get (p ++ q) oc = ct_get q t) ->
                           exists ic, walk oc oic p (snd ne) = (t, ic, cnt_et (snd ne) t, false)) c' ->
                (forall k s, In (k, s) ts' -> alookup k ts = Some s) ->
                exists ics, walk_kids p c' = (ts', ics, sum_zip c' ts', false)).
      { induction c' as [|[k x] c' IHc]; intros [|[k' s] ts'] Hsl Hall Hin; try discriminate.
        - exists []. reflexivity.
        - cbn [shape_list] in Hsl. apply andb_true_iff in Hsl. destruct Hsl as [Hsl Hrest].
          apply andb_true_iff in Hsl. destruct Hsl as [Hkk Hx]. apply str_eqb_eq in Hkk. subst k'.
          inversion Hall as [|? ? Hhead Htail]. subst.
          destruct (IHc ts' Hrest Htail (fun k0 s0 H0 => Hin k0 s0 (or_intror H0))) as [ics Hw].
          cbn [snd] in Hhead.
          destruct (Hhead s (p ++ [k])%list Hx) as [ic Hwx].
          { intro q. rewrite <- app_assoc. cbn [app]. rewrite Hoc. cbn [ct_get ct_kids].
            rewrite (Hin k s (or_introl eq_refl)). reflexivity. }
          exists (ic ++ ics)%list. cbn [walk_kids fold_right]. fold (walk_kids p c'). rewrite Hw.
          unfold walk_step. cbn [fst snd]. rewrite Hwx. reflexivity. }
      assert (Hts : forall k s, In (k, s) ts -> alookup k ts = Some s).
      { intros k s Hin. apply in_alookup_sorted; [|exact Hin].
        assert (Ekeys : forall c' ts', shape_list c' ts' = true -> map fst ts' = map fst c').
        { induction c' as [|[k0 x0] c' IHc]; intros [|[k1 s1] ts'] Hsl; try discriminate; [reflexivity|].
          cbn [shape_list] in Hsl. apply andb_true_iff in Hsl. destruct Hsl as [Hsl Hrest].
          apply andb_true_iff in Hsl. destruct Hsl as [Hkk _]. apply str_eqb_eq in Hkk. subst.
          cbn [map fst]. f_equal. apply IHc. exact Hrest. }
        rewrite (Ekeys _ _ Hl). exact Hsort. }
      destruct (Hk c ts Hl IH Hts) as [ics Hw].
      assert (Ec : cnt_add cnt_dir (sum_zip c ts) = cnt_et (EPhantom c) (CT None ts)).
      { apply cnt_eq; cbn [cnt_et cnt_add cnt_dir sum_zip n_dirs n_files n_links n_bytes].
        + rewrite count_dirs_phantom. reflexivity.
        + rewrite count_files_phantom. lia.
        + rewrite count_links_phantom. lia.
        + rewrite ct_bytes_ct. reflexivity. }
      rewrite walk_phantom, Hw, Ec. eexists. reflexivity.
  Qed.
End Walk.
