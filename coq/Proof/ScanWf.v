(* The snapshot the walk of Model/IgnoreScan.v produces is a well-formed entry
   (valid, strictly sorted names; non-empty digests and targets) whenever the
   filesystem tree is. Used by C15 to apply the reification lemmas. *)
From Coq Require Import List Bool Arith String Ascii Lia.
Import ListNotations.
From Mv Require Import Model.Entry Model.IgnoreScan.
From Mv Require Import Proof.EntryFacts Proof.IgnoreScan.
Open Scope list_scope.

Fixpoint wf_fnode_list (l : list (name * fnode)) : bool :=
  match l with
  | [] => true
  | (n, x) :: t => name_valid n && wf_fnode x && wf_fnode_list t
  end.

Lemma wf_fnode_dir c : wf_fnode (FDir c) = wf_fnode_list c && sorted_names (map fst c).
Proof.
  cbn [wf_fnode]. f_equal.
  all: induction c as [|[n x] t IH]; [reflexivity|]; cbn [wf_fnode_list]; rewrite <- IH; reflexivity.
Qed.

Lemma scan_wf ign node :
  forall rp mask, wf_fnode node = true -> wf_entry false (fst (scan_node ign rp mask node)) = true.
Proof.
  induction node as [c IHc|d|t| |] using fnode_ind2; intros rp mask Hw; try exact Hw; try reflexivity;
    try (destruct mask; reflexivity).
  rewrite scan_node_dir. rewrite wf_fnode_dir in Hw. apply andb_prop in Hw. destruct Hw as [Hl Hs].
  pose proof (scan_list_names ign rp mask c) as Hn.
  destruct (scan_list ign rp mask c) as [es evs] eqn:Hsl. cbn [fst] in *.
  assert (Hes : wf_list false es = true).
  { clear Hn Hs. revert es evs Hsl. induction c as [|[n ch] rest IHl]; intros es evs Hsl.
    - cbn in Hsl. injection Hsl as <- <-. reflexivity.
    - inversion IHc as [|x0 l0 Hch Hrest]; subst x0 l0. cbn [snd] in Hch.
      cbn [wf_fnode_list] in Hl. apply andb_prop in Hl. destruct Hl as [Hl Hlr].
      apply andb_prop in Hl. destruct Hl as [Hname Hwch].
      cbn [scan_list] in Hsl.
      destruct (scan_child ign rp mask n ch) as [e ev] eqn:Hsc.
      destruct (scan_list ign rp mask rest) as [es' evs'] eqn:Hsl'.
      injection Hsl as <- <-.
      unfold wf_list. cbn [forallb fst snd]. rewrite Hname.
      fold (wf_list false es'). rewrite (IHl Hrest Hlr es' evs' eq_refl), andb_true_r. cbn [andb].
      destruct (scan_child_spec ign rp mask n ch) as [[_ H]|[(_ & _ & H)|(_ & mask' & _ & H)]];
        rewrite Hsc in H; injection H as -> ->; try reflexivity.
      + destruct ch; try reflexivity. destruct mask; reflexivity.
      + apply Hch. exact Hwch. }
  destruct mask.
  - rewrite wf_entry_phantom, Hes, Hn, Hs. reflexivity.
  - rewrite wf_entry_dir, Hes, Hn, Hs. reflexivity.
Qed.

Lemma snapshot_wf ign root : wf_fnode root = true -> wf_entry false (snapshot ign root) = true.
Proof. intros H. unfold snapshot, scan. apply scan_wf. exact H. Qed.
