(* Proofs about Model/Selection.v (C40). *)
From Coq Require Import List Bool Arith String Ascii NArith Lia Permutation Sorted OrderedTypeEx.
Import ListNotations.
From Mv Require Import Model.Entry Model.Selection.
Open Scope string_scope.

(* ================= String.ltb is a strict total order ================= *)
Lemma sltb_lt : forall a b, String.ltb a b = true <-> String_as_OT.lt a b.
Proof.
  intros a b. unfold String.ltb. rewrite <- String_as_OT.cmp_lt. unfold String_as_OT.cmp.
  destruct (String.compare a b); split; intro H; congruence.
Qed.

Lemma sltb_irrefl : forall a, String.ltb a a = false.
Proof.
  intro a. destruct (String.ltb a a) eqn:E; [|reflexivity].
  apply sltb_lt in E. exfalso. apply (String_as_OT.lt_not_eq a a E). reflexivity.
Qed.

Lemma sltb_trans : forall a b c, String.ltb a b = true -> String.ltb b c = true -> String.ltb a c = true.
Proof. intros a b c H1 H2. apply sltb_lt. apply sltb_lt in H1, H2. eapply String_as_OT.lt_trans; eauto. Qed.

Lemma sltb_total : forall a b, a = b \/ String.ltb a b = true \/ String.ltb b a = true.
Proof.
  intros a b. unfold String.ltb. rewrite (String.compare_antisym b a).
  destruct (String.compare a b) eqn:E; cbn; auto. left. now apply String.compare_eq_iff.
Qed.

Lemma sltb_asym : forall a b, String.ltb a b = true -> String.ltb b a = false.
Proof.
  intros a b H. destruct (String.ltb b a) eqn:E; [|reflexivity].
  pose proof (sltb_trans _ _ _ H E) as Ht. now rewrite sltb_irrefl in Ht.
Qed.

(* ================= path_ltb is a strict total order ================= *)
Lemma pl_irrefl : forall a, path_ltb a a = false.
Proof. induction a as [|x a IH]; [reflexivity|]. cbn. now rewrite sltb_irrefl. Qed.

Lemma pl_total : forall a b, a = b \/ path_ltb a b = true \/ path_ltb b a = true.
Proof.
  induction a as [|x a IH]; intros [|y b]; cbn; auto.
  destruct (sltb_total x y) as [->|[H|H]].
  - rewrite sltb_irrefl. destruct (IH b) as [->|[H|H]]; auto.
  - rewrite H. auto.
  - rewrite H, (sltb_asym _ _ H). auto.
Qed.

Lemma pl_trans : forall a b c, path_ltb a b = true -> path_ltb b c = true -> path_ltb a c = true.
Proof.
  induction a as [|x a IH]; intros [|y b] [|z c] H1 H2; cbn in *; try discriminate; try reflexivity.
  destruct (String.ltb x y) eqn:Exy.
  - destruct (String.ltb y z) eqn:Eyz.
    + now rewrite (sltb_trans _ _ _ Exy Eyz).
    + destruct (String.ltb z y) eqn:Ezy; [discriminate|].
      destruct (sltb_total y z) as [->|[H|H]]; try congruence. now rewrite Exy.
  - destruct (String.ltb y x) eqn:Eyx; [discriminate|].
    destruct (sltb_total x y) as [->|[H|H]]; try congruence.
    destruct (String.ltb y z) eqn:Eyz; [reflexivity|].
    destruct (String.ltb z y) eqn:Ezy; [discriminate|]. eapply IH; eauto.
Qed.

Lemma pl_asym : forall a b, path_ltb a b = true -> path_ltb b a = false.
Proof.
  intros a b H. destruct (path_ltb b a) eqn:E; [|reflexivity].
  pose proof (pl_trans _ _ _ H E) as Ht. now rewrite pl_irrefl in Ht.
Qed.

(* x <= y <= z *)
Lemma pl_negtrans : forall x y z, path_ltb y x = false -> path_ltb z y = false -> path_ltb z x = false.
Proof.
  intros x y z H1 H2. destruct (path_ltb z x) eqn:E; [|reflexivity].
  destruct (pl_total x y) as [->|[H|H]]; try congruence.
  pose proof (pl_trans _ _ _ E H). congruence.
Qed.

(* depth-first order: a directory before everything below it, siblings bytewise *)
Lemma pl_parent_first : forall p x q, path_ltb p (p ++ x :: q)%list = true.
Proof. induction p as [|y p IH]; intros x q; [reflexivity|]. cbn. now rewrite sltb_irrefl. Qed.

Lemma pl_siblings : forall p x y q r, String.ltb x y = true -> path_ltb (p ++ x :: q)%list (p ++ y :: r)%list = true.
Proof. induction p as [|z p IH]; intros x y q r H; cbn; [now rewrite H|]. rewrite sltb_irrefl. now apply IH. Qed.

(* ================= raw strings and component lists ================= *)
Lemma is_slash_eq : forall c, is_slash c = true -> c = "/"%char.
Proof. intros c H. now apply Ascii.eqb_eq. Qed.

Lemma no_slash_cons : forall c n, no_slash (String c n) = true -> is_slash c = false /\ no_slash n = true.
Proof.
  intros c n H. unfold no_slash in *. cbn in H. apply negb_true_iff in H.
  apply orb_false_iff in H as [H1 H2]. split; [exact H1|]. now apply negb_true_iff.
Qed.

Lemma split_slash_comp : forall x, no_slash x = true -> split_slash x = (x, None).
Proof.
  induction x as [|c x IH]; intro H; [reflexivity|].
  apply no_slash_cons in H as [H1 H2]. cbn. now rewrite H1, (IH H2).
Qed.

Lemma split_slash_app : forall x r, no_slash x = true -> split_slash (x ++ "/" ++ r) = (x, Some r).
Proof.
  induction x as [|c x IH]; intros r H; [reflexivity|].
  apply no_slash_cons in H as [H1 H2].
  change (String c x ++ "/" ++ r) with (String c (x ++ "/" ++ r)). cbn [split_slash]. now rewrite H1, (IH r H2).
Qed.

Lemma pieces_comp : forall x, no_slash x = true -> pieces x = (x, []).
Proof.
  induction x as [|c x IH]; intro H; [reflexivity|].
  apply no_slash_cons in H as [H1 H2]. cbn. now rewrite (IH H2), H1.
Qed.

Lemma pieces_app : forall x r, no_slash x = true ->
  pieces (x ++ "/" ++ r) = (x, let '(h, tl) := pieces r in h :: tl).
Proof.
  induction x as [|c x IH]; intros r H.
  - cbn. destruct (pieces r). reflexivity.
  - apply no_slash_cons in H as [H1 H2].
    change (String c x ++ "/" ++ r) with (String c (x ++ "/" ++ r)). cbn [pieces]. rewrite (IH r H2), H1.
    destruct (pieces r). reflexivity.
Qed.

Lemma join_cons2 : forall x y t, join (x :: y :: t) = x ++ "/" ++ join (y :: t).
Proof. reflexivity. Qed.

Lemma comp_ok_inv : forall x, comp_ok x = true -> x <> "" /\ no_slash x = true.
Proof.
  intros x H. unfold comp_ok in H. apply andb_true_iff in H as [H1 H2]. split; [|exact H2].
  apply negb_true_iff in H1. now apply String.eqb_neq.
Qed.

Lemma append_length : forall a b, String.length (a ++ b) = String.length a + String.length b.
Proof. induction a as [|c a IH]; intro b; [reflexivity|]. cbn. now rewrite IH. Qed.

Lemma join_nonempty : forall x t, comp_ok x = true -> join (x :: t) <> "".
Proof.
  intros x t H. apply comp_ok_inv in H as [H _]. destruct t as [|y t]; [exact H|].
  rewrite join_cons2. destruct x; [congruence|discriminate].
Qed.

Lemma pieces_join : forall x t, path_ok (x :: t) = true -> pieces (join (x :: t)) = (x, t).
Proof.
  intros x t. revert x. induction t as [|y t IH]; intros x H; cbn [path_ok forallb] in H;
    apply andb_true_iff in H as [Hx Ht]; apply comp_ok_inv in Hx as [_ Hx].
  - now apply pieces_comp.
  - rewrite join_cons2, pieces_app by exact Hx. now rewrite (IH y Ht).
Qed.

Lemma split_join : forall p, path_ok p = true -> split_path (join p) = p.
Proof.
  intros [|x t] H; [reflexivity|]. unfold split_path.
  cbn [path_ok forallb] in H. pose proof H as H'. apply andb_true_iff in H' as [Hx _].
  destruct (String.eqb (join (x :: t)) "") eqn:E.
  - apply String.eqb_eq in E. now apply join_nonempty in E.
  - now rewrite pieces_join.
Qed.

Lemma join_inj : forall p q, path_ok p = true -> path_ok q = true -> join p = join q -> p = q.
Proof. intros p q Hp Hq H. rewrite <- (split_join p Hp), <- (split_join q Hq). now rewrite H. Qed.

Lemma pieces_concat : forall s, let '(h, tl) := pieces s in String.concat "/" (h :: tl) = s.
Proof.
  induction s as [|c s IH]; [reflexivity|]. cbn [pieces]. destruct (pieces s) as [h tl].
  destruct (is_slash c) eqn:E.
  - apply is_slash_eq in E. subst c. cbn [String.concat] in *. now rewrite IH.
  - cbn [String.concat] in *. destruct tl as [|y tl]; [now rewrite IH|].
    rewrite <- IH. reflexivity.
Qed.

Lemma join_split : forall s, join (split_path s) = s.
Proof.
  intro s. unfold split_path. destruct (String.eqb s "") eqn:E.
  - apply String.eqb_eq in E. now subst.
  - pose proof (pieces_concat s) as H. destruct (pieces s). exact H.
Qed.

(* the loop of Less on joined component lists *)
Lemma less_loop_join : forall a b fuel,
  path_ok a = true -> path_ok b = true -> a <> [] -> b <> [] -> a <> b ->
  String.length (join a) < fuel ->
  less_loop fuel (join a) (join b) = Some (path_ltb a b).
Proof.
  induction a as [|x ta IH]; intros b fuel Ha Hb Hna Hnb Hab Hf; [congruence|].
  destruct b as [|y tb]; [congruence|]. destruct fuel as [|f]; [lia|].
  cbn [path_ok forallb] in Ha, Hb.
  apply andb_true_iff in Ha as [Hx Hta]. apply andb_true_iff in Hb as [Hy Htb].
  destruct (comp_ok_inv _ Hx) as [Hx0 Hxs]. destruct (comp_ok_inv _ Hy) as [Hy0 Hys].
  assert (Sa : split_slash (join (x :: ta)) = (x, match ta with [] => None | _ => Some (join ta) end)).
  { destruct ta as [|x' ta']; [now apply split_slash_comp|]. rewrite join_cons2. now apply split_slash_app. }
  assert (Sb : split_slash (join (y :: tb)) = (y, match tb with [] => None | _ => Some (join tb) end)).
  { destruct tb as [|y' tb']; [now apply split_slash_comp|]. rewrite join_cons2. now apply split_slash_app. }
  cbn [less_loop]. rewrite Sa, Sb. cbn [path_ltb].
  destruct (String.ltb x y) eqn:Exy; [reflexivity|].
  destruct (String.ltb y x) eqn:Eyx; [reflexivity|].
  destruct (sltb_total x y) as [->|[H|H]]; try congruence.
  destruct ta as [|x' ta'].
  - destruct tb as [|y' tb']; [congruence|reflexivity].
  - destruct tb as [|y' tb']; [reflexivity|].
    apply IH; try assumption; try discriminate.
    + intro E. apply Hab. now rewrite E.
    + rewrite join_cons2, !append_length in Hf. change (String.length "/") with 1 in Hf. lia.
Qed.

Lemma less_join : forall a b, path_ok a = true -> path_ok b = true ->
  less (join a) (join b) = Some (path_ltb a b).
Proof.
  intros a b Ha Hb. unfold less.
  destruct (String.eqb (join a) (join b)) eqn:E.
  - apply String.eqb_eq in E. apply (join_inj _ _ Ha Hb) in E. subst. now rewrite pl_irrefl.
  - apply String.eqb_neq in E.
    destruct a as [|x ta].
    + cbn [join String.concat String.eqb]. destruct b as [|y tb]; [congruence|reflexivity].
    + assert (Hja : join (x :: ta) <> "").
      { apply join_nonempty. cbn in Ha. now apply andb_true_iff in Ha as [Ha _]. }
      apply String.eqb_neq in Hja. rewrite Hja.
      destruct b as [|y tb]; [reflexivity|].
      assert (Hjb : join (y :: tb) <> "").
      { apply join_nonempty. cbn in Hb. now apply andb_true_iff in Hb as [Hb _]. }
      apply String.eqb_neq in Hjb. rewrite Hjb.
      apply less_loop_join; try assumption; try discriminate; [congruence|lia].
Qed.

(* Less on root-relative path strings = the depth-first order of the components *)
Lemma less_valid : forall a b, valid_raw a = true -> valid_raw b = true ->
  less a b = Some (path_ltb (split_path a) (split_path b)).
Proof.
  intros a b Ha Hb. unfold valid_raw in *.
  rewrite <- (join_split a) at 1. rewrite <- (join_split b) at 1. now apply less_join.
Qed.

Lemma lessb_valid : forall a b, valid_raw a = true -> valid_raw b = true ->
  lessb a b = path_ltb (split_path a) (split_path b).
Proof. intros a b Ha Hb. unfold lessb. now rewrite less_valid. Qed.

Lemma split_path_inj : forall a b, split_path a = split_path b -> a = b.
Proof. intros a b H. rewrite <- (join_split a), <- (join_split b). now rewrite H. Qed.

(* strict total order on valid raw paths *)
Lemma lessb_order : forall a b c, valid_raw a = true -> valid_raw b = true -> valid_raw c = true ->
  lessb a a = false
  /\ (a = b \/ lessb a b = true \/ lessb b a = true)
  /\ (lessb a b = true -> lessb b c = true -> lessb a c = true)
  /\ (lessb a b = true -> lessb b a = false).
Proof.
  intros a b c Ha Hb Hc. rewrite !lessb_valid by assumption. repeat split.
  - apply pl_irrefl.
  - destruct (pl_total (split_path a) (split_path b)) as [H|H]; auto. left. now apply split_path_inj.
  - apply pl_trans.
  - apply pl_asym.
Qed.

(* ================= sorting ================= *)
Definition ivalid (x : item) : Prop := valid_raw (fst x) = true.
Definition ile (x y : item) : Prop := lessb (fst y) (fst x) = false.

Lemma insert_perm : forall x l, Permutation (insert_item x l) (x :: l).
Proof.
  induction l as [|y t IH]; [reflexivity|]. cbn. destruct (lessb (fst y) (fst x)); [|reflexivity].
  rewrite IH. apply perm_swap.
Qed.

Lemma sort_perm : forall l, Permutation (sort_items l) l.
Proof. induction l as [|x l IH]; [reflexivity|]. cbn. rewrite insert_perm. now constructor. Qed.

Lemma ile_negtrans : forall x y z, ivalid x -> ivalid y -> ivalid z -> ile x y -> ile y z -> ile x z.
Proof.
  unfold ile, ivalid. intros x y z Hx Hy Hz. rewrite !lessb_valid by assumption. intros H1 H2.
  eapply pl_negtrans; eauto.
Qed.

Lemma insert_sorted : forall x l, ivalid x -> Forall ivalid l ->
  StronglySorted ile l -> StronglySorted ile (insert_item x l).
Proof.
  intros x l Hx Hl Hs. induction Hs as [|y t Hs IH Hy]; [repeat constructor|].
  inversion Hl as [|? ? Hvy Hvt]; subst. cbn. destruct (lessb (fst y) (fst x)) eqn:E.
  - constructor; [now apply IH|].
    rewrite (insert_perm x t). constructor; [|exact Hy].
    unfold ile. unfold ivalid in *. rewrite lessb_valid in * by assumption. now apply pl_asym.
  - constructor; [now constructor|]. constructor; [exact E|].
    apply Forall_forall. intros z Hz. rewrite Forall_forall in Hy, Hvt.
    apply (ile_negtrans x y z); auto.
Qed.

Lemma sort_valid : forall l, Forall ivalid l -> Forall ivalid (sort_items l).
Proof. intros l H. eapply Permutation_Forall; [symmetry; apply sort_perm|exact H]. Qed.

Lemma sort_sorted : forall l, Forall ivalid l -> StronglySorted ile (sort_items l).
Proof.
  induction l as [|x l IH]; intro H; [constructor|]. inversion H; subst. cbn.
  apply insert_sorted; auto. now apply sort_valid.
Qed.

Lemma sort_truncate_spec : forall l, Forall ivalid l ->
  let n := List.length l in
  let '(out, ex) := sort_truncate l in
  out = firstn (Nat.min MAXLIST n) (sort_items l) /\ ex = n - Nat.min MAXLIST n
  /\ Permutation (sort_items l) l /\ StronglySorted ile (sort_items l).
Proof.
  intros l Hv n. unfold sort_truncate.
  assert (Hlen : List.length (sort_items l) = n) by (apply Permutation_length, sort_perm).
  rewrite Hlen. destruct (Nat.ltb MAXLIST n) eqn:E.
  - apply Nat.ltb_lt in E. repeat split; [f_equal; lia|lia|apply sort_perm|now apply sort_sorted].
  - apply Nat.ltb_ge in E. repeat split; [|lia|apply sort_perm|now apply sort_sorted].
    replace (Nat.min MAXLIST n) with n by lia. rewrite <- Hlen. symmetry. apply firstn_all.
Qed.

(* what is cut off is not before anything kept *)
Lemma sorted_firstn_skipn : forall (l : list item) k, StronglySorted ile l ->
  forall o e, In o (firstn k l) -> In e (skipn k l) -> ile o e.
Proof.
  intros l k Hs. revert k. induction Hs as [|x t Hs IH Hx]; intros k o e Ho He.
  - destruct k; destruct Ho.
  - destruct k as [|k]; [destruct Ho|]. cbn in Ho, He. destruct Ho as [<-|Ho].
    + rewrite Forall_forall in Hx. apply Hx. rewrite <- (firstn_skipn k t). apply in_or_app. now right.
    + eapply IH; eauto.
Qed.

(* ---------- soundness of the checker on sorted outputs ---------- *)
Lemma item_eqb_eq : forall a b, item_eqb a b = true -> a = b.
Proof.
  intros [p m] [q n] H. unfold item_eqb in H. cbn in H. apply andb_true_iff in H as [H1 H2].
  apply String.eqb_eq in H1. apply Nat.eqb_eq in H2. congruence.
Qed.

Lemma remove_item_perm : forall x l r, remove_item x l = Some r -> Permutation (x :: r) l.
Proof.
  induction l as [|y t IH]; intros r H; [discriminate|]. cbn in H.
  destruct (item_eqb x y) eqn:E.
  - apply item_eqb_eq in E. inversion H; subst. reflexivity.
  - destruct (remove_item x t) as [t'|]; [|discriminate]. inversion H; subst.
    rewrite perm_swap. constructor. now apply IH.
Qed.

Lemma remove_all_perm : forall xs l r, remove_all xs l = Some r -> Permutation (xs ++ r) l.
Proof.
  induction xs as [|x xs IH]; intros l r H; cbn in H.
  - inversion H; subst. reflexivity.
  - destruct (remove_item x l) as [l'|] eqn:E; [|discriminate].
    apply remove_item_perm in E. rewrite <- E. cbn. constructor. now apply IH.
Qed.

Definition pairwise_sorted (l : list item) : Prop :=
  StronglySorted ile l.

Lemma sorted_items_sound : forall l, sorted_items l = true -> StronglySorted ile l.
Proof.
  induction l as [|x t IH]; intro H; [constructor|]. cbn in H. apply andb_true_iff in H as [H1 H2].
  constructor; [now apply IH|]. apply Forall_forall. intros y Hy. rewrite forallb_forall in H1.
  unfold ile. apply negb_true_iff. now apply H1.
Qed.

Definition sort_truncate_prop (input out : list item) (excluded : N) : Prop :=
  let n := List.length input in
  List.length out = Nat.min MAXLIST n /\ excluded = N.of_nat (n - Nat.min MAXLIST n)
  /\ StronglySorted ile out
  /\ exists rest, Permutation (out ++ rest) input
       /\ forall o e, In o out -> In e rest -> ile o e.

Lemma check_sort_truncate_sound : forall input out ex,
  check_sort_truncate input out ex = true -> sort_truncate_prop input out ex.
Proof.
  intros input out ex H. unfold check_sort_truncate in H.
  apply andb_true_iff in H as [H H4]. apply andb_true_iff in H as [H H3].
  apply andb_true_iff in H as [H1 H2]. apply Nat.eqb_eq in H1. apply N.eqb_eq in H2.
  destruct (remove_all out input) as [rest|] eqn:E; [|discriminate].
  split; [exact H1|]. split; [exact H2|]. split; [now apply sorted_items_sound|].
  exists rest. split; [now apply remove_all_perm|].
  intros o e Ho He. rewrite forallb_forall in H4. specialize (H4 e He). rewrite forallb_forall in H4.
  unfold ile. apply negb_true_iff. now apply H4.
Qed.

Lemma check_sort_sound : forall input out, check_sort input out = true ->
  StronglySorted ile out /\ Permutation out input.
Proof.
  intros input out H. unfold check_sort in H. apply andb_true_iff in H as [H1 H2].
  split; [now apply sorted_items_sound|].
  destruct (remove_all out input) as [[|? ?]|] eqn:E; try discriminate.
  apply remove_all_perm in E. now rewrite app_nil_r in E.
Qed.

(* ================= selection ================= *)
Lemma mem_in : forall v vs, mem v vs = true <-> In v vs.
Proof.
  intros v vs. unfold mem. rewrite existsb_exists. split.
  - intros (x & Hx & He). apply String.eqb_eq in He. now subst.
  - intro H. exists v. split; [exact H|apply String.eqb_refl].
Qed.

Lemma first_unmatched_none : forall ss specs, first_unmatched ss specs = None <->
  forall sp, In sp specs -> exists s, In s ss /\ spec_match s sp = true.
Proof.
  induction specs as [|sp t IH]; cbn.
  - split; [intros _ sp []|reflexivity].
  - destruct (existsb (fun s => spec_match s sp) ss) eqn:E.
    + rewrite IH. split.
      * intros H x [<-|Hx]; [now apply existsb_exists in E|now apply H].
      * intros H x Hx. apply H. now right.
    + split; [discriminate|]. intro H. destruct (H sp (or_introl eq_refl)) as (s & Hs & Hm).
      assert (Ht : existsb (fun s => spec_match s sp) ss = true) by (apply existsb_exists; eauto).
      congruence.
Qed.

Lemma first_unmatched_some : forall ss specs sp, first_unmatched ss specs = Some sp ->
  exists pre post, specs = (pre ++ sp :: post)%list
    /\ (forall s, In s ss -> spec_match s sp = false)
    /\ (forall x, In x pre -> exists s, In s ss /\ spec_match s x = true).
Proof.
  induction specs as [|x t IH]; intros sp H; [discriminate|]. cbn in H.
  destruct (existsb (fun s => spec_match s x) ss) eqn:E.
  - destruct (IH _ H) as (pre & post & -> & Hn & Hp). exists (x :: pre), post. repeat split; auto.
    intros y [<-|Hy]; [now apply existsb_exists in E|now apply Hp].
  - inversion H; subst. exists [], t. repeat split; [|intros ? []].
    intros s Hs. destruct (spec_match s sp) eqn:Em; [|reflexivity].
    assert (Ht : existsb (fun s => spec_match s sp) ss = true) by (apply existsb_exists; eauto).
    congruence.
Qed.

Lemma select_by_spec_exact : forall ss specs,
  match select_by_spec ss specs with
  | SelOk r =>
    (forall sp, In sp specs -> exists s, In s ss /\ spec_match s sp = true)
    /\ (forall s, In s r <-> In s ss /\ exists sp, In sp specs /\ spec_match s sp = true)
    /\ (NoDup ss -> NoDup r)
  | SelErr (Some sp) =>
    exists pre post, specs = (pre ++ sp :: post)%list
      /\ (forall s, In s ss -> spec_match s sp = false)
      /\ (forall x, In x pre -> exists s, In s ss /\ spec_match s x = true)
  | SelErr None => False
  end.
Proof.
  intros ss specs. unfold select_by_spec. destruct (first_unmatched ss specs) as [sp|] eqn:E.
  - now apply first_unmatched_some.
  - split; [now apply first_unmatched_none|]. split.
    + intro s. rewrite filter_In, existsb_exists. reflexivity.
    + apply NoDup_filter.
Qed.

Definition req_holds (ls : list (string * string)) (r : req) : Prop :=
  match r with
  | RExists k => exists v, lookup_label k ls = Some v
  | RNotExists k => lookup_label k ls = None
  | REq k v => lookup_label k ls = Some v
  | RNeq k v => lookup_label k ls <> Some v
  | RIn k vs => exists v, lookup_label k ls = Some v /\ In v vs
  | RNotIn k vs => forall v, lookup_label k ls = Some v -> ~ In v vs
  end.

Lemma req_sat_spec : forall ls r, req_sat ls r = true <-> req_holds ls r.
Proof.
  intros ls [k|k|k v|k v|k vs|k vs]; cbn; destruct (lookup_label k ls) as [x|] eqn:E.
  - split; [eauto|reflexivity].
  - split; [discriminate|intros (v & H); discriminate].
  - split; [discriminate|discriminate].
  - split; reflexivity.
  - rewrite String.eqb_eq. split; congruence.
  - split; discriminate.
  - rewrite negb_true_iff, String.eqb_neq. split; congruence.
  - split; [discriminate|reflexivity].
  - rewrite mem_in. split; [eauto|]. intros (v & Hv & Hin). congruence.
  - split; [discriminate|intros (v & Hv & _); discriminate].
  - rewrite negb_true_iff. split.
    + intros H v Hv Hin. inversion Hv; subst. apply mem_in in Hin. congruence.
    + intro H. destruct (mem x vs) eqn:Em; [|reflexivity]. apply mem_in in Em. exfalso. now apply (H x).
  - split; [discriminate|reflexivity].
Qed.

Lemma select_by_label_exact : forall ss rs,
  exists r, select_by_label ss (Some rs) = SelOk r
    /\ (forall s, In s r <-> In s ss /\ forall q, In q rs -> req_holds (slabels s) q)
    /\ (NoDup ss -> NoDup r).
Proof.
  intros ss rs. eexists. split; [reflexivity|]. split.
  - intro s. rewrite filter_In. unfold sel_matches. rewrite forallb_forall.
    split; intros [H1 H2]; (split; [exact H1|]); intros q Hq; apply req_sat_spec; auto.
  - apply NoDup_filter.
Qed.

(* creation-time order *)
Definition cle (x y : session) : Prop := (sctime x <= sctime y)%N.

Lemma insert_session_perm : forall x l, Permutation (insert_session x l) (x :: l).
Proof.
  induction l as [|y t IH]; [reflexivity|]. cbn. destruct (N.ltb (sctime x) (sctime y)); [reflexivity|].
  rewrite IH. apply perm_swap.
Qed.

Lemma list_order_perm : forall l, Permutation (list_order l) l.
Proof. induction l as [|x l IH]; [reflexivity|]. cbn. rewrite insert_session_perm. now constructor. Qed.

Lemma insert_session_sorted : forall x l, StronglySorted cle l -> StronglySorted cle (insert_session x l).
Proof.
  intros x l Hs. induction Hs as [|y t Hs IH Hy]; [repeat constructor|]. cbn.
  destruct (N.ltb (sctime x) (sctime y)) eqn:E.
  - apply N.ltb_lt in E. constructor; [now constructor|]. constructor; [unfold cle; lia|].
    apply Forall_forall. intros z Hz. rewrite Forall_forall in Hy. specialize (Hy z Hz). unfold cle in *. lia.
  - apply N.ltb_ge in E. constructor; [exact IH|]. rewrite (insert_session_perm x t).
    constructor; [exact E|exact Hy].
Qed.

Lemma list_order_sorted : forall l, StronglySorted cle (list_order l).
Proof. induction l as [|x l IH]; [constructor|]. cbn. now apply insert_session_sorted. Qed.

(* what List returns for a query *)
Lemma run_query_spec : forall ss q,
  match run_query ss q with
  | QOk ids => exists r, ids = map sid r /\ StronglySorted cle r
                 /\ match q with
                    | QAll => Permutation r ss
                    | QSpecs specs =>
                      (forall sp, In sp specs -> exists s, In s ss /\ spec_match s sp = true)
                      /\ (forall s, In s r <-> In s ss /\ exists sp, In sp specs /\ spec_match s sp = true)
                      /\ (NoDup ss -> NoDup r)
                    | QLabel None => False
                    | QLabel (Some rs) =>
                      (forall s, In s r <-> In s ss /\ forall x, In x rs -> req_holds (slabels s) x)
                      /\ (NoDup ss -> NoDup r)
                    end
  | QErr (Some sp) =>
    exists specs pre post, q = QSpecs specs /\ specs = (pre ++ sp :: post)%list
      /\ (forall s, In s ss -> spec_match s sp = false)
      /\ (forall x, In x pre -> exists s, In s ss /\ spec_match s x = true)
  | QErr None => q = QLabel None
  end.
Proof.
  intros ss [|specs|[rs|]]; unfold run_query.
  - exists (list_order ss). repeat split; [apply list_order_sorted|apply list_order_perm].
  - pose proof (select_by_spec_exact ss specs) as H.
    destruct (select_by_spec ss specs) as [r|[sp|]]; [|exact (ex_intro _ specs (let '(ex_intro _ pre (ex_intro _ post P)) := H in ex_intro _ pre (ex_intro _ post (conj eq_refl P))))|destruct H].
    destruct H as (H1 & H2 & H3). exists (list_order r). split; [reflexivity|].
    split; [apply list_order_sorted|]. split; [exact H1|]. split.
    + intro s. rewrite <- H2. split; apply Permutation_in; [apply list_order_perm|symmetry; apply list_order_perm].
    + intro Hn. eapply Permutation_NoDup; [symmetry; apply list_order_perm|now apply H3].
  - destruct (select_by_label_exact ss rs) as (r & Hr & H2 & H3). rewrite Hr.
    exists (list_order r). split; [reflexivity|]. split; [apply list_order_sorted|]. split.
    + intro s. rewrite <- H2. split; apply Permutation_in; [apply list_order_perm|symmetry; apply list_order_perm].
    + intro Hn. eapply Permutation_NoDup; [symmetry; apply list_order_perm|now apply H3].
  - reflexivity.
Qed.

(* ---------- soundness of check_query ---------- *)
Definition exact_ids_prop (ss : list session) (want : session -> bool) (ids : list string) : Prop :=
  NoDup ids
  /\ (forall id, In id ids <-> exists s, In s ss /\ sid s = id /\ want s = true)
  /\ StronglySorted (fun a b => (ctime_of ss a <= ctime_of ss b)%N) ids.

Lemma nodup_strs_sound : forall l, nodup_strs l = true -> NoDup l.
Proof.
  induction l as [|a t IH]; intro H; [constructor|]. cbn in H. apply andb_true_iff in H as [H1 H2].
  constructor; [|now apply IH]. apply negb_true_iff in H1. intro Hin. apply mem_in in Hin. congruence.
Qed.

Lemma ctime_sorted_sound : forall ss ids, ctime_sorted ss ids = true ->
  StronglySorted (fun a b => (ctime_of ss a <= ctime_of ss b)%N) ids.
Proof.
  induction ids as [|a t IH]; intro H; [constructor|]. cbn in H. apply andb_true_iff in H as [H1 H2].
  constructor; [now apply IH|]. apply Forall_forall. intros b Hb. rewrite forallb_forall in H1.
  apply N.leb_le. now apply H1.
Qed.

Lemma exact_ids_sound : forall ss want ids, exact_ids ss want ids = true -> exact_ids_prop ss want ids.
Proof.
  intros ss want ids H. unfold exact_ids in H.
  apply andb_true_iff in H as [H H4]. apply andb_true_iff in H as [H H3].
  apply andb_true_iff in H as [H1 H2]. split; [now apply nodup_strs_sound|]. split; [|now apply ctime_sorted_sound].
  intro id. split.
  - intro Hin. rewrite forallb_forall in H2. specialize (H2 id Hin). apply existsb_exists in H2 as (s & Hs & Hc).
    apply andb_true_iff in Hc as [Hc1 Hc2]. apply String.eqb_eq in Hc1. eauto.
  - intros (s & Hs & <- & Hw). rewrite forallb_forall in H3. specialize (H3 s Hs). rewrite Hw in H3.
    cbn in H3. now apply mem_in.
Qed.

Definition query_prop (ss : list session) (q : query) (r : qres) : Prop :=
  match q, r with
  | QAll, QOk ids => exact_ids_prop ss (fun _ => true) ids
  | QSpecs specs, QOk ids =>
    (forall sp, In sp specs -> exists s, In s ss /\ spec_match s sp = true)
    /\ exact_ids_prop ss (fun s => existsb (spec_match s) specs) ids
  | QSpecs specs, QErr (Some sp) =>
    In sp specs /\ forall s, In s ss -> spec_match s sp = false
  | QLabel (Some rs), QOk ids => exact_ids_prop ss (fun s => sel_matches rs (slabels s)) ids
  | QLabel None, QErr None => True
  | _, _ => False
  end.

Lemma check_query_sound : forall ss q r, check_query ss q r = true -> query_prop ss q r.
Proof.
  intros ss [|specs|[rs|]] [ids|[sp|]] H; cbn in H; try discriminate; cbn.
  - now apply exact_ids_sound.
  - apply andb_true_iff in H as [H1 H2]. split; [|now apply exact_ids_sound].
    intros sp Hsp. rewrite forallb_forall in H1. specialize (H1 sp Hsp). now apply existsb_exists in H1.
  - apply andb_true_iff in H as [H1 H2]. split; [now apply mem_in|].
    apply negb_true_iff in H2. intros s Hs. destruct (spec_match s sp) eqn:E; [|reflexivity].
    assert (Ht : existsb (fun s => spec_match s sp) ss = true) by (apply existsb_exists; eauto). congruence.
  - now apply exact_ids_sound.
  - exact I.
Qed.

(* ---------- the combined checker ---------- *)
Definition c40_prop (c : scase) : Prop :=
  match c with
  | CLess a b r => valid_raw a = true -> valid_raw b = true -> r = path_ltb (split_path a) (split_path b)
  | CSort input out => StronglySorted ile out /\ Permutation out input
  | CList input out ex => sort_truncate_prop input out ex
  | CSelect ss qs => Forall (fun p : query * qres => query_prop ss (fst p) (snd p)) qs
  | CMatch _ _ _ => True
  end.

Lemma check_c40_sound_all : forall c, check_c40 c = true -> c40_prop c.
Proof.
  intros [a b r|input out|input out ex|ss qs|sel ls r] H; cbn [check_c40 c40_prop] in *.
  - intros Ha Hb. rewrite Ha, Hb in H. cbn in H. now apply eqb_prop in H.
  - now apply check_sort_sound.
  - now apply check_sort_truncate_sound.
  - apply Forall_forall. intros p Hp. rewrite forallb_forall in H. apply check_query_sound. now apply H.
  - exact I.
Qed.

(* the model's Less agrees with the property on every pair of valid paths *)
Lemma model_less_passes : forall a b r, model_agrees_c40 (CLess a b r) = true -> check_c40 (CLess a b r) = true.
Proof.
  intros a b r H. cbn in *. destruct (valid_raw a && valid_raw b) eqn:E; [|reflexivity].
  apply andb_true_iff in E as [Ha Hb]. rewrite (less_valid a b Ha Hb) in H.
  apply eqb_prop in H. subst. apply eqb_reflx.
Qed.

(* non-vacuity *)
Lemma selection_examples :
  less "a/b" "a.b" = Some true /\ String.ltb "a/b" "a.b" = false
  /\ valid_raw "a/b" = true /\ valid_raw "a//b" = false
  /\ sort_truncate [("b", 0); ("a/x", 1); ("", 2); ("a", 3); ("a.b", 4); ("c", 5); ("a/x/y", 6);
                    ("d", 7); ("e", 8); ("f", 9); ("g", 10); ("h", 11)]
     = ([("", 2); ("a", 3); ("a/x", 1); ("a/x/y", 6); ("a.b", 4); ("b", 0); ("c", 5); ("d", 7);
         ("e", 8); ("f", 9)], 2)
  /\ run_query [ {| sid := "s1"; sname := "web"; slabels := [("env", "prod")]; sctime := 5 |};
                 {| sid := "s2"; sname := "web"; slabels := []; sctime := 3 |};
                 {| sid := "s3"; sname := "db"; slabels := [("env", "dev")]; sctime := 4 |} ]
               (QSpecs ["web"; "s3"]) = QOk ["s2"; "s3"; "s1"]
  /\ run_query [ {| sid := "s1"; sname := "web"; slabels := [("env", "prod")]; sctime := 5 |} ]
               (QSpecs ["s1"; "nope"; "zip"]) = QErr (Some "nope")
  /\ run_query [ {| sid := "s1"; sname := "web"; slabels := [("env", "prod")]; sctime := 5 |};
                 {| sid := "s2"; sname := "web"; slabels := []; sctime := 3 |} ]
               (QLabel (Some [RNotIn "env" ["dev"]])) = QOk ["s2"; "s1"].
Proof. repeat split; vm_compute; reflexivity. Qed.
