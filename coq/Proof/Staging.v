(* Lemmas about the content-addressed store, the staging loop, the receiver
   and the installation of planned files (Model/Staging.v). Used by C10 and
   C41. *)
From Coq Require Import List Bool Arith NArith String Lia.
Import ListNotations.
From Mv Require Import Model.Staging.
Local Open Scope string_scope.
Local Open Scope list_scope.

Lemma seqb_eq : forall a b, String.eqb a b = true <-> a = b.
Proof. intros; apply String.eqb_eq. Qed.
Lemma seqb_neq : forall a b, String.eqb a b = false <-> a <> b.
Proof. intros; apply String.eqb_neq. Qed.

Lemma skey_eqb_eq : forall a b, skey_eqb a b = true <-> a = b.
Proof.
  intros [a1 a2] [b1 b2]; unfold skey_eqb; cbn [fst snd].
  rewrite andb_true_iff, !seqb_eq. split.
  - intros [-> ->]; reflexivity.
  - intros E; inversion E; auto.
Qed.

Lemma skey_eqb_refl : forall a, skey_eqb a a = true.
Proof. intros; apply skey_eqb_eq; reflexivity. Qed.

Lemma skey_eqb_neq : forall a b, skey_eqb a b = false <-> a <> b.
Proof.
  intros a b. destruct (skey_eqb a b) eqn:E.
  - apply skey_eqb_eq in E. split; [discriminate | congruence].
  - split; [|reflexivity]. intros _ Eq. apply skey_eqb_eq in Eq. congruence.
Qed.

(* ---------- files ---------- *)

Lemma f_lookup_remove_same : forall p fs, f_lookup p (f_remove p fs) = None.
Proof.
  intros p fs; induction fs as [|[q c] t IH]; cbn; [reflexivity|].
  destruct (String.eqb p q) eqn:E; [exact IH|]. cbn. rewrite E. exact IH.
Qed.

Lemma f_lookup_remove_other : forall p q fs, p <> q -> f_lookup p (f_remove q fs) = f_lookup p fs.
Proof.
  intros p q fs N; induction fs as [|[r c] t IH]; cbn; [reflexivity|].
  destruct (String.eqb q r) eqn:E.
  - apply seqb_eq in E; subst r. rewrite IH.
    destruct (String.eqb p q) eqn:E2; [apply seqb_eq in E2; congruence | reflexivity].
  - cbn. rewrite IH. reflexivity.
Qed.

Lemma f_lookup_set_same : forall p c fs, f_lookup p (f_set p c fs) = Some c.
Proof. intros; unfold f_set; cbn. rewrite String.eqb_refl. reflexivity. Qed.

Lemma f_lookup_set_other : forall p q c fs, p <> q -> f_lookup p (f_set q c fs) = f_lookup p fs.
Proof.
  intros p q c fs N; unfold f_set; cbn.
  destruct (String.eqb p q) eqn:E; [apply seqb_eq in E; congruence|].
  apply f_lookup_remove_other; exact N.
Qed.

Lemma f_lookup_in : forall p c fs, f_lookup p fs = Some c -> In (p, c) fs.
Proof.
  intros p c fs; induction fs as [|[q d] t IH]; cbn; [discriminate|].
  destruct (String.eqb p q) eqn:E.
  - apply seqb_eq in E; subst q. intros X; inversion X; subst; left; reflexivity.
  - intros X; right; apply IH; exact X.
Qed.

Section Store.
Variable H : bytes -> digest.

Notation store := (list (skey * bytes)).

Lemma s_lookup_remove_same : forall k (s : store), s_lookup k (s_remove k s) = None.
Proof.
  intros k s; induction s as [|[k' c] t IH]; cbn; [reflexivity|].
  destruct (skey_eqb k k') eqn:E; [exact IH|]. cbn. rewrite E. exact IH.
Qed.

Lemma s_lookup_remove_other : forall k k' (s : store), k <> k' ->
  s_lookup k (s_remove k' s) = s_lookup k s.
Proof.
  intros k k' s N; induction s as [|[k2 c] t IH]; cbn; [reflexivity|].
  destruct (skey_eqb k' k2) eqn:E.
  - apply skey_eqb_eq in E; subst k2. rewrite IH.
    destruct (skey_eqb k k') eqn:E2; [apply skey_eqb_eq in E2; congruence | reflexivity].
  - cbn. rewrite IH. reflexivity.
Qed.

Lemma s_lookup_insert_same : forall k c (s : store), s_lookup k (s_insert k c s) = Some c.
Proof. intros; unfold s_insert; cbn. rewrite skey_eqb_refl. reflexivity. Qed.

Lemma s_lookup_insert_other : forall k k' c (s : store), k <> k' ->
  s_lookup k (s_insert k' c s) = s_lookup k s.
Proof.
  intros k k' c s N; unfold s_insert; cbn.
  destruct (skey_eqb k k') eqn:E; [apply skey_eqb_eq in E; congruence|].
  apply s_lookup_remove_other; exact N.
Qed.

(* THE invariant of the store: what is found under (d, p) has digest d *)
Definition store_ok (s : store) : Prop :=
  forall d p c, s_lookup (d, p) s = Some c -> H c = d.

Lemma store_ok_nil : store_ok [].
Proof. intros d p c X; discriminate X. Qed.

Lemma store_ok_commit : forall s p c, store_ok s -> store_ok (commit H s p c).
Proof.
  intros s p c OK. unfold commit. destruct (String.eqb (H c) "") eqn:E; [exact OK|].
  intros d q c' L.
  destruct (skey_eqb (d, q) (H c, p)) eqn:K.
  - apply skey_eqb_eq in K. inversion K; subst. rewrite s_lookup_insert_same in L.
    inversion L; subst. reflexivity.
  - apply skey_eqb_neq in K. rewrite s_lookup_insert_other in L by exact K. eapply OK; exact L.
Qed.

Lemma store_ok_remove : forall s k, store_ok s -> store_ok (s_remove k s).
Proof.
  intros s k OK d p c L.
  destruct (skey_eqb (d, p) k) eqn:K.
  - apply skey_eqb_eq in K; subst k. rewrite s_lookup_remove_same in L. discriminate.
  - apply skey_eqb_neq in K. rewrite s_lookup_remove_other in L by exact K. eapply OK; exact L.
Qed.

(* a commit never makes present content disappear *)
Lemma contains_commit_mono : forall s p c q d, store_ok s ->
  contains s q d = true -> contains (commit H s p c) q d = true.
Proof.
  intros s p c q d OK. unfold contains, commit.
  destruct (String.eqb (H c) "") eqn:E; [auto|].
  destruct (skey_eqb (d, q) (H c, p)) eqn:K.
  - apply skey_eqb_eq in K. inversion K; subst. rewrite s_lookup_insert_same. auto.
  - apply skey_eqb_neq in K. rewrite s_lookup_insert_other by exact K. auto.
Qed.

Lemma contains_commit_self : forall s p c, H c <> "" -> contains (commit H s p c) p (H c) = true.
Proof.
  intros s p c N. unfold contains, commit.
  destruct (String.eqb (H c) "") eqn:E; [apply seqb_eq in E; congruence|].
  rewrite s_lookup_insert_same. reflexivity.
Qed.

(* where a key of a store after a commit comes from *)
Lemma lookup_commit_inv : forall s p c d q c',
  s_lookup (d, q) (commit H s p c) = Some c' ->
  s_lookup (d, q) s = Some c' \/ (d = H c /\ q = p /\ c' = c).
Proof.
  intros s p c d q c'. unfold commit.
  destruct (String.eqb (H c) "") eqn:E; [auto|].
  destruct (skey_eqb (d, q) (H c, p)) eqn:K.
  - apply skey_eqb_eq in K. inversion K; subst. rewrite s_lookup_insert_same.
    intros X; inversion X; subst. right; auto.
  - apply skey_eqb_neq in K. rewrite s_lookup_insert_other by exact K. auto.
Qed.

Lemma sink_write_ok : forall mx acc data w,
  sink_write mx acc data = (w, true) -> w = String.append acc data.
Proof.
  intros mx acc data w. unfold sink_write.
  destruct (mx - blen acc <? blen data)%N; intros X; inversion X; reflexivity.
Qed.

Lemma sink_write_fail : forall mx acc data w,
  sink_write mx acc data = (w, false) -> w = acc.
Proof.
  intros mx acc data w. unfold sink_write.
  destruct (mx - blen acc <? blen data)%N; intros X; inversion X; reflexivity.
Qed.

(* ---------- stageFromRoot ---------- *)

Lemma stage_from_root_ok : forall mx root s src p d s',
  stage_from_root H mx root s src p d = (s', true) ->
  exists q c, src = Some q /\ f_lookup q root = Some c /\ s' = commit H s p c
              /\ contains s' p d = true.
Proof.
  intros mx root s src p d s'. unfold stage_from_root.
  destruct src as [q|]; [|intros X; inversion X].
  destruct (f_lookup q root) as [c|] eqn:L; [|intros X; inversion X].
  destruct (sink_write mx "" c) as [w ok] eqn:W.
  destruct ok; [|intros X; inversion X].
  apply sink_write_ok in W. cbn in W. subst w.
  intros X; inversion X; subst. exists q, c. auto.
Qed.

Lemma stage_from_root_store_ok : forall mx root s src p d s' ok,
  store_ok s -> stage_from_root H mx root s src p d = (s', ok) -> store_ok s'.
Proof.
  intros mx root s src p d s' ok OK. unfold stage_from_root.
  destruct src as [q|]; [|intros X; inversion X; subst; exact OK].
  destruct (f_lookup q root) as [c|]; [|intros X; inversion X; subst; exact OK].
  destruct (sink_write mx "" c) as [w k].
  destruct k; intros X; inversion X; subst; apply store_ok_commit; exact OK.
Qed.

(* whatever the source, whatever happened to it since the scan: success means
   the store now provides, for (p, d), content whose digest is d *)
Lemma stage_from_root_verified : forall mx root s src p d s',
  store_ok s ->
  stage_from_root H mx root s src p d = (s', true) ->
  exists c, provide s' p d = Some c /\ H c = d.
Proof.
  intros mx root s src p d s' OK E.
  pose proof (stage_from_root_store_ok _ _ _ _ _ _ _ _ OK E) as OK'.
  apply stage_from_root_ok in E. destruct E as (q & c & _ & _ & _ & C).
  unfold contains in C. unfold provide.
  destruct (s_lookup (d, p) s') as [c'|] eqn:L; [|discriminate].
  exists c'. split; [reflexivity|]. eapply OK'; exact L.
Qed.

(* the source content was copied verbatim when verification passes *)
Lemma stage_from_root_copied : forall mx root s src p d s',
  stage_from_root H mx root s src p d = (s', true) -> contains s p d = false ->
  exists q c, src = Some q /\ f_lookup q root = Some c /\ H c = d /\ provide s' p d = Some c.
Proof.
  intros mx root s src p d s' E NC.
  apply stage_from_root_ok in E. destruct E as (q & c & -> & L & -> & C).
  exists q, c. repeat split; auto.
  - unfold contains in C, NC.
    destruct (s_lookup (d, p) (commit H s p c)) as [c'|] eqn:L2; [|discriminate].
    apply lookup_commit_inv in L2. destruct L2 as [L2 | (E1 & _ & _)]; [|auto].
    rewrite L2 in NC. discriminate.
  - unfold contains in C, NC. unfold provide.
    destruct (s_lookup (d, p) (commit H s p c)) as [c'|] eqn:L2; [|discriminate].
    apply lookup_commit_inv in L2. destruct L2 as [L2 | (_ & _ & ->)]; [|reflexivity].
    rewrite L2 in NC. discriminate.
Qed.

(* ---------- the staging loop ---------- *)

(* exact account of one run of the loop: mask flag false = omitted *)
Inductive loop_ok (mx : N) (root : files) : store -> list (path * digest) -> list bool -> store -> Prop :=
| lo_nil : forall s, loop_ok mx root s [] [] s
| lo_have : forall s p d t m s',
    d <> "" -> contains s p d = true -> loop_ok mx root s t m s' ->
    loop_ok mx root s ((p, d) :: t) (false :: m) s'
| lo_copied : forall s p d t m s' q c,
    d <> "" -> contains s p d = false ->
    f_lookup q root = Some c -> H c = d -> provide (commit H s p c) p d = Some c ->
    loop_ok mx root (commit H s p c) t m s' ->
    loop_ok mx root s ((p, d) :: t) (false :: m) s'
| lo_needed : forall s p d t m s1 s',
    d <> "" -> contains s p d = false ->
    (s1 = s \/ exists q c, f_lookup q root = Some c /\ (s1 = commit H s p c \/ s1 = commit H s p "")) ->
    loop_ok mx root s1 t m s' ->
    loop_ok mx root s ((p, d) :: t) (true :: m) s'.

Lemma stage_from_root_shape : forall mx root s src p d s' ok,
  stage_from_root H mx root s src p d = (s', ok) ->
  s' = s \/ exists q c, f_lookup q root = Some c /\ (s' = commit H s p c \/ s' = commit H s p "").
Proof.
  intros mx root s src p d s' ok. unfold stage_from_root.
  destruct src as [q|]; [|intros X; inversion X; auto].
  destruct (f_lookup q root) as [c|] eqn:L; [|intros X; inversion X; auto].
  destruct (sink_write mx "" c) as [w k] eqn:W. destruct k.
  - apply sink_write_ok in W. cbn in W. subst w.
    intros X. right. exists q, c. split; [exact L|]. left.
    destruct (contains (commit H s p c) p d); inversion X; reflexivity.
  - apply sink_write_fail in W. subst w.
    intros X; inversion X. right. exists q, c. auto.
Qed.

Lemma stage_loop_spec : forall mx root req srcs s s' m,
  stage_loop H mx root s req srcs = (s', Some m) -> loop_ok mx root s req m s'.
Proof.
  intros mx root req; induction req as [|[p d] t IH]; intros srcs s s' m E.
  - cbn in E. inversion E; subst. constructor.
  - cbn [stage_loop] in E.
    destruct (String.eqb d "") eqn:D; [inversion E|]. apply seqb_neq in D.
    destruct (contains s p d) eqn:C.
    + destruct (stage_loop H mx root s t (tl srcs)) as [s2 [m2|]] eqn:R; inversion E; subst.
      apply lo_have; auto. eapply IH; exact R.
    + destruct (stage_from_root H mx root s (hd None srcs) p d) as [s1 ok] eqn:F.
      destruct (stage_loop H mx root s1 t (tl srcs)) as [s2 [m2|]] eqn:R; inversion E; subst.
      destruct ok; cbn [negb].
      * destruct (stage_from_root_copied _ _ _ _ _ _ _ F C) as (q & c & _ & L & HC & P).
        apply stage_from_root_ok in F. destruct F as (q' & c' & _ & _ & -> & _).
        (* s1 = commit s p c' ; relate c' and c through provide *)
        assert (c' = c) as ->.
        { unfold provide in P. unfold contains in C.
          destruct (s_lookup (d, p) (commit H s p c')) as [x|] eqn:L2; [|discriminate].
          inversion P; subst x.
          apply lookup_commit_inv in L2. destruct L2 as [L2|(_ & _ & L2)]; [|auto].
          rewrite L2 in C. discriminate. }
        eapply lo_copied with (q := q) (c := c); [exact D | exact C | exact L | exact HC | exact P | eapply IH; exact R].
      * eapply lo_needed with (s1 := s1); [exact D | exact C | eapply stage_from_root_shape; exact F | eapply IH; exact R].
Qed.

Lemma loop_ok_length : forall mx root s req m s',
  loop_ok mx root s req m s' -> List.length m = List.length req.
Proof. intros mx root s req m s' L; induction L; cbn; congruence. Qed.

Lemma loop_ok_store_ok : forall mx root s req m s',
  loop_ok mx root s req m s' -> store_ok s -> store_ok s'.
Proof.
  intros mx root s req m s' L; induction L; intros OK; auto.
  - apply IHL. apply store_ok_commit; exact OK.
  - apply IHL. destruct H2 as [->|(q & c & _ & [->| ->])]; auto using store_ok_commit.
Qed.

Lemma stage_loop_store_ok : forall mx root req srcs s s' r,
  store_ok s -> stage_loop H mx root s req srcs = (s', r) -> store_ok s'.
Proof.
  intros mx root req; induction req as [|[p d] t IH]; intros srcs s s' r OK E.
  - cbn in E. inversion E; subst; exact OK.
  - cbn [stage_loop] in E.
    destruct (String.eqb d ""); [inversion E; subst; exact OK|].
    destruct (contains s p d).
    + destruct (stage_loop H mx root s t (tl srcs)) as [s2 [m2|]] eqn:R; inversion E; subst;
        eapply IH; eauto.
    + destruct (stage_from_root H mx root s (hd None srcs) p d) as [s1 ok] eqn:F.
      pose proof (stage_from_root_store_ok _ _ _ _ _ _ _ _ OK F) as OK1.
      destruct (stage_loop H mx root s1 t (tl srcs)) as [s2 [m2|]] eqn:R; inversion E; subst;
        eapply IH; eauto.
Qed.

(* ---------- select / subsequences ---------- *)

Inductive subseq {A} : list A -> list A -> Prop :=
| sub_nil : forall l, subseq [] l
| sub_take : forall x a b, subseq a b -> subseq (x :: a) (x :: b)
| sub_skip : forall x a b, subseq a b -> subseq a (x :: b).

Lemma select_subseq : forall A (m : list bool) (l : list A), subseq (select m l) l.
Proof.
  intros A m; induction m as [|b m IH]; intros l; cbn.
  - constructor.
  - destruct b; destruct l as [|x l]; try constructor; apply IH.
Qed.

End Store.
