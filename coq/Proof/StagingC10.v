(* Proofs for C10: every way the store is written preserves "what is found
   under (digest, path) has that digest"; Transition installs only what the
   store provides for (path, planned digest). *)
From Coq Require Import List Bool Arith NArith String Lia.
Import ListNotations.
From Mv Require Import Model.Staging Proof.Staging.
Local Open Scope string_scope.
Local Open Scope list_scope.

Section C10.
Variable H : bytes -> digest.

Notation store_ok := (store_ok H).

(* ---------- the receiver only commits ---------- *)

Lemma receive_store_ok : forall mx root sink_ok s r t s' r' res,
  store_ok s -> receive H mx root sink_ok s r t = (s', r', res) -> store_ok s'.
Proof.
  intros mx root sink_ok s r t s' r' res OK. unfold receive.
  destruct (finalized r); [intros X; inversion X; subst; exact OK|].
  destruct (Nat.eqb (received r) (List.length (rpaths r))); [intros X; inversion X; subst; exact OK|].
  destruct t as [|o].
  - intros X; inversion X; subst.
    destruct (ropen r) as [[b w]|]; [apply store_ok_commit; exact OK|].
    destruct (burning r); [exact OK|]. destruct sink_ok; [apply store_ok_commit|]; exact OK.
  - destruct (burning r); [intros X; inversion X; subst; exact OK|].
    match goal with |- context [match ?o with Some _ => _ | None => (s, with_burning r true, RvOk) end] =>
      destruct o as [[b w]|] end; [|intros X; inversion X; subst; exact OK].
    destruct (patch mx w b (nth (received r) (rsigs r) empty_sig) o) as [w' ok].
    destruct ok; intros X; inversion X; subst; [exact OK|apply store_ok_commit; exact OK].
Qed.

Lemma finalize_store_ok : forall s r s' r' ok,
  store_ok s -> finalize H s r = (s', r', ok) -> store_ok s'.
Proof.
  intros s r s' r' ok OK. unfold finalize.
  destruct (finalized r); intros X; inversion X; subst; [exact OK|].
  destruct (ropen r) as [[b w]|]; [apply store_ok_commit|]; exact OK.
Qed.

(* ---------- installation ---------- *)

Definition mono (t t' : tstate) : Prop :=
  (tmissing t = true -> tmissing t' = true) /\ incl (tproblems t) (tproblems t').

Lemma mono_refl : forall t, mono t t.
Proof. intros t; split; [auto|apply incl_refl]. Qed.

Lemma mono_trans : forall a b c, mono a b -> mono b c -> mono a c.
Proof. intros a b c [M1 I1] [M2 I2]; split; [auto|eapply incl_tran; eauto]. Qed.

Lemma mono_problem : forall t p, mono t (problem t p).
Proof. intros t p; split; [auto|]. cbn. apply incl_tl, incl_refl. Qed.

(* one planned file: either it is installed with content of the planned
   digest and nothing else changes, or the root is untouched and the failure
   is reported (missing files or a problem at that path) *)
Lemma move_into_place_spec : forall t it f t' ok,
  store_ok (tstore t) -> move_into_place t it f = (t', ok) ->
  store_ok (tstore t') /\ mono t t'
  /\ (ok = true ->
        (exists c, f_lookup (ipath it) (troot t') = Some c /\ H c = idigest it)
        /\ (forall q, q <> ipath it -> f_lookup q (troot t') = f_lookup q (troot t))
        /\ tmissing t' = tmissing t /\ tproblems t' = tproblems t)
  /\ (ok = false ->
        troot t' = troot t /\ (tmissing t' = true \/ In (ipath it) (tproblems t'))).
Proof.
  intros t it f t' ok OK. unfold move_into_place, provide.
  destruct (s_lookup (idigest it, ipath it) (tstore t)) as [c|] eqn:L.
  - assert (HC : H c = idigest it) by (eapply OK; exact L).
    destruct f; intros X; inversion X; subst; cbn.
    + split; [apply store_ok_remove; exact OK|]. split; [split; [auto|apply incl_refl]|].
      split; [intros _|discriminate].
      split; [exists c; split; [apply f_lookup_set_same|exact HC]|].
      split; [intros q N; apply f_lookup_set_other; exact N|auto].
    + split; [apply store_ok_remove; exact OK|]. split; [split; [auto|apply incl_refl]|].
      split; [intros _|discriminate].
      split; [exists c; split; [apply f_lookup_set_same|exact HC]|].
      split; [intros q N; apply f_lookup_set_other; exact N|auto].
    + split; [exact OK|]. split; [apply mono_problem|]. split; [discriminate|].
      intros _. split; [reflexivity|right; left; reflexivity].
    + split; [exact OK|]. split; [apply mono_problem|]. split; [discriminate|].
      intros _. split; [reflexivity|right; left; reflexivity].
  - intros X; inversion X; subst; cbn.
    split; [exact OK|]. split; [split; [auto|cbn; apply incl_tl, incl_refl]|].
    split; [discriminate|]. intros _. split; [reflexivity|left; reflexivity].
Qed.

Definition step_spec (t : tstate) (it : item) (t' : tstate) (ok : bool) : Prop :=
  store_ok (tstore t') /\ mono t t'
  /\ (ok = true ->
        (exists c, f_lookup (ipath it) (troot t') = Some c /\ H c = idigest it)
        /\ (forall q, q <> ipath it -> f_lookup q (troot t') = f_lookup q (troot t))
        /\ tmissing t' = tmissing t /\ tproblems t' = tproblems t)
  /\ (ok = false ->
        troot t' = troot t /\ (tmissing t' = true \/ In (ipath it) (tproblems t'))).

Lemma step_spec_problem : forall t it, store_ok (tstore t) ->
  step_spec t it (problem t (ipath it)) false.
Proof.
  intros t it OK. split; [exact OK|]. split; [apply mono_problem|]. split; [discriminate|].
  intros _. split; [reflexivity|right; left; reflexivity].
Qed.

Lemma step_spec_missing : forall t it, store_ok (tstore t) ->
  step_spec t it {| troot := troot t; tstore := tstore t; tmissing := true;
                    tproblems := ipath it :: tproblems t |} false.
Proof.
  intros t it OK. split; [exact OK|]. split; [split; [auto|cbn; apply incl_tl, incl_refl]|].
  split; [discriminate|]. intros _. split; [reflexivity|left; reflexivity].
Qed.

Lemma install_spec : forall t it f t' ok,
  store_ok (tstore t) -> install H t it f = (t', ok) -> step_spec t it t' ok.
Proof.
  intros t it f t' ok OK E.
  assert (MV : forall f0, move_into_place t it f0 = (t', ok) -> step_spec t it t' ok)
    by (intros f0 X; eapply move_into_place_spec; eauto).
  unfold install in E.
  assert (BODY :
    match iold it with
    | Some d0 =>
        match f_lookup (ipath it) (troot t) with
        | Some c0 =>
            if negb (String.eqb (H c0) d0) then (problem t (ipath it), false)
            else if String.eqb d0 (idigest it) then (t, true) else move_into_place t it f
        | None => (problem t (ipath it), false)
        end
    | None =>
        match f_lookup (ipath it) (troot t) with
        | Some _ =>
            match provide (tstore t) (ipath it) (idigest it) with
            | Some _ => (problem t (ipath it), false)
            | None => ({| troot := troot t; tstore := tstore t; tmissing := true;
                          tproblems := ipath it :: tproblems t |}, false)
            end
        | None => move_into_place t it f
        end
    end = (t', ok) -> step_spec t it t' ok).
  { destruct (iold it) as [d0|]; destruct (f_lookup (ipath it) (troot t)) as [c0|] eqn:L.
    - destruct (negb (String.eqb (H c0) d0)) eqn:E1.
      + intros X; inversion X; subst. apply step_spec_problem; exact OK.
      + destruct (String.eqb d0 (idigest it)) eqn:E2; [|apply MV].
        intros X; inversion X; subst. split; [exact OK|]. split; [apply mono_refl|].
        split; [intros _|discriminate].
        split; [exists c0; split; [exact L|]|auto].
        apply negb_false_iff in E1. apply seqb_eq in E1. apply seqb_eq in E2. congruence.
    - intros X; inversion X; subst. apply step_spec_problem; exact OK.
    - destruct (provide (tstore t) (ipath it) (idigest it)); intros X; inversion X; subst;
        [apply step_spec_problem|apply step_spec_missing]; exact OK.
    - apply MV. }
  destruct f; try (apply BODY; exact E).
  inversion E; subst. apply step_spec_problem; exact OK.
Qed.

Lemma transition_length : forall plan t fs t' oks,
  transition H t plan fs = (t', oks) -> List.length oks = List.length plan.
Proof.
  induction plan as [|it rest IH]; intros t fs t' oks E; cbn in E.
  - inversion E; reflexivity.
  - destruct (install H t it (hd FNone fs)) as [t1 ok].
    destruct (transition H t1 rest (tl fs)) as [t2 oks2] eqn:R. inversion E; subst.
    cbn. f_equal. eapply IH; exact R.
Qed.

(* the whole Transition *)
Lemma transition_spec : forall plan t fs t' oks,
  store_ok (tstore t) -> transition H t plan fs = (t', oks) ->
  store_ok (tstore t') /\ mono t t'
  /\ (forall p, f_lookup p (troot t') = f_lookup p (troot t)
                \/ exists it c, In it plan /\ ipath it = p
                                /\ f_lookup p (troot t') = Some c /\ H c = idigest it)
  /\ (forall k it, nth_error plan k = Some it -> nth_error oks k = Some false ->
        tmissing t' = true \/ In (ipath it) (tproblems t'))
  /\ (forall k it, nth_error plan k = Some it -> nth_error oks k = Some true ->
        exists it' c, In it' plan /\ ipath it' = ipath it
                      /\ f_lookup (ipath it) (troot t') = Some c /\ H c = idigest it').
Proof.
  induction plan as [|it rest IH]; intros t fs t' oks OK E; cbn in E.
  - inversion E; subst. split; [exact OK|]. split; [apply mono_refl|]. split; [auto|].
    split; intros k it N; destruct k; discriminate.
  - destruct (install H t it (hd FNone fs)) as [t1 ok] eqn:I.
    destruct (transition H t1 rest (tl fs)) as [t2 oks2] eqn:R. inversion E; subst.
    destruct (install_spec _ _ _ _ _ OK I) as (OK1 & M1 & YES & NO).
    destruct (IH _ _ _ _ OK1 R) as (OK2 & M2 & PATHS & FAILS & DONE).
    split; [exact OK2|]. split; [eapply mono_trans; eauto|]. split; [|split].
    + intros p. destruct (PATHS p) as [EQ|(it' & c & IN & P & L & HC)].
      * destruct ok.
        -- destruct (YES eq_refl) as ((c & L & HC) & OTH & _ & _).
           destruct (String.eqb p (ipath it)) eqn:PE.
           ++ apply seqb_eq in PE. subst p. right. exists it, c.
              repeat split; auto; [left; reflexivity|congruence].
           ++ apply seqb_neq in PE. left. rewrite EQ. apply OTH. exact PE.
        -- destruct (NO eq_refl) as (RT & _). left. rewrite EQ, RT. reflexivity.
      * right. exists it', c. repeat split; auto. right; exact IN.
    + intros k it0 N F. destruct k; cbn in N, F.
      * inversion N; subst it0. inversion F; subst ok.
        destruct (NO eq_refl) as (_ & [MS|PB]).
        -- left. apply M2. exact MS.
        -- right. apply M2. exact PB.
      * eapply FAILS; eauto.
    + intros k it0 N T. destruct k; cbn in N, T.
      * inversion N; subst it0. inversion T; subst ok.
        destruct (YES eq_refl) as ((c & L & HC) & _).
        destruct (PATHS (ipath it)) as [EQ|(it' & c' & IN & P & L' & HC')].
        -- exists it, c. repeat split; auto; [left; reflexivity|congruence].
        -- exists it', c'. repeat split; auto. right; exact IN.
      * destruct (DONE _ _ N T) as (it' & c & IN & P & L & HC).
        exists it', c. repeat split; auto. right; exact IN.
Qed.

(* ---------- sessions: the invariant after every history ---------- *)

Lemma sstep_store_ok : forall mx x o,
  store_ok (sstore x) -> store_ok (sstore (fst (sstep H mx x o))).
Proof.
  intros mx x o OK. destruct o as [req srcs sigs|t sink_ok| |p c|plan fs]; cbn [sstep].
  - destruct (stage_loop H mx (sroot x) (sstore x) req srcs) as [s' [m|]] eqn:SL; cbn;
      eapply stage_loop_store_ok; eauto.
  - destruct (srecv x) as [r|]; [|exact OK].
    destruct (receive H mx (sroot x) sink_ok (sstore x) r t) as [[s' r'] res] eqn:R. cbn.
    eapply receive_store_ok; eauto.
  - destruct (srecv x) as [r|]; [|exact OK].
    destruct (finalize H (sstore x) r) as [[s' r'] ok] eqn:F. cbn.
    eapply finalize_store_ok; eauto.
  - exact OK.
  - destruct (transition H {| troot := sroot x; tstore := sstore x; tmissing := false; tproblems := [] |}
                         plan fs) as [t oks]. cbn. apply store_ok_nil.
Qed.

Lemma srun_state : forall mx ops x,
  fst (srun H mx x ops) = fold_left (fun y o => fst (sstep H mx y o)) ops x.
Proof.
  intros mx ops; induction ops as [|o t IH]; intros x; [reflexivity|].
  cbn [srun fold_left]. destruct (sstep H mx x o) as [x1 r] eqn:S.
  specialize (IH x1). destruct (srun H mx x1 t) as [x2 rs]. cbn in *. exact IH.
Qed.

Lemma srun_store_ok : forall mx ops x,
  store_ok (sstore x) -> store_ok (sstore (fst (srun H mx x ops))).
Proof.
  intros mx ops; induction ops as [|o t IH]; intros x OK; [exact OK|].
  cbn [srun]. destruct (sstep H mx x o) as [x1 r] eqn:S.
  pose proof (sstep_store_ok mx x o OK) as OK1. rewrite S in OK1. cbn in OK1.
  specialize (IH x1 OK1). destruct (srun H mx x1 t) as [x2 rs]. exact IH.
Qed.

(* C10, on the model: after EVERY history of staging requests, transmissions
   (any stream: corrupt, truncated, reordered, without Done), finalizations,
   external edits and earlier transitions, with every sink oracle, a
   Transition with every fault oracle changes a path of the root only by
   putting there content whose digest is the one planned for that path, and
   every planned file it does not install is reported. *)
Lemma installed_digest : forall mx ops x0 plan fs,
  store_ok (sstore x0) ->
  let x := fst (srun H mx x0 ops) in
  let t0 := {| troot := sroot x; tstore := sstore x; tmissing := false; tproblems := [] |} in
  let t' := fst (transition H t0 plan fs) in
  let oks := snd (transition H t0 plan fs) in
  (forall p, f_lookup p (troot t') = f_lookup p (sroot x)
             \/ exists it c, In it plan /\ ipath it = p
                             /\ f_lookup p (troot t') = Some c /\ H c = idigest it)
  /\ List.length oks = List.length plan
  /\ (forall k it, nth_error plan k = Some it -> nth_error oks k = Some false ->
        tmissing t' = true \/ In (ipath it) (tproblems t')).
Proof.
  intros mx ops x0 plan fs OK0 x t0 t' oks.
  assert (OK : store_ok (tstore t0)) by (apply srun_store_ok; exact OK0).
  destruct (transition H t0 plan fs) as [t1 oks1] eqn:T. subst t' oks. cbn [fst snd].
  destruct (transition_spec _ _ _ _ _ OK T) as (_ & _ & P & F & _).
  split; [exact P|]. split; [eapply transition_length; exact T|exact F].
Qed.

(* ---------- the checker ---------- *)

Definition prop_C10 (before after : files) (plan : list item) (missing : bool) (np : nat) : Prop :=
  (forall p c, f_lookup p after = Some c ->
     f_lookup p before = Some c
     \/ exists it, In it plan /\ ipath it = p /\ H c = idigest it)
  /\ ((forall it, In it plan ->
         exists c it', f_lookup (ipath it) after = Some c /\ In it' plan
                       /\ ipath it' = ipath it /\ H c = idigest it')
      \/ missing = true \/ np <> 0).

Lemma planned_digests_in : forall plan p d,
  In d (planned_digests plan p) <-> exists it, In it plan /\ ipath it = p /\ idigest it = d.
Proof.
  intros plan p d. unfold planned_digests. rewrite in_map_iff. split.
  - intros (it & E & I). apply filter_In in I. destruct I as [I P]. apply seqb_eq in P.
    exists it; auto.
  - intros (it & I & P & E). exists it. split; [exact E|]. apply filter_In. split; [exact I|].
    apply seqb_eq. exact P.
Qed.

Lemma existsb_digest : forall d l, existsb (String.eqb d) l = true <-> In d l.
Proof.
  intros d l. rewrite existsb_exists. split.
  - intros (x & I & E). apply seqb_eq in E. subst; exact I.
  - intros I. exists d. split; [exact I|apply String.eqb_refl].
Qed.

Lemma f_lookup_some_in_keys : forall p c fs, f_lookup p fs = Some c -> In p (map fst fs).
Proof. intros p c fs L. apply f_lookup_in in L. apply in_map_iff. exists (p, c); auto. Qed.

Lemma check_C10_sound : forall before after plan missing np,
  check_C10 H before after plan missing np = true -> prop_C10 before after plan missing np.
Proof.
  intros before after plan missing np E. unfold check_C10 in E.
  apply andb_true_iff in E. destruct E as [E1 E2]. split.
  - intros p c L. rewrite forallb_forall in E1.
    specialize (E1 p (f_lookup_some_in_keys _ _ _ L)). unfold check_path in E1. rewrite L in E1.
    apply orb_true_iff in E1. destruct E1 as [B|P].
    + left. unfold opt_bytes_eqb in B. destruct (f_lookup p before) as [c0|]; [|discriminate].
      apply seqb_eq in B. subst; reflexivity.
    + right. apply existsb_digest in P. apply planned_digests_in in P.
      destruct P as (it & I & PE & D). exists it; auto.
  - apply orb_true_iff in E2. destruct E2 as [E2|NP].
    + apply orb_true_iff in E2. destruct E2 as [ALL|M]; [left|right; left; exact M].
      intros it I. rewrite forallb_forall in ALL. specialize (ALL it I). unfold item_done in ALL.
      destruct (f_lookup (ipath it) after) as [c|]; [|discriminate].
      apply existsb_digest in ALL. apply planned_digests_in in ALL.
      destruct ALL as (it' & I' & PE & D). exists c, it'. auto.
    + right; right. apply negb_true_iff in NP. apply Nat.eqb_neq in NP. exact NP.
Qed.

(* the model's own Transition passes the checker *)
Lemma forallb_keys : forall (f : path -> bool) fs,
  (forall p c, f_lookup p fs = Some c -> f p = true) ->
  (forall p, In p (map fst fs) -> exists c, f_lookup p fs = Some c) ->
  forallb f (map fst fs) = true.
Proof.
  intros f fs A B. apply forallb_forall. intros p I. destruct (B p I) as (c & L). eapply A; exact L.
Qed.

Lemma keys_have_lookup : forall fs p, In p (map fst fs) -> exists c, f_lookup p fs = Some c.
Proof.
  induction fs as [|[q c] t IH]; intros p I; cbn in *; [contradiction|].
  destruct (String.eqb p q) eqn:E; [eexists; reflexivity|].
  destruct I as [->|I]; [rewrite String.eqb_refl in E; discriminate|]. apply IH; exact I.
Qed.

Lemma model_passes_C10 : forall plan t fs t' oks,
  store_ok (tstore t) -> tmissing t = false -> tproblems t = [] ->
  transition H t plan fs = (t', oks) ->
  check_C10 H (troot t) (troot t') plan (tmissing t') (List.length (tproblems t')) = true.
Proof.
  intros plan t fs t' oks OK M0 P0 T.
  destruct (transition_spec _ _ _ _ _ OK T) as (_ & _ & PATHS & FAILS & DONE).
  pose proof (transition_length _ _ _ _ _ T) as LEN.
  unfold check_C10. apply andb_true_iff. split.
  - apply forallb_forall. intros p I. destruct (keys_have_lookup _ _ I) as (c & L).
    unfold check_path. rewrite L. apply orb_true_iff.
    destruct (PATHS p) as [EQ|(it & c' & IN & PE & L' & HC)].
    + left. rewrite <- EQ, L. cbn. apply String.eqb_refl.
    + right. rewrite L in L'. inversion L'; subst c'. apply existsb_digest.
      apply planned_digests_in. exists it; auto.
  - destruct (tmissing t') eqn:MS; [rewrite orb_true_r; reflexivity|].
    destruct (tproblems t') as [|pb pbs] eqn:PB; [|cbn; rewrite orb_true_r; reflexivity].
    cbn. rewrite !orb_false_r. apply forallb_forall. intros it I.
    apply In_nth_error in I. destruct I as (k & N).
    assert (K : k < List.length oks).
    { rewrite LEN. apply nth_error_Some. rewrite N. discriminate. }
    apply nth_error_Some in K. destruct (nth_error oks k) as [b|] eqn:B; [|congruence].
    destruct b.
    + destruct (DONE _ _ N B) as (it' & c & IN & PE & L & HC).
      unfold item_done. rewrite L. apply existsb_digest. apply planned_digests_in.
      exists it'; auto.
    + destruct (FAILS _ _ N B) as [X|X]; [congruence|contradiction].
Qed.

End C10.

(* ---------- a concrete session (identity as hash function) ---------- *)

Definition Hid (b : bytes) : digest := b.
Definition op_data (d : bytes) : transmission := TOp {| odata := d; ostart := 0; ocount := 0 |}.
Definition x_empty (root : files) : session := {| sroot := root; sstore := []; srecv := None |}.

(* "n" is received intact and installed; "m" arrives corrupt, so nothing is
   provided for its planned digest: reported missing, root untouched at "m";
   "k" is a copy of "a" taken from the root and installed *)
Lemma example_session :
  snd (srun Hid 1000 (x_empty [("a", "old")])
        [SStage [("n", "new"); ("m", "more"); ("k", "old")] [None; None; Some "a"] [empty_sig; empty_sig];
         SRecv (op_data "ne") true; SRecv (op_data "w") true; SRecv TDone true;
         SRecv (op_data "moXe") true; SRecv TDone true; SFinal;
         STransition [{| ipath := "n"; idigest := "new"; iold := None |};
                      {| ipath := "m"; idigest := "more"; iold := None |};
                      {| ipath := "k"; idigest := "old"; iold := None |}] []])
  = [XStage (Some ["n"; "m"]); XRecv RvOk; XRecv RvOk; XRecv RvOk; XRecv RvOk; XRecv RvOk;
     XFinal true; XTransition [true; false; true] true ["m"]].
Proof. vm_compute. reflexivity. Qed.

