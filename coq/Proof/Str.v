(* Lemmas about Common/Str.v. *)
From Coq Require Import List Bool Arith Lia String.
From Coq.Strings Require Import Byte.
Import ListNotations.
From Mv Require Import Common.Str.

Lemma byte_eqb_refl : forall b : byte, Byte.eqb b b = true.
Proof. intro b. apply Byte.byte_dec_lb. reflexivity. Qed.

Lemma byte_eqb_eq : forall a b : byte, Byte.eqb a b = true <-> a = b.
Proof.
  intros a b. split.
  - apply Byte.byte_dec_bl.
  - intros ->. apply byte_eqb_refl.
Qed.

Lemma str_eqb_eq : forall a b : str, str_eqb a b = true <-> a = b.
Proof.
  induction a as [|x a IH]; intros [|y b]; cbn [str_eqb]; split; intro H;
    try reflexivity; try discriminate.
  - apply andb_true_iff in H as [H1 H2]. apply byte_eqb_eq in H1. apply IH in H2.
    subst. reflexivity.
  - inversion H; subst. rewrite byte_eqb_refl. cbn. apply IH. reflexivity.
Qed.

Lemma split_on_nonempty : forall c s, split_on c s <> [].
Proof.
  intros c s. destruct s as [|x t]; cbn [split_on]; [discriminate|].
  destruct (Byte.eqb x c); [discriminate|].
  destruct (split_on c t); discriminate.
Qed.

Lemma split_on_length : forall c s, List.length (split_on c s) = S (count c s).
Proof.
  intros c s. induction s as [|x t IH]; cbn [split_on count]; [reflexivity|].
  destruct (Byte.eqb x c).
  - cbn [List.length]. rewrite IH. reflexivity.
  - destruct (split_on c t) as [|h r] eqn:E.
    + exfalso. eapply split_on_nonempty. exact E.
    + cbn [List.length] in *. exact IH.
Qed.
