(* Proofs about Model/Stream.v (C47). *)
From Coq Require Import List Arith Bool ZArith Lia.
Import ListNotations.
From Mv Require Import Model.Stream.

(* ---------- boolean equalities ---------- *)
Lemma list_eqb_eq : forall x y, list_eqb x y = true <-> x = y.
Proof.
  induction x as [|a x IH]; destruct y as [|b y]; cbn; split; intro H; try congruence; try discriminate.
  - apply andb_true_iff in H as [H1 H2]. apply Nat.eqb_eq in H1. apply IH in H2. congruence.
  - inversion H; subst. rewrite Nat.eqb_refl. cbn. now apply IH.
Qed.

Lemma list_eqb_refl : forall x, list_eqb x x = true.
Proof. intro x. now apply list_eqb_eq. Qed.

Lemma lists_eqb_eq : forall x y, lists_eqb x y = true <-> x = y.
Proof.
  induction x as [|a x IH]; destruct y as [|b y]; cbn; split; intro H; try congruence; try discriminate.
  - apply andb_true_iff in H as [H1 H2]. apply list_eqb_eq in H1. apply IH in H2. congruence.
  - inversion H; subst. rewrite list_eqb_refl. cbn. now apply IH.
Qed.

Lemma err_eqb_eq : forall a b, err_eqb a b = true <-> a = b.
Proof.
  destruct a, b; cbn; split; intro H; try congruence; try discriminate.
  - apply Nat.eqb_eq in H. congruence.
  - inversion H. apply Nat.eqb_refl.
Qed.

Lemma err_eqb_refl : forall a, err_eqb a a = true.
Proof. intro a. now apply err_eqb_eq. Qed.

Lemma is_nil_eq : forall e, is_nil e = true <-> e = ENil.
Proof. destruct e; cbn; split; intro H; congruence. Qed.

Lemma call_eqb_eq : forall a b, call_eqb a b = true <-> a = b.
Proof.
  intros [[d n] e] [[d' n'] e']. cbn. split; intro H.
  - apply andb_true_iff in H as [H H3]. apply andb_true_iff in H as [H1 H2].
    apply list_eqb_eq in H1. apply Nat.eqb_eq in H2. apply err_eqb_eq in H3. congruence.
  - inversion H; subst. now rewrite list_eqb_refl, Nat.eqb_refl, err_eqb_refl.
Qed.

Lemma calls_eqb_eq : forall x y, calls_eqb x y = true <-> x = y.
Proof.
  induction x as [|a x IH]; destruct y as [|b y]; cbn; split; intro H; try congruence; try discriminate.
  - apply andb_true_iff in H as [H1 H2]. apply call_eqb_eq in H1. apply IH in H2. congruence.
  - inversion H; subst. apply andb_true_iff. split. now apply call_eqb_eq. now apply IH.
Qed.

Lemma wres_eqb_eq : forall a b, wres_eqb a b = true <-> a = b.
Proof.
  intros [[n e] cs] [[n' e'] cs']. cbn. split; intro H.
  - apply andb_true_iff in H as [H H3]. apply andb_true_iff in H as [H1 H2].
    apply Nat.eqb_eq in H1. apply err_eqb_eq in H2. apply calls_eqb_eq in H3. congruence.
  - inversion H; subst. rewrite Nat.eqb_refl, err_eqb_refl. cbn. now apply calls_eqb_eq.
Qed.

Lemma wress_eqb_eq : forall x y, wress_eqb x y = true <-> x = y.
Proof.
  induction x as [|a x IH]; destruct y as [|b y]; cbn; split; intro H; try congruence; try discriminate.
  - apply andb_true_iff in H as [H1 H2]. apply wres_eqb_eq in H1. apply IH in H2. congruence.
  - inversion H; subst. apply andb_true_iff. split. now apply wres_eqb_eq. now apply IH.
Qed.

Lemma lres_eqb_eq : forall a b, lres_eqb a b = true <-> a = b.
Proof.
  intros [[n e] cs] [[n' e'] cs']. cbn. split; intro H.
  - apply andb_true_iff in H as [H H3]. apply andb_true_iff in H as [H1 H2].
    apply Nat.eqb_eq in H1. apply err_eqb_eq in H2. apply lists_eqb_eq in H3. congruence.
  - inversion H; subst. rewrite Nat.eqb_refl, err_eqb_refl. cbn. now apply lists_eqb_eq.
Qed.

Lemma lress_eqb_eq : forall x y, lress_eqb x y = true <-> x = y.
Proof.
  induction x as [|a x IH]; destruct y as [|b y]; cbn; split; intro H; try congruence; try discriminate.
  - apply andb_true_iff in H as [H1 H2]. apply lres_eqb_eq in H1. apply IH in H2. congruence.
  - inversion H; subst. apply andb_true_iff. split. now apply lres_eqb_eq. now apply IH.
Qed.

Lemma lout_eqb_eq : forall a b, lout_eqb a b = true <-> a = b.
Proof.
  destruct a, b; cbn; split; intro H; try congruence; try discriminate.
  - apply lress_eqb_eq in H. congruence.
  - inversion H. now apply lress_eqb_eq.
Qed.

(* ---------- observables ---------- *)
Lemma sink_of_app : forall a b, sink_of (a ++ b) = sink_of a ++ sink_of b.
Proof. intros. unfold sink_of. now rewrite map_app, concat_app. Qed.

Lemma all_calls_cons : forall r out, all_calls (r :: out) = calls_of r ++ all_calls out.
Proof. reflexivity. Qed.

Lemma contract_ok_app : forall a b, contract_ok (a ++ b) = contract_ok a && contract_ok b.
Proof. intros. unfold contract_ok. apply forallb_app. Qed.

Lemma ds_write_call : forall s d s' c, ds_write s d = (s', c) ->
  exists n e, c = (d, n, e) /\ n <= length d.
Proof.
  intros s d s' c H. destruct s as [|[k e] t]; cbn in H; inversion H; subst.
  - exists (length d), ENil. split; [reflexivity | lia].
  - exists (Nat.min k (length d)), e. split; [reflexivity | lia].
Qed.

Lemma passthrough_self : forall d n e, passthrough d (n, e, [(d, n, e)]) = true.
Proof. intros. cbn. now rewrite list_eqb_refl, Nat.eqb_refl, err_eqb_refl. Qed.

Lemma passthrough_inv : forall d r, passthrough d r = true ->
  exists n e, r = (n, e, [(d, n, e)]).
Proof.
  intros d [[n e] cs] H. cbn in H. destruct cs as [|c [|c' cs]]; try discriminate.
  apply call_eqb_eq in H. subst. now exists n, e.
Qed.

(* ================= cutoff ================= *)
Lemma firstn_firstn_le : forall (A : Type) (l : list A) a b, a <= b -> firstn a (firstn b l) = firstn a l.
Proof. intros. rewrite firstn_firstn. f_equal. lia. Qed.

Ltac bsplit := repeat (apply andb_true_iff; split).

Lemma cutoff_write_check : forall cut s d cut' s' r,
  cutoff_write cut s d = (cut', s', r) ->
  check_cutoff_write cut d r = true /\ cut' = cut - length (sink_of (calls_of r)).
Proof.
  intros cut s d cut' s' r H. unfold cutoff_write in H.
  destruct (Nat.eqb cut 0) eqn:E0.
  - apply Nat.eqb_eq in E0. inversion H; subst. split; [|reflexivity].
    unfold check_cutoff_write. cbn [sink_of map concat length firstn forallb contract_ok Nat.eqb].
    bsplit; try reflexivity.
    + apply Nat.leb_refl.
    + apply Nat.eqb_refl.
    + apply Nat.eqb_refl.
  - apply Nat.eqb_neq in E0.
    destruct (Nat.leb (length d) cut) eqn:El.
    + apply Nat.leb_le in El.
      destruct (ds_write s d) as [s1 c] eqn:Ed.
      destruct (ds_write_call _ _ _ _ Ed) as (n & e & -> & Hn).
      inversion H; subst. clear H.
      unfold check_cutoff_write, calls_of. cbn [snd sink_of map concat forallb contract_ok call_ok].
      rewrite app_nil_r, firstn_length_le by exact Hn.
      split; [|reflexivity].
      replace (Nat.eqb cut 0) with false by (symmetry; apply Nat.eqb_neq; lia).
      bsplit; try reflexivity; try (apply Nat.leb_le; lia).
      * apply list_eqb_refl.
      * rewrite andb_true_r.
        destruct (is_nil e) eqn:Ee.
        -- destruct (Nat.eqb n (length d)) eqn:En; [|reflexivity].
           rewrite andb_true_r.
           apply list_eqb_eq. rewrite (firstn_all2 (n:=cut)); [reflexivity| rewrite firstn_length; lia].
        -- rewrite andb_true_r.
           apply list_eqb_eq. rewrite (firstn_all2 (n:=cut)); [reflexivity| rewrite firstn_length; lia].
    + apply Nat.leb_gt in El.
      destruct (ds_write s (firstn cut d)) as [s1 c] eqn:Ed.
      destruct (ds_write_call _ _ _ _ Ed) as (n & e & -> & Hn).
      rewrite firstn_length_le in Hn by lia.
      inversion H; subst. clear H.
      unfold check_cutoff_write, calls_of. cbn [snd sink_of map concat forallb contract_ok call_ok].
      rewrite app_nil_r.
      assert (Hl : length (firstn n (firstn cut d)) = n) by (rewrite firstn_length, firstn_length; lia).
      rewrite Hl. rewrite (firstn_firstn_le _ d) by lia.
      rewrite (firstn_length_le d) by lia.
      split; [| reflexivity].
      replace (Nat.eqb cut 0) with false by (symmetry; apply Nat.eqb_neq; lia).
      bsplit; try reflexivity; try (apply Nat.leb_le; lia).
      * apply list_eqb_refl.
      * destruct (is_nil e); apply Nat.leb_le; lia.
      * rewrite andb_true_r.
        destruct (is_nil e) eqn:Ee.
        -- destruct (Nat.eqb n cut) eqn:En; [|reflexivity].
           apply Nat.eqb_eq in En. subst n. rewrite Nat.eqb_refl, andb_true_r.
           apply list_eqb_eq. rewrite firstn_all. reflexivity.
        -- rewrite andb_true_r.
           apply list_eqb_eq. rewrite firstn_firstn. f_equal. lia.
Qed.

Lemma cutoff_run_passes : forall ws cut s, check_cutoff cut ws (cutoff_run cut s ws) = true.
Proof.
  induction ws as [|d ws IH]; intros cut s; cbn [cutoff_run check_cutoff]; [reflexivity|].
  destruct (cutoff_write cut s d) as [[cut' s'] r] eqn:E.
  destruct (cutoff_write_check _ _ _ _ _ _ E) as [H1 H2].
  cbn [check_cutoff]. rewrite H1. subst cut'. cbn [andb]. apply IH.
Qed.

(* unpacking the per-write check *)
Lemma check_cutoff_write_inv : forall rem d n e cs,
  check_cutoff_write rem d (n, e, cs) = true ->
  sink_of cs = firstn (length (sink_of cs)) d
  /\ length (sink_of cs) <= rem
  /\ n <= length d
  /\ (rem = 0 -> n = length d /\ e = ENil)
  /\ (contract_ok cs = true ->
      sink_of cs = firstn rem (firstn n d) /\ (e = ENil -> n = length d)).
Proof.
  intros rem d n e cs H. unfold check_cutoff_write in H.
  apply andb_true_iff in H as [H H6]. apply andb_true_iff in H as [H H5].
  apply andb_true_iff in H as [H H4]. apply andb_true_iff in H as [H H3].
  apply andb_true_iff in H as [H1 H2].
  apply list_eqb_eq in H1. apply Nat.leb_le in H2. apply Nat.leb_le in H4.
  split; [exact H1|]. split; [exact H2|]. split; [exact H4|]. split.
  - intro Hr. subst rem. cbn [Nat.eqb] in H5. apply andb_true_iff in H5 as [Ha Hb].
    split; [now apply Nat.eqb_eq | now apply is_nil_eq].
  - intro Hc. rewrite Hc in H6. apply andb_true_iff in H6 as [Ha Hb].
    split; [now apply list_eqb_eq|]. intro He. subst e. cbn in Hb. now apply Nat.eqb_eq.
Qed.

Lemma check_cutoff_length : forall ws out rem, check_cutoff rem ws out = true -> length out = length ws.
Proof.
  induction ws as [|d ws IH]; destruct out as [|r out]; cbn; intros rem H; try discriminate; [reflexivity|].
  apply andb_true_iff in H as [_ H]. f_equal. eapply IH; eauto.
Qed.

Lemma check_cutoff_bound : forall ws out rem, check_cutoff rem ws out = true ->
  length (sink_of (all_calls out)) <= rem.
Proof.
  induction ws as [|d ws IH]; destruct out as [|r out]; cbn [check_cutoff]; intros rem H; try discriminate.
  - cbn. lia.
  - apply andb_true_iff in H as [H1 H2]. destruct r as [[n e] cs].
    apply check_cutoff_write_inv in H1 as (_ & Hb & _).
    apply IH in H2. rewrite all_calls_cons, sink_of_app, app_length. cbn [calls_of snd] in *. lia.
Qed.

Lemma check_cutoff_exact : forall ws out rem, check_cutoff rem ws out = true ->
  contract_ok (all_calls out) = true ->
  sink_of (all_calls out) = firstn rem (acks ws out).
Proof.
  induction ws as [|d ws IH]; destruct out as [|r out]; cbn [check_cutoff]; intros rem H Hc; try discriminate.
  - cbn. now rewrite firstn_nil.
  - apply andb_true_iff in H as [H1 H2]. destruct r as [[n e] cs].
    rewrite all_calls_cons, contract_ok_app in Hc. apply andb_true_iff in Hc as [Hc1 Hc2].
    cbn [calls_of snd] in *.
    apply check_cutoff_write_inv in H1 as (_ & Hb & Hn & _ & Hx).
    destruct (Hx Hc1) as [Hs _].
    rewrite all_calls_cons, sink_of_app. cbn [calls_of snd acks].
    rewrite (IH _ _ H2 Hc2). rewrite firstn_app. rewrite Hs at 1. f_equal.
    f_equal. rewrite Hs. rewrite !firstn_length. lia.
Qed.

Lemma check_cutoff_after : forall i ws out rem d r, check_cutoff rem ws out = true ->
  nth_error ws i = Some d -> nth_error out i = Some r ->
  length (sink_of (all_calls (firstn i out))) = rem ->
  fst (fst r) = length d /\ snd (fst r) = ENil /\ sink_of (calls_of r) = [].
Proof.
  induction i as [|i IH]; intros ws out rem d r H Hw Ho Hl.
  - destruct ws as [|d0 ws], out as [|r0 out]; cbn in Hw, Ho; try discriminate.
    cbn in Hl. subst rem. inversion Hw; inversion Ho; subst.
    cbn [check_cutoff] in H. apply andb_true_iff in H as [H1 _]. destruct r as [[n e] cs].
    apply check_cutoff_write_inv in H1 as (_ & Hb & _ & Hz & _).
    destruct (Hz eq_refl).
    assert (Hs : sink_of cs = []) by (destruct (sink_of cs); [reflexivity| cbn in Hb; lia]).
    cbn [fst snd calls_of]. repeat split; assumption.
  - destruct ws as [|d0 ws], out as [|r0 out]; cbn in Hw, Ho; try discriminate.
    cbn [check_cutoff] in H. apply andb_true_iff in H as [H1 H2].
    cbn [firstn] in Hl. rewrite all_calls_cons, sink_of_app, app_length in Hl.
    destruct r0 as [[n0 e0] cs0]. apply check_cutoff_write_inv in H1 as (_ & Hb & _).
    cbn [calls_of snd] in *.
    eapply IH; eauto. lia.
Qed.

Lemma check_cutoff_success : forall i ws out rem d r, check_cutoff rem ws out = true ->
  nth_error ws i = Some d -> nth_error out i = Some r ->
  contract_ok (calls_of r) = true -> snd (fst r) = ENil -> fst (fst r) = length d.
Proof.
  induction i as [|i IH]; intros ws out rem d r H Hw Ho Hc He;
    destruct ws as [|d0 ws], out as [|r0 out]; cbn in Hw, Ho; try discriminate;
    cbn [check_cutoff] in H; apply andb_true_iff in H as [H1 H2].
  - inversion Hw; inversion Ho; subst. destruct r as [[n e] cs]. cbn in *.
    apply check_cutoff_write_inv in H1 as (_ & _ & _ & _ & Hx). destruct (Hx Hc) as [_ Hy]. auto.
  - eapply IH; eauto.
Qed.

Lemma check_cutoff_sound : forall N ws out, check_cutoff N ws out = true -> cutoff_prop N ws out.
Proof.
  intros N ws out H. unfold cutoff_prop. split; [|split; [|split; [|split]]].
  - eapply check_cutoff_length; eauto.
  - now apply check_cutoff_bound with (ws := ws).
  - now apply check_cutoff_exact.
  - intros. eapply check_cutoff_after; eauto.
  - intros. eapply check_cutoff_success; eauto.
Qed.

Lemma cutoff_correct : forall N s ws, cutoff_prop N ws (cutoff_run N s ws).
Proof. intros. apply check_cutoff_sound, cutoff_run_passes. Qed.

(* with a downstream that accepts everything: the headline statement *)
Lemma cutoff_reliable : forall ws N,
  let out := cutoff_run N [] ws in
  sink_of (all_calls out) = firstn N (concat ws)
  /\ Forall2 (fun d (r : wres) => fst (fst r) = length d /\ snd (fst r) = ENil) ws out.
Proof.
  induction ws as [|d ws IH]; intros N; cbn [cutoff_run].
  - cbn. rewrite firstn_nil. split; [reflexivity|constructor].
  - unfold cutoff_write. destruct (Nat.eqb N 0) eqn:E0.
    + apply Nat.eqb_eq in E0. subst N. destruct (IH 0) as [I1 I2].
      cbn zeta in *. rewrite all_calls_cons, sink_of_app. cbn [calls_of snd]. rewrite I1. cbn.
      split; [reflexivity|]. constructor; [cbn; auto|exact I2].
    + destruct (Nat.leb (length d) N) eqn:El; cbn [ds_write].
      * apply Nat.leb_le in El. destruct (IH (N - length d)) as [I1 I2]. cbn zeta in *.
        rewrite all_calls_cons, sink_of_app. cbn [calls_of snd]. rewrite I1. cbn [concat].
        rewrite firstn_app. cbn [sink_of map concat]. rewrite app_nil_r, firstn_all.
        rewrite (firstn_all2 (n:=N)) by lia.
        split; [reflexivity|]. constructor; [cbn; auto|exact I2].
      * apply Nat.leb_gt in El. rewrite firstn_length_le by lia.
        replace (N - N) with 0 by lia. destruct (IH 0) as [I1 I2]. cbn zeta in *.
        rewrite all_calls_cons, sink_of_app. cbn [calls_of snd is_nil]. rewrite I1. cbn [concat].
        rewrite firstn_app. cbn [sink_of map concat]. rewrite app_nil_r.
        rewrite firstn_all2 by (rewrite firstn_length; lia).
        replace (N - length d) with 0 by lia. cbn [firstn].
        split; [reflexivity|]. constructor; [cbn; auto|exact I2].
Qed.

(* ================= line processor ================= *)
Lemma cl_cons : forall x t, complete_lines (x :: t) =
  if Nat.eqb x LF then [] :: complete_lines t
  else match complete_lines t with [] => [] | l :: r => (x :: l) :: r end.
Proof.
  intros x t. unfold complete_lines. cbn [segs]. destruct (segs t) as [h tl].
  destruct (Nat.eqb x LF).
  - reflexivity.
  - destruct tl; reflexivity.
Qed.

Lemma uf_cons : forall x t, unfinished (x :: t) =
  if Nat.eqb x LF then unfinished t
  else match complete_lines t with [] => x :: unfinished t | _ => unfinished t end.
Proof.
  intros x t. unfold unfinished, complete_lines. cbn [segs]. destruct (segs t) as [h tl].
  destruct (Nat.eqb x LF).
  - destruct tl; reflexivity.
  - destruct tl; reflexivity.
Qed.

Lemma cl_nil : complete_lines [] = [].
Proof. reflexivity. Qed.
Lemma uf_nil : unfinished [] = [].
Proof. reflexivity. Qed.

Lemma cl_nil_uf : forall l, complete_lines l = [] -> unfinished l = l.
Proof.
  induction l as [|x t IH]; intro H; [reflexivity|].
  rewrite cl_cons in H. rewrite uf_cons. destruct (Nat.eqb x LF); [discriminate|].
  destruct (complete_lines t) eqn:E; [|discriminate]. now rewrite IH.
Qed.

Lemma uf_length : forall l, length (unfinished l) <= length l.
Proof.
  induction l as [|x t IH]; [cbn; lia|].
  rewrite uf_cons. destruct (Nat.eqb x LF); [cbn; lia|].
  destruct (complete_lines t); cbn; lia.
Qed.

Lemma cl_length : forall l, length (complete_lines l) <= length l.
Proof.
  induction l as [|x t IH]; [cbn; lia|].
  rewrite cl_cons. destruct (Nat.eqb x LF); [cbn; lia|].
  destruct (complete_lines t); cbn in *; lia.
Qed.

Lemma skipn_uf : forall l, skipn (length l - length (unfinished l)) l = unfinished l.
Proof.
  induction l as [|x t IH]; [reflexivity|].
  pose proof (uf_length t) as Hl.
  rewrite uf_cons. destruct (Nat.eqb x LF).
  - cbn [length]. replace (S (length t) - length (unfinished t)) with (S (length t - length (unfinished t))) by lia.
    cbn [skipn]. exact IH.
  - destruct (complete_lines t) eqn:E.
    + rewrite (cl_nil_uf _ E). cbn [length]. now rewrite Nat.sub_diag.
    + cbn [length]. replace (S (length t) - length (unfinished t)) with (S (length t - length (unfinished t))) by lia.
      cbn [skipn]. exact IH.
Qed.

Lemma cut_join : forall d, d = join_lines (complete_lines d) (unfinished d).
Proof.
  induction d as [|x t IH]; [reflexivity|].
  rewrite cl_cons, uf_cons. unfold join_lines in *. destruct (Nat.eqb x LF) eqn:E.
  - apply Nat.eqb_eq in E. subst x. cbn. now rewrite <- IH.
  - destruct (complete_lines t) eqn:Ec.
    + cbn in *. now rewrite <- IH.
    + cbn in *. now rewrite <- IH.
Qed.

Lemma cut_no_lf : forall d, Forall no_lf (complete_lines d) /\ no_lf (unfinished d).
Proof.
  induction d as [|x t [IH1 IH2]]; [split; [constructor| intros []]|].
  rewrite cl_cons, uf_cons. destruct (Nat.eqb x LF) eqn:E.
  - split; [constructor; [intros []|assumption]|assumption].
  - apply Nat.eqb_neq in E. destruct (complete_lines t) eqn:Ec.
    + split; [constructor|]. intros [H|H]; [congruence| now apply IH2].
    + split; [|assumption]. inversion IH1; subst. constructor; [|assumption].
      intros [H|H]; [congruence| now apply H1].
Qed.

Lemma no_lf_cut : forall l, no_lf l -> complete_lines l = [] /\ unfinished l = l.
Proof.
  induction l as [|x t IH]; intro H; [split; reflexivity|].
  assert (Hx : Nat.eqb x LF = false) by (apply Nat.eqb_neq; intro; subst; apply H; now left).
  assert (Ht : no_lf t) by (intro; apply H; now right).
  destruct (IH Ht) as [I1 I2]. rewrite cl_cons, uf_cons, Hx, I1, I2. split; reflexivity.
Qed.

(* the cut is the only decomposition into LF-free lines and an LF-free rest *)
Lemma cut_unique : forall ls rest, Forall no_lf ls -> no_lf rest ->
  complete_lines (join_lines ls rest) = ls /\ unfinished (join_lines ls rest) = rest.
Proof.
  induction ls as [|l ls IH]; intros rest Hl Hr.
  - unfold join_lines. cbn. now apply no_lf_cut.
  - inversion Hl as [|? ? Hl1 Hl2]; subst. destruct (IH rest Hl2 Hr) as [I1 I2].
    unfold join_lines in *. cbn [map concat]. rewrite <- !app_assoc. cbn [app].
    remember (concat (map (fun l0 => l0 ++ [LF]) ls) ++ rest) as J eqn:EJ.
    clear EJ Hl IH. induction l as [|x l IHl].
    + cbn [app]. rewrite cl_cons, uf_cons. rewrite Nat.eqb_refl. now rewrite I1, I2.
    + assert (Hx : Nat.eqb x LF = false) by (apply Nat.eqb_neq; intro; subst; apply Hl1; now left).
      assert (Ht : no_lf l) by (intro; apply Hl1; now right).
      destruct (IHl Ht) as [J1 J2]. cbn [app]. rewrite cl_cons, uf_cons, Hx, J1, J2. split; reflexivity.
Qed.

Lemma cl_app : forall a d,
  complete_lines (a ++ d) = complete_lines a ++ complete_lines (unfinished a ++ d)
  /\ unfinished (a ++ d) = unfinished (unfinished a ++ d).
Proof.
  induction a as [|x a IH]; intro d; [split; reflexivity|].
  destruct (IH d) as [I1 I2]. cbn [app]. rewrite !cl_cons, !uf_cons.
  destruct (Nat.eqb x LF) eqn:E.
  - rewrite I1, I2. split; reflexivity.
  - destruct (complete_lines a) eqn:Ea.
    + cbn [app] in *. rewrite cl_cons, uf_cons, E, <- I1, <- I2. split; reflexivity.
    + rewrite I1, I2. cbn [app]. split; reflexivity.
Qed.

Lemma index_lf_none : forall l, index_lf l = None -> complete_lines l = [] /\ unfinished l = l.
Proof.
  induction l as [|x t IH]; intro H; [split; reflexivity|].
  cbn [index_lf] in H. rewrite cl_cons, uf_cons. destruct (Nat.eqb x LF); [discriminate|].
  destruct (index_lf t); [discriminate|]. destruct (IH eq_refl) as [I1 I2]. rewrite I1, I2. split; reflexivity.
Qed.

Lemma index_lf_some : forall l i, index_lf l = Some i ->
  i < length l
  /\ complete_lines l = firstn i l :: complete_lines (skipn (i + 1) l)
  /\ unfinished l = unfinished (skipn (i + 1) l).
Proof.
  induction l as [|x t IH]; intros i H; [discriminate|].
  cbn [index_lf] in H. rewrite cl_cons, uf_cons. destruct (Nat.eqb x LF).
  - inversion H; subst. cbn. repeat split; lia.
  - destruct (index_lf t) as [j|] eqn:Ej; [|discriminate]. inversion H; subst.
    destruct (IH j eq_refl) as (I0 & I1 & I2). rewrite I1. cbn [length firstn Nat.add skipn].
    repeat split; [lia|assumption].
Qed.

Lemma lp_loop_spec : forall fuel l cbs p, length (complete_lines l) < fuel ->
  lp_loop fuel l cbs p =
  Some (cbs ++ map trim_cr (complete_lines l), p + (length l - length (unfinished l))).
Proof.
  induction fuel as [|f IH]; intros l cbs p Hf; [lia|].
  cbn [lp_loop]. destruct (index_lf l) as [i|] eqn:E.
  - destruct (index_lf_some _ _ E) as (Hi & Hc & Hu).
    rewrite IH.
    + rewrite Hc, Hu. cbn [map]. rewrite <- app_assoc. cbn [app]. f_equal. f_equal.
      pose proof (uf_length (skipn (i + 1) l)) as Hl. rewrite skipn_length in *. lia.
    + rewrite Hc in Hf. cbn [length] in Hf. lia.
  - destruct (index_lf_none _ E) as [Hc Hu]. rewrite Hc, Hu. cbn [map]. rewrite app_nil_r.
    f_equal. f_equal. lia.
Qed.

Lemma lp_write_spec : forall max buf d,
  lp_write max buf d =
  Some (if lp_over max (length buf + length d) then (buf, (0, EMax, []))
        else (unfinished (buf ++ d), (length d, ENil, map trim_cr (complete_lines (buf ++ d))))).
Proof.
  intros max buf d. unfold lp_write. destruct (lp_over max (length buf + length d)); [reflexivity|].
  rewrite lp_loop_spec by (pose proof (cl_length (buf ++ d)); lia).
  cbn [app Nat.add]. f_equal. f_equal.
  pose proof (skipn_uf (buf ++ d)) as Hs.
  destruct (Nat.ltb 0 (length (buf ++ d) - length (unfinished (buf ++ d)))) eqn:E.
  - exact Hs.
  - apply Nat.ltb_ge in E. assert (E0 : length (buf ++ d) - length (unfinished (buf ++ d)) = 0) by lia.
    rewrite E0 in Hs. cbn [skipn] in Hs. exact Hs.
Qed.

Lemma lp_run_aux_passes : forall ws max buf,
  exists out, lp_run_aux max buf ws = Some out /\ check_lp_writes max buf ws out = true.
Proof.
  induction ws as [|d ws IH]; intros max buf.
  - exists []. split; reflexivity.
  - cbn [lp_run_aux]. rewrite lp_write_spec.
    destruct (lp_over max (length buf + length d)) eqn:Eo.
    + destruct (IH max buf) as (out & H1 & H2). rewrite H1.
      exists ((0, EMax, []) :: out). split; [reflexivity|].
      cbn [check_lp_writes]. rewrite Eo. cbn. exact H2.
    + destruct (IH max (unfinished (buf ++ d))) as (out & H1 & H2). rewrite H1.
      eexists. split; [reflexivity|].
      cbn [check_lp_writes]. rewrite Eo. rewrite Nat.eqb_refl. cbn [is_nil andb].
      rewrite (proj2 (lists_eqb_eq _ _) eq_refl). cbn [andb]. exact H2.
Qed.

Lemma lp_run_passes : forall max ws, check_lp max ws (lp_run max ws) = true.
Proof.
  intros max ws. unfold lp_run. destruct (lp_run_aux_passes ws max []) as (out & H1 & H2).
  rewrite H1. exact H2.
Qed.

Lemma uf_idem : forall l, complete_lines (unfinished l) = [] /\ unfinished (unfinished l) = unfinished l.
Proof. intro l. apply no_lf_cut. apply cut_no_lf. Qed.

Lemma check_lp_writes_prop : forall ws out max rem before,
  check_lp_writes max rem ws out = true -> unfinished before = rem ->
  lp_writes_prop max before ws out.
Proof.
  induction ws as [|d ws IH]; destruct out as [|[[n e] cbs] out]; intros max rem before H Hb;
    cbn [check_lp_writes lp_writes_prop] in *; try discriminate; [exact I|].
  rewrite Hb. destruct (lp_over max (length rem + length d)).
  - apply andb_true_iff in H as [H H4]. apply andb_true_iff in H as [H H3].
    apply andb_true_iff in H as [H1 H2].
    apply Nat.eqb_eq in H1. apply err_eqb_eq in H2. apply Nat.eqb_eq in H3.
    destruct cbs; [|discriminate]. repeat split; try assumption. eapply IH; eauto.
  - apply andb_true_iff in H as [H H4]. apply andb_true_iff in H as [H H3].
    apply andb_true_iff in H as [H1 H2].
    apply Nat.eqb_eq in H1. apply is_nil_eq in H2. apply lists_eqb_eq in H3.
    repeat split; try assumption. eapply IH; eauto.
    destruct (cl_app before d) as [_ Hu]. rewrite Hu, Hb. reflexivity.
Qed.

Lemma check_lp_writes_total : forall ws out max rem,
  check_lp_writes max rem ws out = true -> complete_lines rem = [] ->
  concat (map (fun r : lres => snd r) out) = map trim_cr (complete_lines (rem ++ accepted ws out)).
Proof.
  induction ws as [|d ws IH]; destruct out as [|[[n e] cbs] out]; intros max rem H Hr;
    cbn [check_lp_writes] in *; try discriminate.
  - cbn. now rewrite app_nil_r, Hr.
  - cbn [map concat snd accepted]. destruct (lp_over max (length rem + length d)).
    + apply andb_true_iff in H as [H H4]. apply andb_true_iff in H as [H H3].
      apply andb_true_iff in H as [H1 H2].
      apply err_eqb_eq in H2. apply Nat.eqb_eq in H3. subst e.
      destruct cbs; [|discriminate]. cbn [is_nil app]. eapply IH; eauto.
    + apply andb_true_iff in H as [H H4]. apply andb_true_iff in H as [H H3].
      apply andb_true_iff in H as [H1 H2].
      apply is_nil_eq in H2. apply lists_eqb_eq in H3. subst e cbs. cbn [is_nil].
      rewrite (IH _ _ _ H4) by apply uf_idem.
      rewrite app_assoc. destruct (cl_app (rem ++ d) (accepted ws out)) as [Hc _].
      rewrite Hc, map_app. reflexivity.
Qed.

Lemma check_lp_writes_length : forall ws out max rem,
  check_lp_writes max rem ws out = true -> length out = length ws.
Proof.
  induction ws as [|d ws IH]; destruct out as [|[[n e] cbs] out]; intros max rem H;
    cbn [check_lp_writes] in *; try discriminate; [reflexivity|].
  cbn [length]. f_equal. destruct (lp_over max (length rem + length d));
    apply andb_true_iff in H as [_ H]; eapply IH; eauto.
Qed.

Lemma check_lp_sound : forall max ws o, check_lp max ws o = true ->
  exists out, o = LOut out /\ lp_prop max ws out.
Proof.
  intros max ws [out|] H; [|discriminate]. cbn in H. exists out. split; [reflexivity|].
  unfold lp_prop. split; [|split; [|split; [|split]]].
  - eapply check_lp_writes_prop; eauto.
  - apply (check_lp_writes_total _ _ _ _ H). reflexivity.
  - apply cut_join.
  - apply cut_no_lf.
  - apply cut_no_lf.
Qed.

Lemma lp_correct : forall max ws, exists out, lp_run max ws = LOut out /\ lp_prop max ws out.
Proof. intros. apply check_lp_sound, lp_run_passes. Qed.

(* ================= hashed / audit / concurrent ================= *)
Lemma hashed_run_check : forall ws s out h, hashed_run s ws = (out, h) -> check_hashed ws out h = true.
Proof.
  unfold check_hashed.
  induction ws as [|d ws IH]; intros s out h H; cbn [hashed_run] in H.
  - inversion H; subst. reflexivity.
  - destruct (ds_write s d) as [s1 c] eqn:Ed.
    destruct (ds_write_call _ _ _ _ Ed) as (n & e & -> & Hn).
    destruct (hashed_run s1 ws) as [rs h'] eqn:Er. inversion H; subst. clear H.
    specialize (IH _ _ _ Er).
    apply andb_true_iff in IH as [IH I3]. apply andb_true_iff in IH as [I1 I2].
    apply list_eqb_eq in I2. apply list_eqb_eq in I3.
    apply andb_true_iff; split; [apply andb_true_iff; split|].
    + cbn [all_passthrough]. rewrite passthrough_self. exact I1.
    + apply list_eqb_eq. rewrite all_calls_cons, sink_of_app. cbn [calls_of snd sink_of map concat].
      rewrite app_nil_r. now rewrite <- I2.
    + apply list_eqb_eq. cbn [acks]. now rewrite <- I3.
Qed.

Lemma check_hashed_sound : forall ws out h, check_hashed ws out h = true -> hashed_prop ws out h.
Proof.
  intros ws out h H. unfold check_hashed in H.
  apply andb_true_iff in H as [H H3]. apply andb_true_iff in H as [H1 H2].
  apply list_eqb_eq in H2. apply list_eqb_eq in H3. repeat split; assumption.
Qed.

Lemma audit_run_check : forall ws s out a, audit_run s ws = (out, a) -> check_audit ws out a = true.
Proof.
  unfold check_audit.
  induction ws as [|d ws IH]; intros s out a H; cbn [audit_run] in H.
  - inversion H; subst. reflexivity.
  - destruct (ds_write s d) as [s1 c] eqn:Ed.
    destruct (ds_write_call _ _ _ _ Ed) as (n & e & -> & Hn).
    destruct (audit_run s1 ws) as [rs a'] eqn:Er. inversion H; subst. clear H.
    specialize (IH _ _ _ Er). apply andb_true_iff in IH as [I1 I2]. apply list_eqb_eq in I2.
    apply andb_true_iff; split.
    + cbn [all_passthrough]. rewrite passthrough_self. exact I1.
    + apply list_eqb_eq. cbn [map fst]. now rewrite <- I2.
Qed.

Lemma check_audit_sound : forall ws out a, check_audit ws out a = true -> audit_prop ws out a.
Proof.
  intros ws out a H. unfold check_audit in H. apply andb_true_iff in H as [H1 H2].
  apply list_eqb_eq in H2. split; assumption.
Qed.

Lemma conc_run_check : forall ws s, all_passthrough ws (conc_run s ws) = true.
Proof.
  induction ws as [|d ws IH]; intros s; cbn [conc_run]; [reflexivity|].
  destruct (ds_write s d) as [s1 c] eqn:Ed.
  destruct (ds_write_call _ _ _ _ Ed) as (n & e & -> & Hn).
  cbn [all_passthrough]. rewrite passthrough_self. apply IH.
Qed.

(* what pass-through means for the downstream: it sees the writes unchanged *)
Lemma all_passthrough_calls : forall ws out, all_passthrough ws out = true ->
  map (fun c : call => fst (fst c)) (all_calls out) = ws
  /\ map (fun r : wres => (fst (fst r), snd (fst r))) out
     = map (fun c : call => (snd (fst c), snd c)) (all_calls out).
Proof.
  induction ws as [|d ws IH]; destruct out as [|r out]; cbn [all_passthrough]; intro H; try discriminate.
  - split; reflexivity.
  - apply andb_true_iff in H as [H1 H2]. destruct (passthrough_inv _ _ H1) as (n & e & ->).
    destruct (IH _ H2) as [I1 I2]. rewrite all_calls_cons. cbn [calls_of snd app map fst].
    rewrite I1, I2. split; reflexivity.
Qed.

(* ================= preemptable writer ================= *)
Definition pre_inv (interval count : nat) (cancelled : bool) (budget : option nat) (stopped : bool) : Prop :=
  count <= interval
  /\ match budget with
     | None => cancelled = false
     | Some k => cancelled = true /\ interval - count <= k
     end
  /\ (stopped = true -> count = interval /\ cancelled = true).

Lemma preempted_single : forall n e c, preempted (n, e, [c]) = false.
Proof. intros. cbn. now rewrite andb_false_r. Qed.

Lemma preempted_inv : forall r, preempted r = true -> r = (0, EPre, []).
Proof.
  intros [[n e] cs] H. cbn in H. apply andb_true_iff in H as [H H3]. apply andb_true_iff in H as [H1 H2].
  apply Nat.eqb_eq in H1. apply err_eqb_eq in H2. destruct cs; [|discriminate]. congruence.
Qed.

Lemma pre_run_passes_gen : forall ops interval count cancelled s budget stopped,
  pre_inv interval count cancelled budget stopped ->
  check_pre interval budget stopped ops (pre_run interval count cancelled s ops) = true.
Proof.
  induction ops as [|o ops IH]; intros interval count cancelled s budget stopped (Hc & Hb & Hs);
    [reflexivity|].
  destruct o as [d|].
  - cbn [pre_run]. unfold pre_write.
    destruct (Nat.eqb count interval) eqn:Ec.
    + apply Nat.eqb_eq in Ec. destruct cancelled.
      * cbn [check_pre]. change (preempted (0, EPre, [])) with true. cbn iota.
        destruct budget as [k|]; [|discriminate].
        apply IH. repeat split; try tauto; try lia.
      * destruct budget as [k|]; [destruct Hb; discriminate|].
        destruct (ds_write s d) as [s1 c] eqn:Ed.
        destruct (ds_write_call _ _ _ _ Ed) as (n & e & -> & Hn).
        cbn [check_pre]. rewrite preempted_single, passthrough_self.
        destruct stopped; [destruct (Hs eq_refl); discriminate|]. cbn [negb andb].
        apply IH. repeat split; try lia; try discriminate.
    + apply Nat.eqb_neq in Ec.
      destruct (ds_write s d) as [s1 c] eqn:Ed.
      destruct (ds_write_call _ _ _ _ Ed) as (n & e & -> & Hn).
      cbn [check_pre]. rewrite preempted_single, passthrough_self.
      destruct stopped; [destruct (Hs eq_refl); lia|]. cbn [negb andb].
      destruct budget as [k|].
      * destruct Hb as [Hb1 Hb2]. destruct k as [|k]; [lia|].
        apply IH. repeat split; try lia; try assumption; try discriminate.
      * apply IH. repeat split; try lia; try assumption; try discriminate.
  - cbn [pre_run check_pre]. apply IH. unfold pre_inv. split; [assumption|]. split.
    + destruct budget as [k|].
      * destruct Hb. split; [reflexivity|assumption].
      * split; [reflexivity|lia].
    + intro Hst. destruct (Hs Hst). split; [assumption|reflexivity].
Qed.

Lemma pre_run_passes : forall interval s ops,
  check_pre interval None false ops (pre_run interval 0 false s ops) = true.
Proof. intros. apply pre_run_passes_gen. repeat split; try lia; discriminate. Qed.

Lemma check_pre_no_cancel : forall ops out interval stopped,
  check_pre interval None stopped ops out = true -> ~ In PCancel ops ->
  all_passthrough (pwrites ops) out = true.
Proof.
  induction ops as [|o ops IH]; intros out interval stopped H Hn.
  - destruct out; [reflexivity|discriminate].
  - destruct o as [d|]; [|exfalso; apply Hn; now left].
    cbn [check_pre] in H. destruct out as [|r out]; [discriminate|].
    destruct (preempted r); [discriminate|].
    apply andb_true_iff in H as [H H3]. apply andb_true_iff in H as [H1 H2].
    cbn [pwrites all_passthrough]. rewrite H1. cbn [andb]. eapply IH; eauto.
    intro; apply Hn; now right.
Qed.

Lemma check_pre_after : forall ops out interval k stopped,
  check_pre interval (Some k) stopped ops out = true ->
  exists p q, out = p ++ q /\ length p <= k
    /\ all_passthrough (firstn (length p) (pwrites ops)) p = true
    /\ Forall (fun r => r = (0, EPre, [])) q
    /\ length out = length (pwrites ops)
    /\ (stopped = true -> p = []).
Proof.
  induction ops as [|o ops IH]; intros out interval k stopped H.
  - destruct out; [|discriminate]. exists [], []. repeat split; try reflexivity; try constructor. cbn; lia.
  - destruct o as [d|].
    + cbn [check_pre] in H. destruct out as [|r out]; [discriminate|].
      destruct (preempted r) eqn:Ep.
      * apply preempted_inv in Ep. subst r.
        destruct (IH _ _ _ _ H) as (p & q & -> & Hl & Ha & Hq & Hlen & Hs).
        rewrite (Hs eq_refl) in *. exists [], ((0, EPre, []) :: q).
        repeat split; try reflexivity; try (cbn; lia).
        -- constructor; [reflexivity|assumption].
        -- cbn [app length pwrites] in *. now rewrite Hlen.
      * apply andb_true_iff in H as [H H3]. apply andb_true_iff in H as [H1 H2].
        destruct stopped; [discriminate|]. destruct k as [|k]; [discriminate|].
        destruct (IH _ _ _ _ H3) as (p & q & -> & Hl & Ha & Hq & Hlen & Hs).
        exists (r :: p), q. repeat split; try assumption; try discriminate.
        -- cbn [length]. lia.
        -- cbn [length pwrites firstn all_passthrough]. now rewrite H1, Ha.
        -- cbn [app length pwrites] in *. now rewrite Hlen.
    + cbn [check_pre pwrites] in *. eapply IH; eauto.
Qed.

Lemma check_pre_split : forall before after out interval stopped,
  check_pre interval None stopped (before ++ PCancel :: after) out = true ->
  ~ In PCancel before ->
  exists ob oa, out = ob ++ oa
    /\ all_passthrough (pwrites before) ob = true
    /\ pass_then_stop interval (pwrites after) oa.
Proof.
  induction before as [|o before IH]; intros after out interval stopped H Hn.
  - cbn [app check_pre] in H. destruct (check_pre_after _ _ _ _ _ H) as (p & q & -> & Hl & Ha & Hq & Hlen & _).
    exists [], (p ++ q). repeat split; try reflexivity. exists p, q. repeat split; assumption.
  - destruct o as [d|]; [|exfalso; apply Hn; now left].
    cbn [app check_pre] in H. destruct out as [|r out]; [discriminate|].
    destruct (preempted r); [discriminate|].
    apply andb_true_iff in H as [H H3]. apply andb_true_iff in H as [H1 H2].
    destruct (IH _ _ _ _ H3) as (ob & oa & -> & Ha & Hp); [intro; apply Hn; now right|].
    exists (r :: ob), oa. repeat split; try assumption.
    cbn [pwrites all_passthrough]. now rewrite H1, Ha.
Qed.

Lemma check_pre_sound : forall interval ops out,
  check_pre interval None false ops out = true -> pre_prop interval ops out.
Proof.
  intros interval ops out H. split.
  - intro Hn. eapply check_pre_no_cancel; eauto.
  - intros before after -> Hn. eapply check_pre_split; eauto.
Qed.

Lemma pre_correct : forall interval s ops, pre_prop interval ops (pre_run interval 0 false s ops).
Proof. intros. apply check_pre_sound, pre_run_passes. Qed.

(* ================= valve ================= *)
Lemma valve_run_passes : forall ops open s, check_valve open ops (valve_run open s ops) = true.
Proof.
  induction ops as [|o ops IH]; intros open s; [reflexivity|].
  destruct o as [d|]; cbn [valve_run check_valve]; [|apply IH].
  destruct open.
  - destruct (ds_write s d) as [s1 c] eqn:Ed.
    destruct (ds_write_call _ _ _ _ Ed) as (n & e & -> & Hn).
    rewrite passthrough_self. cbn [andb]. apply IH.
  - rewrite Nat.eqb_refl. cbn. apply IH.
Qed.

Lemma check_valve_open : forall ops out, check_valve true ops out = true -> ~ In VShut ops ->
  all_passthrough (vwrites ops) out = true.
Proof.
  induction ops as [|o ops IH]; intros out H Hn.
  - destruct out; [reflexivity|discriminate].
  - destruct o as [d|]; [|exfalso; apply Hn; now left].
    cbn [check_valve] in H. destruct out as [|r out]; [discriminate|].
    apply andb_true_iff in H as [H1 H2]. cbn [vwrites all_passthrough]. rewrite H1. cbn [andb].
    apply IH; [assumption|]. intro; apply Hn; now right.
Qed.

Lemma check_valve_shut : forall ops out, check_valve false ops out = true ->
  Forall2 discarded (vwrites ops) out.
Proof.
  induction ops as [|o ops IH]; intros out H.
  - destruct out; [constructor|discriminate].
  - destruct o as [d|]; cbn [check_valve vwrites] in *; [|now apply IH].
    destruct out as [|[[n e] cs] out]; [discriminate|].
    apply andb_true_iff in H as [H H4]. apply andb_true_iff in H as [H H3].
    apply andb_true_iff in H as [H1 H2].
    apply Nat.eqb_eq in H1. apply is_nil_eq in H2. destruct cs; [|discriminate].
    constructor; [unfold discarded; congruence| now apply IH].
Qed.

Lemma check_valve_split : forall before after out,
  check_valve true (before ++ VShut :: after) out = true -> ~ In VShut before ->
  exists ob oa, out = ob ++ oa
    /\ all_passthrough (vwrites before) ob = true
    /\ Forall2 discarded (vwrites after) oa.
Proof.
  induction before as [|o before IH]; intros after out H Hn.
  - cbn [app check_valve] in H. exists [], out. repeat split; try reflexivity.
    now apply check_valve_shut.
  - destruct o as [d|]; [|exfalso; apply Hn; now left].
    cbn [app check_valve] in H. destruct out as [|r out]; [discriminate|].
    apply andb_true_iff in H as [H1 H2].
    destruct (IH _ _ H2) as (ob & oa & -> & Ha & Hd); [intro; apply Hn; now right|].
    exists (r :: ob), oa. repeat split; try assumption.
    cbn [vwrites all_passthrough]. now rewrite H1, Ha.
Qed.

Lemma check_valve_sound : forall open ops out, check_valve open ops out = true -> valve_prop open ops out.
Proof.
  intros open ops out H. split; [|split].
  - intros -> Hn. now apply check_valve_open.
  - intros ->. now apply check_valve_shut.
  - intros before after -> -> Hn. now apply check_valve_split.
Qed.

Lemma valve_correct : forall open s ops, valve_prop open ops (valve_run open s ops).
Proof. intros. apply check_valve_sound, valve_run_passes. Qed.

(* ================= multi closer / multi flusher ================= *)
Lemma mc_loop_spec : forall cl i first,
  mc_loop i cl first = (seq i (length cl), if is_nil first then first_error cl else first).
Proof.
  induction cl as [|e cl IH]; intros i first; cbn [mc_loop length seq first_error].
  - destruct (is_nil first) eqn:E; [apply is_nil_eq in E; subst|]; reflexivity.
  - rewrite IH. f_equal.
    destruct (is_nil e) eqn:Ee; destruct (is_nil first) eqn:Ef; cbn [negb andb]; try rewrite Ef; try rewrite Ee; reflexivity.
Qed.

Lemma mc_close_check : forall cl, let '(l, r) := mc_close cl in check_mc cl l r = true.
Proof.
  intro cl. unfold mc_close. rewrite mc_loop_spec. cbn [is_nil]. unfold check_mc.
  now rewrite list_eqb_refl, err_eqb_refl.
Qed.

Lemma first_error_spec : forall cl,
  (Forall (fun e => e = ENil) cl /\ first_error cl = ENil /\ flushed_count cl = length cl)
  \/ (exists pre post, cl = pre ++ first_error cl :: post /\ Forall (fun e => e = ENil) pre
        /\ first_error cl <> ENil /\ flushed_count cl = S (length pre)).
Proof.
  induction cl as [|e cl IH].
  - left. repeat split; constructor.
  - cbn [first_error flushed_count]. destruct (is_nil e) eqn:Ee.
    + apply is_nil_eq in Ee. subst e. destruct IH as [(I1 & I2 & I3)|(pre & post & I1 & I2 & I3 & I4)].
      * left. repeat split; [constructor; auto|assumption|cbn; lia].
      * right. exists (ENil :: pre), post. repeat split; [cbn; congruence|constructor; auto|assumption|cbn; lia].
    + right. exists [], cl. split; [reflexivity|]. split; [constructor|].
      split; [intro; subst; discriminate|reflexivity].
Qed.

Lemma check_mc_sound : forall cl log ret, check_mc cl log ret = true -> mc_prop cl log ret.
Proof.
  intros cl log ret H. unfold check_mc in H. apply andb_true_iff in H as [H1 H2].
  apply list_eqb_eq in H1. apply err_eqb_eq in H2. subst. split; [reflexivity|].
  destruct (first_error_spec cl) as [(I1 & I2 & _)|(pre & post & I1 & I2 & I3 & _)].
  - left. split; assumption.
  - right. exists pre, post. repeat split; assumption.
Qed.

Lemma mf_loop_spec : forall fl i, mf_loop i fl = (seq i (flushed_count fl), first_error fl).
Proof.
  induction fl as [|e fl IH]; intros i; cbn [mf_loop flushed_count first_error]; [reflexivity|].
  destruct (is_nil e); [rewrite IH|]; reflexivity.
Qed.

Lemma mf_flush_check : forall fl, let '(l, r) := mf_flush fl in check_mf fl l r = true.
Proof.
  intro fl. unfold mf_flush. rewrite mf_loop_spec. unfold check_mf.
  now rewrite list_eqb_refl, err_eqb_refl.
Qed.

Lemma check_mf_sound : forall fl log ret, check_mf fl log ret = true -> mf_prop fl log ret.
Proof.
  intros fl log ret H. unfold check_mf in H. apply andb_true_iff in H as [H1 H2].
  apply list_eqb_eq in H1. apply err_eqb_eq in H2. subst.
  destruct (first_error_spec fl) as [(I1 & I2 & I3)|(pre & post & I1 & I2 & I3 & I4)].
  - left. rewrite I3. repeat split; assumption.
  - right. exists pre, post. rewrite I4. repeat split; assumption.
Qed.

(* ================= the valve under concurrency ================= *)
Definition cnt (p : thread -> bool) (l : list thread) : nat := length (filter p l).
Definition b2n (b : bool) : nat := if b then 1 else 0.

Definition holds (t : thread) : bool :=
  match t with
  | TW W1 | TW W2 | TW W3 | TW W4 | TW W5 | TS S1 | TS S2 => true
  | _ => false
  end.
Definition atW23 (t : thread) : bool := match t with TW W2 | TW W3 => true | _ => false end.
Definition atW3 (t : thread) : bool := match t with TW W3 => true | _ => false end.
Definition atW2 (t : thread) : bool := match t with TW W2 => true | _ => false end.
Definition atS12 (t : thread) : bool := match t with TS S1 | TS S2 => true | _ => false end.
Definition atS2 (t : thread) : bool := match t with TS S2 => true | _ => false end.

Lemma upd_cons : forall i t a l, upd (S i) t (a :: l) = a :: upd i t l.
Proof. reflexivity. Qed.

Lemma cnt_upd : forall p l i t t', nth_error l i = Some t ->
  cnt p (upd i t' l) + b2n (p t) = cnt p l + b2n (p t').
Proof.
  intros p. induction l as [|a l IH]; intros [|i] t t' H; cbn in H; try discriminate.
  - inversion H; subst. unfold upd, cnt. cbn. destruct (p t), (p t'); cbn; lia.
  - specialize (IH i t t' H). rewrite upd_cons. unfold cnt in *. cbn [filter].
    destruct (p a); cbn [length]; lia.
Qed.

Lemma cnt_pos : forall p l i t, nth_error l i = Some t -> p t = true -> 1 <= cnt p l.
Proof.
  intros p. induction l as [|a l IH]; intros [|i] t H Hp; cbn in H; try discriminate; unfold cnt in *; cbn [filter].
  - inversion H; subst. rewrite Hp. cbn. lia.
  - specialize (IH i t H Hp). destruct (p a); cbn [length]; lia.
Qed.

Lemma cnt_sum_le : forall p q r l,
  (forall t, p t = true -> q t = false) ->
  (forall t, p t = true \/ q t = true -> r t = true) ->
  cnt p l + cnt q l <= cnt r l.
Proof.
  intros p q r l Hd Hr. induction l as [|a l IH]; [cbn; lia|]. unfold cnt in *. cbn [filter].
  destruct (p a) eqn:Ep, (q a) eqn:Eq.
  - rewrite (Hd a Ep) in Eq. discriminate.
  - rewrite (Hr a (or_introl Ep)). cbn [length]. lia.
  - rewrite (Hr a (or_intror Eq)). cbn [length]. lia.
  - destruct (r a); cbn [length]; lia.
Qed.

Lemma cnt_le : forall p q l, (forall t, p t = true -> q t = true) -> cnt p l <= cnt q l.
Proof.
  intros p q l H. induction l as [|a l IH]; [cbn; lia|]. unfold cnt in *. cbn [filter].
  destruct (p a) eqn:Ep; [rewrite (H a Ep); cbn [length]; lia|]. destruct (q a); cbn [length]; lia.
Qed.

Lemma holders_split : forall l, cnt atW23 l + cnt atS12 l <= cnt holds l.
Proof.
  intro l. apply cnt_sum_le.
  - intros [[]|[]]; cbn; congruence.
  - intros [[]|[]] [H|H]; cbn in *; congruence.
Qed.

Lemma w3_le_w23 : forall l, cnt atW3 l <= cnt atW23 l.
Proof. intro l. apply cnt_le. intros [[]|[]]; cbn; congruence. Qed.

Lemma w2_w3_split : forall l, cnt atW2 l + cnt atW3 l <= cnt atW23 l.
Proof.
  intro l. apply cnt_sum_le.
  - intros [[]|[]]; cbn; congruence.
  - intros [[]|[]] [H|H]; cbn in *; congruence.
Qed.

Lemma s2_le_s12 : forall l, cnt atS2 l <= cnt atS12 l.
Proof. intro l. apply cnt_le. intros [[]|[]]; cbn; congruence. Qed.

Definition cinv (s : cstate) : Prop :=
  cnt holds (cths s) = b2n (clock s)
  /\ (cnt atW23 (cths s) = 0 \/ copen s = true)
  /\ (cnt atS2 (cths s) = 0 \/ copen s = false)
  /\ exists sr k, fold_left serial_step (cevs s) (Some (false, 0)) = Some (sr, k)
        /\ k = cnt atW3 (cths s) /\ (sr = true -> copen s = false).

Ltac cfacts E t' :=
  pose proof (cnt_upd holds _ _ _ t' E) as Fh;
  pose proof (cnt_upd atW23 _ _ _ t' E) as F23;
  pose proof (cnt_upd atW3 _ _ _ t' E) as F3;
  pose proof (cnt_upd atS12 _ _ _ t' E) as F12;
  pose proof (cnt_upd atS2 _ _ _ t' E) as F2;
  cbn [holds atW23 atW3 atS12 atS2 b2n] in Fh, F23, F3, F12, F2.

Lemma cstep_inv : forall s i, cinv s -> cinv (cstep s i).
Proof.
  intros s i (I1 & I2 & I3 & sr & k & I4 & I5 & I6). unfold cstep.
  destruct (nth_error (cths s) i) as [t|] eqn:E; [|repeat split; eauto].
  pose proof (holders_split (cths s)) as P1. pose proof (w3_le_w23 (cths s)) as P2.
  pose proof (s2_le_s12 (cths s)) as P3.
  assert (Hb : b2n (clock s) <= 1) by (destruct (clock s); cbn; lia).
  destruct t as [[]|[]].
  - (* W0: Lock *)
    destruct (clock s) eqn:El; [repeat split; eauto; rewrite El; exact I1|].
    cfacts E (TW W1). unfold cinv. cbn [clock copen cths cevs b2n] in *.
    split; [lia|]. split; [destruct I2; [left; lia|now right]|]. split; [destruct I3; [left; lia|now right]|].
    exists sr, k. repeat split; auto; lia.
  - (* W1: the nil test *)
    pose proof (cnt_pos holds _ _ _ E eq_refl) as Hp.
    destruct (copen s) eqn:Eo.
    + cfacts E (TW W2). unfold cinv. cbn [clock copen cths cevs] in *.
      split; [lia|]. split; [now right|]. split; [destruct I3 as [I3|I3]; [left; lia|congruence]|].
      exists sr, k. repeat split; auto; lia.
    + cfacts E (TW W5). unfold cinv. cbn [clock copen cths cevs] in *.
      split; [lia|]. split; [left; destruct I2 as [I2|I2]; [lia|congruence]|]. split; [now right|].
      exists sr, k. repeat split; auto; lia.
  - (* W2: the underlying Write begins *)
    pose proof (cnt_pos atW23 _ _ _ E eq_refl) as Hp.
    assert (Ho : copen s = true) by (destruct I2; [lia|assumption]).
    assert (Hsr : sr = false) by (destruct sr; [rewrite (I6 eq_refl) in Ho; discriminate|reflexivity]).
    pose proof (cnt_pos holds _ _ _ E eq_refl) as Hh.
    cfacts E (TW W3). unfold cinv. cbn [clock copen cths cevs] in *.
    split; [lia|]. split; [now right|]. split; [destruct I3 as [I3|I3]; [left; lia|congruence]|].
    (* nothing else is in flight: the holder is unique *)
    assert (Hk : k = 0).
    { subst k. pose proof (w2_w3_split (cths s)) as P4.
      pose proof (cnt_pos atW2 _ _ _ E eq_refl) as Hp2.
      (* this thread is at W2 and holds the lock alone: nothing is at W3 *)
      lia. }
    exists false, 1. rewrite fold_left_app, I4, Hsr, Hk. cbn. repeat split; try reflexivity; try discriminate; lia.
  - (* W3: the underlying Write ends *)
    pose proof (cnt_pos atW23 _ _ _ E eq_refl) as Hp.
    pose proof (cnt_pos atW3 _ _ _ E eq_refl) as Hp3.
    assert (Ho : copen s = true) by (destruct I2; [lia|assumption]).
    assert (Hsr : sr = false) by (destruct sr; [rewrite (I6 eq_refl) in Ho; discriminate|reflexivity]).
    cfacts E (TW W4). unfold cinv. cbn [clock copen cths cevs] in *.
    split; [lia|]. split; [now right|]. split; [destruct I3 as [I3|I3]; [left; lia|congruence]|].
    destruct k as [|k']; [lia|].
    exists false, k'. rewrite fold_left_app, I4, Hsr. cbn.
    repeat split; try reflexivity; try discriminate; lia.
  - (* W4: Unlock *)
    pose proof (cnt_pos holds _ _ _ E eq_refl) as Hh.
    cfacts E (TW WDone). unfold cinv. cbn [clock copen cths cevs b2n] in *.
    split; [lia|]. split; [destruct I2; [left; lia|now right]|]. split; [destruct I3; [left; lia|now right]|].
    exists sr, k. repeat split; auto; lia.
  - (* W5: Unlock *)
    pose proof (cnt_pos holds _ _ _ E eq_refl) as Hh.
    cfacts E (TW WDone). unfold cinv. cbn [clock copen cths cevs b2n] in *.
    split; [lia|]. split; [destruct I2; [left; lia|now right]|]. split; [destruct I3; [left; lia|now right]|].
    exists sr, k. repeat split; auto; lia.
  - repeat split; eauto.
  - (* S0: Lock *)
    destruct (clock s) eqn:El; [repeat split; eauto; rewrite El; exact I1|].
    cfacts E (TS S1). unfold cinv. cbn [clock copen cths cevs b2n] in *.
    split; [lia|]. split; [destruct I2; [left; lia|now right]|]. split; [destruct I3; [left; lia|now right]|].
    exists sr, k. repeat split; auto; lia.
  - (* S1: writer = nil *)
    pose proof (cnt_pos holds _ _ _ E eq_refl) as Hh.
    pose proof (cnt_pos atS12 _ _ _ E eq_refl) as Hs.
    cfacts E (TS S2). unfold cinv. cbn [clock copen cths cevs] in *.
    split; [lia|]. split; [left; lia|]. split; [now right|].
    exists sr, k. repeat split; auto; lia.
  - (* S2: Unlock, Shut returns *)
    pose proof (cnt_pos holds _ _ _ E eq_refl) as Hh.
    pose proof (cnt_pos atS12 _ _ _ E eq_refl) as Hs.
    pose proof (cnt_pos atS2 _ _ _ E eq_refl) as Hs2.
    assert (Ho : copen s = false) by (destruct I3; [lia|assumption]).
    cfacts E (TS SDone). unfold cinv. cbn [clock copen cths cevs b2n] in *.
    split; [lia|]. split; [left; lia|]. split; [now right|].
    assert (Hk : k = 0) by lia.
    exists true, 0. rewrite fold_left_app, I4, Hk. cbn. repeat split; try reflexivity; auto; lia.
  - repeat split; eauto.
Qed.

Lemma crun_inv : forall sched s, cinv s -> cinv (crun s sched).
Proof.
  induction sched as [|i sched IH]; intros s H; [exact H|]. cbn. apply IH. now apply cstep_inv.
Qed.

Lemma cnt_repeat_false : forall p t n, p t = false -> cnt p (repeat t n) = 0.
Proof. intros p t n H. induction n as [|n IH]; [reflexivity|]. unfold cnt in *. cbn. now rewrite H. Qed.

Lemma cnt_app : forall p a b, cnt p (a ++ b) = cnt p a + cnt p b.
Proof. intros. unfold cnt. now rewrite filter_app, app_length. Qed.

Lemma cinit_inv : forall open nw ns, cinv (cinit open nw ns).
Proof.
  intros open nw ns. unfold cinv, cinit. cbn [clock copen cths cevs fold_left b2n].
  rewrite !cnt_app, !cnt_repeat_false by reflexivity.
  split; [reflexivity|]. split; [now left|]. split; [now left|].
  exists false, 0. repeat split; try reflexivity; discriminate.
Qed.

(* every interleaving of any number of writers and shutters *)
Lemma valve_concurrent_serial : forall open nw ns sched,
  trace_serial (cevs (crun (cinit open nw ns) sched)) = true.
Proof.
  intros. destruct (crun_inv sched _ (cinit_inv open nw ns)) as (_ & _ & _ & sr & k & H & _).
  unfold trace_serial. now rewrite H.
Qed.

Lemma ok_none : forall tr, fold_left ok_step tr None = None.
Proof. induction tr as [|e tr IH]; [reflexivity|]. exact IH. Qed.

Lemma serial_none : forall tr, fold_left serial_step tr None = None.
Proof. induction tr as [|e tr IH]; [reflexivity|]. cbn. exact IH. Qed.

Lemma serial_ok_gen : forall tr st r, fold_left serial_step tr st = Some r ->
  fold_left ok_step tr st = Some r.
Proof.
  induction tr as [|e tr IH]; intros st r H; [exact H|]. cbn [fold_left] in *.
  destruct st as [[sr k]|]; [|rewrite serial_none in H; discriminate].
  destruct k as [|k]; destruct e as [t|t|t]; try (apply IH; exact H).
  cbn in H. rewrite serial_none in H. discriminate.
Qed.

Lemma serial_ok : forall tr, trace_serial tr = true -> trace_ok tr = true.
Proof.
  intros tr H. unfold trace_serial, trace_ok in *.
  destruct (fold_left serial_step tr (Some (false, 0))) as [r|] eqn:E; [|discriminate].
  now rewrite (serial_ok_gen _ _ _ E).
Qed.

(* the counting reading of the scan *)
Lemma ok_counts : forall tr sr0 k0 sr k, fold_left ok_step tr (Some (sr0, k0)) = Some (sr, k) ->
  length (filter is_fwd_begin tr) + k0 = length (filter is_fwd_end tr) + k.
Proof.
  induction tr as [|e tr IH]; intros sr0 k0 sr k H; cbn [fold_left] in H.
  - inversion H; subst. reflexivity.
  - destruct e as [t|t|t]; cbn [ok_step filter is_fwd_begin is_fwd_end length] in *.
    + destruct sr0; [rewrite ok_none in H; discriminate|]. apply IH in H. lia.
    + destruct sr0; [rewrite ok_none in H; discriminate|].
      destruct k0 as [|k0]; [rewrite ok_none in H; discriminate|]. apply IH in H. lia.
    + destruct k0 as [|k0]; [|rewrite ok_none in H; discriminate]. apply IH in H. lia.
Qed.

Lemma ok_after_shut : forall tr r, fold_left ok_step tr (Some (true, 0)) = Some r ->
  Forall (fun e => is_shut_ret e = true) tr.
Proof.
  induction tr as [|e tr IH]; intros r H; [constructor|]. cbn [fold_left] in H.
  destruct e as [t|t|t]; cbn [ok_step] in H; try (rewrite ok_none in H; discriminate).
  constructor; [reflexivity|]. eapply IH; eauto.
Qed.

Lemma trace_ok_safe : forall tr, trace_ok tr = true -> trace_safe tr.
Proof.
  intros tr H pre t post ->. unfold trace_ok in H. rewrite fold_left_app in H.
  destruct (fold_left ok_step pre (Some (false, 0))) as [[sr k]|] eqn:E;
    [|rewrite ok_none in H; discriminate].
  cbn [fold_left ok_step] in H. destruct k as [|k]; [|rewrite ok_none in H; discriminate].
  apply ok_counts in E. split; [lia|].
  destruct (fold_left ok_step post (Some (true, 0))) as [r|] eqn:E2; [|discriminate].
  eapply ok_after_shut; eauto.
Qed.

Lemma valve_concurrent : forall open nw ns sched,
  trace_safe (cevs (crun (cinit open nw ns) sched)).
Proof. intros. apply trace_ok_safe, serial_ok, valve_concurrent_serial. Qed.

(* ================= the combined checker ================= *)
Lemma c47_check_sound_all : forall c, check_c47 c = true -> c47_prop c.
Proof.
  intros [n ws s out|max ws out|ws s out hin ok|ws s out au|ws s out|i ops s out|open ops s out|nw ns tr
         |cl log ret|fl log ret|e n ret] H; cbn [check_c47 c47_prop] in *.
  - now apply check_cutoff_sound.
  - now apply check_lp_sound.
  - apply andb_true_iff in H as [H1 H2]. split; [now apply check_hashed_sound|assumption].
  - now apply check_audit_sound.
  - assumption.
  - now apply check_pre_sound.
  - now apply check_valve_sound.
  - now apply trace_ok_safe.
  - now apply check_mc_sound.
  - now apply check_mf_sound.
  - unfold check_fc in H. apply andb_true_iff in H as [H1 H2].
    apply Nat.eqb_eq in H1. apply err_eqb_eq in H2. split; congruence.
Qed.

Lemma c47_model_passes_all : forall c, model_agrees c = true -> check_c47 c = true.
Proof.
  intros [n ws s out|max ws out|ws s out hin ok|ws s out au|ws s out|i ops s out|open ops s out|nw ns tr
         |cl log ret|fl log ret|e n ret] H; cbn [check_c47 model_agrees] in *.
  - apply wress_eqb_eq in H. subst. apply cutoff_run_passes.
  - apply lout_eqb_eq in H. subst. apply lp_run_passes.
  - destruct (hashed_run s ws) as [o h] eqn:E.
    apply andb_true_iff in H as [H H3]. apply andb_true_iff in H as [H1 H2].
    apply wress_eqb_eq in H1. apply list_eqb_eq in H2. subst.
    rewrite (hashed_run_check _ _ _ _ E). reflexivity.
  - destruct (audit_run s ws) as [o a] eqn:E. apply andb_true_iff in H as [H1 H2].
    apply wress_eqb_eq in H1. apply list_eqb_eq in H2. subst. eapply audit_run_check; eauto.
  - apply wress_eqb_eq in H. subst. apply conc_run_check.
  - apply wress_eqb_eq in H. subst. apply pre_run_passes.
  - apply wress_eqb_eq in H. subst. apply valve_run_passes.
  - now apply serial_ok.
  - pose proof (mc_close_check cl) as Hm. destruct (mc_close cl) as [l r].
    apply andb_true_iff in H as [H1 H2]. apply list_eqb_eq in H1. apply err_eqb_eq in H2. now subst.
  - pose proof (mf_flush_check fl) as Hm. destruct (mf_flush fl) as [l r].
    apply andb_true_iff in H as [H1 H2]. apply list_eqb_eq in H1. apply err_eqb_eq in H2. now subst.
  - unfold fc_close in H. apply andb_true_iff in H as [H1 H2]. apply Nat.eqb_eq in H1. apply err_eqb_eq in H2.
    subst. unfold check_fc. now rewrite Nat.eqb_refl, err_eqb_refl.
Qed.

Lemma hashed_correct : forall s ws,
  hashed_prop ws (fst (hashed_run s ws)) (snd (hashed_run s ws)).
Proof.
  intros. destruct (hashed_run s ws) as [o h] eqn:E. apply check_hashed_sound.
  eapply hashed_run_check; eauto.
Qed.

Lemma audit_correct : forall s ws,
  audit_prop ws (fst (audit_run s ws)) (snd (audit_run s ws)).
Proof.
  intros. destruct (audit_run s ws) as [o h] eqn:E. apply check_audit_sound.
  eapply audit_run_check; eauto.
Qed.

Lemma mc_correct : forall cl, mc_prop cl (fst (mc_close cl)) (snd (mc_close cl)).
Proof.
  intro cl. pose proof (mc_close_check cl) as H. destruct (mc_close cl) as [l r].
  now apply check_mc_sound.
Qed.

Lemma mf_correct : forall fl, mf_prop fl (fst (mf_flush fl)) (snd (mf_flush fl)).
Proof.
  intro fl. pose proof (mf_flush_check fl) as H. destruct (mf_flush fl) as [l r].
  now apply check_mf_sound.
Qed.

(* non-vacuity witnesses *)
Lemma stream_examples :
  (* cutoff 3, downstream fails the 2nd call after 1 byte: bytes 1 2 | 3 pass *)
  cutoff_run 3 [(5, ENil); (1, ED 7)] [[1; 2]; [3; 4; 5]; [6]]
    = [(2, ENil, [([1; 2], 2, ENil)]); (1, ED 7, [([3], 1, ED 7)]); (1, ENil, [])]
  /\ check_c47 (CCutoff 3 [[1; 2]; [3; 4; 5]; [6]] [(5, ENil); (1, ED 7)]
        (cutoff_run 3 [(5, ENil); (1, ED 7)] [[1; 2]; [3; 4; 5]; [6]])) = true
  (* lines: "a\r\nb" then "c\n" *)
  /\ lp_run 0 [[97; 13; 10; 98]; [99; 10]]
     = LOut [(4, ENil, [[97]]); (2, ENil, [[98; 99]])]
  (* cap 3: the second write would make 4 buffered bytes *)
  /\ lp_run 3 [[97; 98]; [99; 100]; [10]]
     = LOut [(2, ENil, []); (0, EMax, []); (1, ENil, [[97; 98]])]
  (* preemption: interval 2, cancelled after the first write *)
  /\ pre_run 2 0 false [] [PW [1]; PCancel; PW [2]; PW [3]; PW [4]]
     = [(1, ENil, [([1], 1, ENil)]); (1, ENil, [([2], 1, ENil)]); (0, EPre, []); (0, EPre, [])]
  /\ mc_close [ENil; ED 1; ED 2] = ([0; 1; 2], ED 1)
  /\ mf_flush [ENil; ED 1; ED 2] = ([0; 1], ED 1).
Proof. repeat split; vm_compute; reflexivity. Qed.

Lemma valve_concurrent_examples :
  cevs (crun (cinit true 2 1) [0; 0; 0; 2; 2; 0; 0; 2; 2; 2; 1; 1; 1])
    = [EvFwdBegin 0; EvFwdEnd 0; EvShutRet 2]
  /\ trace_ok [EvFwdBegin 0; EvShutRet 2; EvFwdEnd 0] = false
  /\ trace_ok [EvFwdBegin 0; EvFwdEnd 0; EvShutRet 2; EvFwdBegin 1] = false.
Proof. repeat split; vm_compute; reflexivity. Qed.
