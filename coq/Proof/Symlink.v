(* Lemmas for C16 about Model/Symlink.v. *)
From Coq Require Import List Bool Arith ZArith Lia String.
From Coq.Strings Require Import Byte.
Import ListNotations.
From Mv Require Import Common.Str Proof.Str Model.Symlink.
Open Scope Z_scope.

(* ---------- strings ---------- *)

Lemma removelast_length : forall (A : Type) (l : list A),
    List.length (removelast l) = Nat.pred (List.length l).
Proof.
  intros A l. induction l as [|x [|y t] IH]; cbn [removelast List.length] in *;
    try reflexivity.
  rewrite IH. reflexivity.
Qed.

Lemma link_dirs_length : forall path,
    Z.of_nat (List.length (link_dirs path)) = path_depth path.
Proof.
  intro path. unfold link_dirs, path_depth.
  rewrite removelast_length, split_on_length. reflexivity.
Qed.

(* ---------- the repaired walk is the POSIX walk ---------- *)

Lemma code_step_fixed : forall d c, code_step true d c = posix_step d c.
Proof. intros d c. unfold code_step, posix_step. destruct (classify c); reflexivity. Qed.

Lemma code_walk_fixed : forall cs d, code_walk true d cs = inside_all d cs.
Proof.
  induction cs as [|c t IH]; intro d; cbn [code_walk inside_all]; [reflexivity|].
  rewrite code_step_fixed. rewrite IH.
  destruct (posix_step d c <? 0) eqn:E1; destruct (0 <=? posix_step d c) eqn:E2;
    cbn [andb]; try reflexivity.
  - apply Z.ltb_lt in E1. apply Z.leb_le in E2. lia.
  - apply Z.ltb_ge in E1. apply Z.leb_gt in E2. lia.
Qed.

(* [p] is an initial segment of [l] *)
Definition is_prefix {A : Type} (p l : list A) : Prop := exists s, l = p ++ s.

Lemma inside_all_prefixes : forall cs d,
    inside_all d cs = true -> 0 <= d ->
    forall p, is_prefix p cs -> 0 <= resolve_depth d p.
Proof.
  induction cs as [|c t IH]; intros d H Hd p [s Hs].
  - destruct p; [cbn; exact Hd | discriminate].
  - destruct p as [|x p'].
    + cbn. exact Hd.
    + cbn [app] in Hs. inversion Hs; subst x t.
      cbn [inside_all] in H. apply andb_true_iff in H as [H1 H2].
      apply Z.leb_le in H1.
      unfold resolve_depth. cbn [fold_left].
      apply (IH (posix_step d c) H2 H1 p'). exists s. reflexivity.
Qed.

Lemma prefixes_inside_all : forall cs d,
    (forall p, is_prefix p cs -> 0 <= resolve_depth d p) -> inside_all d cs = true.
Proof.
  induction cs as [|c t IH]; intros d H; cbn [inside_all]; [reflexivity|].
  apply andb_true_iff. split.
  - apply Z.leb_le. apply (H [c]). exists t. reflexivity.
  - apply IH. intros p [s Hs]. apply (H (c :: p)). exists s. subst t. reflexivity.
Qed.

Lemma path_depth_nonneg : forall path, 0 <= path_depth path.
Proof. intro path. unfold path_depth. lia. Qed.

(* ---------- normalize ---------- *)

Lemma normalize_inr : forall fixed path target t',
    normalize_portable fixed path target = inr t' ->
    t' = target /\ must_reject target = false
    /\ code_walk fixed (path_depth path) (split_on c_slash target) = true.
Proof.
  intros fixed path target t' H. unfold normalize_portable in H.
  destruct target as [|c0 r]; [discriminate|].
  unfold must_reject.
  destruct (Nat.ltb max_target_length (List.length (c0 :: r))); [discriminate|].
  destruct (contains c_colon (c0 :: r)); [discriminate|].
  destruct (contains c_bslash (c0 :: r)); [discriminate|].
  destruct (Byte.eqb c0 c_slash); [discriminate|].
  destruct (code_walk fixed (path_depth path) (split_on c_slash (c0 :: r))) eqn:W;
    [|discriminate].
  inversion H. repeat split; reflexivity.
Qed.

Lemma normalize_rejects : forall fixed path target,
    must_reject target = true ->
    exists e, normalize_portable fixed path target = inl e.
Proof.
  intros fixed path target H. unfold normalize_portable.
  destruct target as [|c0 r]; [eexists; reflexivity|].
  unfold must_reject in H.
  destruct (Nat.ltb max_target_length (List.length (c0 :: r))); [eexists; reflexivity|].
  destruct (contains c_colon (c0 :: r)); [eexists; reflexivity|].
  destruct (contains c_bslash (c0 :: r)); [eexists; reflexivity|].
  destruct (Byte.eqb c0 c_slash); [eexists; reflexivity|].
  cbn in H. discriminate.
Qed.

Lemma normalize_fixed_inside : forall path target t',
    normalize_portable true path target = inr t' ->
    t' = target /\
    forall p, is_prefix p (split_on c_slash t') ->
              0 <= resolve_depth (path_depth path) p.
Proof.
  intros path target t' H. apply normalize_inr in H as (-> & _ & W).
  split; [reflexivity|].
  rewrite code_walk_fixed in W.
  apply inside_all_prefixes; [exact W | apply path_depth_nonneg].
Qed.

(* ---------- locations ---------- *)

(* While the depth never drops below zero the walk only ever pops names that
   lie below the root: the root's own location [rbase] stays at the bottom of
   the stack. *)
Lemma resolve_loc_keeps_base : forall cs (below rbase : list str),
    inside_all (Z.of_nat (List.length below)) cs = true ->
    exists below',
      resolve_loc (below ++ rbase) cs = below' ++ rbase
      /\ Z.of_nat (List.length below') = resolve_depth (Z.of_nat (List.length below)) cs.
Proof.
  induction cs as [|c t IH]; intros below rbase H.
  - exists below. split; reflexivity.
  - cbn [inside_all] in H. apply andb_true_iff in H as [H1 H2].
    apply Z.leb_le in H1.
    unfold resolve_loc, resolve_depth. cbn [fold_left].
    unfold posix_step in H1, H2 |- *. unfold loc_step.
    destruct (classify c) eqn:K.
    + apply (IH below rbase H2).
    + apply (IH below rbase H2).
    + destruct below as [|b below'].
      * cbn [List.length] in H1. lia.
      * cbn [app tl].
        replace (Z.of_nat (List.length (b :: below')) - 1)
          with (Z.of_nat (List.length below')) in * by (cbn [List.length]; lia).
        apply (IH below' rbase H2).
    + replace (Z.of_nat (List.length below) + 1)
        with (Z.of_nat (List.length (c :: below))) in * by (cbn [List.length]; lia).
      apply (IH (c :: below) rbase H2).
Qed.

Lemma inside_all_prefix_closed : forall cs d p,
    inside_all d cs = true -> is_prefix p cs -> inside_all d p = true.
Proof.
  induction cs as [|c t IH]; intros d p H [s Hs].
  - destruct p; [reflexivity|discriminate].
  - destruct p as [|x p']; [reflexivity|].
    cbn [app] in Hs. inversion Hs; subst x t.
    cbn [inside_all] in H |- *. apply andb_true_iff in H as [H1 H2].
    rewrite H1. cbn [andb]. apply (IH _ _ H2). exists s. reflexivity.
Qed.

Lemma normalize_fixed_location : forall path target t' (base : list str),
    normalize_portable true path target = inr t' ->
    forall p, is_prefix p (split_on c_slash t') ->
      exists below,
        resolve_loc (rev (base ++ link_dirs path)) p = below ++ rev base.
Proof.
  intros path target t' base H p Hp.
  apply normalize_inr in H as (-> & _ & W).
  rewrite code_walk_fixed in W.
  rewrite rev_app_distr.
  rewrite <- link_dirs_length in W. rewrite <- rev_length in W.
  pose proof (inside_all_prefix_closed _ _ _ W Hp) as Wp.
  destruct (resolve_loc_keeps_base p (rev (link_dirs path)) (rev base) Wp)
    as (below' & E & _).
  exists below'. exact E.
Qed.

(* ---------- call sites ---------- *)

Lemma scan_link_portable : forall fixed path target t,
    scan_link fixed true path target = LESymbolicLink t ->
    normalize_portable fixed path target = inr t.
Proof.
  intros fixed path target t H. unfold scan_link in H.
  destruct (normalize_portable fixed path target) as [e|t0]; [discriminate|].
  inversion H. reflexivity.
Qed.

Lemma create_allowed_portable : forall fixed path target,
    create_allowed fixed SLPortable path target = true ->
    normalize_portable fixed path target = inr target.
Proof.
  intros fixed path target H. unfold create_allowed in H.
  destruct (normalize_portable fixed path target) as [e|t0]; [discriminate|].
  apply str_eqb_eq in H. subst. reflexivity.
Qed.

Lemma create_ignore_never : forall fixed path target,
    create_allowed fixed SLIgnore path target = false.
Proof. reflexivity. Qed.

(* creation of entry trees: exactly the links that pass the rule at their own
   path are created, a problem is recorded for every other one *)
Lemma created_links_filter : forall fixed mode t path,
    created_links fixed mode path t
    = filter (fun pt => create_allowed fixed mode (fst pt) (snd pt)) (links_of path t).
Proof.
  intros fixed mode. fix IH 1. intros [tg|cs] path.
  - cbn [created_links links_of filter fst snd].
    destruct (create_allowed fixed mode path tg); reflexivity.
  - cbn [created_links links_of].
    induction cs as [|[n c] r IHr]; [reflexivity|].
    rewrite filter_app. rewrite IH. f_equal. exact IHr.
Qed.

Lemma link_problems_filter : forall fixed mode t path,
    link_problems fixed mode path t
    = map fst (filter (fun pt => negb (create_allowed fixed mode (fst pt) (snd pt))) (links_of path t)).
Proof.
  intros fixed mode. fix IH 1. intros [tg|cs] path.
  - cbn [link_problems links_of filter fst snd].
    destruct (create_allowed fixed mode path tg); reflexivity.
  - cbn [link_problems links_of].
    induction cs as [|[n c] r IHr]; [reflexivity|].
    rewrite filter_app, map_app. rewrite IH. f_equal. exact IHr.
Qed.

Lemma created_tree_links : forall path t p tg,
    In (p, tg) (created_links true SLPortable path t) ->
    In (p, tg) (links_of path t)
    /\ normalize_portable true p tg = inr tg
    /\ forall q, is_prefix q (split_on c_slash tg) -> 0 <= resolve_depth (path_depth p) q.
Proof.
  intros path t p tg H. rewrite created_links_filter in H.
  apply filter_In in H as [H1 H2]. cbn [fst snd] in H2.
  pose proof (create_allowed_portable true p tg H2) as N.
  split; [exact H1|]. split; [exact N|].
  apply (proj2 (normalize_fixed_inside p tg tg N)).
Qed.

Lemma tree_link_created_or_problem : forall fixed mode path t p tg,
    In (p, tg) (links_of path t) ->
    In (p, tg) (created_links fixed mode path t) \/ In p (link_problems fixed mode path t).
Proof.
  intros fixed mode path t p tg H. rewrite created_links_filter, link_problems_filter.
  destruct (create_allowed fixed mode p tg) eqn:E.
  - left. apply filter_In. split; [exact H | exact E].
  - right. apply in_map_iff. exists (p, tg). split; [reflexivity|].
    apply filter_In. split; [exact H|]. cbn [fst snd]. rewrite E. reflexivity.
Qed.

(* a directory, one and two levels deep, holding an escaping link: nothing is
   created, a problem is recorded for the link's own path *)
Lemma tree_example :
  created_links true SLPortable (B "d")
    (CDir [(B "ok", CLink (B "../x")); (B "bad", CLink (B "../../secret"));
           (B "s", CDir [(B "deep", CLink (B "../../y")); (B "abs", CLink (B "/etc/passwd"))])])
  = [(B "d/ok", B "../x"); (B "d/s/deep", B "../../y")]
  /\ link_problems true SLPortable (B "d")
       (CDir [(B "ok", CLink (B "../x")); (B "bad", CLink (B "../../secret"));
              (B "s", CDir [(B "deep", CLink (B "../../y")); (B "abs", CLink (B "/etc/passwd"))])])
     = [B "d/bad"; B "d/s/abs"].
Proof. vm_compute. split; reflexivity. Qed.

(* ---------- checker ---------- *)

Lemma check_C16_sound : forall path target out,
    check_C16 path target out = true ->
    forall t', out = inr t' ->
      must_reject target = false /\
      forall p, is_prefix p (split_on c_slash t') ->
                0 <= resolve_depth (path_depth path) p.
Proof.
  intros path target out H t' ->. cbn [check_C16] in H.
  apply andb_true_iff in H as [H1 H2]. apply negb_true_iff in H1.
  split; [exact H1|].
  apply inside_all_prefixes; [exact H2 | apply path_depth_nonneg].
Qed.

Lemma check_C16_complete : forall path target t',
    must_reject target = false ->
    (forall p, is_prefix p (split_on c_slash t') ->
               0 <= resolve_depth (path_depth path) p) ->
    check_C16 path target (inr t') = true.
Proof.
  intros path target t' H1 H2. cbn [check_C16]. rewrite H1. cbn [negb andb].
  apply prefixes_inside_all. exact H2.
Qed.

Lemma check_C16_model_passes : forall path target,
    check_C16 path target (normalize_portable true path target) = true.
Proof.
  intros path target.
  destruct (normalize_portable true path target) as [e|t'] eqn:E; [reflexivity|].
  pose proof (normalize_inr _ _ _ _ E) as (-> & R & W).
  cbn [check_C16]. rewrite R. cbn [negb andb].
  rewrite code_walk_fixed in W. exact W.
Qed.

Lemma has_prefix_spec : forall p l, has_prefix p l = true <-> exists s, l = p ++ s.
Proof.
  induction p as [|x p IH]; intros l; cbn [has_prefix].
  - split; [intros _; exists l; reflexivity | reflexivity].
  - destruct l as [|y l]; split; intro H.
    + discriminate.
    + destruct H as [s Hs]. discriminate.
    + apply andb_true_iff in H as [H1 H2]. apply str_eqb_eq in H1. subst y.
      apply IH in H2 as [s ->]. exists s. reflexivity.
    + destruct H as [s Hs]. cbn [app] in Hs. inversion Hs; subst.
      apply andb_true_iff. split; [apply str_eqb_eq; reflexivity|].
      apply IH. exists s. reflexivity.
Qed.

Lemma check_C16_kernel_sound : forall base out kernel,
    check_C16_kernel base out kernel = true ->
    forall t' loc, out = inr t' -> kernel = Some loc -> exists s, loc = base ++ s.
Proof.
  intros base out kernel H t' loc -> ->. cbn [check_C16_kernel] in H.
  apply has_prefix_spec. exact H.
Qed.

(* the model's own prediction of the kernel location passes the kernel check *)
Lemma check_C16_kernel_model_passes : forall path target (base : list str),
    check_C16_kernel base (normalize_portable true path target)
      (Some (rev (resolve_loc (rev (base ++ link_dirs path)) (split_on c_slash target))))
    = true.
Proof.
  intros path target base.
  destruct (normalize_portable true path target) as [e|t'] eqn:E; [reflexivity|].
  cbn [check_C16_kernel]. apply has_prefix_spec.
  pose proof (normalize_inr _ _ _ _ E) as (-> & _ & _).
  destruct (normalize_fixed_location path target target base E
              (split_on c_slash target)) as [below Hb].
  - exists []. rewrite app_nil_r. reflexivity.
  - rewrite Hb. rewrite rev_app_distr, rev_involutive. eexists. reflexivity.
Qed.

(* ---------- the code as it is: refutation ---------- *)

Definition witness_path : str := B "link".
Definition witness_target : str := B "a//../..".

Lemma unfixed_accepts_escape :
  normalize_portable false witness_path witness_target = inr witness_target
  /\ inside_all (path_depth witness_path) (split_on c_slash witness_target) = false
  /\ resolve_depth (path_depth witness_path) (split_on c_slash witness_target) = -1
  /\ resolve_loc (rev ([B "sandbox"; B "root"] ++ link_dirs witness_path))
                 (split_on c_slash witness_target) = [B "sandbox"].
Proof. vm_compute. repeat split; reflexivity. Qed.

Lemma unfixed_refuted :
  exists (path target t' : str),
    normalize_portable false path target = inr t'
    /\ inside_all (path_depth path) (split_on c_slash t') = false
    /\ resolve_depth (path_depth path) (split_on c_slash t') = -1
    /\ resolve_loc (rev ([B "sandbox"; B "root"] ++ link_dirs path))
                   (split_on c_slash t') = [B "sandbox"].
Proof.
  exists witness_path, witness_target, witness_target.
  vm_compute. repeat split; reflexivity.
Qed.

Lemma fixed_rejects_witness :
  normalize_portable true witness_path witness_target = inl ErrOutside.
Proof. vm_compute. reflexivity. Qed.

(* non-vacuity: an accepted target with a real walk (down, up, down) at depth 2 *)
Lemma fixed_accepts_example :
  normalize_portable true (B "d1/d2/link") (B "../x//./../../y")
  = inr (B "../x//./../../y")
  /\ resolve_depth (path_depth (B "d1/d2/link")) (split_on c_slash (B "../x//./../../y")) = 1
  /\ must_reject (B "../x//./../../y") = false.
Proof. vm_compute. repeat split; reflexivity. Qed.
