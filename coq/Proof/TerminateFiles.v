(* The removal step of Terminate removes the session record whatever happens
   to the archive (Model/TerminateFiles.v). *)
From Coq Require Import List Bool Arith.
From Mv Require Import Model.TerminateFiles.

Lemma term_model_removes : forall a sess, check_term (term_model a sess) = true.
Proof. intros a sess. reflexivity. Qed.

Lemma check_term_sound : forall o, check_term o = true -> to_session o = false /\ to_loaded o = false.
Proof.
  intros o H. unfold check_term in H. apply andb_prop in H. destruct H as [A B].
  apply negb_true_iff in A. apply negb_true_iff in B. auto.
Qed.

Lemma term_model_nil : forall a sess, to_nil (term_model a sess) = true <-> sess = true /\ a = ArchFile.
Proof. intros a sess. destruct a, sess; cbn; split; intros; try discriminate; intuition congruence. Qed.
