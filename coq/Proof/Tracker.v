(* Proofs about the tracker model (Model/Tracker.v); closes Props/C30.v. *)
From Coq Require Import List Arith NArith Bool Lia.
From Coq Require Import ZifyBool ZifyNat ZifyN.
Import ListNotations.
From Mv Require Import Model.Tracker.

(* ------------------------------------------------------------------ *)
(* lists, association lists                                            *)
(* ------------------------------------------------------------------ *)

Lemma nth_upd {A} (l : list A) t t' (x y : A) :
  nth_error l t = Some y ->
  nth_error (upd l t x) t' = if Nat.eqb t' t then Some x else nth_error l t'.
Proof.
  revert t t'. induction l as [|h r IH]; intros t t' H.
  - destruct t; discriminate.
  - destruct t as [|t]; destruct t' as [|t']; simpl in *; try reflexivity.
    apply IH. exact H.
Qed.

Lemma length_upd {A} (l : list A) t (x : A) : length (upd l t x) = length l.
Proof. revert t. induction l; intros [|t]; simpl; auto. Qed.

Lemma aget_adel_same {A} (l : list (nat * A)) t : aget (adel l t) t = None.
Proof.
  induction l as [|[k v] r IH]; simpl; auto.
  destruct (Nat.eqb k t) eqn:E; simpl; auto. rewrite E. auto.
Qed.

Lemma aget_adel_other {A} (l : list (nat * A)) t t' : t' <> t -> aget (adel l t) t' = aget l t'.
Proof.
  intros Hne. induction l as [|[k v] r IH]; simpl; auto.
  destruct (Nat.eqb k t) eqn:E; simpl.
  - apply Nat.eqb_eq in E. subst k. destruct (Nat.eqb_spec t t'); [congruence|auto].
  - rewrite IH. reflexivity.
Qed.

Lemma in_adel {A} (l : list (nat * A)) t t' v : In (t', v) (adel l t) <-> (In (t', v) l /\ t' <> t).
Proof.
  induction l as [|[k w] r IH]; simpl; [tauto|].
  destruct (Nat.eqb_spec k t); simpl; rewrite IH; split; intros H.
  - tauto.
  - destruct H as [[H|H] Hne]; [inversion H; subst; congruence | tauto].
  - destruct H as [H|H]; [inversion H; subst; tauto | tauto].
  - tauto.
Qed.

Lemma aget_map_const {A B} (f : nat * A -> B) (l : list (nat * A)) (r : list (nat * B)) t :
  aget (map (fun x => (fst x, f x)) l ++ r) t =
  match find (fun x => Nat.eqb (fst x) t) l with
  | Some x => Some (f x)
  | None => aget r t
  end.
Proof.
  induction l as [|[k v] l IH]; simpl; auto.
  destruct (Nat.eqb k t); auto.
Qed.

Lemma find_key_none {A} (l : list (nat * A)) t :
  find (fun x => Nat.eqb (fst x) t) l = None <-> (forall v, ~ In (t, v) l).
Proof.
  induction l as [|[k v] l IH]; simpl.
  - split; auto.
  - destruct (Nat.eqb_spec k t).
    + subst. split; [discriminate|]. intros H. exfalso. apply (H v). auto.
    + rewrite IH. split; intros H w.
      * intros [E|E]; [inversion E; congruence | exact (H w E)].
      * intros E. apply (H w). auto.
Qed.

Lemma find_key_some {A} (l : list (nat * A)) t x :
  find (fun x => Nat.eqb (fst x) t) l = Some x -> In x l /\ fst x = t.
Proof.
  intros H. apply find_some in H. destruct H as [H1 H2]. apply Nat.eqb_eq in H2. auto.
Qed.

Lemma aget_map_snd {A B} (f : A -> B) (l : list (nat * A)) t :
  aget (map (fun x => (fst x, f (snd x))) l) t = option_map f (aget l t).
Proof.
  induction l as [|[k v] l IH]; simpl; auto. destruct (Nat.eqb k t); auto.
Qed.

(* ------------------------------------------------------------------ *)
(* the index                                                           *)
(* ------------------------------------------------------------------ *)

Lemma next_index_neq i : next_index i <> i.
Proof. unfold next_index, max_u64. destruct (N.eqb_spec i 18446744073709551615); lia. Qed.

Lemma next_index_pos i : next_index i <> 0%N.
Proof. unfold next_index. destruct (N.eqb i max_u64); lia. Qed.

Lemma idx_at_nowrap i0 k :
  (i0 + N.of_nat k <= max_u64)%N -> idx_at i0 k = (i0 + N.of_nat k)%N.
Proof.
  induction k as [|k IH]; intros H; simpl.
  - lia.
  - rewrite IH by lia. unfold next_index.
    destruct (N.eqb_spec (i0 + N.of_nat k) max_u64); lia.
Qed.

Lemma find_k_some i0 i from n k :
  find_k i0 i from n = Some k -> from <= k < from + n /\ idx_at i0 k = i /\
  forall j, from <= j < k -> idx_at i0 j <> i.
Proof.
  revert from. induction n as [|n IH]; intros from H; simpl in H; [discriminate|].
  destruct (N.eqb_spec (idx_at i0 from) i).
  - inversion H; subst. repeat split; try lia.
  - apply IH in H. destruct H as [H1 [H2 H3]]. repeat split; try lia; auto.
    intros j Hj. destruct (Nat.eq_dec j from); [subst; auto|]. apply H3. lia.
Qed.

Lemma find_k_none i0 i from n :
  find_k i0 i from n = None <-> (forall k, from <= k < from + n -> idx_at i0 k <> i).
Proof.
  revert from. induction n as [|n IH]; intros from; simpl.
  - split; auto. intros _ k Hk. lia.
  - destruct (N.eqb_spec (idx_at i0 from) i).
    + split; [discriminate|]. intros H. exfalso. apply (H from); auto. lia.
    + rewrite IH. split; intros H k Hk.
      * destruct (Nat.eq_dec k from); [subst; auto|]. apply H. lia.
      * apply H. lia.
Qed.

Lemma find_k_complete i0 i from n k :
  from <= k < from + n -> idx_at i0 k = i ->
  exists k', find_k i0 i from n = Some k' /\ from <= k' <= k /\ idx_at i0 k' = i.
Proof.
  intros Hk Hi. destruct (find_k i0 i from n) as [k'|] eqn:E.
  - exists k'. split; auto. apply find_k_some in E. destruct E as [E1 [E2 E3]].
    split; auto. split; [lia|]. destruct (le_lt_dec k' k); auto.
    exfalso. apply (E3 k); auto. lia.
  - exfalso. rewrite find_k_none in E. apply (E k); auto.
Qed.

(* ------------------------------------------------------------------ *)
(* structural invariant of the transition system                       *)
(* ------------------------------------------------------------------ *)

Definition holding (p : pc) : bool :=
  match p with
  | NUpd | NSig | NRel _ | W0Read | WRelRet _ _ | WReg _ | WSig _ | WRel _ | WCDel _
  | TSet | TSig | TRel => true
  | _ => false
  end.
Definition presignal (p : pc) : bool :=
  match p with NSig | WSig _ | TSig => true | _ => false end.
Definition tk_holds (k : tkpc) : bool :=
  match k with TkHold | TkPreWait | TkExiting => true | _ => false end.
Definition tk_exited (k : tkpc) : bool :=
  match k with TkExiting | TkClosing | TkDone => true | _ => false end.
Definition tk_runnable (k : tkpc) : bool :=
  match k with TkStart | TkHold | TkWoken => true | _ => false end.

(* the tracking goroutine has work to do: termination to process, or a
   registered request whose previous index differs from the index *)
Definition needs_run (s : state) : bool :=
  (terminated s && negb (tk_exited (tk s))) || existsb (stale s) (reqs s).

Definition registered (p : pc) (q : N) : Prop :=
  p = WSig q \/ p = WRel q \/ p = WSel q \/ p = WCAcq q \/ p = WCDel q.

Definition pc_ok (s : state) (t : nat) (p : pc) : Prop :=
  (holding p = true -> mu s = Some (OThread t)) /\
  match p with
  | LRel _ => tl s = Some t
  | WAcq q | WReg q => q <> 0%N
  | WSig q | WRel q | WSel q | WCAcq q | WCDel q =>
      q <> 0%N /\ (In (t, q) (reqs s) \/ aget (resp s) t <> None)
  | TSig | TRel | TAwait => terminated s = true
  | _ => True
  end.

Definition signal_pending (s : state) : Prop :=
  exists h p c, mu s = Some (OThread h) /\ nth_error (thr s) h = Some (p, c) /\ presignal p = true.

Record Inv (i0 : N) (s : state) : Prop := mkInv {
  inv_pc : forall t p c, nth_error (thr s) t = Some (p, c) -> pc_ok s t p;
  inv_mu_thr : forall t, mu s = Some (OThread t) ->
               exists p c, nth_error (thr s) t = Some (p, c) /\ holding p = true;
  inv_mu_tk : mu s = Some OTracker <-> tk_holds (tk s) = true;
  inv_tl : forall t, tl s = Some t -> exists n c, nth_error (thr s) t = Some (LRel n, c);
  inv_reqs : forall t q, In (t, q) (reqs s) ->
             aget (resp s) t = None /\
             exists p c, nth_error (thr s) t = Some (p, c) /\ registered p q;
  inv_exit : tk_exited (tk s) = true -> reqs s = [] /\ terminated s = true;
  inv_done : tdone s = true <-> tk s = TkDone;
  inv_idx : index s = idx_at i0 (cnt s);
  inv_wake : needs_run s = true -> tk_runnable (tk s) = true \/ signal_pending s
}.

Lemma inv_init i0 n : Inv i0 (init_state i0 n).
Proof.
  constructor; simpl; try discriminate; try tauto; auto.
  - intros t p c H. apply nth_error_In in H. apply repeat_spec in H. inversion H; subst.
    split; simpl; auto; discriminate.
  - split; discriminate.
  - split; discriminate.
Qed.

Ltac unf := unfold set_thr, set_mu, set_tl, set_tk, set_reqs, set_resp, add_log, bump, set_term,
            set_tdone, mu_free in *.

(* a thread that holds the lock excludes the tracker and every other holder *)
Lemma holder_unique i0 s t p c :
  Inv i0 s -> nth_error (thr s) t = Some (p, c) -> holding p = true ->
  mu s = Some (OThread t) /\ tk_holds (tk s) = false.
Proof.
  intros I H Hh. pose proof (proj1 (inv_pc _ _ I _ _ _ H) Hh) as Hm. split; auto.
  destruct (tk_holds (tk s)) eqn:E; auto. apply (inv_mu_tk _ _ I) in E. congruence.
Qed.

(* ------------------------------------------------------------------ *)
(* preservation of the invariant by every step                         *)
(* ------------------------------------------------------------------ *)

Ltac flds := cbn [index cnt terminated mu tl tk tdone reqs resp thr log] in *.
Ltac unf2 := unfold set_thr, set_mu, set_tl, set_tk, set_reqs, set_resp, add_log, bump, set_term,
            set_tdone in *.

Lemma mu_free_true s : mu_free s = true -> mu s = None.
Proof. unfold mu_free. destruct (mu s); auto; discriminate. Qed.

Lemma tk_holds_signal k : tk_holds (signal_tk k) = tk_holds k.
Proof. destruct k; reflexivity. Qed.
Lemma tk_exited_signal k : tk_exited (signal_tk k) = tk_exited k.
Proof. destruct k; reflexivity. Qed.
Lemma signal_done k : signal_tk k = TkDone <-> k = TkDone.
Proof. destruct k; simpl; split; congruence. Qed.

Ltac tcases p Hs Hhold Hpc s' :=
  destruct p; cbn [thread_step] in Hs; unf2; simpl in Hhold; try specialize (Hhold eq_refl);
  simpl in Hpc;
  repeat match type of Hs with
         | (if ?b then _ else _) = _ => destruct b eqn:?
         | match ?x with _ => _ end = _ => destruct x eqn:?
         end; try discriminate; inversion Hs; subst s'; clear Hs; flds;
  repeat match goal with H : mu_free _ = true |- _ => apply mu_free_true in H end.


Lemma existsb_adel {A} (f : nat * A -> bool) l t : existsb f (adel l t) = true -> existsb f l = true.
Proof.
  induction l as [|[k v] l IH]; simpl; auto.
  destruct (Nat.eqb k t); simpl; intros H.
  - rewrite IH by auto. apply orb_true_r.
  - apply orb_true_iff in H. destruct H as [H|H]; [rewrite H; auto|rewrite IH by auto; apply orb_true_r].
Qed.

Lemma needs_run_eq s s' :
  terminated s' = terminated s -> tk_exited (tk s') = tk_exited (tk s) -> index s' = index s ->
  reqs s' = reqs s -> needs_run s' = needs_run s.
Proof. intros H1 H2 H3 H4. unfold needs_run, stale. rewrite H1, H2, H3, H4. reflexivity. Qed.

Lemma needs_run_adel s s' t :
  terminated s' = terminated s -> tk_exited (tk s') = tk_exited (tk s) -> index s' = index s ->
  reqs s' = adel (reqs s) t -> needs_run s' = true -> needs_run s = true.
Proof.
  intros H1 H2 H3 H4. unfold needs_run, stale. rewrite H1, H2, H3, H4. intros H.
  apply orb_true_iff in H. destruct H as [H|H]; [rewrite H; auto|].
  apply existsb_adel in H. rewrite H. apply orb_true_r.
Qed.

Lemma wake_other i0 s s' t p c p' c' :
  Inv i0 s -> nth_error (thr s) t = Some (p, c) ->
  presignal p = false ->
  thr s' = upd (thr s) t (p', c') -> tk s' = tk s ->
  (mu s' = mu s \/ mu s = None \/ mu s = Some (OThread t)) ->
  (needs_run s' = true -> needs_run s = true) ->
  needs_run s' = true -> tk_runnable (tk s') = true \/ signal_pending s'.
Proof.
  intros I Ht Hp Hthr Htk Hmu Hnr H. apply Hnr in H.
  destruct (inv_wake _ _ I H) as [R|(h & ph & ch & Hm & Hn & Hps)]; [left; rewrite Htk; auto|].
  right. destruct (Nat.eq_dec h t) as [->|Hne]; [rewrite Ht in Hn; inversion Hn; subst; congruence|].
  exists h, ph, ch. split; [|split; auto].
  - destruct Hmu as [Hmu|[Hmu|Hmu]]; congruence.
  - rewrite Hthr, (nth_upd _ _ _ _ _ Ht). destruct (Nat.eqb_spec h t); [congruence|auto].
Qed.

Lemma wake_signal i0 s s' t p c :
  Inv i0 s -> nth_error (thr s) t = Some (p, c) ->
  mu s = Some (OThread t) ->
  tk s' = signal_tk (tk s) ->
  (needs_run s' = true -> needs_run s = true) ->
  needs_run s' = true -> tk_runnable (tk s') = true \/ signal_pending s'.
Proof.
  intros I Ht Hmu Htk Hnr H. apply Hnr in H. left. rewrite Htk.
  pose proof (inv_mu_tk _ _ I) as Imt. pose proof (inv_exit _ _ I) as Iex.
  destruct (inv_wake _ _ I H) as [R|_]; [destruct (tk s); simpl in *; congruence|].
  destruct (tk s) eqn:E; simpl in *; auto.
  - assert (mu s = Some OTracker) by (apply Imt; auto). congruence.
  - assert (mu s = Some OTracker) by (apply Imt; auto). congruence.
  - destruct (Iex eq_refl) as [Hr Ht']. unfold needs_run in H. rewrite E, Hr in H. simpl in H.
    rewrite andb_false_r in H. discriminate.
  - destruct (Iex eq_refl) as [Hr Ht']. unfold needs_run in H. rewrite E, Hr in H. simpl in H.
    rewrite andb_false_r in H. discriminate.
Qed.

Lemma thread_step_inv i0 s t p c s' :
  Inv i0 s -> nth_error (thr s) t = Some (p, c) -> thread_step s t p c = Some s' -> Inv i0 s'.
Proof.
  intros I Ht Hs.
  pose proof (inv_pc _ _ I _ _ _ Ht) as [Hhold Hpc].
  pose proof (inv_mu_tk _ _ I) as Imt.
  pose proof (inv_exit _ _ I) as Iex.
  pose proof (inv_done _ _ I) as Idn.
  pose proof (inv_idx _ _ I) as Iix.
  tcases p Hs Hhold Hpc s'.
  all: constructor; flds.
  (* field 3 *)
  all: try (rewrite ?tk_holds_signal; split; intros; try congruence; try tauto;
            match goal with H : tk_holds _ = true |- _ => apply Imt in H; congruence end).
  (* field 7 *)
  all: try (rewrite ?signal_done; exact Idn).
  (* field 8 *)
  all: try exact Iix.
  all: try (simpl; congruence).
  (* field 6 *)
  all: try (rewrite ?tk_exited_signal; exact Iex).
  all: try (rewrite ?tk_exited_signal; intros Hx; destruct (Iex Hx) as [Hx1 Hx2]; rewrite ?Hx1; simpl; split; auto; congruence).
  (* field 2: mu_thr *)
  all: try (intros tz Hm; rewrite (nth_upd _ _ _ _ _ Ht); destruct (Nat.eqb_spec tz t) as [->|Hne];
    [ first [ solve [do 2 eexists; split; reflexivity]
            | destruct (inv_mu_thr _ _ I _ Hm) as (pz & cz & Hn & Hh); rewrite Ht in Hn; inversion Hn; subst; discriminate
            | congruence ]
    | first [ congruence | apply (inv_mu_thr _ _ I); congruence ] ]).
  (* field 4: tl *)
  all: try (intros tz Htl; rewrite (nth_upd _ _ _ _ _ Ht); destruct (Nat.eqb_spec tz t) as [->|Hne];
    [ first [ solve [do 2 eexists; reflexivity]
            | destruct (inv_tl _ _ I _ Htl) as (nz & cz & Hn); rewrite Ht in Hn; inversion Hn
            | congruence ]
    | first [ congruence | apply (inv_tl _ _ I); congruence ] ]).
  (* field 5: reqs *)
  all: try (intros tz q Hin; simpl in Hin; rewrite ?in_adel in Hin;
    try (destruct Hin as [Heq|Hin]; [inversion Heq; subst; clear Heq; rewrite (nth_upd _ _ _ _ _ Ht), Nat.eqb_refl, aget_adel_same; split; [reflexivity|do 2 eexists; split; [reflexivity|unfold registered; auto]]|]);
    try (destruct Hin as [Hin Hne0]);
    rewrite (nth_upd _ _ _ _ _ Ht);
    destruct (inv_reqs _ _ I _ _ Hin) as (Hr & pz & cz & Hn & Hreg);
    destruct (Nat.eqb_spec tz t) as [->|Hne];
    [ try congruence; rewrite Ht in Hn; inversion Hn; subst; clear Hn;
      unfold registered in Hreg; destruct Hreg as [Hreg|[Hreg|[Hreg|[Hreg|Hreg]]]]; try discriminate;
      inversion Hreg; subst; split; try (rewrite ?aget_adel_same; solve [auto]);
      try (do 2 eexists; split; try reflexivity; unfold registered; solve [auto 6])
    | split; [rewrite ?aget_adel_other by auto; exact Hr|eauto] ]).
  (* field 1: pc_ok *)
  all: try (intros tz pz cz Hn; rewrite (nth_upd _ _ _ _ _ Ht) in Hn;
    destruct (Nat.eqb_spec tz t) as [->|Hne];
    [ inversion Hn; subst; clear Hn; split; simpl; flds;
      try solve [intros; congruence | tauto | intuition auto | intuition congruence]
    | pose proof (inv_pc _ _ I _ _ _ Hn) as [Hh2 Hp2]; split; flds;
      [ intros Hx; apply Hh2 in Hx; congruence
      | destruct pz; simpl in *; try tauto; try congruence;
        rewrite ?in_adel, ?aget_adel_other by auto; intuition (try congruence) ] ]).
  (* field 9: wake *)
  all: try (intros Hnr; match type of Hnr with needs_run ?S = true =>
    first [ right; exists t; do 2 eexists; split; [first [reflexivity|exact Hhold]|split; [cbn [thr]; rewrite (nth_upd _ _ _ _ _ Ht), Nat.eqb_refl; reflexivity|reflexivity]]
          | apply (wake_signal i0 s S _ _ _ I Ht); [assumption|reflexivity| |exact Hnr];
            intros Hz; rewrite <- Hz; symmetry; apply needs_run_eq; cbn; rewrite ?tk_exited_signal; auto
          | eapply (wake_other i0 s S _ _ _ _ _ I Ht); [reflexivity|reflexivity|reflexivity|cbn; auto| |exact Hnr];
            first [ solve [intros Hz; rewrite <- Hz; symmetry; apply needs_run_eq; cbn; auto]
                  | apply (needs_run_adel _ _ t); reflexivity ] ] end).
Qed.

(* a step that only changes the pc / flag of a thread that does not hold the lock, to a pc that
   does not hold it, and the log *)
Lemma pc_only_inv i0 s t p c p' c' lg :
  Inv i0 s -> nth_error (thr s) t = Some (p, c) ->
  holding p = false -> holding p' = false ->
  (forall q, registered p q -> registered p' q) ->
  (match p with LRel _ => False | _ => True end) ->
  pc_ok s t p' ->
  Inv i0 (mkSt (index s) (cnt s) (terminated s) (mu s) (tl s) (tk s) (tdone s) (reqs s) (resp s)
               (upd (thr s) t (p', c')) lg).
Proof.
  intros I Ht Hp Hp' Hreg Hnl Hok. constructor; flds.
  - intros tz pz cz Hn. rewrite (nth_upd _ _ _ _ _ Ht) in Hn.
    destruct (Nat.eqb_spec tz t) as [->|Hne].
    + inversion Hn; subst. exact Hok.
    + exact (inv_pc _ _ I _ _ _ Hn).
  - intros tz Hm. destruct (inv_mu_thr _ _ I _ Hm) as (pz & cz & Hn & Hh).
    rewrite (nth_upd _ _ _ _ _ Ht). destruct (Nat.eqb_spec tz t) as [->|Hne]; [congruence|eauto].
  - exact (inv_mu_tk _ _ I).
  - intros tz Htl. destruct (inv_tl _ _ I _ Htl) as (nz & cz & Hn).
    rewrite (nth_upd _ _ _ _ _ Ht). destruct (Nat.eqb_spec tz t) as [->|Hne]; [|eauto].
    rewrite Ht in Hn. inversion Hn; subst. contradiction.
  - intros tz q Hin. destruct (inv_reqs _ _ I _ _ Hin) as (Hr & pz & cz & Hn & Hrg). split; auto.
    rewrite (nth_upd _ _ _ _ _ Ht). destruct (Nat.eqb_spec tz t) as [->|Hne]; [|eauto].
    rewrite Ht in Hn. inversion Hn; subst. eauto.
  - exact (inv_exit _ _ I).
  - exact (inv_done _ _ I).
  - exact (inv_idx _ _ I).
  - intros Hnr.
    match type of Hnr with needs_run ?S = true =>
      apply (wake_other i0 s S t p c p' c' I Ht) end; auto.
    destruct p; simpl in *; congruence.
Qed.

Lemma call_inv i0 s t o s' : Inv i0 s -> step s (ACall t o) = Some s' -> Inv i0 s'.
Proof.
  intros I H. simpl in H. destruct (nth_error (thr s) t) as [[p c]|] eqn:Ht; [|discriminate].
  destruct p; try discriminate. inversion H; subst s'; clear H. unfold add_log, set_thr; flds.
  apply (pc_only_inv i0 s t Idle c); auto.
  - destruct o as [| | | |q]; simpl; auto. destruct (N.eqb q 0); auto.
  - intros q Hr. unfold registered in Hr. intuition discriminate.
  - split; [destruct o as [| | | |q]; simpl; try discriminate; destruct (N.eqb q 0); discriminate|].
    destruct o as [| | | |q]; simpl; auto. destruct (N.eqb_spec q 0); simpl; auto.
Qed.

Lemma cancel_inv i0 s t s' : Inv i0 s -> step s (ACancel t) = Some s' -> Inv i0 s'.
Proof.
  intros I H. simpl in H. destruct (nth_error (thr s) t) as [[p c]|] eqn:Ht; [|discriminate].
  destruct (in_wait p) eqn:Ew; [|discriminate]. inversion H; subst s'; clear H.
  unfold add_log, set_thr; flds.
  constructor; flds; try apply I.
  - intros tz pz cz Hn. rewrite (nth_upd _ _ _ _ _ Ht) in Hn.
    destruct (Nat.eqb_spec tz t) as [->|Hne].
    + inversion Hn; subst. exact (inv_pc _ _ I _ _ _ Ht).
    + exact (inv_pc _ _ I _ _ _ Hn).
  - intros tz Hm. destruct (inv_mu_thr _ _ I _ Hm) as (pz & cz & Hn & Hh).
    rewrite (nth_upd _ _ _ _ _ Ht). destruct (Nat.eqb_spec tz t) as [->|Hne]; [|eauto].
    rewrite Ht in Hn. inversion Hn; subst. eauto.
  - intros tz Htl. destruct (inv_tl _ _ I _ Htl) as (nz & cz & Hn).
    rewrite (nth_upd _ _ _ _ _ Ht). destruct (Nat.eqb_spec tz t) as [->|Hne]; [|eauto].
    rewrite Ht in Hn. inversion Hn; subst. eauto.
  - intros tz q Hin. destruct (inv_reqs _ _ I _ _ Hin) as (Hr & pz & cz & Hn & Hrg). split; auto.
    rewrite (nth_upd _ _ _ _ _ Ht). destruct (Nat.eqb_spec tz t) as [->|Hne]; [|eauto].
    rewrite Ht in Hn. inversion Hn; subst. eauto.
  - intros Hnr. change (needs_run s = true) in Hnr.
    destruct (inv_wake _ _ I Hnr) as [R|(h & ph & ch & Hm & Hn & Hps)]; [left; auto|right].
    destruct (Nat.eq_dec h t) as [->|Hne].
    + rewrite Ht in Hn. inversion Hn; subst. exists t, ph, true. flds.
      rewrite (nth_upd _ _ _ _ _ Ht), Nat.eqb_refl. auto.
    + exists h, ph, ch. flds. rewrite (nth_upd _ _ _ _ _ Ht).
      destruct (Nat.eqb_spec h t); [congruence|auto].
Qed.

Lemma selcancel_inv i0 s t s' : Inv i0 s -> step s (ASelCancel t) = Some s' -> Inv i0 s'.
Proof.
  intros I H. simpl in H. unfold sel_cancel in H.
  destruct (nth_error (thr s) t) as [[p c]|] eqn:Ht; [|discriminate].
  destruct p; try discriminate. destruct c; [|discriminate]. inversion H; subst s'; clear H.
  unfold set_thr. apply (pc_only_inv i0 s t (WSel p) true); auto.
  - intros q Hr. unfold registered in *.
    destruct Hr as [Hr|[Hr|[Hr|[Hr|Hr]]]]; try discriminate. inversion Hr; subst; auto 6.
  - pose proof (inv_pc _ _ I _ _ _ Ht) as [_ Hp]. split; [discriminate|exact Hp].
Qed.

Lemma reqs_key_unique i0 s t q q' : Inv i0 s -> In (t, q) (reqs s) -> In (t, q') (reqs s) -> q = q'.
Proof.
  intros I H1 H2. destruct (inv_reqs _ _ I _ _ H1) as (_ & p1 & c1 & Hn1 & R1).
  destruct (inv_reqs _ _ I _ _ H2) as (_ & p2 & c2 & Hn2 & R2).
  rewrite Hn1 in Hn2. inversion Hn2; subst. unfold registered in *.
  destruct R1 as [R1|[R1|[R1|[R1|R1]]]]; destruct R2 as [R2|[R2|[R2|[R2|R2]]]]; congruence.
Qed.

Lemma existsb_filter_neg {A} (f : A -> bool) l : existsb f (filter (fun x => negb (f x)) l) = false.
Proof.
  induction l as [|x l IH]; simpl; auto. destruct (f x) eqn:E; simpl; auto. rewrite E. auto.
Qed.

Lemma track_inv i0 s s' : Inv i0 s -> track_step s = Some s' -> Inv i0 s'.
Proof.
  intros I H. unfold track_step in H.
  pose proof (inv_mu_tk _ _ I) as Imt. pose proof (inv_exit _ _ I) as Iex.
  pose proof (inv_done _ _ I) as Idn.
  assert (Hacq : mu_free s = true -> tk s = TkStart \/ tk s = TkWoken ->
                 Inv i0 (set_tk (set_mu s (Some OTracker)) TkHold)).
  { intros Hf Hk. apply mu_free_true in Hf. unf2. constructor; flds; try apply I.
    - intros tz pz cz Hn. destruct (inv_pc _ _ I _ _ _ Hn) as [Hh Hp]. split; flds; auto.
      intros Hx. apply Hh in Hx. congruence.
    - congruence.
    - tauto.
    - intros Hx. discriminate.
    - split; [intros Hx; apply Idn in Hx; destruct Hk; congruence|discriminate].
    - auto. }
  assert (Hrel : forall k, tk_holds (tk s) = true -> tk_holds k = false ->
                 (tk_exited k = true -> tk_exited (tk s) = true) ->
                 (k = TkDone -> False) ->
                 (needs_run (set_tk (set_mu s None) k) = true -> False) ->
                 Inv i0 (set_tk (set_mu s None) k)).
  { intros k Hk Hk' Hex Hnd Hnr. assert (Hm : mu s = Some OTracker) by (apply Imt; auto).
    unf2. constructor; flds; try apply I.
    - intros tz pz cz Hn. destruct (inv_pc _ _ I _ _ _ Hn) as [Hh Hp]. split; flds; auto.
      intros Hx. apply Hh in Hx. congruence.
    - discriminate.
    - split; [discriminate|congruence].
    - intros Hx. apply Iex. auto.
    - split; [|intros Hx; contradiction]. intros Hx. apply Idn in Hx.
      rewrite Hx in Hk. discriminate.
    - intros Hx. contradiction. }
  destruct (tk s) eqn:Etk.
  - (* TkStart *) destruct (mu_free s) eqn:Ef; [|discriminate]. inversion H; subst. auto.
  - (* TkHold *)
    assert (Hm : mu s = Some OTracker) by (apply Imt; auto).
    destruct (terminated s) eqn:Et; inversion H; subst s'; clear H; unf2; constructor; flds;
      try apply I; try tauto.
    + (* pc_ok, terminated *)
      intros tz pz cz Hn. destruct (inv_pc _ _ I _ _ _ Hn) as [Hh Hp]. split; flds; auto.
      destruct pz; simpl in *; auto; destruct Hp as [Hq Hp]; split; auto; right;
        unfold answer_all; rewrite (aget_map_const (fun _ => (index s, true)));
        (destruct (find _ (reqs s)) eqn:Ef; [simpl; congruence|]);
        (destruct Hp as [Hp|Hp]; [|exact Hp]); rewrite find_key_none in Ef; exfalso; eapply Ef; eauto.
    + intros tz q [].
    + split; [intros Hx; apply Idn in Hx; congruence|discriminate].
    + unfold needs_run; flds. simpl. rewrite andb_false_r. discriminate.
    + (* pc_ok, not terminated *)
      intros tz pz cz Hn. destruct (inv_pc _ _ I _ _ _ Hn) as [Hh Hp]. split; flds; auto.
      destruct pz; simpl in *; auto; destruct Hp as [Hq Hp]; split; auto;
        unfold answer_stale, keep_current; rewrite (aget_map_const (fun _ => (index s, false)));
        (destruct (find _ (filter (stale s) (reqs s))) eqn:Ef; [right; simpl; congruence|]);
        (destruct Hp as [Hp|Hp]; [|right; exact Hp]); left; rewrite find_key_none in Ef;
        apply filter_In; split; auto;
        (destruct (stale s (tz, p)) eqn:Es; auto); exfalso; eapply Ef; apply filter_In; eauto.
    + (* reqs *)
      intros tz q Hin. unfold keep_current in Hin. apply filter_In in Hin. destruct Hin as [Hin Hs].
      destruct (inv_reqs _ _ I _ _ Hin) as (Hr & Hex). split; auto.
      unfold answer_stale. rewrite (aget_map_const (fun _ => (index s, false))).
      destruct (find _ (filter (stale s) (reqs s))) eqn:Ef; auto.
      apply find_key_some in Ef. destruct Ef as [Ef1 Ef2]. apply filter_In in Ef1.
      destruct p as [tz' q']. simpl in Ef2. subst tz'. destruct Ef1 as [Ef1 Ef3].
      rewrite (reqs_key_unique _ _ _ _ _ I Hin Ef1) in Hs. rewrite Ef3 in Hs. discriminate.
    + intros Hx. discriminate.
    + split; [intros Hx; apply Idn in Hx; congruence|discriminate].
    + unfold needs_run; flds. rewrite Et. simpl. unfold keep_current.
      replace (stale _) with (stale s) by reflexivity.
      rewrite existsb_filter_neg. discriminate.
  - (* TkPreWait *) inversion H; subst s'. apply Hrel; auto; try discriminate.
    intros Hx. assert (Hn : needs_run s = true).
    { rewrite <- Hx. symmetry. apply needs_run_eq; unf2; flds; rewrite ?Etk; reflexivity. }
    destruct (inv_wake _ _ I Hn) as [R|(h & ph & ch & Hm & _)].
    + rewrite Etk in R. discriminate.
    + assert (mu s = Some OTracker) by (apply Imt; rewrite ?Etk; auto). congruence.
  - discriminate.
  - (* TkWoken *) destruct (mu_free s) eqn:Ef; [|discriminate]. inversion H; subst. auto.
  - (* TkExiting *) inversion H; subst s'. apply Hrel; auto; try discriminate.
    intros Hx. destruct (Iex eq_refl) as [Hr Ht]. unfold needs_run in Hx. unf2. flds.
    rewrite Hr in Hx. simpl in Hx. rewrite andb_false_r in Hx. discriminate.
  - (* TkClosing *) inversion H; subst s'; clear H. unf2. constructor; flds; try apply I; try tauto.
    + intros Hx. destruct (Iex eq_refl) as [Hr Ht]. unfold needs_run in Hx. flds.
      rewrite Hr in Hx. simpl in Hx. rewrite andb_false_r in Hx. discriminate.
  - discriminate.
Qed.

Lemma step_inv i0 s a s' : Inv i0 s -> step s a = Some s' -> Inv i0 s'.
Proof.
  intros I H. destruct a.
  - eapply call_inv; eauto.
  - simpl in H. unfold step_thread in H.
    destruct (nth_error (thr s) t) as [[p c]|] eqn:Ht; [|discriminate].
    eapply thread_step_inv; eauto.
  - eapply selcancel_inv; eauto.
  - eapply cancel_inv; eauto.
  - eapply track_inv; eauto.
  - simpl in H. destruct (quiescent s); [|discriminate]. inversion H; subst s'.
    unfold add_log. constructor; flds; apply I.
Qed.

Lemma run_inv i0 acts : forall s s', Inv i0 s -> run s acts = Some s' -> Inv i0 s'.
Proof.
  induction acts as [|a r IH]; intros s s' I H; simpl in H.
  - inversion H; subst; auto.
  - destruct (step s a) eqn:E; [|discriminate]. eapply IH; [|exact H]. eapply step_inv; eauto.
Qed.

Lemma run_app s a1 a2 :
  run s (a1 ++ a2) = match run s a1 with Some s1 => run s1 a2 | None => None end.
Proof.
  revert s. induction a1 as [|a r IH]; intros s; simpl; auto.
  destruct (step s a); auto.
Qed.

(* ------------------------------------------------------------------ *)
(* progress: what a state in which nothing can move looks like         *)
(* ------------------------------------------------------------------ *)

Lemma holding_enabled s t p c : holding p = true -> thread_step s t p c <> None.
Proof.
  destruct p; simpl; try discriminate; intros _; try discriminate.
  - destruct (terminated s); discriminate.
  - destruct (terminated s); discriminate.
Qed.

Lemma quiescent_thread s t p c :
  quiescent s = true -> nth_error (thr s) t = Some (p, c) ->
  thread_step s t p c = None /\ sel_cancel s t = None.
Proof.
  intros Q Ht. unfold quiescent in Q. apply andb_true_iff in Q. destruct Q as [_ Q].
  rewrite forallb_forall in Q. assert (Hl : t < length (thr s)) by (apply nth_error_Some; congruence).
  specialize (Q t). rewrite in_seq in Q. specialize (Q (conj (Nat.le_0_l _) Hl)).
  apply andb_true_iff in Q. destruct Q as [Q1 Q2]. unfold step_thread in Q1. rewrite Ht in Q1.
  split.
  - destruct (thread_step s t p c); [discriminate|auto].
  - destruct (sel_cancel s t); [discriminate|auto].
Qed.

Definition blocked_ok (s : state) (t : nat) (p : pc) (c : bool) : Prop :=
  p = Idle \/
  exists q, p = WSel q /\ c = false /\ aget (resp s) t = None /\ In (t, q) (reqs s) /\
            q = index s /\ terminated s = false.

Lemma stale_needs_run s t q : In (t, q) (reqs s) -> q <> index s -> needs_run s = true.
Proof.
  intros Hin Hq. unfold needs_run. apply orb_true_iff. right. apply existsb_exists.
  exists (t, q). split; auto. unfold stale. simpl. destruct (N.eqb_spec q (index s)); auto.
Qed.

Lemma quiescent_shape i0 s :
  Inv i0 s -> quiescent s = true ->
  mu s = None /\ (tk s = TkWaiting \/ tk s = TkDone) /\
  forall t p c, nth_error (thr s) t = Some (p, c) -> blocked_ok s t p c.
Proof.
  intros I Q.
  assert (Htk : track_step s = None).
  { unfold quiescent in Q. apply andb_true_iff in Q. destruct Q as [Q _].
    destruct (track_step s); [discriminate|auto]. }
  assert (Hmu : mu s = None).
  { destruct (mu s) as [[|h]|] eqn:Em; auto.
    - apply (inv_mu_tk _ _ I) in Em. unfold track_step in Htk.
      destruct (tk s); try discriminate; destruct (terminated s); discriminate.
    - destruct (inv_mu_thr _ _ I _ Em) as (p & c & Hn & Hh).
      destruct (quiescent_thread _ _ _ _ Q Hn) as [Hs _]. exfalso.
      exact (holding_enabled _ _ _ _ Hh Hs). }
  assert (Hk : tk s = TkWaiting \/ tk s = TkDone).
  { unfold track_step, mu_free in Htk. rewrite Hmu in Htk.
    destruct (tk s); try discriminate; auto; destruct (terminated s); discriminate. }
  assert (Hnr : needs_run s = false).
  { destruct (needs_run s) eqn:En; auto. destruct (inv_wake _ _ I En) as [R|(h & ph & ch & Hm & _)].
    - destruct Hk as [Hk|Hk]; rewrite Hk in R; discriminate.
    - congruence. }
  split; auto. split; auto.
  intros t p c Ht. destruct (quiescent_thread _ _ _ _ Q Ht) as [Hs Hc].
  destruct (inv_pc _ _ I _ _ _ Ht) as [Hh Hp].
  destruct (holding p) eqn:Eh; [exfalso; exact (holding_enabled _ _ _ _ Eh Hs)|].
  unfold blocked_ok. destruct p as [| n | n | | | | e | | | i e | q | q | q | q | q | q | q | | | | |]; auto; simpl in Hs, Eh; try discriminate;
    unfold mu_free in Hs; rewrite ?Hmu in Hs; try discriminate.
  - (* LAcq *) exfalso. destruct (tl s) as [h|] eqn:Etl; [|discriminate].
    destruct (inv_tl _ _ I _ Etl) as (nz & cz & Hn).
    destruct (quiescent_thread _ _ _ _ Q Hn) as [Hs' _]. simpl in Hs'.
    destruct nz; discriminate.
  - (* LRel *) exfalso. destruct n; discriminate.
  - (* WSel *) right. exists q. simpl in Hp. destruct Hp as [Hq Hp].
    destruct (aget (resp s) t) as [[i tm]|] eqn:Er; [discriminate|].
    destruct Hp as [Hp|Hp]; [|congruence].
    assert (c = false).
    { unfold sel_cancel in Hc. rewrite Ht in Hc. destruct c; [discriminate|auto]. }
    assert (q = index s).
    { destruct (N.eq_dec q (index s)) as [|Hne]; auto. rewrite (stale_needs_run _ _ _ Hp Hne) in Hnr. discriminate. }
    assert (terminated s = false).
    { destruct (terminated s) eqn:Et; auto. exfalso. destruct Hk as [Hk|Hk].
      - unfold needs_run in Hnr. rewrite Et, Hk in Hnr. discriminate.
      - destruct (inv_exit _ _ I) as [Hr _]; [rewrite Hk; auto|]. rewrite Hr in Hp. inversion Hp. }
    repeat split; auto.
  - (* TAwait *) exfalso. simpl in Hp. destruct (tdone s) eqn:Ed; [discriminate|].
    destruct Hk as [Hk|Hk].
    + unfold needs_run in Hnr. rewrite Hp, Hk in Hnr. discriminate.
    + apply (inv_done _ _ I) in Hk. congruence.
Qed.

(* ------------------------------------------------------------------ *)
(* the monitor accepts every history of the transition system          *)
(* ------------------------------------------------------------------ *)

Definition pre_notify (p : pc) : bool :=
  match p with LAcq true | LRel true | NAcq | NUpd => true | _ => false end.
Definition post_notify (p : pc) : bool :=
  match p with NSig | NRel true => true | _ => false end.
Definition b2n (b : bool) : nat := if b then 1 else 0.
Fixpoint countp (f : pc -> bool) (l : list (pc * bool)) : nat :=
  match l with [] => 0 | x :: r => b2n (f (fst x)) + countp f r end.

Lemma countp_upd f l t p cf p' cf' :
  nth_error l t = Some (p, cf) ->
  countp f (upd l t (p', cf')) + b2n (f p) = countp f l + b2n (f p').
Proof.
  revert t. induction l as [|x r IH]; intros [|t] H; simpl in *; try discriminate.
  - inversion H; subst. simpl. lia.
  - specialize (IH _ H). lia.
Qed.

Lemma countp_repeat f n cf : f Idle = false -> countp f (repeat (Idle, cf) n) = 0.
Proof. intros H. induction n; simpl; auto. rewrite H, IHn. reflexivity. Qed.

Lemma aget_none_notin {A} (l : list (nat * A)) t : aget l t = None -> ~ In t (map fst l).
Proof.
  induction l as [|[k v] l IH]; simpl; auto. destruct (Nat.eqb_spec k t); [discriminate|].
  intros H [E|E]; [congruence|]. exact (IH H E).
Qed.

Lemma aget_in_nodup {A} (l : list (nat * A)) t v :
  NoDup (map fst l) -> In (t, v) l -> aget l t = Some v.
Proof.
  induction l as [|[k w] l IH]; simpl; intros N H; [contradiction|].
  inversion N; subst. destruct H as [H|H].
  - inversion H; subst. rewrite Nat.eqb_refl. reflexivity.
  - destruct (Nat.eqb_spec k t); [|auto]. subst. exfalso. apply H2.
    change t with (fst (t, v)). apply in_map. exact H.
Qed.

Lemma adel_keys_incl {A} (l : list (nat * A)) t x : In x (map fst (adel l t)) -> In x (map fst l).
Proof.
  induction l as [|[k w] l IH]; simpl; auto. destruct (Nat.eqb k t); simpl; intuition.
Qed.

Lemma nodup_adel {A} (l : list (nat * A)) t : NoDup (map fst l) -> NoDup (map fst (adel l t)).
Proof.
  induction l as [|[k w] l IH]; simpl; intros N; auto. inversion N; subst.
  destruct (Nat.eqb k t); simpl; auto. constructor; auto.
  intros H. apply H1. eapply adel_keys_incl; eauto.
Qed.

Lemma adel_notin {A} (l : list (nat * A)) t : ~ In t (map fst (adel l t)).
Proof. apply aget_none_notin. apply aget_adel_same. Qed.

Lemma map_fst_refresh {A B} (f : A -> B) (l : list (nat * A)) :
  map fst (map (fun x => (fst x, f (snd x))) l) = map fst l.
Proof. induction l as [|[k v] l IH]; simpl; congruence. Qed.

Section Sim.
Variable c : mcfg.
Let i0 := c_init c.

Definition ret_ok (s : state) (m : mstate) (w : winfo) (i : N) (e : werr) : Prop :=
  exists k, w_floor w <= k <= cnt s /\ i = idx_at i0 k /\
    (e = WTerminated -> m_tcall m = true) /\
    (e = WCancelled -> w_canc w = true) /\
    (e = WOk -> (w_prev w = 0%N \/ i <> w_prev w) /\ w_aft w = false).

Definition reg_rel (s : state) (m : mstate) (t : nat) (q : N) (w : winfo) : Prop :=
  w_prev w = q /\ w_aft w = false /\
  forall i tm, aget (resp s) t = Some (i, tm) -> ret_ok s m w i (err_of_term tm).

Definition wait_rel (s : state) (m : mstate) (t : nat) (p : pc) (w : winfo) : Prop :=
  w_floor w <= cnt s /\
  (w_due w <> None -> urgent c m w = true) /\
  (w_aft w = true -> m_tret m = true) /\
  match p with
  | W0Acq | W0Read => w_prev w = 0%N
  | WRelRet i e => ret_ok s m w i e
  | WAcq q | WReg q => w_prev w = q
  | WSig q | WRel q | WSel q => reg_rel s m t q w
  | WCAcq q | WCDel q => w_canc w = true /\ reg_rel s m t q w
  | _ => False
  end.

Definition op_rel (s : state) (m : mstate) (t : nat) (p : pc) (cf : bool) (o : option oop) : Prop :=
  match p with
  | Idle => o = None
  | LAcq true | LRel true | NAcq | NUpd => exists nf, o = Some (OpNotify nf) /\ nf <= cnt s
  | NSig | NRel true => exists nf, o = Some (OpNotify nf) /\ S nf <= cnt s
  | NRel false => exists nf, o = Some (OpNotify nf) /\ m_tcall m = true
  | LAcq false | LRel false => o = Some OpPlain
  | TAcq | TSet | TSig | TRel | TAwait => o = Some OpTerm /\ m_tcall m = true
  | _ => exists w, o = Some (OpWait w) /\ w_canc w = cf /\ wait_rel s m t p w
  end.

Record Sim (s : state) (m : mstate) : Prop := mkSim {
  sim_thr : forall t, match nth_error (thr s) t with
                      | Some (p, cf) => op_rel s m t p cf (aget (m_open m) t)
                      | None => aget (m_open m) t = None
                      end;
  sim_nodup : NoDup (map fst (m_open m));
  sim_lo : m_lo m + countp post_notify (thr s) <= cnt s;
  sim_hi : cnt s + countp pre_notify (thr s) <= m_hi m;
  sim_hi_eq : m_hi m = count_notifying (history s);
  sim_maxk : m_maxk m <= cnt s;
  sim_term : terminated s = true -> m_tcall m = true;
  sim_tret : m_tret m = true -> terminated s = true
}.

(* m' knows at least as much as m *)
Definition mext (m m' : mstate) : Prop :=
  m_floor m <= m_floor m' /\ (m_tcall m = true -> m_tcall m' = true) /\
  (m_tret m = true -> m_tret m' = true).

Lemma mext_refl m : mext m m.
Proof. unfold mext; auto. Qed.

Lemma stale_mono m m' p :
  m_floor m <= m_floor m' -> certainly_stale c m p = true -> certainly_stale c m' p = true.
Proof.
  unfold certainly_stale. intros Hf H.
  destruct (find_k (c_init c) p (m_floor m) (S (c_total c) - m_floor m)) eqn:E; [discriminate|].
  rewrite find_k_none in E.
  destruct (find_k (c_init c) p (m_floor m') (S (c_total c) - m_floor m')) eqn:E'; auto.
  apply find_k_some in E'. destruct E' as [E1 [E2 _]]. exfalso. apply (E n); auto. lia.
Qed.

Lemma urgent_mono m m' w : mext m m' -> urgent c m w = true -> urgent c m' w = true.
Proof.
  intros [Hf [_ Ht]] H. unfold urgent in *.
  repeat (apply orb_true_iff in H; destruct H as [H|H]); rewrite ?H, ?orb_true_r; auto.
  - rewrite (Ht H), ?orb_true_r. auto.
  - rewrite (stale_mono _ _ _ Hf H), ?orb_true_r. auto.
Qed.

Lemma urgent_canc m w d :
  urgent c m (mkW (w_prev w) (w_floor w) true (w_aft w) d) = true.
Proof. unfold urgent. simpl. rewrite orb_true_r. reflexivity. Qed.

Lemma urgent_due m w d :
  urgent c m (mkW (w_prev w) (w_floor w) (w_canc w) (w_aft w) d) = urgent c m w.
Proof. reflexivity. Qed.

Lemma ret_ok_mono s s' m m' w i e :
  cnt s <= cnt s' -> mext m m' -> ret_ok s m w i e -> ret_ok s' m' w i e.
Proof.
  intros Hc [_ [Ht _]] (k & Hk & Hi & H1 & H2 & H3). exists k. repeat split; auto; try lia; apply H3; auto.
Qed.

(* the relation of a thread that does not move is kept when the state and
   the monitor advance *)
Lemma op_rel_frame s s' m m' t p cf o :
  cnt s <= cnt s' -> aget (resp s') t = aget (resp s) t -> mext m m' ->
  op_rel s m t p cf o -> op_rel s' m' t p cf o.
Proof.
  intros Hc Hr Hx H. pose proof Hx as [Hf [Htc Htr]].
  unfold op_rel in *.
  destruct p; try (destruct n); try (destruct eff); auto;
    try solve [destruct H as (nf & Ho & Hn); exists nf; split; [exact Ho|first [lia|auto]]];
    try solve [destruct H as [Ho Hn]; split; auto];
    destruct H as (w & Ho & Hcf & Hfl & Hdue & Haft & Hm); exists w; split; auto; split; auto;
    unfold wait_rel; (split; [lia|]); (split; [intros Hd; eapply urgent_mono; eauto|]);
    (split; [auto|]); auto;
    try (eapply ret_ok_mono; eauto; fail);
    unfold reg_rel in *; rewrite Hr; intuition auto; eapply ret_ok_mono; eauto.
Qed.

Lemma refresh_urgent tm m w : urgent c (refresh c tm m) w = urgent c m w.
Proof. reflexivity. Qed.

Lemma wait_rel_due s m t p w d :
  wait_rel s m t p w -> (d <> None -> urgent c m w = true) ->
  wait_rel s m t p (mkW (w_prev w) (w_floor w) (w_canc w) (w_aft w) d).
Proof.
  unfold wait_rel. intros (Hfl & Hdue & Haft & Hm) Hd. simpl.
  split; [exact Hfl|]. split; [exact Hd|]. split; [exact Haft|]. destruct p; exact Hm.
Qed.

Lemma op_rel_refresh s m tm t p cf o :
  op_rel s m t p cf o ->
  op_rel s (refresh c tm m) t p cf (option_map (refresh_one c m tm) o).
Proof.
  intros H. unfold op_rel in *.
  destruct p; try (destruct n); try (destruct eff); try (subst o; reflexivity);
    try solve [destruct H as (nf & Ho & Hn); subst o; exists nf; split; [reflexivity|exact Hn]];
    try solve [destruct H as [H H']; subst o; split; [reflexivity|exact H']];
    destruct H as (w & Ho & Hcf & Hw); subst o; simpl;
    (destruct (w_due w) eqn:Ed;
     [ exists w; split; [reflexivity|]; split; [auto|]; exact Hw
     | destruct (urgent c m w) eqn:Eu;
       [ eexists; split; [reflexivity|]; split; [exact Hcf|];
         apply (wait_rel_due s m); [exact Hw|intros _; exact Eu]
       | exists w; split; [reflexivity|]; split; [auto|]; exact Hw ] ]).
Qed.

(* the thread's entry in the monitor after an event that leaves it alone *)
Lemma refresh_open tm m t :
  aget (m_open (refresh c tm m)) t = option_map (refresh_one c m tm) (aget (m_open m) t).
Proof. unfold refresh. simpl. apply aget_map_snd. Qed.

Lemma sim_refresh s m tm : Sim s m -> Sim s (refresh c tm m).
Proof.
  intros S. constructor; try apply S.
  - intros t. pose proof (sim_thr _ _ S t) as H. rewrite refresh_open.
    destruct (nth_error (thr s) t) as [[p cf]|].
    + apply op_rel_refresh. exact H.
    + rewrite H. reflexivity.
  - unfold refresh. simpl. rewrite map_fst_refresh. apply S.
Qed.

Lemma sim_build s m s' m1 t p cf p' cf' :
  Sim s m -> nth_error (thr s) t = Some (p, cf) ->
  thr s' = upd (thr s) t (p', cf') ->
  cnt s <= cnt s' ->
  (forall t', t' <> t -> aget (resp s') t' = aget (resp s) t') ->
  mext m m1 ->
  (forall t', t' <> t -> aget (m_open m1) t' = aget (m_open m) t') ->
  NoDup (map fst (m_open m1)) ->
  op_rel s' m1 t p' cf' (aget (m_open m1) t) ->
  m_lo m1 + countp post_notify (thr s') <= cnt s' ->
  cnt s' + countp pre_notify (thr s') <= m_hi m1 ->
  m_hi m1 = count_notifying (history s') ->
  m_maxk m1 <= cnt s' ->
  (terminated s' = true -> m_tcall m1 = true) ->
  (m_tret m1 = true -> terminated s' = true) ->
  Sim s' m1.
Proof.
  intros S Ht Hthr Hc Hr Hx Ho Hnd Hop Hlo Hhi Hheq Hmk Htm Htr.
  constructor; auto.
  intros t'. rewrite Hthr, (nth_upd _ _ _ _ _ Ht).
  destruct (Nat.eqb_spec t' t) as [->|Hne]; [exact Hop|].
  pose proof (sim_thr _ _ S t') as H. rewrite (Ho _ Hne).
  destruct (nth_error (thr s) t') as [[pz cz]|]; [|exact H].
  eapply op_rel_frame; eauto.
Qed.


Lemma count_notifying_snoc l e :
  count_notifying (l ++ [e]) = count_notifying l + b2n (is_notifying e).
Proof.
  unfold count_notifying. rewrite filter_app, app_length. simpl.
  destruct (is_notifying e); simpl; lia.
Qed.

Lemma late_zero d : late c d 0 = false.
Proof. unfold late. destruct (c_slack c); auto. destruct d; auto. apply N.ltb_ge. lia. Qed.

Lemma check_ret_ok s m w i e :
  ret_ok s m w i e -> cnt s <= m_hi m ->
  exists k', check_wait_ret c m w i e 0 = inr k' /\ k' <= cnt s.
Proof.
  intros (k & Hk & Hi & H1 & H2 & H3) Hhi. unfold check_wait_ret.
  assert (E1 : (werr_eqb e WTerminated && negb (m_tcall m)) || (werr_eqb e WCancelled && negb (w_canc w)) = false).
  { destruct e; simpl; auto; [rewrite H1|rewrite H2]; auto. }
  rewrite E1.
  assert (E2 : werr_eqb e WOk && negb (N.eqb (w_prev w) 0) && N.eqb i (w_prev w) = false).
  { destruct e; simpl; auto. destruct (H3 eq_refl) as [[Hp|Hp] _].
    - rewrite Hp. reflexivity.
    - destruct (N.eqb_spec i (w_prev w)); [contradiction|]. apply andb_false_r. }
  rewrite E2.
  destruct (find_k_complete (c_init c) i (w_floor w) (S (m_hi m) - w_floor w) k) as (k' & Hf & Hk' & _);
    [lia|symmetry; exact Hi|].
  rewrite Hf.
  assert (E3 : werr_eqb e WOk && w_aft w = false).
  { destruct e; simpl; auto. destruct (H3 eq_refl) as [_ Ha]. exact Ha. }
  rewrite E3, late_zero. exists k'. split; auto. lia.
Qed.

Ltac counts SS Ht :=
  pose proof (sim_lo _ _ SS); pose proof (sim_hi _ _ SS); pose proof (sim_maxk _ _ SS);
  try match goal with
  | |- context [upd _ _ (?p', ?cf')] =>
      let H1 := fresh in let H2 := fresh in
      pose proof (countp_upd post_notify _ _ _ _ p' cf' Ht) as H1;
      pose proof (countp_upd pre_notify _ _ _ _ p' cf' Ht) as H2;
      simpl b2n in *; simpl post_notify in *; simpl pre_notify in *; simpl b2n in *
  end; lia.

Ltac ret_build SS Ht :=
  match goal with |- Sim _ ?M1 => eapply (sim_build _ _ _ M1 _ _ _ _ _ SS Ht) end; flds;
  [ reflexivity | lia | intros; rewrite ?aget_adel_other; auto
  | unfold mext, m_floor; cbn [m_lo m_maxk m_tcall m_tret]; repeat split; auto; try lia
  | intros; simpl; apply aget_adel_other; auto
  | simpl; apply nodup_adel; apply SS
  | simpl; apply aget_adel_same
  | simpl m_lo; try solve [counts SS Ht]
  | simpl m_hi; try solve [counts SS Ht]
  | unfold history; simpl; rewrite count_notifying_snoc; simpl; rewrite Nat.add_0_r;
    exact (sim_hi_eq _ _ SS)
  | simpl m_maxk; try solve [counts SS Ht]
  | simpl; auto
  | simpl; auto ].

Lemma sim_thread_step s t p cf s' m :
  Inv i0 s -> Sim s m -> nth_error (thr s) t = Some (p, cf) ->
  thread_step s t p cf = Some s' ->
  (log s' = log s /\ Sim s' m) \/
  (exists e m', log s' = e :: log s /\ mon_event c m e = MOk m' /\ Sim s' m').
Proof.
  intros I SS Ht Hs.
  pose proof (sim_thr _ _ SS t) as Hop. rewrite Ht in Hop.
  pose proof (inv_pc _ _ I _ _ _ Ht) as [Hhold Hpc].
  pose proof (inv_idx _ _ I) as Iix.
  pose proof (sim_term _ _ SS) as Stm. pose proof (sim_tret _ _ SS) as Str.
  tcases p Hs Hhold Hpc s'.
  all: try (left; split; [reflexivity|];
    eapply (sim_build _ _ _ _ _ _ _ _ _ SS Ht); flds;
    [ reflexivity | try lia | intros; rewrite ?aget_adel_other; auto | apply mext_refl | auto | apply SS
    | | try solve [counts SS Ht] | try solve [counts SS Ht] | exact (sim_hi_eq _ _ SS)
    | try solve [counts SS Ht] | try assumption | try assumption ]).
  (* op_rel of the new pc, quiet steps *)
  all: try (unfold op_rel in Hop |- *; simpl in Hop |- *;
            first [ solve [auto | tauto | destruct n; auto]
                  | solve [try destruct n; auto; destruct Hop as (nf & Ho & Hn); exists nf;
                           split; [exact Ho|first [lia|auto]]]
                  | destruct Hop as (w & Ho & Hcf & Hfl & Hdue & Haft & Hm); exists w;
                    split; [exact Ho|]; split; [exact Hcf|]; unfold wait_rel; flds;
                    split; [lia|]; split; [exact Hdue|]; split; [exact Haft|];
                    first [ exact Hm
                          | unfold ret_ok; flds; exists (cnt s); split; [lia|]; split; [exact Iix|];
                            (destruct (terminated s) eqn:Et; simpl);
                            repeat split; intros; try discriminate; auto; try tauto;
                            try (destruct (w_aft w) eqn:Ea;
                                 [exfalso; pose proof (Str (Haft eq_refl)); congruence|reflexivity])
                          ] ]).
  - (* LRel false: return of Lock/UnlockWithoutNotify *)
    unfold op_rel in Hop. simpl in Hop.
    right. eexists. exists (refresh c 0 (set_open m (adel (m_open m) t))).
    split; [reflexivity|]. split; [simpl; rewrite Hop; reflexivity|].
    apply sim_refresh.
    ret_build SS Ht.
  - (* NRel: return of NotifyOfChange / Unlock *)
    unfold op_rel in Hop.
    assert (Ho : exists nf, aget (m_open m) t = Some (OpNotify nf) /\
                            (if eff then Datatypes.S nf <= cnt s else m_tcall m = true))
      by (destruct eff; exact Hop).
    destruct Ho as (nf & Ho & Hn).
    right. eexists.
    exists (refresh c 0 (mkM (if m_tcall m then m_lo m else Datatypes.S (m_lo m)) (m_hi m)
                            (if m_tcall m then m_maxk m else Nat.max (m_maxk m) (Datatypes.S nf))
                            (m_tcall m) (m_tret m) (adel (m_open m) t))).
    split; [reflexivity|]. split; [simpl; rewrite Ho; reflexivity|].
    apply sim_refresh.
    destruct eff; [|rewrite Hn]; destruct (m_tcall m) eqn:Etc; try discriminate;
    ret_build SS Ht.
  - (* WRelRet: return of WaitForChange through the deferred Unlock *)
    unfold op_rel in Hop. destruct Hop as (w & Ho & Hcf & Hfl & Hdue & Haft & Hm).
    destruct (check_ret_ok _ _ _ _ _ Hm) as (k' & Hck & Hk'); [pose proof (sim_hi _ _ SS); lia|].
    right. eexists.
    exists (refresh c 0 (mkM (m_lo m) (m_hi m) (Nat.max (m_maxk m) k') (m_tcall m) (m_tret m)
                            (adel (m_open m) t))).
    split; [reflexivity|]. split; [simpl; rewrite Ho, Hck; reflexivity|].
    apply sim_refresh. ret_build SS Ht.
  - (* WReg -> WSig: the request is registered *)
    unfold op_rel in Hop |- *. destruct Hop as (w & Ho & Hcf & Hfl & Hdue & Haft & Hm). exists w.
    split; [exact Ho|]. split; [exact Hcf|]. unfold wait_rel; flds.
    split; [lia|]. split; [exact Hdue|]. split; [exact Haft|]. unfold reg_rel; flds.
    split; [exact Hm|]. split.
    + destruct (w_aft w) eqn:Ea; auto. pose proof (Str (Haft eq_refl)). congruence.
    + intros i tm Hr. rewrite aget_adel_same in Hr. discriminate.
  - (* WSel: the response is received *)
    unfold op_rel in Hop. destruct Hop as (w & Ho & Hcf & Hfl & Hdue & Haft & Hq & Ha & Hm).
    specialize (Hm _ _ Heqo).
    destruct (check_ret_ok _ _ _ _ _ Hm) as (k' & Hck & Hk'); [pose proof (sim_hi _ _ SS); lia|].
    right. eexists.
    exists (refresh c 0 (mkM (m_lo m) (m_hi m) (Nat.max (m_maxk m) k') (m_tcall m) (m_tret m)
                            (adel (m_open m) t))).
    split; [reflexivity|]. split; [simpl; rewrite Ho, Hck; reflexivity|].
    apply sim_refresh. ret_build SS Ht.
  - (* TAwait: return of Terminate *)
    unfold op_rel in Hop. destruct Hop as [Ho Htc].
    right. eexists.
    exists (refresh c 0 (mkM (m_lo m) (m_hi m) (m_maxk m) (m_tcall m) true (adel (m_open m) t))).
    split; [reflexivity|]. split; [simpl; rewrite Ho; reflexivity|].
    apply sim_refresh. ret_build SS Ht.
Qed.

Lemma sim_selcancel s t s' m :
  Inv i0 s -> Sim s m -> sel_cancel s t = Some s' -> log s' = log s /\ Sim s' m.
Proof.
  intros I SS H. unfold sel_cancel in H.
  destruct (nth_error (thr s) t) as [[p cf]|] eqn:Ht; [|discriminate].
  destruct p; try discriminate. destruct cf; [|discriminate]. inversion H; subst s'; clear H.
  pose proof (sim_thr _ _ SS t) as Hop. rewrite Ht in Hop.
  split; [reflexivity|]. unfold set_thr.
  eapply (sim_build _ _ _ _ _ _ _ _ _ SS Ht); flds;
    [ reflexivity | lia | auto | apply mext_refl | auto | apply SS
    | | try solve [counts SS Ht] | try solve [counts SS Ht] | exact (sim_hi_eq _ _ SS)
    | try solve [counts SS Ht] | apply SS | apply SS ].
  unfold op_rel in Hop |- *. destruct Hop as (w & Ho & Hcf & Hfl & Hdue & Haft & Hm). exists w.
  split; [exact Ho|]. split; [exact Hcf|]. unfold wait_rel; flds.
  split; [lia|]. split; [exact Hdue|]. split; [exact Haft|]. split; [exact Hcf|exact Hm].
Qed.

Lemma ret_ok_canc s m w i e d :
  ret_ok s m w i e -> ret_ok s m (mkW (w_prev w) (w_floor w) true (w_aft w) d) i e.
Proof.
  intros (k & H1 & H2 & H3 & H4 & H5). exists k. simpl.
  split; [exact H1|]. split; [exact H2|]. split; [exact H3|]. split; [auto|exact H5].
Qed.

Lemma wait_rel_canc s m t p w :
  wait_rel s m t p w ->
  wait_rel s m t p (mkW (w_prev w) (w_floor w) true (w_aft w) (w_due w)).
Proof.
  unfold wait_rel. intros (Hfl & Hdue & Haft & Hm). simpl.
  split; [exact Hfl|]. split; [intros _; apply urgent_canc|]. split; [exact Haft|].
  destruct p; auto; try (apply ret_ok_canc; exact Hm);
    unfold reg_rel in *; simpl; intuition auto; apply ret_ok_canc; auto.
Qed.

Lemma aget_cons_other {A} (l : list (nat * A)) t t' x : t' <> t -> aget ((t, x) :: l) t' = aget l t'.
Proof. intros H. simpl. destruct (Nat.eqb_spec t t'); [congruence|reflexivity]. Qed.

Lemma aget_cons_same {A} (l : list (nat * A)) t x : aget ((t, x) :: l) t = Some x.
Proof. simpl. rewrite Nat.eqb_refl. reflexivity. Qed.

Lemma sim_cancel s t s' m :
  Inv i0 s -> Sim s m -> step s (ACancel t) = Some s' ->
  exists e m', log s' = e :: log s /\ mon_event c m e = MOk m' /\ Sim s' m'.
Proof.
  intros I SS H. simpl in H.
  destruct (nth_error (thr s) t) as [[p cf]|] eqn:Ht; [|discriminate].
  destruct (in_wait p) eqn:Ew; [|discriminate]. inversion H; subst s'; clear H.
  pose proof (sim_thr _ _ SS t) as Hop. rewrite Ht in Hop.
  assert (Hw : exists w, aget (m_open m) t = Some (OpWait w) /\ w_canc w = cf /\ wait_rel s m t p w).
  { destruct p; try discriminate; exact Hop. }
  destruct Hw as (w & Ho & Hcf & Hw).
  eexists.
  exists (refresh c 0 (set_open m ((t, OpWait (mkW (w_prev w) (w_floor w) true (w_aft w) (w_due w)))
                                     :: adel (m_open m) t))).
  split; [reflexivity|]. split; [simpl; rewrite Ho; reflexivity|].
  apply sim_refresh. unfold add_log, set_thr; flds.
  match goal with |- Sim _ ?M1 => eapply (sim_build _ _ _ M1 _ _ _ _ _ SS Ht) end; flds;
  [ reflexivity | lia | auto
  | unfold mext, m_floor; cbn [m_lo m_maxk m_tcall m_tret set_open]; repeat split; auto
  | intros; cbn [m_open set_open]; rewrite aget_cons_other by auto; apply aget_adel_other; auto
  | cbn [m_open set_open map fst]; constructor; [apply adel_notin|apply nodup_adel; apply SS]
  | cbn [m_open set_open]; rewrite aget_cons_same
  | cbn [m_lo set_open]; try solve [counts SS Ht]
  | cbn [m_hi set_open]; try solve [counts SS Ht]
  | unfold history; simpl; rewrite count_notifying_snoc; simpl; rewrite Nat.add_0_r;
    exact (sim_hi_eq _ _ SS)
  | cbn [m_maxk set_open]; try solve [counts SS Ht]
  | apply SS | apply SS ].
  assert (Hw' : wait_rel s (set_open m ((t, OpWait (mkW (w_prev w) (w_floor w) true (w_aft w) (w_due w)))
                                     :: adel (m_open m) t)) t p
                         (mkW (w_prev w) (w_floor w) true (w_aft w) (w_due w)))
    by (apply (wait_rel_canc s m); exact Hw).
  destruct p; try discriminate; eexists; (split; [reflexivity|]); (split; [reflexivity|]); exact Hw'.
Qed.

Ltac call_build SS Ht Ho :=
  match goal with |- Sim _ ?M1 => eapply (sim_build _ _ _ M1 _ _ _ _ _ SS Ht) end; flds;
  [ reflexivity | lia | auto
  | unfold mext, m_floor; cbn [m_lo m_maxk m_tcall m_tret set_open]; repeat split; auto
  | intros; cbn [m_open set_open]; rewrite aget_cons_other by auto; auto
  | cbn [m_open set_open map fst]; constructor; [apply aget_none_notin; exact Ho|apply SS]
  | cbn [m_open set_open]; rewrite aget_cons_same
  | cbn [m_lo set_open]; try solve [counts SS Ht]
  | cbn [m_hi set_open]; try solve [counts SS Ht]
  | unfold history; simpl; rewrite count_notifying_snoc; simpl; rewrite (sim_hi_eq _ _ SS);
    unfold history; lia
  | cbn [m_maxk set_open]; try solve [counts SS Ht]
  | cbn [m_tcall set_open]; try solve [auto | apply SS]
  | cbn [m_tret set_open]; apply SS ].

Lemma sim_call s t o s' m :
  Inv i0 s -> Sim s m -> step s (ACall t o) = Some s' ->
  exists e m', log s' = e :: log s /\ mon_event c m e = MOk m' /\ Sim s' m'.
Proof.
  intros I SS H. simpl in H.
  destruct (nth_error (thr s) t) as [[p cf]|] eqn:Ht; [|discriminate].
  destruct p; try discriminate. inversion H; subst s'; clear H.
  pose proof (sim_thr _ _ SS t) as Ho. rewrite Ht in Ho. unfold op_rel in Ho.
  assert (Hfl0 : m_floor m <= cnt s).
  { unfold m_floor. pose proof (sim_lo _ _ SS). pose proof (sim_maxk _ _ SS). lia. }
  eexists. unfold add_log, set_thr; flds.
  destruct o as [| | | |q]; simpl entry.
  - eexists. split; [reflexivity|]. split; [simpl; rewrite Ho; reflexivity|].
    apply sim_refresh. call_build SS Ht Ho. exists (m_floor m). split; [reflexivity|exact Hfl0].
  - eexists. split; [reflexivity|]. split; [simpl; rewrite Ho; reflexivity|].
    apply sim_refresh. call_build SS Ht Ho. exists (m_floor m). split; [reflexivity|exact Hfl0].
  - eexists. split; [reflexivity|]. split; [simpl; rewrite Ho; reflexivity|].
    apply sim_refresh. call_build SS Ht Ho. reflexivity.
  - eexists. split; [reflexivity|]. split; [simpl; rewrite Ho; reflexivity|].
    apply sim_refresh. call_build SS Ht Ho. split; reflexivity.
  - eexists. split; [reflexivity|]. split; [simpl; rewrite Ho; reflexivity|].
    apply sim_refresh. call_build SS Ht Ho.
    + assert (Hfl : m_floor m <= cnt s).
      { unfold m_floor. pose proof (sim_lo _ _ SS). pose proof (sim_maxk _ _ SS). lia. }
      destruct (N.eqb_spec q 0); unfold op_rel; eexists; (split; [reflexivity|]);
        (split; [reflexivity|]); unfold wait_rel; simpl;
        (split; [exact Hfl|]); (split; [congruence|]); (split; [auto|]); auto.
    + destruct (N.eqb q 0); counts SS Ht.
    + destruct (N.eqb q 0); counts SS Ht.
Qed.

(* the answers produced by one iteration of the tracking loop are valid *)
Lemma reg_rel_answer s m t q w (flt : nat * N -> bool) (tmf : bool) rs :
  Inv i0 s -> Sim s m ->
  (exists cf, nth_error (thr s) t = Some (WSig q, cf) \/ nth_error (thr s) t = Some (WRel q, cf) \/
              nth_error (thr s) t = Some (WSel q, cf) \/ nth_error (thr s) t = Some (WCAcq q, cf) \/
              nth_error (thr s) t = Some (WCDel q, cf)) ->
  w_floor w <= cnt s ->
  (forall x, In x rs -> In x (reqs s) /\ (tmf = false -> snd x <> index s)) ->
  (tmf = true -> terminated s = true) ->
  reg_rel s m t q w ->
  forall i tm,
    aget (map (fun r => (fst r, (index s, tmf))) rs ++ resp s) t = Some (i, tm) ->
    ret_ok s m w i (err_of_term tm).
Proof.
  intros I SS Hpc Hfl Hrs Htm (Hq & Ha & Hm) i tm H.
  rewrite (aget_map_const (fun _ => (index s, tmf))) in H.
  destruct (find (fun x => Nat.eqb (fst x) t) rs) as [x|] eqn:Ef; [|apply Hm; exact H].
  inversion H; subst i tm; clear H.
  apply find_key_some in Ef. destruct Ef as [Hin Hk]. destruct (Hrs _ Hin) as [Hin' Hst].
  destruct x as [t' q']. simpl in Hk. subst t'.
  destruct (inv_reqs _ _ I _ _ Hin') as (_ & pz & cz & Hn & Hreg).
  assert (q' = q).
  { destruct Hpc as (cf & Hpc). unfold registered in Hreg.
    destruct Hpc as [Hp|[Hp|[Hp|[Hp|Hp]]]]; rewrite Hp in Hn; inversion Hn; subst;
      destruct Hreg as [R|[R|[R|[R|R]]]]; congruence. }
  subst q'. exists (cnt s). split; [lia|]. split; [exact (inv_idx _ _ I)|].
  destruct tmf; simpl.
  - split; [intros _; apply (sim_term _ _ SS); auto|]. split; [discriminate|discriminate].
  - split; [discriminate|]. split; [discriminate|]. intros _. split; [|exact Ha].
    right. rewrite Hq. intros E. apply (Hst eq_refl). simpl. congruence.
Qed.

Lemma sim_track s s' m :
  Inv i0 s -> Sim s m -> track_step s = Some s' -> log s' = log s /\ Sim s' m.
Proof.
  intros I SS H. unfold track_step in H.
  assert (Hsame : forall s2, thr s2 = thr s -> cnt s2 = cnt s -> resp s2 = resp s -> log s2 = log s ->
                  terminated s2 = terminated s -> log s2 = log s /\ Sim s2 m).
  { intros s2 H1 H2 H3 H4 H5. split; auto. constructor; try rewrite ?H1, ?H2, ?H5; try apply SS.
    - intros t. pose proof (sim_thr _ _ SS t) as Ho. destruct (nth_error (thr s) t) as [[p cf]|]; auto.
      eapply op_rel_frame; [| |apply mext_refl|exact Ho]; [lia|rewrite H3; auto].
    - unfold history. rewrite H4. apply SS. }
  destruct (tk s) eqn:Etk; try discriminate;
    try (destruct (mu_free s); [|discriminate]); try (inversion H; subst s'; apply Hsame; reflexivity).
  (* TkHold: one iteration *)
  assert (Hgen : forall (flt : nat * N -> bool) tmf rs keep,
             (forall x, In x rs -> In x (reqs s) /\ (tmf = false -> snd x <> index s)) ->
             (tmf = true -> terminated s = true) ->
             Sim (set_tk (set_reqs (set_resp s (map (fun r => (fst r, (index s, tmf))) rs ++ resp s)) keep)
                         (if tmf then TkExiting else TkPreWait)) m).
  { intros flt tmf rs keep Hrs Htm. unf2. constructor; flds; try apply SS.
    intros t. pose proof (sim_thr _ _ SS t) as Ho.
    destruct (nth_error (thr s) t) as [[p cf]|] eqn:Ht; auto.
    unfold op_rel in Ho |- *.
    destruct p; auto; destruct Ho as (w & Ho & Hcf & Hfl & Hdue & Haft & Hm); exists w;
      (split; [exact Ho|]); (split; [exact Hcf|]); unfold wait_rel; flds;
      (split; [exact Hfl|]); (split; [exact Hdue|]); (split; [exact Haft|]); try exact Hm;
      match goal with
      | |- w_canc w = true /\ _ => destruct Hm as [Hcc Hm]; split; [exact Hcc|]
      | |- _ => idtac
      end;
      pose proof Hm as (Hq & Ha & Hr);
      (split; [exact Hq|]); (split; [exact Ha|]);
      apply (reg_rel_answer s m t p w flt tmf rs I SS); auto; exists cf; auto 6. }
  destruct (terminated s) eqn:Et; inversion H; subst s'; clear H; (split; [reflexivity|]).
  - unfold answer_all. apply (Hgen (fun _ => true) true (reqs s) []); auto.
    intros x Hx. split; auto. discriminate.
  - unfold answer_stale. apply (Hgen (stale s) false (filter (stale s) (reqs s)) (keep_current s)).
    + intros x Hx. apply filter_In in Hx. destruct Hx as [Hx Hs]. split; auto. intros _.
      unfold stale in Hs. destruct (N.eqb_spec (snd x) (index s)); [discriminate|auto].
    + discriminate.
Qed.

Lemma first_nonzero_zero l : (forall x, In x l -> x = 0) -> first_nonzero l = 0.
Proof.
  induction l as [|x l IH]; intros H; simpl; auto.
  rewrite (H x) by (left; auto). apply IH. intros y Hy. apply H. right. auto.
Qed.

Lemma sim_quiesce s s' m :
  Inv i0 s -> Sim s m -> step s AQuiesce = Some s' -> m_hi m <= c_total c ->
  exists e m', log s' = e :: log s /\ mon_event c m e = MOk m' /\ Sim s' m'.
Proof.
  intros I SS H Htot. simpl in H. destruct (quiescent s) eqn:Q; [|discriminate].
  inversion H; subst s'; clear H.
  destruct (quiescent_shape _ _ I Q) as (Hmu & Hk & Hb).
  exists (EQuiesce 0), (refresh c 0 m). split; [reflexivity|]. split.
  - simpl. rewrite first_nonzero_zero; [reflexivity|].
    intros x Hx. apply in_map_iff in Hx. destruct Hx as ([t o'] & Hx & Hin). subst x.
    unfold refresh in Hin. simpl in Hin. apply in_map_iff in Hin. destruct Hin as ([t' o] & E & Hin).
    simpl in E. inversion E; subst t' o'; clear E.
    pose proof (aget_in_nodup _ _ _ (sim_nodup _ _ SS) Hin) as Ho.
    pose proof (sim_thr _ _ SS t) as Hop. rewrite Ho in Hop.
    destruct (nth_error (thr s) t) as [[p cf]|] eqn:Ht; [|discriminate].
    destruct (Hb _ _ _ Ht) as [Hp|(q & Hp & Hcf & Hr & Hin' & Hq & Htm)]; subst p.
    + simpl in Hop. discriminate.
    + simpl in Hop. destruct Hop as (w & Hw & Hc & Hfl & Hdue & Haft & Hpr & Ha & _).
      inversion Hw; subst o; clear Hw.
      destruct (inv_pc _ _ I _ _ _ Ht) as [_ [Hq0 _]].
      assert (Hu : urgent c m w = false).
      { unfold urgent. rewrite Hpr, Hc, Hcf.
        destruct (N.eqb_spec q 0); [contradiction|]. simpl.
        destruct (m_tret m) eqn:Etr; [rewrite (sim_tret _ _ SS Etr) in Htm; discriminate|]. simpl.
        unfold certainly_stale.
        assert (Hfc : m_floor m <= cnt s).
        { unfold m_floor. pose proof (sim_lo _ _ SS). pose proof (sim_maxk _ _ SS). lia. }
        pose proof (sim_hi _ _ SS) as Hh.
        destruct (find_k_complete (c_init c) q (m_floor m) (S (c_total c) - m_floor m) (cnt s))
          as (k' & Hf & _); [lia|rewrite Hq; symmetry; exact (inv_idx _ _ I)|].
        rewrite Hf. reflexivity. }
      unfold quiesce_code, refresh_one. simpl.
      destruct (w_due w) eqn:Ed.
      * rewrite Hdue in Hu; [discriminate|congruence].
      * rewrite Hu. simpl. rewrite Ed. reflexivity.
  - apply sim_refresh. unfold add_log. constructor; flds; try apply SS.
    unfold history. simpl. rewrite count_notifying_snoc. simpl. rewrite Nat.add_0_r. apply SS.
Qed.

Lemma sim_step s a s' m :
  Inv i0 s -> Sim s m -> step s a = Some s' -> count_notifying (history s) <= c_total c ->
  (log s' = log s /\ Sim s' m) \/
  (exists e m', log s' = e :: log s /\ mon_event c m e = MOk m' /\ Sim s' m').
Proof.
  intros I SS H Htot. destruct a.
  - right. eapply sim_call; eauto.
  - simpl in H. unfold step_thread in H.
    destruct (nth_error (thr s) t) as [[p cf]|] eqn:Ht; [|discriminate].
    eapply sim_thread_step; eauto.
  - left. eapply sim_selcancel; eauto.
  - right. eapply sim_cancel; eauto.
  - left. eapply sim_track; eauto.
  - right. eapply sim_quiesce; eauto. rewrite (sim_hi_eq _ _ SS). exact Htot.
Qed.

Lemma step_log s a s' : step s a = Some s' -> log s' = log s \/ exists e, log s' = e :: log s.
Proof.
  intros H. destruct a; simpl in H.
  - destruct (nth_error (thr s) t) as [[p cf]|]; [|discriminate]. destruct p; try discriminate.
    inversion H; subst. right. eexists. reflexivity.
  - unfold step_thread in H. destruct (nth_error (thr s) t) as [[p cf]|]; [|discriminate].
    destruct p; cbn [thread_step] in H; unf2;
      repeat match type of H with
             | (if ?b then _ else _) = _ => destruct b eqn:?
             | match ?x with _ => _ end = _ => destruct x eqn:?
             end; try discriminate; inversion H; subst s'; flds; eauto.
  - unfold sel_cancel in H. destruct (nth_error (thr s) t) as [[p cf]|]; [|discriminate].
    destruct p; try discriminate. destruct cf; [|discriminate]. inversion H; subst. auto.
  - destruct (nth_error (thr s) t) as [[p cf]|]; [|discriminate].
    destruct (in_wait p); [|discriminate]. inversion H; subst. right. eexists. reflexivity.
  - unfold track_step in H. destruct (tk s); try discriminate;
      try (destruct (mu_free s); [|discriminate]); try (destruct (terminated s));
      inversion H; subst; auto.
  - destruct (quiescent s); [|discriminate]. inversion H; subst. right. eexists. reflexivity.
Qed.

Lemma count_notifying_cons_le e l :
  count_notifying (rev l) <= count_notifying (rev (e :: l)).
Proof. simpl. rewrite count_notifying_snoc. lia. Qed.

Lemma run_count_mono acts : forall s s',
  run s acts = Some s' -> count_notifying (history s) <= count_notifying (history s').
Proof.
  induction acts as [|a r IH]; intros s s' H; simpl in H.
  - inversion H; subst. lia.
  - destruct (step s a) as [s1|] eqn:E; [|discriminate]. specialize (IH _ _ H).
    unfold history in *. destruct (step_log _ _ _ E) as [El|[e El]]; rewrite El in IH; auto.
    pose proof (count_notifying_cons_le e (log s)). lia.
Qed.

Lemma sim_init n : Sim (init_state i0 n) m0.
Proof.
  constructor; simpl; auto; try lia; try discriminate.
  - intros t. destruct (nth_error (repeat (Idle, false) n) t) as [[p cf]|] eqn:E; auto.
    apply nth_error_In in E. apply repeat_spec in E. inversion E; subst. reflexivity.
  - constructor.
  - rewrite countp_repeat; auto.
  - rewrite countp_repeat; auto.
Qed.

Lemma mon_run_snoc l e : mon_run c (l ++ [e]) = mon_step c (mon_run c l) e.
Proof. unfold mon_run. rewrite fold_left_app. reflexivity. Qed.

Lemma sim_run acts : forall s m s',
  Inv i0 s -> Sim s m -> mon_run c (history s) = MOk m -> run s acts = Some s' ->
  count_notifying (history s') <= c_total c ->
  exists m', mon_run c (history s') = MOk m' /\ Sim s' m'.
Proof.
  induction acts as [|a r IH]; intros s m s' I SS Hm H Htot; simpl in H.
  - inversion H; subst. eauto.
  - destruct (step s a) as [s1|] eqn:E; [|discriminate].
    pose proof (run_count_mono _ _ _ H) as Hmono.
    assert (Hc1 : count_notifying (history s1) <= c_total c) by lia.
    assert (Hc0 : count_notifying (history s) <= c_total c).
    { unfold history in *. destruct (step_log _ _ _ E) as [El|[e El]]; rewrite El in Hc1; auto.
      pose proof (count_notifying_cons_le e (log s)). lia. }
    pose proof (step_inv _ _ _ _ I E) as I1.
    destruct (sim_step _ _ _ _ I SS E Hc0) as [[El S1]|(e & m1 & El & He & S1)].
    + eapply IH; eauto. unfold history. rewrite El. exact Hm.
    + eapply IH; eauto. unfold history. rewrite El. simpl. rewrite mon_run_snoc.
      unfold history in Hm. rewrite Hm. exact He.
Qed.
End Sim.

(* Every history of the transition system is accepted by the monitor. *)
Theorem model_histories_accepted i0 n slack acts s :
  run (init_state i0 n) acts = Some s ->
  check_C30 i0 slack (history s) = true.
Proof.
  intros H. unfold check_C30.
  destruct (sim_run (mkCfg i0 (count_notifying (history s)) slack) acts (init_state i0 n) m0 s)
    as (m' & Hm & _); auto.
  - apply inv_init.
  - apply sim_init.
  - rewrite Hm. reflexivity.
Qed.

(* ------------------------------------------------------------------ *)
(* soundness of the monitor: what an accepted history satisfies        *)
(* ------------------------------------------------------------------ *)
Section Sound.
Variable c : mcfg.
Let i0 := c_init c.

Definition ev_thread (e : event) : option nat :=
  match e with ECall t _ _ | ERet t _ _ => Some t | _ => None end.
Definition is_term_call (e : event) : bool :=
  match e with ECall _ OTerminate _ => true | _ => false end.
Definition is_cancel_of (t : nat) (e : event) : bool :=
  match e with ECancel t' _ => Nat.eqb t' t | _ => false end.

(* what stays fixed in the monitor's record of an outstanding call *)
Definition okey (o : option oop) : option (N * nat + nat) :=
  match o with
  | Some (OpWait w) => Some (inl (w_prev w, w_floor w))
  | Some (OpNotify nf) => Some (inr nf)
  | _ => None
  end.
Definition ocanc (o : option oop) : bool :=
  match o with Some (OpWait w) => w_canc w | _ => false end.

Lemma okey_refresh m tm o : okey (option_map (refresh_one c m tm) o) = okey o.
Proof.
  destruct o as [[nf| | |w]|]; simpl; auto.
  destruct (w_due w); auto. destruct (urgent c m w); auto.
Qed.
Lemma ocanc_refresh m tm o : ocanc (option_map (refresh_one c m tm) o) = ocanc o.
Proof.
  destruct o as [[nf| | |w]|]; simpl; auto.
  destruct (w_due w); auto. destruct (urgent c m w); auto.
Qed.

Lemma mon_event_facts m e m' :
  mon_event c m e = MOk m' ->
  m_hi m' = m_hi m + b2n (is_notifying e) /\
  m_lo m <= m_lo m' /\ m_maxk m <= m_maxk m' /\
  (is_term_call e = false -> m_tcall m' = m_tcall m) /\
  (forall t, ev_thread e <> Some t ->
     okey (aget (m_open m') t) = okey (aget (m_open m) t) /\
     (ocanc (aget (m_open m) t) = true -> ocanc (aget (m_open m') t) = true) /\
     (is_cancel_of t e = true -> ocanc (aget (m_open m') t) = true)).
Proof.
  intros H. destruct e as [t o tm|t r tm|t tm|tm]; simpl in H.
  - destruct (aget (m_open m) t) eqn:Eo; [discriminate|].
    destruct o; inversion H; subst m'; clear H;
      (split; [simpl; lia|]); (split; [simpl; lia|]); (split; [simpl; lia|]); (split; [simpl; auto; try discriminate|]);
      intros t' Hne; simpl in Hne; rewrite (refresh_open c); rewrite okey_refresh, ocanc_refresh;
      cbn [m_open set_open]; rewrite aget_cons_other by congruence; (split; [auto|]);
      (split; [auto|discriminate]).
  - destruct (aget (m_open m) t) as [[nf| | |w]|] eqn:Eo; try discriminate; destruct r; try discriminate.
    + inversion H; subst m'; clear H.
      split; [simpl; lia|]. split; [simpl; destruct (m_tcall m); lia|]. split; [simpl; destruct (m_tcall m); lia|].
      split; [simpl; auto|]. intros t' Hne. simpl in Hne. rewrite (refresh_open c), okey_refresh, ocanc_refresh.
      cbn [m_open]. rewrite aget_adel_other by congruence. split; [auto|]. split; [auto|discriminate].
    + inversion H; subst m'; clear H.
      split; [simpl; lia|]. split; [simpl; lia|]. split; [simpl; lia|]. split; [simpl; auto|].
      intros t' Hne. simpl in Hne. rewrite (refresh_open c), okey_refresh, ocanc_refresh.
      cbn [m_open set_open]. rewrite aget_adel_other by congruence. split; [auto|]. split; [auto|discriminate].
    + inversion H; subst m'; clear H.
      split; [simpl; lia|]. split; [simpl; lia|]. split; [simpl; lia|]. split; [simpl; auto|].
      intros t' Hne. simpl in Hne. rewrite (refresh_open c), okey_refresh, ocanc_refresh.
      cbn [m_open]. rewrite aget_adel_other by congruence. split; [auto|]. split; [auto|discriminate].
    + destruct (check_wait_ret c m w idx e tm) eqn:Ec; [discriminate|].
      inversion H; subst m'; clear H.
      split; [simpl; lia|]. split; [simpl; lia|]. split; [simpl; lia|]. split; [simpl; auto|].
      intros t' Hne. simpl in Hne. rewrite (refresh_open c), okey_refresh, ocanc_refresh.
      cbn [m_open]. rewrite aget_adel_other by congruence. split; [auto|]. split; [auto|discriminate].
  - destruct (aget (m_open m) t) as [[nf| | |w]|] eqn:Eo; try discriminate.
    inversion H; subst m'; clear H.
    split; [simpl; lia|]. split; [simpl; lia|]. split; [simpl; lia|]. split; [simpl; auto|].
    intros t' _. rewrite (refresh_open c), okey_refresh, ocanc_refresh. cbn [m_open set_open].
    destruct (Nat.eqb_spec t t') as [->|Hne].
    + rewrite aget_cons_same, Eo. simpl. split; [auto|]. split; auto.
    + rewrite aget_cons_other by congruence. rewrite aget_adel_other by congruence.
      split; [auto|]. split; [auto|]. intros Hx. apply Nat.eqb_eq in Hx. congruence.
  - match type of H with context [first_nonzero ?l] => destruct (first_nonzero l) eqn:Eq end; [|discriminate].
    inversion H; subst m'; clear H.
    split; [simpl; lia|]. split; [simpl; lia|]. split; [simpl; lia|]. split; [simpl; auto|].
    intros t' _. rewrite (refresh_open c), okey_refresh, ocanc_refresh.
    split; [auto|]. split; [auto|discriminate].
Qed.

Definition mon_from (m : mstate) (evs : list event) : mres := fold_left (mon_step c) evs (MOk m).

Lemma fold_err l k : fold_left (mon_step c) l (MErr k) = MErr k.
Proof. induction l; simpl; auto. Qed.

Lemma mon_from_app m A B m' :
  mon_from m (A ++ B) = MOk m' -> exists m1, mon_from m A = MOk m1 /\ mon_from m1 B = MOk m'.
Proof.
  unfold mon_from. rewrite fold_left_app. intros H.
  destruct (fold_left (mon_step c) A (MOk m)) as [m1|k] eqn:E.
  - exists m1. auto.
  - rewrite fold_err in H. discriminate.
Qed.

Lemma mon_from_cons m e B m' :
  mon_from m (e :: B) = MOk m' -> exists m1, mon_event c m e = MOk m1 /\ mon_from m1 B = MOk m'.
Proof.
  unfold mon_from. simpl. intros H. destruct (mon_event c m e) as [m1|k] eqn:E.
  - exists m1. auto.
  - rewrite fold_err in H. discriminate.
Qed.

Lemma mon_from_facts B : forall m m',
  mon_from m B = MOk m' ->
  m_hi m' = m_hi m + count_notifying B /\
  m_lo m <= m_lo m' /\ m_maxk m <= m_maxk m' /\
  (forallb (fun e => negb (is_term_call e)) B = true -> m_tcall m' = m_tcall m) /\
  (forall t, (forall e, In e B -> ev_thread e <> Some t) ->
     okey (aget (m_open m') t) = okey (aget (m_open m) t) /\
     (ocanc (aget (m_open m) t) = true -> ocanc (aget (m_open m') t) = true) /\
     (existsb (is_cancel_of t) B = true -> ocanc (aget (m_open m') t) = true)).
Proof.
  induction B as [|e B IH]; intros m m' H.
  - unfold mon_from in H. simpl in H. inversion H; subst. unfold count_notifying. simpl.
    repeat split; auto; try lia; discriminate.
  - apply mon_from_cons in H. destruct H as (m1 & He & H).
    destruct (mon_event_facts _ _ _ He) as (F1 & F2 & F3 & F4 & F5).
    destruct (IH _ _ H) as (G1 & G2 & G3 & G4 & G5).
    split. { rewrite G1, F1. unfold count_notifying. simpl. destruct (is_notifying e); simpl; lia. }
    split; [lia|]. split; [lia|]. split.
    { simpl. intros Hx. apply andb_true_iff in Hx. destruct Hx as [Hx1 Hx2].
      rewrite G4 by auto. apply F4. destruct (is_term_call e); auto. }
    intros t Ht. destruct (F5 t) as (A1 & A2 & A3); [apply Ht; left; auto|].
    destruct (G5 t) as (B1 & B2 & B3); [intros e' He'; apply Ht; right; auto|].
    split; [congruence|]. split; [auto|]. simpl. intros Hx. apply orb_true_iff in Hx.
    destruct Hx as [Hx|Hx]; auto.
Qed.

Lemma call_wait_facts m t p tm m1 :
  mon_event c m (ECall t (OWait p) tm) = MOk m1 ->
  okey (aget (m_open m1) t) = Some (inl (p, m_floor m)) /\ m_tcall m1 = m_tcall m.
Proof.
  simpl. destruct (aget (m_open m) t); [discriminate|]. intros H. inversion H; subst m1; clear H.
  rewrite (refresh_open c), okey_refresh. cbn [m_open set_open]. rewrite aget_cons_same. auto.
Qed.

Lemma call_notify_facts m t o tm m1 :
  mon_event c m (ECall t o tm) = MOk m1 -> is_notifying (ECall t o tm) = true ->
  okey (aget (m_open m1) t) = Some (inr (m_floor m)) /\ m_tcall m1 = m_tcall m.
Proof.
  simpl. destruct (aget (m_open m) t); [discriminate|]. intros H Hn.
  destruct o; try discriminate; inversion H; subst m1; clear H;
    rewrite (refresh_open c), okey_refresh; cbn [m_open]; rewrite aget_cons_same; auto.
Qed.

Lemma ret_wait_facts m t i e tm m' p fl :
  mon_event c m (ERet t (RWait i e) tm) = MOk m' ->
  okey (aget (m_open m) t) = Some (inl (p, fl)) ->
  exists k, fl <= k <= m_hi m /\ idx_at i0 k = i /\ k <= m_maxk m' /\
            (e = WOk -> p <> 0%N -> i <> p) /\
            (e = WCancelled -> ocanc (aget (m_open m) t) = true) /\
            (e = WTerminated -> m_tcall m = true).
Proof.
  simpl. intros H Hk. destruct (aget (m_open m) t) as [[nf| | |w]|] eqn:Eo; try discriminate.
  simpl in Hk. inversion Hk; subst p fl; clear Hk.
  destruct (check_wait_ret c m w i e tm) as [code|k] eqn:Ec; [discriminate|].
  inversion H; subst m'; clear H. unfold check_wait_ret in Ec.
  destruct ((werr_eqb e WTerminated && negb (m_tcall m)) || (werr_eqb e WCancelled && negb (w_canc w))) eqn:E1;
    [discriminate|].
  destruct (werr_eqb e WOk && negb (N.eqb (w_prev w) 0) && N.eqb i (w_prev w)) eqn:E2; [discriminate|].
  destruct (find_k (c_init c) i (w_floor w) (S (m_hi m) - w_floor w)) as [k'|] eqn:Ef.
  2:{ destruct (find_k (c_init c) i 0 (w_floor w)); discriminate. }
  destruct (werr_eqb e WOk && w_aft w); [discriminate|]. destruct (late c (w_due w) tm); [discriminate|].
  inversion Ec; subst k'. apply find_k_some in Ef. destruct Ef as (Hr & Hi & _).
  exists k. split; [lia|]. split; [exact Hi|]. split; [simpl; lia|].
  apply orb_false_iff in E1. destruct E1 as [E1a E1b].
  split; [|split].
  - intros -> Hp Heq. simpl in E2. destruct (N.eqb_spec (w_prev w) 0); [contradiction|].
    simpl in E2. apply N.eqb_neq in E2. auto.
  - intros ->. simpl in E1b. simpl. destruct (w_canc w); auto.
  - intros ->. simpl in E1a. destruct (m_tcall m); auto.
Qed.

Lemma ret_notify_facts m t tm m' nf :
  mon_event c m (ERet t RUnit tm) = MOk m' ->
  okey (aget (m_open m) t) = Some (inr nf) -> m_tcall m = false ->
  S nf <= m_maxk m' /\ m_lo m' = S (m_lo m).
Proof.
  simpl. intros H Hk Htc. destruct (aget (m_open m) t) as [[nf'| | |w]|] eqn:Eo; try discriminate.
  simpl in Hk. inversion Hk; subst nf'; clear Hk. inversion H; subst m'; clear H. rewrite Htc. simpl.
  split; lia.
Qed.


Definition untouched (t : nat) (B : list event) : Prop :=
  forall e, In e B -> ev_thread e <> Some t.
Definition no_term_call (B : list event) : bool := forallb (fun e => negb (is_term_call e)) B.

Lemma count_notifying_app A B : count_notifying (A ++ B) = count_notifying A + count_notifying B.
Proof. unfold count_notifying. rewrite filter_app, app_length. reflexivity. Qed.

Lemma count_notifying_cons e l :
  count_notifying (e :: l) = b2n (is_notifying e) + count_notifying l.
Proof. unfold count_notifying. simpl. destruct (is_notifying e); reflexivity. Qed.

Lemma ret_wait_key m t i e tm m' :
  mon_event c m (ERet t (RWait i e) tm) = MOk m' ->
  exists p fl, okey (aget (m_open m) t) = Some (inl (p, fl)).
Proof.
  simpl. destruct (aget (m_open m) t) as [[nf| | |w]|]; try discriminate. intros _. simpl. eauto.
Qed.

(* a WaitForChange(prev <> 0) that returns without error returns an index <> prev *)
Theorem sound_no_stale A t p tm B i tm' D mf :
  mon_from m0 (A ++ ECall t (OWait p) tm :: B ++ ERet t (RWait i WOk) tm' :: D) = MOk mf ->
  untouched t B -> p <> 0%N -> i <> p.
Proof.
  intros H HB Hp.
  apply mon_from_app in H. destruct H as (mA & _ & H).
  apply mon_from_cons in H. destruct H as (m1 & Hc & H).
  apply mon_from_app in H. destruct H as (m2 & HB' & H).
  apply mon_from_cons in H. destruct H as (m3 & Hr & _).
  destruct (call_wait_facts _ _ _ _ _ Hc) as [Hk _].
  destruct (mon_from_facts _ _ _ HB') as (_ & _ & _ & _ & G5).
  destruct (G5 t HB) as (Hk2 & _). rewrite Hk in Hk2.
  destruct (ret_wait_facts _ _ _ _ _ _ _ _ Hr Hk2) as (k & _ & _ & _ & Hne & _). auto.
Qed.

(* indices returned to successive calls never move backwards (absent wrap) *)
Theorem sound_monotone A t1 i1 e1 tm1 B t2 p2 tm2 C i2 e2 tm3 D mf :
  let evs := A ++ ERet t1 (RWait i1 e1) tm1 :: B ++ ECall t2 (OWait p2) tm2 :: C
               ++ ERet t2 (RWait i2 e2) tm3 :: D in
  mon_from m0 evs = MOk mf ->
  untouched t2 C ->
  (i0 + N.of_nat (count_notifying evs) <= max_u64)%N ->
  (i1 <= i2)%N.
Proof.
  intros evs H HC Hw. unfold evs in H.
  apply mon_from_app in H. destruct H as (mA & HA & H).
  apply mon_from_cons in H. destruct H as (m1 & Hr1 & H).
  apply mon_from_app in H. destruct H as (m2 & HB & H).
  apply mon_from_cons in H. destruct H as (m3 & Hc2 & H).
  apply mon_from_app in H. destruct H as (m4 & HC' & H).
  apply mon_from_cons in H. destruct H as (m5 & Hr2 & HD).
  destruct (ret_wait_key _ _ _ _ _ _ Hr1) as (p1 & fl1 & Hk1).
  destruct (ret_wait_facts _ _ _ _ _ _ _ _ Hr1 Hk1) as (k1 & Hk1r & Hi1 & Hm1 & _).
  destruct (mon_from_facts _ _ _ HA) as (HhA & _).
  destruct (mon_from_facts _ _ _ HB) as (HhB & _ & HmB & _).
  destruct (mon_event_facts _ _ _ Hr1) as (Hh1 & _).
  destruct (mon_event_facts _ _ _ Hc2) as (Hh3 & _).
  destruct (call_wait_facts _ _ _ _ _ Hc2) as [Hk _].
  destruct (mon_from_facts _ _ _ HC') as (HhC & _ & _ & _ & G5).
  destruct (G5 t2 HC) as (Hk2 & _). rewrite Hk in Hk2.
  destruct (ret_wait_facts _ _ _ _ _ _ _ _ Hr2 Hk2) as (k2 & Hk2r & Hi2 & _).
  assert (Hfl : k1 <= k2). { unfold m_floor in Hk2r. lia. }
  assert (Htot : k2 <= count_notifying evs).
  { unfold evs. repeat (rewrite count_notifying_app || rewrite count_notifying_cons).
    simpl is_notifying in *. simpl b2n in *. assert (m_hi m0 = 0) by reflexivity. lia. }
  rewrite <- Hi1, <- Hi2. unfold i0. rewrite !idx_at_nowrap by (fold i0; lia). lia.
Qed.

(* every state change made through a notifying call (NotifyOfChange, or
   TrackingLock.Unlock) advances the index: a wait that starts after the call
   returned sees a strictly larger index than a wait that had returned before
   the call started (no Terminate called meanwhile, absent wrap) *)
Theorem sound_unlock_advances A ta ia ea tm1 B1 tu o tm2 B2 tm3 B3 tb pb tm4 B4 ib eb tm5 D mf :
  let pre := A ++ ERet ta (RWait ia ea) tm1 :: B1 ++ ECall tu o tm2 :: B2 in
  let evs := pre ++ ERet tu RUnit tm3 :: B3 ++ ECall tb (OWait pb) tm4 :: B4
                 ++ ERet tb (RWait ib eb) tm5 :: D in
  mon_from m0 evs = MOk mf ->
  is_notifying (ECall tu o tm2) = true ->
  untouched tu B2 -> untouched tb B4 ->
  no_term_call pre = true ->
  (i0 + N.of_nat (count_notifying evs) <= max_u64)%N ->
  (ia < ib)%N.
Proof.
  intros pre evs H Hn HB2 HB4 Hnt Hw. unfold evs in H.
  apply mon_from_app in H. destruct H as (mP & HP & H).
  apply mon_from_cons in H. destruct H as (m5 & Hru & H).
  apply mon_from_app in H. destruct H as (m6 & HB3 & H).
  apply mon_from_cons in H. destruct H as (m7 & Hcb & H).
  apply mon_from_app in H. destruct H as (m8 & HB4' & H).
  apply mon_from_cons in H. destruct H as (m9 & Hrb & HD).
  (* no Terminate was called before the notifying call returned *)
  destruct (mon_from_facts _ _ _ HP) as (HhP & _ & _ & HtP & _).
  assert (Htc : m_tcall mP = false) by (rewrite HtP; auto).
  (* split the prefix *)
  unfold pre in HP.
  apply mon_from_app in HP. destruct HP as (mA & HA & HP).
  apply mon_from_cons in HP. destruct HP as (m1 & Hra & HP).
  apply mon_from_app in HP. destruct HP as (m2 & HB1 & HP).
  apply mon_from_cons in HP. destruct HP as (m3 & Hcu & HB2').
  destruct (ret_wait_key _ _ _ _ _ _ Hra) as (p1 & fl1 & Hk1).
  destruct (ret_wait_facts _ _ _ _ _ _ _ _ Hra Hk1) as (ka & Hkar & Hia & Hma & _).
  destruct (mon_from_facts _ _ _ HB1) as (_ & _ & HmB1 & _).
  destruct (call_notify_facts _ _ _ _ _ Hcu Hn) as [Hku _].
  destruct (mon_from_facts _ _ _ HB2') as (_ & _ & _ & _ & G5u).
  destruct (G5u tu HB2) as (Hku2 & _). rewrite Hku in Hku2.
  destruct (ret_notify_facts _ _ _ _ _ Hru Hku2 Htc) as [Hmu _].
  destruct (mon_from_facts _ _ _ HB3) as (_ & _ & HmB3 & _).
  destruct (call_wait_facts _ _ _ _ _ Hcb) as [Hkb _].
  destruct (mon_from_facts _ _ _ HB4') as (HhB4 & _ & _ & _ & G5b).
  destruct (G5b tb HB4) as (Hkb2 & _). rewrite Hkb in Hkb2.
  destruct (ret_wait_facts _ _ _ _ _ _ _ _ Hrb Hkb2) as (kb & Hkbr & Hib & _).
  assert (Hlt : ka < kb). { unfold m_floor in *. lia. }
  assert (Htot : kb <= count_notifying evs).
  { destruct (mon_event_facts _ _ _ Hru) as (E1 & _).
    destruct (mon_from_facts _ _ _ HB3) as (E2 & _).
    destruct (mon_event_facts _ _ _ Hcb) as (E3 & _).
    unfold evs. repeat (rewrite count_notifying_app || rewrite count_notifying_cons).
    fold pre. simpl is_notifying in *. simpl b2n in *. assert (m_hi m0 = 0) by reflexivity. lia. }
  rewrite <- Hia, <- Hib. unfold i0. rewrite !idx_at_nowrap by (fold i0; lia). lia.
Qed.

Lemma aget_some_in {A} (l : list (nat * A)) t v : aget l t = Some v -> In (t, v) l.
Proof.
  induction l as [|[k w] l IH]; simpl; [discriminate|].
  destruct (Nat.eqb_spec k t); intros H; [inversion H; subst; auto|auto].
Qed.

Lemma first_nonzero_all l : first_nonzero l = 0 -> forall x, In x l -> x = 0.
Proof.
  induction l as [|y l IH]; simpl; intros H x Hx; [contradiction|].
  destruct y; [|discriminate]. destruct Hx as [Hx|Hx]; auto.
Qed.

(* a wait that is still blocked when nothing can move any more was not
   cancelled, no Terminate has returned, and its previous index is an index
   the tracker can still have: no update was missed *)
Theorem sound_quiesce A t p tm B tq D mf :
  mon_from m0 (A ++ ECall t (OWait p) tm :: B ++ EQuiesce tq :: D) = MOk mf ->
  untouched t B ->
  p <> 0%N /\ existsb (is_cancel_of t) B = false /\
  exists k, k <= c_total c /\ idx_at i0 k = p.
Proof.
  intros H HB.
  apply mon_from_app in H. destruct H as (mA & _ & H).
  apply mon_from_cons in H. destruct H as (m1 & Hc & H).
  apply mon_from_app in H. destruct H as (m2 & HB' & H).
  apply mon_from_cons in H. destruct H as (m3 & Hq & _).
  destruct (call_wait_facts _ _ _ _ _ Hc) as [Hk _].
  destruct (mon_from_facts _ _ _ HB') as (_ & _ & _ & _ & G5).
  destruct (G5 t HB) as (Hk2 & _ & Hcanc). rewrite Hk in Hk2.
  simpl in Hq.
  match type of Hq with context [first_nonzero ?l] => destruct (first_nonzero l) eqn:Ef end;
    [|discriminate].
  destruct (aget (m_open m2) t) as [[nf| | |w]|] eqn:Eo; try discriminate. simpl in Hk2.
  inversion Hk2; clear Hk2.
  assert (Hin : In (quiesce_code (t, refresh_one c m2 tq (OpWait w)))
                   (map quiesce_code (m_open (refresh c tq m2)))).
  { apply in_map. unfold refresh. cbn [m_open].
    apply (in_map (fun x => (fst x, refresh_one c m2 tq (snd x))) _ (t, OpWait w)).
    apply aget_some_in. exact Eo. }
  pose proof (first_nonzero_all _ Ef _ Hin) as Hz.
  unfold quiesce_code, refresh_one in Hz. simpl in Hz.
  assert (Hu : urgent c m2 w = false).
  { destruct (w_due w) eqn:Ed; [rewrite Ed in Hz; discriminate|].
    destruct (urgent c m2 w); auto. simpl in Hz. discriminate. }
  unfold urgent in Hu. apply orb_false_iff in Hu. destruct Hu as [Hu Hst].
  apply orb_false_iff in Hu. destruct Hu as [Hu Htr]. apply orb_false_iff in Hu. destruct Hu as [Hp0 Hcn].
  split; [apply N.eqb_neq; exact Hp0|]. split.
  - destruct (existsb (is_cancel_of t) B) eqn:Ec; auto. specialize (Hcanc eq_refl).
    simpl in Hcanc. congruence.
  - unfold certainly_stale in Hst.
    destruct (find_k (c_init c) (w_prev w) (m_floor m2) (S (c_total c) - m_floor m2)) as [k|] eqn:Efk;
      [|discriminate].
    apply find_k_some in Efk. destruct Efk as (Hr & Hi & _). exists k. split; [lia|exact Hi].
Qed.
End Sound.

(* ------------------------------------------------------------------ *)
(* the property theorems about the transition system                   *)
(* ------------------------------------------------------------------ *)

Definition reachable (i0 : N) (n : nat) (s : state) : Prop :=
  exists acts, run (init_state i0 n) acts = Some s.

Lemma reachable_inv i0 n s : reachable i0 n s -> Inv i0 s.
Proof. intros [acts H]. eapply run_inv; [apply inv_init|exact H]. Qed.

Lemma iteration_answers s s' t q :
  tk s = TkHold -> track_step s = Some s' -> In (t, q) (reqs s) ->
  q <> index s \/ terminated s = true ->
  aget (resp s') t = Some (index s, terminated s) /\ ~ In (t, q) (reqs s').
Proof.
  intros Hk H Hin Hq. unfold track_step in H. rewrite Hk in H.
  destruct (terminated s) eqn:Et; inversion H; subst s'; clear H; unf2; flds.
  - split; [|intros []]. unfold answer_all. rewrite (aget_map_const (fun _ => (index s, true))).
    destruct (find (fun x => Nat.eqb (fst x) t) (reqs s)) eqn:Ef; auto.
    rewrite find_key_none in Ef. exfalso. eapply Ef; eauto.
  - destruct Hq as [Hq|Hq]; [|discriminate].
    assert (Hs : stale s (t, q) = true).
    { unfold stale. simpl. destruct (N.eqb_spec q (index s)); auto. }
    split.
    + unfold answer_stale. rewrite (aget_map_const (fun _ => (index s, false))).
      destruct (find (fun x => Nat.eqb (fst x) t) (filter (stale s) (reqs s))) eqn:Ef; auto.
      rewrite find_key_none in Ef. exfalso. eapply Ef. apply filter_In. eauto.
    + unfold keep_current. intros Hx. apply filter_In in Hx. destruct Hx as [_ Hx].
      rewrite Hs in Hx. discriminate.
Qed.

(* C30, no lost wake-up *)
Theorem tracker_no_missed i0 n s :
  reachable i0 n s ->
  (needs_run s = true -> tk_runnable (tk s) = true \/ signal_pending s) /\
  (forall s' t q, tk s = TkHold -> step s ATrack = Some s' -> In (t, q) (reqs s) ->
     q <> index s \/ terminated s = true ->
     aget (resp s') t = Some (index s, terminated s) /\ ~ In (t, q) (reqs s')) /\
  (quiescent s = true ->
     forall t p c, nth_error (thr s) t = Some (p, c) -> blocked_ok s t p c).
Proof.
  intros R. pose proof (reachable_inv _ _ _ R) as I. split; [exact (inv_wake _ _ I)|]. split.
  - intros s' t q Hk H. simpl in H. eapply iteration_answers; eauto.
  - intros Q. apply (quiescent_shape _ _ I Q).
Qed.

(* whoever must signal or run can actually take a step *)
Theorem tracker_progress i0 n s :
  reachable i0 n s ->
  (forall h, mu s = Some (OThread h) -> step s (AStep h) <> None) /\
  (mu s = Some OTracker -> step s ATrack <> None) /\
  (mu s = None -> tk_runnable (tk s) = true -> step s ATrack <> None).
Proof.
  intros R. pose proof (reachable_inv _ _ _ R) as I. split; [|split].
  - intros h Hm. destruct (inv_mu_thr _ _ I _ Hm) as (p & c & Hn & Hh). simpl.
    unfold step_thread. rewrite Hn. apply holding_enabled. exact Hh.
  - intros Hm. apply (inv_mu_tk _ _ I) in Hm. simpl. unfold track_step.
    destruct (tk s); try discriminate; destruct (terminated s); discriminate.
  - intros Hm Hr. simpl. unfold track_step, mu_free. rewrite Hm.
    destruct (tk s); try discriminate; destruct (terminated s); discriminate.
Qed.

(* C30, immediate answer *)
Theorem tracker_immediate i0 n s t q acts s' :
  reachable i0 n s -> In (t, q) (reqs s) -> q <> index s ->
  run s acts = Some s' -> cnt s' = cnt s -> quiescent s' = true ->
  forall cf, nth_error (thr s') t <> Some (WSel q, cf).
Proof.
  intros R Hin Hq Hrun Hc Q cf Hn. pose proof (reachable_inv _ _ _ R) as I.
  pose proof (run_inv _ _ _ _ I Hrun) as I'.
  destruct (quiescent_shape _ _ I' Q) as (_ & _ & Hb).
  destruct (Hb _ _ _ Hn) as [Hx|(q' & Hx & _ & _ & _ & Hq' & _)]; [discriminate|].
  injection Hx as Hqq. rewrite <- Hqq in Hq'. apply Hq.
  rewrite Hq', (inv_idx _ _ I'), (inv_idx _ _ I), Hc. reflexivity.
Qed.

Theorem tracker_wait0_never_blocks i0 n s t p c :
  reachable i0 n s -> nth_error (thr s) t = Some (p, c) ->
  (p = W0Acq -> mu s = None -> step s (AStep t) <> None) /\
  (p = W0Read -> exists s', step s (AStep t) = Some s' /\
                 nth_error (thr s') t = Some (WRelRet (index s) (err_of_term (terminated s)), c)) /\
  (forall i e, p = WRelRet i e -> exists s', step s (AStep t) = Some s' /\
                 log s' = ERet t (RWait i e) 0 :: log s).
Proof.
  intros R Ht. simpl. unfold step_thread. rewrite Ht. split; [|split].
  - intros -> Hm. simpl. unfold mu_free. rewrite Hm. discriminate.
  - intros ->. simpl. eexists. split; [reflexivity|]. unfold set_thr; flds.
    rewrite (nth_upd _ _ _ _ _ Ht), Nat.eqb_refl. reflexivity.
  - intros i e ->. simpl. eexists. split; reflexivity.
Qed.

(* the index changes only in NotifyOfChange's update, by exactly one step of
   [next_index]; in particular UnlockWithoutNotify never changes it *)
Theorem tracker_index_steps s a s' :
  step s a = Some s' ->
  (index s' = index s /\ cnt s' = cnt s) \/
  (index s' = next_index (index s) /\ cnt s' = S (cnt s) /\ terminated s = false /\
   exists t c, a = AStep t /\ nth_error (thr s) t = Some (NUpd, c)).
Proof.
  intros H. destruct a; simpl in H.
  - destruct (nth_error (thr s) t) as [[p cf]|]; [|discriminate]. destruct p; try discriminate.
    inversion H; subst. auto.
  - unfold step_thread in H. destruct (nth_error (thr s) t) as [[p cf]|] eqn:Ht; [|discriminate].
    destruct p; cbn [thread_step] in H; unf2;
      repeat match type of H with
             | (if ?b then _ else _) = _ => destruct b eqn:?
             | match ?x with _ => _ end = _ => destruct x eqn:?
             end; try discriminate; inversion H; subst s'; flds; auto.
    right. repeat split; auto. eauto.
  - unfold sel_cancel in H. destruct (nth_error (thr s) t) as [[p cf]|]; [|discriminate].
    destruct p; try discriminate. destruct cf; [|discriminate]. inversion H; subst. auto.
  - destruct (nth_error (thr s) t) as [[p cf]|]; [|discriminate].
    destruct (in_wait p); [|discriminate]. inversion H; subst. auto.
  - unfold track_step in H. destruct (tk s); try discriminate;
      try (destruct (mu_free s); [|discriminate]); try (destruct (terminated s));
      inversion H; subst; auto.
  - destruct (quiescent s); [|discriminate]. inversion H; subst. auto.
Qed.

Lemma check_to_mon i0 slack evs :
  check_C30 i0 slack evs = true ->
  exists mf, mon_from (mkCfg i0 (count_notifying evs) slack) m0 evs = MOk mf.
Proof.
  unfold check_C30, mon_from, mon_run.
  destruct (fold_left _ evs (MOk m0)) as [m|k]; [eauto|discriminate].
Qed.

(* ------------------------------------------------------------------ *)
(* C30 as a property of a history, and the soundness of the checker    *)
(* ------------------------------------------------------------------ *)

Definition nowrap (i0 : N) (evs : list event) : Prop :=
  (i0 + N.of_nat (count_notifying evs) <= max_u64)%N.

(* a successful WaitForChange(prev <> 0) returns an index <> prev *)
Definition hist_no_stale (evs : list event) : Prop :=
  forall A t p tm B i tm' D,
    evs = A ++ ECall t (OWait p) tm :: B ++ ERet t (RWait i WOk) tm' :: D ->
    untouched t B -> p <> 0%N -> i <> p.

(* indices returned to successive calls never decrease *)
Definition hist_monotone (i0 : N) (evs : list event) : Prop :=
  nowrap i0 evs ->
  forall A t1 i1 e1 tm1 B t2 p2 tm2 C i2 e2 tm3 D,
    evs = A ++ ERet t1 (RWait i1 e1) tm1 :: B ++ ECall t2 (OWait p2) tm2 :: C
            ++ ERet t2 (RWait i2 e2) tm3 :: D ->
    untouched t2 C -> (i1 <= i2)%N.

(* a notifying call (NotifyOfChange, TrackingLock.Unlock) advances the index *)
Definition hist_unlock_advances (i0 : N) (evs : list event) : Prop :=
  nowrap i0 evs ->
  forall A ta ia ea tm1 B1 tu o tm2 B2 tm3 B3 tb pb tm4 B4 ib eb tm5 D,
    evs = (A ++ ERet ta (RWait ia ea) tm1 :: B1 ++ ECall tu o tm2 :: B2)
            ++ ERet tu RUnit tm3 :: B3 ++ ECall tb (OWait pb) tm4 :: B4
            ++ ERet tb (RWait ib eb) tm5 :: D ->
    is_notifying (ECall tu o tm2) = true ->
    untouched tu B2 -> untouched tb B4 ->
    no_term_call (A ++ ERet ta (RWait ia ea) tm1 :: B1 ++ ECall tu o tm2 :: B2) = true ->
    (ia < ib)%N.

(* a wait that is still blocked at quiescence missed nothing *)
Definition hist_no_missed (i0 : N) (evs : list event) : Prop :=
  forall A t p tm B tq D,
    evs = A ++ ECall t (OWait p) tm :: B ++ EQuiesce tq :: D ->
    untouched t B ->
    p <> 0%N /\ existsb (is_cancel_of t) B = false /\
    exists k, k <= count_notifying evs /\ idx_at i0 k = p.

Definition C30_holds (i0 : N) (evs : list event) : Prop :=
  hist_no_stale evs /\ hist_monotone i0 evs /\ hist_unlock_advances i0 evs /\ hist_no_missed i0 evs.

Theorem check_C30_sound i0 slack evs : check_C30 i0 slack evs = true -> C30_holds i0 evs.
Proof.
  intros H. destruct (check_to_mon _ _ _ H) as [mf Hm]. clear H.
  set (c := mkCfg i0 (count_notifying evs) slack) in *.
  split; [|split; [|split]].
  - intros A t p tm B i tm' D E HB Hp. rewrite E in Hm.
    eapply (sound_no_stale c); eauto.
  - intros Hw A t1 i1 e1 tm1 B t2 p2 tm2 C i2 e2 tm3 D E HC.
    rewrite E in Hm. unfold nowrap in Hw. rewrite E in Hw.
    exact (sound_monotone c A t1 i1 e1 tm1 B t2 p2 tm2 C i2 e2 tm3 D mf Hm HC Hw).
  - intros Hw A ta ia ea tm1 B1 tu o tm2 B2 tm3 B3 tb pb tm4 B4 ib eb tm5 D E Hn H2 H4 Hnt.
    rewrite E in Hm. unfold nowrap in Hw. rewrite E in Hw.
    exact (sound_unlock_advances c A ta ia ea tm1 B1 tu o tm2 B2 tm3 B3 tb pb tm4 B4 ib eb tm5 D mf
                                 Hm Hn H2 H4 Hnt Hw).
  - intros A t p tm B tq D E HB. rewrite E in Hm.
    exact (sound_quiesce c A t p tm B tq D mf Hm HB).
Qed.

(* every history of the transition system has the property *)
Theorem model_C30_holds i0 n acts s :
  run (init_state i0 n) acts = Some s -> C30_holds i0 (history s).
Proof.
  intros H. apply (check_C30_sound i0 None). eapply model_histories_accepted. exact H.
Qed.

(* ------------------------------------------------------------------ *)
(* non-vacuity: a concrete schedule                                    *)
(* ------------------------------------------------------------------ *)
Definition example_schedule : list action :=
  [ ACall 0 (OWait 1); AStep 0; AStep 0; AStep 0; AStep 0;      (* registered, in select *)
    ATrack; ATrack; ATrack;                                    (* loop: nothing to answer, Wait *)
    ACall 1 OUnlock; AStep 1; AStep 1; AStep 1; AStep 1; AStep 1; AStep 1;
    ATrack; ATrack; ATrack;                                    (* woken: answers the request *)
    AStep 0;                                                   (* receive, return (2, nil) *)
    ACall 0 (OWait 2); AStep 0; AStep 0; AStep 0; AStep 0;
    ATrack; ATrack; ATrack; AQuiesce ].

Lemma example_run :
  exists s, run (init_state 1 2) example_schedule = Some s /\
    history s = [ ECall 0 (OWait 1) 0; ECall 1 OUnlock 0; ERet 1 RUnit 0; ERet 0 (RWait 2 WOk) 0;
                  ECall 0 (OWait 2) 0; EQuiesce 0 ] /\
    reqs s = [(0, 2%N)] /\ index s = 2%N /\ tk s = TkWaiting /\
    check_C30 1 (Some 5%N) (history s) = true.
Proof. eexists. vm_compute. repeat split; reflexivity. Qed.

(* the checker rejects histories that violate the property *)
Lemma example_rejects :
  check_C30_code 1 None [ECall 0 (OWait 1) 0; ECall 1 ONotify 0; ERet 1 RUnit 0; ERet 0 (RWait 1 WOk) 0] = 2
  /\ check_C30_code 1 None [ECall 1 OUnlock 0; ERet 1 RUnit 0; ECall 0 (OWait 0) 0; ERet 0 (RWait 1 WOk) 0] = 2
  /\ check_C30_code 1 None [ECall 0 (OWait 1) 0; ECall 1 ONotify 0; ERet 1 RUnit 0; EQuiesce 0] = 2
  /\ check_C30_code 1 (Some 10%N) [ECall 0 (OWait 1) 0; ECall 1 ONotify 5; ERet 1 RUnit 6; ERet 0 (RWait 2 WOk) 100] = 2
  /\ check_C30_code 1 None [ECall 0 (OWait 1) 0; ERet 0 (RWait 1 WTerminated) 0] = 2.
Proof. vm_compute. repeat split; reflexivity. Qed.
