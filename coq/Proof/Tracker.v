(* Proofs about the tracker model (Model/Tracker.v); closes Props/C30.v. *)
From Coq Require Import List Arith NArith Bool Lia.
From Coq Require Import ZifyBool ZifyNat ZifyN.
Import ListNotations.
From Mv Require Import Model.Tracker.

(* ------------------------------------------------------------------ *)
(* lists, association lists                                            *)
(* ------------------------------------------------------------------ *)

Lemma nth_upd {A} (l : list A) t t' (x y : A) :
  nth_error l t = Some y ->
  nth_error (upd l t x) t' = if Nat.eqb t' t then Some x else nth_error l t'.
Proof.
  revert t t'. induction l as [|h r IH]; intros t t' H.
  - destruct t; discriminate.
  - destruct t as [|t]; destruct t' as [|t']; simpl in *; try reflexivity.
    apply IH. exact H.
Qed.

Lemma length_upd {A} (l : list A) t (x : A) : length (upd l t x) = length l.
Proof. revert t. induction l; intros [|t]; simpl; auto. Qed.

Lemma aget_adel_same {A} (l : list (nat * A)) t : aget (adel l t) t = None.
Proof.
  induction l as [|[k v] r IH]; simpl; auto.
  destruct (Nat.eqb k t) eqn:E; simpl; auto. rewrite E. auto.
Qed.

Lemma aget_adel_other {A} (l : list (nat * A)) t t' : t' <> t -> aget (adel l t) t' = aget l t'.
Proof.
  intros Hne. induction l as [|[k v] r IH]; simpl; auto.
  destruct (Nat.eqb k t) eqn:E; simpl.
  - apply Nat.eqb_eq in E. subst k. destruct (Nat.eqb_spec t t'); [congruence|auto].
  - rewrite IH. reflexivity.
Qed.

Lemma in_adel {A} (l : list (nat * A)) t t' v : In (t', v) (adel l t) <-> (In (t', v) l /\ t' <> t).
Proof.
  induction l as [|[k w] r IH]; simpl; [tauto|].
  destruct (Nat.eqb_spec k t); simpl; rewrite IH; split; intros H.
  - tauto.
  - destruct H as [[H|H] Hne]; [inversion H; subst; congruence | tauto].
  - destruct H as [H|H]; [inversion H; subst; tauto | tauto].
  - tauto.
Qed.

Lemma aget_map_const {A B} (f : nat * A -> B) (l : list (nat * A)) (r : list (nat * B)) t :
  aget (map (fun x => (fst x, f x)) l ++ r) t =
  match find (fun x => Nat.eqb (fst x) t) l with
  | Some x => Some (f x)
  | None => aget r t
  end.
Proof.
  induction l as [|[k v] l IH]; simpl; auto.
  destruct (Nat.eqb k t); auto.
Qed.

Lemma find_key_none {A} (l : list (nat * A)) t :
  find (fun x => Nat.eqb (fst x) t) l = None <-> (forall v, ~ In (t, v) l).
Proof.
  induction l as [|[k v] l IH]; simpl.
  - split; auto.
  - destruct (Nat.eqb_spec k t).
    + subst. split; [discriminate|]. intros H. exfalso. apply (H v). auto.
    + rewrite IH. split; intros H w.
      * intros [E|E]; [inversion E; congruence | exact (H w E)].
      * intros E. apply (H w). auto.
Qed.

Lemma find_key_some {A} (l : list (nat * A)) t x :
  find (fun x => Nat.eqb (fst x) t) l = Some x -> In x l /\ fst x = t.
Proof.
  intros H. apply find_some in H. destruct H as [H1 H2]. apply Nat.eqb_eq in H2. auto.
Qed.

Lemma aget_map_snd {A B} (f : A -> B) (l : list (nat * A)) t :
  aget (map (fun x => (fst x, f (snd x))) l) t = option_map f (aget l t).
Proof.
  induction l as [|[k v] l IH]; simpl; auto. destruct (Nat.eqb k t); auto.
Qed.

(* ------------------------------------------------------------------ *)
(* the index                                                           *)
(* ------------------------------------------------------------------ *)

Lemma next_index_neq i : next_index i <> i.
Proof. unfold next_index, max_u64. destruct (N.eqb_spec i 18446744073709551615); lia. Qed.

Lemma next_index_pos i : next_index i <> 0%N.
Proof. unfold next_index. destruct (N.eqb i max_u64); lia. Qed.

Lemma idx_at_nowrap i0 k :
  (i0 + N.of_nat k <= max_u64)%N -> idx_at i0 k = (i0 + N.of_nat k)%N.
Proof.
  induction k as [|k IH]; intros H; simpl.
  - lia.
  - rewrite IH by lia. unfold next_index.
    destruct (N.eqb_spec (i0 + N.of_nat k) max_u64); lia.
Qed.

Lemma find_k_some i0 i from n k :
  find_k i0 i from n = Some k -> from <= k < from + n /\ idx_at i0 k = i /\
  forall j, from <= j < k -> idx_at i0 j <> i.
Proof.
  revert from. induction n as [|n IH]; intros from H; simpl in H; [discriminate|].
  destruct (N.eqb_spec (idx_at i0 from) i).
  - inversion H; subst. repeat split; try lia.
  - apply IH in H. destruct H as [H1 [H2 H3]]. repeat split; try lia; auto.
    intros j Hj. destruct (Nat.eq_dec j from); [subst; auto|]. apply H3. lia.
Qed.

Lemma find_k_none i0 i from n :
  find_k i0 i from n = None <-> (forall k, from <= k < from + n -> idx_at i0 k <> i).
Proof.
  revert from. induction n as [|n IH]; intros from; simpl.
  - split; auto. intros _ k Hk. lia.
  - destruct (N.eqb_spec (idx_at i0 from) i).
    + split; [discriminate|]. intros H. exfalso. apply (H from); auto. lia.
    + rewrite IH. split; intros H k Hk.
      * destruct (Nat.eq_dec k from); [subst; auto|]. apply H. lia.
      * apply H. lia.
Qed.

Lemma find_k_complete i0 i from n k :
  from <= k < from + n -> idx_at i0 k = i ->
  exists k', find_k i0 i from n = Some k' /\ from <= k' <= k /\ idx_at i0 k' = i.
Proof.
  intros Hk Hi. destruct (find_k i0 i from n) as [k'|] eqn:E.
  - exists k'. split; auto. apply find_k_some in E. destruct E as [E1 [E2 E3]].
    split; auto. split; [lia|]. destruct (le_lt_dec k' k); auto.
    exfalso. apply (E3 k); auto. lia.
  - exfalso. rewrite find_k_none in E. apply (E k); auto.
Qed.

(* ------------------------------------------------------------------ *)
(* structural invariant of the transition system                       *)
(* ------------------------------------------------------------------ *)

Definition holding (p : pc) : bool :=
  match p with
  | NUpd | NSig | NRel _ | W0Read | WRelRet _ _ | WReg _ | WSig _ | WRel _ | WCDel _
  | TSet | TSig | TRel => true
  | _ => false
  end.
Definition presignal (p : pc) : bool :=
  match p with NSig | WSig _ | TSig => true | _ => false end.
Definition tk_holds (k : tkpc) : bool :=
  match k with TkHold | TkPreWait | TkExiting => true | _ => false end.
Definition tk_exited (k : tkpc) : bool :=
  match k with TkExiting | TkClosing | TkDone => true | _ => false end.
Definition tk_runnable (k : tkpc) : bool :=
  match k with TkStart | TkHold | TkWoken => true | _ => false end.

(* the tracking goroutine has work to do: termination to process, or a
   registered request whose previous index differs from the index *)
Definition needs_run (s : state) : bool :=
  (terminated s && negb (tk_exited (tk s))) || existsb (stale s) (reqs s).

Definition registered (p : pc) (q : N) : Prop :=
  p = WSig q \/ p = WRel q \/ p = WSel q \/ p = WCAcq q \/ p = WCDel q.

Definition pc_ok (s : state) (t : nat) (p : pc) : Prop :=
  (holding p = true -> mu s = Some (OThread t)) /\
  match p with
  | LRel _ => tl s = Some t
  | WAcq q | WReg q => q <> 0%N
  | WSig q | WRel q | WSel q | WCAcq q | WCDel q =>
      q <> 0%N /\ (In (t, q) (reqs s) \/ aget (resp s) t <> None)
  | TSig | TRel | TAwait => terminated s = true
  | _ => True
  end.

Definition signal_pending (s : state) : Prop :=
  exists h p c, mu s = Some (OThread h) /\ nth_error (thr s) h = Some (p, c) /\ presignal p = true.

Record Inv (i0 : N) (s : state) : Prop := mkInv {
  inv_pc : forall t p c, nth_error (thr s) t = Some (p, c) -> pc_ok s t p;
  inv_mu_thr : forall t, mu s = Some (OThread t) ->
               exists p c, nth_error (thr s) t = Some (p, c) /\ holding p = true;
  inv_mu_tk : mu s = Some OTracker <-> tk_holds (tk s) = true;
  inv_tl : forall t, tl s = Some t -> exists n c, nth_error (thr s) t = Some (LRel n, c);
  inv_reqs : forall t q, In (t, q) (reqs s) ->
             aget (resp s) t = None /\
             exists p c, nth_error (thr s) t = Some (p, c) /\ registered p q;
  inv_exit : tk_exited (tk s) = true -> reqs s = [] /\ terminated s = true;
  inv_done : tdone s = true <-> tk s = TkDone;
  inv_idx : index s = idx_at i0 (cnt s);
  inv_wake : needs_run s = true -> tk_runnable (tk s) = true \/ signal_pending s
}.

Lemma inv_init i0 n : Inv i0 (init_state i0 n).
Proof.
  constructor; simpl; try discriminate; try tauto; auto.
  - intros t p c H. apply nth_error_In in H. apply repeat_spec in H. inversion H; subst.
    split; simpl; auto; discriminate.
  - split; discriminate.
  - split; discriminate.
Qed.

Ltac unf := unfold set_thr, set_mu, set_tl, set_tk, set_reqs, set_resp, add_log, bump, set_term,
            set_tdone, mu_free in *.

(* a thread that holds the lock excludes the tracker and every other holder *)
Lemma holder_unique i0 s t p c :
  Inv i0 s -> nth_error (thr s) t = Some (p, c) -> holding p = true ->
  mu s = Some (OThread t) /\ tk_holds (tk s) = false.
Proof.
  intros I H Hh. pose proof (proj1 (inv_pc _ _ I _ _ _ H) Hh) as Hm. split; auto.
  destruct (tk_holds (tk s)) eqn:E; auto. apply (inv_mu_tk _ _ I) in E. congruence.
Qed.

(* ------------------------------------------------------------------ *)
(* preservation of the invariant by every step                         *)
(* ------------------------------------------------------------------ *)

Ltac flds := cbn [index cnt terminated mu tl tk tdone reqs resp thr log] in *.
Ltac unf2 := unfold set_thr, set_mu, set_tl, set_tk, set_reqs, set_resp, add_log, bump, set_term,
            set_tdone in *.

Lemma mu_free_true s : mu_free s = true -> mu s = None.
Proof. unfold mu_free. destruct (mu s); auto; discriminate. Qed.

Lemma tk_holds_signal k : tk_holds (signal_tk k) = tk_holds k.
Proof. destruct k; reflexivity. Qed.
Lemma tk_exited_signal k : tk_exited (signal_tk k) = tk_exited k.
Proof. destruct k; reflexivity. Qed.
Lemma signal_done k : signal_tk k = TkDone <-> k = TkDone.
Proof. destruct k; simpl; split; congruence. Qed.

Ltac tcases p Hs Hhold Hpc s' :=
  destruct p; cbn [thread_step] in Hs; unf2; simpl in Hhold; try specialize (Hhold eq_refl);
  simpl in Hpc;
  repeat match type of Hs with
         | (if ?b then _ else _) = _ => destruct b eqn:?
         | match ?x with _ => _ end = _ => destruct x eqn:?
         end; try discriminate; inversion Hs; subst s'; clear Hs; flds;
  repeat match goal with H : mu_free _ = true |- _ => apply mu_free_true in H end.


Lemma existsb_adel {A} (f : nat * A -> bool) l t : existsb f (adel l t) = true -> existsb f l = true.
Proof.
  induction l as [|[k v] l IH]; simpl; auto.
  destruct (Nat.eqb k t); simpl; intros H.
  - rewrite IH by auto. apply orb_true_r.
  - apply orb_true_iff in H. destruct H as [H|H]; [rewrite H; auto|rewrite IH by auto; apply orb_true_r].
Qed.

Lemma needs_run_eq s s' :
  terminated s' = terminated s -> tk_exited (tk s') = tk_exited (tk s) -> index s' = index s ->
  reqs s' = reqs s -> needs_run s' = needs_run s.
Proof. intros H1 H2 H3 H4. unfold needs_run, stale. rewrite H1, H2, H3, H4. reflexivity. Qed.

Lemma needs_run_adel s s' t :
  terminated s' = terminated s -> tk_exited (tk s') = tk_exited (tk s) -> index s' = index s ->
  reqs s' = adel (reqs s) t -> needs_run s' = true -> needs_run s = true.
Proof.
  intros H1 H2 H3 H4. unfold needs_run, stale. rewrite H1, H2, H3, H4. intros H.
  apply orb_true_iff in H. destruct H as [H|H]; [rewrite H; auto|].
  apply existsb_adel in H. rewrite H. apply orb_true_r.
Qed.

Lemma wake_other i0 s s' t p c p' c' :
  Inv i0 s -> nth_error (thr s) t = Some (p, c) ->
  presignal p = false ->
  thr s' = upd (thr s) t (p', c') -> tk s' = tk s ->
  (mu s' = mu s \/ mu s = None \/ mu s = Some (OThread t)) ->
  (needs_run s' = true -> needs_run s = true) ->
  needs_run s' = true -> tk_runnable (tk s') = true \/ signal_pending s'.
Proof.
  intros I Ht Hp Hthr Htk Hmu Hnr H. apply Hnr in H.
  destruct (inv_wake _ _ I H) as [R|(h & ph & ch & Hm & Hn & Hps)]; [left; rewrite Htk; auto|].
  right. destruct (Nat.eq_dec h t) as [->|Hne]; [rewrite Ht in Hn; inversion Hn; subst; congruence|].
  exists h, ph, ch. split; [|split; auto].
  - destruct Hmu as [Hmu|[Hmu|Hmu]]; congruence.
  - rewrite Hthr, (nth_upd _ _ _ _ _ Ht). destruct (Nat.eqb_spec h t); [congruence|auto].
Qed.

Lemma wake_signal i0 s s' t p c :
  Inv i0 s -> nth_error (thr s) t = Some (p, c) ->
  mu s = Some (OThread t) ->
  tk s' = signal_tk (tk s) ->
  (needs_run s' = true -> needs_run s = true) ->
  needs_run s' = true -> tk_runnable (tk s') = true \/ signal_pending s'.
Proof.
  intros I Ht Hmu Htk Hnr H. apply Hnr in H. left. rewrite Htk.
  pose proof (inv_mu_tk _ _ I) as Imt. pose proof (inv_exit _ _ I) as Iex.
  destruct (inv_wake _ _ I H) as [R|_]; [destruct (tk s); simpl in *; congruence|].
  destruct (tk s) eqn:E; simpl in *; auto.
  - assert (mu s = Some OTracker) by (apply Imt; auto). congruence.
  - assert (mu s = Some OTracker) by (apply Imt; auto). congruence.
  - destruct (Iex eq_refl) as [Hr Ht']. unfold needs_run in H. rewrite E, Hr in H. simpl in H.
    rewrite andb_false_r in H. discriminate.
  - destruct (Iex eq_refl) as [Hr Ht']. unfold needs_run in H. rewrite E, Hr in H. simpl in H.
    rewrite andb_false_r in H. discriminate.
Qed.

Lemma thread_step_inv i0 s t p c s' :
  Inv i0 s -> nth_error (thr s) t = Some (p, c) -> thread_step s t p c = Some s' -> Inv i0 s'.
Proof.
  intros I Ht Hs.
  pose proof (inv_pc _ _ I _ _ _ Ht) as [Hhold Hpc].
  pose proof (inv_mu_tk _ _ I) as Imt.
  pose proof (inv_exit _ _ I) as Iex.
  pose proof (inv_done _ _ I) as Idn.
  pose proof (inv_idx _ _ I) as Iix.
  tcases p Hs Hhold Hpc s'.
  all: constructor; flds.
  (* field 3 *)
  all: try (rewrite ?tk_holds_signal; split; intros; try congruence; try tauto;
            match goal with H : tk_holds _ = true |- _ => apply Imt in H; congruence end).
  (* field 7 *)
  all: try (rewrite ?signal_done; exact Idn).
  (* field 8 *)
  all: try exact Iix.
  all: try (simpl; congruence).
  (* field 6 *)
  all: try (rewrite ?tk_exited_signal; exact Iex).
  all: try (rewrite ?tk_exited_signal; intros Hx; destruct (Iex Hx) as [Hx1 Hx2]; rewrite ?Hx1; simpl; split; auto; congruence).
  (* field 2: mu_thr *)
  all: try (intros tz Hm; rewrite (nth_upd _ _ _ _ _ Ht); destruct (Nat.eqb_spec tz t) as [->|Hne];
    [ first [ solve [do 2 eexists; split; reflexivity]
            | destruct (inv_mu_thr _ _ I _ Hm) as (pz & cz & Hn & Hh); rewrite Ht in Hn; inversion Hn; subst; discriminate
            | congruence ]
    | first [ congruence | apply (inv_mu_thr _ _ I); congruence ] ]).
  (* field 4: tl *)
  all: try (intros tz Htl; rewrite (nth_upd _ _ _ _ _ Ht); destruct (Nat.eqb_spec tz t) as [->|Hne];
    [ first [ solve [do 2 eexists; reflexivity]
            | destruct (inv_tl _ _ I _ Htl) as (nz & cz & Hn); rewrite Ht in Hn; inversion Hn
            | congruence ]
    | first [ congruence | apply (inv_tl _ _ I); congruence ] ]).
  (* field 5: reqs *)
  all: try (intros tz q Hin; simpl in Hin; rewrite ?in_adel in Hin;
    try (destruct Hin as [Heq|Hin]; [inversion Heq; subst; clear Heq; rewrite (nth_upd _ _ _ _ _ Ht), Nat.eqb_refl, aget_adel_same; split; [reflexivity|do 2 eexists; split; [reflexivity|unfold registered; auto]]|]);
    try (destruct Hin as [Hin Hne0]);
    rewrite (nth_upd _ _ _ _ _ Ht);
    destruct (inv_reqs _ _ I _ _ Hin) as (Hr & pz & cz & Hn & Hreg);
    destruct (Nat.eqb_spec tz t) as [->|Hne];
    [ try congruence; rewrite Ht in Hn; inversion Hn; subst; clear Hn;
      unfold registered in Hreg; destruct Hreg as [Hreg|[Hreg|[Hreg|[Hreg|Hreg]]]]; try discriminate;
      inversion Hreg; subst; split; try (rewrite ?aget_adel_same; solve [auto]);
      try (do 2 eexists; split; try reflexivity; unfold registered; solve [auto 6])
    | split; [rewrite ?aget_adel_other by auto; exact Hr|eauto] ]).
  (* field 1: pc_ok *)
  all: try (intros tz pz cz Hn; rewrite (nth_upd _ _ _ _ _ Ht) in Hn;
    destruct (Nat.eqb_spec tz t) as [->|Hne];
    [ inversion Hn; subst; clear Hn; split; simpl; flds;
      try solve [intros; congruence | tauto | intuition auto | intuition congruence]
    | pose proof (inv_pc _ _ I _ _ _ Hn) as [Hh2 Hp2]; split; flds;
      [ intros Hx; apply Hh2 in Hx; congruence
      | destruct pz; simpl in *; try tauto; try congruence;
        rewrite ?in_adel, ?aget_adel_other by auto; intuition (try congruence) ] ]).
  (* field 9: wake *)
  all: try (intros Hnr; match type of Hnr with needs_run ?S = true =>
    first [ right; exists t; do 2 eexists; split; [first [reflexivity|exact Hhold]|split; [cbn [thr]; rewrite (nth_upd _ _ _ _ _ Ht), Nat.eqb_refl; reflexivity|reflexivity]]
          | apply (wake_signal i0 s S _ _ _ I Ht); [assumption|reflexivity| |exact Hnr];
            intros Hz; rewrite <- Hz; symmetry; apply needs_run_eq; cbn; rewrite ?tk_exited_signal; auto
          | eapply (wake_other i0 s S _ _ _ _ _ I Ht); [reflexivity|reflexivity|reflexivity|cbn; auto| |exact Hnr];
            first [ solve [intros Hz; rewrite <- Hz; symmetry; apply needs_run_eq; cbn; auto]
                  | apply (needs_run_adel _ _ t); reflexivity ] ] end).
Qed.

(* a step that only changes the pc / flag of a thread that does not hold the lock, to a pc that
   does not hold it, and the log *)
Lemma pc_only_inv i0 s t p c p' c' lg :
  Inv i0 s -> nth_error (thr s) t = Some (p, c) ->
  holding p = false -> holding p' = false ->
  (forall q, registered p q -> registered p' q) ->
  (match p with LRel _ => False | _ => True end) ->
  pc_ok s t p' ->
  Inv i0 (mkSt (index s) (cnt s) (terminated s) (mu s) (tl s) (tk s) (tdone s) (reqs s) (resp s)
               (upd (thr s) t (p', c')) lg).
Proof.
  intros I Ht Hp Hp' Hreg Hnl Hok. constructor; flds.
  - intros tz pz cz Hn. rewrite (nth_upd _ _ _ _ _ Ht) in Hn.
    destruct (Nat.eqb_spec tz t) as [->|Hne].
    + inversion Hn; subst. exact Hok.
    + exact (inv_pc _ _ I _ _ _ Hn).
  - intros tz Hm. destruct (inv_mu_thr _ _ I _ Hm) as (pz & cz & Hn & Hh).
    rewrite (nth_upd _ _ _ _ _ Ht). destruct (Nat.eqb_spec tz t) as [->|Hne]; [congruence|eauto].
  - exact (inv_mu_tk _ _ I).
  - intros tz Htl. destruct (inv_tl _ _ I _ Htl) as (nz & cz & Hn).
    rewrite (nth_upd _ _ _ _ _ Ht). destruct (Nat.eqb_spec tz t) as [->|Hne]; [|eauto].
    rewrite Ht in Hn. inversion Hn; subst. contradiction.
  - intros tz q Hin. destruct (inv_reqs _ _ I _ _ Hin) as (Hr & pz & cz & Hn & Hrg). split; auto.
    rewrite (nth_upd _ _ _ _ _ Ht). destruct (Nat.eqb_spec tz t) as [->|Hne]; [|eauto].
    rewrite Ht in Hn. inversion Hn; subst. eauto.
  - exact (inv_exit _ _ I).
  - exact (inv_done _ _ I).
  - exact (inv_idx _ _ I).
  - intros Hnr.
    match type of Hnr with needs_run ?S = true =>
      apply (wake_other i0 s S t p c p' c' I Ht) end; auto.
    destruct p; simpl in *; congruence.
Qed.

Lemma call_inv i0 s t o s' : Inv i0 s -> step s (ACall t o) = Some s' -> Inv i0 s'.
Proof.
  intros I H. simpl in H. destruct (nth_error (thr s) t) as [[p c]|] eqn:Ht; [|discriminate].
  destruct p; try discriminate. inversion H; subst s'; clear H. unfold add_log, set_thr; flds.
  apply (pc_only_inv i0 s t Idle c); auto.
  - destruct o as [| | | |q]; simpl; auto. destruct (N.eqb q 0); auto.
  - intros q Hr. unfold registered in Hr. intuition discriminate.
  - split; [destruct o as [| | | |q]; simpl; try discriminate; destruct (N.eqb q 0); discriminate|].
    destruct o as [| | | |q]; simpl; auto. destruct (N.eqb_spec q 0); simpl; auto.
Qed.

Lemma cancel_inv i0 s t s' : Inv i0 s -> step s (ACancel t) = Some s' -> Inv i0 s'.
Proof.
  intros I H. simpl in H. destruct (nth_error (thr s) t) as [[p c]|] eqn:Ht; [|discriminate].
  destruct (in_wait p) eqn:Ew; [|discriminate]. inversion H; subst s'; clear H.
  unfold add_log, set_thr; flds.
  constructor; flds; try apply I.
  - intros tz pz cz Hn. rewrite (nth_upd _ _ _ _ _ Ht) in Hn.
    destruct (Nat.eqb_spec tz t) as [->|Hne].
    + inversion Hn; subst. exact (inv_pc _ _ I _ _ _ Ht).
    + exact (inv_pc _ _ I _ _ _ Hn).
  - intros tz Hm. destruct (inv_mu_thr _ _ I _ Hm) as (pz & cz & Hn & Hh).
    rewrite (nth_upd _ _ _ _ _ Ht). destruct (Nat.eqb_spec tz t) as [->|Hne]; [|eauto].
    rewrite Ht in Hn. inversion Hn; subst. eauto.
  - intros tz Htl. destruct (inv_tl _ _ I _ Htl) as (nz & cz & Hn).
    rewrite (nth_upd _ _ _ _ _ Ht). destruct (Nat.eqb_spec tz t) as [->|Hne]; [|eauto].
    rewrite Ht in Hn. inversion Hn; subst. eauto.
  - intros tz q Hin. destruct (inv_reqs _ _ I _ _ Hin) as (Hr & pz & cz & Hn & Hrg). split; auto.
    rewrite (nth_upd _ _ _ _ _ Ht). destruct (Nat.eqb_spec tz t) as [->|Hne]; [|eauto].
    rewrite Ht in Hn. inversion Hn; subst. eauto.
  - intros Hnr. change (needs_run s = true) in Hnr.
    destruct (inv_wake _ _ I Hnr) as [R|(h & ph & ch & Hm & Hn & Hps)]; [left; auto|right].
    destruct (Nat.eq_dec h t) as [->|Hne].
    + rewrite Ht in Hn. inversion Hn; subst. exists t, ph, true. flds.
      rewrite (nth_upd _ _ _ _ _ Ht), Nat.eqb_refl. auto.
    + exists h, ph, ch. flds. rewrite (nth_upd _ _ _ _ _ Ht).
      destruct (Nat.eqb_spec h t); [congruence|auto].
Qed.

Lemma selcancel_inv i0 s t s' : Inv i0 s -> step s (ASelCancel t) = Some s' -> Inv i0 s'.
Proof.
  intros I H. simpl in H. unfold sel_cancel in H.
  destruct (nth_error (thr s) t) as [[p c]|] eqn:Ht; [|discriminate].
  destruct p; try discriminate. destruct c; [|discriminate]. inversion H; subst s'; clear H.
  unfold set_thr. apply (pc_only_inv i0 s t (WSel p) true); auto.
  - intros q Hr. unfold registered in *.
    destruct Hr as [Hr|[Hr|[Hr|[Hr|Hr]]]]; try discriminate. inversion Hr; subst; auto 6.
  - pose proof (inv_pc _ _ I _ _ _ Ht) as [_ Hp]. split; [discriminate|exact Hp].
Qed.

Lemma reqs_key_unique i0 s t q q' : Inv i0 s -> In (t, q) (reqs s) -> In (t, q') (reqs s) -> q = q'.
Proof.
  intros I H1 H2. destruct (inv_reqs _ _ I _ _ H1) as (_ & p1 & c1 & Hn1 & R1).
  destruct (inv_reqs _ _ I _ _ H2) as (_ & p2 & c2 & Hn2 & R2).
  rewrite Hn1 in Hn2. inversion Hn2; subst. unfold registered in *.
  destruct R1 as [R1|[R1|[R1|[R1|R1]]]]; destruct R2 as [R2|[R2|[R2|[R2|R2]]]]; congruence.
Qed.

Lemma existsb_filter_neg {A} (f : A -> bool) l : existsb f (filter (fun x => negb (f x)) l) = false.
Proof.
  induction l as [|x l IH]; simpl; auto. destruct (f x) eqn:E; simpl; auto. rewrite E. auto.
Qed.

Lemma track_inv i0 s s' : Inv i0 s -> track_step s = Some s' -> Inv i0 s'.
Proof.
  intros I H. unfold track_step in H.
  pose proof (inv_mu_tk _ _ I) as Imt. pose proof (inv_exit _ _ I) as Iex.
  pose proof (inv_done _ _ I) as Idn.
  assert (Hacq : mu_free s = true -> tk s = TkStart \/ tk s = TkWoken ->
                 Inv i0 (set_tk (set_mu s (Some OTracker)) TkHold)).
  { intros Hf Hk. apply mu_free_true in Hf. unf2. constructor; flds; try apply I.
    - intros tz pz cz Hn. destruct (inv_pc _ _ I _ _ _ Hn) as [Hh Hp]. split; flds; auto.
      intros Hx. apply Hh in Hx. congruence.
    - congruence.
    - tauto.
    - intros Hx. discriminate.
    - split; [intros Hx; apply Idn in Hx; destruct Hk; congruence|discriminate].
    - auto. }
  assert (Hrel : forall k, tk_holds (tk s) = true -> tk_holds k = false ->
                 (tk_exited k = true -> tk_exited (tk s) = true) ->
                 (k = TkDone -> False) ->
                 (needs_run (set_tk (set_mu s None) k) = true -> False) ->
                 Inv i0 (set_tk (set_mu s None) k)).
  { intros k Hk Hk' Hex Hnd Hnr. assert (Hm : mu s = Some OTracker) by (apply Imt; auto).
    unf2. constructor; flds; try apply I.
    - intros tz pz cz Hn. destruct (inv_pc _ _ I _ _ _ Hn) as [Hh Hp]. split; flds; auto.
      intros Hx. apply Hh in Hx. congruence.
    - discriminate.
    - split; [discriminate|congruence].
    - intros Hx. apply Iex. auto.
    - split; [|intros Hx; contradiction]. intros Hx. apply Idn in Hx.
      rewrite Hx in Hk. discriminate.
    - intros Hx. contradiction. }
  destruct (tk s) eqn:Etk.
  - (* TkStart *) destruct (mu_free s) eqn:Ef; [|discriminate]. inversion H; subst. auto.
  - (* TkHold *)
    assert (Hm : mu s = Some OTracker) by (apply Imt; auto).
    destruct (terminated s) eqn:Et; inversion H; subst s'; clear H; unf2; constructor; flds;
      try apply I; try tauto.
    + (* pc_ok, terminated *)
      intros tz pz cz Hn. destruct (inv_pc _ _ I _ _ _ Hn) as [Hh Hp]. split; flds; auto.
      destruct pz; simpl in *; auto; destruct Hp as [Hq Hp]; split; auto; right;
        unfold answer_all; rewrite (aget_map_const (fun _ => (index s, true)));
        (destruct (find _ (reqs s)) eqn:Ef; [simpl; congruence|]);
        (destruct Hp as [Hp|Hp]; [|exact Hp]); rewrite find_key_none in Ef; exfalso; eapply Ef; eauto.
    + intros tz q [].
    + split; [intros Hx; apply Idn in Hx; congruence|discriminate].
    + unfold needs_run; flds. simpl. rewrite andb_false_r. discriminate.
    + (* pc_ok, not terminated *)
      intros tz pz cz Hn. destruct (inv_pc _ _ I _ _ _ Hn) as [Hh Hp]. split; flds; auto.
      destruct pz; simpl in *; auto; destruct Hp as [Hq Hp]; split; auto;
        unfold answer_stale, keep_current; rewrite (aget_map_const (fun _ => (index s, false)));
        (destruct (find _ (filter (stale s) (reqs s))) eqn:Ef; [right; simpl; congruence|]);
        (destruct Hp as [Hp|Hp]; [|right; exact Hp]); left; rewrite find_key_none in Ef;
        apply filter_In; split; auto;
        (destruct (stale s (tz, p)) eqn:Es; auto); exfalso; eapply Ef; apply filter_In; eauto.
    + (* reqs *)
      intros tz q Hin. unfold keep_current in Hin. apply filter_In in Hin. destruct Hin as [Hin Hs].
      destruct (inv_reqs _ _ I _ _ Hin) as (Hr & Hex). split; auto.
      unfold answer_stale. rewrite (aget_map_const (fun _ => (index s, false))).
      destruct (find _ (filter (stale s) (reqs s))) eqn:Ef; auto.
      apply find_key_some in Ef. destruct Ef as [Ef1 Ef2]. apply filter_In in Ef1.
      destruct p as [tz' q']. simpl in Ef2. subst tz'. destruct Ef1 as [Ef1 Ef3].
      rewrite (reqs_key_unique _ _ _ _ _ I Hin Ef1) in Hs. rewrite Ef3 in Hs. discriminate.
    + intros Hx. discriminate.
    + split; [intros Hx; apply Idn in Hx; congruence|discriminate].
    + unfold needs_run; flds. rewrite Et. simpl. unfold keep_current.
      replace (stale _) with (stale s) by reflexivity.
      rewrite existsb_filter_neg. discriminate.
  - (* TkPreWait *) inversion H; subst s'. apply Hrel; auto; try discriminate.
    intros Hx. assert (Hn : needs_run s = true).
    { rewrite <- Hx. symmetry. apply needs_run_eq; unf2; flds; rewrite ?Etk; reflexivity. }
    destruct (inv_wake _ _ I Hn) as [R|(h & ph & ch & Hm & _)].
    + rewrite Etk in R. discriminate.
    + assert (mu s = Some OTracker) by (apply Imt; rewrite ?Etk; auto). congruence.
  - discriminate.
  - (* TkWoken *) destruct (mu_free s) eqn:Ef; [|discriminate]. inversion H; subst. auto.
  - (* TkExiting *) inversion H; subst s'. apply Hrel; auto; try discriminate.
    intros Hx. destruct (Iex eq_refl) as [Hr Ht]. unfold needs_run in Hx. unf2. flds.
    rewrite Hr in Hx. simpl in Hx. rewrite andb_false_r in Hx. discriminate.
  - (* TkClosing *) inversion H; subst s'; clear H. unf2. constructor; flds; try apply I; try tauto.
    + intros Hx. destruct (Iex eq_refl) as [Hr Ht]. unfold needs_run in Hx. flds.
      rewrite Hr in Hx. simpl in Hx. rewrite andb_false_r in Hx. discriminate.
  - discriminate.
Qed.

Lemma step_inv i0 s a s' : Inv i0 s -> step s a = Some s' -> Inv i0 s'.
Proof.
  intros I H. destruct a.
  - eapply call_inv; eauto.
  - simpl in H. unfold step_thread in H.
    destruct (nth_error (thr s) t) as [[p c]|] eqn:Ht; [|discriminate].
    eapply thread_step_inv; eauto.
  - eapply selcancel_inv; eauto.
  - eapply cancel_inv; eauto.
  - eapply track_inv; eauto.
  - simpl in H. destruct (quiescent s); [|discriminate]. inversion H; subst s'.
    unfold add_log. constructor; flds; apply I.
Qed.

Lemma run_inv i0 acts : forall s s', Inv i0 s -> run s acts = Some s' -> Inv i0 s'.
Proof.
  induction acts as [|a r IH]; intros s s' I H; simpl in H.
  - inversion H; subst; auto.
  - destruct (step s a) eqn:E; [|discriminate]. eapply IH; [|exact H]. eapply step_inv; eauto.
Qed.

Lemma run_app s a1 a2 :
  run s (a1 ++ a2) = match run s a1 with Some s1 => run s1 a2 | None => None end.
Proof.
  revert s. induction a1 as [|a r IH]; intros s; simpl; auto.
  destruct (step s a); auto.
Qed.

(* ------------------------------------------------------------------ *)
(* progress: what a state in which nothing can move looks like         *)
(* ------------------------------------------------------------------ *)

Lemma holding_enabled s t p c : holding p = true -> thread_step s t p c <> None.
Proof.
  destruct p; simpl; try discriminate; intros _; try discriminate.
  - destruct (terminated s); discriminate.
  - destruct (terminated s); discriminate.
Qed.

Lemma quiescent_thread s t p c :
  quiescent s = true -> nth_error (thr s) t = Some (p, c) ->
  thread_step s t p c = None /\ sel_cancel s t = None.
Proof.
  intros Q Ht. unfold quiescent in Q. apply andb_true_iff in Q. destruct Q as [_ Q].
  rewrite forallb_forall in Q. assert (Hl : t < length (thr s)) by (apply nth_error_Some; congruence).
  specialize (Q t). rewrite in_seq in Q. specialize (Q (conj (Nat.le_0_l _) Hl)).
  apply andb_true_iff in Q. destruct Q as [Q1 Q2]. unfold step_thread in Q1. rewrite Ht in Q1.
  split.
  - destruct (thread_step s t p c); [discriminate|auto].
  - destruct (sel_cancel s t); [discriminate|auto].
Qed.

Definition blocked_ok (s : state) (t : nat) (p : pc) (c : bool) : Prop :=
  p = Idle \/
  exists q, p = WSel q /\ c = false /\ aget (resp s) t = None /\ In (t, q) (reqs s) /\
            q = index s /\ terminated s = false.

Lemma stale_needs_run s t q : In (t, q) (reqs s) -> q <> index s -> needs_run s = true.
Proof.
  intros Hin Hq. unfold needs_run. apply orb_true_iff. right. apply existsb_exists.
  exists (t, q). split; auto. unfold stale. simpl. destruct (N.eqb_spec q (index s)); auto.
Qed.

Lemma quiescent_shape i0 s :
  Inv i0 s -> quiescent s = true ->
  mu s = None /\ (tk s = TkWaiting \/ tk s = TkDone) /\
  forall t p c, nth_error (thr s) t = Some (p, c) -> blocked_ok s t p c.
Proof.
  intros I Q.
  assert (Htk : track_step s = None).
  { unfold quiescent in Q. apply andb_true_iff in Q. destruct Q as [Q _].
    destruct (track_step s); [discriminate|auto]. }
  assert (Hmu : mu s = None).
  { destruct (mu s) as [[|h]|] eqn:Em; auto.
    - apply (inv_mu_tk _ _ I) in Em. unfold track_step in Htk.
      destruct (tk s); try discriminate; destruct (terminated s); discriminate.
    - destruct (inv_mu_thr _ _ I _ Em) as (p & c & Hn & Hh).
      destruct (quiescent_thread _ _ _ _ Q Hn) as [Hs _]. exfalso.
      exact (holding_enabled _ _ _ _ Hh Hs). }
  assert (Hk : tk s = TkWaiting \/ tk s = TkDone).
  { unfold track_step, mu_free in Htk. rewrite Hmu in Htk.
    destruct (tk s); try discriminate; auto; destruct (terminated s); discriminate. }
  assert (Hnr : needs_run s = false).
  { destruct (needs_run s) eqn:En; auto. destruct (inv_wake _ _ I En) as [R|(h & ph & ch & Hm & _)].
    - destruct Hk as [Hk|Hk]; rewrite Hk in R; discriminate.
    - congruence. }
  split; auto. split; auto.
  intros t p c Ht. destruct (quiescent_thread _ _ _ _ Q Ht) as [Hs Hc].
  destruct (inv_pc _ _ I _ _ _ Ht) as [Hh Hp].
  destruct (holding p) eqn:Eh; [exfalso; exact (holding_enabled _ _ _ _ Eh Hs)|].
  unfold blocked_ok. destruct p as [| n | n | | | | e | | | i e | q | q | q | q | q | q | q | | | | |]; auto; simpl in Hs, Eh; try discriminate;
    unfold mu_free in Hs; rewrite ?Hmu in Hs; try discriminate.
  - (* LAcq *) exfalso. destruct (tl s) as [h|] eqn:Etl; [|discriminate].
    destruct (inv_tl _ _ I _ Etl) as (nz & cz & Hn).
    destruct (quiescent_thread _ _ _ _ Q Hn) as [Hs' _]. simpl in Hs'.
    destruct nz; discriminate.
  - (* LRel *) exfalso. destruct n; discriminate.
  - (* WSel *) right. exists q. simpl in Hp. destruct Hp as [Hq Hp].
    destruct (aget (resp s) t) as [[i tm]|] eqn:Er; [discriminate|].
    destruct Hp as [Hp|Hp]; [|congruence].
    assert (c = false).
    { unfold sel_cancel in Hc. rewrite Ht in Hc. destruct c; [discriminate|auto]. }
    assert (q = index s).
    { destruct (N.eq_dec q (index s)) as [|Hne]; auto. rewrite (stale_needs_run _ _ _ Hp Hne) in Hnr. discriminate. }
    assert (terminated s = false).
    { destruct (terminated s) eqn:Et; auto. exfalso. destruct Hk as [Hk|Hk].
      - unfold needs_run in Hnr. rewrite Et, Hk in Hnr. discriminate.
      - destruct (inv_exit _ _ I) as [Hr _]; [rewrite Hk; auto|]. rewrite Hr in Hp. inversion Hp. }
    repeat split; auto.
  - (* TAwait *) exfalso. simpl in Hp. destruct (tdone s) eqn:Ed; [discriminate|].
    destruct Hk as [Hk|Hk].
    + unfold needs_run in Hnr. rewrite Hp, Hk in Hnr. discriminate.
    + apply (inv_done _ _ I) in Hk. congruence.
Qed.
