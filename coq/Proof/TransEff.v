(* The effect of every function of the transition model: it changes only its
   target (frame), keeps the tree sorted, only adds problems, never clears the
   missing-files flag, and only consumes staged objects. *)
From Coq Require Import List Bool Arith String Ascii NArith Lia.
From Mv Require Import Model.Entry Model.Fs Model.FsExt Model.Transition Model.TransitionCheck
     Proof.EntryFacts Proof.FsFacts Proof.TransPrims Proof.TransFrames Proof.TransFuns.
Import ListNotations.
Open Scope string_scope.
Open Scope list_scope.

(* ================================================================== *)
(* sortedness is preserved by every primitive                           *)
(* ================================================================== *)

Lemma dir_at_sorted : forall h x m c, tsorted x -> dir_at h x = Some (m, c) -> tsorted (NDir m c).
Proof.
  intros h x m c Hx Hd. unfold dir_at in Hd.
  destruct (get h x) as [[m0 c0| | |]|] eqn:G; try discriminate. injection Hd as -> ->.
  eapply tsorted_get; eassumption.
Qed.

Lemma step_sorted : forall h s s' ok (P : meta -> list (name * node) -> list (name * node) -> Prop),
  step_at h s s' ok P ->
  (forall m c c', P m c c' -> tsorted (NDir m c) -> tsorted (NDir m c')) ->
  tsorted (tfs s) -> tsorted (tfs s').
Proof.
  intros h s s' ok P (_ & _ & [[_ T]|(_ & m & c & c' & D & HP & T)]) HK Hs.
  - rewrite T. exact Hs.
  - rewrite T. apply tsorted_repl; [exact Hs|]. apply (HK m c c' HP). eapply dir_at_sorted; eassumption.
Qed.

Lemma unlink_sorted : forall E h n s s' r,
  run (liftF (unlink E h n)) s = (s', r) -> tsorted (tfs s) -> tsorted (tfs s').
Proof.
  intros E h n s s' r H. apply unlink_spec in H. apply (step_sorted _ _ _ _ _ H).
  intros m c c' (y & _ & _ & ->) Hc. apply tsorted_nset; [exact Hc|discriminate].
Qed.

Lemma rmdir_sorted : forall E h n s s' r,
  run (liftF (rmdir E h n)) s = (s', r) -> tsorted (tfs s) -> tsorted (tfs s').
Proof.
  intros E h n s s' r H. apply rmdir_spec in H. apply (step_sorted _ _ _ _ _ H).
  intros m c c' (m0 & _ & ->) Hc. apply tsorted_nset; [exact Hc|discriminate].
Qed.

Lemma mkdir_sorted : forall E h n s s' r,
  run (liftF (mkdir E h n)) s = (s', r) -> tsorted (tfs s) -> tsorted (tfs s').
Proof.
  intros E h n s s' r H. apply mkdir_spec in H. apply (step_sorted _ _ _ _ _ H).
  intros m c c' (_ & ->) Hc. apply tsorted_nset; [exact Hc|]. intros y [= <-].
  constructor; [reflexivity|intros ? ? []].
Qed.

Lemma symlink_sorted : forall E h n t s s' r,
  run (liftF (symlink E h n t)) s = (s', r) -> tsorted (tfs s) -> tsorted (tfs s').
Proof.
  intros E h n t s s' r H. apply symlink_spec in H. apply (step_sorted _ _ _ _ _ H).
  intros m c c' (_ & _ & ->) Hc. apply tsorted_nset; [exact Hc|]. intros y [= <-]. constructor.
Qed.

Lemma with_meta_sorted : forall y m, tsorted y -> tsorted (with_meta y m).
Proof.
  intros [m0 c|m0 d|m0 t|m0 t] m H; cbn; try constructor.
  - apply tsorted_dir_inv in H. apply H.
  - apply tsorted_dir_inv in H. apply H.
Qed.

Lemma write_file_sorted : forall E h n d s s' r,
  run (liftF (write_file E h n d)) s = (s', r) -> tsorted (tfs s) -> tsorted (tfs s').
Proof.
  intros E h n d s s' r H. apply write_file_spec in H. apply (step_sorted _ _ _ _ _ H).
  intros m c c' (m0 & d0 & m1 & _ & ->) Hc. apply tsorted_nset; [exact Hc|]. intros y [= <-]. constructor.
Qed.

Lemma set_permissions_sorted : forall E h n own mode s s' r,
  run (liftF (set_permissions E h n own mode)) s = (s', r) -> tsorted (tfs s) -> tsorted (tfs s').
Proof.
  intros E h n own mode s s' r H Hs. apply set_permissions_spec in H.
  destruct H as (_ & _ & [[_ T]|[(_ & _ & T)|(_ & _ & m & c & y & D & Ly & _ & T)]]);
    rewrite T; try exact Hs.
  apply tsorted_repl; [exact Hs|]. pose proof (dir_at_sorted _ _ _ _ Hs D) as Hc.
  apply tsorted_nset; [exact Hc|]. intros z [= <-]. apply with_meta_sorted.
  eapply tsorted_child; eassumption.
Qed.

Lemma create_temp_sorted : forall E h pat s s' r,
  run (liftF (create_temp E h pat)) s = (s', r) -> tsorted (tfs s) -> tsorted (tfs s').
Proof.
  intros E h pat s s' r H Hs. apply create_temp_spec in H.
  destruct H as (_ & _ & [[T _]|(m & c & D & _ & _ & T)]); rewrite T; [exact Hs|].
  apply tsorted_repl; [exact Hs|]. apply tsorted_nset; [eapply dir_at_sorted; eassumption|].
  intros y [= <-]. constructor.
Qed.

Lemma rename_local_sorted : forall E h sn tn rp s s' r,
  run (liftF (rename_local E h sn tn rp)) s = (s', r) -> tsorted (tfs s) -> tsorted (tfs s').
Proof.
  intros E h sn tn rp s s' r H. apply rename_local_spec in H. apply (step_sorted _ _ _ _ _ H).
  intros m c c' (src & Ls & [[_ ->]|(_ & _ & ->)]) Hc; [exact Hc|].
  apply tsorted_nset; [apply tsorted_nset; [exact Hc|discriminate]|].
  intros y [= <-]. eapply tsorted_child; eassumption.
Qed.

Lemma node_of_sobj_sorted : forall E k dev o, tsorted (node_of_sobj E k dev o).
Proof. intros E k dev [p d|p]; cbn; constructor; [reflexivity|intros ? ? []]. Qed.

Lemma rename_in_sorted : forall E k h n rp s s' r,
  run (rename_in E k h n rp) s = (s', r) -> tsorted (tfs s) -> tsorted (tfs s').
Proof.
  intros E k h n rp s s' r H Hs. apply rename_in_spec in H.
  destruct H as (_ & _ & [(_ & T & _)|(_ & m & c & o & D & _ & _ & T)]); rewrite T; [exact Hs|].
  apply tsorted_repl; [exact Hs|]. apply tsorted_nset; [eapply dir_at_sorted; eassumption|].
  intros y [= <-]. apply node_of_sobj_sorted.
Qed.

(* ================================================================== *)
(* eff                                                                  *)
(* ================================================================== *)

Record eff (h : path) (n : name) (s s' : tstate) : Prop := {
  eff_fr : fr h n (tfs s) (tfs s');
  eff_sorted : tsorted (tfs s) -> tsorted (tfs s');
  eff_probs : pmono s s';
  eff_miss : tmiss s = true -> tmiss s' = true;
  eff_store : store_le (tstg s) (tstg s')
}.

Lemma eff_refl : forall h n s, eff h n s s.
Proof.
  intros. constructor; [apply fr_refl|auto|apply pmono_refl|auto|apply store_le_refl].
Qed.

Lemma eff_trans : forall h n a b c, eff h n a b -> eff h n b c -> eff h n a c.
Proof.
  intros h n a b c [F1 S1 P1 M1 G1] [F2 S2 P2 M2 G2]. constructor.
  - eapply fr_trans; eassumption.
  - auto.
  - eapply pmono_trans; eassumption.
  - auto.
  - eapply store_le_trans; eassumption.
Qed.

Lemma eff_lift : forall h n k a b, eff (h ++ [n]) k a b -> eff h n a b.
Proof.
  intros h n k a b [F S P M G]. constructor; try assumption. eapply fr_lift. exact F.
Qed.

(* a step that leaves the tree and the store alone *)
Lemma eff_same : forall h n s s',
  tfs s' = tfs s -> tstg s' = tstg s -> pmono s s' -> (tmiss s = true -> tmiss s' = true) ->
  eff h n s s'.
Proof.
  intros h n s s' T G P M. constructor.
  - rewrite T. apply fr_refl.
  - rewrite T. auto.
  - exact P.
  - exact M.
  - rewrite G. apply store_le_refl.
Qed.

Lemma eff_problem : forall h n p k s, eff h n s (problem_at p k s).
Proof.
  intros. apply eff_same; try reflexivity; [apply problem_at_pmono|auto].
Qed.

Lemma eff_readonly : forall h n s s', same_log s s' -> tfs s' = tfs s -> tstg s' = tstg s -> eff h n s s'.
Proof.
  intros h n s s' [L L'] T G. apply eff_same; try assumption.
  - intros x Hx. rewrite L. exact Hx.
  - intro. congruence.
Qed.

Lemma step_eff : forall h n s s' ok (P : meta -> list (name * node) -> list (name * node) -> Prop),
  step_at h s s' ok P ->
  (forall m c c', P m c c' -> forall k, k <> n -> nlookup k c' = nlookup k c) ->
  (tsorted (tfs s) -> tsorted (tfs s')) ->
  eff h n s s'.
Proof.
  intros h n s s' ok P St HK HS. pose proof (step_at_log _ _ _ _ _ St) as [[L L'] G]. constructor.
  - eapply step_at_fr; eassumption.
  - exact HS.
  - intros x Hx. rewrite L. exact Hx.
  - intro. congruence.
  - rewrite G. apply store_le_refl.
Qed.

Section Eff.
  Variable norm : path -> string -> option string.
  Variable E : env.
  Variable rn : name.
  Variable ch : cache.
  Variable slm : slmode.
  Variable dfm ddm : N.
  Variable own : bool.
  Variable fixed : bool.

  Lemma removed_if_eff : forall h n s s' ok V,
    removed_if h n s s' ok V -> eff h n s s'.
  Proof.
    intros h n s s' ok V R. pose proof (removed_if_fr _ _ _ _ _ _ R) as F.
    destruct R as ([L L'] & G & R). constructor.
    - exact F.
    - intro Hs. destruct R as [[_ T]|(_ & m & c & y & D & _ & _ & _ & T)]; rewrite T; [exact Hs|].
      apply tsorted_repl; [exact Hs|]. apply tsorted_nset; [eapply dir_at_sorted; eassumption|discriminate].
    - intros x Hx. rewrite L. exact Hx.
    - intro. congruence.
    - rewrite G. apply store_le_refl.
  Qed.

  Lemma mkdir_eff : forall h n s s' r, run (liftF (mkdir (quiet E) h n)) s = (s', r) -> eff h n s s'.
  Proof.
    intros h n s s' r H. pose proof (mkdir_sorted _ _ _ _ _ _ H) as HS. apply mkdir_spec in H.
    apply (step_eff _ _ _ _ _ _ H); [|exact HS].
    intros m c c' (_ & ->) k Hk. apply nlookup_nset_other. exact Hk.
  Qed.

  Lemma rmdir_eff : forall h n s s' r, run (liftF (rmdir (quiet E) h n)) s = (s', r) -> eff h n s s'.
  Proof.
    intros h n s s' r H. pose proof (rmdir_sorted _ _ _ _ _ _ H) as HS. apply rmdir_spec in H.
    apply (step_eff _ _ _ _ _ _ H); [|exact HS].
    intros m c c' (m0 & _ & ->) k Hk. apply nlookup_nset_other. exact Hk.
  Qed.

  Lemma symlink_eff : forall h n t s s' r,
    run (liftF (symlink (quiet E) h n t)) s = (s', r) -> eff h n s s'.
  Proof.
    intros h n t s s' r H. pose proof (symlink_sorted _ _ _ _ _ _ _ H) as HS. apply symlink_spec in H.
    apply (step_eff _ _ _ _ _ _ H); [|exact HS].
    intros m c c' (_ & _ & ->) k Hk. apply nlookup_nset_other. exact Hk.
  Qed.

  Lemma set_permissions_eff : forall h n mode s s' r,
    run (liftF (set_permissions (quiet E) h n own mode)) s = (s', r) -> eff h n s s'.
  Proof.
    intros h n mode s s' r H. pose proof (set_permissions_sorted _ _ _ _ _ _ _ _ H) as HS.
    apply set_permissions_spec in H. destruct H as ([L L'] & G & H). constructor.
    - destruct H as [[_ T]|[(_ & _ & T)|(_ & _ & m & c & y & D & _ & _ & T)]]; rewrite T;
        try apply fr_refl.
      apply fr_of_frame_eq. apply (frameS_repl h (eq n) _ m c _ D).
      intros k Hk. apply nlookup_nset_other. intro K. apply Hk. symmetry. exact K.
    - exact HS.
    - intros x Hx. rewrite L. exact Hx.
    - intro. congruence.
    - rewrite G. apply store_le_refl.
  Qed.

  (* sortedness through findAndMoveStagedFileIntoPlace *)
  Lemma drop_temp_sorted : forall (A : Type) h tn (r0 : result A) s s' r,
    drop_temp E h tn r0 s = (s', r) -> tsorted (tfs s) -> tsorted (tfs s').
  Proof.
    intros A h tn r0 s s' r H. unfold drop_temp in H.
    destruct (run (liftF (unlink (quiet E) h tn)) s) as [s1 r1] eqn:U. injection H as <- _.
    eapply unlink_sorted. exact U.
  Qed.

  Lemma move_fallback_sorted : forall k fm h n rp s s' r,
    move_fallback E own k fm h n rp s = (s', r) -> tsorted (tfs s) -> tsorted (tfs s').
  Proof.
    intros k fm h n rp s s' r H Hs. unfold move_fallback, note_missing in H.
    destruct (run (stage_open (quiet E) k) s) as [s3 r3] eqn:SO.
    apply stage_open_spec in SO. destruct SO as (_ & T3 & _ & _).
    destruct r3 as [obj|e3|].
    2:{ injection H as <- _. destruct (is_not_exist e3); (change (tsorted (tfs s3))); rewrite T3; exact Hs. }
    2:{ injection H as <- _. rewrite T3. exact Hs. }
    rewrite <- T3 in Hs.
    destruct (run (liftF (create_temp (quiet E) h xdev_pattern)) s3) as [s4 r4] eqn:CT.
    pose proof (create_temp_sorted _ _ _ _ _ _ CT Hs) as Hs4.
    destruct r4 as [tn|e4|]; [|injection H as <- _; exact Hs4|injection H as <- _; exact Hs4].
    destruct (run (xbind (stage_read (quiet E) obj)
                         (fun data => liftF (write_file (quiet E) h tn data))) s4) as [s5 r5] eqn:CP.
    assert (tsorted (tfs s5)) as Hs5.
    { unfold run, xbind in CP. destruct (stage_read (quiet E) obj (tx s4)) as [x45 r45] eqn:SR.
      assert (x_fs x45 = tfs s4) as T45.
      { unfold stage_read in SR. apply xprim_cases in SR.
        destruct SR as [(T & _)|(a & t' & st' & _ & HA & T & _)]; [exact T|].
        destruct obj; [|discriminate]. injection HA as _ <- _. exact T. }
      destruct r45 as [data|e|].
      - set (s45 := {| tx := x45; tprobs := tprobs s4; tmiss := tmiss s4 |}).
        assert (run (liftF (write_file (quiet E) h tn data)) s45 = (s5, r5)) as WF.
        { unfold run. cbn [tx tprobs tmiss s45]. exact CP. }
        apply (write_file_sorted _ _ _ _ _ _ _ WF). unfold tfs, s45. cbn [tx]. rewrite T45. exact Hs4.
      - injection CP as <- _. unfold tfs. cbn [tx]. rewrite T45. exact Hs4.
      - injection CP as <- _. unfold tfs. cbn [tx]. rewrite T45. exact Hs4. }
    destruct r5 as [[]|e5|]; [|eapply drop_temp_sorted; eassumption|eapply drop_temp_sorted; eassumption].
    destruct (run (liftF (set_permissions (quiet E) h tn own fm)) s5) as [s6 r6] eqn:SP.
    pose proof (set_permissions_sorted _ _ _ _ _ _ _ _ SP Hs5) as Hs6.
    destruct r6 as [[]|e6|]; [|eapply drop_temp_sorted; eassumption|eapply drop_temp_sorted; eassumption].
    destruct (run (liftF (rename_local (quiet E) h tn n rp)) s6) as [s7 r7] eqn:RN.
    pose proof (rename_local_sorted _ _ _ _ _ _ _ _ RN Hs6) as Hs7.
    destruct r7 as [[]|e7|]; [|eapply drop_temp_sorted; eassumption|eapply drop_temp_sorted; eassumption].
    destruct (run (stage_remove (quiet E) k) s7) as [s8 r8] eqn:SR8. injection H as <- _.
    apply stage_remove_spec in SR8. destruct SR8 as (_ & T8 & _). rewrite T8. exact Hs7.
  Qed.

  Lemma find_and_move_sorted : forall p target h n rp s s' r,
    find_and_move E dfm own p target h n rp s = (s', r) -> tsorted (tfs s) -> tsorted (tfs s').
  Proof.
    intros p target h n rp s s' r H Hs. unfold find_and_move, note_missing in H.
    destruct (run (stage_set_permissions (quiet E) (p, entry_digest target) own (file_mode dfm target)) s)
      as [s1 r1] eqn:SP.
    apply stage_set_permissions_spec in SP. destruct SP as (_ & T1 & _). rewrite <- T1 in Hs.
    destruct r1 as [[]|e1|].
    2:{ injection H as <- _. destruct (is_not_exist e1); exact Hs. }
    2:{ injection H as <- _. exact Hs. }
    destruct (run (rename_in (quiet E) (p, entry_digest target) h n rp) s1) as [s2 r2] eqn:RI.
    pose proof (rename_in_sorted _ _ _ _ _ _ _ _ RI Hs) as Hs2.
    destruct r2 as [[]|e2|].
    - injection H as <- _. exact Hs2.
    - destruct (is_cross_device e2).
      + eapply move_fallback_sorted; eassumption.
      + injection H as <- _. destruct (is_not_exist e2); exact Hs2.
    - injection H as <- _. exact Hs2.
  Qed.

  Lemma find_and_move_eff : forall p target h n rp s s' r,
    find_and_move E dfm own p target h n rp s = (s', r) -> eff h n s s'.
  Proof.
    intros p target h n rp s s' r H. pose proof (find_and_move_sorted _ _ _ _ _ _ _ _ H) as HS.
    apply find_and_move_spec in H. destruct H as [(P & M & St & F & _) _]. constructor; try assumption.
    intros x Hx. rewrite P. exact Hx.
  Qed.

  Lemma create_link_eff : forall h n p target s s' r,
    create_link norm E slm own fixed h n p target s = (s', r) -> eff h n s s'.
  Proof.
    intros h n p target s s' r H. unfold create_link in H.
    destruct (slmode_eqb slm SLIgnore); [injection H as <- _; apply eff_refl|].
    destruct (slmode_eqb slm SLPortable &&
              negb match norm p (entry_target target) with
                   | Some t' => (t' =? entry_target target)%string
                   | None => false
                   end); [injection H as <- _; apply eff_refl|].
    unfold tbind in H.
    destruct (run (liftF (symlink (quiet E) h n (entry_target target))) s) as [s1 r1] eqn:SL.
    pose proof (symlink_eff _ _ _ _ _ _ SL) as E1.
    destruct r1 as [[]|e1|]; [|injection H as <- _; exact E1|injection H as <- _; exact E1].
    destruct (run (liftF (set_permissions (quiet E) h n own 0)) s1) as [s2 r2] eqn:SP.
    pose proof SP as E2. eapply set_permissions_eff in E2.
    assert (eff h n s s2) as E02 by (eapply eff_trans; eassumption).
    destruct r2 as [[]|e2|]; [injection H as <- _; exact E02| |];
      (destruct fixed; injection H as <- _; [eapply eff_trans; [exact E02|apply eff_problem]|exact E02]).
  Qed.

End Eff.

(* ================================================================== *)
(* recursive functions and the top level                                *)
(* ================================================================== *)
Section EffRec.
  Variable norm : path -> string -> option string.
  Variable E : env.
  Variable rn : name.
  Variable ch : cache.
  Variable slm : slmode.
  Variable dfm ddm : N.
  Variable own : bool.
  Variable fixed : bool.

  Definition hof (p : path) : path := match p with [] => [] | _ => rn :: removelast p end.
  Definition lof (p : path) : name := match p with [] => rn | _ => last p "" end.

  Lemma hof_lof : forall p, hof p ++ [lof p] = rn :: p.
  Proof.
    intros [|a p]; [reflexivity|]. unfold hof, lof.
    change (rn :: (removelast (a :: p) ++ [last (a :: p) ""]) = rn :: a :: p).
    rewrite removelast_last_app by discriminate. reflexivity.
  Qed.

  Lemma walk_hof : forall p v s s' h n,
    walk E rn p v s = (s', ROk (h, n)) -> path_ok p -> h = hof p /\ n = lof p.
  Proof.
    intros p v s s' h n H Hp. destruct (walk_ok _ _ _ _ _ _ _ _ H Hp) as [K _].
    rewrite <- hof_lof in K. apply app_inj_tail in K. exact K.
  Qed.

  Lemma remove_file_eff : forall h n p e s s' r,
    remove_file E ch h n p e s = (s', r) -> eff h n s s'.
  Proof. intros. eapply removed_if_eff. eapply remove_file_spec. eassumption. Qed.

  Lemma remove_link_eff : forall h n p e s s' r,
    remove_link norm E slm h n p e s = (s', r) -> eff h n s s'.
  Proof. intros. eapply removed_if_eff. eapply remove_link_spec. eassumption. Qed.

  Definition rec_eff
    (rec : path -> name -> path -> list (name * entry) -> tstate -> tstate * bool * list (name * entry)) :=
    forall d n cp ec s s1 ok ec', rec d n cp ec s = (s1, ok, ec') -> n <> "." -> eff d n s s1.

  Lemma listed_nodot : forall k, listed k = true -> k <> ".".
  Proof.
    intros k H K. subst. discriminate.
  Qed.

  Lemma remove_loop_eff : forall rec h n p names ec s fl s' fl' ec',
    rec_eff rec -> Forall (fun k => k <> ".") names ->
    remove_loop norm E ch slm rec (h ++ [n]) p names ec s fl = (s', fl', ec') ->
    eff h n s s'.
  Proof.
    intros rec h n p names. induction names as [|k rest IH]; intros ec s fl s' fl' ec' HR HN H;
      cbn [remove_loop] in H.
    - injection H as <- _ _. apply eff_refl.
    - inversion HN as [|? ? Hk HN']; subst.
      destruct (cancelled E s); [injection H as <- _ _; apply eff_problem|].
      destruct (lookup k ec) as [[ec1|x dg|t| |msg|pc]|] eqn:Lk.
      + match type of H with context [rec ?a ?b ?c ?d ?e] =>
          destruct (rec a b c d e) as [[s1 ok] ec1'] eqn:R end.
        pose proof (eff_lift _ _ _ _ _ (HR _ _ _ _ _ _ _ _ R Hk)) as E1.
        destruct ok; (eapply eff_trans; [exact E1|]); exact (IH _ _ _ _ _ _ HR HN' H).
      + match type of H with context [remove_file ?a ?b ?c ?d ?e ?f ?g] =>
          destruct (remove_file a b c d e f g) as [s1 r] eqn:R end.
        pose proof (eff_lift _ _ _ _ _ (remove_file_eff _ _ _ _ _ _ _ R)) as E1.
        destruct r as [[]|e|]; (eapply eff_trans; [exact E1|]).
        * exact (IH _ _ _ _ _ _ HR HN' H).
        * eapply eff_trans; [apply eff_problem|]. exact (IH _ _ _ _ _ _ HR HN' H).
        * eapply eff_trans; [apply eff_problem|]. exact (IH _ _ _ _ _ _ HR HN' H).
      + match type of H with context [remove_link ?a ?b ?c ?d ?e ?f ?g ?i] =>
          destruct (remove_link a b c d e f g i) as [s1 r] eqn:R end.
        pose proof (eff_lift _ _ _ _ _ (remove_link_eff _ _ _ _ _ _ _ R)) as E1.
        destruct r as [[]|e|]; (eapply eff_trans; [exact E1|]).
        * exact (IH _ _ _ _ _ _ HR HN' H).
        * eapply eff_trans; [apply eff_problem|]. exact (IH _ _ _ _ _ _ HR HN' H).
        * eapply eff_trans; [apply eff_problem|]. exact (IH _ _ _ _ _ _ HR HN' H).
      + eapply eff_trans; [apply eff_problem|]. exact (IH _ _ _ _ _ _ HR HN' H).
      + eapply eff_trans; [apply eff_problem|]. exact (IH _ _ _ _ _ _ HR HN' H).
      + eapply eff_trans; [apply eff_problem|]. exact (IH _ _ _ _ _ _ HR HN' H).
      + eapply eff_trans; [apply eff_problem|]. exact (IH _ _ _ _ _ _ HR HN' H).
  Qed.

  Lemma filter_listed_nodot : forall l, Forall (fun k => k <> ".") (filter listed l).
  Proof.
    intro l. apply Forall_forall. intros k Hk. apply filter_In in Hk. apply listed_nodot. apply Hk.
  Qed.

  Lemma remove_dir_eff : forall fuel h n p ec s s' ok ec',
    remove_dir_f norm E ch slm fuel h n p ec s = (s', ok, ec') -> n <> "." -> eff h n s s'.
  Proof.
    induction fuel as [|fuel IH]; intros h n p ec s s' ok ec' H Hn; cbn [remove_dir_f] in H.
    - injection H as <- _ _. apply eff_problem.
    - destruct (run (liftF (open_dir (quiet E) h n)) s) as [s1 r1] eqn:OD.
      pose proof (open_dir_spec _ _ _ _ _ _ OD) as (L1 & T1 & G1 & R1).
      pose proof (eff_readonly h n _ _ L1 T1 G1) as E1.
      destruct r1 as [d|e1|];
        [|injection H as <- _ _; eapply eff_trans; [exact E1|apply eff_problem]
         |injection H as <- _ _; eapply eff_trans; [exact E1|apply eff_problem]].
      destruct (R1 d eq_refl Hn) as [-> _].
      destruct (run (liftF (read_contents (quiet E) (h ++ [n]))) s1) as [s2 r2] eqn:RC.
      pose proof (read_contents_spec _ _ _ _ _ RC) as (L2 & T2 & G2 & _).
      pose proof (eff_readonly h n _ _ L2 T2 G2) as E2.
      destruct r2 as [mds|e2|];
        [|injection H as <- _ _; eapply eff_trans; [exact E1|]; eapply eff_trans; [exact E2|apply eff_problem]
         |injection H as <- _ _; eapply eff_trans; [exact E1|]; eapply eff_trans; [exact E2|apply eff_problem]].
      destruct (remove_loop norm E ch slm (remove_dir_f norm E ch slm fuel) (h ++ [n]) p
                            (filter listed (map md_name mds)) ec s2 no_flags)
        as [[s3 fl] ec3] eqn:RL.
      assert (eff h n s2 s3) as E3.
      { eapply remove_loop_eff; [|apply filter_listed_nodot|exact RL].
        intros d0 n0 cp ec0 sa sb okb ecb Hr Hn0. eapply IH; eassumption. }
      assert (eff h n s s3) as E03 by (eapply eff_trans; [exact E1|eapply eff_trans; eassumption]).
      destruct (negb (f_cancel fl) && negb (f_unknown fl) && negb (f_failed fl)).
      + destruct (run (liftF (rmdir (quiet E) h n)) s3) as [s4 r4] eqn:RD.
        pose proof (rmdir_eff _ _ _ _ _ _ RD) as E4.
        destruct r4 as [[]|e4|]; injection H as <- _ _.
        * eapply eff_trans; eassumption.
        * eapply eff_trans; [exact E03|]. eapply eff_trans; [exact E4|apply eff_problem].
        * eapply eff_trans; [exact E03|]. eapply eff_trans; [exact E4|apply eff_problem].
      + injection H as <- _ _. exact E03.
  Qed.

  (* ---------- creation ---------- *)
  Definition crec_eff
    (rec : path -> name -> path -> list (name * entry) -> tstate -> tstate * option (list (name * entry))) :=
    forall d n cp tc s s1 r, rec d n cp tc s = (s1, r) -> eff d n s s1.

  Lemma create_file_eff : forall h n p target s s' r,
    create_file E dfm own h n p target s = (s', r) -> eff h n s s'.
  Proof. intros. eapply find_and_move_eff. eassumption. Qed.

  Lemma create_loop_eff : forall rec h n p tc created s s' cr,
    crec_eff rec ->
    create_loop norm E slm dfm own fixed rec (h ++ [n]) p tc created s = (s', cr) ->
    eff h n s s'.
  Proof.
    intros rec h n p tc. induction tc as [|[k e] rest IH]; intros created s s' cr HR H;
      cbn [create_loop] in H.
    - injection H as <- _. apply eff_refl.
    - destruct (cancelled E s); [injection H as <- _; apply eff_problem|].
      destruct e as [tc1|x dg|t| |msg|pc].
      + match type of H with context [rec ?a ?b ?c ?d ?e] =>
          destruct (rec a b c d e) as [s1 r] eqn:R end.
        pose proof (eff_lift _ _ _ _ _ (HR _ _ _ _ _ _ _ R)) as E1.
        destruct r; (eapply eff_trans; [exact E1|]); eapply IH; eassumption.
      + match type of H with context [create_file ?a ?b ?c ?d ?e ?f ?g ?i] =>
          destruct (create_file a b c d e f g i) as [s1 r] eqn:R end.
        pose proof (eff_lift _ _ _ _ _ (create_file_eff _ _ _ _ _ _ _ R)) as E1.
        destruct r as [[]|e|]; (eapply eff_trans; [exact E1|]).
        * eapply IH; eassumption.
        * eapply eff_trans; [apply eff_problem|]. eapply IH; eassumption.
        * eapply eff_trans; [apply eff_problem|]. eapply IH; eassumption.
      + match type of H with context [create_link ?a ?b ?c ?d ?e ?f ?g ?i ?j ?k0] =>
          destruct (create_link a b c d e f g i j k0) as [s1 r] eqn:R end.
        pose proof R as E1. eapply create_link_eff in E1. apply eff_lift in E1.
        destruct r as [[]|e|]; (eapply eff_trans; [exact E1|]).
        * eapply IH; eassumption.
        * eapply eff_trans; [apply eff_problem|]. eapply IH; eassumption.
        * eapply eff_trans; [apply eff_problem|]. eapply IH; eassumption.
      + eapply eff_trans; [apply eff_problem|]. eapply IH; eassumption.
      + eapply eff_trans; [apply eff_problem|]. eapply IH; eassumption.
      + eapply eff_trans; [apply eff_problem|]. eapply IH; eassumption.
  Qed.

  Lemma mkdir_dot : forall h s, exists e, run (liftF (mkdir (quiet E) h ".")) s = (s, RErr e).
  Proof.
    intros h s. exists EBADNAME. unfold run, liftF, mkdir, prim. cbn.
    destruct s as [[x c st] pr mi]. reflexivity.
  Qed.

  Lemma create_dir_eff : forall fuel h n p tc s s' r,
    create_dir_f norm E slm dfm ddm own fixed fuel h n p tc s = (s', r) -> eff h n s s'.
  Proof.
    induction fuel as [|fuel IH]; intros h n p tc s s' r H; cbn [create_dir_f] in H.
    - injection H as <- _. apply eff_problem.
    - destruct (run (liftF (mkdir (quiet E) h n)) s) as [s1 r1] eqn:MK.
      pose proof MK as E1. eapply mkdir_eff in E1.
      destruct r1 as [[]|e1|];
        [|injection H as <- _; eapply eff_trans; [exact E1|apply eff_problem]
         |injection H as <- _; eapply eff_trans; [exact E1|apply eff_problem]].
      assert (n <> ".") as Hn.
      { intro K. subst n. destruct (mkdir_dot h s) as [e He]. rewrite He in MK. discriminate. }
      destruct (run (liftF (set_permissions (quiet E) h n own ddm)) s1) as [s2 r2] eqn:SP.
      pose proof SP as E2. eapply set_permissions_eff in E2.
      assert (eff h n s s2) as E02 by (eapply eff_trans; eassumption).
      destruct r2 as [[]|e2|];
        [|injection H as <- _; eapply eff_trans; [exact E02|apply eff_problem]
         |injection H as <- _; eapply eff_trans; [exact E02|apply eff_problem]].
      destruct tc as [|ke rest]; [injection H as <- _; exact E02|].
      destruct (run (liftF (open_dir (quiet E) h n)) s2) as [s3 r3] eqn:OD.
      pose proof (open_dir_spec _ _ _ _ _ _ OD) as (L3 & T3 & G3 & R3).
      pose proof (eff_readonly h n _ _ L3 T3 G3) as E3.
      destruct r3 as [d|e3|];
        [|injection H as <- _; eapply eff_trans; [exact E02|]; eapply eff_trans; [exact E3|apply eff_problem]
         |injection H as <- _; eapply eff_trans; [exact E02|]; eapply eff_trans; [exact E3|apply eff_problem]].
      destruct (R3 d eq_refl Hn) as [-> _].
      destruct (create_loop norm E slm dfm own fixed (create_dir_f norm E slm dfm ddm own fixed fuel) (h ++ [n]) p
                            (ke :: rest) [] s3) as [s4 cr] eqn:CL.
      injection H as <- _. eapply eff_trans; [exact E02|]. eapply eff_trans; [exact E3|].
      eapply create_loop_eff; [|exact CL]. intros d0 n0 cp tc0 sa sb rb Hr. eapply IH. exact Hr.
  Qed.

  (* ---------- remove / create / swap / one transition ---------- *)
  Variable rn_ok : rn <> ".".

  Lemma lof_nodot : forall p, path_ok p -> lof p <> ".".
  Proof.
    intros [|a p] Hp; [exact rn_ok|]. unfold lof. intro K. apply Hp. rewrite <- K.
    clear. generalize a. induction p as [|b p IH]; intro a0; [left; reflexivity|].
    right. apply IH.
  Qed.

  Lemma walk_eff : forall p v s s' r h n, walk E rn p v s = (s', r) -> eff h n s s'.
  Proof.
    intros p v s s' r h n H. destruct (walk_ro _ _ _ _ _ _ _ H) as (L & T & G).
    apply eff_readonly; assumption.
  Qed.

  Lemma remove_eff : forall p e s s' r,
    remove norm E rn ch slm p e s = (s', r) -> path_ok p -> eff (hof p) (lof p) s s'.
  Proof.
    intros p e s s' r H Hp. unfold remove in H. destruct e as [e0|]; [|injection H as <- _; apply eff_refl].
    destruct (walk E rn p true s) as [s1 r1] eqn:W.
    pose proof (walk_eff _ _ _ _ _ (hof p) (lof p) W) as E1.
    destruct r1 as [[h n]|e1|];
      [|injection H as <- _; eapply eff_trans; [exact E1|apply eff_problem]
       |injection H as <- _; eapply eff_trans; [exact E1|apply eff_problem]].
    destruct (walk_hof _ _ _ _ _ _ W Hp) as [-> ->].
    destruct e0 as [ec|x dg|t| |msg|pc].
    - destruct (remove_dir_f norm E ch slm (depth_entry (EDir ec)) (hof p) (lof p) p ec s1) as [[s2 ok] ec'] eqn:R.
      pose proof (remove_dir_eff _ _ _ _ _ _ _ _ _ R (lof_nodot p Hp)) as E2.
      destruct ok; injection H as <- _; eapply eff_trans; eassumption.
    - destruct (remove_file E ch (hof p) (lof p) p (EFile x dg) s1) as [s2 r2] eqn:R.
      pose proof R as E2. eapply remove_file_eff in E2.
      destruct r2 as [[]|e2|]; injection H as <- _.
      + eapply eff_trans; eassumption.
      + eapply eff_trans; [exact E1|]. eapply eff_trans; [exact E2|apply eff_problem].
      + eapply eff_trans; [exact E1|]. eapply eff_trans; [exact E2|apply eff_problem].
    - destruct (remove_link norm E slm (hof p) (lof p) p (ELink t) s1) as [s2 r2] eqn:R.
      pose proof R as E2. eapply remove_link_eff in E2.
      destruct r2 as [[]|e2|]; injection H as <- _.
      + eapply eff_trans; eassumption.
      + eapply eff_trans; [exact E1|]. eapply eff_trans; [exact E2|apply eff_problem].
      + eapply eff_trans; [exact E1|]. eapply eff_trans; [exact E2|apply eff_problem].
    - injection H as <- _. eapply eff_trans; [exact E1|apply eff_problem].
    - injection H as <- _. eapply eff_trans; [exact E1|apply eff_problem].
    - injection H as <- _. eapply eff_trans; [exact E1|apply eff_problem].
  Qed.

  Lemma create_eff : forall p e s s' r,
    create norm E rn slm dfm ddm own fixed p e s = (s', r) -> path_ok p -> eff (hof p) (lof p) s s'.
  Proof.
    intros p e s s' r H Hp. unfold create in H. destruct e as [e0|]; [|injection H as <- _; apply eff_refl].
    destruct (walk E rn p false s) as [s1 r1] eqn:W.
    pose proof (walk_eff _ _ _ _ _ (hof p) (lof p) W) as E1.
    destruct r1 as [[h n]|e1|];
      [|injection H as <- _; eapply eff_trans; [exact E1|apply eff_problem]
       |injection H as <- _; eapply eff_trans; [exact E1|apply eff_problem]].
    destruct (walk_hof _ _ _ _ _ _ W Hp) as [-> ->].
    destruct e0 as [tc|x dg|t| |msg|pc].
    - destruct (create_dir_f norm E slm dfm ddm own fixed (depth_entry (EDir tc)) (hof p) (lof p) p tc s1) as [s2 r2] eqn:R.
      pose proof R as E2. eapply create_dir_eff in E2.
      injection H as <- _. eapply eff_trans; eassumption.
    - destruct (create_file E dfm own (hof p) (lof p) p (EFile x dg) s1) as [s2 r2] eqn:R.
      pose proof R as E2. eapply create_file_eff in E2.
      destruct r2 as [[]|e2|]; injection H as <- _.
      + eapply eff_trans; eassumption.
      + eapply eff_trans; [exact E1|]. eapply eff_trans; [exact E2|apply eff_problem].
      + eapply eff_trans; [exact E1|]. eapply eff_trans; [exact E2|apply eff_problem].
    - destruct (create_link norm E slm own fixed (hof p) (lof p) p (ELink t) s1) as [s2 r2] eqn:R.
      pose proof R as E2. eapply create_link_eff in E2.
      destruct r2 as [[]|e2|]; injection H as <- _.
      + eapply eff_trans; eassumption.
      + eapply eff_trans; [exact E1|]. eapply eff_trans; [exact E2|apply eff_problem].
      + eapply eff_trans; [exact E1|]. eapply eff_trans; [exact E2|apply eff_problem].
    - injection H as <- _. eapply eff_trans; [exact E1|apply eff_problem].
    - injection H as <- _. eapply eff_trans; [exact E1|apply eff_problem].
    - injection H as <- _. eapply eff_trans; [exact E1|apply eff_problem].
  Qed.

  Lemma ensure_file_eff : forall h n p e s s' r h' n',
    ensure_expected_file E ch h n p e s = (s', r) -> eff h' n' s s'.
  Proof.
    intros h n p e s s' r h' n' H. apply ensure_expected_file_spec in H.
    destruct H as (L & T & G & _). apply eff_readonly; assumption.
  Qed.

  Lemma swap_file_eff : forall p old new s s' r,
    swap_file E rn ch dfm own p old new s = (s', r) -> path_ok p -> eff (hof p) (lof p) s s'.
  Proof.
    intros p old new s s' r H Hp. unfold swap_file, tbind in H.
    destruct (walk E rn p true s) as [s1 r1] eqn:W.
    pose proof (walk_eff _ _ _ _ _ (hof p) (lof p) W) as E1.
    destruct r1 as [[h n]|e1|]; [|injection H as <- _; exact E1|injection H as <- _; exact E1].
    destruct (walk_hof _ _ _ _ _ _ W Hp) as [-> ->].
    destruct (ensure_expected_file E ch (hof p) (lof p) p old s1) as [s2 r2] eqn:EN.
    pose proof (ensure_file_eff _ _ _ _ _ _ _ (hof p) (lof p) EN) as E2.
    assert (eff (hof p) (lof p) s s2) as E02 by (eapply eff_trans; eassumption).
    destruct r2 as [[]|e2|]; [|injection H as <- _; exact E02|injection H as <- _; exact E02].
    destruct (String.eqb (entry_digest old) (entry_digest new)).
    - eapply eff_trans; [exact E02|]. eapply set_permissions_eff. exact H.
    - eapply eff_trans; [exact E02|]. eapply find_and_move_eff. exact H.
  Qed.

  Lemma trans_one_eff : forall c s s' r,
    trans_one norm E rn ch slm dfm ddm own fixed c s = (s', r) -> path_ok (cpath c) ->
    eff (hof (cpath c)) (lof (cpath c)) s s'.
  Proof.
    intros c s s' r H Hp. unfold trans_one in H.
    destruct (cancelled E s); [injection H as <- _; apply eff_problem|].
    assert (forall s0 s1 r0, (let '(s1, r) := remove norm E rn ch slm (cpath c) (cold c) s0 in
                match r with
                | Some _ => (s1, r)
                | None => create norm E rn slm dfm ddm own fixed (cpath c) (cnew c) s1
                end) = (s1, r0) -> eff (hof (cpath c)) (lof (cpath c)) s0 s1) as RC.
    { intros s0 s1 r0 H0. destruct (remove norm E rn ch slm (cpath c) (cold c) s0) as [sa ra] eqn:R.
      pose proof (remove_eff _ _ _ _ _ R Hp) as Ea.
      destruct ra; [injection H0 as <- _; exact Ea|].
      eapply eff_trans; [exact Ea|]. eapply create_eff; eassumption. }
    destruct (cold c) as [[ec|xo dgo|t| |msg|pc]|] eqn:CO; try (eapply RC; exact H).
    destruct (cnew c) as [[ec|xn dgn|t| |msg|pc]|] eqn:CN; try (eapply RC; exact H).
    destruct (swap_file E rn ch dfm own (cpath c) (EFile xo dgo) (EFile xn dgn) s) as [s1 r1] eqn:SW.
    pose proof (swap_file_eff _ _ _ _ _ _ SW Hp) as E1.
    destruct r1 as [[]|e1|]; injection H as <- _; [exact E1| |];
      (eapply eff_trans; [exact E1|apply eff_problem]).
  Qed.

End EffRec.
