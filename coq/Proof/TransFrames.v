(* Every function of the transition model changes the tree only inside the
   subtree it is aimed at (plus Mutagen's own temporary siblings). *)
From Coq Require Import List Bool Arith String Ascii NArith Lia.
From Mv Require Import Model.Entry Model.Fs Model.FsExt Model.Transition
     Proof.EntryFacts Proof.FsFacts Proof.TransPrims.
Import ListNotations.
Open Scope string_scope.
Open Scope list_scope.

Definition tmpname (k : name) : Prop := String.prefix tmp_prefix k = true.

(* [fr h n x x']: from x to x' only the child n of the directory h changed,
   and possibly temporary-named children of h that did not exist in x *)
Definition fr (h : path) (n : name) (x x' : node) : Prop :=
  (forall k q, k <> n -> (get (h ++ [k]) x <> None \/ ~ tmpname k) ->
               get (h ++ k :: q) x' = get (h ++ k :: q) x) /\
  (forall P, is_prefix h P = false -> is_prefix P h = false -> get P x' = get P x) /\
  (forall P m c, is_prefix P h = true -> get P x = Some (NDir m c) ->
                 exists c', get P x' = Some (NDir m c')).

Lemma fr_refl : forall h n x, fr h n x x.
Proof.
  intros h n x. split; [|split]; try reflexivity. intros P m c _ Hg. exists c. exact Hg.
Qed.

Lemma fr_trans : forall h n x y z, fr h n x y -> fr h n y z -> fr h n x z.
Proof.
  intros h n x y z (A1 & A2 & A3) (B1 & B2 & B3). split; [|split].
  - intros k q Hk Hp. rewrite B1, A1; try assumption; [reflexivity|].
    destruct Hp as [Hp|Hp]; [|right; exact Hp]. left.
    pose proof (A1 k [] Hk (or_introl Hp)) as K. rewrite K. exact Hp.
  - intros P H1 H2. rewrite B2, A2 by assumption. reflexivity.
  - intros P m c HP Hg. destruct (A3 P m c HP Hg) as [c1 H1].
    destruct (B3 P m c1 HP H1) as [c2 H2]. exists c2. exact H2.
Qed.

Lemma fr_of_frameS : forall h n (S : name -> Prop) x x',
  frameS h S x x' ->
  (forall k, S k -> k = n \/ (get (h ++ [k]) x = None /\ tmpname k)) ->
  fr h n x x'.
Proof.
  intros h n S x x' (A1 & A2 & A3) HS. split; [|split]; [|exact A2|exact A3].
  intros k q Hk Hp. apply A1. intro K. destruct (HS k K) as [->|[Ha Ht]]; [congruence|].
  destruct Hp as [Hp|Hp]; [exact (Hp Ha)|exact (Hp Ht)].
Qed.

Lemma fr_of_frame_eq : forall h n x x', frameS h (eq n) x x' -> fr h n x x'.
Proof.
  intros h n x x' H. apply (fr_of_frameS h n (eq n)); [exact H|].
  intros k <-. left. reflexivity.
Qed.

(* a change inside the child n of h *)
Lemma fr_lift : forall h n k x x', fr (h ++ [n]) k x x' -> fr h n x x'.
Proof.
  intros h n k x x' (A1 & A2 & A3). apply fr_of_frame_eq.
  apply (frameS_lift h n (fun _ => True)). split; [|split]; [|exact A2|exact A3].
  intros k' q Hk. exfalso. apply Hk. exact I.
Qed.

Lemma fr_dir_at : forall h n x y m c,
  fr h n x y -> dir_at h x = Some (m, c) -> exists c', dir_at h y = Some (m, c').
Proof.
  intros h n x y m c (_ & _ & A3) Hd. unfold dir_at in *.
  destruct (get h x) as [[m0 c0| | |]|] eqn:G; try discriminate. injection Hd as -> ->.
  destruct (A3 h m c (is_prefix_refl h) G) as [c' Hc']. exists c'. rewrite Hc'. reflexivity.
Qed.

(* what a frame keeps: anything that exists and is neither inside the target
   nor a directory on the way to it *)
Lemma fr_keeps : forall h n x x' P y,
  fr h n x x' -> get P x = Some y ->
  is_prefix (h ++ [n]) P = false -> is_prefix P h = false ->
  get P x' = Some y.
Proof.
  intros h n x x' P y (A1 & A2 & A3) Hg H1 H2.
  destruct (is_prefix h P) eqn:HP.
  - apply is_prefix_iff in HP. destruct HP as [q ->].
    destruct q as [|k q].
    + rewrite app_nil_r in H2. rewrite is_prefix_refl in H2. discriminate.
    + assert (k <> n) as Hk.
      { intro K. subst k. change (n :: q) with ([n] ++ q) in H1.
        rewrite app_assoc, is_prefix_app in H1. discriminate. }
      rewrite A1; [exact Hg|exact Hk|]. left. intro K.
      change (k :: q) with ([k] ++ q) in Hg. rewrite app_assoc, get_app, K in Hg. discriminate.
  - rewrite A2; assumption.
Qed.

(* ================================================================== *)
(* steps                                                                *)
(* ================================================================== *)

Lemma step_at_fr : forall h n s s' ok (P : meta -> list (name * node) -> list (name * node) -> Prop),
  step_at h s s' ok P ->
  (forall m c c', P m c c' -> forall k, k <> n -> nlookup k c' = nlookup k c) ->
  fr h n (tfs s) (tfs s').
Proof.
  intros h n s s' ok P (_ & _ & [[_ T]|(_ & m & c & c' & D & HP & T)]) HK.
  - rewrite T. apply fr_refl.
  - rewrite T. apply fr_of_frame_eq. apply (frameS_repl h (eq n) (tfs s) m c c' D).
    intros k Hk. apply (HK m c c' HP). intro E. apply Hk. symmetry. exact E.
Qed.

Lemma step_at_log : forall h s s' ok P, step_at h s s' ok P -> same_log s s' /\ tstg s' = tstg s.
Proof. intros h s s' ok P (L & G & _). split; assumption. Qed.

(* monotone growth of the problem list *)
Definition pmono (s s' : tstate) : Prop := forall x, In x (tprobs s) -> In x (tprobs s').

Lemma pmono_refl : forall s, pmono s s.
Proof. intros s x H. exact H. Qed.

Lemma pmono_trans : forall a b c, pmono a b -> pmono b c -> pmono a c.
Proof. intros a b c H1 H2 x H. apply H2, H1, H. Qed.

Lemma same_log_pmono : forall s s', same_log s s' -> pmono s s'.
Proof. intros s s' [H _] x K. rewrite H. exact K. Qed.

Lemma problem_at_pmono : forall p k s, pmono s (problem_at p k s).
Proof. intros p k s x H. right. exact H. Qed.

Lemma problem_at_tfs : forall p k s, tfs (problem_at p k s) = tfs s.
Proof. reflexivity. Qed.

Lemma problem_at_in : forall p k s, In (p, k) (tprobs (problem_at p k s)).
Proof. intros. left. reflexivity. Qed.

Lemma set_missing_tfs : forall s, tfs (set_missing s) = tfs s.
Proof. reflexivity. Qed.

Lemma note_missing_tfs : forall (A : Type) (r : result A) s, tfs (note_missing r s) = tfs s.
Proof. intros A [a|e|] s; cbn; try reflexivity. destruct (is_not_exist e); reflexivity. Qed.

Lemma note_missing_probs : forall (A : Type) (r : result A) s,
  tprobs (note_missing r s) = tprobs s.
Proof. intros A [a|e|] s; cbn; try reflexivity. destruct (is_not_exist e); reflexivity. Qed.

Lemma note_missing_stg : forall (A : Type) (r : result A) s, tstg (note_missing r s) = tstg s.
Proof. intros A [a|e|] s; cbn; try reflexivity. destruct (is_not_exist e); reflexivity. Qed.

Section Funs.
  Variable norm : path -> string -> option string.
  Variable E : env.
  Variable rn : name.
  Variable ch : cache.
  Variable slm : slmode.
  Variable dfm ddm : N.
  Variable own : bool.
  Variable fixed : bool.

  (* a computation that only reads *)
  Definition readonly {A : Type} (m : M A) : Prop :=
    forall s s' r, m s = (s', r) -> same_log s s' /\ tfs s' = tfs s /\ tstg s' = tstg s.

  Lemma readonly_bind : forall (A B : Type) (m : M A) (f : A -> M B),
    readonly m -> (forall a, readonly (f a)) -> readonly (tbind m f).
  Proof.
    intros A B m f Hm Hf s s' r H. unfold tbind in H. destruct (m s) as [s1 r1] eqn:M1.
    destruct (Hm _ _ _ M1) as ([L1 L1'] & T1 & G1).
    destruct r1 as [a|e|].
    - destruct (Hf a _ _ _ H) as ([L2 L2'] & T2 & G2).
      split; [split; congruence|split; congruence].
    - injection H as <- _. split; [split; assumption|split; assumption].
    - injection H as <- _. split; [split; assumption|split; assumption].
  Qed.

  Lemma readonly_ret : forall (A : Type) (a : A), readonly (tret a).
  Proof. intros A a s s' r [= <- _]. repeat split. Qed.

  Lemma readonly_err : forall (A : Type) e, readonly (@terr A e).
  Proof. intros A e s s' r [= <- _]. repeat split. Qed.

  Lemma name_exists_ro : forall h n, readonly (name_exists E h n).
  Proof.
    intros h n. unfold name_exists. apply readonly_bind.
    - intros s s' r H. apply read_names_spec in H. destruct H as (L & T & G & _).
      split; [exact L|split; assumption].
    - intro a. apply readonly_ret.
  Qed.

  Lemma name_exists_ok : forall h n s s' b,
    name_exists E h n s = (s', ROk b) ->
    exists m c, dir_at h (tfs s) = Some (m, c) /\ b = existsb (String.eqb n) (map fst c).
  Proof.
    intros h n s s' b H. unfold name_exists, tbind in H.
    destruct (run (liftF (read_names (quiet E) h)) s) as [s1 r1] eqn:R.
    apply read_names_spec in R. destruct R as (_ & _ & _ & R).
    destruct r1 as [ns|e|]; try discriminate.
    destruct (R ns eq_refl) as (m & c & D & ->). injection H as _ <-.
    exists m, c. split; [exact D|reflexivity].
  Qed.

  Lemma walk_comps_ro : forall comps h, readonly (walk_comps E h comps).
  Proof.
    induction comps as [|c rest IH]; intro h; cbn [walk_comps]; [apply readonly_ret|].
    apply readonly_bind; [apply name_exists_ro|]. intro found.
    destruct (negb found); [apply readonly_err|].
    apply readonly_bind; [|intro h'; apply IH].
    intros s s' r H. apply open_dir_spec in H. destruct H as (L & T & G & _).
    split; [exact L|split; assumption].
  Qed.

  Lemma open_root_ro : forall p, readonly (run (liftF (open_root (quiet E) p))).
  Proof.
    intros p s s' r H. apply open_root_spec in H. destruct H as (L & T & G & _).
    split; [exact L|split; assumption].
  Qed.

  Lemma walk_ro : forall p v, readonly (walk E rn p v).
  Proof.
    intros p v. unfold walk. destruct p as [|a p].
    - apply readonly_bind; [apply open_root_ro|]. intros [md|f]; [apply readonly_ret|apply readonly_err].
    - apply readonly_bind; [apply open_root_ro|]. intros [md|f]; [|apply readonly_err].
      apply readonly_bind; [apply walk_comps_ro|]. intro h. destruct v; [|apply readonly_ret].
      apply readonly_bind; [apply name_exists_ro|]. intros [|]; [apply readonly_ret|apply readonly_err].
  Qed.

  (* the handle a successful walk returns *)
  Lemma existsb_eqb_in : forall n l, existsb (String.eqb n) l = true <-> In n l.
  Proof.
    intros n l. rewrite existsb_exists. split.
    - intros (x & Hx & E0). apply String.eqb_eq in E0. subst. exact Hx.
    - intro H. exists n. split; [exact H|apply String.eqb_refl].
  Qed.

  Lemma walk_comps_ok : forall comps h s s' h',
    walk_comps E h comps s = (s', ROk h') ->
    (exists m c, dir_at h (tfs s) = Some (m, c)) ->
    ~ In "." comps ->
    h' = h ++ comps /\ exists m c, dir_at h' (tfs s) = Some (m, c).
  Proof.
    induction comps as [|c rest IH]; intros h s s' h' H Hd Hdot; cbn [walk_comps] in H.
    - injection H as _ <-. rewrite app_nil_r. split; [reflexivity|exact Hd].
    - unfold tbind in H. destruct (name_exists E h c s) as [s1 r1] eqn:NE.
      destruct (name_exists_ro h c _ _ _ NE) as (_ & T1 & _).
      destruct r1 as [found|e|]; try discriminate.
      destruct (negb found); [discriminate|].
      destruct (run (liftF (open_dir (quiet E) h c)) s1) as [s2 r2] eqn:OD.
      apply open_dir_spec in OD. destruct OD as (_ & T2 & _ & R2).
      destruct r2 as [d|e|]; try discriminate.
      assert (c <> ".") as Hc by (intro K; apply Hdot; left; exact K).
      destruct (R2 d eq_refl Hc) as (-> & m & c0 & m1 & c1 & D & Lk).
      destruct (IH (h ++ [c]) s2 s' h' H) as [-> (m2 & c2 & D2)].
      + rewrite T2, T1. exists m1, c1. unfold dir_at in *.
        rewrite T1 in D. rewrite get_app.
        destruct (get h (tfs s)) as [[m3 c3| | |]|]; try discriminate. injection D as -> ->.
        cbn [get]. rewrite Lk. reflexivity.
      + intro K. apply Hdot. right. exact K.
      + split; [rewrite <- app_assoc; reflexivity|]. rewrite T2, T1 in D2. exists m2, c2. exact D2.
  Qed.

  Lemma removelast_last_app : forall (p : path), p <> [] -> removelast p ++ [last p ""] = p.
  Proof. intros p H. symmetry. apply app_removelast_last. exact H. Qed.

  (* names of plan paths: no "." component (Entry.EnsureValid) *)
  Definition path_ok (p : path) : Prop := ~ In "." p.

  Lemma walk_ok : forall p v s s' h n,
    walk E rn p v s = (s', ROk (h, n)) -> path_ok p ->
    h ++ [n] = rn :: p /\ exists m c, dir_at h (tfs s) = Some (m, c).
  Proof.
    intros p v s s' h n H Hp. unfold walk in H. destruct p as [|a p].
    - unfold tbind in H. destruct (run (liftF (open_root (quiet E) [])) s) as [s1 r1] eqn:OR.
      apply open_root_spec in OR. destruct OR as (_ & T1 & _ & R1).
      destruct r1 as [[md|f]|e|]; try discriminate. injection H as _ <- <-.
      split; [reflexivity|]. destruct (R1 md eq_refl) as (m & c & G). exists m, c.
      unfold dir_at. rewrite G. reflexivity.
    - unfold tbind in H. destruct (run (liftF (open_root (quiet E) [rn])) s) as [s1 r1] eqn:OR.
      apply open_root_spec in OR. destruct OR as (_ & T1 & _ & R1).
      destruct r1 as [[md|f]|e|]; try discriminate.
      destruct (walk_comps E [rn] (removelast (a :: p)) s1) as [s2 r2] eqn:WC.
      destruct (walk_comps_ro _ _ _ _ _ WC) as (_ & T2 & _).
      destruct r2 as [h'|e|]; try discriminate.
      destruct (walk_comps_ok _ _ _ _ _ WC) as [-> (m2 & c2 & D2)].
      + destruct (R1 md eq_refl) as (m & c & G). exists m, c. unfold dir_at. rewrite T1, G. reflexivity.
      + intro K. apply Hp. clear - K. revert K. generalize (a :: p) as l.
        induction l as [|x [|y l] IH]; cbn [removelast In]; [tauto|tauto|].
        intros [K|K]; [left; exact K|right; apply IH; exact K].
      + assert (exists s3, (s3, ROk (([rn] ++ removelast (a :: p)), last (a :: p) "")) = (s', ROk (h, n))) as [s3 H3].
        { destruct v.
          - destruct (name_exists E ([rn] ++ removelast (a :: p)) (last (a :: p) "") s2) as [s3 r3].
            destruct r3 as [[|]|e|]; try discriminate. exists s3. exact H.
          - exists s2. exact H. }
        injection H3 as _ <- <-. split.
        * change (rn :: (removelast (a :: p) ++ [last (a :: p) ""]) = rn :: a :: p).
          rewrite removelast_last_app by discriminate. reflexivity.
        * rewrite T1 in D2. exists m2, c2. exact D2.
  Qed.

  (* a validated leaf exists *)
  Lemma walk_ok_leaf : forall p s s' h n,
    walk E rn p true s = (s', ROk (h, n)) -> p <> [] -> path_ok p ->
    exists m c, dir_at h (tfs s) = Some (m, c) /\ nlookup n c <> None.
  Proof.
    intros p s s' h n H Hne Hp. unfold walk in H. destruct p as [|a p]; [congruence|].
    unfold tbind in H. destruct (run (liftF (open_root (quiet E) [rn])) s) as [s1 r1] eqn:OR.
    apply open_root_spec in OR. destruct OR as (_ & T1 & _ & R1).
    destruct r1 as [[md|f]|e|]; try discriminate.
    destruct (walk_comps E [rn] (removelast (a :: p)) s1) as [s2 r2] eqn:WC.
    destruct (walk_comps_ro _ _ _ _ _ WC) as (_ & T2 & _).
    destruct r2 as [h'|e|]; try discriminate.
    destruct (name_exists E h' (last (a :: p) "") s2) as [s3 r3] eqn:NE.
    destruct r3 as [[|]|e|]; try discriminate. injection H as _ <- <-.
    apply name_exists_ok in NE. destruct NE as (m & c & D & Hb).
    exists m, c. rewrite T2, T1 in D. split; [exact D|].
    apply nlookup_in_keys. apply existsb_eqb_in. symmetry. exact Hb.
  Qed.

End Funs.
