(* Specifications of the leaf functions of the transition model:
   ensureExpectedFile / ensureExpectedSymbolicLink, removeFile,
   removeSymbolicLink, findAndMoveStagedFileIntoPlace, swapFile,
   createSymbolicLink. *)
From Coq Require Import List Bool Arith String Ascii NArith Lia.
From Mv Require Import Model.Entry Model.Fs Model.FsExt Model.Transition Model.TransitionCheck
     Proof.EntryFacts Proof.FsFacts Proof.TransPrims Proof.TransFrames.
Import ListNotations.
Open Scope string_scope.
Open Scope list_scope.

Lemma meta_match_name : forall n n' y ce d,
  meta_match (metadata_of n y) ce d = meta_match (metadata_of n' y) ce d.
Proof. reflexivity. Qed.

Lemma step_at_frameS : forall h (S : name -> Prop) s s' ok
    (P : meta -> list (name * node) -> list (name * node) -> Prop),
  step_at h s s' ok P ->
  (forall m c c', P m c c' -> forall k, ~ S k -> nlookup k c' = nlookup k c) ->
  frameS h S (tfs s) (tfs s').
Proof.
  intros h S s s' ok P (_ & _ & [[_ T]|(_ & m & c & c' & D & HP & T)]) HK.
  - rewrite T. apply frameS_refl.
  - rewrite T. apply (frameS_repl h S (tfs s) m c c' D). intros k Hk. apply (HK m c c' HP k Hk).
Qed.

Lemma prefix_app : forall a b, String.prefix a (a ++ b)%string = true.
Proof.
  induction a as [|x a IH]; intro b; cbn; [destruct b; reflexivity|].
  destruct (Ascii.ascii_dec x x); [apply IH|congruence].
Qed.

Lemma sapp_assoc : forall a b c : string, ((a ++ b) ++ c = a ++ (b ++ c))%string.
Proof. induction a as [|x a IH]; intros b c; cbn; [reflexivity|]. rewrite IH. reflexivity. Qed.

Lemma temp_name_tmp : forall tag, tmpname (temp_name xdev_pattern tag).
Proof.
  intro tag. unfold tmpname, temp_name.
  replace (split_last_star xdev_pattern) with (@None (string * string)) by (vm_compute; reflexivity).
  change xdev_pattern with (tmp_prefix ++ "cross-device-rename")%string.
  rewrite sapp_assoc. apply prefix_app.
Qed.

Section Leaves.
  Variable norm : path -> string -> option string.
  Variable E : env.
  Variable rn : name.
  Variable ch : cache.
  Variable slm : slmode.
  Variable dfm ddm : N.
  Variable own : bool.
  Variable fixed : bool.

  (* ---------- ensureExpectedFile ---------- *)
  Lemma ensure_expected_file_spec : forall h n p e s s' r,
    ensure_expected_file E ch h n p e s = (s', r) ->
    same_log s s' /\ tfs s' = tfs s /\ tstg s' = tstg s /\
    (r = ROk tt -> exists m c y, dir_at h (tfs s) = Some (m, c) /\ nlookup n c = Some y /\
                                 file_ok ch y p (entry_digest e) = true).
  Proof.
    intros h n p e s s' r H. unfold ensure_expected_file in H. unfold file_ok.
    destruct (cache_get ch p) as [cen|].
    - unfold tbind in H. destruct (run (liftF (read_meta (quiet E) h n)) s) as [s1 r1] eqn:RM.
      apply read_meta_spec in RM. destruct RM as (L & T & G & R).
      destruct r1 as [md|e0|].
      + destruct (R md eq_refl) as (m & c & y & D & Ly & ->).
        destruct (meta_match (metadata_of n y) cen (entry_digest e)) eqn:MM.
        * injection H as <- <-. split; [exact L|split; [exact T|split; [exact G|]]].
          intros _. exists m, c, y. split; [exact D|split; [exact Ly|exact MM]].
        * injection H as <- <-. split; [exact L|split; [exact T|split; [exact G|discriminate]]].
      + injection H as <- <-. split; [exact L|split; [exact T|split; [exact G|discriminate]]].
      + injection H as <- <-. split; [exact L|split; [exact T|split; [exact G|discriminate]]].
    - injection H as <- <-. repeat split; discriminate.
  Qed.

  (* ---------- ensureExpectedSymbolicLink ---------- *)
  Lemma ensure_expected_link_spec : forall h n p e s s' r,
    ensure_expected_link norm E slm h n p e s = (s', r) ->
    same_log s s' /\ tfs s' = tfs s /\ tstg s' = tstg s /\
    (r = ROk tt -> slm <> SLIgnore ->
       exists m c y, dir_at h (tfs s) = Some (m, c) /\ nlookup n c = Some y /\
                     link_ok norm slm y p (entry_target e) = true).
  Proof.
    intros h n p e s s' r H. unfold ensure_expected_link, tbind in H.
    destruct (run (liftF (read_link (quiet E) h n)) s) as [s1 r1] eqn:RL.
    apply read_link_spec in RL. destruct RL as (L & T & G & R).
    destruct r1 as [t|e0|].
    - destruct (R t eq_refl) as (m & c & m0 & D & Ly).
      destruct (match slm with SLPortable => norm p t | _ => Some t end) as [t'|] eqn:NT.
      + destruct (String.eqb t' (entry_target e)) eqn:TE.
        * injection H as <- <-. split; [exact L|split; [exact T|split; [exact G|]]].
          intros _ Hs. exists m, c, (NLink m0 t). split; [exact D|split; [exact Ly|]].
          unfold link_ok. destruct slm; [congruence| |].
          -- rewrite NT. exact TE.
          -- injection NT as <-. exact TE.
        * injection H as <- <-. split; [exact L|split; [exact T|split; [exact G|discriminate]]].
      + injection H as <- <-. split; [exact L|split; [exact T|split; [exact G|discriminate]]].
    - injection H as <- <-. split; [exact L|split; [exact T|split; [exact G|discriminate]]].
    - injection H as <- <-. split; [exact L|split; [exact T|split; [exact G|discriminate]]].
  Qed.

  (* ---------- removeFile / removeSymbolicLink ---------- *)
  (* the common shape: nothing happened, or the verified non-directory y was
     unlinked *)
  Definition removed_if (h : path) (n : name) (s s' : tstate) (ok : bool)
             (verified : node -> Prop) : Prop :=
    same_log s s' /\ tstg s' = tstg s /\
    ((ok = false /\ tfs s' = tfs s) \/
     (ok = true /\ exists m c y, dir_at h (tfs s) = Some (m, c) /\ nlookup n c = Some y /\
        is_dir y = false /\ verified y /\
        tfs s' = repl h (NDir m (nset n None c)) (tfs s))).

  Lemma remove_file_spec : forall h n p e s s' r,
    remove_file E ch h n p e s = (s', r) ->
    removed_if h n s s' (is_ok r) (fun y => file_ok ch y p (entry_digest e) = true).
  Proof.
    intros h n p e s s' r H. unfold remove_file, tbind in H.
    destruct (ensure_expected_file E ch h n p e s) as [s1 r1] eqn:EN.
    apply ensure_expected_file_spec in EN. destruct EN as ([L1 L1'] & T1 & G1 & R1).
    destruct r1 as [[]|e0|].
    - apply unlink_spec in H. destruct H as ([L2 L2'] & G2 & H).
      split; [split; congruence|]. split; [congruence|].
      destruct H as [[Hok T2]|(Hok & m & c & c' & D & (y & Ly & Hd & ->) & T2)].
      + left. split; [exact Hok|congruence].
      + right. split; [exact Hok|]. rewrite T1 in D, T2.
        destruct (R1 eq_refl) as (m' & c0 & y' & D' & Ly' & FO).
        rewrite D in D'. injection D' as <- <-. rewrite Ly in Ly'. injection Ly' as <-.
        exists m, c, y. repeat split; assumption.
    - injection H as <- <-. split; [split; assumption|]. split; [exact G1|].
      left. split; [reflexivity|exact T1].
    - injection H as <- <-. split; [split; assumption|]. split; [exact G1|].
      left. split; [reflexivity|exact T1].
  Qed.

  Lemma remove_link_spec : forall h n p e s s' r,
    remove_link norm E slm h n p e s = (s', r) ->
    removed_if h n s s' (is_ok r) (fun y => link_ok norm slm y p (entry_target e) = true).
  Proof.
    intros h n p e s s' r H. unfold remove_link in H.
    destruct (slmode_eqb slm SLIgnore) eqn:SI.
    { injection H as <- <-. split; [split; reflexivity|]. split; [reflexivity|].
      left. split; reflexivity. }
    assert (slm <> SLIgnore) as Hs by (intro K; subst; discriminate).
    unfold tbind in H.
    destruct (ensure_expected_link norm E slm h n p e s) as [s1 r1] eqn:EN.
    apply ensure_expected_link_spec in EN. destruct EN as ([L1 L1'] & T1 & G1 & R1).
    destruct r1 as [[]|e0|].
    - apply unlink_spec in H. destruct H as ([L2 L2'] & G2 & H).
      split; [split; congruence|]. split; [congruence|].
      destruct H as [[Hok T2]|(Hok & m & c & c' & D & (y & Ly & Hd & ->) & T2)].
      + left. split; [exact Hok|congruence].
      + right. split; [exact Hok|]. rewrite T1 in D, T2.
        destruct (R1 eq_refl Hs) as (m' & c0 & y' & D' & Ly' & FO).
        rewrite D in D'. injection D' as <- <-. rewrite Ly in Ly'. injection Ly' as <-.
        exists m, c, y. repeat split; assumption.
    - injection H as <- <-. split; [split; assumption|]. split; [exact G1|].
      left. split; [reflexivity|exact T1].
    - injection H as <- <-. split; [split; assumption|]. split; [exact G1|].
      left. split; [reflexivity|exact T1].
  Qed.

  Lemma removed_if_fr : forall h n s s' ok V, removed_if h n s s' ok V -> fr h n (tfs s) (tfs s').
  Proof.
    intros h n s s' ok V (_ & _ & [[_ T]|(_ & m & c & y & D & _ & _ & _ & T)]).
    - rewrite T. apply fr_refl.
    - rewrite T. apply fr_of_frame_eq. apply (frameS_repl h (eq n) _ m c _ D).
      intros k Hk. apply nlookup_nset_other. intro K. apply Hk. symmetry. exact K.
  Qed.

End Leaves.

(* ================================================================== *)
(* the staging store only loses objects or changes permission bits      *)
(* ================================================================== *)
Definition same_data (o o' : sobj) : Prop :=
  match o, o' with
  | SFile _ d, SFile _ d' => d = d'
  | SDir _, SDir _ => True
  | _, _ => False
  end.

Definition store_le (st st' : store) : Prop :=
  forall k o', sl_obj (sget k st') = Some o' ->
               exists o, sl_obj (sget k st) = Some o /\ same_data o o'.

Lemma same_data_refl : forall o, same_data o o.
Proof. intros [p d|p]; cbn; auto. Qed.

Lemma same_data_trans : forall a b c, same_data a b -> same_data b c -> same_data a c.
Proof. intros [p d|p] [q e|q] [r f|r]; cbn; try tauto; congruence. Qed.

Lemma same_data_with_mode : forall o p, same_data o (sobj_with_mode o p).
Proof. intros [q d|q] p; cbn; auto. Qed.

Lemma store_le_refl : forall st, store_le st st.
Proof. intros st k o H. exists o. split; [exact H|apply same_data_refl]. Qed.

Lemma store_le_trans : forall a b c, store_le a b -> store_le b c -> store_le a c.
Proof.
  intros a b c H1 H2 k o Ho. destruct (H2 k o Ho) as (o1 & Ho1 & S1).
  destruct (H1 k o1 Ho1) as (o0 & Ho0 & S0). exists o0. split; [exact Ho0|].
  eapply same_data_trans; eassumption.
Qed.

Lemma store_le_eq : forall a b, b = a -> store_le a b.
Proof. intros a b ->. apply store_le_refl. Qed.

Lemma store_step_le : forall k st st', store_step k st st' -> store_le st st'.
Proof.
  intros k st st' [Ho Hk] k' o' Ho'.
  destruct (skey_eqb k' k) eqn:Ek.
  - apply skey_eqb_eq in Ek. subst k'.
    destruct Hk as [Hn|(o & p & [[Ha Hb]|Hc])].
    + rewrite Hn in Ho'. discriminate.
    + rewrite Hb in Ho'. injection Ho' as <-. exists o. split; [exact Ha|apply same_data_with_mode].
    + rewrite Hc in Ho'. exists o'. split; [exact Ho'|apply same_data_refl].
  - assert (k' <> k) as Hne by (intro K; subst; rewrite skey_eqb_refl in Ek; discriminate).
    rewrite (Ho k' Hne) in Ho'. exists o'. split; [exact Ho'|apply same_data_refl].
Qed.

(* what findAndMoveStagedFileIntoPlace puts in place of the staged object o *)
Definition placed (fm : N) (o : sobj) (y : node) : Prop :=
  match o with
  | SFile _ d => exists mt, y = NFile mt d /\ (N.land fm 511 <> 0%N -> m_mode mt = N.land fm 511)
  | SDir _ => exists mt, y = NDir mt []
  end.

(* one step on the directory h seen from inside it *)
Lemma step_at_local : forall h s s' ok (P : meta -> list (name * node) -> list (name * node) -> Prop) m c,
  step_at h s s' ok P -> dir_at h (tfs s) = Some (m, c) ->
  (ok = false /\ tfs s' = tfs s) \/
  (ok = true /\ exists c', P m c c' /\ tfs s' = repl h (NDir m c') (tfs s) /\
                           dir_at h (tfs s') = Some (m, c')).
Proof.
  intros h s s' ok P m c (_ & _ & [[Hok T]|(Hok & m0 & c0 & c' & D & HP & T)]) Hd.
  - left. split; assumption.
  - right. split; [exact Hok|]. rewrite Hd in D. injection D as <- <-.
    exists c'. split; [exact HP|]. split; [exact T|]. rewrite T. apply (repl_dir_at h _ m c c' Hd).
Qed.

Lemma frameS_repl2 : forall h (S : name -> Prop) x m c c',
  dir_at h x = Some (m, c) ->
  (forall n, ~ S n -> nlookup n c' = nlookup n c) ->
  frameS h S x (repl h (NDir m c') x) /\ dir_at h (repl h (NDir m c') x) = Some (m, c').
Proof.
  intros. split; [apply (frameS_repl h S x m c c'); assumption|eapply repl_dir_at; eassumption].
Qed.

Section Move.
  Variable norm : path -> string -> option string.
  Variable E : env.
  Variable rn : name.
  Variable ch : cache.
  Variable slm : slmode.
  Variable dfm ddm : N.
  Variable own : bool.
  Variable fixed : bool.

  (* the unlink of the temporary file after a failure *)
  Lemma drop_temp_spec : forall (A : Type) h tn (r0 : result A) s s' r,
    drop_temp E h tn r0 s = (s', r) ->
    same_log s s' /\ tstg s' = tstg s /\ frameS h (eq tn) (tfs s) (tfs s') /\ is_ok r = false.
  Proof.
    intros A h tn r0 s s' r H. unfold drop_temp in H.
    destruct (run (liftF (unlink (quiet E) h tn)) s) as [s1 r1] eqn:U. injection H as <- <-.
    apply unlink_spec in U. pose proof (step_at_log _ _ _ _ _ U) as [L G].
    split; [exact L|split; [exact G|split]].
    - apply (step_at_frameS h (eq tn) _ _ _ _ U).
      intros m c c' (y & _ & _ & ->) k Hk. apply nlookup_nset_other. intro K. apply Hk. symmetry. exact K.
    - destruct r0; reflexivity.
  Qed.

  Definition mf_post (k : skey) (fm : N) (h : path) (n : name) (s s' : tstate) (r : result unit) : Prop :=
    tprobs s' = tprobs s /\ (tmiss s = true -> tmiss s' = true) /\
    store_le (tstg s) (tstg s') /\
    fr h n (tfs s) (tfs s') /\
    (is_ok r = false -> (get (h ++ [n]) (tfs s) <> None \/ ~ tmpname n) ->
       forall q, get (h ++ n :: q) (tfs s') = get (h ++ n :: q) (tfs s)) /\
    (is_ok r = true ->
       (exists o y, sl_obj (sget k (tstg s)) = Some o /\ get (h ++ [n]) (tfs s') = Some y /\ placed fm o y)).

  (* the target a successful move replaced: only with replace, and never a
     non-empty directory *)
  Definition target_ok (replace : bool) (t : option node) : Prop :=
    match t with
    | None => True
    | Some t => replace = true /\ (is_dir t = true -> nchildren t = [])
    end.

  Lemma move_fallback_spec : forall k fm h n replace s s' r,
    move_fallback E own k fm h n replace s = (s', r) ->
    mf_post k fm h n s s' r /\
    (is_ok r = true -> target_ok replace (get (h ++ [n]) (tfs s))).
  Proof.
    intros k fm h n replace s s' r H. unfold move_fallback in H.
    destruct (run (stage_open (quiet E) k) s) as [s3 r3] eqn:SO.
    apply stage_open_spec in SO. destruct SO as ([L3 L3'] & T3 & G3 & R3).
    destruct r3 as [obj|e3|].
    2:{ injection H as <- <-. split; [|discriminate]. unfold mf_post.
        destruct (is_not_exist e3);
          [change (tprobs (set_missing s3)) with (tprobs s3);
           change (tstg (set_missing s3)) with (tstg s3);
           change (tfs (set_missing s3)) with (tfs s3);
           change (tmiss (set_missing s3)) with true|];
          rewrite T3, G3; (split; [exact L3|]);
          (split; [intro; first [reflexivity|congruence]|]);
          (split; [apply store_le_refl|]); (split; [apply fr_refl|]);
          (split; [reflexivity|discriminate]). }
    2:{ injection H as <- <-. split; [|discriminate]. unfold mf_post. cbn [note_missing].
        rewrite T3, G3. split; [exact L3|]. split; [congruence|].
        split; [apply store_le_refl|]. split; [apply fr_refl|]. split; [reflexivity|discriminate]. }
    specialize (R3 obj eq_refl).
    destruct (run (liftF (create_temp (quiet E) h xdev_pattern)) s3) as [s4 r4] eqn:CT.
    apply create_temp_spec in CT. destruct CT as ([L4 L4'] & G4 & CT).
    destruct CT as [[T4 N4]|(m & c & D3 & CT)].
    { destruct r4 as [tn|e4|]; [exfalso; apply (N4 tn); reflexivity| |];
        injection H as <- <-; (split; [|discriminate]); unfold mf_post;
        rewrite T4, T3, G4, G3;
        (split; [congruence|]); (split; [congruence|]);
        (split; [apply store_le_refl|]); (split; [apply fr_refl|]);
        (split; [reflexivity|discriminate]). }
    cbn zeta in CT. set (tn := temp_name xdev_pattern (temp_tag (quiet E) (tcalls s3))) in *.
    destruct CT as (Labs & -> & T4).
    assert (dir_at h (tfs s) = Some (m, c)) as D0 by (rewrite <- T3; exact D3).
    assert (get (h ++ [tn]) (tfs s) = None) as Tabs by exact (eq_trans (dir_at_get1 _ _ _ _ tn D0) Labs).
    assert (tmpname tn) as Ttmp by apply temp_name_tmp.
    set (c4 := nset tn (Some (NFile (new_meta (quiet E) (tcalls s3) 384 0 (m_dev m)) "")) c) in *.
    assert (frameS h (eq tn) (tfs s) (tfs s4) /\ dir_at h (tfs s4) = Some (m, c4)) as [F4 D4].
    { rewrite T4, T3. apply (frameS_repl2 h (eq tn) (tfs s) m c c4 D0).
      intros k0 Hk. apply nlookup_nset_other. intro K. apply Hk. symmetry. exact K. }
    assert (forall sx rx, frameS h (eq tn) (tfs s) (tfs sx) -> tprobs sx = tprobs s ->
              (tmiss s = true -> tmiss sx = true) -> store_le (tstg s) (tstg sx) ->
              is_ok rx = false -> mf_post k fm h n s sx rx) as Fail.
    { intros sx rx Fx Px Mx Sx Rx. unfold mf_post.
      split; [exact Px|]. split; [exact Mx|]. split; [exact Sx|]. split; [|split].
      - apply (fr_of_frameS h n (eq tn)); [exact Fx|]. intros k0 <-. right. split; assumption.
      - intros _ Hn q. destruct Fx as (A1 & _ & _). apply A1. intros <-.
        destruct Hn as [Hn|Hn]; [exact (Hn Tabs)|exact (Hn Ttmp)].
      - rewrite Rx. discriminate. }
    (* the copy *)
    destruct (run (xbind (stage_read (quiet E) obj)
                         (fun data => liftF (write_file (quiet E) h tn data))) s4) as [s5 r5] eqn:CP.
    assert (exists s45 r45, run (stage_read (quiet E) obj) s4 = (s45, r45) /\
              match r45 with
              | ROk data => run (liftF (write_file (quiet E) h tn data)) s45 = (s5, r5)
              | RErr e => (s45, RErr e) = (s5, r5)
              | RCancelled => (s45, RCancelled) = (s5, r5)
              end) as (s45 & r45 & SR & WF).
    { unfold run, xbind in *. destruct (stage_read (quiet E) obj (tx s4)) as [x45 r45] eqn:SRx.
      eexists _, r45. split; [reflexivity|]. cbn [tx tprobs tmiss].
      destruct r45 as [data|e|]; exact CP. }
    apply stage_read_spec in SR. destruct SR as ([L45 L45'] & T45 & G45 & R45).
    assert (tprobs s45 = tprobs s /\ (tmiss s = true -> tmiss s45 = true) /\ tstg s45 = tstg s) as (P45 & M45 & S45).
    { split; [congruence|]. split; [intro; congruence|congruence]. }
    assert (frameS h (eq tn) (tfs s) (tfs s45) /\ dir_at h (tfs s45) = Some (m, c4)) as [F45 D45].
    { rewrite T45. split; assumption. }
    destruct r45 as [data|e45|].
    2:{ injection WF as <- <-. apply drop_temp_spec in H. destruct H as ([LD LD'] & GD & FD & RD).
        split; [|rewrite RD; discriminate]. apply Fail; try assumption.
        - eapply frameS_trans; eassumption.
        - congruence.
        - intro Hm. rewrite LD'. auto.
        - rewrite GD, S45. apply store_le_refl. }
    2:{ injection WF as <- <-. apply drop_temp_spec in H. destruct H as ([LD LD'] & GD & FD & RD).
        split; [|rewrite RD; discriminate]. apply Fail; try assumption.
        - eapply frameS_trans; eassumption.
        - congruence.
        - intro Hm. rewrite LD'. auto.
        - rewrite GD, S45. apply store_le_refl. }
    destruct (R45 data eq_refl) as [p0 ->].
    apply write_file_spec in WF. pose proof (step_at_log _ _ _ _ _ WF) as [[L5 L5'] G5].
    assert (tprobs s5 = tprobs s /\ (tmiss s = true -> tmiss s5 = true) /\ tstg s5 = tstg s) as (P5 & M5 & S5).
    { split; [congruence|]. split; [intro Hm; rewrite L5'; auto|congruence]. }
    destruct (step_at_local _ _ _ _ _ _ _ WF D45) as [[Hok5 T5]|(Hok5 & c5 & (m0 & d0 & m1 & Lt4 & ->) & T5 & D5)].
    { destruct r5 as [[]|e5|]; [discriminate| |];
        (apply drop_temp_spec in H; destruct H as ([LD LD'] & GD & FD & RD);
         split; [|rewrite RD; discriminate]; apply Fail; try assumption;
         [eapply frameS_trans; [|exact FD]; rewrite T5; exact F45
         |congruence|intro Hm; rewrite LD'; auto|rewrite GD, S5; apply store_le_refl]). }
    destruct r5 as [[]|e5|]; try discriminate.
    set (c5 := nset tn (Some (NFile m1 data)) c4) in *.
    assert (frameS h (eq tn) (tfs s) (tfs s5)) as F5.
    { eapply frameS_trans; [exact F45|]. rewrite T5. apply (frameS_repl h (eq tn) _ m c4 c5 D45).
      intros k0 Hk. apply nlookup_nset_other. intro K. apply Hk. symmetry. exact K. }
    (* permissions of the temporary file *)
    destruct (run (liftF (set_permissions (quiet E) h tn own fm)) s5) as [s6 r6] eqn:SP.
    apply set_permissions_spec in SP. destruct SP as ([L6 L6'] & G6 & SP6).
    assert (tprobs s6 = tprobs s /\ (tmiss s = true -> tmiss s6 = true) /\ tstg s6 = tstg s) as (P6 & M6 & S6).
    { split; [congruence|]. split; [intro Hm; rewrite L6'; auto|congruence]. }
    assert (forall k0, k0 <> tn -> nlookup k0 c5 = nlookup k0 c) as Oth5.
    { intros k0 Hk. unfold c5, c4. rewrite !nlookup_nset_other by exact Hk. reflexivity. }
    assert (nlookup tn c5 = Some (NFile m1 data)) as Lt5 by (unfold c5; apply nlookup_nset_some).
    assert (exists m6 c6, frameS h (eq tn) (tfs s) (tfs s6) /\ dir_at h (tfs s6) = Some (m, c6) /\
              nlookup tn c6 = Some (NFile m6 data) /\
              (is_ok r6 = true -> N.land fm 511 <> 0%N -> m_mode m6 = N.land fm 511) /\
              (forall k0, k0 <> tn -> nlookup k0 c6 = nlookup k0 c)) as (m6 & c6 & F6 & D6 & Lt6 & Md6 & Oth6).
    { destruct SP6 as [[Hok6 T6]|[(-> & Hz & T6)|(-> & Hz & m' & c' & y & D' & Ly & _ & T6)]].
      - exists m1, c5. rewrite T6. split; [exact F5|]. split; [exact D5|]. split; [exact Lt5|].
        split; [rewrite Hok6; discriminate|exact Oth5].
      - exists m1, c5. rewrite T6. split; [exact F5|]. split; [exact D5|]. split; [exact Lt5|].
        split; [intros _ K; contradiction|exact Oth5].
      - rewrite D5 in D'. injection D' as <- <-. rewrite Lt5 in Ly. injection Ly as <-.
        cbn [with_meta node_meta] in T6.
        exists (set_mode m1 (N.land fm 511)), (nset tn (Some (NFile (set_mode m1 (N.land fm 511)) data)) c5).
        split; [|split; [|split; [|split]]].
        + eapply frameS_trans; [exact F5|]. rewrite T6. apply (frameS_repl h (eq tn) _ m c5 _ D5).
          intros k0 Hk. apply nlookup_nset_other. intro K. apply Hk. symmetry. exact K.
        + rewrite T6. eapply repl_dir_at. exact D5.
        + apply nlookup_nset_some.
        + intros _ _. reflexivity.
        + intros k0 Hk. rewrite nlookup_nset_other by exact Hk. apply Oth5. exact Hk. }
    destruct r6 as [[]|e6|].
    2:{ apply drop_temp_spec in H. destruct H as ([LD LD'] & GD & FD & RD).
        split; [|rewrite RD; discriminate]. apply Fail; try assumption.
        - eapply frameS_trans; eassumption.
        - congruence.
        - intro Hm. rewrite LD'. auto.
        - rewrite GD, S6. apply store_le_refl. }
    2:{ apply drop_temp_spec in H. destruct H as ([LD LD'] & GD & FD & RD).
        split; [|rewrite RD; discriminate]. apply Fail; try assumption.
        - eapply frameS_trans; eassumption.
        - congruence.
        - intro Hm. rewrite LD'. auto.
        - rewrite GD, S6. apply store_le_refl. }
    (* the rename of the temporary file onto the target *)
    destruct (run (liftF (rename_local (quiet E) h tn n replace)) s6) as [s7 r7] eqn:RN.
    apply rename_local_spec in RN. pose proof (step_at_log _ _ _ _ _ RN) as [[L7 L7'] G7].
    assert (tprobs s7 = tprobs s /\ (tmiss s = true -> tmiss s7 = true) /\ tstg s7 = tstg s) as (P7 & M7 & S7).
    { split; [congruence|]. split; [intro Hm; rewrite L7'; auto|congruence]. }
    destruct (step_at_local _ _ _ _ _ _ _ RN D6) as [[Hok7 T7]|(Hok7 & c7 & (src & Ls & Hcase) & T7 & D7)].
    { destruct r7 as [[]|e7|]; [discriminate| |];
        (apply drop_temp_spec in H; destruct H as ([LD LD'] & GD & FD & RD);
         split; [|rewrite RD; discriminate]; apply Fail; try assumption;
         [eapply frameS_trans; [|exact FD]; rewrite T7; exact F6
         |congruence|intro Hm; rewrite LD'; auto|rewrite GD, S7; apply store_le_refl]). }
    destruct r7 as [[]|e7|]; try discriminate.
    rewrite Lt6 in Ls. injection Ls as <-.
    destruct (run (stage_remove (quiet E) k) s7) as [s8 r8] eqn:SR8. injection H as <- <-.
    apply stage_remove_spec in SR8. destruct SR8 as ([L8 L8'] & T8 & G8).
    (* the final contents: the file is at n, everything but n and tn as before *)
    assert (nlookup n c7 = Some (NFile m6 data) /\
            (forall k0, k0 <> tn -> k0 <> n -> nlookup k0 c7 = nlookup k0 c)) as [Ln7 Oth7].
    { destruct Hcase as [ [ <- -> ] | (Hne & _ & ->) ].
      - split; [exact Lt6|]. intros k0 Hk _. apply Oth6. exact Hk.
      - split; [apply nlookup_nset_some|]. intros k0 Hk1 Hk2.
        rewrite !nlookup_nset_other by assumption. apply Oth6. exact Hk1. }
    split.
    - unfold mf_post. rewrite T8. split; [congruence|]. split; [intro Hm; rewrite L8'; auto|].
      split; [|split; [|split]].
      + eapply store_le_trans; [apply store_le_eq; exact S7|]. eapply store_step_le. exact G8.
      + apply (fr_of_frameS h n (fun k0 => k0 = tn \/ k0 = n)).
        * eapply frameS_trans.
          -- apply (frameS_weaken h (eq tn)); [intros k0 <-; left; reflexivity|exact F6].
          -- rewrite T7. apply (frameS_repl h _ _ m c6 c7 D6). intros k0 Hk.
             rewrite Oth7, Oth6; try reflexivity; intro K; apply Hk; auto.
        * intros k0 [ -> | -> ]; [right; split; assumption|left; reflexivity].
      + discriminate.
      + intros _. exists (SFile p0 data), (NFile m6 data). split; [exact R3|].
        split; [rewrite (dir_at_get1 _ _ _ _ n D7); exact Ln7|].
        cbn. exists m6. split; [reflexivity|]. intro Hz. apply Md6; [reflexivity|exact Hz].
    - intros _. unfold target_ok. rewrite (dir_at_get1 _ _ _ _ n D0).
      destruct Hcase as [ [ <- -> ] | (Hne & Hcl & ->) ].
      + rewrite Labs. exact I.
      + rewrite Oth6 in Hcl by (intro K; apply Hne; symmetry; exact K).
        destruct (nlookup n c) as [t|]; [|exact I]. cbn in Hcl.
        destruct replace; [|discriminate]. split; [reflexivity|].
        destruct t; try discriminate; intros _; discriminate.
  Qed.

End Move.

Lemma placed_same_data : forall fm o o' y, same_data o o' -> placed fm o' y -> placed fm o y.
Proof.
  intros fm [p d|p] [p' d'|p'] y H; cbn in *; try contradiction; [subst; auto|auto].
Qed.

Section Move2.
  Variable norm : path -> string -> option string.
  Variable E : env.
  Variable rn : name.
  Variable ch : cache.
  Variable slm : slmode.
  Variable dfm ddm : N.
  Variable own : bool.
  Variable fixed : bool.

  Lemma find_and_move_spec : forall p target h n replace s s' r,
    find_and_move E dfm own p target h n replace s = (s', r) ->
    mf_post (p, entry_digest target) (file_mode dfm target) h n s s' r /\
    (is_ok r = true -> target_ok replace (get (h ++ [n]) (tfs s))).
  Proof.
    intros p target h n replace s s' r H. unfold find_and_move, note_missing in H.
    set (k := (p, entry_digest target)) in *. set (fm := file_mode dfm target) in *.
    destruct (run (stage_set_permissions (quiet E) k own fm) s) as [s1 r1] eqn:SP.
    pose proof (stage_set_permissions_spec _ _ _ _ _ _ _ SP) as ([L1 L1'] & T1 & G1).
    assert (forall sx (rx : result unit), tfs sx = tfs s -> tprobs sx = tprobs s ->
              (tmiss s = true -> tmiss sx = true) -> store_le (tstg s) (tstg sx) ->
              is_ok rx = false -> mf_post k fm h n s sx rx) as Fail.
    { intros sx rx Tx Px Mx Sx Rx. unfold mf_post. rewrite Tx.
      split; [exact Px|]. split; [exact Mx|]. split; [exact Sx|]. split; [apply fr_refl|].
      split; [reflexivity|rewrite Rx; discriminate]. }
    assert (store_le (tstg s) (tstg s1)) as SL1 by (eapply store_step_le; exact G1).
    destruct r1 as [[]|e1|].
    2:{ injection H as <- <-. split; [|discriminate].
        destruct (is_not_exist e1); apply Fail;
          first [exact T1|exact L1|exact SL1|reflexivity|intro Hm; first [reflexivity|congruence]]. }
    2:{ injection H as <- <-. split; [|discriminate].
        apply Fail; first [exact T1|exact L1|exact SL1|reflexivity|intro Hm; congruence]. }
    destruct (run (rename_in (quiet E) k h n replace) s1) as [s2 r2] eqn:RI.
    apply rename_in_spec in RI. destruct RI as ([L2 L2'] & G2 & RI).
    destruct RI as [(Hok2 & T2 & S2)|(Hok2 & m & c & o & D & O & RI)].
    - (* the rename failed *)
      assert (tfs s2 = tfs s) as T02 by congruence.
      assert (tprobs s2 = tprobs s) as P02 by congruence.
      assert (store_le (tstg s) (tstg s2)) as SL2 by (rewrite S2; exact SL1).
      destruct r2 as [[]|e2|]; try discriminate.
      + destruct (is_cross_device e2).
        * (* fallback *)
          apply move_fallback_spec in H. destruct H as [(P & Mi & St & Fr & Un & Pl) TO].
          rewrite T02 in *. split; [|exact TO].
          unfold mf_post. split; [congruence|]. split; [intro Hm; apply Mi; congruence|].
          split; [|split; [exact Fr|split; [exact Un|]]].
          -- eapply store_le_trans; [exact SL2|exact St].
          -- intro Hok. destruct (Pl Hok) as (o' & y & O' & Gy & Pl').
             destruct (SL2 k o' O') as (o0 & O0 & SD).
             exists o0, y. split; [exact O0|]. split; [exact Gy|].
             eapply placed_same_data; eassumption.
        * injection H as <- <-. split; [|discriminate].
          destruct (is_not_exist e2); apply Fail;
            first [exact T02|exact P02|exact SL2|reflexivity|intro Hm; first [reflexivity|congruence]].
      + injection H as <- <-. split; [|discriminate].
        apply Fail; first [exact T02|exact P02|exact SL2|reflexivity|intro Hm; congruence].
    - (* the rename succeeded *)
      destruct r2 as [[]|e2|]; try discriminate. injection H as <- <-.
      cbn zeta in RI. destruct RI as [Cl T2]. rewrite T1 in D, T2.
      set (src := node_of_sobj (quiet E) (tcalls s1) (m_dev m) o) in *.
      split.
      + unfold mf_post. split; [congruence|]. split; [intro Hm; congruence|].
        split; [|split; [|split]].
        * eapply store_le_trans; [exact SL1|eapply store_step_le; exact G2].
        * rewrite T2. apply fr_of_frame_eq. apply (frameS_repl h (eq n) _ m c _ D).
          intros k0 Hk. apply nlookup_nset_other. intro K. apply Hk. symmetry. exact K.
        * discriminate.
        * intros _.
          destruct (SL1 k o O) as (o0 & O0 & SD).
          exists o0, src. split; [exact O0|]. split.
          { rewrite T2. rewrite (repl_get_under h _ (tfs s) m c [n] D). cbn [get].
            rewrite nlookup_nset_some. reflexivity. }
          apply (placed_same_data fm o0 o src SD). unfold src.
          destruct o as [p0 d|p0]; cbn.
          -- eexists. split; [reflexivity|]. cbn. intro Hz.
             destruct (stage_set_permissions_ok _ _ _ _ _ _ SP Hz) as (o1 & _ & O1 & _).
             rewrite O in O1. destruct o1; cbn in O1; congruence.
          -- eexists. reflexivity.
      + intros _. unfold target_ok. rewrite (dir_at_get1 _ _ _ _ n D).
        destruct (nlookup n c) as [t|]; [|exact I]. cbn in Cl.
        destruct replace; [|discriminate]. split; [reflexivity|].
        cbn in Cl. destruct src; destruct t as [mt [|]| | |]; try discriminate; intros _; try reflexivity; discriminate.
  Qed.

End Move2.
