(* Frames and specifications of the filesystem primitives as the transition
   model uses them (lifted to the transition state). *)
From Coq Require Import List Bool Arith String Ascii NArith Lia.
From Mv Require Import Model.Entry Model.Fs Model.FsExt Model.Transition
     Proof.EntryFacts Proof.FsFacts.
Import ListNotations.
Open Scope string_scope.
Open Scope list_scope.

(* ================================================================== *)
(* 1. frames                                                            *)
(* ================================================================== *)

(* Between the trees x and x' only children of the directory [h] whose names
   satisfy S may have changed: other children of h and everything that is
   neither above nor below h is the same, and the directories from the root
   down to h are still directories with the same metadata. *)
Definition frameS (h : path) (S : name -> Prop) (x x' : node) : Prop :=
  (forall n q, ~ S n -> get (h ++ n :: q) x' = get (h ++ n :: q) x) /\
  (forall P, is_prefix h P = false -> is_prefix P h = false -> get P x' = get P x) /\
  (forall P m c, is_prefix P h = true -> get P x = Some (NDir m c) ->
                 exists c', get P x' = Some (NDir m c')).

Lemma frameS_refl : forall h S x, frameS h S x x.
Proof.
  intros h S x. split; [|split]; try reflexivity.
  intros P m c _ Hg. exists c. exact Hg.
Qed.

Lemma frameS_trans : forall h S x y z, frameS h S x y -> frameS h S y z -> frameS h S x z.
Proof.
  intros h S x y z (A1 & A2 & A3) (B1 & B2 & B3). split; [|split].
  - intros n q Hn. rewrite B1, A1 by exact Hn. reflexivity.
  - intros P H1 H2. rewrite B2, A2 by assumption. reflexivity.
  - intros P m c HP Hg. destruct (A3 P m c HP Hg) as [c1 H1].
    destruct (B3 P m c1 HP H1) as [c2 H2]. exists c2. exact H2.
Qed.

Lemma frameS_weaken : forall h (S S' : name -> Prop) x y,
  (forall n, S n -> S' n) -> frameS h S x y -> frameS h S' x y.
Proof.
  intros h S S' x y HS (A1 & A2 & A3). split; [|split]; [|exact A2|exact A3].
  intros n q Hn. apply A1. intro K. apply Hn. apply HS. exact K.
Qed.

Lemma frameS_dir_at : forall h S x y m c,
  frameS h S x y -> dir_at h x = Some (m, c) -> exists c', dir_at h y = Some (m, c').
Proof.
  intros h S x y m c (_ & _ & A3) Hd. unfold dir_at in *.
  destruct (get h x) as [[m0 c0| | |]|] eqn:G; try discriminate. injection Hd as -> ->.
  destruct (A3 h m c (is_prefix_refl h) G) as [c' Hc']. exists c'. rewrite Hc'. reflexivity.
Qed.

Lemma dir_at_get : forall h x m c n q,
  dir_at h x = Some (m, c) ->
  get (h ++ n :: q) x = match nlookup n c with Some y => get q y | None => None end.
Proof.
  intros h x m c n q Hd. unfold dir_at in Hd.
  destruct (get h x) as [[m0 c0| | |]|] eqn:G; try discriminate. injection Hd as -> ->.
  rewrite get_app, G. reflexivity.
Qed.

Lemma dir_at_get1 : forall h x m c n,
  dir_at h x = Some (m, c) -> get (h ++ [n]) x = nlookup n c.
Proof.
  intros h x m c n Hd. rewrite (dir_at_get h x m c n [] Hd). destruct (nlookup n c); reflexivity.
Qed.

(* replacing the contents of the directory at h *)
Lemma frameS_repl : forall h (S : name -> Prop) x m c c',
  dir_at h x = Some (m, c) ->
  (forall n, ~ S n -> nlookup n c' = nlookup n c) ->
  frameS h S x (repl h (NDir m c') x).
Proof.
  intros h S x m c c' Hd Hc. split; [|split].
  - intros n q Hn. rewrite (repl_get_under h (NDir m c') x m c (n :: q) Hd).
    rewrite (dir_at_get h x m c n q Hd). cbn [get]. rewrite (Hc n Hn). reflexivity.
  - intros P H1 H2. apply repl_get_apart; assumption.
  - intros P m0 c0 HP Hg. destruct (list_eq_dec string_dec P h) as [->|Hne].
    + pose proof (repl_dir_at h x m c c' Hd) as K. unfold dir_at in K, Hd. rewrite Hg in Hd.
      injection Hd as -> ->.
      destruct (get h (repl h (NDir m c') x)) as [[m1 c1| | |]|]; try discriminate.
      injection K as -> ->. exists c'. reflexivity.
    + exact (repl_get_spine h (NDir m c') x P m0 c0 HP Hne Hg).
Qed.

(* a change inside the child n of h is a change of the child n of h *)
Lemma frameS_lift : forall h n S x y,
  frameS (h ++ [n]) S x y -> frameS h (eq n) x y.
Proof.
  intros h n S x y (A1 & A2 & A3). split; [|split].
  - intros n' q Hn. apply A2.
    + destruct (is_prefix (h ++ [n]) (h ++ n' :: q)) eqn:K; [|reflexivity].
      exfalso. apply is_prefix_iff in K. destruct K as [r K].
      rewrite <- app_assoc in K. apply app_inv_head in K. cbn in K. injection K as K _.
      apply Hn. symmetry. exact K.
    + destruct (is_prefix (h ++ n' :: q) (h ++ [n])) eqn:K; [|reflexivity].
      exfalso. apply is_prefix_iff in K. destruct K as [r K].
      rewrite <- app_assoc in K. apply app_inv_head in K. cbn in K. injection K as K _.
      apply Hn. exact K.
  - intros P H1 H2. apply A2.
    + destruct (is_prefix (h ++ [n]) P) eqn:K; [|reflexivity].
      exfalso. assert (is_prefix h P = true) by (eapply is_prefix_trans; [apply is_prefix_app|exact K]).
      congruence.
    + destruct (is_prefix P (h ++ [n])) eqn:K; [|reflexivity].
      exfalso. apply is_prefix_iff in K. destruct K as [r K].
      destruct r as [|a r] using rev_ind.
      * rewrite app_nil_r in K. subst P. rewrite is_prefix_app in H1. discriminate.
      * rewrite app_assoc in K. apply app_inj_tail in K. destruct K as [K _]. subst h.
        rewrite is_prefix_app in H2. discriminate.
  - intros P m c HP Hg. apply (A3 P m c); [|exact Hg].
    eapply is_prefix_trans; [exact HP|apply is_prefix_app].
Qed.

(* ================================================================== *)
(* 2. the transition state                                              *)
(* ================================================================== *)

Definition tfs (s : tstate) : node := x_fs (tx s).
Definition tstg (s : tstate) : store := x_stg (tx s).
Definition tcalls (s : tstate) : nat := x_calls (tx s).

(* what [run] keeps *)
Definition same_log (s s' : tstate) : Prop := tprobs s' = tprobs s /\ tmiss s' = tmiss s.

Lemma run_log : forall (A : Type) (m : xstate -> xstate * result A) s s' r,
  run m s = (s', r) -> same_log s s'.
Proof.
  intros A m s s' r H. unfold run in H. destruct (m (tx s)) as [x' r']. injection H as <- <-.
  split; reflexivity.
Qed.

Lemma run_tx : forall (A : Type) (m : xstate -> xstate * result A) s s' r,
  run m s = (s', r) -> m (tx s) = (tx s', r).
Proof.
  intros A m s s' r H. unfold run in H. destruct (m (tx s)) as [x' r']. injection H as <- <-.
  reflexivity.
Qed.

(* ================================================================== *)
(* 3. primitives of Fs.v                                                *)
(* ================================================================== *)

(* a read-only primitive *)
Lemma prim_reading : forall (A : Type) E ok (f : node -> A + errno) s s' r,
  prim E ok (reading f) s = (s', r) ->
  fs s' = fs s /\ (forall a, r = ROk a -> f (fs s) = inl a).
Proof.
  intros A E ok f s s' r H. unfold prim in H. destruct (negb ok).
  - injection H as <- <-. split; [reflexivity|discriminate].
  - destruct (oracle E (calls s)).
    + unfold reading in H. destruct (f (fs s)) as [a|e] eqn:F.
      * injection H as <- <-. split; [reflexivity|]. intros a' [= <-]. reflexivity.
      * injection H as <- <-. split; [reflexivity|discriminate].
    + injection H as <- <-. split; [reflexivity|discriminate].
    + injection H as <- <-. split; [reflexivity|discriminate].
Qed.

Lemma run_reading : forall (A : Type) E ok (f : node -> A + errno) s s' r,
  run (liftF (prim E ok (reading f))) s = (s', r) ->
  same_log s s' /\ tfs s' = tfs s /\ tstg s' = tstg s /\
  (forall a, r = ROk a -> f (tfs s) = inl a).
Proof.
  intros A E ok f s s' r H. pose proof (run_log _ _ _ _ _ H) as L.
  apply run_tx in H. unfold liftF in H.
  destruct (prim E ok (reading f) {| fs := x_fs (tx s); calls := x_calls (tx s) |}) as [s1 r1] eqn:P.
  apply prim_reading in P. cbn [fs] in P. destruct P as [P1 P2].
  injection H as H1 <-. split; [exact L|]. unfold tfs, tstg. rewrite <- H1. cbn.
  split; [exact P1|]. split; [reflexivity|exact P2].
Qed.

(* a primitive that rewrites the contents of the directory at h *)
Lemma prim_upd : forall (A : Type) E ok h
    (F : nat -> meta -> list (name * node) -> (A * list (name * node)) + errno) s s' r,
  prim E ok (fun k x => in_dir_upd h x (F k)) s = (s', r) ->
  (fs s' = fs s /\ (forall a, r <> ROk a)) \/
  (exists m c a c', dir_at h (fs s) = Some (m, c) /\ F (calls s) m c = inl (a, c') /\
                    fs s' = repl h (NDir m c') (fs s) /\ r = ROk a).
Proof.
  intros A E ok h F s s' r H. unfold prim in H. destruct (negb ok).
  - injection H as <- <-. left. split; [reflexivity|discriminate].
  - destruct (oracle E (calls s)).
    + rewrite in_dir_upd_spec in H. destruct (dir_at h (fs s)) as [[m c]|] eqn:Hd.
      * destruct (F (calls s) m c) as [[a c']|e] eqn:HF.
        -- injection H as <- <-. right. exists m, c, a, c'. repeat split; assumption.
        -- injection H as <- <-. left. split; [reflexivity|discriminate].
      * injection H as <- <-. left. split; [reflexivity|discriminate].
    + injection H as <- <-. left. split; [reflexivity|discriminate].
    + injection H as <- <-. left. split; [reflexivity|discriminate].
Qed.

Lemma run_upd : forall (A : Type) E ok h
    (F : nat -> meta -> list (name * node) -> (A * list (name * node)) + errno) s s' r,
  run (liftF (prim E ok (fun k x => in_dir_upd h x (F k)))) s = (s', r) ->
  same_log s s' /\ tstg s' = tstg s /\
  ((tfs s' = tfs s /\ (forall a, r <> ROk a)) \/
   (exists m c a c', dir_at h (tfs s) = Some (m, c) /\ F (tcalls s) m c = inl (a, c') /\
                     tfs s' = repl h (NDir m c') (tfs s) /\ r = ROk a)).
Proof.
  intros A E ok h F s s' r H. pose proof (run_log _ _ _ _ _ H) as L.
  apply run_tx in H. unfold liftF in H.
  destruct (prim E ok (fun k x => in_dir_upd h x (F k))
                 {| fs := x_fs (tx s); calls := x_calls (tx s) |}) as [s1 r1] eqn:P.
  apply prim_upd in P. cbn [fs calls] in P. injection H as H1 <-.
  split; [exact L|]. unfold tfs, tstg, tcalls. rewrite <- H1. cbn. split; [reflexivity|exact P].
Qed.

(* the outcome of a step on the tree: nothing, or new contents for [h] *)
Definition step_at (h : path) (s s' : tstate) (ok : bool)
           (P : meta -> list (name * node) -> list (name * node) -> Prop) : Prop :=
  same_log s s' /\ tstg s' = tstg s /\
  ((ok = false /\ tfs s' = tfs s) \/
   (ok = true /\ exists m c c', dir_at h (tfs s) = Some (m, c) /\ P m c c' /\
                                tfs s' = repl h (NDir m c') (tfs s))).

Definition is_ok {A : Type} (r : result A) : bool :=
  match r with ROk _ => true | _ => false end.

Lemma is_ok_false : forall (A : Type) (r : result A), (forall a, r <> ROk a) -> is_ok r = false.
Proof. intros A [a| |] H; [exfalso; apply (H a); reflexivity|reflexivity|reflexivity]. Qed.

Ltac upd_start H :=
  apply run_upd in H; destruct H as (L & G & [[T N]|(m & c & a & c' & D & F & T & ->)]);
  (split; [exact L|split; [exact G|]]);
  [left; split; [apply is_ok_false; exact N|exact T]|].

Lemma unlink_spec : forall E h n s s' r,
  run (liftF (unlink E h n)) s = (s', r) ->
  step_at h s s' (is_ok r) (fun _ c c' =>
    exists y, nlookup n c = Some y /\ is_dir y = false /\ c' = nset n None c).
Proof.
  intros E h n s s' r H. unfold unlink in H. upd_start H.
  right. split; [reflexivity|]. exists m, c, c'. split; [exact D|]. split; [|exact T].
  destruct (nlookup n c) as [[]|]; try discriminate; injection F as _ <-;
    eexists; (split; [reflexivity|split; reflexivity]).
Qed.

Lemma rmdir_spec : forall E h n s s' r,
  run (liftF (rmdir E h n)) s = (s', r) ->
  step_at h s s' (is_ok r) (fun _ c c' =>
    exists m0, nlookup n c = Some (NDir m0 []) /\ c' = nset n None c).
Proof.
  intros E h n s s' r H. unfold rmdir in H. upd_start H.
  right. split; [reflexivity|]. exists m, c, c'. split; [exact D|]. split; [|exact T].
  destruct (nlookup n c) as [[m0 [|]| | |]|]; try discriminate. injection F as _ <-.
  exists m0. split; reflexivity.
Qed.

Lemma mkdir_spec : forall E h n s s' r,
  run (liftF (mkdir E h n)) s = (s', r) ->
  step_at h s s' (is_ok r) (fun m c c' =>
    nlookup n c = None /\
    c' = nset n (Some (NDir (new_meta E (tcalls s) 448 0 (m_dev m)) [])) c).
Proof.
  intros E h n s s' r H. unfold mkdir in H. upd_start H.
  right. split; [reflexivity|]. exists m, c, c'. split; [exact D|]. split; [|exact T].
  destruct (nlookup n c); [discriminate|]. destruct (String.eqb n ""); [discriminate|].
  injection F as _ <-. split; reflexivity.
Qed.

Lemma symlink_spec : forall E h n t s s' r,
  run (liftF (symlink E h n t)) s = (s', r) ->
  step_at h s s' (is_ok r) (fun m c c' =>
    nlookup n c = None /\ t <> "" /\
    c' = nset n (Some (NLink (new_meta E (tcalls s) 511 (strlen t) (m_dev m)) t)) c).
Proof.
  intros E h n t s s' r H. unfold symlink in H. upd_start H.
  right. split; [reflexivity|]. exists m, c, c'. split; [exact D|]. split; [|exact T].
  destruct (nlookup n c); [discriminate|].
  destruct (String.eqb n ""); [discriminate|]. cbn [orb] in F.
  destruct (String.eqb t "") eqn:Et; [discriminate|]. injection F as _ <-.
  split; [reflexivity|]. split; [|reflexivity]. intro K. subst. discriminate.
Qed.

Lemma chmod_spec : forall E h n p s s' r,
  run (liftF (chmod E h n p)) s = (s', r) ->
  step_at h s s' (is_ok r) (fun _ c c' =>
    exists y, nlookup n c = Some y /\ (forall m t, y <> NLink m t) /\
              c' = nset n (Some (with_meta y (set_mode (node_meta y) (N.land p 511)))) c).
Proof.
  intros E h n p s s' r H. unfold chmod in H. upd_start H.
  right. split; [reflexivity|]. exists m, c, c'. split; [exact D|]. split; [|exact T].
  destruct (nlookup n c) as [y|]; [|discriminate]. exists y. split; [reflexivity|].
  destruct y; try discriminate; injection F as _ <-; (split; [discriminate|reflexivity]).
Qed.

Lemma chown_spec : forall E h n s s' r,
  run (liftF (chown E h n)) s = (s', r) ->
  same_log s s' /\ tstg s' = tstg s /\ tfs s' = tfs s.
Proof.
  intros E h n s s' r H. unfold chown in H. apply run_reading in H.
  destruct H as (L & T & G & _). repeat split; try apply L; assumption.
Qed.

(* SetPermissions: a failure changes nothing; a success does a chmod of n
   exactly when there are permission bits to set *)
Lemma set_permissions_spec : forall E h n own mode s s' r,
  run (liftF (set_permissions E h n own mode)) s = (s', r) ->
  same_log s s' /\ tstg s' = tstg s /\
  ((is_ok r = false /\ tfs s' = tfs s) \/
   (r = ROk tt /\ N.land mode 511 = 0%N /\ tfs s' = tfs s) \/
   (r = ROk tt /\ N.land mode 511 <> 0%N /\
    exists m c y, dir_at h (tfs s) = Some (m, c) /\ nlookup n c = Some y /\
      (forall m0 t, y <> NLink m0 t) /\
      tfs s' = repl h (NDir m (nset n (Some (with_meta y (set_mode (node_meta y) (N.land mode 511)))) c))
                    (tfs s))).
Proof.
  intros E h n own mode s s' r H.
  pose proof (run_log _ _ _ _ _ H) as L. split; [exact L|].
  apply run_tx in H. unfold liftF, set_permissions in H. cbn [fs calls] in H.
  destruct (negb (prim_name_ok n)).
  { injection H as H1 <-. unfold tfs, tstg. rewrite <- H1. cbn. split; [reflexivity|].
    left. split; reflexivity. }
  set (s0 := {| fs := x_fs (tx s); calls := x_calls (tx s) |}) in *.
  destruct (if own then chown E h n s0 else (s0, ROk tt)) as [s1 r1] eqn:C.
  assert (fs s1 = fs s0) as E1.
  { destruct own.
    - unfold chown in C. apply prim_reading in C. apply C.
    - injection C as <- _. reflexivity. }
  destruct r1 as [[]|e|].
  - destruct (N.eqb (N.land mode 511) 0) eqn:Z.
    + injection H as H1 <-. unfold tfs, tstg. rewrite <- H1. cbn. split; [reflexivity|].
      right. left. apply N.eqb_eq in Z. split; [reflexivity|]. split; [exact Z|].
      rewrite E1. reflexivity.
    + destruct (chmod E h n mode s1) as [s2 r2] eqn:CM. injection H as H1 <-.
      unfold tfs, tstg. rewrite <- H1. cbn. split; [reflexivity|].
      unfold chmod in CM. apply prim_upd in CM.
      destruct CM as [[T N]|(m & c & a & c' & D & F & T & ->)].
      * left. split; [apply is_ok_false; exact N|]. rewrite T, E1. reflexivity.
      * right. right. destruct a. split; [reflexivity|]. apply N.eqb_neq in Z. split; [exact Z|].
        rewrite E1 in D, T. cbn [fs s0] in D, T.
        exists m, c. destruct (nlookup n c) as [y|] eqn:Ly; [|discriminate]. exists y.
        split; [exact D|]. split; [reflexivity|].
        destruct y; try discriminate; injection F as <-; (split; [discriminate|exact T]).
  - injection H as H1 <-. unfold tfs, tstg. rewrite <- H1. cbn. split; [reflexivity|].
    left. split; [reflexivity|]. rewrite E1. reflexivity.
  - injection H as H1 <-. unfold tfs, tstg. rewrite <- H1. cbn. split; [reflexivity|].
    left. split; [reflexivity|]. rewrite E1. reflexivity.
Qed.

Lemma create_temp_spec : forall E h pat s s' r,
  run (liftF (create_temp E h pat)) s = (s', r) ->
  same_log s s' /\ tstg s' = tstg s /\
  ((tfs s' = tfs s /\ forall a, r <> ROk a) \/
   (exists m c, dir_at h (tfs s) = Some (m, c) /\
      let tn := temp_name pat (temp_tag E (tcalls s)) in
      nlookup tn c = None /\ r = ROk tn /\
      tfs s' = repl h (NDir m (nset tn (Some (NFile (new_meta E (tcalls s) 384 0 (m_dev m)) "")) c))
                    (tfs s))).
Proof.
  intros E h pat s s' r H. unfold create_temp in H. apply run_upd in H.
  destruct H as (L & G & [[T N]|(m & c & a & c' & D & F & T & ->)]).
  - split; [exact L|split; [exact G|left; split; assumption]].
  - split; [exact L|split; [exact G|right]]. exists m, c. split; [exact D|]. cbn zeta.
    destruct (nlookup (temp_name pat (temp_tag E (tcalls s))) c); [discriminate|].
    injection F as <- <-. split; [reflexivity|split; [reflexivity|exact T]].
Qed.

Lemma write_file_spec : forall E h n data s s' r,
  run (liftF (write_file E h n data)) s = (s', r) ->
  step_at h s s' (is_ok r) (fun _ c c' =>
    exists m0 d0 m1, nlookup n c = Some (NFile m0 d0) /\ c' = nset n (Some (NFile m1 data)) c).
Proof.
  intros E h n data s s' r H. unfold write_file in H. upd_start H.
  right. split; [reflexivity|]. exists m, c, c'. split; [exact D|]. split; [|exact T].
  destruct (nlookup n c) as [[| m0 d0 | |]|]; try discriminate. injection F as _ <-.
  do 3 eexists. split; reflexivity.
Qed.

Lemma rename_local_spec : forall E h sn tn replace s s' r,
  run (liftF (rename_local E h sn tn replace)) s = (s', r) ->
  step_at h s s' (is_ok r) (fun _ c c' =>
    exists src, nlookup sn c = Some src /\
      (sn = tn /\ c' = c \/
       sn <> tn /\ rename_clash src (nlookup tn c) tn replace = None /\
       c' = nset tn (Some src) (nset sn None c))).
Proof.
  intros E h sn tn replace s s' r H. unfold rename_local in H. upd_start H.
  right. split; [reflexivity|]. exists m, c, c'. split; [exact D|]. split; [|exact T].
  destruct (nlookup sn c) as [src|]; [|discriminate]. exists src. split; [reflexivity|].
  destruct (String.eqb sn tn) eqn:Es.
  - apply String.eqb_eq in Es. injection F as _ <-. left. split; [exact Es|reflexivity].
  - apply String.eqb_neq in Es.
    destruct (rename_clash src (nlookup tn c) tn replace) eqn:Cl; [discriminate|].
    injection F as _ <-. right. split; [exact Es|split; reflexivity].
Qed.

(* read-only primitives used by the transition *)
Lemma open_dir_spec : forall E h n s s' r,
  run (liftF (open_dir E h n)) s = (s', r) ->
  same_log s s' /\ tfs s' = tfs s /\ tstg s' = tstg s /\
  (forall d, r = ROk d -> n <> "." ->
     d = h ++ [n] /\ exists m c m1 c1, dir_at h (tfs s) = Some (m, c) /\ nlookup n c = Some (NDir m1 c1)).
Proof.
  intros E h n s s' r H. unfold open_dir in H. apply run_reading in H.
  destruct H as (L & T & G & R). split; [exact L|split; [exact T|split; [exact G|]]].
  intros d Hr Hn. specialize (R d Hr). unfold in_dir in R.
  destruct (dir_at h (tfs s)) as [[m c]|] eqn:Hd; [|discriminate].
  destruct (String.eqb n ".") eqn:En; [apply String.eqb_eq in En; contradiction|].
  destruct (nlookup n c) as [[m1 c1| | |]|] eqn:Ln; try discriminate. injection R as <-.
  split; [reflexivity|]. exists m, c, m1, c1. split; [reflexivity|exact Ln].
Qed.

Lemma read_contents_spec : forall E h s s' r,
  run (liftF (read_contents E h)) s = (s', r) ->
  same_log s s' /\ tfs s' = tfs s /\ tstg s' = tstg s /\
  (forall mds, r = ROk mds -> exists m c, dir_at h (tfs s) = Some (m, c) /\
                                          map md_name mds = map fst c).
Proof.
  intros E h s s' r H. unfold read_contents in H. apply run_reading in H.
  destruct H as (L & T & G & R). split; [exact L|split; [exact T|split; [exact G|]]].
  intros mds Hr. specialize (R mds Hr). unfold in_dir in R.
  destruct (dir_at h (tfs s)) as [[m c]|] eqn:Hd; [|discriminate]. injection R as <-.
  exists m, c. split; [reflexivity|]. rewrite map_map. apply map_ext. intros [n y]. reflexivity.
Qed.

Lemma read_meta_spec : forall E h n s s' r,
  run (liftF (read_meta E h n)) s = (s', r) ->
  same_log s s' /\ tfs s' = tfs s /\ tstg s' = tstg s /\
  (forall md, r = ROk md -> exists m c y, dir_at h (tfs s) = Some (m, c) /\
                                          nlookup n c = Some y /\ md = metadata_of n y).
Proof.
  intros E h n s s' r H. unfold read_meta in H. apply run_reading in H.
  destruct H as (L & T & G & R). split; [exact L|split; [exact T|split; [exact G|]]].
  intros md Hr. specialize (R md Hr). unfold in_dir in R.
  destruct (dir_at h (tfs s)) as [[m c]|] eqn:Hd; [|discriminate].
  destruct (nlookup n c) as [y|] eqn:Ly; [|discriminate]. injection R as <-.
  exists m, c, y. split; [reflexivity|split; [exact Ly|reflexivity]].
Qed.

Lemma read_link_spec : forall E h n s s' r,
  run (liftF (read_link E h n)) s = (s', r) ->
  same_log s s' /\ tfs s' = tfs s /\ tstg s' = tstg s /\
  (forall t, r = ROk t -> exists m c m0, dir_at h (tfs s) = Some (m, c) /\
                                         nlookup n c = Some (NLink m0 t)).
Proof.
  intros E h n s s' r H. unfold read_link in H. apply run_reading in H.
  destruct H as (L & T & G & R). split; [exact L|split; [exact T|split; [exact G|]]].
  intros t Hr. specialize (R t Hr). unfold in_dir in R.
  destruct (dir_at h (tfs s)) as [[m c]|] eqn:Hd; [|discriminate].
  destruct (nlookup n c) as [[| |m0 t0|]|] eqn:Ly; try discriminate. injection R as <-.
  exists m, c, m0. split; [reflexivity|exact Ly].
Qed.

Lemma read_names_spec : forall E h s s' r,
  run (liftF (read_names E h)) s = (s', r) ->
  same_log s s' /\ tfs s' = tfs s /\ tstg s' = tstg s /\
  (forall ns, r = ROk ns -> exists m c, dir_at h (tfs s) = Some (m, c) /\ ns = map fst c).
Proof.
  intros E h s s' r H. unfold read_names in H. apply run_reading in H.
  destruct H as (L & T & G & R). split; [exact L|split; [exact T|split; [exact G|]]].
  intros ns Hr. specialize (R ns Hr). unfold in_dir in R.
  destruct (dir_at h (tfs s)) as [[m c]|] eqn:Hd; [|discriminate]. injection R as <-.
  exists m, c. split; reflexivity.
Qed.

Lemma open_root_spec : forall E p s s' r,
  run (liftF (open_root E p)) s = (s', r) ->
  same_log s s' /\ tfs s' = tfs s /\ tstg s' = tstg s /\
  (forall md, r = ROk (RootDir md) -> exists m c, get p (tfs s) = Some (NDir m c)).
Proof.
  intros E p s s' r H. unfold open_root in H. apply run_reading in H.
  destruct H as (L & T & G & R). split; [exact L|split; [exact T|split; [exact G|]]].
  intros md Hr. specialize (R _ Hr). destruct (get p (tfs s)) as [[m c| | |]|] eqn:Hg; try discriminate.
  exists m, c. reflexivity.
Qed.

(* ================================================================== *)
(* 4. primitives on the staging area                                    *)
(* ================================================================== *)

Lemma skey_eqb_eq : forall a b, skey_eqb a b = true <-> a = b.
Proof.
  intros [p d] [q e]. unfold skey_eqb. cbn [fst snd].
  rewrite andb_true_iff, path_eqb_eq, String.eqb_eq. split.
  - intros [-> ->]. reflexivity.
  - intros [= -> ->]. split; reflexivity.
Qed.

Lemma skey_eqb_refl : forall a, skey_eqb a a = true.
Proof. intro a. apply skey_eqb_eq. reflexivity. Qed.

Lemma sget_sset_same : forall k v st, sget k (sset k v st) = v.
Proof.
  intros k v st. induction st as [|[k' v'] t IH]; cbn [sset sget].
  - rewrite skey_eqb_refl. reflexivity.
  - destruct (skey_eqb k k') eqn:E; cbn [sget].
    + rewrite skey_eqb_refl. reflexivity.
    + rewrite E. exact IH.
Qed.

Lemma sget_sset_other : forall k k' v st, k' <> k -> sget k' (sset k v st) = sget k' st.
Proof.
  intros k k' v st Hne. induction st as [|[k2 v2] t IH]; cbn [sset sget].
  - destruct (skey_eqb k' k) eqn:E; [apply skey_eqb_eq in E; contradiction|reflexivity].
  - destruct (skey_eqb k k2) eqn:E; cbn [sget].
    + apply skey_eqb_eq in E. subst k2.
      destruct (skey_eqb k' k) eqn:E2; [apply skey_eqb_eq in E2; contradiction|reflexivity].
    + destruct (skey_eqb k' k2); [reflexivity|exact IH].
Qed.

Lemma xprim_cases : forall (A : Type) E ok
    (act : nat -> node -> store -> (A * node * store) + errno) x x' r,
  xprim E ok act x = (x', r) ->
  (x_fs x' = x_fs x /\ x_stg x' = x_stg x /\ (forall a, r <> ROk a)) \/
  (exists a t' st', oracle E (x_calls x) = Ok /\
                    act (x_calls x) (x_fs x) (x_stg x) = inl (a, t', st') /\
                    x_fs x' = t' /\ x_stg x' = st' /\ r = ROk a).
Proof.
  intros A E ok act x x' r H. unfold xprim in H. destruct (negb ok).
  - injection H as <- <-. left. repeat split; discriminate.
  - destruct (oracle E (x_calls x)) eqn:O.
    + destruct (act (x_calls x) (x_fs x) (x_stg x)) as [[[a t'] st']|e] eqn:HA.
      * injection H as <- <-. right. exists a, t', st'. repeat split; assumption.
      * injection H as <- <-. left. repeat split; discriminate.
    + injection H as <- <-. left. repeat split; discriminate.
    + injection H as <- <-. left. repeat split; discriminate.
Qed.

(* the store after an operation on key k: other keys untouched, and under k
   the object is gone or only its permission bits changed *)
Definition store_step (k : skey) (st st' : store) : Prop :=
  (forall k', k' <> k -> sget k' st' = sget k' st) /\
  (sl_obj (sget k st') = None \/
   exists o p, sl_obj (sget k st) = Some o /\ sl_obj (sget k st') = Some (sobj_with_mode o p) \/
   sget k st' = sget k st).

Lemma store_step_refl : forall k st, store_step k st st.
Proof. intros k st. split; [reflexivity|]. right. exists (SDir 0), 0%N. right. reflexivity. Qed.

Lemma stage_chown_spec : forall E k s s' r,
  run (stage_chown E k) s = (s', r) ->
  same_log s s' /\ tfs s' = tfs s /\ tstg s' = tstg s.
Proof.
  intros E k s s' r H. pose proof (run_log _ _ _ _ _ H) as L. apply run_tx in H.
  unfold stage_chown in H. apply xprim_cases in H. unfold tfs, tstg.
  destruct H as [(T & G & _)|(a & t' & st' & _ & HA & T & G & _)].
  - repeat split; try apply L; assumption.
  - destruct (sl_obj (sget k (x_stg (tx s)))); [|discriminate]. injection HA as _ <- <-.
    repeat split; try apply L; assumption.
Qed.

Lemma stage_chmod_spec : forall E k p s s' r,
  run (stage_chmod E k p) s = (s', r) ->
  same_log s s' /\ tfs s' = tfs s /\ store_step k (tstg s) (tstg s').
Proof.
  intros E k p s s' r H. pose proof (run_log _ _ _ _ _ H) as L. apply run_tx in H.
  unfold stage_chmod in H. apply xprim_cases in H. unfold tfs, tstg.
  destruct H as [(T & G & _)|(a & t' & st' & _ & HA & T & G & _)].
  - split; [exact L|split; [exact T|]]. rewrite G. apply store_step_refl.
  - destruct (sl_obj (sget k (x_stg (tx s)))) as [o|] eqn:O; [|discriminate].
    injection HA as _ <- <-. split; [exact L|split; [exact T|]]. rewrite G. split.
    + intros k' Hne. apply sget_sset_other. exact Hne.
    + right. exists o, (N.land p 511). left. split; [exact O|]. rewrite sget_sset_same. reflexivity.
Qed.

Lemma store_step_trans_eq : forall k st st1 st2,
  st1 = st -> store_step k st1 st2 -> store_step k st st2.
Proof. intros k st st1 st2 -> H. exact H. Qed.

Lemma stage_set_permissions_spec : forall E k own mode s s' r,
  run (stage_set_permissions E k own mode) s = (s', r) ->
  same_log s s' /\ tfs s' = tfs s /\ store_step k (tstg s) (tstg s').
Proof.
  intros E k own mode s s' r H.
  (* split into the two sub-steps at the level of tstate *)
  assert (exists s1 r1, (if own then run (stage_chown E k) s else (s, ROk tt)) = (s1, r1) /\
            match r1 with
            | ROk _ => if N.eqb (N.land mode 511) 0 then (s1, ROk tt) = (s', r)
                       else run (stage_chmod E k mode) s1 = (s', r)
            | r0 => (s1, r0) = (s', r)
            end) as (s1 & r1 & H1 & H2).
  { unfold run, stage_set_permissions in *. destruct own.
    - destruct (stage_chown E k (tx s)) as [x1 r1] eqn:C.
      eexists _, r1. split; [reflexivity|]. cbn [tx tprobs tmiss].
      destruct r1 as [[]|e|]; [|exact H|exact H].
      destruct (N.eqb (N.land mode 511) 0); exact H.
    - exists s, (ROk tt). split; [reflexivity|].
      destruct (N.eqb (N.land mode 511) 0); [|exact H].
      destruct s as [x pr mi]. exact H. }
  assert (same_log s s1 /\ tfs s1 = tfs s /\ tstg s1 = tstg s) as (L1 & T1 & G1).
  { destruct own; [apply stage_chown_spec in H1; exact H1|].
    injection H1 as <- _. repeat split. }
  destruct r1 as [[]|e|].
  - destruct (N.eqb (N.land mode 511) 0).
    + injection H2 as <- _. split; [exact L1|split; [exact T1|]]. rewrite G1. apply store_step_refl.
    + apply stage_chmod_spec in H2. destruct H2 as (L2 & T2 & G2).
      split; [|split].
      * destruct L1 as [A B], L2 as [C D]. split; congruence.
      * congruence.
      * rewrite G1 in G2. exact G2.
  - injection H2 as <- _. split; [exact L1|split; [exact T1|]]. rewrite G1. apply store_step_refl.
  - injection H2 as <- _. split; [exact L1|split; [exact T1|]]. rewrite G1. apply store_step_refl.
Qed.

Lemma stage_open_spec : forall E k s s' r,
  run (stage_open E k) s = (s', r) ->
  same_log s s' /\ tfs s' = tfs s /\ tstg s' = tstg s /\
  (forall o, r = ROk o -> sl_obj (sget k (tstg s)) = Some o).
Proof.
  intros E k s s' r H. pose proof (run_log _ _ _ _ _ H) as L. apply run_tx in H.
  unfold stage_open in H. apply xprim_cases in H. unfold tfs, tstg.
  destruct H as [(T & G & N)|(a & t' & st' & _ & HA & T & G & ->)].
  - split; [exact L|split; [exact T|split; [exact G|]]]. intros o Hr. exfalso. exact (N o Hr).
  - destruct (sl_obj (sget k (x_stg (tx s)))) as [o|] eqn:O; [|discriminate].
    injection HA as <- <- <-. split; [exact L|split; [exact T|split; [exact G|]]].
    intros o' [= <-]. reflexivity.
Qed.

Lemma stage_read_spec : forall E o s s' r,
  run (stage_read E o) s = (s', r) ->
  same_log s s' /\ tfs s' = tfs s /\ tstg s' = tstg s /\
  (forall d, r = ROk d -> exists p, o = SFile p d).
Proof.
  intros E o s s' r H. pose proof (run_log _ _ _ _ _ H) as L. apply run_tx in H.
  unfold stage_read in H. apply xprim_cases in H. unfold tfs, tstg.
  destruct H as [(T & G & N)|(a & t' & st' & _ & HA & T & G & ->)].
  - split; [exact L|split; [exact T|split; [exact G|]]]. intros d Hr. exfalso. exact (N d Hr).
  - destruct o as [p d0|p]; [|discriminate]. injection HA as <- <- <-.
    split; [exact L|split; [exact T|split; [exact G|]]]. intros d [= <-]. exists p. reflexivity.
Qed.

Lemma stage_remove_spec : forall E k s s' r,
  run (stage_remove E k) s = (s', r) ->
  same_log s s' /\ tfs s' = tfs s /\ store_step k (tstg s) (tstg s').
Proof.
  intros E k s s' r H. pose proof (run_log _ _ _ _ _ H) as L. apply run_tx in H.
  unfold stage_remove in H. apply xprim_cases in H. unfold tfs, tstg.
  destruct H as [(T & G & _)|(a & t' & st' & _ & HA & T & G & _)].
  - split; [exact L|split; [exact T|]]. rewrite G. apply store_step_refl.
  - destruct (sl_obj (sget k (x_stg (tx s)))) as [o|] eqn:O; [|discriminate].
    injection HA as _ <- <-. split; [exact L|split; [exact T|]]. rewrite G. split.
    + intros k' Hne. apply sget_sset_other. exact Hne.
    + left. rewrite sget_sset_same. reflexivity.
Qed.

Lemma rename_in_spec : forall E k h n replace s s' r,
  run (rename_in E k h n replace) s = (s', r) ->
  same_log s s' /\ store_step k (tstg s) (tstg s') /\
  ((is_ok r = false /\ tfs s' = tfs s /\ tstg s' = tstg s) \/
   (is_ok r = true /\
    exists m c o, dir_at h (tfs s) = Some (m, c) /\
      sl_obj (sget k (tstg s)) = Some o /\
      let src := node_of_sobj E (tcalls s) (m_dev m) o in
      rename_clash src (nlookup n c) n replace = None /\
      tfs s' = repl h (NDir m (nset n (Some src) c)) (tfs s))).
Proof.
  intros E k h n replace s s' r H. pose proof (run_log _ _ _ _ _ H) as L. apply run_tx in H.
  unfold rename_in in H. apply xprim_cases in H. unfold tfs, tstg, tcalls.
  destruct H as [(T & G & N)|(a & t' & st' & _ & HA & T & G & ->)].
  - split; [exact L|]. split; [rewrite G; apply store_step_refl|].
    left. split; [apply is_ok_false; exact N|split; assumption].
  - split; [exact L|].
    destruct (dir_at h (x_fs (tx s))) as [[m c]|] eqn:D; [|discriminate].
    destruct (sl_xdev (sget k (x_stg (tx s)))); [discriminate|].
    destruct (sl_obj (sget k (x_stg (tx s)))) as [o|] eqn:O; [|discriminate].
    destruct (rename_clash (node_of_sobj E (x_calls (tx s)) (m_dev m) o) (nlookup n c) n replace) eqn:Cl;
      [discriminate|].
    rewrite in_dir_upd_spec, D in HA. injection HA as _ <- <-. split.
    + rewrite G. split.
      * intros k' Hne. apply sget_sset_other. exact Hne.
      * left. rewrite sget_sset_same. reflexivity.
    + right. split; [reflexivity|]. exists m, c, o. split; [reflexivity|]. split; [reflexivity|].
      cbn zeta. split; [exact Cl|exact T].
Qed.

(* precise effect of a successful SetPermissionsByPath *)
Lemma stage_set_permissions_ok : forall E k own mode s s',
  run (stage_set_permissions E k own mode) s = (s', ROk tt) ->
  N.land mode 511 <> 0%N ->
  exists o, sl_obj (sget k (tstg s)) = Some o /\
            sl_obj (sget k (tstg s')) = Some (sobj_with_mode o (N.land mode 511)) /\
            sl_xdev (sget k (tstg s')) = sl_xdev (sget k (tstg s)).
Proof.
  intros E k own mode s s' H Hm. apply run_tx in H. unfold stage_set_permissions in H.
  unfold tstg.
  destruct (if own then stage_chown E k (tx s) else (tx s, ROk tt)) as [x1 r1] eqn:C.
  assert (x_stg x1 = x_stg (tx s)) as G1.
  { destruct own; [|injection C as <- _; reflexivity].
    unfold stage_chown in C. apply xprim_cases in C.
    destruct C as [(_ & G & _)|(a & t' & st' & _ & HA & _ & G & _)]; [exact G|].
    destruct (sl_obj (sget k (x_stg (tx s)))); [|discriminate]. injection HA as _ _ <-. exact G. }
  destruct r1 as [[]|e|]; try discriminate.
  apply N.eqb_neq in Hm. rewrite Hm in H.
  unfold stage_chmod in H. apply xprim_cases in H.
  destruct H as [(_ & _ & N)|(a & t' & st' & _ & HA & _ & G & _)]; [exfalso; apply (N tt); reflexivity|].
  rewrite G1 in HA.
  destruct (sl_obj (sget k (x_stg (tx s)))) as [o|] eqn:O; [|discriminate].
  injection HA as _ _ <-. exists o. split; [reflexivity|]. rewrite G, sget_sset_same. cbn.
  split; reflexivity.
Qed.

