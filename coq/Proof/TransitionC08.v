(* C08: content that does not match what the plan expects survives every
   transition.  The central notion is [unauth y p e q]: the expectation that
   the old entry e (rooted at p) has for the position q below p does not
   authorise touching the node y. *)
From Coq Require Import List Bool Arith String Ascii NArith Lia.
From Mv Require Import Model.Entry Model.Fs Model.FsExt Model.Transition Model.TransitionCheck
     Proof.EntryFacts Proof.FsFacts Proof.TransPrims Proof.TransFrames Proof.TransFuns
     Proof.TransEff.
Import ListNotations.
Open Scope string_scope.
Open Scope list_scope.

Lemma get_with_meta : forall q y m, q <> [] -> get q (with_meta y m) = get q y.
Proof. intros [|k q] y m H; [congruence|]. destruct y; reflexivity. Qed.

Lemma dir_at_prefix_dir : forall h x m c P,
  dir_at h x = Some (m, c) -> is_prefix P h = true -> exists m' c', get P x = Some (NDir m' c').
Proof.
  intros h x m c P Hd HP. apply is_prefix_iff in HP. destruct HP as [q ->].
  unfold dir_at in Hd. rewrite get_app in Hd.
  destruct (get P x) as [z|] eqn:G; [|discriminate].
  destruct q as [|k q].
  - cbn in Hd. destruct z; try discriminate. eexists _, _. reflexivity.
  - destruct z; try discriminate. eexists _, _. reflexivity.
Qed.

Section C08.
  Variable norm : path -> string -> option string.
  Variable E : env.
  Variable rn : name.
  Variable ch : cache.
  Variable slm : slmode.
  Variable dfm ddm : N.
  Variable own : bool.
  Variable fixed : bool.
  Variable rn_ok : rn <> ".".

  (* the protected node *)
  Variable P : path.
  Variable y : node.

  Definition K (s : tstate) : Prop := get P (tfs s) = Some y.

  Fixpoint unauth (p : path) (e : entry) (q : path) : Prop :=
    match q with
    | [] =>
      match e with
      | EFile _ d => file_ok ch y p d = false
      | ELink t => link_ok norm slm y p t = false
      | EDir _ => is_dir y = false
      | _ => True
      end
    | k :: q' =>
      match e with
      | EDir ec => match lookup k ec with
                   | None => True
                   | Some e' => unauth (p ++ [k]) e' q'
                   end
      | _ => True
      end
    end.

  Lemma eff_keeps : forall h n s s',
    eff h n s s' -> K s -> is_prefix (h ++ [n]) P = false -> is_prefix P h = false -> K s'.
  Proof.
    intros h n s s' Ef Hk H1 H2. unfold K in *. eapply fr_keeps; try eassumption. apply Ef.
  Qed.

  (* K in terms of the directory h *)
  Lemma K_inside : forall h n q s m c,
    K s -> P = h ++ n :: q -> dir_at h (tfs s) = Some (m, c) ->
    exists y0, nlookup n c = Some y0 /\ get q y0 = Some y.
  Proof.
    intros h n q s m c Hk HP Hd. unfold K in Hk. rewrite HP in Hk.
    rewrite (dir_at_get _ _ _ _ n q Hd) in Hk.
    destruct (nlookup n c) as [y0|]; [|discriminate]. exists y0. split; [reflexivity|exact Hk].
  Qed.

  Lemma get_nondir : forall q z, is_dir z = false -> q <> [] -> get q z = None.
  Proof. intros [|k q] z Hz Hq; [congruence|]. destruct z; try reflexivity. discriminate. Qed.

  Lemma removed_if_inside : forall h n q s s' ok (V : node -> Prop),
    removed_if h n s s' ok V -> K s -> P = h ++ n :: q ->
    (q = [] -> ~ V y) -> K s'.
  Proof.
    intros h n q s s' ok V (_ & _ & [[_ T]|(_ & m & c & y0 & D & Ly & Hd & HV & T)]) Hk HP HU.
    - unfold K. rewrite T. exact Hk.
    - exfalso. destruct (K_inside _ _ _ _ _ _ Hk HP D) as (y1 & Ly1 & Gq).
      rewrite Ly in Ly1. injection Ly1 as <-.
      destruct q as [|k q].
      + cbn in Gq. injection Gq as ->. exact (HU eq_refl HV).
      + rewrite get_nondir in Gq by (assumption || discriminate). discriminate.
  Qed.

  Lemma remove_file_inside : forall h n p e q s s' r,
    remove_file E ch h n p e s = (s', r) -> K s -> P = h ++ n :: q ->
    (q = [] -> file_ok ch y p (entry_digest e) = false) -> K s'.
  Proof.
    intros h n p e q s s' r H Hk HP HU. apply remove_file_spec in H.
    eapply removed_if_inside; try eassumption. intros Hq HV. rewrite (HU Hq) in HV. discriminate.
  Qed.

  Lemma remove_link_inside : forall h n p e q s s' r,
    remove_link norm E slm h n p e s = (s', r) -> K s -> P = h ++ n :: q ->
    (q = [] -> link_ok norm slm y p (entry_target e) = false) -> K s'.
  Proof.
    intros h n p e q s s' r H Hk HP HU. apply remove_link_spec in H.
    eapply removed_if_inside; try eassumption. intros Hq HV. rewrite (HU Hq) in HV. discriminate.
  Qed.

  (* the target of a move exists: a non-replacing move fails and leaves it alone;
     a replacing move leaves everything strictly below it alone *)
  Lemma find_and_move_inside : forall p target h n rp q s s' r,
    find_and_move E dfm own p target h n rp s = (s', r) -> K s -> P = h ++ n :: q ->
    (rp = true -> q <> []) -> K s'.
  Proof.
    intros p target h n rp q s s' r H Hk HP Hrp. apply find_and_move_spec in H.
    destruct H as [(_ & _ & _ & _ & Un & _) TO].
    assert (get (h ++ [n]) (tfs s) <> None) as Hex.
    { intro K0. unfold K in Hk. rewrite HP in Hk. change (n :: q) with ([n] ++ q) in Hk.
      rewrite app_assoc, get_app, K0 in Hk. discriminate. }
    destruct (is_ok r) eqn:Ok.
    - exfalso. specialize (TO eq_refl). unfold target_ok in TO.
      destruct (get (h ++ [n]) (tfs s)) as [t|] eqn:Gt; [|congruence].
      destruct TO as [-> TO]. specialize (Hrp eq_refl).
      unfold K in Hk. rewrite HP in Hk. change (n :: q) with ([n] ++ q) in Hk.
      rewrite app_assoc, get_app, Gt in Hk.
      destruct q as [|k q]; [congruence|]. destruct t as [mt ct| | |]; try discriminate.
      cbn in TO. rewrite (TO eq_refl) in Hk. discriminate.
    - unfold K in *. rewrite HP in *. rewrite Un; [exact Hk|reflexivity|left; exact Hex].
  Qed.

  Lemma set_permissions_inside : forall h n mode q s s' r,
    run (liftF (set_permissions (quiet E) h n own mode)) s = (s', r) -> K s ->
    P = h ++ n :: q -> q <> [] -> K s'.
  Proof.
    intros h n mode q s s' r H Hk HP Hq. apply set_permissions_spec in H.
    destruct H as (_ & _ & [[_ T]|[(_ & _ & T)|(_ & _ & m & c & y0 & D & Ly & _ & T)]]);
      unfold K in *; rewrite T; try exact Hk.
    rewrite HP in *. rewrite (repl_get_under h _ (tfs s) m c (n :: q) D). cbn [get].
    rewrite nlookup_nset_some. rewrite get_with_meta by exact Hq.
    rewrite (dir_at_get _ _ _ _ n q D), Ly in Hk. exact Hk.
  Qed.

  Lemma create_link_inside : forall h n p target q s s' r,
    create_link norm E slm own fixed h n p target s = (s', r) -> K s -> P = h ++ n :: q -> K s'.
  Proof.
    intros h n p target q s s' r H Hk HP. unfold create_link in H.
    destruct (slmode_eqb slm SLIgnore); [injection H as <- _; exact Hk|].
    destruct (slmode_eqb slm SLPortable && _); [injection H as <- _; exact Hk|].
    unfold tbind in H.
    destruct (run (liftF (symlink (quiet E) h n (entry_target target))) s) as [s1 r1] eqn:SL.
    apply symlink_spec in SL.
    destruct SL as (_ & _ & [[Hok T]|(Hok & m & c & c' & D & (Ln & _) & T)]).
    - destruct r1 as [[]|e1|]; [discriminate| |]; injection H as <- _; unfold K; rewrite T; exact Hk.
    - exfalso. destruct (K_inside _ _ _ _ _ _ Hk HP D) as (y0 & Ly0 & _). congruence.
  Qed.

  Lemma create_dir_inside : forall fuel h n p tc q s s' r,
    create_dir_f norm E slm dfm ddm own fixed fuel h n p tc s = (s', r) -> K s -> P = h ++ n :: q -> K s'.
  Proof.
    intros fuel h n p tc q s s' r H Hk HP. destruct fuel as [|fuel]; cbn [create_dir_f] in H.
    - injection H as <- _. exact Hk.
    - destruct (run (liftF (mkdir (quiet E) h n)) s) as [s1 r1] eqn:MK.
      apply mkdir_spec in MK.
      destruct MK as (_ & _ & [[Hok T]|(Hok & m & c & c' & D & (Ln & _) & T)]).
      + destruct r1 as [[]|e1|]; [discriminate| |]; injection H as <- _; unfold K;
          rewrite problem_at_tfs, T; exact Hk.
      + exfalso. destruct (K_inside _ _ _ _ _ _ Hk HP D) as (y0 & Ly0 & _). congruence.
  Qed.

  (* ---------- removeDirectory ---------- *)
  Definition rec_inside
    (rec : path -> name -> path -> list (name * entry) -> tstate -> tstate * bool * list (name * entry)) :=
    forall d n cp ec q s s1 ok ec', rec d n cp ec s = (s1, ok, ec') -> n <> "." ->
      tsorted (tfs s) -> K s -> P = d ++ n :: q -> unauth cp (EDir ec) q -> K s1.

  Lemma sibling_prefix : forall d k k0 q0, k <> k0 ->
    is_prefix (d ++ [k]) (d ++ k0 :: q0) = false /\ is_prefix (d ++ k0 :: q0) d = false.
  Proof.
    intros d k k0 q0 Hne. split.
    - destruct (is_prefix (d ++ [k]) (d ++ k0 :: q0)) eqn:Hp; [|reflexivity].
      apply is_prefix_iff in Hp. destruct Hp as [r Hr]. rewrite <- app_assoc in Hr.
      apply app_inv_head in Hr. cbn in Hr. injection Hr as Hr _. congruence.
    - destruct (is_prefix (d ++ k0 :: q0) d) eqn:Hp; [|reflexivity].
      apply is_prefix_iff in Hp. destruct Hp as [r Hr]. rewrite <- app_assoc in Hr.
      rewrite <- (app_nil_r d) in Hr at 1. apply app_inv_head in Hr. discriminate.
  Qed.

  (* one iteration of the loop, seen as an effect on the child k of d *)
  Lemma remove_iter_eff : forall rec d p k ec s,
    rec_eff rec -> k <> "." ->
    (forall ec1 s1 ok ec1', lookup k ec = Some (EDir ec1) ->
        rec d k (p ++ [k]) ec1 s = (s1, ok, ec1') -> eff d k s s1) /\
    (forall x dg s1 r, remove_file E ch d k (p ++ [k]) (EFile x dg) s = (s1, r) -> eff d k s s1) /\
    (forall t s1 r, remove_link norm E slm d k (p ++ [k]) (ELink t) s = (s1, r) -> eff d k s s1).
  Proof.
    intros rec d p k ec s HE Hk. split; [|split].
    - intros ec1 s1 ok ec1' _ R. eapply HE; eassumption.
    - intros x dg s1 r R. eapply remove_file_eff. exact R.
    - intros t s1 r R. eapply remove_link_eff. exact R.
  Qed.

  (* iterations over names other than k0 keep P = d ++ k0 :: q0 *)
  Lemma remove_loop_other : forall rec d p k0 q0 names ec s fl s' fl' ec',
    rec_eff rec -> Forall (fun k => k <> ".") names -> ~ In k0 names ->
    remove_loop norm E ch slm rec d p names ec s fl = (s', fl', ec') ->
    K s -> P = d ++ k0 :: q0 -> K s'.
  Proof.
    intros rec d p k0 q0 names. induction names as [|k rest IH];
      intros ec s fl s' fl' ec' HE HN Hnot H Hk HP; cbn [remove_loop] in H.
    - injection H as <- _ _. exact Hk.
    - inversion HN as [|? ? Hkd HN']; subst.
      assert (k <> k0) as Hne by (intro; subst; apply Hnot; left; reflexivity).
      assert (~ In k0 rest) as Hnot' by (intro; apply Hnot; right; assumption).
      assert (is_prefix (d ++ [k]) P = false /\ is_prefix P d = false) as [Q1 Q2]
        by (rewrite HP; apply sibling_prefix; exact Hne).
      destruct (cancelled E s); [injection H as <- _ _; exact Hk|].
      destruct (lookup k ec) as [[ec1|x dg|t| |msg|pc]|] eqn:Lk.
      + match type of H with context [rec ?a ?b ?c ?d0 ?e] =>
          destruct (rec a b c d0 e) as [[s1 ok] ec1'] eqn:R end.
        assert (K s1) as Hk1 by (eapply eff_keeps; [eapply HE; eassumption|exact Hk|exact Q1|exact Q2]).
        destruct ok; exact (IH _ _ _ _ _ _ HE HN' Hnot' H Hk1 HP).
      + match type of H with context [remove_file ?a ?b ?c ?d0 ?e ?f ?g] =>
          destruct (remove_file a b c d0 e f g) as [s1 r] eqn:R end.
        assert (K s1) as Hk1 by (eapply eff_keeps; [eapply remove_file_eff; exact R|exact Hk|exact Q1|exact Q2]).
        destruct r as [[]|e|]; exact (IH _ _ _ _ _ _ HE HN' Hnot' H Hk1 HP).
      + match type of H with context [remove_link ?a ?b ?c ?d0 ?e ?f ?g ?i] =>
          destruct (remove_link a b c d0 e f g i) as [s1 r] eqn:R end.
        assert (K s1) as Hk1 by (eapply eff_keeps; [eapply remove_link_eff; exact R|exact Hk|exact Q1|exact Q2]).
        destruct r as [[]|e|]; exact (IH _ _ _ _ _ _ HE HN' Hnot' H Hk1 HP).
      + exact (IH _ _ _ _ _ _ HE HN' Hnot' H Hk HP).
      + exact (IH _ _ _ _ _ _ HE HN' Hnot' H Hk HP).
      + exact (IH _ _ _ _ _ _ HE HN' Hnot' H Hk HP).
      + exact (IH _ _ _ _ _ _ HE HN' Hnot' H Hk HP).
  Qed.

  Lemma remove_loop_inside : forall rec d p k0 q0 names ec s fl s' fl' ec',
    rec_eff rec -> rec_inside rec -> Forall (fun k => k <> ".") names -> NoDup names ->
    remove_loop norm E ch slm rec d p names ec s fl = (s', fl', ec') ->
    tsorted (tfs s) -> K s -> P = d ++ k0 :: q0 ->
    (forall e', lookup k0 ec = Some e' -> unauth (p ++ [k0]) e' q0) ->
    K s'.
  Proof.
    intros rec d p k0 q0 names. induction names as [|k rest IH];
      intros ec s fl s' fl' ec' HE HI HN HD H Hs Hk HP HU; cbn [remove_loop] in H.
    - injection H as <- _ _. exact Hk.
    - inversion HN as [|? ? Hkd HN']; subst. inversion HD as [|? ? Hnin HD']; subst.
      destruct (cancelled E s); [injection H as <- _ _; exact Hk|].
      destruct (string_dec k k0) as [->|Hne].
      + (* the iteration that looks at k0 *)
        destruct (lookup k0 ec) as [[ec1|x dg|t| |msg|pc]|] eqn:Lk.
        * match type of H with context [rec ?a ?b ?c ?d0 ?e] =>
            destruct (rec a b c d0 e) as [[s1 ok] ec1'] eqn:R end.
          assert (K s1) as Hk1 by (eapply HI; try eassumption; apply HU; reflexivity).
          destruct ok; exact (remove_loop_other _ _ _ _ _ _ _ _ _ _ _ _ HE HN' Hnin H Hk1 HP).
        * match type of H with context [remove_file ?a ?b ?c ?d0 ?e ?f ?g] =>
            destruct (remove_file a b c d0 e f g) as [s1 r] eqn:R end.
          assert (K s1) as Hk1.
          { eapply remove_file_inside; try eassumption.
            intros ->. exact (HU _ eq_refl). }
          destruct r as [[]|e|]; exact (remove_loop_other _ _ _ _ _ _ _ _ _ _ _ _ HE HN' Hnin H Hk1 HP).
        * match type of H with context [remove_link ?a ?b ?c ?d0 ?e ?f ?g ?i] =>
            destruct (remove_link a b c d0 e f g i) as [s1 r] eqn:R end.
          assert (K s1) as Hk1.
          { eapply remove_link_inside; try eassumption.
            intros ->. exact (HU _ eq_refl). }
          destruct r as [[]|e|]; exact (remove_loop_other _ _ _ _ _ _ _ _ _ _ _ _ HE HN' Hnin H Hk1 HP).
        * exact (remove_loop_other _ _ _ _ _ _ _ _ _ _ _ _ HE HN' Hnin H Hk HP).
        * exact (remove_loop_other _ _ _ _ _ _ _ _ _ _ _ _ HE HN' Hnin H Hk HP).
        * exact (remove_loop_other _ _ _ _ _ _ _ _ _ _ _ _ HE HN' Hnin H Hk HP).
        * exact (remove_loop_other _ _ _ _ _ _ _ _ _ _ _ _ HE HN' Hnin H Hk HP).
      + (* another name: K by the frame, the expectation for k0 is not touched *)
        assert (is_prefix (d ++ [k]) P = false /\ is_prefix P d = false) as [Q1 Q2]
        by (rewrite HP; apply sibling_prefix; exact Hne).
        assert (forall v e', lookup k0 (set_child k v ec) = Some e' -> unauth (p ++ [k0]) e' q0) as HU'.
        { intros v e' Le. rewrite lookup_set_child_other in Le by (intro; subst; congruence).
          apply HU. exact Le. }
        destruct (lookup k ec) as [[ec1|x dg|t| |msg|pc]|] eqn:Lk.
        * match type of H with context [rec ?a ?b ?c ?d0 ?e] =>
            destruct (rec a b c d0 e) as [[s1 ok] ec1'] eqn:R end.
          pose proof (HE _ _ _ _ _ _ _ _ R Hkd) as Ef.
          assert (K s1) as Hk1 by (eapply eff_keeps; [exact Ef|exact Hk|exact Q1|exact Q2]).
          pose proof (eff_sorted _ _ _ _ Ef Hs) as Hs1.
          destruct ok; exact (IH _ _ _ _ _ _ HE HI HN' HD' H Hs1 Hk1 HP (HU' _)).
        * match type of H with context [remove_file ?a ?b ?c ?d0 ?e ?f ?g] =>
            destruct (remove_file a b c d0 e f g) as [s1 r] eqn:R end.
          pose proof R as Ef. eapply remove_file_eff in Ef.
          assert (K s1) as Hk1 by (eapply eff_keeps; [exact Ef|exact Hk|exact Q1|exact Q2]).
          pose proof (eff_sorted _ _ _ _ Ef Hs) as Hs1.
          destruct r as [[]|e|];
            [exact (IH _ _ _ _ _ _ HE HI HN' HD' H Hs1 Hk1 HP (HU' _))
            |exact (IH _ _ _ _ _ _ HE HI HN' HD' H Hs1 Hk1 HP HU)
            |exact (IH _ _ _ _ _ _ HE HI HN' HD' H Hs1 Hk1 HP HU)].
        * match type of H with context [remove_link ?a ?b ?c ?d0 ?e ?f ?g ?i] =>
            destruct (remove_link a b c d0 e f g i) as [s1 r] eqn:R end.
          pose proof R as Ef. eapply remove_link_eff in Ef.
          assert (K s1) as Hk1 by (eapply eff_keeps; [exact Ef|exact Hk|exact Q1|exact Q2]).
          pose proof (eff_sorted _ _ _ _ Ef Hs) as Hs1.
          destruct r as [[]|e|];
            [exact (IH _ _ _ _ _ _ HE HI HN' HD' H Hs1 Hk1 HP (HU' _))
            |exact (IH _ _ _ _ _ _ HE HI HN' HD' H Hs1 Hk1 HP HU)
            |exact (IH _ _ _ _ _ _ HE HI HN' HD' H Hs1 Hk1 HP HU)].
        * exact (IH _ _ _ _ _ _ HE HI HN' HD' H Hs Hk HP HU).
        * exact (IH _ _ _ _ _ _ HE HI HN' HD' H Hs Hk HP HU).
        * exact (IH _ _ _ _ _ _ HE HI HN' HD' H Hs Hk HP HU).
        * exact (IH _ _ _ _ _ _ HE HI HN' HD' H Hs Hk HP HU).
  Qed.

  Lemma rec_eff_remove_dir : forall fuel, rec_eff (remove_dir_f norm E ch slm fuel).
  Proof. intros fuel d n cp ec s s1 ok ec' H Hn. eapply remove_dir_eff; eassumption. Qed.

  Lemma remove_dir_inside : forall fuel, rec_inside (remove_dir_f norm E ch slm fuel).
  Proof.
    induction fuel as [|fuel IH]; intros h n p ec q s s' ok ec' H Hn Hs Hk HP HU;
      cbn [remove_dir_f] in H.
    - injection H as <- _ _. exact Hk.
    - destruct (run (liftF (open_dir (quiet E) h n)) s) as [s1 r1] eqn:OD.
      apply open_dir_spec in OD. destruct OD as (_ & T1 & _ & R1).
      assert (K s1) as Hk1 by (unfold K; rewrite T1; exact Hk).
      destruct r1 as [d|e1|]; [|injection H as <- _ _; exact Hk1|injection H as <- _ _; exact Hk1].
      destruct (R1 d eq_refl Hn) as (-> & m & c & m1 & c1 & D & Ln).
      destruct (K_inside _ _ _ _ _ _ Hk HP D) as (y0 & Ly0 & Gq). rewrite Ln in Ly0. injection Ly0 as <-.
      destruct q as [|k0 q0].
      { (* P is the directory itself: the expectation demands a non-directory *)
        cbn in Gq. injection Gq as Gy. cbn in HU. rewrite <- Gy in HU. discriminate. }
      destruct (run (liftF (read_contents (quiet E) (h ++ [n]))) s1) as [s2 r2] eqn:RC.
      apply read_contents_spec in RC. destruct RC as (_ & T2 & _ & R2).
      assert (K s2) as Hk2 by (unfold K; rewrite T2; exact Hk1).
      destruct r2 as [mds|e2|]; [|injection H as <- _ _; exact Hk2|injection H as <- _ _; exact Hk2].
      destruct (R2 mds eq_refl) as (m2 & c2 & D2 & Hnames).
      destruct (remove_loop norm E ch slm (remove_dir_f norm E ch slm fuel) (h ++ [n]) p
                            (filter listed (map md_name mds)) ec s2 no_flags) as [[s3 fl] ec3] eqn:RL.
      assert (tsorted (tfs s1)) as Hs1 by (rewrite T1; exact Hs).
      assert (tsorted (tfs s2)) as Hs2 by (rewrite T2; exact Hs1).
      assert (K s3) as Hk3.
      { assert (P = (h ++ [n]) ++ k0 :: q0) as HP' by (rewrite HP, <- app_assoc; reflexivity).
        eapply (remove_loop_inside _ _ _ k0 q0 _ _ _ _ _ _ _ (rec_eff_remove_dir fuel) IH
                  (filter_listed_nodot _) _ RL Hs2 Hk2 HP').
        cbn in HU. intros e' Le. rewrite Le in HU. exact HU. }
      assert (forall s4 r4, run (liftF (rmdir (quiet E) h n)) s3 = (s4, r4) -> K s4) as RM.
      { intros s4 r4 RD. apply rmdir_spec in RD.
        destruct RD as (_ & _ & [[_ T]|(_ & m4 & c4 & c4' & D4 & (m0 & Ln4 & _) & _)]).
        - unfold K. rewrite T. exact Hk3.
        - exfalso. destruct (K_inside _ _ _ _ _ _ Hk3 HP D4) as (y4 & Ly4 & Gq4).
          rewrite Ln4 in Ly4. injection Ly4 as <-. cbn in Gq4. discriminate. }
      destruct (negb (f_cancel fl) && negb (f_unknown fl) && negb (f_failed fl)).
      + destruct (run (liftF (rmdir (quiet E) h n)) s3) as [s4 r4] eqn:RD.
        pose proof (RM _ _ eq_refl) as Hk4.
        destruct r4 as [[]|e4|]; injection H as <- _ _; exact Hk4.
      + injection H as <- _ _. exact Hk3.
      Unshelve.
      rewrite Hnames. apply NoDup_filter. apply sorted_names_NoDup.
      pose proof (dir_at_sorted _ _ _ _ Hs1 D2) as Hd2. apply tsorted_dir_inv in Hd2. apply Hd2.
  Qed.

  (* ---------- one transition ---------- *)

  (* P = rn :: pp is the protected absolute path *)
  Variable pp : path.
  Hypothesis P_abs : P = rn :: pp.

  (* when the transition's own path is not above-or-at pp, the frame protects P
     unless P lies on the way to the transition's parent directory *)
  Lemma walk_fail_on_nondir : forall p v s s' h n,
    walk E rn p v s = (s', ROk (h, n)) -> path_ok p -> K s -> is_prefix P h = true ->
    exists m c, y = NDir m c.
  Proof.
    intros p v s s' h n W Hp Hk HP. destruct (walk_ok _ _ _ _ _ _ _ _ W Hp) as [_ (m & c & D)].
    destruct (dir_at_prefix_dir _ _ _ _ _ D HP) as (m' & c' & G).
    unfold K in Hk. rewrite G in Hk. injection Hk as <-. eexists _, _. reflexivity.
  Qed.

  Lemma hof_lof_inside : forall p q, pp = p ++ q -> P = hof rn p ++ lof rn p :: q.
  Proof.
    intros p q ->. rewrite P_abs. change (lof rn p :: q) with ([lof rn p] ++ q).
    rewrite app_assoc, hof_lof. reflexivity.
  Qed.

  (* position of P relative to a transition path that does not cover it *)
  Lemma apart_prefix : forall p,
    is_prefix p pp = false -> is_prefix (hof rn p ++ [lof rn p]) P = false.
  Proof.
    intros p H. rewrite hof_lof, P_abs. cbn. rewrite String.eqb_refl. exact H.
  Qed.

  Definition no_dir : Prop := forall m c, y <> NDir m c.

  (* conditions on one transition path p with respect to pp *)
  Definition placed_ok (p : path) : Prop :=
    is_prefix p pp = true \/ no_dir \/ is_prefix pp p = false.

  Lemma hof_prefix : forall p, is_prefix P (hof rn p) = true -> is_prefix pp p = true /\ pp <> p.
  Proof.
    intros [|a p] H; unfold hof in H.
    - rewrite P_abs in H. cbn in H. discriminate.
    - rewrite P_abs in H. cbn [is_prefix] in H. rewrite String.eqb_refl in H. cbn [andb] in H.
      apply is_prefix_iff in H. destruct H as [r Hr]. split.
      + apply is_prefix_iff. exists (r ++ [last (a :: p) ""]).
        rewrite app_assoc, <- Hr. symmetry. apply removelast_last_app. discriminate.
      + intro K0. subst pp. assert (List.length (removelast (a :: p)) = List.length ((a :: p) ++ r)) as L
            by (rewrite Hr; reflexivity).
        rewrite app_length in L.
        assert (List.length (removelast (a :: p)) < List.length (a :: p)).
        { rewrite <- (removelast_last_app (a :: p)) at 2 by discriminate.
          rewrite app_length. cbn. lia. }
        lia.
  Qed.

  (* a transition whose parent-directory handle lies at or below P cannot get
     there unless y is a directory; if it is, the hypothesis placed_ok rules
     the situation out *)
  Lemma not_on_spine : forall p v s s' h n,
    walk E rn p v s = (s', ROk (h, n)) -> path_ok p -> K s ->
    is_prefix p pp = false -> placed_ok p -> is_prefix P h = false.
  Proof.
    intros p v s s' h n W Hp Hk Hnp [Hc|[Hc|Hc]]; [congruence| |].
    - destruct (is_prefix P h) eqn:HP; [|reflexivity]. exfalso.
      destruct (walk_fail_on_nondir _ _ _ _ _ _ W Hp Hk HP) as (m & c & Hy). exact (Hc m c Hy).
    - destruct (is_prefix P h) eqn:HP; [|reflexivity]. exfalso.
      destruct (walk_hof _ _ _ _ _ _ _ _ W Hp) as [-> _].
      destruct (hof_prefix _ HP) as [Q _]. congruence.
  Qed.

  Lemma remove_keeps : forall p e s s' r,
    remove norm E rn ch slm p e s = (s', r) -> path_ok p -> tsorted (tfs s) -> K s ->
    placed_ok p ->
    (forall e0 q, e = Some e0 -> pp = p ++ q -> unauth p e0 q) -> K s'.
  Proof.
    intros p e s s' r H Hp Hs Hk Hpl HU. unfold remove in H.
    destruct e as [e0|]; [|injection H as <- _; exact Hk].
    destruct (walk E rn p true s) as [s1 r1] eqn:W.
    destruct (walk_ro _ _ _ _ _ _ _ W) as (_ & T1 & _).
    assert (K s1) as Hk1 by (unfold K; rewrite T1; exact Hk).
    assert (tsorted (tfs s1)) as Hs1 by (rewrite T1; exact Hs).
    destruct r1 as [[h n]|e1|]; [|injection H as <- _; exact Hk1|injection H as <- _; exact Hk1].
    destruct (walk_hof _ _ _ _ _ _ _ _ W Hp) as [-> ->].
    destruct (is_prefix p pp) eqn:Hpre.
    - (* P inside the transition's target *)
      apply is_prefix_iff in Hpre. destruct Hpre as [q Hq].
      pose proof (hof_lof_inside p q Hq) as HP. specialize (HU e0 q eq_refl Hq).
      destruct e0 as [ec|x dg|t| |msg|pc].
      + destruct (remove_dir_f norm E ch slm (depth_entry (EDir ec)) (hof rn p) (lof rn p) p ec s1)
          as [[s2 ok] ec'] eqn:R.
        assert (K s2) as Hk2 by (eapply remove_dir_inside; try eassumption; apply lof_nodot; assumption).
        destruct ok; injection H as <- _; exact Hk2.
      + destruct (remove_file E ch (hof rn p) (lof rn p) p (EFile x dg) s1) as [s2 r2] eqn:R.
        assert (K s2) as Hk2.
        { eapply remove_file_inside; try eassumption. intros ->. exact HU. }
        destruct r2 as [[]|e2|]; injection H as <- _; exact Hk2.
      + destruct (remove_link norm E slm (hof rn p) (lof rn p) p (ELink t) s1) as [s2 r2] eqn:R.
        assert (K s2) as Hk2.
        { eapply remove_link_inside; try eassumption. intros ->. exact HU. }
        destruct r2 as [[]|e2|]; injection H as <- _; exact Hk2.
      + injection H as <- _. exact Hk1.
      + injection H as <- _. exact Hk1.
      + injection H as <- _. exact Hk1.
    - (* P elsewhere: the frame *)
      assert (K s') as Hk'.
      { assert (remove norm E rn ch slm p (Some e0) s = (s', r)) as H0.
        { unfold remove. rewrite W. exact H. }
        eapply eff_keeps; [eapply remove_eff; eassumption|exact Hk|apply apart_prefix; exact Hpre|].
        eapply not_on_spine; try eassumption. }
      exact Hk'.
  Qed.

  Lemma create_keeps : forall p e s s' r,
    create norm E rn slm dfm ddm own fixed p e s = (s', r) -> path_ok p -> K s ->
    placed_ok p -> K s'.
  Proof.
    intros p e s s' r H Hp Hk Hpl. pose proof H as H0. unfold create in H.
    destruct e as [e0|]; [|injection H as <- _; exact Hk].
    destruct (walk E rn p false s) as [s1 r1] eqn:W.
    destruct (walk_ro _ _ _ _ _ _ _ W) as (_ & T1 & _).
    assert (K s1) as Hk1 by (unfold K; rewrite T1; exact Hk).
    destruct r1 as [[h n]|e1|]; [|injection H as <- _; exact Hk1|injection H as <- _; exact Hk1].
    destruct (walk_hof _ _ _ _ _ _ _ _ W Hp) as [-> ->].
    destruct (is_prefix p pp) eqn:Hpre.
    - apply is_prefix_iff in Hpre. destruct Hpre as [q Hq].
      pose proof (hof_lof_inside p q Hq) as HP.
      destruct e0 as [tc|x dg|t| |msg|pc].
      + destruct (create_dir_f norm E slm dfm ddm own fixed (depth_entry (EDir tc)) (hof rn p) (lof rn p) p tc s1)
          as [s2 r2] eqn:R.
        injection H as <- _. eapply create_dir_inside; eassumption.
      + destruct (create_file E dfm own (hof rn p) (lof rn p) p (EFile x dg) s1) as [s2 r2] eqn:R.
        assert (K s2) as Hk2 by (eapply find_and_move_inside; try eassumption; discriminate).
        destruct r2 as [[]|e2|]; injection H as <- _; exact Hk2.
      + destruct (create_link norm E slm own fixed (hof rn p) (lof rn p) p (ELink t) s1) as [s2 r2] eqn:R.
        assert (K s2) as Hk2 by (eapply create_link_inside; eassumption).
        destruct r2 as [[]|e2|]; injection H as <- _; exact Hk2.
      + injection H as <- _. exact Hk1.
      + injection H as <- _. exact Hk1.
      + injection H as <- _. exact Hk1.
    - eapply eff_keeps; [eapply create_eff; eassumption|exact Hk|apply apart_prefix; exact Hpre|].
      eapply not_on_spine; try eassumption.
  Qed.

  Lemma swap_keeps : forall p old new s s' r,
    swap_file E rn ch dfm own p old new s = (s', r) -> path_ok p -> K s ->
    placed_ok p ->
    (pp = p -> file_ok ch y p (entry_digest old) = false) -> K s'.
  Proof.
    intros p old new s s' r H Hp Hk Hpl HU. pose proof H as H0. unfold swap_file, tbind in H.
    destruct (walk E rn p true s) as [s1 r1] eqn:W.
    destruct (walk_ro _ _ _ _ _ _ _ W) as (_ & T1 & _).
    assert (K s1) as Hk1 by (unfold K; rewrite T1; exact Hk).
    destruct r1 as [[h n]|e1|]; [|injection H as <- _; exact Hk1|injection H as <- _; exact Hk1].
    destruct (walk_hof _ _ _ _ _ _ _ _ W Hp) as [-> ->].
    destruct (is_prefix p pp) eqn:Hpre.
    - apply is_prefix_iff in Hpre. destruct Hpre as [q Hq].
      pose proof (hof_lof_inside p q Hq) as HP.
      destruct (ensure_expected_file E ch (hof rn p) (lof rn p) p old s1) as [s2 r2] eqn:EN.
      apply ensure_expected_file_spec in EN. destruct EN as (_ & T2 & _ & R2).
      assert (K s2) as Hk2 by (unfold K; rewrite T2; exact Hk1).
      destruct r2 as [[]|e2|]; [|injection H as <- _; exact Hk2|injection H as <- _; exact Hk2].
      destruct (R2 eq_refl) as (m & c & y0 & D & Ly & FO).
      destruct (K_inside _ _ _ _ _ _ Hk1 HP D) as (y1 & Ly1 & Gq). rewrite Ly in Ly1. injection Ly1 as <-.
      assert (q <> []) as Hq0.
      { intros ->. cbn in Gq. injection Gq as Gy. rewrite app_nil_r in Hq.
        rewrite Gy, (HU Hq) in FO. discriminate. }
      destruct (String.eqb (entry_digest old) (entry_digest new)).
      + eapply set_permissions_inside; eassumption.
      + eapply find_and_move_inside; try eassumption. intros _. exact Hq0.
    - eapply eff_keeps; [eapply swap_file_eff; eassumption|exact Hk|apply apart_prefix; exact Hpre|].
      eapply not_on_spine; try eassumption.
  Qed.

  Definition item_ok (c : change) : Prop :=
    path_ok (cpath c) /\ placed_ok (cpath c) /\
    (forall e0 q, cold c = Some e0 -> pp = cpath c ++ q -> unauth (cpath c) e0 q).

  Lemma trans_one_keeps : forall c s s' r,
    trans_one norm E rn ch slm dfm ddm own fixed c s = (s', r) ->
    item_ok c -> tsorted (tfs s) -> K s -> K s'.
  Proof.
    intros c s s' r H (Hp & Hpl & HU) Hs Hk. unfold trans_one in H.
    destruct (cancelled E s); [injection H as <- _; exact Hk|].
    assert (forall s1 r0, (let '(s1, r) := remove norm E rn ch slm (cpath c) (cold c) s in
                match r with
                | Some _ => (s1, r)
                | None => create norm E rn slm dfm ddm own fixed (cpath c) (cnew c) s1
                end) = (s1, r0) -> K s1) as RC.
    { intros s1 r0 H0. destruct (remove norm E rn ch slm (cpath c) (cold c) s) as [sa ra] eqn:R.
      assert (K sa) as Hka by (eapply remove_keeps; eassumption).
      destruct ra; [injection H0 as <- _; exact Hka|]. eapply create_keeps; eassumption. }
    destruct (cold c) as [[ec|xo dgo|t| |msg|pc]|] eqn:CO; try (eapply RC; exact H).
    destruct (cnew c) as [[ec|xn dgn|t| |msg|pc]|] eqn:CN; try (eapply RC; exact H).
    destruct (swap_file E rn ch dfm own (cpath c) (EFile xo dgo) (EFile xn dgn) s) as [s1 r1] eqn:SW.
    assert (K s1) as Hk1.
    { eapply swap_keeps; try eassumption. intro Hq.
      specialize (HU (EFile xo dgo) [] eq_refl). rewrite app_nil_r in HU. exact (HU Hq). }
    destruct r1 as [[]|e1|]; injection H as <- _; exact Hk1.
  Qed.

  Lemma trans_loop_keeps : forall plan s s' rs,
    trans_loop norm E rn ch slm dfm ddm own fixed plan s = (s', rs) ->
    Forall item_ok plan -> tsorted (tfs s) -> K s -> K s'.
  Proof.
    induction plan as [|c rest IH]; intros s s' rs H HF Hs Hk; cbn [trans_loop] in H.
    - injection H as <- _. exact Hk.
    - inversion HF as [|? ? Hc HF']; subst.
      destruct (trans_one norm E rn ch slm dfm ddm own fixed c s) as [s1 r] eqn:T1.
      destruct (trans_loop norm E rn ch slm dfm ddm own fixed rest s1) as [s2 rs2] eqn:TL.
      injection H as <- _.
      pose proof (trans_one_keeps _ _ _ _ T1 Hc Hs Hk) as Hk1.
      destruct Hc as (Hp & _ & _).
      pose proof (eff_sorted _ _ _ _ (trans_one_eff _ _ _ _ _ _ _ _ _ rn_ok _ _ _ _ T1 Hp) Hs) as Hs1.
      eapply IH; eassumption.
  Qed.

  (* ================================================================== *)
  (* a problem is recorded                                                *)
  (* ================================================================== *)

  (* the removal of the old entry e, if nothing stops it earlier, gets to the
     position q: every step of q is listed in the expected directory, except
     possibly the last one (an unknown child) *)
  Fixpoint visits (e : entry) (q : path) : Prop :=
    match q with
    | [] => True
    | k :: q' =>
      match e with
      | EDir ec => match lookup k ec with
                   | None => q' = []
                   | Some e' => visits e' q'
                   end
      | _ => False
      end
    end.

  (* a problem at a path between [top] and [top ++ q] *)
  Definition reported_between (top q : path) (s : tstate) : Prop :=
    exists q1 k, is_prefix q1 q = true /\ In (top ++ q1, k) (tprobs s).

  Lemma reported_mono : forall top q s s', pmono s s' -> reported_between top q s -> reported_between top q s'.
  Proof. intros top q s s' Hm (q1 & k & Hq & Hin). exists q1, k. split; [exact Hq|apply Hm; exact Hin]. Qed.

  Lemma reported_here : forall top q k s, reported_between top q (problem_at top k s).
  Proof.
    intros top q k s. exists [], k. split; [reflexivity|]. rewrite app_nil_r. left. reflexivity.
  Qed.

  Lemma reported_deeper : forall top k0 q0 s,
    reported_between (top ++ [k0]) q0 s -> reported_between top (k0 :: q0) s.
  Proof.
    intros top k0 q0 s (q1 & k & Hq & Hin). exists (k0 :: q1), k. split.
    - cbn. rewrite String.eqb_refl. exact Hq.
    - rewrite <- app_assoc in Hin. exact Hin.
  Qed.

  Definition rec_reports
    (rec : path -> name -> path -> list (name * entry) -> tstate -> tstate * bool * list (name * entry)) :=
    forall d n cp ec q s s1 ok ec', rec d n cp ec s = (s1, ok, ec') -> n <> "." ->
      tsorted (tfs s) -> K s -> P = d ++ n :: q -> unauth cp (EDir ec) q -> visits (EDir ec) q ->
      Forall (fun k => listed k = true) q ->
      reported_between cp q s1.

  Lemma removed_if_not_ok : forall h n s s' ok (V : node -> Prop),
    removed_if h n s s' ok V -> K s -> P = h ++ [n] -> ~ V y -> ok = false.
  Proof.
    intros h n s s' ok V (_ & _ & [[Hok _]|(_ & m & c & y0 & D & Ly & _ & HV & _)]) Hk HP HU;
      [exact Hok|].
    exfalso. destruct (K_inside _ _ [] _ _ _ Hk HP D) as (y1 & Ly1 & Gq).
    rewrite Ly in Ly1. injection Ly1 as <-. cbn in Gq. injection Gq as Gy. rewrite Gy in HV. exact (HU HV).
  Qed.

  (* effects of one iteration, for monotonicity of the problem list *)
  Lemma remove_loop_pmono : forall rec d p names ec s fl s' fl' ec',
    (forall d n cp ec s s1 ok ec', rec d n cp ec s = (s1, ok, ec') -> pmono s s1) ->
    remove_loop norm E ch slm rec d p names ec s fl = (s', fl', ec') -> pmono s s'.
  Proof.
    intros rec d p names. induction names as [|k rest IH]; intros ec s fl s' fl' ec' HM H;
      cbn [remove_loop] in H.
    - injection H as <- _ _. apply pmono_refl.
    - destruct (cancelled E s); [injection H as <- _ _; apply problem_at_pmono|].
      destruct (lookup k ec) as [[ec1|x dg|t| |msg|pc]|] eqn:Lk.
      + match type of H with context [rec ?a ?b ?c ?d0 ?e] =>
          destruct (rec a b c d0 e) as [[s1 ok] ec1'] eqn:R end.
        eapply pmono_trans; [eapply HM; exact R|]. destruct ok; exact (IH _ _ _ _ _ _ HM H).
      + match type of H with context [remove_file ?a ?b ?c ?d0 ?e ?f ?g] =>
          destruct (remove_file a b c d0 e f g) as [s1 r] eqn:R end.
        eapply pmono_trans; [apply (eff_probs _ _ _ _ (remove_file_eff _ _ _ _ _ _ _ _ _ R))|].
        destruct r as [[]|e|]; [exact (IH _ _ _ _ _ _ HM H)| |];
          (eapply pmono_trans; [apply problem_at_pmono|exact (IH _ _ _ _ _ _ HM H)]).
      + match type of H with context [remove_link ?a ?b ?c ?d0 ?e ?f ?g ?i] =>
          destruct (remove_link a b c d0 e f g i) as [s1 r] eqn:R end.
        eapply pmono_trans; [apply (eff_probs _ _ _ _ (remove_link_eff _ _ _ _ _ _ _ _ _ _ R))|].
        destruct r as [[]|e|]; [exact (IH _ _ _ _ _ _ HM H)| |];
          (eapply pmono_trans; [apply problem_at_pmono|exact (IH _ _ _ _ _ _ HM H)]).
      + eapply pmono_trans; [apply problem_at_pmono|exact (IH _ _ _ _ _ _ HM H)].
      + eapply pmono_trans; [apply problem_at_pmono|exact (IH _ _ _ _ _ _ HM H)].
      + eapply pmono_trans; [apply problem_at_pmono|exact (IH _ _ _ _ _ _ HM H)].
      + eapply pmono_trans; [apply problem_at_pmono|exact (IH _ _ _ _ _ _ HM H)].
  Qed.

  Lemma remove_dir_pmono : forall fuel d n cp ec s s1 ok ec',
    remove_dir_f norm E ch slm fuel d n cp ec s = (s1, ok, ec') -> pmono s s1.
  Proof.
    induction fuel as [|fuel IH]; intros h n p ec s s' ok ec' H; cbn [remove_dir_f] in H.
    - injection H as <- _ _. apply problem_at_pmono.
    - destruct (run (liftF (open_dir (quiet E) h n)) s) as [s1 r1] eqn:OD.
      apply open_dir_spec in OD. destruct OD as (L1 & _).
      pose proof (same_log_pmono _ _ L1) as M1.
      destruct r1 as [d|e1|];
        [|injection H as <- _ _; eapply pmono_trans; [exact M1|apply problem_at_pmono]
         |injection H as <- _ _; eapply pmono_trans; [exact M1|apply problem_at_pmono]].
      destruct (run (liftF (read_contents (quiet E) d)) s1) as [s2 r2] eqn:RC.
      apply read_contents_spec in RC. destruct RC as (L2 & _).
      pose proof (same_log_pmono _ _ L2) as M2.
      destruct r2 as [mds|e2|];
        [|injection H as <- _ _; eapply pmono_trans; [exact M1|]; eapply pmono_trans; [exact M2|apply problem_at_pmono]
         |injection H as <- _ _; eapply pmono_trans; [exact M1|]; eapply pmono_trans; [exact M2|apply problem_at_pmono]].
      destruct (remove_loop norm E ch slm (remove_dir_f norm E ch slm fuel) d p
                            (filter listed (map md_name mds)) ec s2 no_flags) as [[s3 fl] ec3] eqn:RL.
      pose proof (remove_loop_pmono _ _ _ _ _ _ _ _ _ _ IH RL) as M3.
      assert (pmono s s3) as M03 by (eapply pmono_trans; [exact M1|eapply pmono_trans; eassumption]).
      destruct (negb (f_cancel fl) && negb (f_unknown fl) && negb (f_failed fl)).
      + destruct (run (liftF (rmdir (quiet E) h n)) s3) as [s4 r4] eqn:RD.
        apply rmdir_spec in RD. destruct RD as (L4 & _). pose proof (same_log_pmono _ _ L4) as M4.
        destruct r4 as [[]|e4|]; injection H as <- _ _.
        * eapply pmono_trans; eassumption.
        * eapply pmono_trans; [exact M03|]. eapply pmono_trans; [exact M4|apply problem_at_pmono].
        * eapply pmono_trans; [exact M03|]. eapply pmono_trans; [exact M4|apply problem_at_pmono].
      + injection H as <- _ _. exact M03.
  Qed.

  (* the loop reports: P = d ++ k0 :: q0, k0 among the names *)
  Lemma remove_loop_reports : forall rec d p k0 q0 names ec s fl s' fl' ec',
    rec_eff rec -> rec_inside rec -> rec_reports rec ->
    (forall d n cp ec s s1 ok ec', rec d n cp ec s = (s1, ok, ec') -> pmono s s1) ->
    Forall (fun k => k <> ".") names -> NoDup names -> In k0 names ->
    remove_loop norm E ch slm rec d p names ec s fl = (s', fl', ec') ->
    tsorted (tfs s) -> K s -> P = d ++ k0 :: q0 ->
    (forall e', lookup k0 ec = Some e' -> unauth (p ++ [k0]) e' q0 /\ visits e' q0) ->
    (lookup k0 ec = None -> q0 = []) ->
    Forall (fun k => listed k = true) q0 ->
    reported_between p (k0 :: q0) s'.
  Proof.
    intros rec d p k0 q0 names. induction names as [|k rest IH];
      intros ec s fl s' fl' ec' HE HI HR HM HN HD Hin H Hs Hk HP HU HUn HL; cbn [remove_loop] in H;
      [destruct Hin|].
    inversion HN as [|? ? Hkd HN']; subst. inversion HD as [|? ? Hnin HD']; subst.
    destruct (cancelled E s); [injection H as <- _ _; apply reported_here|].
    destruct (string_dec k k0) as [->|Hne].
    - (* the iteration at k0: it records a problem, the rest keeps it *)
      assert (forall s1 fl1 ecx, reported_between p (k0 :: q0) s1 ->
                remove_loop norm E ch slm rec d p rest ecx s1 fl1 = (s', fl', ec') ->
                reported_between p (k0 :: q0) s') as Rest.
      { intros s1 fl1 ecx Hr Hl. eapply reported_mono; [|exact Hr].
        eapply remove_loop_pmono; [exact HM|exact Hl]. }
      destruct (lookup k0 ec) as [[ec1|x dg|t| |msg|pc]|] eqn:Lk.
      + match type of H with context [rec ?a ?b ?c ?d0 ?e] =>
          destruct (rec a b c d0 e) as [[s1 ok] ec1'] eqn:R end.
        destruct (HU _ eq_refl) as [U V].
        assert (reported_between p (k0 :: q0) s1) as Hr.
        { apply reported_deeper. eapply HR; eassumption. }
        destruct ok; eapply Rest; eassumption.
      + match type of H with context [remove_file ?a ?b ?c ?d0 ?e ?f ?g] =>
          destruct (remove_file a b c d0 e f g) as [s1 r] eqn:R end.
        destruct (HU _ eq_refl) as [U V]. destruct q0 as [|k1 q1]; [|destruct V].
        assert (is_ok r = false) as Hr.
        { apply remove_file_spec in R. eapply removed_if_not_ok; try eassumption.
          intro FO. change (entry_digest (EFile x dg)) with dg in FO. cbn [unauth] in U.
          discriminate (eq_trans (eq_sym FO) U). }
        destruct r as [[]|e|]; try discriminate;
          (eapply Rest; [|exact H]; apply reported_deeper; apply reported_here).
      + match type of H with context [remove_link ?a ?b ?c ?d0 ?e ?f ?g ?i] =>
          destruct (remove_link a b c d0 e f g i) as [s1 r] eqn:R end.
        destruct (HU _ eq_refl) as [U V]. destruct q0 as [|k1 q1]; [|destruct V].
        assert (is_ok r = false) as Hr.
        { apply remove_link_spec in R. eapply removed_if_not_ok; try eassumption.
          intro FO. change (entry_target (ELink t)) with t in FO. cbn [unauth] in U.
          discriminate (eq_trans (eq_sym FO) U). }
        destruct r as [[]|e|]; try discriminate;
          (eapply Rest; [|exact H]; apply reported_deeper; apply reported_here).
      + destruct (HU _ eq_refl) as [U V]. destruct q0 as [|k1 q1]; [|destruct V].
        eapply Rest; [|exact H]. apply reported_deeper. apply reported_here.
      + destruct (HU _ eq_refl) as [U V]. destruct q0 as [|k1 q1]; [|destruct V].
        eapply Rest; [|exact H]. apply reported_deeper. apply reported_here.
      + destruct (HU _ eq_refl) as [U V]. destruct q0 as [|k1 q1]; [|destruct V].
        eapply Rest; [|exact H]. apply reported_deeper. apply reported_here.
      + rewrite (HUn eq_refl) in *. eapply Rest; [|exact H]. apply reported_deeper. apply reported_here.
    - (* another name first *)
      destruct Hin as [Hin|Hin]; [congruence|].
      assert (is_prefix (d ++ [k]) P = false /\ is_prefix P d = false) as [Q1 Q2]
        by (rewrite HP; apply sibling_prefix; exact Hne).
      assert (forall v e', lookup k0 (set_child k v ec) = Some e' -> unauth (p ++ [k0]) e' q0 /\ visits e' q0) as HU'.
      { intros v e' Le. rewrite lookup_set_child_other in Le by (intro; subst; congruence).
        apply HU. exact Le. }
      assert (forall v, lookup k0 (set_child k v ec) = None -> q0 = []) as HUn'.
      { intros v Le. rewrite lookup_set_child_other in Le by (intro; subst; congruence).
        apply HUn. exact Le. }
      destruct (lookup k ec) as [[ec1|x dg|t| |msg|pc]|] eqn:Lk.
      + match type of H with context [rec ?a ?b ?c ?d0 ?e] =>
          destruct (rec a b c d0 e) as [[s1 ok] ec1'] eqn:R end.
        pose proof (HE _ _ _ _ _ _ _ _ R Hkd) as Ef.
        assert (K s1) as Hk1 by (eapply eff_keeps; [exact Ef|exact Hk|exact Q1|exact Q2]).
        pose proof (eff_sorted _ _ _ _ Ef Hs) as Hs1.
        destruct ok; exact (IH _ _ _ _ _ _ HE HI HR HM HN' HD' Hin H Hs1 Hk1 HP (HU' _) (HUn' _) HL).
      + match type of H with context [remove_file ?a ?b ?c ?d0 ?e ?f ?g] =>
          destruct (remove_file a b c d0 e f g) as [s1 r] eqn:R end.
        pose proof R as Ef. eapply remove_file_eff in Ef.
        assert (K s1) as Hk1 by (eapply eff_keeps; [exact Ef|exact Hk|exact Q1|exact Q2]).
        pose proof (eff_sorted _ _ _ _ Ef Hs) as Hs1.
        destruct r as [[]|e|];
          [exact (IH _ _ _ _ _ _ HE HI HR HM HN' HD' Hin H Hs1 Hk1 HP (HU' _) (HUn' _) HL)
          |exact (IH _ _ _ _ _ _ HE HI HR HM HN' HD' Hin H Hs1 Hk1 HP HU HUn HL)
          |exact (IH _ _ _ _ _ _ HE HI HR HM HN' HD' Hin H Hs1 Hk1 HP HU HUn HL)].
      + match type of H with context [remove_link ?a ?b ?c ?d0 ?e ?f ?g ?i] =>
          destruct (remove_link a b c d0 e f g i) as [s1 r] eqn:R end.
        pose proof R as Ef. eapply remove_link_eff in Ef.
        assert (K s1) as Hk1 by (eapply eff_keeps; [exact Ef|exact Hk|exact Q1|exact Q2]).
        pose proof (eff_sorted _ _ _ _ Ef Hs) as Hs1.
        destruct r as [[]|e|];
          [exact (IH _ _ _ _ _ _ HE HI HR HM HN' HD' Hin H Hs1 Hk1 HP (HU' _) (HUn' _) HL)
          |exact (IH _ _ _ _ _ _ HE HI HR HM HN' HD' Hin H Hs1 Hk1 HP HU HUn HL)
          |exact (IH _ _ _ _ _ _ HE HI HR HM HN' HD' Hin H Hs1 Hk1 HP HU HUn HL)].
      + exact (IH _ _ _ _ _ _ HE HI HR HM HN' HD' Hin H Hs Hk HP HU HUn HL).
      + exact (IH _ _ _ _ _ _ HE HI HR HM HN' HD' Hin H Hs Hk HP HU HUn HL).
      + exact (IH _ _ _ _ _ _ HE HI HR HM HN' HD' Hin H Hs Hk HP HU HUn HL).
      + exact (IH _ _ _ _ _ _ HE HI HR HM HN' HD' Hin H Hs Hk HP HU HUn HL).
  Qed.

  Lemma remove_dir_reports : forall fuel, rec_reports (remove_dir_f norm E ch slm fuel).
  Proof.
    induction fuel as [|fuel IH]; intros h n p ec q s s' ok ec' H Hn Hs Hk HP HU HV HL;
      cbn [remove_dir_f] in H.
    - injection H as <- _ _. apply reported_here.
    - destruct (run (liftF (open_dir (quiet E) h n)) s) as [s1 r1] eqn:OD.
      apply open_dir_spec in OD. destruct OD as (_ & T1 & _ & R1).
      assert (K s1) as Hk1 by (unfold K; rewrite T1; exact Hk).
      destruct r1 as [d|e1|]; [|injection H as <- _ _; apply reported_here|injection H as <- _ _; apply reported_here].
      destruct (R1 d eq_refl Hn) as (-> & m & c & m1 & c1 & D & Ln).
      destruct (K_inside _ _ _ _ _ _ Hk HP D) as (y0 & Ly0 & Gq). rewrite Ln in Ly0. injection Ly0 as <-.
      destruct q as [|k0 q0].
      { cbn in Gq. injection Gq as Gy. cbn in HU. rewrite <- Gy in HU. discriminate. }
      destruct (run (liftF (read_contents (quiet E) (h ++ [n]))) s1) as [s2 r2] eqn:RC.
      apply read_contents_spec in RC. destruct RC as (_ & T2 & _ & R2).
      assert (K s2) as Hk2 by (unfold K; rewrite T2; exact Hk1).
      destruct r2 as [mds|e2|]; [|injection H as <- _ _; apply reported_here|injection H as <- _ _; apply reported_here].
      destruct (R2 mds eq_refl) as (m2 & c2 & D2 & Hnames).
      destruct (remove_loop norm E ch slm (remove_dir_f norm E ch slm fuel) (h ++ [n]) p
                            (filter listed (map md_name mds)) ec s2 no_flags) as [[s3 fl] ec3] eqn:RL.
      assert (tsorted (tfs s1)) as Hs1 by (rewrite T1; exact Hs).
      assert (tsorted (tfs s2)) as Hs2 by (rewrite T2; exact Hs1).
      assert (P = (h ++ [n]) ++ k0 :: q0) as HP' by (rewrite HP, <- app_assoc; reflexivity).
      inversion HL as [|? ? Hl0 HL0]; subst.
      assert (reported_between p (k0 :: q0) s3) as Hr3.
      { eapply (remove_loop_reports _ _ _ k0 q0 _ _ _ _ _ _ _ (rec_eff_remove_dir fuel)
                  (remove_dir_inside fuel) IH (remove_dir_pmono fuel)
                  (filter_listed_nodot _) _ _ RL Hs2 Hk2 HP').
        - cbn in HU, HV. intros e' Le. rewrite Le in HU, HV. split; assumption.
        - cbn in HV. intros Le. rewrite Le in HV. exact HV.
        - exact HL0. }
      assert (forall s4, pmono s3 s4 -> reported_between p (k0 :: q0) s4) as Fin
        by (intros s4 Hm; eapply reported_mono; eassumption).
      destruct (negb (f_cancel fl) && negb (f_unknown fl) && negb (f_failed fl)).
      + destruct (run (liftF (rmdir (quiet E) h n)) s3) as [s4 r4] eqn:RD.
        apply rmdir_spec in RD. destruct RD as (L4 & _). pose proof (same_log_pmono _ _ L4) as M4.
        destruct r4 as [[]|e4|]; injection H as <- _ _; apply Fin;
          [exact M4|eapply pmono_trans; [exact M4|apply problem_at_pmono]
          |eapply pmono_trans; [exact M4|apply problem_at_pmono]].
      + injection H as <- _ _. apply Fin. apply pmono_refl.
      Unshelve.
      * rewrite Hnames. apply NoDup_filter. apply sorted_names_NoDup.
        pose proof (dir_at_sorted _ _ _ _ Hs1 D2) as Hd2. apply tsorted_dir_inv in Hd2. apply Hd2.
      * (* k0 is listed in the directory *)
        apply filter_In. split; [|exact Hl0]. rewrite Hnames.
        rewrite T1 in D2. destruct (K_inside _ _ _ _ _ _ Hk HP' D2) as (y1 & Ly1 & _).
        apply nlookup_in_keys. congruence.
  Qed.

  (* ---------- one transition reports ---------- *)
  Lemma visits_leaf : forall e q, (forall ec, e <> EDir ec) -> visits e q -> q = [].
  Proof. intros e [|k q] He Hv; [reflexivity|]. destruct e; cbn in Hv; try contradiction. exfalso. eapply He. reflexivity. Qed.

  Lemma remove_reports : forall p e0 q s s' r,
    remove norm E rn ch slm p (Some e0) s = (s', r) -> path_ok p -> tsorted (tfs s) -> K s ->
    pp = p ++ q -> unauth p e0 q -> visits e0 q -> Forall (fun k => listed k = true) q ->
    reported_between p q s'.
  Proof.
    intros p e0 q s s' r H Hp Hs Hk Hq HU HV HL. unfold remove in H.
    destruct (walk E rn p true s) as [s1 r1] eqn:W.
    destruct (walk_ro _ _ _ _ _ _ _ W) as (_ & T1 & _).
    assert (K s1) as Hk1 by (unfold K; rewrite T1; exact Hk).
    assert (tsorted (tfs s1)) as Hs1 by (rewrite T1; exact Hs).
    destruct r1 as [[h n]|e1|]; [|injection H as <- _; apply reported_here|injection H as <- _; apply reported_here].
    destruct (walk_hof _ _ _ _ _ _ _ _ W Hp) as [-> ->].
    pose proof (hof_lof_inside p q Hq) as HP.
    destruct e0 as [ec|x dg|t| |msg|pc].
    - destruct (remove_dir_f norm E ch slm (depth_entry (EDir ec)) (hof rn p) (lof rn p) p ec s1)
        as [[s2 ok] ec'] eqn:R.
      assert (reported_between p q s2) as Hr.
      { eapply remove_dir_reports; try eassumption. apply lof_nodot; assumption. }
      destruct ok; injection H as <- _; exact Hr.
    - rewrite (visits_leaf (EFile x dg) q ltac:(intros ec0 Heq; discriminate Heq) HV) in *.
      destruct (remove_file E ch (hof rn p) (lof rn p) p (EFile x dg) s1) as [s2 r2] eqn:R.
      assert (is_ok r2 = false) as Hr.
      { apply remove_file_spec in R. eapply removed_if_not_ok; try eassumption.
        intro FO. change (entry_digest (EFile x dg)) with dg in FO. cbn [unauth] in HU.
        discriminate (eq_trans (eq_sym FO) HU). }
      destruct r2 as [[]|e2|]; try discriminate; injection H as <- _; apply reported_here.
    - rewrite (visits_leaf (ELink t) q ltac:(intros ec0 Heq; discriminate Heq) HV) in *.
      destruct (remove_link norm E slm (hof rn p) (lof rn p) p (ELink t) s1) as [s2 r2] eqn:R.
      assert (is_ok r2 = false) as Hr.
      { apply remove_link_spec in R. eapply removed_if_not_ok; try eassumption.
        intro FO. change (entry_target (ELink t)) with t in FO. cbn [unauth] in HU.
        discriminate (eq_trans (eq_sym FO) HU). }
      destruct r2 as [[]|e2|]; try discriminate; injection H as <- _; apply reported_here.
    - injection H as <- _. apply reported_here.
    - injection H as <- _. apply reported_here.
    - injection H as <- _. apply reported_here.
  Qed.

  Lemma swap_not_ok : forall p old new s s',
    swap_file E rn ch dfm own p old new s = (s', ROk tt) -> path_ok p -> K s -> pp = p ->
    file_ok ch y p (entry_digest old) = true.
  Proof.
    intros p old new s s' H Hp Hk Hq. unfold swap_file, tbind in H.
    destruct (walk E rn p true s) as [s1 r1] eqn:W.
    destruct (walk_ro _ _ _ _ _ _ _ W) as (_ & T1 & _).
    assert (K s1) as Hk1 by (unfold K; rewrite T1; exact Hk).
    destruct r1 as [[h n]|e1|]; try discriminate.
    destruct (walk_hof _ _ _ _ _ _ _ _ W Hp) as [-> ->].
    destruct (ensure_expected_file E ch (hof rn p) (lof rn p) p old s1) as [s2 r2] eqn:EN.
    apply ensure_expected_file_spec in EN. destruct EN as (_ & _ & _ & R2).
    destruct r2 as [[]|e2|]; try discriminate.
    destruct (R2 eq_refl) as (m & c & y0 & D & Ly & FO).
    assert (pp = p ++ []) as Hq' by (rewrite app_nil_r; exact Hq).
    pose proof (hof_lof_inside p [] Hq') as HP.
    destruct (K_inside _ _ _ _ _ _ Hk1 HP D) as (y1 & Ly1 & Gq). rewrite Ly in Ly1. injection Ly1 as <-.
    cbn in Gq. injection Gq as Gy. rewrite Gy in FO. exact FO.
  Qed.

  Lemma trans_one_reports : forall c e0 q s s' r,
    trans_one norm E rn ch slm dfm ddm own fixed c s = (s', r) -> path_ok (cpath c) ->
    tsorted (tfs s) -> K s ->
    cold c = Some e0 -> pp = cpath c ++ q -> unauth (cpath c) e0 q -> visits e0 q ->
    Forall (fun k => listed k = true) q ->
    reported_between (cpath c) q s'.
  Proof.
    intros c e0 q s s' r H Hp Hs Hk CO Hq HU HV HL. unfold trans_one in H.
    destruct (cancelled E s); [injection H as <- _; apply reported_here|].
    rewrite CO in H.
    assert (forall s1 r0, (let '(s1, r) := remove norm E rn ch slm (cpath c) (Some e0) s in
                match r with
                | Some _ => (s1, r)
                | None => create norm E rn slm dfm ddm own fixed (cpath c) (cnew c) s1
                end) = (s1, r0) -> reported_between (cpath c) q s1) as RC.
    { intros s1 r0 H0. destruct (remove norm E rn ch slm (cpath c) (Some e0) s) as [sa ra] eqn:R.
      pose proof (remove_reports _ _ _ _ _ _ R Hp Hs Hk Hq HU HV HL) as Hr.
      destruct ra; [injection H0 as <- _; exact Hr|].
      eapply reported_mono; [|exact Hr].
      eapply eff_probs. eapply create_eff; eassumption. }
    destruct e0 as [ec|xo dgo|t| |msg|pc]; try (eapply RC; exact H).
    destruct (cnew c) as [[ec|xn dgn|t| |msg|pc]|] eqn:CN; try (eapply RC; exact H).
    rewrite (visits_leaf (EFile xo dgo) q ltac:(intros ec0 Heq; discriminate Heq) HV) in *. rewrite app_nil_r in Hq.
    destruct (swap_file E rn ch dfm own (cpath c) (EFile xo dgo) (EFile xn dgn) s) as [s1 r1] eqn:SW.
    destruct r1 as [[]|e1|]; injection H as <- _; try apply reported_here.
    exfalso. pose proof (swap_not_ok _ _ _ _ _ SW Hp Hk Hq) as FO.
    change (entry_digest (EFile xo dgo)) with dgo in FO. cbn [unauth] in HU.
    discriminate (eq_trans (eq_sym FO) HU).
  Qed.

  Lemma trans_loop_pmono : forall plan s s' rs,
    trans_loop norm E rn ch slm dfm ddm own fixed plan s = (s', rs) ->
    Forall (fun c => path_ok (cpath c)) plan -> pmono s s'.
  Proof.
    induction plan as [|c rest IH]; intros s s' rs H HF; cbn [trans_loop] in H.
    - injection H as <- _. apply pmono_refl.
    - inversion HF as [|? ? Hc HF']; subst.
      destruct (trans_one norm E rn ch slm dfm ddm own fixed c s) as [s1 r] eqn:T1.
      destruct (trans_loop norm E rn ch slm dfm ddm own fixed rest s1) as [s2 rs2] eqn:TL.
      injection H as <- _. eapply pmono_trans; [|eapply IH; eassumption].
      apply (eff_probs _ _ _ _ (trans_one_eff _ _ _ _ _ _ _ _ _ rn_ok _ _ _ _ T1 Hc)).
  Qed.

  Lemma trans_loop_reports : forall plan c e0 q s s' rs,
    trans_loop norm E rn ch slm dfm ddm own fixed plan s = (s', rs) ->
    Forall item_ok plan -> tsorted (tfs s) -> K s -> In c plan ->
    cold c = Some e0 -> pp = cpath c ++ q -> visits e0 q ->
    Forall (fun k => listed k = true) q ->
    reported_between (cpath c) q s'.
  Proof.
    induction plan as [|c0 rest IH]; intros c e0 q s s' rs H HF Hs Hk Hin CO Hq HV HL;
      cbn [trans_loop] in H; [destruct Hin|].
    inversion HF as [|? ? Hc HF']; subst.
    destruct (trans_one norm E rn ch slm dfm ddm own fixed c0 s) as [s1 r] eqn:T1.
    destruct (trans_loop norm E rn ch slm dfm ddm own fixed rest s1) as [s2 rs2] eqn:TL.
    injection H as <- _.
    pose proof (trans_one_keeps _ _ _ _ T1 Hc Hs Hk) as Hk1.
    pose proof Hc as (Hp & _ & HU0).
    pose proof (eff_sorted _ _ _ _ (trans_one_eff _ _ _ _ _ _ _ _ _ rn_ok _ _ _ _ T1 Hp) Hs) as Hs1.
    destruct Hin as [->|Hin].
    - eapply reported_mono; [|eapply trans_one_reports; try eassumption; eapply HU0; eassumption].
      eapply trans_loop_pmono; [exact TL|].
      apply Forall_forall. intros x Hx. rewrite Forall_forall in HF'. apply (HF' x Hx).
    - eapply IH; eassumption.
  Qed.

End C08.
