(* Soundness of the executable checker check_c08 (Model/TransitionCheck.v):
   what it accepts satisfies the statement of C08. *)
From Coq Require Import List Bool Arith String Ascii NArith Lia.
From Mv Require Import Model.Entry Model.Fs Model.FsExt Model.Transition Model.TransitionCheck
     Proof.EntryFacts Proof.FsFacts.
Import ListNotations.
Open Scope string_scope.
Open Scope list_scope.

(* ---------- node_eqb decides equality ---------- *)
Section NodeInd.
  Variable P : node -> Prop.
  Hypothesis Hdir : forall m c, Forall (fun ny => P (snd ny)) c -> P (NDir m c).
  Hypothesis Hfile : forall m d, P (NFile m d).
  Hypothesis Hlink : forall m t, P (NLink m t).
  Hypothesis Hother : forall m t, P (NOther m t).

  Fixpoint node_nested_ind (x : node) : P x :=
    match x with
    | NDir m c =>
      Hdir m c ((fix go (l : list (name * node)) : Forall (fun ny => P (snd ny)) l :=
                   match l with
                   | [] => Forall_nil _
                   | (n, y) :: t => Forall_cons (n, y) (node_nested_ind y) (go t)
                   end) c)
    | NFile m d => Hfile m d
    | NLink m t => Hlink m t
    | NOther m t => Hother m t
    end.
End NodeInd.

Lemma meta_eqb_eq : forall a b, meta_eqb a b = true -> a = b.
Proof.
  intros [a1 a2 a3 a4 a5] [b1 b2 b3 b4 b5] Hm. unfold meta_eqb in Hm. cbn in Hm.
  apply andb_true_iff in Hm. destruct Hm as [Hm H5].
  apply andb_true_iff in Hm. destruct Hm as [Hm H4].
  apply andb_true_iff in Hm. destruct Hm as [Hm H3].
  apply andb_true_iff in Hm. destruct Hm as [H1 H2].
  apply N.eqb_eq in H1, H2, H3, H4, H5. subst. reflexivity.
Qed.

Fixpoint nodes_eqb (x y : list (name * node)) : bool :=
  match x, y with
  | [], [] => true
  | (n, e) :: x', (m, f) :: y' => String.eqb n m && node_eqb e f && nodes_eqb x' y'
  | _, _ => false
  end.

Lemma node_eqb_dir : forall m c m' c',
  node_eqb (NDir m c) (NDir m' c') = meta_eqb m m' && nodes_eqb c c'.
Proof.
  intros m c m' c'. cbn [node_eqb]. f_equal.
Qed.

Lemma node_eqb_eq : forall a b, node_eqb a b = true -> a = b.
Proof.
  induction a as [m c IH|m d|m t|m t] using node_nested_ind; intros [m' c'|m' d'|m' t'|m' t'] Hb;
    try discriminate.
  - rewrite node_eqb_dir in Hb. apply andb_true_iff in Hb. destruct Hb as [Hm Hc].
    apply meta_eqb_eq in Hm. subst m'. f_equal. revert c' Hc.
    induction IH as [|[n e] t He Ht IHt]; intros [|[k f] t'] Hc; cbn [nodes_eqb] in Hc; try discriminate.
    + reflexivity.
    + apply andb_true_iff in Hc. destruct Hc as [Hc Hr]. apply andb_true_iff in Hc. destruct Hc as [Hn Hf].
      apply String.eqb_eq in Hn. subst k. cbn in He. rewrite (He f Hf), (IHt t' Hr). reflexivity.
  - cbn in Hb. apply andb_true_iff in Hb. destruct Hb as [Hm Hd].
    apply meta_eqb_eq in Hm. apply String.eqb_eq in Hd. subst. reflexivity.
  - cbn in Hb. apply andb_true_iff in Hb. destruct Hb as [Hm Hd].
    apply meta_eqb_eq in Hm. apply String.eqb_eq in Hd. subst. reflexivity.
  - cbn in Hb. apply andb_true_iff in Hb. destruct Hb as [Hm Hd].
    apply meta_eqb_eq in Hm. apply N.eqb_eq in Hd. subst. reflexivity.
Qed.

Lemma onode_eqb_eq : forall a b, onode_eqb a b = true -> a = b.
Proof.
  intros [x|] [y0|] Hb; cbn in Hb; try discriminate; [|reflexivity].
  f_equal. apply node_eqb_eq. exact Hb.
Qed.

Section Sound.
  Variable norm : path -> string -> option string.
  Variable slm : slmode.
  Variable rn : name.
  Variable ch : cache.
  Variable pre post : node.
  Variable problems : list problem.

  Notation kept := (kept rn pre post problems).
  Notation guard_entry := (guard_entry norm slm rn ch pre post problems).

  Lemma path_split : forall (top q0 r : path), rn :: top ++ q0 ++ r = (rn :: top ++ q0) ++ r.
  Proof. intros. cbn. rewrite app_assoc. reflexivity. Qed.

  (* what the checker calls "kept" *)
  Lemma kept_sound : forall top q y,
    kept top (top ++ q) = true -> get (rn :: top ++ q) pre = Some y ->
    get (rn :: top ++ q) post = Some y /\ problem_between problems top q.
  Proof.
    intros top q y Hk Hg. unfold TransitionCheck.kept in Hk. apply andb_true_iff in Hk.
    destruct Hk as [Hu Hr]. split.
    - unfold untouched in Hu. apply onode_eqb_eq in Hu. rewrite Hu. exact Hg.
    - unfold reported in Hr. apply existsb_exists in Hr. destruct Hr as ([pp k] & Hin & Hp).
      cbn [fst] in Hp. apply andb_true_iff in Hp. destruct Hp as [H1 H2].
      apply is_prefix_iff in H1. destruct H1 as [q1 ->].
      apply is_prefix_iff in H2. destruct H2 as [r Hr]. rewrite <- app_assoc in Hr.
      apply app_inv_head in Hr. exists q1, k. split; [|exact Hin].
      apply is_prefix_iff. exists r. exact Hr.
  Qed.

  (* one unfolding of the walk over an expected directory *)
  Lemma guard_entry_dir : forall top p ec,
    guard_entry top p (EDir ec) =
    match get (rn :: p) pre with
    | None => true
    | Some x =>
      match x with
      | NDir _ cs => unknown_children_kept rn pre post problems top p cs ec &&
                     forallb (fun ne => guard_entry top (p ++ [fst ne]) (snd ne)) ec
      | _ => kept top p
      end
    end.
  Proof.
    intros top p ec. cbn [TransitionCheck.guard_entry]. destruct (get (rn :: p) pre) as [x|]; [|reflexivity].
    destruct x; try reflexivity. f_equal.
    induction ec as [|[n e] t IH]; [reflexivity|]. cbn [forallb fst snd]. rewrite <- IH. reflexivity.
  Qed.

  (* the statement of C08 for one transition (top = its path, e its old entry) *)
  Definition flagged (top : path) (e : entry) (q : path) (y : node) : Prop :=
    (exists x d, expect_at e q = Some (EFile x d) /\ file_ok ch y (top ++ q) d = false) \/
    (exists t, expect_at e q = Some (ELink t) /\ link_ok norm slm y (top ++ q) t = false) \/
    (exists ec, expect_at e q = Some (EDir ec) /\ is_dir y = false) \/
    (exists q' n ec m cs, q = q' ++ [n] /\ expect_at e q' = Some (EDir ec) /\ lookup n ec = None /\
                          get (rn :: top ++ q') pre = Some (NDir m cs)).

  Lemma guard_entry_sound : forall q top q0 e y,
    guard_entry top (top ++ q0) e = true ->
    get (rn :: top ++ q0 ++ q) pre = Some y ->
    (* the expectation relative to e, positions relative to top ++ q0 *)
    ((exists x d, expect_at e q = Some (EFile x d) /\ file_ok ch y (top ++ q0 ++ q) d = false) \/
     (exists t, expect_at e q = Some (ELink t) /\ link_ok norm slm y (top ++ q0 ++ q) t = false) \/
     (exists ec, expect_at e q = Some (EDir ec) /\ is_dir y = false) \/
     (exists q' n ec m cs, q = q' ++ [n] /\ expect_at e q' = Some (EDir ec) /\ lookup n ec = None /\
                           get (rn :: top ++ q0 ++ q') pre = Some (NDir m cs))) ->
    get (rn :: top ++ q0 ++ q) post = Some y /\ problem_between problems top (q0 ++ q).
  Proof.
    induction q as [|k q IH]; intros top q0 e y Hg Hy Hf.
    - (* the position of e itself *)
      rewrite app_nil_r in *.
      assert (kept top (top ++ q0) = true) as Hk.
      { destruct Hf as [(x & d & He & Hf)|[(t & He & Hf)|[(ec & He & Hf)|(q' & n & ec & m & cs & Hq & _)]]].
        - cbn in He. injection He as ->. cbn [TransitionCheck.guard_entry] in Hg. rewrite Hy in Hg.
          rewrite Hf in Hg. exact Hg.
        - cbn in He. injection He as ->. cbn [TransitionCheck.guard_entry] in Hg. rewrite Hy in Hg.
          rewrite Hf in Hg. exact Hg.
        - cbn in He. injection He as ->. rewrite guard_entry_dir, Hy in Hg.
          destruct y; try discriminate; exact Hg.
        - destruct q'; discriminate. }
      apply kept_sound; assumption.
    - (* deeper: e must be a directory that lists k, or k is the unknown child *)
      assert (exists ec, e = EDir ec) as [ec ->].
      { destruct Hf as [(x & d & He & _)|[(t & He & _)|[(ec & He & _)|(q' & n & ec & m & cs & Hq & He & _)]]];
          try (cbn in He; destruct e; try discriminate; eexists; reflexivity).
        destruct q' as [|k' q'']; cbn in He; [injection He as ->; eexists; reflexivity|].
        destruct e; try discriminate. eexists. reflexivity. }
      rewrite guard_entry_dir in Hg.
      (* the disk has a directory at top ++ q0 *)
      assert (exists m cs, get (rn :: top ++ q0) pre = Some (NDir m cs)) as (m & cs & Hd).
      { rewrite (path_split top q0 (k :: q)) in Hy.
        rewrite get_app in Hy. destruct (get (rn :: top ++ q0) pre) as [[m cs| | |]|]; try discriminate.
        exists m, cs. reflexivity. }
      rewrite Hd in Hg. apply andb_true_iff in Hg. destruct Hg as [Hu Hall].
      destruct (lookup k ec) as [e1|] eqn:Lk.
      + (* k is listed: go down *)
        assert (guard_entry top (top ++ (q0 ++ [k])) e1 = true) as Hg1.
        { rewrite forallb_forall in Hall. specialize (Hall (k, e1) (lookup_some_in _ _ _ Lk)).
          cbn [fst snd] in Hall. rewrite app_assoc. exact Hall. }
        assert (q0 ++ k :: q = (q0 ++ [k]) ++ q) as Eq by (rewrite <- app_assoc; reflexivity).
        rewrite Eq. apply (IH top (q0 ++ [k]) e1 y Hg1).
        * rewrite <- Eq. exact Hy.
        * rewrite <- !Eq.
          destruct Hf as [(x & d & He & Hf)|[(t & He & Hf)|[(ec' & He & Hf)|(q' & n & ec' & m' & cs' & Hq & He & Hn & Hd')]]].
          -- left. exists x, d. cbn in He. rewrite Lk in He. split; assumption.
          -- right. left. exists t. cbn in He. rewrite Lk in He. split; assumption.
          -- right. right. left. exists ec'. cbn in He. rewrite Lk in He. split; assumption.
          -- right. right. right. destruct q' as [|k' q''].
             { cbn in Hq. injection Hq as -> ->. cbn in He. injection He as ->. congruence. }
             cbn in Hq. injection Hq as <- ->. cbn in He. rewrite Lk in He.
             exists q'', n, ec', m', cs'. split; [reflexivity|]. split; [exact He|]. split; [exact Hn|].
             rewrite <- app_assoc. exact Hd'.
      + (* k is not listed: it is the unknown child, and q = [] *)
        assert (q = []) as ->.
        { destruct Hf as [(x & d & He & _)|[(t & He & _)|[(ec' & He & _)|(q' & n & ec' & m' & cs' & Hq & He & Hn & _)]]];
            try (cbn in He; rewrite Lk in He; discriminate).
          destruct q' as [|k' q'']; [cbn in Hq; injection Hq as _ ->; reflexivity|].
          cbn in Hq. injection Hq as <- _. cbn in He. rewrite Lk in He. discriminate. }
        assert (kept top (top ++ q0 ++ [k]) = true) as Hk.
        { unfold unknown_children_kept in Hu. rewrite forallb_forall in Hu.
          rewrite (path_split top q0 [k]) in Hy.
          rewrite get_app, Hd in Hy. cbn in Hy.
          destruct (nlookup k cs) as [y1|] eqn:Ln; [|discriminate]. injection Hy as ->.
          specialize (Hu (k, y) (nlookup_some_in _ _ _ Ln)). cbn [fst] in Hu. rewrite Lk in Hu.
          rewrite app_assoc. exact Hu. }
        apply kept_sound; assumption.
  Qed.

  (* the statement of C08 on observable outputs *)
  Definition c08_spec (plan : list change) : Prop :=
    forall c e0 q y, In c plan -> cold c = Some e0 ->
      get (rn :: cpath c ++ q) pre = Some y -> flagged (cpath c) e0 q y ->
      get (rn :: cpath c ++ q) post = Some y /\ problem_between problems (cpath c) q.

  Theorem check_c08_sound : forall plan,
    check_c08 norm slm rn ch pre post problems plan = true -> c08_spec plan.
  Proof.
    intros plan Hc c e0 q y Hin CO Hy Hf. unfold check_c08 in Hc. rewrite forallb_forall in Hc.
    specialize (Hc c Hin). rewrite CO in Hc.
    pose proof (guard_entry_sound q (cpath c) [] e0 y) as G. rewrite app_nil_r in G.
    cbn [app] in G. apply G; [exact Hc|exact Hy|]. unfold flagged in Hf. exact Hf.
  Qed.
End Sound.

(* ================================================================== *)
(* check_c03_disk                                                       *)
(* ================================================================== *)
Section Sound03.
  Variable rn : name.
  Variable pre post : node.

  Notation guard_unknown := (guard_unknown rn pre post).

  Lemma guard_unknown_dir : forall p ec,
    guard_unknown p (EDir ec) =
    match get (rn :: p) pre with
    | Some (NDir _ cs) =>
      forallb (fun ny => match lookup (fst ny) ec with
                         | Some _ => true
                         | None => untouched3 rn pre post (p ++ [fst ny])
                         end) cs &&
      forallb (fun ne => guard_unknown (p ++ [fst ne]) (snd ne)) ec
    | _ => true
    end.
  Proof.
    intros p ec. cbn [TransitionCheck.guard_unknown].
    destruct (get (rn :: p) pre) as [[m cs| | |]|]; try reflexivity. f_equal.
    induction ec as [|[n e] t IH]; [reflexivity|]. cbn [forallb fst snd]. rewrite <- IH. reflexivity.
  Qed.

  Lemma path_split3 : forall (top q0 r : path), rn :: top ++ q0 ++ r = (rn :: top ++ q0) ++ r.
  Proof. intros. cbn. rewrite app_assoc. reflexivity. Qed.

  Lemma guard_unknown_sound : forall q top q0 e ec n m cs y,
    guard_unknown (top ++ q0) e = true ->
    expect_at e q = Some (EDir ec) -> lookup n ec = None ->
    get (rn :: top ++ q0 ++ q) pre = Some (NDir m cs) -> nlookup n cs = Some y ->
    get (rn :: top ++ q0 ++ q ++ [n]) post = Some y.
  Proof.
    induction q as [|k q IH]; intros top q0 e ec n m cs y Hg He Ln Hd Hy.
    - cbn in He. injection He as ->. rewrite app_nil_r in Hd. rewrite guard_unknown_dir, Hd in Hg.
      apply andb_true_iff in Hg. destruct Hg as [Hu _]. rewrite forallb_forall in Hu.
      specialize (Hu (n, y) (nlookup_some_in _ _ _ Hy)). cbn [fst] in Hu. rewrite Ln in Hu.
      unfold untouched3 in Hu. apply onode_eqb_eq in Hu. cbn [app].
      rewrite <- app_assoc in Hu. rewrite Hu.
      rewrite (path_split3 top q0 [n]), get_app, Hd. cbn. rewrite Hy. reflexivity.
    - cbn in He. destruct e as [ec0| | | | |]; try discriminate.
      destruct (lookup k ec0) as [e1|] eqn:Lk; [|discriminate].
      rewrite guard_unknown_dir in Hg.
      assert (exists m0 cs0, get (rn :: top ++ q0) pre = Some (NDir m0 cs0)) as (m0 & cs0 & Hd0).
      { rewrite (path_split3 top q0 (k :: q)), get_app in Hd.
        destruct (get (rn :: top ++ q0) pre) as [[m0 cs0| | |]|]; try discriminate.
        exists m0, cs0. reflexivity. }
      rewrite Hd0 in Hg. apply andb_true_iff in Hg. destruct Hg as [_ Hall].
      rewrite forallb_forall in Hall. specialize (Hall (k, e1) (lookup_some_in _ _ _ Lk)).
      cbn [fst snd] in Hall. rewrite <- app_assoc in Hall.
      assert (q0 ++ k :: q = (q0 ++ [k]) ++ q) as Eq by (rewrite <- app_assoc; reflexivity).
      assert (q0 ++ (k :: q) ++ [n] = (q0 ++ [k]) ++ q ++ [n]) as Eq2 by (rewrite <- !app_assoc; reflexivity).
      rewrite Eq2. apply (IH top (q0 ++ [k]) e1 ec n m cs y Hall He Ln); [|exact Hy].
      rewrite <- Eq. exact Hd.
  Qed.

  Definition c03_disk_spec (plan : list change) : Prop :=
    forall c, In c plan ->
      (cold c = None -> forall y, get (rn :: cpath c) pre = Some y -> get (rn :: cpath c) post = Some y) /\
      (forall e0 q n ec m cs y, cold c = Some e0 -> expect_at e0 q = Some (EDir ec) ->
         lookup n ec = None -> get (rn :: cpath c ++ q) pre = Some (NDir m cs) -> nlookup n cs = Some y ->
         get (rn :: cpath c ++ q ++ [n]) post = Some y).

  Theorem check_c03_disk_sound : forall plan,
    check_c03_disk rn pre post plan = true -> c03_disk_spec plan.
  Proof.
    intros plan Hc c Hin. unfold check_c03_disk in Hc. rewrite forallb_forall in Hc.
    specialize (Hc c Hin). split.
    - intros CO y Hy. rewrite CO, Hy in Hc. unfold untouched3 in Hc. apply onode_eqb_eq in Hc.
      rewrite Hc. exact Hy.
    - intros e0 q n ec m cs y CO He Ln Hd Hy. rewrite CO in Hc.
      pose proof (guard_unknown_sound q (cpath c) [] e0 ec n m cs y) as G.
      rewrite app_nil_r in G. cbn [app] in G. apply G; assumption.
  Qed.
End Sound03.
