(* C08: the model's own output passes the executable checker check_c08. *)
From Coq Require Import List Bool Arith String Ascii NArith Lia.
From Mv Require Import Model.Entry Model.Fs Model.FsExt Model.Transition Model.TransitionCheck
     Proof.EntryFacts Proof.FsFacts Proof.TransPrims Proof.TransFrames Proof.TransFuns
     Proof.TransEff Proof.TransitionC08 Proof.TransitionC08Top Proof.TransitionC08Check.
Import ListNotations.
Open Scope string_scope.
Open Scope list_scope.

(* ---------- node_eqb is reflexive ---------- *)
Lemma meta_eqb_refl : forall m, meta_eqb m m = true.
Proof. intros [a b c d e]. unfold meta_eqb. cbn. rewrite !N.eqb_refl. reflexivity. Qed.

Lemma nodes_eqb_refl : forall c, Forall (fun ny => node_eqb (snd ny) (snd ny) = true) c -> nodes_eqb c c = true.
Proof.
  induction c as [|[n y] t IH]; intro HF; [reflexivity|]. inversion HF as [|? ? Hy Ht]; subst.
  cbn [nodes_eqb]. rewrite String.eqb_refl. cbn in Hy. rewrite Hy, (IH Ht). reflexivity.
Qed.

Lemma node_eqb_refl : forall x, node_eqb x x = true.
Proof.
  induction x as [m c IH|m d|m t|m t] using node_nested_ind.
  - rewrite node_eqb_dir, meta_eqb_refl, (nodes_eqb_refl c IH). reflexivity.
  - cbn. rewrite meta_eqb_refl, String.eqb_refl. reflexivity.
  - cbn. rewrite meta_eqb_refl, String.eqb_refl. reflexivity.
  - cbn. rewrite meta_eqb_refl, N.eqb_refl. reflexivity.
Qed.

(* ---------- names a directory can list ---------- *)
Inductive tlisted : node -> Prop :=
| tl_dir : forall m c, (forall n y, In (n, y) c -> listed_name n = true /\ tlisted y) -> tlisted (NDir m c)
| tl_file : forall m d, tlisted (NFile m d)
| tl_link : forall m t, tlisted (NLink m t)
| tl_other : forall m t, tlisted (NOther m t).

Lemma tlisted_get : forall p x y, tlisted x -> get p x = Some y -> tlisted y.
Proof.
  induction p as [|n p IH]; intros x y Hx Hg.
  - cbn in Hg. injection Hg as <-. exact Hx.
  - cbn [get] in Hg. destruct x as [m c| | |]; try discriminate.
    destruct (nlookup n c) as [z|] eqn:L; [|discriminate].
    inversion Hx as [? ? Hc| | |]; subst.
    apply (IH z y); [apply (Hc n z); apply nlookup_some_in; exact L|exact Hg].
Qed.

Lemma name_valid_listed : forall n, name_valid n = true -> listed_name n = true.
Proof.
  intros n Hv. unfold name_valid in Hv. unfold listed_name.
  repeat (apply andb_true_iff in Hv; destruct Hv as [Hv ?]).
  apply andb_true_iff. split; assumption.
Qed.

Lemma in_nlookup_sorted : forall n y c,
  sorted_names (map fst c) = true -> In (n, y) c -> nlookup n c = Some y.
Proof.
  intros n y c. induction c as [|[m x] t IH]; intros Hs Hin; [destruct Hin|].
  cbn [nlookup]. cbn [map fst] in Hs. destruct Hin as [[= -> ->]|Hin].
  - rewrite String.eqb_refl. reflexivity.
  - assert (Hn : In n (map fst t)) by (apply in_map_iff; exists (n, y); split; [reflexivity|exact Hin]).
    destruct (String.eqb n m) eqn:E.
    + apply String.eqb_eq in E. subst m. exfalso. exact (sorted_names_head_notin _ _ Hs Hn).
    + apply IH; [eapply sorted_names_tail; exact Hs|exact Hin].
Qed.

Lemma expect_at_app : forall q e ec n e',
  expect_at e q = Some (EDir ec) -> lookup n ec = Some e' -> expect_at e (q ++ [n]) = Some e'.
Proof.
  induction q as [|k q IH]; intros e ec n e' He Hl.
  - cbn in He. injection He as ->. cbn. rewrite Hl. reflexivity.
  - cbn in He |- *. destruct e as [ec0| | | | |]; try discriminate.
    destruct (lookup k ec0) as [e1|]; [|discriminate]. eapply IH; eassumption.
Qed.

Lemma is_prefix_app_same : forall (a q1 q : path), is_prefix q1 q = true -> is_prefix (a ++ q1) (a ++ q) = true.
Proof.
  induction a as [|x a IH]; intros q1 q Hq; [exact Hq|]. cbn. rewrite String.eqb_refl. apply IH. exact Hq.
Qed.

Section ModelPasses.
  Variable norm : path -> string -> option string.
  Variable E : env.
  Variable rn : name.
  Variable ch : cache.
  Variable slm : slmode.
  Variable dfm ddm : N.
  Variable own : bool.
  Variable fixed : bool.
  Variable plan : list change.
  Variable fs0 : node.
  Variable stg : store.

  Hypothesis Hrn : rn <> ".".
  Hypothesis Hs : tsorted fs0.
  Hypothesis Hl : tlisted fs0.
  Hypothesis Hd : plan_disjoint plan.
  Hypothesis Hpp : plan_paths_ok plan.

  Let fin := final norm E rn ch slm dfm ddm own fixed fs0 stg plan.

  Lemma kept_of_guard : forall c q y,
    get (rn :: cpath c ++ q) fs0 = Some y ->
    get (rn :: cpath c ++ q) (tfs fin) = Some y ->
    problem_between (tprobs fin) (cpath c) q ->
    kept rn fs0 (tfs fin) (tprobs fin) (cpath c) (cpath c ++ q) = true.
  Proof.
    intros c q y Hg Hk (q1 & k & Hq & Hin). unfold kept. apply andb_true_iff. split.
    - unfold untouched. rewrite Hk, Hg. cbn. apply node_eqb_refl.
    - unfold reported. apply existsb_exists. exists (cpath c ++ q1, k). split; [exact Hin|].
      cbn [fst]. rewrite is_prefix_app. cbn. apply is_prefix_app_same. exact Hq.
  Qed.

  Lemma guard_entry_model : forall c e0, In c plan -> cold c = Some e0 ->
    forall e q0, expect_at e0 q0 = Some e -> wf_entry false e = true ->
      Forall (fun k => listed_name k = true) q0 ->
      guard_entry norm slm rn ch fs0 (tfs fin) (tprobs fin) (cpath c) (cpath c ++ q0) e = true.
  Proof.
    intros c e0 Hin CO e.
    induction e as [ec IH|x d|t| |msg|pc IH] using entry_nested_ind; intros q0 He Hw Hq.
    - (* a directory is expected *)
      rewrite guard_entry_dir.
      destruct (get (rn :: cpath c ++ q0) fs0) as [y|] eqn:Hg; [|reflexivity].
      destruct y as [m cs|m dd|m tt|m ty].
      + apply andb_true_iff. split.
        * (* unknown children *)
          unfold unknown_children_kept. apply forallb_forall. intros [n yc] Hinc. cbn [fst].
          destruct (lookup n ec) as [e'|] eqn:Ln; [reflexivity|].
          assert (tsorted (NDir m cs)) as Hsd by (eapply tsorted_get; eassumption).
          assert (tlisted (NDir m cs)) as Hld by (eapply tlisted_get; eassumption).
          apply tsorted_dir_inv in Hsd. destruct Hsd as [Hsc _].
          inversion Hld as [? ? Hlc| | |]; subst.
          pose proof (in_nlookup_sorted n yc cs Hsc Hinc) as Lc.
          destruct (c08_unknown_child_thm norm E rn ch slm dfm ddm own fixed plan fs0 stg c e0 q0 ec m cs n yc
                      Hrn Hs Hd Hpp Hq (proj1 (Hlc n yc Hinc)) Hin CO He Hg Lc Ln) as (K1 & _ & K3).
          rewrite <- app_assoc.
          apply (kept_of_guard c (q0 ++ [n]) yc).
          -- change (rn :: cpath c ++ q0 ++ [n]) with ((rn :: cpath c) ++ q0 ++ [n]).
             rewrite app_assoc, get_app. change ((rn :: cpath c) ++ q0) with (rn :: cpath c ++ q0).
             rewrite Hg. cbn. rewrite Lc. reflexivity.
          -- exact K1.
          -- exact K3.
        * (* the listed children *)
          apply wf_dir_inv in Hw. destruct Hw as [Hwl Hse].
          apply forallb_forall. intros [n e'] Hine. cbn [fst snd].
          pose proof (proj1 (wf_list_forall _ _) Hwl n e' Hine) as [Hnv Hwe].
          rewrite Forall_forall in IH. specialize (IH (n, e') Hine). cbn [snd] in IH.
          rewrite <- app_assoc. apply IH.
          -- eapply expect_at_app; [exact He|]. apply in_lookup_sorted; assumption.
          -- exact Hwe.
          -- apply Forall_app. split; [exact Hq|]. constructor; [|constructor].
             apply name_valid_listed. exact Hnv.
      + destruct (c08_guard_general norm E rn ch slm dfm ddm own fixed plan fs0 stg c e0 q0 (NFile m dd)
                    Hrn Hs Hd Hpp Hq Hin CO Hg) as [K1 K2].
        * destruct (unauth_of_expect norm ch slm (NFile m dd) q0 (cpath c) e0 (EDir ec) He) as [U _];
            [reflexivity|exact U].
        * destruct (unauth_of_expect norm ch slm (NFile m dd) q0 (cpath c) e0 (EDir ec) He) as [_ V];
            [reflexivity|exact V].
        * eapply kept_of_guard; eassumption.
      + destruct (c08_guard_general norm E rn ch slm dfm ddm own fixed plan fs0 stg c e0 q0 (NLink m tt)
                    Hrn Hs Hd Hpp Hq Hin CO Hg) as [K1 K2].
        * destruct (unauth_of_expect norm ch slm (NLink m tt) q0 (cpath c) e0 (EDir ec) He) as [U _];
            [reflexivity|exact U].
        * destruct (unauth_of_expect norm ch slm (NLink m tt) q0 (cpath c) e0 (EDir ec) He) as [_ V];
            [reflexivity|exact V].
        * eapply kept_of_guard; eassumption.
      + destruct (c08_guard_general norm E rn ch slm dfm ddm own fixed plan fs0 stg c e0 q0 (NOther m ty)
                    Hrn Hs Hd Hpp Hq Hin CO Hg) as [K1 K2].
        * destruct (unauth_of_expect norm ch slm (NOther m ty) q0 (cpath c) e0 (EDir ec) He) as [U _];
            [reflexivity|exact U].
        * destruct (unauth_of_expect norm ch slm (NOther m ty) q0 (cpath c) e0 (EDir ec) He) as [_ V];
            [reflexivity|exact V].
        * eapply kept_of_guard; eassumption.
    - (* a file is expected *)
      cbn [guard_entry]. destruct (get (rn :: cpath c ++ q0) fs0) as [y|] eqn:Hg; [|reflexivity].
      destruct (file_ok ch y (cpath c ++ q0) d) eqn:Fo; [reflexivity|].
      destruct (c08_file_guard_thm norm E rn ch slm dfm ddm own fixed plan fs0 stg c e0 q0 x d y
                  Hrn Hs Hd Hpp Hq Hin CO He Hg Fo) as [K1 K2].
      eapply kept_of_guard; eassumption.
    - (* a link is expected *)
      cbn [guard_entry]. destruct (get (rn :: cpath c ++ q0) fs0) as [y|] eqn:Hg; [|reflexivity].
      destruct (link_ok norm slm y (cpath c ++ q0) t) eqn:Lo; [reflexivity|].
      destruct (c08_link_guard_thm norm E rn ch slm dfm ddm own fixed plan fs0 stg c e0 q0 t y
                  Hrn Hs Hd Hpp Hq Hin CO He Hg Lo) as [K1 K2].
      eapply kept_of_guard; eassumption.
    - cbn [guard_entry]. destruct (get (rn :: cpath c ++ q0) fs0); reflexivity.
    - cbn [guard_entry]. destruct (get (rn :: cpath c ++ q0) fs0); reflexivity.
    - cbn [guard_entry]. destruct (get (rn :: cpath c ++ q0) fs0); reflexivity.
  Qed.

  (* the old entries of the plan are valid entries (Entry.EnsureValid) *)
  Hypothesis Hwf : Forall (fun c => wf false (cold c) = true) plan.

  Theorem c08_model_passes_thm :
    check_c08 norm slm rn ch fs0 (tfs fin) (tprobs fin) plan = true.
  Proof.
    unfold check_c08. apply forallb_forall. intros c Hin.
    destruct (cold c) as [e0|] eqn:CO; [|reflexivity].
    rewrite Forall_forall in Hwf. specialize (Hwf c Hin). rewrite CO in Hwf. cbn in Hwf.
    pose proof (guard_entry_model c e0 Hin CO e0 [] eq_refl Hwf (Forall_nil _)) as G.
    rewrite app_nil_r in G. exact G.
  Qed.
End ModelPasses.
