(* C08: the property theorems in closed form. *)
From Coq Require Import List Bool Arith String Ascii NArith Lia.
From Mv Require Import Model.Entry Model.Fs Model.FsExt Model.Transition Model.TransitionCheck
     Proof.EntryFacts Proof.FsFacts Proof.TransPrims Proof.TransFrames Proof.TransFuns
     Proof.TransEff Proof.TransitionC08.
Import ListNotations.
Open Scope string_scope.
Open Scope list_scope.

(* what a guard demands of the node y for the expectation e at path p *)
Definition mismatch (norm : path -> string -> option string) (ch : cache) (slm : slmode)
           (y : node) (p : path) (e : entry) : Prop :=
  match e with
  | EFile _ d => file_ok ch y p d = false
  | ELink t => link_ok norm slm y p t = false
  | EDir _ => is_dir y = false
  | _ => True
  end.

Lemma unauth_of_expect : forall norm ch slm y q p e e',
  expect_at e q = Some e' -> mismatch norm ch slm y (p ++ q) e' ->
  unauth norm ch slm y p e q /\ visits e q.
Proof.
  intros norm ch slm y q. induction q as [|k q IH]; intros p e e' He Hm.
  - cbn in He. injection He as <-. rewrite app_nil_r in Hm. split; [|exact I].
    destruct e; exact Hm.
  - cbn in He. destruct e as [ec| | | | |]; try discriminate.
    destruct (lookup k ec) as [e1|] eqn:L; [|discriminate].
    cbn [unauth visits]. rewrite L. apply (IH (p ++ [k]) e1 e' He).
    rewrite <- app_assoc. exact Hm.
Qed.

Lemma unauth_of_unknown : forall norm ch slm y q p e ec n,
  expect_at e q = Some (EDir ec) -> lookup n ec = None ->
  unauth norm ch slm y p e (q ++ [n]) /\ visits e (q ++ [n]).
Proof.
  intros norm ch slm y q. induction q as [|k q IH]; intros p e ec n He Hn.
  - cbn in He. injection He as ->. cbn. rewrite Hn. split; [exact I|reflexivity].
  - cbn in He. destruct e as [ec0| | | | |]; try discriminate.
    destruct (lookup k ec0) as [e1|] eqn:L; [|discriminate].
    change ((k :: q) ++ [n]) with (k :: (q ++ [n])). cbn [unauth visits]. rewrite L.
    apply (IH (p ++ [k]) e1 ec n He Hn).
Qed.

(* two prefixes of one path are comparable *)
Lemma prefixes_comparable : forall (a b l : path),
  is_prefix a l = true -> is_prefix b l = true -> is_prefix a b = true \/ is_prefix b a = true.
Proof.
  induction a as [|x a IH]; intros b l Ha Hb; [left; reflexivity|].
  destruct b as [|y0 b]; [right; reflexivity|].
  destruct l as [|z l]; [discriminate|]. cbn in Ha, Hb |- *.
  apply andb_true_iff in Ha. destruct Ha as [E1 Ha]. apply andb_true_iff in Hb. destruct Hb as [E2 Hb].
  apply String.eqb_eq in E1. apply String.eqb_eq in E2. subst. rewrite String.eqb_refl. cbn.
  eapply IH; eassumption.
Qed.

Lemma is_prefix_antisym : forall a b, is_prefix a b = true -> is_prefix b a = true -> a = b.
Proof.
  induction a as [|x a IH]; intros [|y0 b] H1 H2; try reflexivity; try discriminate.
  cbn in H1, H2. apply andb_true_iff in H1. destruct H1 as [E1 H1].
  apply andb_true_iff in H2. destruct H2 as [_ H2]. apply String.eqb_eq in E1. subst.
  f_equal. apply IH; assumption.
Qed.

(* every transition of the plan respects the protected path pp = cpath c ++ q,
   given that c is the only transition whose path is comparable with pp's
   prefix cpath c *)
Lemma items_ok_of_disjoint : forall norm ch slm y plan c e0 q,
  plan_disjoint plan -> Forall (fun c => path_ok (cpath c)) plan -> In c plan ->
  cold c = Some e0 ->
  unauth norm ch slm y (cpath c) e0 q ->
  Forall (item_ok norm ch slm y (cpath c ++ q)) plan.
Proof.
  intros norm ch slm y plan c e0 q Hd Hp Hin CO HU.
  apply Forall_forall. intros c' Hin'. rewrite Forall_forall in Hp.
  split; [apply Hp; exact Hin'|]. split.
  - (* placed_ok *)
    destruct (is_prefix (cpath c') (cpath c ++ q)) eqn:H1; [left; exact H1|].
    right. right. destruct (is_prefix (cpath c ++ q) (cpath c')) eqn:H2; [|reflexivity].
    exfalso. assert (is_prefix (cpath c) (cpath c') = true) as H3
      by (eapply is_prefix_trans; [apply is_prefix_app|exact H2]).
    pose proof (Hd c c' Hin Hin' H3) as <-.
    (* then cpath c ++ q is a prefix of cpath c: so cpath c is a prefix of it, contradiction with H1 *)
    rewrite is_prefix_app in H1. discriminate.
  - intros e1 q' CO' Hq'.
    assert (is_prefix (cpath c') (cpath c ++ q) = true) as H1 by (rewrite Hq'; apply is_prefix_app).
    destruct (prefixes_comparable (cpath c) (cpath c') (cpath c ++ q) (is_prefix_app _ _) H1) as [H3|H3].
    + pose proof (Hd c c' Hin Hin' H3) as <-. apply app_inv_head in Hq'. subst q'.
      rewrite CO in CO'. injection CO' as <-. exact HU.
    + pose proof (Hd c' c Hin' Hin H3) as ->. apply app_inv_head in Hq'. subst q'.
      rewrite CO in CO'. injection CO' as <-. exact HU.
Qed.

Section Top.
  Variable norm : path -> string -> option string.
  Variable E : env.
  Variable rn : name.
  Variable ch : cache.
  Variable slm : slmode.
  Variable dfm ddm : N.
  Variable own : bool.
  Variable fixed : bool.

  Definition final (fs0 : node) (stg : store) (plan : list change) : tstate :=
    fst (transition norm E rn ch slm dfm ddm own fixed fs0 stg plan).

  Definition plan_paths_ok (plan : list change) : Prop :=
    Forall (fun c => Forall (fun k => listed_name k = true) (cpath c)) plan.

  Lemma listed_path_ok : forall p, Forall (fun k => listed_name k = true) p -> path_ok p.
  Proof.
    intros p H K0. rewrite Forall_forall in H. specialize (H "." K0). discriminate.
  Qed.

  Lemma plan_paths_path_ok : forall plan, plan_paths_ok plan -> Forall (fun c => path_ok (cpath c)) plan.
  Proof.
    intros plan H. eapply Forall_impl; [|exact H]. intros c Hc. apply listed_path_ok. exact Hc.
  Qed.

  (* the general guard: the node y at cpath c ++ q, for which the old entry of
     c (the only transition that can reach it) holds no matching expectation,
     is still there afterwards, and a problem was recorded on the way to it *)
  Theorem c08_guard_general : forall plan fs0 stg c e0 q y,
    rn <> "." -> tsorted fs0 -> plan_disjoint plan -> plan_paths_ok plan ->
    Forall (fun k => listed_name k = true) q ->
    In c plan -> cold c = Some e0 ->
    get (rn :: cpath c ++ q) fs0 = Some y ->
    unauth norm ch slm y (cpath c) e0 q -> visits e0 q ->
    get (rn :: cpath c ++ q) (tfs (final fs0 stg plan)) = Some y /\
    problem_between (tprobs (final fs0 stg plan)) (cpath c) q.
  Proof.
    intros plan fs0 stg c e0 q y Hrn Hs Hd Hpp Hq Hin CO Hg HU HV.
    unfold final, transition.
    destruct (trans_loop norm E rn ch slm dfm ddm own fixed plan (init_state fs0 stg)) as [s' rs] eqn:TL.
    cbn [fst].
    assert (Forall (item_ok norm ch slm y (cpath c ++ q)) plan) as Hit.
    { eapply items_ok_of_disjoint; try eassumption. apply plan_paths_path_ok. exact Hpp. }
    split.
    - exact (trans_loop_keeps norm E rn ch slm dfm ddm own fixed Hrn (rn :: cpath c ++ q) y (cpath c ++ q)
               eq_refl plan _ _ _ TL Hit Hs Hg).
    - pose proof (trans_loop_reports norm E rn ch slm dfm ddm own fixed Hrn (rn :: cpath c ++ q) y
                    (cpath c ++ q) eq_refl plan c e0 q _ _ _ TL Hit Hs Hg Hin CO eq_refl HV Hq)
        as (q1 & k & H1 & H2).
      exists q1, k. split; assumption.
  Qed.

  (* C08, files: the plan expects the file with digest d at p; what is there is
     not that file as the scan saw it (any of type, permissions, size,
     modification time, file identity differs, or the cached digest is not d) *)
  Theorem c08_file_guard_thm : forall plan fs0 stg c e0 q x d y,
    rn <> "." -> tsorted fs0 -> plan_disjoint plan -> plan_paths_ok plan ->
    Forall (fun k => listed_name k = true) q ->
    In c plan -> cold c = Some e0 -> expect_at e0 q = Some (EFile x d) ->
    get (rn :: cpath c ++ q) fs0 = Some y ->
    file_ok ch y (cpath c ++ q) d = false ->
    get (rn :: cpath c ++ q) (tfs (final fs0 stg plan)) = Some y /\
    problem_between (tprobs (final fs0 stg plan)) (cpath c) q.
  Proof.
    intros plan fs0 stg c e0 q x d y Hrn Hs Hd Hpp Hq Hin CO He Hg Hf.
    destruct (unauth_of_expect norm ch slm y q (cpath c) e0 (EFile x d) He Hf) as [HU HV].
    eapply c08_guard_general; eassumption.
  Qed.

  (* C08, symbolic links *)
  Theorem c08_link_guard_thm : forall plan fs0 stg c e0 q t y,
    rn <> "." -> tsorted fs0 -> plan_disjoint plan -> plan_paths_ok plan ->
    Forall (fun k => listed_name k = true) q ->
    In c plan -> cold c = Some e0 -> expect_at e0 q = Some (ELink t) ->
    get (rn :: cpath c ++ q) fs0 = Some y ->
    link_ok norm slm y (cpath c ++ q) t = false ->
    get (rn :: cpath c ++ q) (tfs (final fs0 stg plan)) = Some y /\
    problem_between (tprobs (final fs0 stg plan)) (cpath c) q.
  Proof.
    intros plan fs0 stg c e0 q t y Hrn Hs Hd Hpp Hq Hin CO He Hg Hf.
    destruct (unauth_of_expect norm ch slm y q (cpath c) e0 (ELink t) He Hf) as [HU HV].
    eapply c08_guard_general; eassumption.
  Qed.

  (* C08, directories: a name on disk that the expected directory does not list *)
  Theorem c08_unknown_child_thm : forall plan fs0 stg c e0 q ec m cs n y,
    rn <> "." -> tsorted fs0 -> plan_disjoint plan -> plan_paths_ok plan ->
    Forall (fun k => listed_name k = true) q -> listed_name n = true ->
    In c plan -> cold c = Some e0 -> expect_at e0 q = Some (EDir ec) ->
    get (rn :: cpath c ++ q) fs0 = Some (NDir m cs) ->
    nlookup n cs = Some y -> lookup n ec = None ->
    (* the unknown child is untouched, hence its parent is still a directory *)
    get (rn :: cpath c ++ q ++ [n]) (tfs (final fs0 stg plan)) = Some y /\
    (exists m' cs', get (rn :: cpath c ++ q) (tfs (final fs0 stg plan)) = Some (NDir m' cs')) /\
    problem_between (tprobs (final fs0 stg plan)) (cpath c) (q ++ [n]).
  Proof.
    intros plan fs0 stg c e0 q ec m cs n y Hrn Hs Hd Hpp Hq Hn Hin CO He Hg Ln Le.
    destruct (unauth_of_unknown norm ch slm y q (cpath c) e0 ec n He Le) as [HU HV].
    assert (get (rn :: cpath c ++ q ++ [n]) fs0 = Some y) as Hg'.
    { change (rn :: cpath c ++ q ++ [n]) with ((rn :: cpath c) ++ q ++ [n]).
      rewrite app_assoc. rewrite get_app.
      change ((rn :: cpath c) ++ q) with (rn :: cpath c ++ q). rewrite Hg. cbn. rewrite Ln. reflexivity. }
    assert (Forall (fun k => listed_name k = true) (q ++ [n])) as Hq'.
    { apply Forall_app. split; [exact Hq|]. constructor; [exact Hn|constructor]. }
    destruct (c08_guard_general plan fs0 stg c e0 (q ++ [n]) y Hrn Hs Hd Hpp Hq' Hin CO Hg' HU HV)
      as [K1 K2].
    split; [exact K1|]. split; [|exact K2].
    change (rn :: cpath c ++ q ++ [n]) with ((rn :: cpath c) ++ q ++ [n]) in K1.
    rewrite app_assoc, get_app in K1.
    change ((rn :: cpath c) ++ q) with (rn :: cpath c ++ q) in K1.
    destruct (get (rn :: cpath c ++ q) (tfs (final fs0 stg plan))) as [[m' cs'| | |]|];
      try discriminate. exists m', cs'. reflexivity.
  Qed.

  (* C03 on disk: whatever sits at the path of a planned creation (the plan's
     old entry there is "nothing") is still there afterwards *)
  Theorem c03_target_kept_thm : forall plan fs0 stg c y,
    rn <> "." -> tsorted fs0 -> plan_disjoint plan -> plan_paths_ok plan ->
    In c plan -> cold c = None ->
    get (rn :: cpath c) fs0 = Some y ->
    get (rn :: cpath c) (tfs (final fs0 stg plan)) = Some y.
  Proof.
    intros plan fs0 stg c y Hrn Hs Hd Hpp Hin CO Hg.
    unfold final, transition.
    destruct (trans_loop norm E rn ch slm dfm ddm own fixed plan (init_state fs0 stg)) as [s' rs] eqn:TL.
    cbn [fst].
    assert (Forall (item_ok norm ch slm y (cpath c)) plan) as Hit.
    { pose proof (plan_paths_path_ok _ Hpp) as Hp. rewrite Forall_forall in Hp.
      apply Forall_forall. intros c' Hin'. split; [apply Hp; exact Hin'|]. split.
      - destruct (is_prefix (cpath c') (cpath c)) eqn:H1; [left; exact H1|].
        right. right. destruct (is_prefix (cpath c) (cpath c')) eqn:H2; [|reflexivity].
        exfalso. pose proof (Hd c c' Hin Hin' H2) as <-. rewrite is_prefix_refl in H1. discriminate.
      - intros e1 q' CO' Hq'. exfalso.
        assert (is_prefix (cpath c') (cpath c) = true) as H1 by (rewrite Hq'; apply is_prefix_app).
        pose proof (Hd c' c Hin' Hin H1) as ->. congruence. }
    exact (trans_loop_keeps norm E rn ch slm dfm ddm own fixed Hrn (rn :: cpath c) y (cpath c)
             eq_refl plan _ _ _ TL Hit Hs Hg).
  Qed.

End Top.
