(* C09: the results of a transition describe the disk. *)
From Coq Require Import List Bool Arith String Ascii NArith Lia.
From Mv Require Import Model.Entry Model.Fs Model.FsExt Model.Transition Model.TransitionCheck
     Proof.EntryFacts Proof.FsFacts Proof.TransPrims Proof.TransFrames Proof.TransFuns
     Proof.TransEff.
Import ListNotations.
Open Scope string_scope.
Open Scope list_scope.

(* ================================================================== *)
(* c09_results_len, c09_cancel                                          *)
(* ================================================================== *)
Section Easy.
  Variable norm : path -> string -> option string.
  Variable E : env.
  Variable rn : name.
  Variable ch : cache.
  Variable slm : slmode.
  Variable dfm ddm : N.
  Variable own : bool.
  Variable fixed : bool.

  Lemma trans_loop_length : forall plan s s' rs,
    trans_loop norm E rn ch slm dfm ddm own fixed plan s = (s', rs) -> List.length rs = List.length plan.
  Proof.
    induction plan as [|c rest IH]; intros s s' rs H; cbn [trans_loop] in H.
    - injection H as _ <-. reflexivity.
    - destruct (trans_one norm E rn ch slm dfm ddm own fixed c s) as [s1 r].
      destruct (trans_loop norm E rn ch slm dfm ddm own fixed rest s1) as [s2 rs2] eqn:TL.
      injection H as _ <-. cbn. f_equal. eapply IH. exact TL.
  Qed.

  (* once the loop head sees the cancellation, nothing more is issued: every
     remaining result is the old entry, the tree and the staging area stay as
     they are, and each remaining transition gets a "cancelled" problem *)
  Lemma trans_loop_cancelled : forall plan s s' rs,
    trans_loop norm E rn ch slm dfm ddm own fixed plan s = (s', rs) -> cancelled E s = true ->
    rs = map cold plan /\ tx s' = tx s /\ tmiss s' = tmiss s /\ pmono s s' /\
    (forall c, In c plan -> In (cpath c, PK_CANCELLED) (tprobs s')).
  Proof.
    induction plan as [|c rest IH]; intros s s' rs H Hc; cbn [trans_loop] in H.
    - injection H as <- <-. repeat split; [apply pmono_refl|intros c []].
    - unfold trans_one in H. rewrite Hc in H.
      destruct (trans_loop norm E rn ch slm dfm ddm own fixed rest (problem_at (cpath c) PK_CANCELLED s))
        as [s2 rs2] eqn:TL.
      injection H as <- <-.
      destruct (IH _ _ _ TL Hc) as (R & T & Mi & Pm & Pb).
      split; [cbn; f_equal; exact R|]. split; [exact T|]. split; [exact Mi|]. split.
      + eapply pmono_trans; [apply problem_at_pmono|exact Pm].
      + intros c' [<-|Hin]; [|apply Pb; exact Hin]. apply Pm. apply problem_at_in.
  Qed.
End Easy.

(* ================================================================== *)
(* c09_missing                                                          *)
(* ================================================================== *)
Section Missing.
  Variable E : env.
  Variable dfm : N.
  Variable own : bool.
  Variable fixed : bool.

  Definition fault_free : Prop := forall k e, oracle E k <> Fail e.

  Lemma quiet_ok : fault_free -> forall k, oracle (quiet E) k = Ok.
  Proof.
    intros HF k. unfold quiet. cbn. destruct (oracle E k) eqn:O; try reflexivity.
    exfalso. exact (HF k e O).
  Qed.

  (* a staged file that is missing (nothing at the provided path): when no
     primitive is failed by injection, findAndMoveStagedFileIntoPlace reports
     an error, sets providerMissingFiles and leaves the tree exactly as it was
     -- whatever the cancellation point and wherever the staging directory is *)
  Lemma find_and_move_missing : forall p target h n rp s s' r,
    find_and_move E dfm own p target h n rp s = (s', r) ->
    sl_obj (sget (p, entry_digest target) (tstg s)) = None ->
    N.land (file_mode dfm target) 511 <> 0%N \/ own = true ->
    fault_free ->
    (forall m c, dir_at h (tfs s) = Some (m, c) -> True) ->
    is_ok r = false /\ tfs s' = tfs s /\ tmiss s' = true.
  Proof.
    intros p target h n rp s s' r H Hmiss Hcall HF _.
    unfold find_and_move, note_missing in H.
    set (k := (p, entry_digest target)) in *. set (fm := file_mode dfm target) in *.
    (* SetPermissionsByPath issues at least one call, and it finds nothing *)
    destruct (run (stage_set_permissions (quiet E) k own fm) s) as [s1 r1] eqn:SP.
    assert (r1 = RErr ENOENT /\ tfs s1 = tfs s) as [-> T1].
    { pose proof (stage_set_permissions_spec _ _ _ _ _ _ _ SP) as (_ & T & _). split; [|exact T].
      apply run_tx in SP. unfold stage_set_permissions in SP. unfold tstg in Hmiss.
      destruct own.
      - unfold stage_chown at 1 in SP. unfold xprim in SP. cbn [negb] in SP.
        rewrite (quiet_ok HF) in SP. fold k in SP. rewrite Hmiss in SP.
        injection SP as _ <-. reflexivity.
      - destruct Hcall as [Hz|Hz]; [|discriminate]. apply N.eqb_neq in Hz. rewrite Hz in SP.
        unfold stage_chmod, xprim in SP. cbn [negb] in SP.
        rewrite (quiet_ok HF) in SP. rewrite Hmiss in SP. injection SP as _ <-. reflexivity. }
    cbn [is_not_exist] in H. injection H as <- <-.
    split; [reflexivity|]. split; [exact T1|reflexivity].
  Qed.
End Missing.

(* ================================================================== *)
(* describing the disk                                                  *)
(* ================================================================== *)
Section Desc.
  Variable H : string -> string.
  Variable norm : path -> string -> option string.
  Variable nameok : name -> bool.
  Variable slm : slmode.
  Variable rn : name.

  Definition dsc (x : node) (p : path) : oentry :=
    odescribe H norm nameok slm p (get (rn :: p) x).

  (* the staged objects are regular files carrying the content their key names *)
  Definition store_ok (st : store) : Prop :=
    forall p d o, sl_obj (sget (p, d) st) = Some o -> exists mode data, o = SFile mode data /\ H data = d.

  Lemma store_ok_le : forall st st', store_ok st -> store_le st st' -> store_ok st'.
  Proof.
    intros st st' Hs Hl p d o' Ho'. destruct (Hl _ _ Ho') as (o & Ho & Sd).
    destruct (Hs p d o Ho) as (mode & data & -> & Hd).
    destruct o' as [mode' data'|mode']; cbn in Sd; [|contradiction]. subst data'.
    exists mode', data. split; [reflexivity|exact Hd].
  Qed.

  (* the default file mode: no executability bits, and marking it executable
     for its readers yields some (EnsureDefaultFileModeValid in portable
     permission mode, for a mode that grants some read permission) *)
  Definition modes_ok (dfm : N) : Prop :=
    any_exec (N.land dfm 511) = false /\ any_exec (N.land (mark_exec dfm) 511) = true /\
    N.land dfm 511 <> 0%N.

  Lemma modes_ok_nonzero : forall dfm (x : bool), modes_ok dfm ->
    N.land (if x then mark_exec dfm else dfm) 511 <> 0%N /\
    any_exec (N.land (if x then mark_exec dfm else dfm) 511) = x.
  Proof.
    intros dfm x (A & B & C). destruct x; split; try assumption.
    intro K. rewrite K in B. discriminate.
  Qed.

  Lemma tmpname_skip : forall k, skip nameok k = false -> ~ tmpname k.
  Proof.
    intros k Hk Ht. unfold skip in Hk. unfold tmpname in Ht. rewrite Ht in Hk. discriminate.
  Qed.

  (* a frame for the transition at pi leaves the description at a disjoint
     path pj alone *)
  Lemma fr_other_path : forall h n x x' pi pj,
    fr h n x x' -> h ++ [n] = rn :: pi ->
    is_prefix pi pj = false -> is_prefix pj pi = false ->
    Forall (fun k => skip nameok k = false) pj ->
    get (rn :: pj) x' = get (rn :: pj) x.
  Proof.
    intros h n x x' pi pj (A1 & A2 & _) Hhn H1 H2 Hnames.
    destruct (is_prefix h (rn :: pj)) eqn:HP.
    - apply is_prefix_iff in HP. destruct HP as [q Hq].
      destruct q as [|k q].
      + (* rn :: pj = h: then pj is a prefix of pi *)
        exfalso. rewrite app_nil_r in Hq. rewrite <- Hq in Hhn. injection Hhn as Hhn.
        rewrite <- Hhn, is_prefix_app in H2. discriminate.
      + assert (k <> n) as Hk.
        { intro K0. subst k. exfalso.
          assert (is_prefix (rn :: pi) (rn :: pj) = true) as Q.
          { rewrite <- Hhn, Hq. change (n :: q) with ([n] ++ q). rewrite app_assoc. apply is_prefix_app. }
          cbn in Q. rewrite String.eqb_refl in Q. cbn in Q. congruence. }
        rewrite Hq. apply A1; [exact Hk|]. right.
        (* k is a component of pj *)
        destruct h as [|a h'].
        * exfalso. cbn in Hhn. injection Hhn as _ Hpi. subst pi. cbn in H1. discriminate.
        * cbn in Hq. injection Hq as _ Hq. apply tmpname_skip.
          rewrite Forall_forall in Hnames. apply Hnames. rewrite Hq. apply in_or_app. right. left. reflexivity.
    - apply A2; [exact HP|].
      destruct (is_prefix (rn :: pj) h) eqn:HQ; [|reflexivity]. exfalso.
      assert (is_prefix (rn :: pj) (rn :: pi) = true) as Q.
      { rewrite <- Hhn. eapply is_prefix_trans; [exact HQ|apply is_prefix_app]. }
      cbn in Q. rewrite String.eqb_refl in Q. cbn in Q. congruence.
  Qed.

End Desc.

(* ================================================================== *)
(* exactness for files and symbolic links                               *)
(* ================================================================== *)
Section Exact.
  Variable H : string -> string.
  Variable norm : path -> string -> option string.
  Variable nameok : name -> bool.
  Variable slm : slmode.
  Variable E : env.
  Variable rn : name.
  Variable ch : cache.
  Variable dfm ddm : N.
  Variable own : bool.
  Variable fixed : bool.
  Hypothesis Hmodes : modes_ok dfm.
  Hypothesis rn_ok : rn <> ".".

  Notation dsq := (dsc H norm nameok slm rn).
  Notation sok := (store_ok H).

  Lemma dsc_eq : forall x x' p, get (rn :: p) x' = get (rn :: p) x -> dsq x' p = dsq x p.
  Proof. intros x x' p Hg. unfold dsc. rewrite Hg. reflexivity. Qed.

  Lemma removed_if_dsc : forall h n p s s' ok V,
    removed_if h n s s' ok V -> h ++ [n] = rn :: p -> tsorted (tfs s) ->
    dsq (tfs s') p = if ok then None else dsq (tfs s) p.
  Proof.
    intros h n p s s' ok V (_ & _ & [[-> T]|(-> & m & c & y & D & Ly & _ & _ & T)]) Hhn Hs.
    - rewrite T. reflexivity.
    - unfold dsc. rewrite <- Hhn, T, (repl_get_under h _ (tfs s) m c [n] D). cbn [get].
      rewrite nlookup_nset_none; [reflexivity|].
      pose proof (dir_at_sorted _ _ _ _ Hs D) as Hd. apply tsorted_dir_inv in Hd. apply Hd.
  Qed.

  Lemma find_and_move_dsc : forall p x d h n rp s s' r,
    find_and_move E dfm own p (EFile x d) h n rp s = (s', r) -> h ++ [n] = rn :: p ->
    sok (tstg s) -> skip nameok n = false ->
    dsq (tfs s') p = if is_ok r then Some (EFile x d) else dsq (tfs s) p.
  Proof.
    intros p x d h n rp s s' r Hf Hhn Hst Hn. apply find_and_move_spec in Hf.
    destruct Hf as [(_ & _ & _ & _ & Un & Pl) _].
    destruct (is_ok r) eqn:Ok.
    - destruct (Pl eq_refl) as (o & y & Ho & Gy & Hp). cbn [entry_digest] in Ho.
      destruct (Hst _ _ _ Ho) as (mode & data & -> & Hd). cbn in Hp.
      destruct Hp as (mt & -> & Hm). unfold dsc. rewrite <- Hhn, Gy. cbn [odescribe describe].
      destruct (modes_ok_nonzero dfm x Hmodes) as [Z A]. unfold file_mode in Hm. cbn [entry_exec] in Hm.
      rewrite (Hm Z), A, Hd. reflexivity.
    - apply dsc_eq. rewrite <- Hhn. apply (Un eq_refl). right. apply tmpname_skip with (nameok := nameok). exact Hn.
  Qed.

  Lemma symlink_name_ok : forall E0 h n t s s' a,
    run (liftF (symlink E0 h n t)) s = (s', ROk a) -> prim_name_ok n = true.
  Proof.
    intros E0 h n t s s' a Hr. apply run_tx in Hr. unfold liftF, symlink, prim in Hr.
    destruct (prim_name_ok n); [reflexivity|]. cbn in Hr. discriminate.
  Qed.

  Lemma create_link_dsc : forall h n p t s s' r,
    create_link norm E slm own fixed h n p (ELink t) s = (s', r) -> h ++ [n] = rn :: p ->
    fixed = true \/ own = false ->
    dsq (tfs s') p = if is_ok r then Some (ELink t) else dsq (tfs s) p.
  Proof.
    intros h n p t s s' r Hc Hhn Hown. unfold create_link in Hc. cbn [entry_target] in Hc.
    destruct (slmode_eqb slm SLIgnore) eqn:SI; [injection Hc as <- <-; reflexivity|].
    destruct (slmode_eqb slm SLPortable && negb match norm p t with
                                                | Some t' => (t' =? t)%string
                                                | None => false
                                                end) eqn:SPo; [injection Hc as <- <-; reflexivity|].
    unfold tbind in Hc.
    destruct (run (liftF (symlink (quiet E) h n t)) s) as [s1 r1] eqn:SL.
    pose proof SL as SL0. apply symlink_spec in SL.
    destruct SL as (_ & _ & [[Hok T]|(Hok & m & c & c' & D & (Ln & Ht & ->) & T)]).
    - destruct r1 as [[]|e1|]; [discriminate| |]; injection Hc as <- <-; cbn; rewrite T; reflexivity.
    - destruct r1 as [[]|e1|]; try discriminate.
      pose proof (symlink_name_ok _ _ _ _ _ _ _ SL0) as Hpn.
      (* SetPermissions on a link touches nothing in the tree; with no owner it
         issues no call at all, and the repaired code reports success anyway *)
      destruct (run (liftF (set_permissions (quiet E) h n own 0)) s1) as [s2 r2] eqn:SP.
      assert (tfs s2 = tfs s1) as T2.
      { apply set_permissions_spec in SP.
        destruct SP as (_ & _ & [[_ T2]|[(_ & _ & T2)|(_ & Z & _)]]); try exact T2.
        exfalso. apply Z. reflexivity. }
      assert (tfs s' = tfs s1 /\ is_ok r = true) as [T' Hr].
      { destruct r2 as [[]|e2|].
        - injection Hc as <- <-. split; [exact T2|reflexivity].
        - destruct Hown as [->| ->].
          + injection Hc as <- <-. split; [exact T2|reflexivity].
          + exfalso. unfold run, liftF, set_permissions in SP. rewrite Hpn in SP. cbn in SP.
            destruct s1 as [[x1 c1 g1] pr1 mi1]. cbn in SP. discriminate.
        - destruct Hown as [->| ->].
          + injection Hc as <- <-. split; [exact T2|reflexivity].
          + exfalso. unfold run, liftF, set_permissions in SP. rewrite Hpn in SP. cbn in SP.
            destruct s1 as [[x1 c1 g1] pr1 mi1]. cbn in SP. discriminate. }
      rewrite Hr. unfold dsc. rewrite <- Hhn, T', T, (repl_get_under h _ (tfs s) m c [n] D).
      cbn [get]. rewrite nlookup_nset_some. cbn [odescribe describe].
      destruct slm; [discriminate| |].
      + cbn in SPo. destruct (norm p t) as [t'|]; [|discriminate]. cbn in SPo.
        apply negb_false_iff in SPo. apply String.eqb_eq in SPo. subst t'. reflexivity.
      + destruct (String.eqb t "") eqn:Et; [apply String.eqb_eq in Et; contradiction|reflexivity].
  Qed.

  (* what the description of a regular file says about the node *)
  Lemma dsc_file_inv : forall x p xo d,
    dsq x p = Some (EFile xo d) ->
    exists m data, get (rn :: p) x = Some (NFile m data) /\ any_exec (m_mode m) = xo /\ H data = d.
  Proof.
    intros x p xo d Hd. unfold dsc in Hd. destruct (get (rn :: p) x) as [[m c|m data|m t|m t]|]; cbn in Hd.
    - discriminate.
    - injection Hd as <- <-. exists m, data. repeat split.
    - destruct slm; [discriminate| |].
      + destruct (norm p t); discriminate.
      + destruct (String.eqb t ""); discriminate.
    - discriminate.
    - discriminate.
  Qed.

  Lemma swap_dsc : forall p xo dgo xn dgn s s' r,
    swap_file E rn ch dfm own p (EFile xo dgo) (EFile xn dgn) s = (s', r) -> path_ok p ->
    tsorted (tfs s) -> sok (tstg s) -> skip nameok (lof rn p) = false ->
    dsq (tfs s) p = Some (EFile xo dgo) ->
    dsq (tfs s') p = if is_ok r then Some (EFile xn dgn) else Some (EFile xo dgo).
  Proof.
    intros p xo dgo xn dgn s s' r Hsw Hp Hs Hst Hn Hpre. unfold swap_file, tbind in Hsw.
    destruct (walk E rn p true s) as [s1 r1] eqn:W.
    destruct (walk_ro _ _ _ _ _ _ _ W) as (_ & T1 & G1).
    destruct r1 as [[h n]|e1|];
      [|injection Hsw as <- <-; cbn; rewrite T1; exact Hpre|injection Hsw as <- <-; cbn; rewrite T1; exact Hpre].
    destruct (walk_hof _ _ _ _ _ _ _ _ W Hp) as [-> ->].
    destruct (ensure_expected_file E ch (hof rn p) (lof rn p) p (EFile xo dgo) s1) as [s2 r2] eqn:EN.
    apply ensure_expected_file_spec in EN. destruct EN as (_ & T2 & G2 & _).
    assert (dsq (tfs s2) p = Some (EFile xo dgo)) as Hpre2 by (rewrite T2, T1; exact Hpre).
    destruct r2 as [[]|e2|];
      [|injection Hsw as <- <-; cbn; exact Hpre2|injection Hsw as <- <-; cbn; exact Hpre2].
    cbn [entry_digest] in Hsw. destruct (String.eqb dgo dgn) eqn:Ed.
    - apply String.eqb_eq in Ed. subst dgn.
      apply set_permissions_spec in Hsw.
      destruct Hsw as (_ & _ & [[-> T]|[(-> & Z & T)|(-> & Z & m & c & y & D & Ly & _ & T)]]).
      + rewrite T. exact Hpre2.
      + exfalso. unfold file_mode in Z. cbn [entry_exec] in Z.
        exact (proj1 (modes_ok_nonzero dfm xn Hmodes) Z).
      + cbn [is_ok]. destruct (dsc_file_inv _ _ _ _ Hpre2) as (m0 & data & Gy & _ & Hd).
        rewrite <- (hof_lof rn p) in Gy. rewrite (dir_at_get1 _ _ _ _ _ D), Ly in Gy. injection Gy as ->.
        unfold dsc. rewrite <- (hof_lof rn p), T, (repl_get_under _ _ (tfs s2) m c [lof rn p] D).
        cbn [get]. rewrite nlookup_nset_some. cbn [with_meta node_meta odescribe describe set_mode m_mode].
        unfold file_mode. cbn [entry_exec].
        rewrite (proj2 (modes_ok_nonzero dfm xn Hmodes)), Hd. reflexivity.
    - assert (sok (tstg s2)) as Hst2 by (rewrite G2, G1; exact Hst).
      rewrite (find_and_move_dsc _ _ _ _ _ _ _ _ _ Hsw (hof_lof rn p) Hst2 Hn).
      destruct (is_ok r); [reflexivity|exact Hpre2].
  Qed.

  (* ---------- one transition on files and links ---------- *)
  Definition flat (e : oentry) : Prop :=
    match e with
    | None | Some (EFile _ _) | Some (ELink _) => True
    | _ => False
    end.

  Definition is_link (e : oentry) : bool := match e with Some (ELink _) => true | _ => false end.

  Definition names_ok (p : path) : Prop := Forall (fun k => skip nameok k = false) p.

  Lemma skip_listed : forall k, skip nameok k = false -> k <> ".".
  Proof.
    intros k Hk K0. subst. unfold skip in Hk. cbn in Hk. rewrite orb_true_r in Hk. discriminate.
  Qed.

  Lemma names_ok_path_ok : forall p, names_ok p -> path_ok p.
  Proof.
    intros p Hn K0. unfold names_ok in Hn. rewrite Forall_forall in Hn.
    exact (skip_listed _ (Hn _ K0) eq_refl).
  Qed.

  Hypothesis rn_skip : skip nameok rn = false.

  Lemma lof_skip : forall p, names_ok p -> skip nameok (lof rn p) = false.
  Proof.
    intros [|a p] Hn; [exact rn_skip|]. unfold lof. unfold names_ok in Hn. rewrite Forall_forall in Hn.
    apply Hn. clear. generalize a. induction p as [|b p IH]; intro a0; [left; reflexivity|]. right. apply IH.
  Qed.

  Lemma remove_flat_dsc : forall p e s s' r,
    remove norm E rn ch slm p e s = (s', r) -> flat e -> names_ok p -> tsorted (tfs s) ->
    dsq (tfs s) p = e -> dsq (tfs s') p = r.
  Proof.
    intros p e s s' r Hr Hf Hn Hs Hpre. pose proof (names_ok_path_ok _ Hn) as Hp. unfold remove in Hr.
    destruct e as [e0|]; [|injection Hr as <- <-; exact Hpre].
    destruct (walk E rn p true s) as [s1 r1] eqn:W.
    destruct (walk_ro _ _ _ _ _ _ _ W) as (_ & T1 & _).
    assert (dsq (tfs s1) p = Some e0) as Hpre1 by (rewrite T1; exact Hpre).
    assert (tsorted (tfs s1)) as Hs1 by (rewrite T1; exact Hs).
    destruct r1 as [[h n]|e1|];
      [|injection Hr as <- <-; exact Hpre1|injection Hr as <- <-; exact Hpre1].
    destruct (walk_hof _ _ _ _ _ _ _ _ W Hp) as [-> ->].
    destruct e0 as [ec|x dg|t| |msg|pc]; try contradiction.
    - destruct (remove_file E ch (hof rn p) (lof rn p) p (EFile x dg) s1) as [s2 r2] eqn:R.
      apply remove_file_spec in R. pose proof (removed_if_dsc _ _ _ _ _ _ _ R (hof_lof rn p) Hs1) as Hd.
      destruct r2 as [[]|e2|]; injection Hr as <- <-; cbn in Hd; rewrite ?problem_at_tfs, Hd;
        [reflexivity|exact Hpre1|exact Hpre1].
    - destruct (remove_link norm E slm (hof rn p) (lof rn p) p (ELink t) s1) as [s2 r2] eqn:R.
      apply remove_link_spec in R. pose proof (removed_if_dsc _ _ _ _ _ _ _ R (hof_lof rn p) Hs1) as Hd.
      destruct r2 as [[]|e2|]; injection Hr as <- <-; cbn in Hd; rewrite ?problem_at_tfs, Hd;
        [reflexivity|exact Hpre1|exact Hpre1].
  Qed.

  Lemma create_flat_dsc : forall p e s s' r,
    create norm E rn slm dfm ddm own fixed p e s = (s', r) -> flat e -> names_ok p ->
    sok (tstg s) -> (is_link e = true -> fixed = true \/ own = false) ->
    dsq (tfs s) p = None -> dsq (tfs s') p = r.
  Proof.
    intros p e s s' r Hc Hf Hn Hst Hl Hpre. pose proof (names_ok_path_ok _ Hn) as Hp. unfold create in Hc.
    destruct e as [e0|]; [|injection Hc as <- <-; exact Hpre].
    destruct (walk E rn p false s) as [s1 r1] eqn:W.
    destruct (walk_ro _ _ _ _ _ _ _ W) as (_ & T1 & G1).
    assert (dsq (tfs s1) p = None) as Hpre1 by (rewrite T1; exact Hpre).
    destruct r1 as [[h n]|e1|];
      [|injection Hc as <- <-; exact Hpre1|injection Hc as <- <-; exact Hpre1].
    destruct (walk_hof _ _ _ _ _ _ _ _ W Hp) as [-> ->].
    destruct e0 as [ec|x dg|t| |msg|pc]; try contradiction.
    - destruct (create_file E dfm own (hof rn p) (lof rn p) p (EFile x dg) s1) as [s2 r2] eqn:R.
      unfold create_file in R.
      assert (sok (tstg s1)) as Hst1 by (rewrite G1; exact Hst).
      pose proof (find_and_move_dsc _ _ _ _ _ _ _ _ _ R (hof_lof rn p) Hst1 (lof_skip _ Hn)) as Hd.
      destruct r2 as [[]|e2|]; injection Hc as <- <-; cbn in Hd; rewrite ?problem_at_tfs, Hd;
        [reflexivity|exact Hpre1|exact Hpre1].
    - destruct (create_link norm E slm own fixed (hof rn p) (lof rn p) p (ELink t) s1) as [s2 r2] eqn:R.
      pose proof (create_link_dsc _ _ _ _ _ _ _ R (hof_lof rn p) (Hl eq_refl)) as Hd.
      destruct r2 as [[]|e2|]; injection Hc as <- <-; cbn in Hd; rewrite ?problem_at_tfs, Hd;
        [reflexivity|exact Hpre1|exact Hpre1].
  Qed.

  Lemma trans_one_flat_dsc : forall c s s' r,
    trans_one norm E rn ch slm dfm ddm own fixed c s = (s', r) ->
    flat (cold c) -> flat (cnew c) -> names_ok (cpath c) ->
    tsorted (tfs s) -> sok (tstg s) -> (is_link (cnew c) = true -> fixed = true \/ own = false) ->
    dsq (tfs s) (cpath c) = cold c ->
    dsq (tfs s') (cpath c) = r.
  Proof.
    intros c s s' r Ht Fo Fn Hn Hs Hst Hl Hpre. pose proof (names_ok_path_ok _ Hn) as Hp.
    unfold trans_one in Ht.
    destruct (cancelled E s); [injection Ht as <- <-; exact Hpre|].
    assert (forall s1 r0, (let '(s1, r) := remove norm E rn ch slm (cpath c) (cold c) s in
                match r with
                | Some _ => (s1, r)
                | None => create norm E rn slm dfm ddm own fixed (cpath c) (cnew c) s1
                end) = (s1, r0) -> dsq (tfs s1) (cpath c) = r0) as RC.
    { intros s1 r0 H0. destruct (remove norm E rn ch slm (cpath c) (cold c) s) as [sa ra] eqn:R.
      pose proof (remove_flat_dsc _ _ _ _ _ R Fo Hn Hs Hpre) as Ha.
      destruct ra; [injection H0 as <- <-; exact Ha|].
      eapply create_flat_dsc; try eassumption.
      eapply store_ok_le; [exact Hst|]. eapply eff_store. eapply remove_eff; eassumption. }
    destruct (cold c) as [[ec|xo dgo|t| |msg|pc]|] eqn:CO; try (eapply RC; exact Ht).
    destruct (cnew c) as [[ec|xn dgn|t| |msg|pc]|] eqn:CN; try (eapply RC; exact Ht).
    destruct (swap_file E rn ch dfm own (cpath c) (EFile xo dgo) (EFile xn dgn) s) as [s1 r1] eqn:SW.
    pose proof (swap_dsc _ _ _ _ _ _ _ _ SW Hp Hs Hst (lof_skip _ Hn) Hpre) as Hd.
    destruct r1 as [[]|e1|]; injection Ht as <- <-; cbn in Hd; rewrite ?problem_at_tfs; exact Hd.
  Qed.

  (* ---------- the whole plan ---------- *)
  Definition item_flat (c : change) : Prop :=
    flat (cold c) /\ flat (cnew c) /\ names_ok (cpath c) /\
    (is_link (cnew c) = true -> fixed = true \/ own = false).

  Lemma trans_loop_other : forall plan s s' rs pj,
    trans_loop norm E rn ch slm dfm ddm own fixed plan s = (s', rs) ->
    Forall (fun c => names_ok (cpath c)) plan -> names_ok pj ->
    forallb (fun q => negb (is_prefix pj q) && negb (is_prefix q pj)) (map cpath plan) = true ->
    get (rn :: pj) (tfs s') = get (rn :: pj) (tfs s).
  Proof.
    induction plan as [|c rest IH]; intros s s' rs pj Hl HF Hn Hd; cbn [trans_loop] in Hl.
    - injection Hl as <- _. reflexivity.
    - inversion HF as [|? ? Hc HF']; subst. cbn [map forallb] in Hd.
      apply andb_true_iff in Hd. destruct Hd as [Hd1 Hd2]. apply andb_true_iff in Hd1.
      destruct Hd1 as [D1 D2]. apply negb_true_iff in D1. apply negb_true_iff in D2.
      destruct (trans_one norm E rn ch slm dfm ddm own fixed c s) as [s1 r] eqn:T1.
      destruct (trans_loop norm E rn ch slm dfm ddm own fixed rest s1) as [s2 rs2] eqn:TL.
      injection Hl as <- _. rewrite (IH _ _ _ _ TL HF' Hn Hd2).
      pose proof (trans_one_eff _ _ _ _ _ _ _ _ _ rn_ok _ _ _ _ T1 (names_ok_path_ok _ Hc)) as Ef.
      eapply fr_other_path; [apply Ef|apply hof_lof|exact D2|exact D1|exact Hn].
  Qed.

  Theorem trans_loop_flat_exact : forall plan s s' rs,
    trans_loop norm E rn ch slm dfm ddm own fixed plan s = (s', rs) ->
    Forall item_flat plan -> paths_disjoint (map cpath plan) = true ->
    tsorted (tfs s) -> sok (tstg s) ->
    Forall (fun c => dsq (tfs s) (cpath c) = cold c) plan ->
    Forall2 (fun c r => dsq (tfs s') (cpath c) = r) plan rs.
  Proof.
    induction plan as [|c rest IH]; intros s s' rs Hl HF Hd Hs Hst Hpre; cbn [trans_loop] in Hl.
    - injection Hl as _ <-. constructor.
    - inversion HF as [|? ? (Fo & Fn & Hn & Hlk) HF']; subst.
      inversion Hpre as [|? ? Hpc Hpre']; subst.
      cbn [map paths_disjoint] in Hd. apply andb_true_iff in Hd. destruct Hd as [Hd1 Hd2].
      destruct (trans_one norm E rn ch slm dfm ddm own fixed c s) as [s1 r] eqn:T1.
      destruct (trans_loop norm E rn ch slm dfm ddm own fixed rest s1) as [s2 rs2] eqn:TL.
      injection Hl as <- <-.
      pose proof (trans_one_flat_dsc _ _ _ _ T1 Fo Fn Hn Hs Hst Hlk Hpc) as Hr.
      pose proof (trans_one_eff _ _ _ _ _ _ _ _ _ rn_ok _ _ _ _ T1 (names_ok_path_ok _ Hn)) as Ef.
      assert (Forall (fun c0 => names_ok (cpath c0)) rest) as HN'.
      { eapply Forall_impl; [|exact HF']. intros c0 (_ & _ & K0 & _). exact K0. }
      constructor.
      + (* the later transitions leave this path alone *)
        rewrite <- Hr. apply dsc_eq. eapply trans_loop_other; eassumption.
      + apply (IH _ _ _ TL HF' Hd2).
        * apply (eff_sorted _ _ _ _ Ef Hs).
        * eapply store_ok_le; [exact Hst|apply Ef].
        * rewrite Forall_forall in Hpre' |- *. intros c0 Hin. rewrite <- (Hpre' c0 Hin).
          apply dsc_eq. rewrite forallb_forall in Hd1.
          specialize (Hd1 (cpath c0) (in_map cpath _ _ Hin)). apply andb_true_iff in Hd1.
          destruct Hd1 as [D1 D2]. apply negb_true_iff in D1. apply negb_true_iff in D2.
          rewrite Forall_forall in HN'.
          eapply fr_other_path; [apply Ef|apply hof_lof|exact D1|exact D2|apply HN'; exact Hin].
  Qed.

End Exact.

(* ================================================================== *)
(* closed forms                                                         *)
(* ================================================================== *)
Section Closed.
  Variable H : string -> string.
  Variable norm : path -> string -> option string.
  Variable nameok : name -> bool.
  Variable slm : slmode.
  Variable E : env.
  Variable rn : name.
  Variable ch : cache.
  Variable dfm ddm : N.
  Variable own : bool.
  Variable fixed : bool.

  Definition describes_all (t : node) (plan : list change) (rs : list oentry) : Prop :=
    Forall2 (fun c r => dsc H norm nameok slm rn t (cpath c) = r) plan rs.

  Lemma check_c09_iff : forall plan post rs,
    check_c09 H norm nameok slm rn plan post rs = true <-> describes_all post plan rs.
  Proof.
    intros plan post rs. unfold check_c09, describes_all. rewrite andb_true_iff, Nat.eqb_eq. split.
    - intros [Hl Hf]. revert rs Hl Hf. induction plan as [|c rest IH]; intros [|r rs] Hl Hf;
        try discriminate; constructor.
      + cbn in Hf. apply andb_true_iff in Hf. destruct Hf as [Hf _]. apply oentry_eqb_eq in Hf. exact Hf.
      + apply IH; [cbn in Hl; congruence|]. cbn in Hf. apply andb_true_iff in Hf. apply Hf.
    - intro HF. induction HF as [|c r plan' rs' Hcr HF IH]; [split; reflexivity|].
      destruct IH as [Hl Hf]. split; [cbn; congruence|]. cbn. rewrite Hf, andb_true_r.
      apply oentry_eqb_eq. exact Hcr.
  Qed.

  Lemma pre_described_iff : forall pre plan,
    pre_described H norm nameok slm rn pre plan = true <->
    Forall (fun c => dsc H norm nameok slm rn pre (cpath c) = cold c) plan.
  Proof.
    intros pre plan. unfold pre_described. rewrite forallb_forall, Forall_forall. split.
    - intros Hf c Hin. apply oentry_eqb_eq. apply Hf. exact Hin.
    - intros Hf c Hin. apply oentry_eqb_eq. apply Hf. exact Hin.
  Qed.

  Lemma trans_loop_app : forall pre suf s,
    trans_loop norm E rn ch slm dfm ddm own fixed (pre ++ suf) s =
    let '(s1, r1) := trans_loop norm E rn ch slm dfm ddm own fixed pre s in
    let '(s2, r2) := trans_loop norm E rn ch slm dfm ddm own fixed suf s1 in (s2, r1 ++ r2).
  Proof.
    induction pre as [|c pre IH]; intros suf s; cbn [trans_loop app].
    - destruct (trans_loop norm E rn ch slm dfm ddm own fixed suf s) as [s2 r2]. reflexivity.
    - destruct (trans_one norm E rn ch slm dfm ddm own fixed c s) as [s1 r]. rewrite IH.
      destruct (trans_loop norm E rn ch slm dfm ddm own fixed pre s1) as [sa ra].
      destruct (trans_loop norm E rn ch slm dfm ddm own fixed suf sa) as [sb rb]. reflexivity.
  Qed.

  Theorem c09_results_len_thm : forall fs0 stg plan,
    List.length (snd (transition norm E rn ch slm dfm ddm own fixed fs0 stg plan)) = List.length plan.
  Proof.
    intros fs0 stg plan. unfold transition.
    destruct (trans_loop norm E rn ch slm dfm ddm own fixed plan (init_state fs0 stg)) as [s' rs] eqn:TL.
    cbn. eapply trans_loop_length. exact TL.
  Qed.

  (* from the first check point that sees the cancellation on: old entries,
     nothing moves, one "cancelled" problem per remaining transition *)
  Theorem c09_cancel_thm : forall pre suf s s1 rs1 s2 rs,
    trans_loop norm E rn ch slm dfm ddm own fixed pre s = (s1, rs1) ->
    cancelled E s1 = true ->
    trans_loop norm E rn ch slm dfm ddm own fixed (pre ++ suf) s = (s2, rs) ->
    rs = rs1 ++ map cold suf /\ tx s2 = tx s1 /\ tmiss s2 = tmiss s1 /\
    (forall c, In c suf -> In (cpath c, PK_CANCELLED) (tprobs s2)).
  Proof.
    intros pre suf s s1 rs1 s2 rs Hpre Hc Hall. rewrite trans_loop_app, Hpre in Hall.
    destruct (trans_loop norm E rn ch slm dfm ddm own fixed suf s1) as [sb rb] eqn:TL.
    injection Hall as <- <-.
    destruct (trans_loop_cancelled _ _ _ _ _ _ _ _ _ _ _ _ _ TL Hc) as (R & T & Mi & _ & Pb).
    rewrite R. repeat split; assumption.
  Qed.

  (* cancelled before core.Transition starts *)
  Theorem c09_cancel_start_thm : forall fs0 stg plan,
    oracle E 0 = Cancelled ->
    let '(s', rs) := transition norm E rn ch slm dfm ddm own fixed fs0 stg plan in
    rs = map cold plan /\ tfs s' = fs0 /\ tstg s' = stg.
  Proof.
    intros fs0 stg plan HO. unfold transition.
    destruct (trans_loop norm E rn ch slm dfm ddm own fixed plan (init_state fs0 stg)) as [s' rs] eqn:TL.
    assert (cancelled E (init_state fs0 stg) = true) as Hc.
    { unfold cancelled, cancelled_at. cbn. rewrite HO. reflexivity. }
    destruct (trans_loop_cancelled _ _ _ _ _ _ _ _ _ _ _ _ _ TL Hc) as (R & T & _).
    split; [exact R|]. unfold tfs, tstg. rewrite T. split; reflexivity.
  Qed.

  (* exactness for plans over files and symbolic links *)
  Theorem c09_exact_flat_thm : forall fs0 stg plan,
    modes_ok dfm -> rn <> "." -> skip nameok rn = false ->
    Forall (item_flat nameok own fixed) plan -> paths_disjoint (map cpath plan) = true ->
    tsorted fs0 -> store_ok H stg ->
    Forall (fun c => dsc H norm nameok slm rn fs0 (cpath c) = cold c) plan ->
    let '(s', rs) := transition norm E rn ch slm dfm ddm own fixed fs0 stg plan in
    describes_all (tfs s') plan rs.
  Proof.
    intros fs0 stg plan Hm Hrn Hrs Hf Hd Hs Hst Hpre. unfold transition.
    destruct (trans_loop norm E rn ch slm dfm ddm own fixed plan (init_state fs0 stg)) as [s' rs] eqn:TL.
    eapply (trans_loop_flat_exact H norm nameok slm E rn ch dfm ddm own fixed Hm Hrn Hrs); eassumption.
  Qed.

End Closed.

Section Partial.
  Variable H : string -> string.
  Variable norm : path -> string -> option string.
  Variable nameok : name -> bool.
  Variable slm : slmode.
  Variable E : env.
  Variable rn : name.
  Variable ch : cache.
  Variable dfm ddm : N.
  Variable own : bool.
  Variable fixed : bool.

  (* plans over files and symbolic links *)
  Definition flat_plan (plan : list change) : Prop :=
    Forall (fun c => flat (cold c) /\ flat (cnew c) /\ names_ok nameok (cpath c)) plan.

  Lemma known_false_links : forall plan c,
    fixed = true \/ known_c09 own plan = false -> In c plan -> is_link (cnew c) = true ->
    fixed = true \/ own = false.
  Proof.
    intros plan c [Hk|Hk] Hin Hl; [left; exact Hk|]. right.
    unfold known_c09 in Hk. destruct own; [|reflexivity].
    cbn in Hk. exfalso. assert (existsb creates_link plan = true) as K; [|congruence].
    apply existsb_exists. exists c. split; [exact Hin|]. unfold creates_link.
    destruct (cnew c) as [[| |t| | |]|]; try discriminate. reflexivity.
  Qed.

  Theorem c09_exact_partial_thm : forall fs0 stg plan,
    modes_ok dfm -> rn <> "." -> skip nameok rn = false ->
    flat_plan plan -> fixed = true \/ known_c09 own plan = false ->
    paths_disjoint (map cpath plan) = true ->
    tsorted fs0 -> store_ok H stg ->
    pre_described H norm nameok slm rn fs0 plan = true ->
    check_c09 H norm nameok slm rn plan
              (tfs (fst (transition norm E rn ch slm dfm ddm own fixed fs0 stg plan)))
              (snd (transition norm E rn ch slm dfm ddm own fixed fs0 stg plan)) = true.
  Proof.
    intros fs0 stg plan Hm Hrn Hrs Hf Hk Hd Hs Hst Hpre.
    apply pre_described_iff in Hpre. apply check_c09_iff.
    pose proof (c09_exact_flat_thm H norm nameok slm E rn ch dfm ddm own fixed fs0 stg plan Hm Hrn Hrs) as T.
    destruct (transition norm E rn ch slm dfm ddm own fixed fs0 stg plan) as [s' rs]. cbn [fst snd].
    apply T; try assumption.
    unfold flat_plan in Hf. rewrite Forall_forall in Hf |- *. intros c Hin.
    destruct (Hf c Hin) as (A & B & C). split; [exact A|]. split; [exact B|]. split; [exact C|].
    eapply known_false_links; eassumption.
  Qed.
End Partial.
