(* C09 for directories: removeDirectory and createDirectory with their partial
   results describe the disk. *)
From Coq Require Import List Bool Arith String Ascii NArith Lia.
From Mv Require Import Model.Entry Model.Fs Model.FsExt Model.Transition Model.TransitionCheck
     Proof.EntryFacts Proof.FsFacts Proof.TransPrims Proof.TransFrames Proof.TransFuns
     Proof.TransEff Proof.TransitionC09.
Import ListNotations.
Open Scope string_scope.
Open Scope list_scope.

(* ================================================================== *)
(* the description of a directory                                       *)
(* ================================================================== *)
Section Dch.
  Variable H : string -> string.
  Variable norm : path -> string -> option string.
  Variable nameok : name -> bool.
  Variable slm : slmode.

  Notation describe := (describe H norm nameok slm).
  Notation odescribe := (odescribe H norm nameok slm).
  Notation skip := (skip nameok).

  Fixpoint dch (p : path) (c : list (name * node)) : list (name * entry) :=
    match c with
    | [] => []
    | (n, y) :: t =>
      if skip n then dch p t else
      match describe (p ++ [n]) y with
      | Some e => (n, e) :: dch p t
      | None => dch p t
      end
    end.

  Lemma describe_dir : forall p m c, describe p (NDir m c) = Some (EDir (dch p c)).
  Proof.
    intros p m c. cbn [Transition.describe]. f_equal. f_equal.
    induction c as [|[n y] t IH]; [reflexivity|]. cbn [dch]. rewrite <- IH. reflexivity.
  Qed.

  (* the description of the child k, as far as a scan reports it *)
  Definition vd (p : path) (k : name) (o : option node) : oentry :=
    if skip k then None else odescribe (p ++ [k]) o.

  Lemma dch_keys : forall p c k, In k (map fst (dch p c)) -> In k (map fst c).
  Proof.
    intros p c k. induction c as [|[n y] t IH]; cbn [dch map fst In]; [tauto|].
    destruct (skip n); [intro K; right; apply IH; exact K|].
    destruct (describe (p ++ [n]) y); cbn [map fst In]; intuition.
  Qed.

  Lemma dch_sorted : forall p c, sorted_names (map fst c) = true -> sorted_names (map fst (dch p c)) = true.
  Proof.
    intros p c. induction c as [|[n y] t IH]; intro Hs; [reflexivity|].
    cbn [map fst] in Hs. pose proof (proj1 (sorted_names_cons _ _) Hs) as [Hgt Hst].
    cbn [dch]. destruct (skip n); [apply IH; exact Hst|].
    destruct (describe (p ++ [n]) y); [|apply IH; exact Hst].
    cbn [map fst]. apply sorted_names_cons. split; [|apply IH; exact Hst].
    intros k Hk. apply Hgt. eapply dch_keys. exact Hk.
  Qed.

  Lemma dch_lookup : forall p c k,
    sorted_names (map fst c) = true -> lookup k (dch p c) = vd p k (nlookup k c).
  Proof.
    intros p c k. induction c as [|[n y] t IH]; intro Hs.
    - cbn. unfold vd. destruct (skip k); reflexivity.
    - cbn [map fst] in Hs. pose proof (proj1 (sorted_names_cons _ _) Hs) as [Hgt Hst].
      cbn [dch nlookup]. destruct (String.eqb k n) eqn:Ek.
      + apply String.eqb_eq in Ek. subst k. unfold vd. cbn [Transition.odescribe].
        assert (lookup n (dch p t) = None) as Ln.
        { apply lookup_none_notin. intro K. apply dch_keys in K.
          exact (sorted_names_head_notin _ _ Hs K). }
        destruct (skip n); [exact Ln|].
        destruct (describe (p ++ [n]) y); [cbn [lookup]; rewrite String.eqb_refl; reflexivity|exact Ln].
      + destruct (skip n); [apply IH; exact Hst|].
        destruct (describe (p ++ [n]) y); [cbn [lookup]; rewrite Ek|]; apply IH; exact Hst.
  Qed.

  (* a sorted entry list that agrees with the children on every name is their
     description *)
  Lemma dch_ext : forall p c ec,
    sorted_names (map fst c) = true -> sorted_names (map fst ec) = true ->
    (forall k, lookup k ec = vd p k (nlookup k c)) -> dch p c = ec.
  Proof.
    intros p c ec Hc He Hl. apply contents_ext; [apply dch_sorted; exact Hc|exact He|].
    intro k. rewrite dch_lookup by exact Hc. symmetry. apply Hl.
  Qed.
End Dch.

(* ================================================================== *)
(* removeDirectory                                                      *)
(* ================================================================== *)
Section RemoveDir.
  Variable H : string -> string.
  Variable norm : path -> string -> option string.
  Variable nameok : name -> bool.
  Variable slm : slmode.
  Variable E : env.
  Variable rn : name.
  Variable ch : cache.

  Notation dsq := (dsc H norm nameok slm rn).
  Notation vdq := (vd H norm nameok slm).
  Notation skp := (skip nameok).

  (* ec describes the children of the directory d = rn :: cp *)
  Definition Inv (d cp : path) (s : tstate) (ec : list (name * entry)) : Prop :=
    exists m c, dir_at d (tfs s) = Some (m, c) /\ sorted_names (map fst ec) = true /\
                forall k, lookup k ec = vdq cp k (nlookup k c).

  Lemma skip_not_tmp : forall k, skp k = false -> ~ tmpname k.
  Proof. intros k Hk Ht. unfold skip in Hk. unfold tmpname in Ht. rewrite Ht in Hk. discriminate. Qed.

  (* the description of the child k of d = rn :: cp *)
  Lemma child_dsq : forall cp s m c k,
    dir_at (rn :: cp) (tfs s) = Some (m, c) ->
    dsq (tfs s) (cp ++ [k]) = odescribe H norm nameok slm (cp ++ [k]) (nlookup k c).
  Proof.
    intros cp s m c k D. unfold dsc. change (rn :: cp ++ [k]) with ((rn :: cp) ++ [k]).
    rewrite (dir_at_get1 _ _ _ _ k D). reflexivity.
  Qed.

  (* after an effect on the child k only, with the new description v of k *)
  Lemma child_update : forall cp s s1 ec k v,
    Inv (rn :: cp) cp s ec -> eff (rn :: cp) k s s1 -> skp k = false ->
    dsq (tfs s1) (cp ++ [k]) = v ->
    Inv (rn :: cp) cp s1 (set_child k v ec).
  Proof.
    intros cp s s1 ec k v (m & c & D & Se & L) Ef Hk Hv.
    destruct (fr_dir_at _ _ _ _ _ _ (eff_fr _ _ _ _ Ef) D) as [c1 D1].
    exists m, c1. split; [exact D1|]. split; [apply set_child_sorted; exact Se|].
    intro k'. rewrite lookup_set_child by exact Se. destruct (String.eqb k' k) eqn:Ek.
    - apply String.eqb_eq in Ek. subst k'. unfold vd. rewrite Hk.
      rewrite <- (child_dsq cp s1 m c1 k D1). symmetry. exact Hv.
    - apply String.eqb_neq in Ek. rewrite L. unfold vd. destruct (skp k') eqn:Sk; [reflexivity|].
      f_equal. destruct Ef as [(A1 & _ & _) _ _ _ _].
      pose proof (A1 k' [] Ek (or_intror (skip_not_tmp _ Sk))) as G.
      rewrite (dir_at_get1 _ _ _ _ k' D1), (dir_at_get1 _ _ _ _ k' D) in G. symmetry. exact G.
  Qed.

  Lemma child_same : forall cp s s1 ec k,
    Inv (rn :: cp) cp s ec -> eff (rn :: cp) k s s1 -> skp k = false ->
    dsq (tfs s1) (cp ++ [k]) = dsq (tfs s) (cp ++ [k]) ->
    Inv (rn :: cp) cp s1 ec.
  Proof.
    intros cp s s1 ec k Hi Ef Hk Hd. pose proof Hi as (m & c & D & Se & L).
    rewrite <- (set_child_lookup_id k ec Se). apply (child_update cp s s1 ec k _ Hi Ef Hk).
    rewrite Hd, (child_dsq cp s m c k D), L. unfold vd. rewrite Hk. reflexivity.
  Qed.

  Lemma Inv_problem : forall d cp s ec p k, Inv d cp s ec -> Inv d cp (problem_at p k s) ec.
  Proof. intros d cp s ec p k Hi. exact Hi. Qed.

  Definition rec_dsc
    (rec : path -> name -> path -> list (name * entry) -> tstate -> tstate * bool * list (name * entry)) :=
    forall d n cp ec s s1 ok ec', rec d n cp ec s = (s1, ok, ec') -> n <> "." ->
      tsorted (tfs s) -> d ++ [n] = rn :: cp -> dsq (tfs s) cp = Some (EDir ec) ->
      dsq (tfs s1) cp = (if ok then None else Some (EDir ec')).

  Definition flags_clear (fl : rflags) : Prop := f_cancel fl = false /\ f_failed fl = false.

  Lemma remove_loop_dsc : forall rec cp names ec s fl s' fl' ec',
    rec_eff rec -> rec_dsc rec -> Forall (fun k => k <> ".") names -> NoDup names ->
    remove_loop norm E ch slm rec (rn :: cp) cp names ec s fl = (s', fl', ec') ->
    tsorted (tfs s) -> Inv (rn :: cp) cp s ec ->
    Inv (rn :: cp) cp s' ec' /\ tsorted (tfs s') /\
    (forall k, ~ In k names -> lookup k ec' = lookup k ec) /\
    (flags_clear fl' -> flags_clear fl /\ forall k, In k names -> lookup k ec' = None).
  Proof.
    intros rec cp names. induction names as [|k rest IH];
      intros ec s fl s' fl' ec' HE HR HN HD Hl Hs Hi; cbn [remove_loop] in Hl.
    - injection Hl as <- <- <-. split; [exact Hi|]. split; [exact Hs|]. split; [reflexivity|].
      intro Hc. split; [exact Hc|]. intros k [].
    - inversion HN as [|? ? Hkd HN']; subst. inversion HD as [|? ? Hnin HD']; subst.
      destruct (cancelled E s).
      { injection Hl as <- <- <-. split; [exact Hi|]. split; [exact Hs|]. split; [reflexivity|].
        intros [K _]. discriminate. }
      (* finishing an iteration that leaves (s1, ec1, fl1) for the rest *)
      assert (forall s1 ec1 fl1,
                remove_loop norm E ch slm rec (rn :: cp) cp rest ec1 s1 fl1 = (s', fl', ec') ->
                tsorted (tfs s1) -> Inv (rn :: cp) cp s1 ec1 ->
                (forall k', k' <> k -> lookup k' ec1 = lookup k' ec) ->
                (flags_clear fl1 -> flags_clear fl /\ lookup k ec1 = None) ->
                Inv (rn :: cp) cp s' ec' /\ tsorted (tfs s') /\
                (forall k0, ~ In k0 (k :: rest) -> lookup k0 ec' = lookup k0 ec) /\
                (flags_clear fl' -> flags_clear fl /\ forall k0, In k0 (k :: rest) -> lookup k0 ec' = None)) as Fin.
      { intros s1 ec1 fl1 Hl1 Hs1 Hi1 Hoth Hfl.
        destruct (IH _ _ _ _ _ _ HE HR HN' HD' Hl1 Hs1 Hi1) as (I' & S' & K2 & J).
        split; [exact I'|]. split; [exact S'|]. split.
        - intros k0 Hn0. rewrite K2 by (intro; apply Hn0; right; assumption).
          apply Hoth. intro; subst; apply Hn0; left; reflexivity.
        - intro Hc. destruct (J Hc) as [Hc1 Hnone]. destruct (Hfl Hc1) as [Hc0 Hk0].
          split; [exact Hc0|]. intros k0 [<-|Hin]; [|apply Hnone; exact Hin].
          rewrite K2 by exact Hnin. exact Hk0. }
      pose proof Hi as (m & c & D & Se & L).
      destruct (lookup k ec) as [e|] eqn:Lk.
      2:{ (* unknown content *)
          eapply Fin; [exact Hl|exact Hs|apply Inv_problem; exact Hi|reflexivity|].
          intros [C1 C2]. split; [split; assumption|exact Lk]. }
      (* the name is expected: it is visible and described by e *)
      assert (skp k = false /\ dsq (tfs s) (cp ++ [k]) = Some e) as [Hsk Hde].
      { pose proof (child_dsq cp s m c k D) as Cd. pose proof (L k) as Lk'. rewrite Lk in Lk'.
        unfold vd in Lk'. destruct (skp k); [discriminate|]. split; [reflexivity|].
        exact (eq_trans Cd (eq_sym Lk')). }
      assert ((rn :: cp) ++ [k] = rn :: (cp ++ [k])) as Habs by reflexivity.
      destruct e as [ec1|x dg|t| |msg|pc].
      + match type of Hl with context [rec ?a ?b ?c0 ?d0 ?e0] =>
          destruct (rec a b c0 d0 e0) as [[s1 ok] ec1'] eqn:R end.
        pose proof (HE _ _ _ _ _ _ _ _ R Hkd) as Ef.
        pose proof (HR _ _ _ _ _ _ _ _ R Hkd Hs Habs Hde) as Hd1.
        pose proof (eff_sorted _ _ _ _ Ef Hs) as Hs1.
        destruct ok.
        * eapply Fin; [exact Hl|exact Hs1|apply (child_update cp s s1 ec k None Hi Ef Hsk Hd1)| |].
          -- intros k' Hk'. apply lookup_set_child_other. exact Hk'.
          -- intros Hc. split; [exact Hc|]. apply lookup_set_child_same. exact Se.
        * eapply Fin; [exact Hl|exact Hs1|apply (child_update cp s s1 ec k _ Hi Ef Hsk Hd1)| |].
          -- intros k' Hk'. apply lookup_set_child_other. exact Hk'.
          -- intros [_ K]. discriminate.
      + match type of Hl with context [remove_file ?a ?b ?c0 ?d0 ?e0 ?f0 ?g0] =>
          destruct (remove_file a b c0 d0 e0 f0 g0) as [s1 r] eqn:R end.
        pose proof R as Ef. eapply remove_file_eff in Ef.
        pose proof (eff_sorted _ _ _ _ Ef Hs) as Hs1.
        apply remove_file_spec in R.
        pose proof (removed_if_dsc H norm nameok slm rn _ _ _ _ _ _ _ R Habs Hs) as Hd1.
        destruct r as [[]|e1|]; cbn [is_ok] in Hd1.
        * eapply Fin; [exact Hl|exact Hs1|apply (child_update cp s s1 ec k None Hi Ef Hsk Hd1)| |].
          -- intros k' Hk'. apply lookup_set_child_other. exact Hk'.
          -- intros Hc. split; [exact Hc|]. apply lookup_set_child_same. exact Se.
        * eapply Fin; [exact Hl|exact Hs1|apply Inv_problem; apply (child_same cp s s1 ec k Hi Ef Hsk Hd1)
                      |reflexivity|].
          intros [_ K]. discriminate.
        * eapply Fin; [exact Hl|exact Hs1|apply Inv_problem; apply (child_same cp s s1 ec k Hi Ef Hsk Hd1)
                      |reflexivity|].
          intros [_ K]. discriminate.
      + match type of Hl with context [remove_link ?a ?b ?c0 ?d0 ?e0 ?f0 ?g0 ?i0] =>
          destruct (remove_link a b c0 d0 e0 f0 g0 i0) as [s1 r] eqn:R end.
        pose proof R as Ef. eapply remove_link_eff in Ef.
        pose proof (eff_sorted _ _ _ _ Ef Hs) as Hs1.
        apply remove_link_spec in R.
        pose proof (removed_if_dsc H norm nameok slm rn _ _ _ _ _ _ _ R Habs Hs) as Hd1.
        destruct r as [[]|e1|]; cbn [is_ok] in Hd1.
        * eapply Fin; [exact Hl|exact Hs1|apply (child_update cp s s1 ec k None Hi Ef Hsk Hd1)| |].
          -- intros k' Hk'. apply lookup_set_child_other. exact Hk'.
          -- intros Hc. split; [exact Hc|]. apply lookup_set_child_same. exact Se.
        * eapply Fin; [exact Hl|exact Hs1|apply Inv_problem; apply (child_same cp s s1 ec k Hi Ef Hsk Hd1)
                      |reflexivity|].
          intros [_ K]. discriminate.
        * eapply Fin; [exact Hl|exact Hs1|apply Inv_problem; apply (child_same cp s s1 ec k Hi Ef Hsk Hd1)
                      |reflexivity|].
          intros [_ K]. discriminate.
      + eapply Fin; [exact Hl|exact Hs|apply Inv_problem; exact Hi|reflexivity|]. intros [_ K]. discriminate.
      + eapply Fin; [exact Hl|exact Hs|apply Inv_problem; exact Hi|reflexivity|]. intros [_ K]. discriminate.
      + eapply Fin; [exact Hl|exact Hs|apply Inv_problem; exact Hi|reflexivity|]. intros [_ K]. discriminate.
  Qed.

  (* the description of a directory node, and back *)
  Lemma dsq_dir_inv : forall x p ec,
    dsq x p = Some (EDir ec) ->
    exists m c, get (rn :: p) x = Some (NDir m c) /\ dch H norm nameok slm p c = ec.
  Proof.
    intros x p ec Hd. unfold dsc in Hd. destruct (get (rn :: p) x) as [[m c|m d|m t|m t]|];
      cbn [odescribe] in Hd.
    - exists m, c. split; [reflexivity|]. rewrite (describe_dir H norm nameok slm p m c) in Hd.
      injection Hd as Hd. exact Hd.
    - cbn in Hd. discriminate.
    - cbn in Hd. destruct slm; [discriminate| |].
      + destruct (norm p t); discriminate.
      + destruct (String.eqb t ""); discriminate.
    - cbn in Hd. discriminate.
    - discriminate.
  Qed.

  Lemma Inv_dsq : forall cp s ec,
    tsorted (tfs s) -> Inv (rn :: cp) cp s ec -> dsq (tfs s) cp = Some (EDir ec).
  Proof.
    intros cp s ec Hs (m & c & D & Se & L). unfold dsc, dir_at in *.
    destruct (get (rn :: cp) (tfs s)) as [[m0 c0| | |]|] eqn:G; try discriminate.
    injection D as -> ->. cbn [odescribe]. rewrite (describe_dir H norm nameok slm cp m c).
    f_equal. f_equal. apply dch_ext; [|exact Se|exact L].
    pose proof (tsorted_get _ _ _ Hs G) as Hd. apply tsorted_dir_inv in Hd. apply Hd.
  Qed.

  Lemma dsq_Inv : forall cp s ec,
    tsorted (tfs s) -> dsq (tfs s) cp = Some (EDir ec) -> Inv (rn :: cp) cp s ec.
  Proof.
    intros cp s ec Hs Hd. destruct (dsq_dir_inv _ _ _ Hd) as (m & c & G & <-).
    pose proof (tsorted_get _ _ _ Hs G) as Hn. apply tsorted_dir_inv in Hn. destruct Hn as [Hc _].
    exists m, c. split; [unfold dir_at; rewrite G; reflexivity|].
    split; [apply dch_sorted; exact Hc|]. intro k. apply dch_lookup. exact Hc.
  Qed.

  Lemma listed_skip : forall k, listed k = false -> skp k = true.
  Proof. intros k Hk. unfold skip. rewrite Hk. cbn. apply orb_true_r. Qed.

  Lemma remove_dir_dsc : forall fuel, rec_dsc (remove_dir_f norm E ch slm fuel).
  Proof.
    induction fuel as [|fuel IH]; intros h n p ec s s' ok ec' Hr Hn Hs Hhn Hpre; cbn [remove_dir_f] in Hr.
    - injection Hr as <- <- <-. exact Hpre.
    - destruct (run (liftF (open_dir (quiet E) h n)) s) as [s1 r1] eqn:OD.
      apply open_dir_spec in OD. destruct OD as (_ & T1 & _ & R1).
      assert (dsq (tfs s1) p = Some (EDir ec)) as Hpre1 by (rewrite T1; exact Hpre).
      destruct r1 as [d|e1|]; [|injection Hr as <- <- <-; exact Hpre1|injection Hr as <- <- <-; exact Hpre1].
      destruct (R1 d eq_refl Hn) as (-> & _). rewrite Hhn in Hr.
      destruct (run (liftF (read_contents (quiet E) (rn :: p))) s1) as [s2 r2] eqn:RC.
      apply read_contents_spec in RC. destruct RC as (_ & T2 & _ & R2).
      assert (dsq (tfs s2) p = Some (EDir ec)) as Hpre2 by (rewrite T2; exact Hpre1).
      destruct r2 as [mds|e2|]; [|injection Hr as <- <- <-; exact Hpre2|injection Hr as <- <- <-; exact Hpre2].
      destruct (R2 mds eq_refl) as (m2 & c2 & D2 & Hnames).
      assert (tsorted (tfs s2)) as Hs2 by (rewrite T2, T1; exact Hs).
      assert (sorted_names (map fst c2) = true) as Sc2.
      { rewrite <- T2 in D2. pose proof (dir_at_sorted _ _ _ _ Hs2 D2) as Hd2.
        apply tsorted_dir_inv in Hd2. apply Hd2. }
      destruct (remove_loop norm E ch slm (remove_dir_f norm E ch slm fuel) (rn :: p) p
                            (filter listed (map md_name mds)) ec s2 no_flags) as [[s3 fl] ec3] eqn:RL.
      pose proof (dsq_Inv p s2 ec Hs2 Hpre2) as Hi2.
      assert (NoDup (filter listed (map md_name mds))) as Hnd
        by (rewrite Hnames; apply NoDup_filter; apply sorted_names_NoDup; exact Sc2).
      destruct (remove_loop_dsc _ p _ _ _ _ _ _ _
                  (fun d0 n0 cp0 ec0 sa sb okb ecb Hrb Hnb => remove_dir_eff _ _ _ _ _ _ _ _ _ _ _ _ _ Hrb Hnb)
                  IH (filter_listed_nodot _)
                  Hnd
                  RL Hs2 Hi2) as (Hi3 & Hs3 & K2 & J).
      (* what the model keeps of ec *)
      set (ec'' := if negb (f_cancel fl) && negb (f_failed fl) then [] else ec3) in *.
      assert (Inv (rn :: p) p s3 ec'') as Hi3'.
      { unfold ec''. destruct (negb (f_cancel fl) && negb (f_failed fl)) eqn:Fc; [|exact Hi3].
        apply andb_true_iff in Fc. destruct Fc as [F1 F2].
        apply negb_true_iff in F1. apply negb_true_iff in F2.
        destruct (J (conj F1 F2)) as [_ Hnone].
        destruct Hi3 as (m3 & c3 & D3 & Se3 & L3). exists m3, c3. split; [exact D3|]. split; [reflexivity|].
        intro k. cbn [lookup]. rewrite <- L3.
        destruct (in_dec string_dec k (filter listed (map md_name mds))) as [Hin|Hnin].
        - symmetry. apply Hnone. exact Hin.
        - rewrite (K2 k Hnin).
          (* k was not listed: it is invisible or absent in the original directory *)
          destruct Hi2 as (m2' & c2' & D2' & _ & L2). rewrite L2.
          rewrite T2 in D2'. rewrite D2 in D2'. injection D2' as <- <-.
          destruct (listed k) eqn:Lk.
          + assert (nlookup k c2 = None) as Nk.
            { apply nlookup_none_notin. intro Hk. apply Hnin. apply filter_In. split; [|exact Lk].
              rewrite Hnames. exact Hk. }
            rewrite Nk. unfold vd. destruct (skp k); reflexivity.
          + unfold vd. rewrite (listed_skip k Lk). reflexivity. }
      pose proof (Inv_dsq p s3 ec'' Hs3 Hi3') as Hd3.
      destruct (negb (f_cancel fl) && negb (f_unknown fl) && negb (f_failed fl)).
      + destruct (run (liftF (rmdir (quiet E) h n)) s3) as [s4 r4] eqn:RD.
        apply rmdir_spec in RD.
        destruct RD as (_ & _ & [[Hok4 T4]|(Hok4 & m4 & c4 & c4' & D4 & (m0 & Ln4 & ->) & T4)]).
        * destruct r4 as [[]|e4|]; [discriminate| |]; injection Hr as <- <- <-;
            rewrite problem_at_tfs, T4; exact Hd3.
        * destruct r4 as [[]|e4|]; try discriminate. injection Hr as <- <- <-.
          unfold dsc. rewrite <- Hhn, T4, (repl_get_under h _ (tfs s3) m4 c4 [n] D4). cbn [get].
          rewrite nlookup_nset_none; [reflexivity|].
          pose proof (dir_at_sorted _ _ _ _ Hs3 D4) as Hd4. apply tsorted_dir_inv in Hd4. apply Hd4.
      + injection Hr as <- <- <-. exact Hd3.
  Qed.

End RemoveDir.

(* ================================================================== *)
(* createDirectory                                                      *)
(* ================================================================== *)
Lemma entry_names_dir : forall f c,
  entry_names f (EDir c) = forallb (fun ke => f (fst ke) && entry_names f (snd ke)) c.
Proof.
  intros f c. cbn [entry_names]. induction c as [|[n x] t IH]; [reflexivity|].
  cbn [forallb fst snd]. rewrite <- IH. reflexivity.
Qed.

Section CreateDir.
  Variable H : string -> string.
  Variable norm : path -> string -> option string.
  Variable nameok : name -> bool.
  Variable slm : slmode.
  Variable E : env.
  Variable rn : name.
  Variable ch : cache.
  Variable dfm ddm : N.
  Variable own : bool.
  Variable fixed : bool.
  Hypothesis Hmodes : modes_ok dfm.
  Hypothesis Hlink : fixed = true \/ own = false.

  Notation dsq := (dsc H norm nameok slm rn).
  Notation skp := (skip nameok).
  Notation sok := (store_ok H).
  Notation Invq := (Inv H norm nameok slm).

  (* the names a created entry introduces are visible to a scan *)
  Definition visible (e : entry) : Prop := entry_names (fun k => negb (skp k)) e = true.

  Definition crec_dsc
    (rec : path -> name -> path -> list (name * entry) -> tstate -> tstate * option (list (name * entry))) :=
    forall d n cp tc s s1 r, rec d n cp tc s = (s1, r) ->
      tsorted (tfs s) -> sok (tstg s) -> d ++ [n] = rn :: cp -> visible (EDir tc) ->
      match r with
      | None => dsq (tfs s1) cp = dsq (tfs s) cp
      | Some cr => dsq (tfs s1) cp = Some (EDir cr)
      end.

  Lemma create_loop_dsc : forall rec cp tc created s s' cr,
    crec_eff rec -> crec_dsc rec -> visible (EDir tc) ->
    create_loop norm E slm dfm own fixed rec (rn :: cp) cp tc created s = (s', cr) ->
    tsorted (tfs s) -> sok (tstg s) -> Invq (rn :: cp) cp s created ->
    Invq (rn :: cp) cp s' cr /\ tsorted (tfs s').
  Proof.
    intros rec cp tc. induction tc as [|[k e] rest IH]; intros created s s' cr HE HR Hv Hl Hs Hst Hi;
      cbn [create_loop] in Hl.
    - injection Hl as <- <-. split; assumption.
    - destruct (cancelled E s); [injection Hl as <- <-; split; assumption|].
      unfold visible in Hv. rewrite entry_names_dir in Hv. cbn [forallb fst snd] in Hv.
      apply andb_true_iff in Hv. destruct Hv as [Hke Hvr]. apply andb_true_iff in Hke.
      destruct Hke as [Hk Hve]. apply negb_true_iff in Hk.
      assert (visible (EDir rest)) as Hvr' by (unfold visible; rewrite entry_names_dir; exact Hvr).
      assert ((rn :: cp) ++ [k] = rn :: (cp ++ [k])) as Habs by reflexivity.
      destruct e as [tc1|x dg|t| |msg|pc].
      + match type of Hl with context [rec ?a ?b ?c0 ?d0 ?e0] =>
          destruct (rec a b c0 d0 e0) as [s1 r1] eqn:R end.
        pose proof (HE _ _ _ _ _ _ _ R) as Ef.
        pose proof (HR _ _ _ _ _ _ _ R Hs Hst Habs Hve) as Hd1.
        pose proof (eff_sorted _ _ _ _ Ef Hs) as Hs1.
        assert (sok (tstg s1)) as Hst1 by (eapply store_ok_le; [exact Hst|apply Ef]).
        destruct r1 as [cr1|].
        * apply (IH _ _ _ _ HE HR Hvr' Hl Hs1 Hst1).
          apply (child_update H norm nameok slm rn cp s s1 created k _ Hi Ef Hk Hd1).
        * apply (IH _ _ _ _ HE HR Hvr' Hl Hs1 Hst1).
          apply (child_same H norm nameok slm rn cp s s1 created k Hi Ef Hk Hd1).
      + match type of Hl with context [create_file ?a ?b ?c0 ?d0 ?e0 ?f0 ?g0 ?i0] =>
          destruct (create_file a b c0 d0 e0 f0 g0 i0) as [s1 r1] eqn:R end.
        pose proof R as Ef. eapply create_file_eff in Ef.
        unfold create_file in R.
        pose proof (find_and_move_dsc H norm nameok slm E rn dfm own Hmodes _ _ _ _ _ _ _ _ _ R Habs Hst Hk) as Hd1.
        pose proof (eff_sorted _ _ _ _ Ef Hs) as Hs1.
        assert (sok (tstg s1)) as Hst1 by (eapply store_ok_le; [exact Hst|apply Ef]).
        destruct r1 as [[]|e1|]; cbn [is_ok] in Hd1.
        * apply (IH _ _ _ _ HE HR Hvr' Hl Hs1 Hst1).
          apply (child_update H norm nameok slm rn cp s s1 created k _ Hi Ef Hk Hd1).
        * apply (IH _ _ _ _ HE HR Hvr' Hl Hs1 Hst1). apply Inv_problem.
          apply (child_same H norm nameok slm rn cp s s1 created k Hi Ef Hk Hd1).
        * apply (IH _ _ _ _ HE HR Hvr' Hl Hs1 Hst1). apply Inv_problem.
          apply (child_same H norm nameok slm rn cp s s1 created k Hi Ef Hk Hd1).
      + match type of Hl with context [create_link ?a ?b ?c0 ?d0 ?e0 ?f0 ?g0 ?i0 ?j0 ?k0] =>
          destruct (create_link a b c0 d0 e0 f0 g0 i0 j0 k0) as [s1 r1] eqn:R end.
        pose proof R as Ef. eapply create_link_eff in Ef.
        pose proof (create_link_dsc H norm nameok slm E rn own fixed _ _ _ _ _ _ _ R Habs Hlink) as Hd1.
        pose proof (eff_sorted _ _ _ _ Ef Hs) as Hs1.
        assert (sok (tstg s1)) as Hst1 by (eapply store_ok_le; [exact Hst|apply Ef]).
        destruct r1 as [[]|e1|]; cbn [is_ok] in Hd1.
        * apply (IH _ _ _ _ HE HR Hvr' Hl Hs1 Hst1).
          apply (child_update H norm nameok slm rn cp s s1 created k _ Hi Ef Hk Hd1).
        * apply (IH _ _ _ _ HE HR Hvr' Hl Hs1 Hst1). apply Inv_problem.
          apply (child_same H norm nameok slm rn cp s s1 created k Hi Ef Hk Hd1).
        * apply (IH _ _ _ _ HE HR Hvr' Hl Hs1 Hst1). apply Inv_problem.
          apply (child_same H norm nameok slm rn cp s s1 created k Hi Ef Hk Hd1).
      + apply (IH _ _ _ _ HE HR Hvr' Hl Hs Hst). apply Inv_problem. exact Hi.
      + apply (IH _ _ _ _ HE HR Hvr' Hl Hs Hst). apply Inv_problem. exact Hi.
      + apply (IH _ _ _ _ HE HR Hvr' Hl Hs Hst). apply Inv_problem. exact Hi.
  Qed.

  (* an empty directory at rn :: p *)
  Lemma Inv_empty : forall p s m,
    dir_at (rn :: p) (tfs s) = Some (m, []) -> Invq (rn :: p) p s [].
  Proof.
    intros p s m D. exists m, []. split; [exact D|]. split; [reflexivity|].
    intro k. cbn. unfold vd. destruct (skp k); reflexivity.
  Qed.

  Lemma create_dir_dsc : forall fuel, crec_dsc (create_dir_f norm E slm dfm ddm own fixed fuel).
  Proof.
    induction fuel as [|fuel IH]; intros h n p tc s s' r Hc Hs Hst Hhn Hv; cbn [create_dir_f] in Hc.
    - injection Hc as <- <-. reflexivity.
    - destruct (run (liftF (mkdir (quiet E) h n)) s) as [s1 r1] eqn:MK.
      pose proof MK as Ef1. eapply mkdir_eff in Ef1. pose proof MK as MK0.
      pose proof (eff_sorted _ _ _ _ Ef1 Hs) as Hs1.
      apply mkdir_spec in MK.
      destruct MK as (_ & G1 & [[Hok T1]|(Hok & m & c & c' & D & (Ln & ->) & T1)]).
      { destruct r1 as [[]|e1|]; [discriminate| |]; injection Hc as <- <-; lazy iota;
          rewrite problem_at_tfs, T1; reflexivity. }
      destruct r1 as [[]|e1|]; try discriminate.
      (* the new, empty directory *)
      assert (exists m1, dir_at (rn :: p) (tfs s1) = Some (m1, [])) as [m1 D1].
      { eexists. unfold dir_at. rewrite <- Hhn, T1, (repl_get_under h _ (tfs s) m c [n] D).
        cbn [get]. rewrite nlookup_nset_some. reflexivity. }
      destruct (run (liftF (set_permissions (quiet E) h n own ddm)) s1) as [s2 r2] eqn:SP.
      pose proof SP as Ef2. eapply set_permissions_eff in Ef2.
      pose proof (eff_sorted _ _ _ _ Ef2 Hs1) as Hs2.
      assert (exists m2, dir_at (rn :: p) (tfs s2) = Some (m2, [])) as [m2 D2].
      { apply set_permissions_spec in SP.
        destruct SP as (_ & _ & [[_ T2]|[(_ & _ & T2)|(_ & _ & m' & c1 & y & D' & Ly & _ & T2)]]);
          try (exists m1; rewrite T2; exact D1).
        eexists. unfold dir_at. rewrite <- Hhn, T2, (repl_get_under h _ (tfs s1) m' c1 [n] D').
        cbn [get]. rewrite nlookup_nset_some.
        assert (y = NDir m1 []) as ->.
        { unfold dir_at in D1. rewrite <- Hhn, (dir_at_get1 _ _ _ _ n D'), Ly in D1.
          destruct y; try discriminate. injection D1 as -> ->. reflexivity. }
        cbn. reflexivity. }
      assert (dsq (tfs s2) p = Some (EDir [])) as Hd2
        by (apply (Inv_dsq H norm nameok slm rn p s2 [] Hs2); eapply Inv_empty; exact D2).
      assert (sok (tstg s2)) as Hst2.
      { eapply store_ok_le; [exact Hst|]. eapply store_le_trans; [apply Ef1|apply Ef2]. }
      destruct r2 as [[]|e2|]; [|injection Hc as <- <-; exact Hd2|injection Hc as <- <-; exact Hd2].
      destruct tc as [|ke rest]; [injection Hc as <- <-; exact Hd2|].
      destruct (run (liftF (open_dir (quiet E) h n)) s2) as [s3 r3] eqn:OD.
      apply open_dir_spec in OD. destruct OD as (_ & T3 & G3 & R3).
      destruct r3 as [d|e3|];
        [|injection Hc as <- <-; lazy iota; rewrite problem_at_tfs, T3; exact Hd2
         |injection Hc as <- <-; lazy iota; rewrite problem_at_tfs, T3; exact Hd2].
      assert (n <> ".") as Hn.
      { intro K. subst n. destruct (mkdir_dot E h s) as [e He]. rewrite He in MK0. discriminate. }
      destruct (R3 d eq_refl Hn) as (-> & _). rewrite Hhn in Hc.
      destruct (create_loop norm E slm dfm own fixed (create_dir_f norm E slm dfm ddm own fixed fuel)
                            (rn :: p) p (ke :: rest) [] s3) as [s4 cr] eqn:CL.
      injection Hc as <- <-.
      assert (tsorted (tfs s3)) as Hs3 by (rewrite T3; exact Hs2).
      destruct (create_loop_dsc _ p _ _ _ _ _
                  (fun d0 n0 cp0 tc0 sa sb rb Hrb => create_dir_eff _ _ _ _ _ _ _ _ _ _ _ _ _ _ _ Hrb)
                  IH Hv CL Hs3 ltac:(rewrite G3; exact Hst2)
                  ltac:(eapply Inv_empty; rewrite T3; exact D2)) as [Hi4 Hs4].
      apply (Inv_dsq H norm nameok slm rn p s4 cr Hs4 Hi4).
  Qed.

End CreateDir.

(* ================================================================== *)
(* the whole plan, arbitrary synchronizable entries                     *)
(* ================================================================== *)
Section General.
  Variable H : string -> string.
  Variable norm : path -> string -> option string.
  Variable nameok : name -> bool.
  Variable slm : slmode.
  Variable E : env.
  Variable rn : name.
  Variable ch : cache.
  Variable dfm ddm : N.
  Variable own : bool.
  Variable fixed : bool.
  Hypothesis Hmodes : modes_ok dfm.
  Hypothesis Hlink : fixed = true \/ own = false.
  Hypothesis rn_ok : rn <> ".".
  Hypothesis rn_skip : skip nameok rn = false.

  Notation dsq := (dsc H norm nameok slm rn).
  Notation sok := (store_ok H).

  (* synchronizable entries: directories, files, links *)
  Definition syncable (e : oentry) : Prop :=
    match e with
    | None | Some (EDir _) | Some (EFile _ _) | Some (ELink _) => True
    | _ => False
    end.

  Definition new_visible (e : oentry) : Prop :=
    match e with Some x => visible nameok x | None => True end.

  Lemma remove_dsc : forall p e s s' r,
    remove norm E rn ch slm p e s = (s', r) -> syncable e -> names_ok nameok p -> tsorted (tfs s) ->
    dsq (tfs s) p = e -> dsq (tfs s') p = r.
  Proof.
    intros p e s s' r Hr Hf Hn Hs Hpre.
    destruct e as [[ec|x dg|t| |msg|pc]|]; try contradiction;
      try (eapply (remove_flat_dsc H norm nameok slm E rn ch); try eassumption; exact I).
    pose proof (names_ok_path_ok _ _ Hn) as Hp. unfold remove in Hr.
    destruct (walk E rn p true s) as [s1 r1] eqn:W.
    destruct (walk_ro _ _ _ _ _ _ _ W) as (_ & T1 & _).
    assert (dsq (tfs s1) p = Some (EDir ec)) as Hpre1 by (rewrite T1; exact Hpre).
    assert (tsorted (tfs s1)) as Hs1 by (rewrite T1; exact Hs).
    destruct r1 as [[h n]|e1|];
      [|injection Hr as <- <-; exact Hpre1|injection Hr as <- <-; exact Hpre1].
    destruct (walk_hof _ _ _ _ _ _ _ _ W Hp) as [-> ->].
    destruct (remove_dir_f norm E ch slm (depth_entry (EDir ec)) (hof rn p) (lof rn p) p ec s1)
      as [[s2 ok] ec'] eqn:R.
    pose proof (remove_dir_dsc H norm nameok slm E rn ch _ _ _ _ _ _ _ _ _ R
                  (lof_nodot rn rn_ok p Hp) Hs1 (hof_lof rn p) Hpre1) as Hd.
    destruct ok; injection Hr as <- <-; exact Hd.
  Qed.

  Lemma create_dsc : forall p e s s' r,
    create norm E rn slm dfm ddm own fixed p e s = (s', r) -> syncable e -> new_visible e ->
    names_ok nameok p -> tsorted (tfs s) -> sok (tstg s) ->
    dsq (tfs s) p = None -> dsq (tfs s') p = r.
  Proof.
    intros p e s s' r Hc Hf Hv Hn Hs Hst Hpre.
    destruct e as [[tc|x dg|t| |msg|pc]|]; try contradiction;
      try (eapply (create_flat_dsc H norm nameok slm E rn dfm ddm own fixed Hmodes rn_skip);
           try eassumption; intros _; exact Hlink).
    pose proof (names_ok_path_ok _ _ Hn) as Hp. unfold create in Hc.
    destruct (walk E rn p false s) as [s1 r1] eqn:W.
    destruct (walk_ro _ _ _ _ _ _ _ W) as (_ & T1 & G1).
    assert (dsq (tfs s1) p = None) as Hpre1 by (rewrite T1; exact Hpre).
    destruct r1 as [[h n]|e1|];
      [|injection Hc as <- <-; exact Hpre1|injection Hc as <- <-; exact Hpre1].
    destruct (walk_hof _ _ _ _ _ _ _ _ W Hp) as [-> ->].
    destruct (create_dir_f norm E slm dfm ddm own fixed (depth_entry (EDir tc)) (hof rn p) (lof rn p) p tc s1)
      as [s2 r2] eqn:R.
    injection Hc as <- <-.
    pose proof (create_dir_dsc H norm nameok slm E rn dfm ddm own fixed Hmodes Hlink _ _ _ _ _ _ _ _ R
                  ltac:(rewrite T1; exact Hs) ltac:(rewrite G1; exact Hst) (hof_lof rn p) Hv) as Hd.
    destruct r2 as [cr|]; cbn [option_map]; [exact Hd|rewrite Hd; exact Hpre1].
  Qed.

  Definition item_gen (c : change) : Prop :=
    syncable (cold c) /\ syncable (cnew c) /\ new_visible (cnew c) /\ names_ok nameok (cpath c).

  Lemma trans_one_dsc : forall c s s' r,
    trans_one norm E rn ch slm dfm ddm own fixed c s = (s', r) -> item_gen c ->
    tsorted (tfs s) -> sok (tstg s) ->
    dsq (tfs s) (cpath c) = cold c ->
    dsq (tfs s') (cpath c) = r.
  Proof.
    intros c s s' r Ht (Fo & Fn & Vn & Hn) Hs Hst Hpre. pose proof (names_ok_path_ok _ _ Hn) as Hp.
    unfold trans_one in Ht.
    destruct (cancelled E s); [injection Ht as <- <-; exact Hpre|].
    assert (forall s1 r0, (let '(s1, r) := remove norm E rn ch slm (cpath c) (cold c) s in
                match r with
                | Some _ => (s1, r)
                | None => create norm E rn slm dfm ddm own fixed (cpath c) (cnew c) s1
                end) = (s1, r0) -> dsq (tfs s1) (cpath c) = r0) as RC.
    { intros s1 r0 H0. destruct (remove norm E rn ch slm (cpath c) (cold c) s) as [sa ra] eqn:R.
      pose proof (remove_dsc _ _ _ _ _ R Fo Hn Hs Hpre) as Ha.
      destruct ra; [injection H0 as <- <-; exact Ha|].
      pose proof (remove_eff _ _ _ _ _ rn_ok _ _ _ _ _ R Hp) as Ef.
      eapply create_dsc; try eassumption.
      - apply (eff_sorted _ _ _ _ Ef Hs).
      - eapply store_ok_le; [exact Hst|apply Ef]. }
    destruct (cold c) as [[ec|xo dgo|t| |msg|pc]|] eqn:CO; try (eapply RC; exact Ht).
    destruct (cnew c) as [[ec|xn dgn|t| |msg|pc]|] eqn:CN; try (eapply RC; exact Ht).
    destruct (swap_file E rn ch dfm own (cpath c) (EFile xo dgo) (EFile xn dgn) s) as [s1 r1] eqn:SW.
    pose proof (swap_dsc H norm nameok slm E rn ch dfm own Hmodes _ _ _ _ _ _ _ _ SW Hp Hs Hst
                  (lof_skip nameok rn rn_skip _ Hn) Hpre) as Hd.
    destruct r1 as [[]|e1|]; injection Ht as <- <-; cbn in Hd; rewrite ?problem_at_tfs; exact Hd.
  Qed.

  Theorem trans_loop_exact : forall plan s s' rs,
    trans_loop norm E rn ch slm dfm ddm own fixed plan s = (s', rs) ->
    Forall item_gen plan -> paths_disjoint (map cpath plan) = true ->
    tsorted (tfs s) -> sok (tstg s) ->
    Forall (fun c => dsq (tfs s) (cpath c) = cold c) plan ->
    Forall2 (fun c r => dsq (tfs s') (cpath c) = r) plan rs.
  Proof.
    induction plan as [|c rest IH]; intros s s' rs Hl HF Hd Hs Hst Hpre; cbn [trans_loop] in Hl.
    - injection Hl as _ <-. constructor.
    - inversion HF as [|? ? Hc HF']; subst. pose proof Hc as (Fo & Fn & Vn & Hn).
      inversion Hpre as [|? ? Hpc Hpre']; subst.
      cbn [map paths_disjoint] in Hd. apply andb_true_iff in Hd. destruct Hd as [Hd1 Hd2].
      destruct (trans_one norm E rn ch slm dfm ddm own fixed c s) as [s1 r] eqn:T1.
      destruct (trans_loop norm E rn ch slm dfm ddm own fixed rest s1) as [s2 rs2] eqn:TL.
      injection Hl as <- <-.
      pose proof (trans_one_dsc _ _ _ _ T1 Hc Hs Hst Hpc) as Hr.
      pose proof (trans_one_eff _ _ _ _ _ _ _ _ _ rn_ok _ _ _ _ T1 (names_ok_path_ok _ _ Hn)) as Ef.
      assert (Forall (fun c0 => names_ok nameok (cpath c0)) rest) as HN'.
      { eapply Forall_impl; [|exact HF']. intros c0 (_ & _ & _ & K0). exact K0. }
      constructor.
      + rewrite <- Hr. apply dsc_eq.
        eapply trans_loop_other; eassumption.
      + apply (IH _ _ _ TL HF' Hd2).
        * apply (eff_sorted _ _ _ _ Ef Hs).
        * eapply store_ok_le; [exact Hst|apply Ef].
        * rewrite Forall_forall in Hpre' |- *. intros c0 Hin. rewrite <- (Hpre' c0 Hin).
          apply dsc_eq. rewrite forallb_forall in Hd1.
          specialize (Hd1 (cpath c0) (in_map cpath _ _ Hin)). apply andb_true_iff in Hd1.
          destruct Hd1 as [D1 D2]. apply negb_true_iff in D1. apply negb_true_iff in D2.
          rewrite Forall_forall in HN'.
          eapply fr_other_path; [apply Ef|apply hof_lof|exact D1|exact D2|apply HN'; exact Hin].
  Qed.

End General.

Section ClosedExact.
  Variable H : string -> string.
  Variable norm : path -> string -> option string.
  Variable nameok : name -> bool.
  Variable slm : slmode.
  Variable E : env.
  Variable rn : name.
  Variable ch : cache.
  Variable dfm ddm : N.
  Variable own : bool.
  Variable fixed : bool.

  (* plans of synchronizable entries whose new names a scan reports *)
  Definition plan_ok (plan : list change) : Prop := Forall (item_gen nameok) plan.

  Theorem c09_exact_thm : forall fs0 stg plan,
    modes_ok dfm -> fixed = true \/ own = false -> rn <> "." -> skip nameok rn = false ->
    plan_ok plan -> paths_disjoint (map cpath plan) = true ->
    tsorted fs0 -> store_ok H stg ->
    pre_described H norm nameok slm rn fs0 plan = true ->
    check_c09 H norm nameok slm rn plan
              (tfs (fst (transition norm E rn ch slm dfm ddm own fixed fs0 stg plan)))
              (snd (transition norm E rn ch slm dfm ddm own fixed fs0 stg plan)) = true.
  Proof.
    intros fs0 stg plan Hm Hl Hrn Hrs Hp Hd Hs Hst Hpre.
    apply pre_described_iff in Hpre. apply check_c09_iff. unfold transition.
    destruct (trans_loop norm E rn ch slm dfm ddm own fixed plan (init_state fs0 stg)) as [s' rs] eqn:TL.
    cbn [fst snd]. unfold describes_all.
    eapply (trans_loop_exact H norm nameok slm E rn ch dfm ddm own fixed Hm Hl Hrn Hrs); eassumption.
  Qed.
End ClosedExact.
