(* C09: the [describe] of Model/Transition.v is what the C12 specification of a
   scan ([ScanSpec.describes], proved of the scan model in Props/C12.v) yields,
   restricted to synchronizable content; hence a scan taken after a transition
   agrees with the transition's results. *)
From Coq Require Import List Bool Arith String Ascii NArith Lia.
From Mv Require Import Model.Entry Model.Fs Model.FsExt Model.Transition Model.TransitionCheck
     Proof.EntryFacts Proof.FsFacts Proof.TransPrims Proof.TransFrames Proof.TransFuns
     Proof.TransEff Proof.TransitionC09 Proof.TransitionC09Dir Proof.TransitionC08Check
     Proof.TransitionC08Model.
From Mv Require Model.Scan Model.ScanSpec Proof.ScanC12Top.
Import ListNotations.
Open Scope string_scope.
Open Scope list_scope.

(* ---------- the scan configuration a transition's [describe] stands for ---------- *)
Definition to_sym (slm : slmode) : Scan.symmode :=
  match slm with
  | SLIgnore => Scan.SLIgnore
  | SLPortable => Scan.SLPortable
  | SLRaw => Scan.SLPosixRaw
  end.

(* portable permissions on a filesystem that preserves executability *)
Definition cfg_of (slm : slmode) (fix16 : bool) : Scan.config :=
  {| Scan.c_sym := to_sym slm; Scan.c_perm := Scan.PMPortable; Scan.c_preserves := true;
     Scan.c_decomposes := false; Scan.c_fix16 := fix16 |}.

(* normalizeSymbolicLinkAndEnsurePortable as the scan model has it *)
Definition norm_of (fix16 : bool) (p : path) (t : string) : option string :=
  match Scan.normalize_link fix16 p t with
  | inl t' => Some t'
  | inr _ => None
  end.

(* trees a fault-free scan reports without problems: one device, valid UTF-8
   listable names, file sizes and modification times as a scan accepts them *)
Inductive scannable (rd : N) : node -> Prop :=
| sc_dir : forall m c, m_dev m = rd ->
    (forall n y, In (n, y) c -> Scan.utf8_valid n = true /\ listed_name n = true /\ scannable rd y) ->
    scannable rd (NDir m c)
| sc_file : forall m d, strlen d = m_size m -> Scan.mtime_valid (m_mtime m) = true -> scannable rd (NFile m d)
| sc_link : forall m t, scannable rd (NLink m t)
| sc_other : forall m t, scannable rd (NOther m t).

Lemma scannable_get : forall rd p x y, scannable rd x -> get p x = Some y -> scannable rd y.
Proof.
  induction p as [|n p IH]; intros x y Hx Hg.
  - cbn in Hg. injection Hg as <-. exact Hx.
  - cbn [get] in Hg. destruct x as [m c| | |]; try discriminate.
    destruct (nlookup n c) as [z|] eqn:L; [|discriminate].
    inversion Hx as [? ? _ Hc| | |]; subst.
    apply (IH z y); [apply (Hc n z); apply nlookup_some_in; exact L|exact Hg].
Qed.

Section Bridge.
  Variable H : string -> string.
  Variable ign : path -> bool -> Scan.ival.
  Variable flt : path -> Scan.fop -> outcome.
  Variable slm : slmode.
  Variable fix16 : bool.

  (* no ignores, no failures *)
  Hypothesis Hign : forall p d, fst (ign p d) = Scan.INominal.
  Hypothesis Hflt : forall p op, flt p op = Ok.

  Notation sdescribes := (ScanSpec.describes H ign flt (cfg_of slm fix16)).
  Notation mydescribe := (describe H (norm_of fix16) Scan.utf8_valid slm).

  Lemma decide_scan : forall p d, ScanSpec.decide false (ign p d) = ScanSpec.DScan false.
  Proof. intros p d. unfold ScanSpec.decide. rewrite Hign. reflexivity. Qed.

  (* without failures nothing vanishes *)
  Lemma describes_none_absurd : forall rd p mask x, ~ ScanSpec.describes H ign flt (cfg_of slm fix16) rd p mask x None.
  Proof.
    intros rd p mask x Hd. inversion Hd; subst;
      match goal with K : flt _ _ = Fail _ |- _ => rewrite Hflt in K; discriminate end.
  Qed.

  Lemma skip_visible : forall n,
    Scan.is_temp n = false -> Scan.utf8_valid n = true -> listed_name n = true ->
    skip Scan.utf8_valid n = false.
  Proof.
    intros n Ht Hu Hl. unfold skip. change (String.prefix tmp_prefix n) with (Scan.is_temp n).
    rewrite Ht, Hu. change (listed n) with (listed_name n). rewrite Hl. reflexivity.
  Qed.

  Lemma skip_temp : forall n, Scan.is_temp n = true -> skip Scan.utf8_valid n = true.
  Proof.
    intros n Ht. unfold skip. change (String.prefix tmp_prefix n) with (Scan.is_temp n). rewrite Ht. reflexivity.
  Qed.

  Theorem describe_is_scan : forall rd x p oe,
    scannable rd x -> tsorted x ->
    sdescribes rd p false x oe ->
    synchronizable oe = mydescribe p x.
  Proof.
    intros rd x. induction x as [m c IH|m d|m t|m t] using node_nested_ind; intros p oe Hsc Hso Hd.
    - (* directories *)
      inversion Hsc as [? ? Hdev Hkids| | |]; subst.
      apply tsorted_dir_inv in Hso. destruct Hso as [Hsorted Hsub].
      rewrite (describe_dir H (norm_of fix16) Scan.utf8_valid slm p m c).
      inversion Hd as [ | | | | | | | | | | | | | ? ? ? ? Hne | ? ? ? ? _ Hf | ? ? ? ? ? _ Hf | ? ? ? ? ? _ _ Hf
                        | ? ? ? ? out _ _ _ Hk ]; subst;
        try (rewrite Hflt in Hf; discriminate); try congruence.
      cbn [synchronizable]. rewrite sync_entry_dir. f_equal. f_equal.
      inversion Hk as [? ? ? ? Hso1 Hk1 Hk2]; subst.
      apply contents_ext; [apply sync_list_sorted; exact Hso1|apply dch_sorted; exact Hsorted|].
      intro k. rewrite lookup_sync_list by exact Hso1. rewrite dch_lookup by exact Hsorted.
      unfold vd. destruct (lookup k out) as [e|] eqn:Lk.
      + (* k is listed: some child accounts for it *)
        destruct (Hk1 k e Lk) as (n & y & Hin & Hl).
        destruct (Hkids n y Hin) as (Hu & Hli & Hscy).
        pose proof (in_nlookup_sorted n y c Hsorted Hin) as Ln.
        inversion Hl as [ | ? ? ? ? _ Hnu | ? ? ? ? ? _ _ | ? ? ? ? _ _ _ Hdec
                          | | ? ? ? ? mask' ? Htmp _ _ Hdec Hdy ]; subst.
        * congruence.
        * rewrite Ln. cbn [synchronizable sync_entry]. destruct (skip Scan.utf8_valid k); reflexivity.
        * rewrite decide_scan in Hdec. discriminate.
        * rewrite decide_scan in Hdec. injection Hdec as <-.
          rewrite Ln, (skip_visible k Htmp Hu Hli). cbn [odescribe].
          rewrite Forall_forall in IH. apply (IH (k, y) Hin); [exact Hscy|eapply Hsub; exact Hin|exact Hdy].
      + (* k is not listed *)
        destruct (nlookup k c) as [y|] eqn:Ln; [|destruct (skip Scan.utf8_valid k); reflexivity].
        pose proof (nlookup_some_in _ _ _ Ln) as Hin.
        destruct (Hkids k y Hin) as (Hu & Hli & Hscy).
        destruct (Hk2 k y Hin) as (l & Hl & Hout).
        inversion Hl as [ ? ? ? ? Htmp | ? ? ? ? _ Hnu | ? ? ? ? ? _ _ | ? ? ? ? _ _ _ Hdec
                          | ? ? ? ? mask' _ _ _ Hdec Hdy | ? ? ? ? mask' ? _ _ _ _ _ ]; subst.
        * rewrite (skip_temp k Htmp). reflexivity.
        * congruence.
        * rewrite Lk in Hout. discriminate.
        * rewrite decide_scan in Hdec. discriminate.
        * exfalso. exact (describes_none_absurd _ _ _ _ Hdy).
        * rewrite Lk in Hout. discriminate.
    - (* regular files *)
      inversion Hsc as [| ? ? Hsz Hmt | |]; subst.
      inversion Hd as [ ? ? ? ? Hf | ? ? ? ? ? Hf | ? ? ? ? ? _ Hf | ? ? ? ? _ _ Hne | ? ? ? ? _ _ _ Hmv
                        | | | | | | | | | | | | | ]; subst;
        try (rewrite Hflt in Hf; discriminate); try congruence.
      reflexivity.
    - (* symbolic links *)
      inversion Hd as [ | | | | | | ? ? ? ? Hs | ? ? ? ? _ Hf | ? ? ? ? ? _ Hf | ? ? ? ? t' Hs _ Hn
                        | ? ? ? ? msg Hs _ Hn | ? ? ? ? Hs _ Hne | ? ? ? Hs _ | | | | | ]; subst;
        try (rewrite Hflt in Hf; discriminate).
      + destruct slm; cbn in Hs; try discriminate. reflexivity.
      + destruct slm; cbn in Hs; try discriminate. cbn [Scan.c_fix16 cfg_of] in Hn.
        cbn [describe]. unfold norm_of. rewrite Hn. reflexivity.
      + destruct slm; cbn in Hs; try discriminate. cbn [Scan.c_fix16 cfg_of] in Hn.
        cbn [describe]. unfold norm_of. rewrite Hn. reflexivity.
      + destruct slm; cbn in Hs; try discriminate. cbn.
        destruct (String.eqb t "") eqn:Et; [apply String.eqb_eq in Et; contradiction|reflexivity].
      + destruct slm; cbn in Hs; try discriminate. reflexivity.
    - (* other types are never described at this level *)
      inversion Hd.
  Qed.
End Bridge.

(* ================================================================== *)
(* a scan after the transition agrees with the results                  *)
(* ================================================================== *)
Lemma at_path_none : forall q, at_path None q = None.
Proof. induction q as [|n q IH]; [reflexivity|]. cbn. exact IH. Qed.

Section AtPath.
  Variable H : string -> string.
  Variable norm : path -> string -> option string.
  Variable nameok : name -> bool.
  Variable slm : slmode.

  (* the description of a tree, looked up at a path, is the description of
     what lies at that path *)
  Lemma describe_at_path : forall q p x,
    tsorted x -> Forall (fun k => skip nameok k = false) q ->
    at_path (describe H norm nameok slm p x) q = odescribe H norm nameok slm (p ++ q) (get q x).
  Proof.
    induction q as [|n q IH]; intros p x Hs Hq.
    - cbn. rewrite app_nil_r. reflexivity.
    - inversion Hq as [|? ? Hn Hq']; subst. cbn [at_path get].
      destruct x as [m c|m d|m t|m t].
      + rewrite (describe_dir H norm nameok slm p m c). cbn [contents].
        apply tsorted_dir_inv in Hs. destruct Hs as [Hsc Hsub].
        rewrite (dch_lookup H norm nameok slm p c n Hsc). unfold vd. rewrite Hn.
        destruct (nlookup n c) as [y|] eqn:Ln.
        * cbn [odescribe]. rewrite (IH (p ++ [n]) y); [|eapply Hsub; apply nlookup_some_in; exact Ln|exact Hq'].
          rewrite <- app_assoc. reflexivity.
        * cbn [odescribe]. apply at_path_none.
      + cbn [describe contents lookup]. apply at_path_none.
      + cbn [describe]. destruct slm; cbn [option_map contents lookup]; try apply at_path_none.
        * destruct (norm p t); cbn; apply at_path_none.
        * destruct (String.eqb t ""); cbn; apply at_path_none.
      + cbn [describe contents lookup]. apply at_path_none.
  Qed.
End AtPath.

Section Agrees.
  Variable H : string -> string.
  Variable ign : path -> bool -> Scan.ival.
  Variable flt : path -> Scan.fop -> outcome.
  Variable slm : slmode.
  Variable fix16 : bool.
  Variable E : env.
  Variable rn : name.
  Variable ch : cache.
  Variable dfm ddm : N.
  Variable own : bool.
  Variable fixed : bool.

  Hypothesis Hign : forall p d, fst (ign p d) = Scan.INominal.
  Hypothesis Hflt : forall p op, flt p op = Ok.

  Notation norm := (norm_of fix16).
  Notation nameok := Scan.utf8_valid.

  Lemma trans_loop_sorted : forall plan s s' rs,
    rn <> "." ->
    trans_loop norm E rn ch slm dfm ddm own fixed plan s = (s', rs) ->
    Forall (fun c => path_ok (cpath c)) plan -> tsorted (tfs s) -> tsorted (tfs s').
  Proof.
    intros plan s s' rs Hrn. revert s s' rs.
    induction plan as [|c rest IH]; intros s s' rs Hl HF Hs; cbn [trans_loop] in Hl.
    - injection Hl as <- _. exact Hs.
    - inversion HF as [|? ? Hc HF']; subst.
      destruct (trans_one norm E rn ch slm dfm ddm own fixed c s) as [s1 r] eqn:T1.
      destruct (trans_loop norm E rn ch slm dfm ddm own fixed rest s1) as [s2 rs2] eqn:TL.
      injection Hl as <- _. eapply IH; [exact TL|exact HF'|].
      eapply eff_sorted; [|exact Hs]. eapply trans_one_eff; eassumption.
  Qed.

  Lemma root_opened_ok : forall p op, Scan.root_opened flt p op = Ok.
  Proof. intros p op. unfold Scan.root_opened. destruct p; destruct op; first [reflexivity|apply Hflt]. Qed.

  (* what a fault-free scan without ignores may meet after the transition *)
  Definition scan_ready (root : option node) : Prop :=
    match root with
    | Some x => ScanSpec.scan_wf x = true /\ scannable (m_dev (node_meta x)) x
    | None => True
    end.

  Theorem c09_scan_agrees_thm : forall fs0 stg plan,
    modes_ok dfm -> fixed = true \/ own = false -> rn <> "." -> skip nameok rn = false ->
    plan_ok nameok plan -> paths_disjoint (map cpath plan) = true ->
    tsorted fs0 -> store_ok H stg ->
    pre_described H norm nameok slm rn fs0 plan = true ->
    let '(s', rs) := transition norm E rn ch slm dfm ddm own fixed fs0 stg plan in
    forall snap c ic,
      scan_ready (get [rn] (tfs s')) ->
      Scan.scan_full H ign flt (cfg_of slm fix16) (get [rn] (tfs s')) = Scan.SOk snap c ic ->
      Forall2 (fun chg r => at_path (synchronizable (Scan.s_content snap)) (cpath chg) = r) plan rs.
  Proof.
    intros fs0 stg plan Hm Hl Hrn Hrs Hp Hd Hs Hst Hpre.
    pose proof (c09_exact_thm H norm nameok slm E rn ch dfm ddm own fixed fs0 stg plan
                  Hm Hl Hrn Hrs Hp Hd Hs Hst Hpre) as Hx.
    apply check_c09_iff in Hx. unfold transition in *.
    destruct (trans_loop norm E rn ch slm dfm ddm own fixed plan (init_state fs0 stg)) as [s' rs] eqn:TL.
    cbn [fst snd] in Hx. intros snap c ic Hready Hscan.
    assert (tsorted (tfs s')) as Hs'.
    { eapply trans_loop_sorted; [exact Hrn|exact TL| |exact Hs].
      eapply Forall_impl; [|exact Hp]. intros c0 (_ & _ & _ & K0). eapply names_ok_path_ok. exact K0. }
    unfold describes_all in Hx.
    (* the snapshot content, restricted to synchronizable content, is the
       description of the root *)
    assert (forall p, Forall (fun k => skip nameok k = false) p ->
              at_path (synchronizable (Scan.s_content snap)) p = dsc H norm nameok slm rn (tfs s') p) as Key.
    { intros p Hnp. unfold dsc. change (rn :: p) with ([rn] ++ p). rewrite get_app.
      destruct (get [rn] (tfs s')) as [x'|] eqn:Gr.
      - destruct Hready as [Hwf Hsc].
        pose proof (ScanC12Top.c12_describes_lemma H ign flt (cfg_of slm fix16) x' snap c ic Hwf
                      (Hflt [] Scan.FOpenRoot) Hscan) as Hdesc.
        assert (tsorted x') as Hsx by (eapply tsorted_get; eassumption).
        rewrite (describe_is_scan H ign (Scan.root_opened flt) slm fix16 Hign root_opened_ok
                   _ x' [] _ Hsc Hsx Hdesc).
        rewrite (describe_at_path H norm nameok slm p [] x' Hsx Hnp). reflexivity.
      - destruct (ScanC12Top.c12_absent_lemma H ign flt (cfg_of slm fix16) snap c ic Hscan) as [Hc _].
        rewrite Hc. cbn [synchronizable odescribe]. apply at_path_none. }
    clear - Hx Key Hp. revert rs Hx. induction plan as [|c0 rest IH]; intros rs Hx.
    - inversion Hx. constructor.
    - inversion Hx as [|? ? ? ? Hc Hr]; subst. inversion Hp as [|? ? (_ & _ & _ & Hn0) Hp']; subst.
      constructor; [rewrite Key by exact Hn0; reflexivity|apply IH; assumption].
  Qed.
End Agrees.
