(* C38: parsed URLs are valid and round-trip through Format / Parse. *)
From Coq Require Import List Bool Arith NArith Lia String.
From Coq.Strings Require Import Byte.
Import ListNotations.
From Mv Require Import Common.Str Proof.Str Model.Url
     Proof.UrlBase Proof.UrlSsh Proof.UrlClass Proof.UrlDocker.
Open Scope N_scope.

(* ================================================================ *)
(* SSH                                                               *)

Lemma upart_no_colon : forall user,
    none_sat (is_sep_or_at c_colon) user = true -> none_sat (byte_is c_colon) (upart user) = true.
Proof.
  intros user Nu. destruct user as [|u0 us]; [reflexivity|]. cbn [upart].
  rewrite none_sat_app. destruct (none_sep_or_at_split _ _ Nu) as [Nc _]. rewrite Nc. reflexivity.
Qed.

(* does Format print the port? *)
Definition emits_port (fx : fixes) (user host : str) (port : N) (path : str) : bool :=
  negb (port =? 0)
  || (fx_port0 fx && (port_like_prefix path || is_docker_url (upart user ++ host ++ c_colon :: path))).

Lemma format_ssh_shape : forall fx k user host port path,
    format fx (mk_ssh k user host port path)
    = upart user ++ host ++ c_colon
        :: (if emits_port fx user host port path then N_to_dec port ++ [c_colon] else []) ++ path.
Proof.
  intros fx k user host port path. unfold format, format_ssh, emits_port.
  cbn [u_proto u_host u_user u_port u_path mk_ssh].
  assert (R1 : match user with [] => host | b :: l => (b :: l) ++ c_at :: host end = upart user ++ host).
  { destruct user; [reflexivity|]. cbn [upart]. rewrite <- app_assoc. reflexivity. }
  rewrite R1. rewrite <- !app_assoc.
  destruct (negb (port =? 0)
            || fx_port0 fx && (port_like_prefix path || is_docker_url (upart user ++ host ++ c_colon :: path))).
  - rewrite <- !app_assoc. reflexivity.
  - reflexivity.
Qed.

Lemma digit_not_slash : forall d, is_digit d = true -> d <> c_slash.
Proof. intros d H ->. vm_compute in H. discriminate. Qed.

Lemma ssh_roundtrip : forall fx raw k u,
    fx_port0 fx = true ->
    is_docker_url raw = false -> is_scp_ssh_url raw k = true ->
    parse_ssh fx raw k = inr u ->
    format fx u <> [] /\ is_docker_url (format fx u) = false
    /\ is_scp_ssh_url (format fx u) k = true /\ parse_ssh fx (format fx u) k = inr u.
Proof.
  intros fx raw k u F ND SC H.
  destruct (parse_ssh_inv _ _ _ _ H)
    as (user & host & port & pp & path & -> & -> & Nu & Nh & Hh & Hat & PSH & PK & D).
  rewrite format_ssh_shape.
  set (emit := emits_port fx user host port path).
  set (pp' := if emit then N_to_dec port ++ [c_colon] else []).
  assert (Hport : port <= 65535).
  { destruct PSH as [(-> & _ & _)|(ds & _ & _ & PU)]; [lia|]. apply (parse_uint16_bound _ _ PU). }
  (* the port part of the formatted text denotes the same port, and when the
     port is left out the text is neither port-like nor Docker-like *)
  assert (PSH' : port_shape port pp' path
                 /\ (emit = false -> is_docker_url (upart user ++ host ++ c_colon :: path) = false)
                 /\ (emit = true -> exists d ds, pp' = d :: ds /\ is_digit d = true)).
  { subst pp'. destruct emit eqn:E.
    - destruct (port_dec_roundtrip port Hport) as (A1 & A2 & A3).
      split; [|split].
      + right. exists (N_to_dec port). repeat split; auto.
      + intro C. discriminate.
      + intros _. destruct (N_to_dec port) as [|d ds'] eqn:E2; [contradiction|].
        exists d, (ds' ++ [c_colon]). split; [reflexivity|].
        unfold all_digits in A1. cbn [forallb] in A1. apply andb_true_iff in A1 as [A1 _]. exact A1.
    - subst emit. unfold emits_port in E. rewrite F in E. cbn [andb] in E.
      apply orb_false_iff in E as [E1 E2]. apply orb_false_iff in E2 as [E2 E3].
      apply negb_false_iff in E1. apply N.eqb_eq in E1.
      rewrite port_like_prefix_free in E2. apply negb_false_iff in E2.
      split; [|split].
      + left. auto.
      + intros _. exact E3.
      + intro C. discriminate. }
  destruct PSH' as (PSH' & Pno & Pyes).
  assert (Npre : none_sat (byte_is c_colon) (upart user ++ host) = true).
  { rewrite none_sat_app, (upart_no_colon _ Nu), Nh. reflexivity. }
  assert (Hpath : k = KFwd -> path <> [] /\ (1 <= count c_colon path)%nat).
  { intros ->. destruct PK as [r PK]. split.
    - intro E. rewrite E in PK. discriminate.
    - apply (fwd_parse_has_colon _ _ PK). }
  split; [|split; [|split]].
  - intro E. apply app_eq_nil in E as [_ E]. apply app_eq_nil in E as [_ E]. discriminate.
  - (* not a Docker URL *)
    destruct user as [|u0 us].
    + cbn [upart app].
      destruct emit eqn:E.
      * destruct (Pyes eq_refl) as (d & ds & -> & Hd). cbn [app].
        apply docker_url_after_colon; [exact Nh | apply digit_not_slash; exact Hd].
      * subst pp'. cbn [app]. apply (Pno eq_refl).
    + cbn [upart]. rewrite <- app_assoc.
      change ([c_at] ++ host ++ c_colon :: pp' ++ path) with (c_at :: host ++ c_colon :: pp' ++ path).
      apply docker_url_no_user. exact Nu.
  - (* still classified as SCP-style SSH *)
    rewrite app_assoc in SC |- *.
    destruct k; cbn [is_scp_ssh_url] in SC |- *.
    + rewrite (colon_before_slash_app _ (pp ++ path) Npre) in SC.
      rewrite (colon_before_slash_app _ (pp' ++ path) Npre). exact SC.
    + destruct (Hpath eq_refl) as [Pne Pc].
      destruct (fwd_parse ((upart user ++ host) ++ c_colon :: pp ++ path)) eqn:FP; [discriminate|].
      apply (fwd_parse_none_iff _ (pp ++ path) Npre) in FP;
        [|intro E; apply app_eq_nil in E as [_ E]; contradiction].
      assert (FP' : fwd_parse ((upart user ++ host) ++ c_colon :: pp' ++ path) = None).
      { apply (fwd_parse_none_iff _ (pp' ++ path) Npre); [|exact FP].
        intro E; apply app_eq_nil in E as [_ E]; contradiction. }
      rewrite FP'. apply Nat.leb_le.
      rewrite !count_app, count_cons_eq, count_app. lia.
  - apply parse_ssh_intro.
    exists user, host, port, pp', path. repeat split; auto; apply D; auto.
Qed.

Lemma ssh_valid : forall fx raw k u, parse_ssh fx raw k = inr u -> url_valid fx u = true.
Proof.
  intros fx raw k u H.
  destruct (parse_ssh_inv _ _ _ _ H)
    as (user & host & port & pp & path & -> & _ & Nu & Nh & Hh & Hat & PSH & PK & D).
  unfold url_valid. cbn [u_proto u_kind u_host u_port u_env u_user u_path mk_ssh].
  assert (Hport : port <=? 65535 = true).
  { apply N.leb_le. destruct PSH as [(-> & _ & _)|(ds & _ & _ & PU)]; [lia|].
    apply (parse_uint16_bound _ _ PU). }
  assert (Hd : negb (fx_dash fx && (starts_with_dash user || starts_with_dash host)) = true).
  { destruct (fx_dash fx) eqn:F; [|reflexivity]. destruct (D eq_refl) as [-> ->]. reflexivity. }
  rewrite Hport, Hd. destruct host; [contradiction|]. cbn [is_nil negb andb].
  destruct k; cbn [path_ok] in PK.
  - destruct path; [contradiction|]. reflexivity.
  - destruct PK as [[p a] PK]. rewrite PK. reflexivity.
Qed.

(* ================================================================ *)
(* Docker                                                            *)

Lemma docker_roundtrip : forall fx raw k env u,
    fx_duser fx = true ->
    parse_docker fx raw k env = inr u ->
    format fx u <> [] /\ is_docker_url (format fx u) = true
    /\ parse_docker fx (format fx u) k env = inr u.
Proof.
  intros fx raw k env u F H.
  destruct (parse_docker_inv _ _ _ _ _ F H)
    as (user & cont & t & R & Nu & Nc & Hc & Hat & D & Hu).
  assert (Eu : u = mk_docker k user cont
                     (match k with KSync => docker_sync_path (c_slash :: t) | KFwd => t end) env).
  { destruct k; [exact Hu | destruct Hu as [-> _]; reflexivity]. }
  destruct (format_docker_parsed k user cont t env) as (t' & Ef & Et).
  assert (Efmt : format fx u = docker_prefix ++ upart user ++ cont ++ split_of k :: t').
  { rewrite Eu. unfold format. cbn [u_proto mk_docker]. exact Ef. }
  rewrite Efmt.
  split; [discriminate|]. split; [apply docker_url_prefix|].
  apply parse_docker_intro. rewrite skipn_docker_prefix.
  exists user, cont, t'. repeat split; auto; try (apply D; auto).
  destruct k.
  - rewrite Et. exact Hu.
  - subst t'. exact Hu.
Qed.

Lemma docker_valid : forall fx raw k env u,
    parse_docker fx raw k env = inr u -> url_valid fx u = true.
Proof.
  intros fx raw k env u H.
  destruct (parse_docker_fields _ _ _ _ _ H) as (Ek & Ep & Hh & Hp & D & Hpath).
  unfold url_valid. rewrite Ep, Ek, Hp.
  assert (Hd : negb (fx_dash fx && (starts_with_dash (u_user u) || starts_with_dash (u_host u))) = true).
  { destruct (fx_dash fx) eqn:F; [|reflexivity]. destruct (D eq_refl) as [-> ->]. reflexivity. }
  rewrite Hd. destruct (u_host u); [contradiction|]. cbn [is_nil negb andb N.eqb].
  destruct k.
  - destruct Hpath as [t Et]. rewrite Et.
    destruct (docker_sync_path_roundtrip t) as (t' & Ef & _).
    pose proof (docker_fmt_path_valid _ _ Ef) as V.
    destruct (docker_sync_path (c_slash :: t)); [discriminate|]. cbn [is_nil negb andb]. exact V.
  - destruct Hpath as [[p a] FP]. rewrite FP. reflexivity.
Qed.

(* ================================================================ *)
(* Local                                                             *)

Section Local.
Variable normalize : str -> option str.
(* what is assumed of filesystem.Normalize: its results are absolute paths and
   normalizing a normalized path changes nothing *)
Hypothesis normalize_abs : forall s n, normalize s = Some n -> is_abs n = true.
Hypothesis normalize_idem : forall s n, normalize s = Some n -> normalize n = Some n.

Definition mk_local (k : kind) (path : str) : url :=
  {| u_kind := k; u_proto := PLocal; u_user := []; u_host := []; u_port := 0;
     u_path := path; u_env := []; u_params := [] |}.

Lemma abs_nonempty : forall s, is_abs s = true -> s <> [].
Proof. intros [|x t] H; [discriminate|discriminate]. Qed.

Lemma local_roundtrip : forall fx raw k u,
    is_docker_url raw = false -> is_scp_ssh_url raw k = false ->
    parse_local normalize raw k = inr u ->
    format fx u <> [] /\ is_docker_url (format fx u) = false
    /\ is_scp_ssh_url (format fx u) k = false /\ parse_local normalize (format fx u) k = inr u.
Proof.
  intros fx raw k u ND NS H. unfold parse_local in H. destruct k.
  - destruct (normalize raw) as [n|] eqn:En; [|discriminate]. inversion H; subst u.
    unfold format. cbn [u_proto u_path].
    pose proof (normalize_abs _ _ En) as A.
    split; [apply abs_nonempty; exact A|].
    split; [apply docker_url_abs; exact A|].
    split; [cbn [is_scp_ssh_url]; apply colon_before_slash_abs; exact A|].
    unfold parse_local. rewrite (normalize_idem _ _ En). reflexivity.
  - destruct (fwd_parse raw) as [[proto addr]|] eqn:FP; [|discriminate].
    destruct (fwd_parse_some _ _ _ FP) as (Eraw & Np & V & Ha).
    destruct (str_eqb proto s_unix) eqn:Ux.
    + destruct (normalize addr) as [n|] eqn:En; [|discriminate]. inversion H; subst u.
      unfold format. cbn [u_proto u_path].
      pose proof (normalize_abs _ _ En) as A.
      pose proof (fwd_parse_intro proto n V (abs_nonempty _ A)) as FP'.
      split; [destruct proto; discriminate|].
      split; [apply docker_url_endpoint; exact V|].
      split; [cbn [is_scp_ssh_url]; rewrite FP'; reflexivity|].
      unfold parse_local. rewrite FP', Ux, (normalize_idem _ _ En). reflexivity.
    + inversion H; subst u. unfold format. cbn [u_proto u_path].
      split; [rewrite Eraw; destruct proto; discriminate|].
      split; [exact ND|]. split; [exact NS|].
      unfold parse_local. rewrite FP, Ux. reflexivity.
Qed.

Lemma local_valid : forall fx raw k u,
    parse_local normalize raw k = inr u -> url_valid fx u = true.
Proof.
  intros fx raw k u H. unfold parse_local in H. destruct k.
  - destruct (normalize raw) as [n|] eqn:En; [|discriminate]. inversion H; subst u.
    unfold url_valid. cbn.
    pose proof (normalize_abs _ _ En) as A. rewrite A.
    destruct n; [discriminate|]. reflexivity.
  - destruct (fwd_parse raw) as [[proto addr]|] eqn:FP; [|discriminate].
    destruct (fwd_parse_some _ _ _ FP) as (Eraw & Np & V & Ha).
    destruct (str_eqb proto s_unix) eqn:Ux.
    + destruct (normalize addr) as [n|] eqn:En; [|discriminate]. inversion H; subst u.
      pose proof (normalize_abs _ _ En) as A.
      unfold url_valid. cbn [u_proto u_kind u_user u_host u_port u_env u_params u_path].
      rewrite (fwd_parse_intro proto n V (abs_nonempty _ A)). rewrite A, orb_true_r. reflexivity.
    + inversion H; subst u.
      unfold url_valid. cbn [u_proto u_kind u_user u_host u_port u_env u_params u_path].
      rewrite FP, Ux. reflexivity.
Qed.

(* ================================================================ *)
(* Parse                                                             *)

Theorem parse_valid : forall fx raw k env u,
    parse normalize fx raw k env = inr u -> url_valid fx u = true.
Proof.
  intros fx raw k env u H. unfold parse in H. destruct raw as [|x t]; [discriminate|].
  destruct (is_docker_url (x :: t)).
  - apply (docker_valid _ _ _ _ _ H).
  - destruct (is_scp_ssh_url (x :: t) k).
    + apply (ssh_valid _ _ _ _ H).
    + apply (local_valid _ _ _ _ H).
Qed.

Theorem parse_roundtrip : forall fx raw k env u,
    fx_port0 fx = true -> fx_duser fx = true ->
    parse normalize fx raw k env = inr u ->
    parse normalize fx (format fx u) k env = inr u.
Proof.
  intros fx raw k env u F1 F2 H. unfold parse in H. destruct raw as [|x t]; [discriminate|].
  destruct (is_docker_url (x :: t)) eqn:DK.
  - destruct (docker_roundtrip _ _ _ _ _ F2 H) as (Hne & Hd & Hp).
    unfold parse. destruct (format fx u); [contradiction|]. rewrite Hd. exact Hp.
  - destruct (is_scp_ssh_url (x :: t) k) eqn:SC.
    + destruct (ssh_roundtrip _ _ _ _ F1 DK SC H) as (Hne & Hd & Hs & Hp).
      unfold parse. destruct (format fx u); [contradiction|]. rewrite Hd, Hs. exact Hp.
    + destruct (local_roundtrip fx _ _ _ DK SC H) as (Hne & Hd & Hs & Hp).
      unfold parse. destruct (format fx u); [contradiction|]. rewrite Hd, Hs. exact Hp.
Qed.

(* ---------- the checker ---------- *)

Theorem check_C38_model_passes : forall fx raw k env,
    fx_port0 fx = true -> fx_duser fx = true ->
    let out1 := parse normalize fx raw k env in
    check_C38 out1
      (match out1 with inr u => url_valid fx u | inl _ => false end)
      (match out1 with inr u => parse normalize fx (format fx u) k env | inl e => inl e end) = true.
Proof.
  intros fx raw k env F1 F2. cbv zeta.
  destruct (parse normalize fx raw k env) as [e|u] eqn:E; [reflexivity|].
  cbn [check_C38]. rewrite (parse_valid _ _ _ _ _ E), (parse_roundtrip _ _ _ _ _ F1 F2 E).
  cbn [andb]. apply url_eqb_eq. reflexivity.
Qed.

End Local.

Lemma check_C38_sound : forall out1 valid1 out2,
    check_C38 out1 valid1 out2 = true ->
    forall u, out1 = inr u -> valid1 = true /\ out2 = inr u.
Proof.
  intros out1 valid1 out2 H u ->. cbn [check_C38] in H.
  apply andb_true_iff in H as [H1 H2]. split; [exact H1|].
  destruct out2 as [e|u']; [discriminate|]. apply url_eqb_eq in H2. subst. reflexivity.
Qed.

(* ================================================================ *)
(* The code as it is: refutations (each repair is needed)            *)

Definition no_normalize (s : str) : option str := None.

Definition port0_only : fixes := {| fx_port0 := true; fx_duser := false; fx_dash := false |}.
Definition duser_only : fixes := {| fx_port0 := false; fx_duser := true; fx_dash := false |}.

Definition refutes (fx : fixes) (raw : str) (k : kind) : Prop :=
  exists u u', parse no_normalize fx raw k [] = inr u
               /\ url_valid fx u = true
               /\ parse no_normalize fx (format fx u) k [] = inr u'
               /\ u' <> u.

Lemma refuted_port_zero : refutes unfixed (B "host:0:22:foo") KSync.
Proof.
  eexists. eexists. split; [vm_compute; reflexivity|]. split; [vm_compute; reflexivity|].
  split; [vm_compute; reflexivity|]. discriminate.
Qed.

Lemma refuted_port_zero_duser_only : refutes duser_only (B "host:0:22:foo") KSync.
Proof.
  eexists. eexists. split; [vm_compute; reflexivity|]. split; [vm_compute; reflexivity|].
  split; [vm_compute; reflexivity|]. discriminate.
Qed.

(* the protocol itself changes: an SSH URL re-parses as a Docker URL *)
Lemma refuted_port_zero_docker : refutes unfixed (B "docker:0://x/y") KSync.
Proof.
  eexists. eexists. split; [vm_compute; reflexivity|]. split; [vm_compute; reflexivity|].
  split; [vm_compute; reflexivity|]. discriminate.
Qed.

Lemma refuted_docker_empty_user : refutes unfixed (B "docker://@a@b/p") KSync.
Proof.
  eexists. eexists. split; [vm_compute; reflexivity|]. split; [vm_compute; reflexivity|].
  split; [vm_compute; reflexivity|]. discriminate.
Qed.

Lemma refuted_docker_empty_user_port0_only : refutes port0_only (B "docker://@a@b/p") KSync.
Proof.
  eexists. eexists. split; [vm_compute; reflexivity|]. split; [vm_compute; reflexivity|].
  split; [vm_compute; reflexivity|]. discriminate.
Qed.

(* with the repairs: the two port-zero witnesses parse as before (parsing is
   unchanged) and now come back unchanged, because Format prints the zero port;
   the Docker witness is rejected by the parser *)
Lemma fixed_witnesses :
  (exists u, parse no_normalize fixed_all (B "host:0:22:foo") KSync [] = inr u
             /\ u_port u = 0 /\ u_path u = B "22:foo"
             /\ format fixed_all u = B "host:0:22:foo"
             /\ parse no_normalize fixed_all (format fixed_all u) KSync [] = inr u)
  /\ (exists u, parse no_normalize fixed_all (B "docker:0://x/y") KSync [] = inr u
                /\ u_proto u = PSSH
                /\ format fixed_all u = B "docker:0://x/y"
                /\ parse no_normalize fixed_all (format fixed_all u) KSync [] = inr u)
  /\ (exists u, parse no_normalize fixed_all (B "host:00:path") KSync [] = inr u
                /\ format fixed_all u = B "host:path"
                /\ parse no_normalize fixed_all (format fixed_all u) KSync [] = inr u)
  /\ parse no_normalize fixed_all (B "docker://@a@b/p") KSync [] = inl EEmptyUser.
Proof.
  split; [|split; [|split]].
  - eexists. split; [vm_compute; reflexivity|]. repeat split; vm_compute; reflexivity.
  - eexists. split; [vm_compute; reflexivity|]. repeat split; vm_compute; reflexivity.
  - eexists. split; [vm_compute; reflexivity|]. repeat split; vm_compute; reflexivity.
  - vm_compute. reflexivity.
Qed.

(* the two conditions of the format rule are independent, and each is needed:
   the first witness is not Docker-like, the second has no port-like prefix,
   and under the code as it is (neither condition) both fail to round-trip
   (refuted_port_zero, refuted_port_zero_docker) *)
Lemma format_rule_conditions_independent :
  port_like_prefix (B "22:foo") = true /\ is_docker_url (B "host:22:foo") = false
  /\ port_like_prefix (B "//x/y") = false /\ is_docker_url (B "docker://x/y") = true
  /\ port_like_prefix (B ":x") = true.
Proof. vm_compute. repeat split; reflexivity. Qed.

(* non-vacuity: URLs of all three protocols and both kinds that parse with the
   repairs in place, with a port, a user, a Windows path, a normalized socket *)
Definition demo_normalize (s : str) : option str :=
  if is_abs s then Some s else Some (c_slash :: s).

Lemma demo_normalize_ok :
  (forall s n, demo_normalize s = Some n -> is_abs n = true)
  /\ (forall s n, demo_normalize s = Some n -> demo_normalize n = Some n).
Proof.
  split; intros s n H; unfold demo_normalize in *.
  - destruct (is_abs s) eqn:A; inversion H; subst; [exact A|reflexivity].
  - destruct (is_abs s) eqn:A; inversion H; subst; [rewrite A; reflexivity|reflexivity].
Qed.

Lemma parse_examples :
  (exists u, parse demo_normalize fixed_all (B "user@example.com:0022:~/proj") KSync [] = inr u
             /\ u_port u = 22 /\ format fixed_all u = B "user@example.com:22:~/proj")
  /\ (exists u, parse demo_normalize fixed_all (B "DOCKER://root@box/~C:\data") KSync
                      [(B "DOCKER_HOST", B "tcp://h:1")] = inr u
                /\ u_path u = B "C:\data" /\ format fixed_all u = B "docker://root@box/C:\data")
  /\ (exists u, parse demo_normalize fixed_all (B "unix:run/s.sock") KFwd [] = inr u
                /\ format fixed_all u = B "unix:/run/s.sock")
  /\ (exists u, parse demo_normalize fixed_all (B "h:tcp:localhost:80") KFwd [] = inr u
                /\ u_proto u = PSSH).
Proof.
  repeat split; eexists; (split; [vm_compute; reflexivity|]); repeat split; vm_compute; reflexivity.
Qed.
