(* Lemmas for C38 (and the URL part of C36) about Model/Url.v. *)
From Coq Require Import List Bool Arith NArith Lia String.
From Coq.Strings Require Import Byte.
Import ListNotations.
From Mv Require Import Common.Str Proof.Str Model.Url.
Open Scope N_scope.

(* ================================================================ *)
(* break_at                                                          *)

Definition none_sat (p : byte -> bool) (s : str) : bool := forallb (fun x => negb (p x)) s.

Lemma break_at_spec : forall p s a b,
    break_at p s = (a, b) ->
    s = a ++ b /\ none_sat p a = true
    /\ (b = [] \/ exists x t, b = x :: t /\ p x = true).
Proof.
  intros p. induction s as [|x t IH]; intros a b H; cbn [break_at] in H.
  - inversion H; subst. repeat split; auto.
  - destruct (p x) eqn:Px.
    + inversion H; subst. repeat split; auto. right. exists x, t. auto.
    + destruct (break_at p t) as [a' b'] eqn:E. inversion H; subst.
      destruct (IH a' b eq_refl) as (E1 & E2 & E3).
      repeat split.
      * cbn [app]. rewrite E1 at 1. reflexivity.
      * unfold none_sat in *. cbn [forallb]. rewrite Px. cbn. exact E2.
      * exact E3.
Qed.

Lemma break_at_app : forall p a x t,
    none_sat p a = true -> p x = true -> break_at p (a ++ x :: t) = (a, x :: t).
Proof.
  intros p. induction a as [|y a IH]; intros x t Ha Px; cbn [app break_at].
  - rewrite Px. reflexivity.
  - unfold none_sat in Ha. cbn [forallb] in Ha. apply andb_true_iff in Ha as [H1 H2].
    apply negb_true_iff in H1. rewrite H1. rewrite (IH x t H2 Px). reflexivity.
Qed.

Lemma break_at_all : forall p a, none_sat p a = true -> break_at p a = (a, []).
Proof.
  intros p. induction a as [|y a IH]; intros Ha; cbn [break_at]; [reflexivity|].
  unfold none_sat in Ha. cbn [forallb] in Ha. apply andb_true_iff in Ha as [H1 H2].
  apply negb_true_iff in H1. rewrite H1. rewrite (IH H2). reflexivity.
Qed.

Lemma none_sat_app : forall p a b, none_sat p (a ++ b) = none_sat p a && none_sat p b.
Proof. intros. unfold none_sat. apply forallb_app. Qed.

Lemma none_sat_weaken : forall (p q : byte -> bool) s,
    (forall x, q x = true -> p x = true) -> none_sat p s = true -> none_sat q s = true.
Proof.
  intros p q s H. unfold none_sat. induction s as [|x t IH]; cbn [forallb]; [auto|].
  intro H1. apply andb_true_iff in H1 as [A B]. apply andb_true_iff. split; [|auto].
  apply negb_true_iff in A. apply negb_true_iff.
  destruct (q x) eqn:Q; [|reflexivity]. rewrite (H x Q) in A. discriminate.
Qed.

Lemma byte_is_true : forall c x, byte_is c x = true <-> x = c.
Proof. intros. unfold byte_is. apply byte_eqb_eq. Qed.

Lemma byte_eqb_sym : forall a b, Byte.eqb a b = Byte.eqb b a.
Proof.
  intros a b. destruct (Byte.eqb a b) eqn:E.
  - apply byte_eqb_eq in E. subst. symmetry. apply byte_eqb_refl.
  - destruct (Byte.eqb b a) eqn:E2; [|reflexivity].
    apply byte_eqb_eq in E2. subst. rewrite byte_eqb_refl in E. discriminate.
Qed.

Lemma byte_eqb_neq : forall a b, Byte.eqb a b = false <-> a <> b.
Proof.
  intros a b. split.
  - intros H ->. rewrite byte_eqb_refl in H. discriminate.
  - intro H. destruct (Byte.eqb a b) eqn:E; [|reflexivity].
    apply byte_eqb_eq in E. contradiction.
Qed.

(* count and contains in terms of none_sat *)
Lemma count_app : forall c a b, count c (a ++ b) = (count c a + count c b)%nat.
Proof.
  intros c. induction a as [|x a IH]; intro b; cbn [app count]; [reflexivity|].
  destruct (Byte.eqb x c); rewrite IH; reflexivity.
Qed.

Lemma count_cons_eq : forall c t, count c (c :: t) = S (count c t).
Proof. intros. cbn [count]. rewrite byte_eqb_refl. reflexivity. Qed.

(* ================================================================ *)
(* url equality                                                      *)

Lemma kv_eqb_eq : forall a b, kv_eqb a b = true <-> a = b.
Proof.
  induction a as [|[k1 v1] a IH]; intros [|[k2 v2] b]; cbn [kv_eqb]; split; intro H;
    try reflexivity; try discriminate.
  - apply andb_true_iff in H as [H12 H3]. apply andb_true_iff in H12 as [H1 H2].
    apply str_eqb_eq in H1. apply str_eqb_eq in H2. apply IH in H3. subst. reflexivity.
  - inversion H; subst. apply andb_true_iff. split; [apply andb_true_iff; split|].
    + apply str_eqb_eq. reflexivity.
    + apply str_eqb_eq. reflexivity.
    + apply IH. reflexivity.
Qed.

Lemma url_eqb_eq : forall a b, url_eqb a b = true <-> a = b.
Proof.
  intros [k1 p1 us1 h1 po1 pa1 e1 pr1] [k2 p2 us2 h2 po2 pa2 e2 pr2].
  unfold url_eqb. cbn [u_kind u_proto u_user u_host u_port u_path u_env u_params].
  split; intro H.
  - apply andb_true_iff in H as [H Hpr]. apply andb_true_iff in H as [H He].
    apply andb_true_iff in H as [H Hpa]. apply andb_true_iff in H as [H Hpo].
    apply andb_true_iff in H as [H Hh]. apply andb_true_iff in H as [H Hus].
    apply andb_true_iff in H as [Hk Hp].
    apply str_eqb_eq in Hus. apply str_eqb_eq in Hh. apply N.eqb_eq in Hpo.
    apply str_eqb_eq in Hpa. apply kv_eqb_eq in He. apply kv_eqb_eq in Hpr.
    destruct k1, k2; try discriminate; destruct p1, p2; try discriminate; subst; reflexivity.
  - inversion H; subst.
    repeat (apply andb_true_iff; split);
      try (apply str_eqb_eq; reflexivity); try (apply kv_eqb_eq; reflexivity);
      try (apply N.eqb_eq; reflexivity).
    + destruct k2; reflexivity.
    + destruct p2; reflexivity.
Qed.

(* ================================================================ *)
(* decimal ports: a finite sweep over 0..65535                       *)

(* all numbers base*2^k .. base*2^k + 2^k - 1 *)
Fixpoint range_bits (k : nat) (base : N) : list N :=
  match k with
  | O => [base]
  | S k' => range_bits k' (2 * base) ++ range_bits k' (2 * base + 1)
  end.

Lemma range_bits_in : forall k base p,
    p < 2 ^ N.of_nat k -> In (base * 2 ^ N.of_nat k + p) (range_bits k base).
Proof.
  induction k as [|k IH]; intros base p Hp.
  - cbn in Hp. assert (p = 0) by lia. subst. cbn. left. lia.
  - cbn [range_bits]. apply in_or_app.
    rewrite Nat2N.inj_succ, N.pow_succ_r' in Hp |- *.
    destruct (N.ltb p (2 ^ N.of_nat k)) eqn:E.
    + apply N.ltb_lt in E. left.
      replace (base * (2 * 2 ^ N.of_nat k) + p) with (2 * base * 2 ^ N.of_nat k + p) by lia.
      apply IH. exact E.
    + apply N.ltb_ge in E. right.
      replace (base * (2 * 2 ^ N.of_nat k) + p)
        with ((2 * base + 1) * 2 ^ N.of_nat k + (p - 2 ^ N.of_nat k)) by lia.
      apply IH. lia.
Qed.

Definition all_digits (s : str) : bool := forallb is_digit s.

Definition port_ok (p : N) : bool :=
  let s := N_to_dec p in
  all_digits s && negb (is_nil s)
  && match parse_uint16 s with Some q => q =? p | None => false end.

Lemma ports_sweep : forallb port_ok (range_bits 16 0) = true.
Proof. vm_compute. reflexivity. Qed.

Lemma port_dec_roundtrip : forall p,
    p <= 65535 ->
    all_digits (N_to_dec p) = true /\ N_to_dec p <> [] /\ parse_uint16 (N_to_dec p) = Some p.
Proof.
  intros p Hp.
  assert (Hin : In p (range_bits 16 0)).
  { replace p with (0 * 2 ^ N.of_nat 16 + p) by lia. apply range_bits_in.
    change (2 ^ N.of_nat 16) with 65536. lia. }
  pose proof (proj1 (forallb_forall _ _) ports_sweep p Hin) as H.
  unfold port_ok in H.
  apply andb_true_iff in H as [H12 H3]. apply andb_true_iff in H12 as [H1 H2].
  split; [exact H1|]. split.
  - intro E. rewrite E in H2. discriminate.
  - destruct (parse_uint16 (N_to_dec p)) as [q|]; [|discriminate].
    apply N.eqb_eq in H3. subst. reflexivity.
Qed.

Lemma parse_uint16_bound : forall ds p, parse_uint16 ds = Some p -> p <= 65535.
Proof.
  intros ds p H. unfold parse_uint16 in H. destruct ds; [discriminate|].
  destruct (dec_value (b :: ds) <=? 65535) eqn:E; [|discriminate].
  inversion H; subst. apply N.leb_le. exact E.
Qed.
