(* Classification of raw URLs: isDockerURL, isSCPSSHURL. *)
From Coq Require Import List Bool Arith NArith Lia String.
From Coq.Strings Require Import Byte.
Import ListNotations.
From Mv Require Import Common.Str Proof.Str Model.Url Proof.UrlBase Proof.UrlSsh.
Open Scope N_scope.

(* ================================================================ *)
(* colon_before_slash                                                *)

Lemma colon_before_slash_app : forall a rest,
    none_sat (byte_is c_colon) a = true ->
    colon_before_slash (a ++ c_colon :: rest) = none_sat (byte_is c_slash) a.
Proof.
  induction a as [|x a IH]; intros rest H; cbn [app colon_before_slash].
  - rewrite byte_eqb_refl. reflexivity.
  - unfold none_sat in H |- *. cbn [forallb] in H |- *.
    apply andb_true_iff in H as [H1 H2]. unfold byte_is in H1 at 1.
    apply negb_true_iff in H1. rewrite H1.
    unfold byte_is at 1. destruct (Byte.eqb x c_slash); cbn [negb andb]; [reflexivity|].
    apply IH. exact H2.
Qed.

Lemma colon_before_slash_abs : forall s, is_abs s = true -> colon_before_slash s = false.
Proof.
  intros [|x t] H; [reflexivity|]. cbn [is_abs] in H. apply byte_eqb_eq in H. subst x.
  reflexivity.
Qed.

(* ================================================================ *)
(* isDockerURL                                                       *)

(* one step of the lowering *)
Lemma to_lower_step : forall f s c rest,
    to_lower (S f) s = c :: rest ->
    (exists a t, s = a :: t /\ c = lower_ascii a /\ rest = to_lower f t)
    \/ (exists t, s = xE2 :: x84 :: xAA :: t /\ c = "k"%byte /\ rest = to_lower f t).
Proof.
  intros f s c rest H. cbn [to_lower] in H.
  destruct s as [|a t]; [discriminate|].
  destruct t as [|b [|c0 t']].
  - inversion H. left. exists a, []. auto.
  - inversion H. left. exists a, [b]. auto.
  - destruct (Byte.eqb a xE2 && Byte.eqb b x84 && Byte.eqb c0 xAA) eqn:K.
    + apply andb_true_iff in K as [K12 K3]. apply andb_true_iff in K12 as [K1 K2].
      apply byte_eqb_eq in K1, K2, K3. subst. inversion H. right. exists t'. auto.
    + inversion H. left. exists a, (b :: c0 :: t'). auto.
Qed.

(* what a byte can be when its lowering is a given pattern character *)
Definition not_sep (a : byte) : bool :=
  negb (Byte.eqb a c_colon) && negb (Byte.eqb a c_at).

Lemma lower_letter_not_sep : forall a c,
    existsb (Byte.eqb c) (B "docker") = true -> lower_ascii a = c -> not_sep a = true.
Proof.
  intros a c Hc <-. destruct a; vm_compute in Hc |- *; try reflexivity; discriminate.
Qed.

Lemma lower_is_colon : forall a, lower_ascii a = c_colon -> a = c_colon.
Proof. intros a H. destruct a; vm_compute in H; try discriminate; reflexivity. Qed.

Lemma lower_is_slash : forall a, lower_ascii a = c_slash -> a = c_slash.
Proof. intros a H. destruct a; vm_compute in H; try discriminate; reflexivity. Qed.

Lemma has_str_prefix_cons : forall x p y s,
    has_str_prefix (x :: p) (y :: s) = true -> y = x /\ has_str_prefix p s = true.
Proof.
  intros x p y s H. cbn [has_str_prefix] in H. apply andb_true_iff in H as [H1 H2].
  apply byte_eqb_eq in H1. auto.
Qed.

(* The shape of every string classified as a Docker URL: some text without
   ':' and '@' (the word "docker" in any case, possibly with a Kelvin sign),
   then "://". *)
Lemma docker_url_shape : forall s,
    is_docker_url s = true ->
    exists a b, s = a ++ c_colon :: c_slash :: c_slash :: b
                /\ forallb not_sep a = true /\ a <> [].
Proof.
  intros s H. unfold is_docker_url in H.
  (* six letters *)
  assert (Letters : forall (n : nat) (pat : str) (f : nat) (s0 : str) (tail : str),
             forallb (fun c => existsb (Byte.eqb c) (B "docker")) pat = true ->
             List.length pat = n ->
             has_str_prefix (pat ++ tail) (to_lower (List.length pat + f) s0) = true ->
             exists a s1, s0 = a ++ s1 /\ forallb not_sep a = true
                          /\ (pat <> [] -> a <> [])
                          /\ has_str_prefix tail (to_lower f s1) = true).
  { induction n as [|n IH]; intros pat f s0 tail Hp Hl Hh.
    - destruct pat; [|discriminate]. exists [], s0. repeat split; auto.
    - destruct pat as [|c pat']; [discriminate|].
      cbn [forallb] in Hp. apply andb_true_iff in Hp as [Hc Hp'].
      cbn [List.length] in Hl. injection Hl as Hl.
      cbn [List.length Nat.add app] in Hh.
      destruct (to_lower (S (List.length pat' + f)) s0) as [|y rest] eqn:TL;
        [cbn in Hh; discriminate|].
      apply has_str_prefix_cons in Hh as [-> Hh].
      destruct (to_lower_step _ _ _ _ TL) as [(a & t & -> & Ec & ->)|(t & -> & Ec & ->)].
      + destruct (IH pat' f t tail Hp' Hl Hh) as (a' & s1 & -> & Na & _ & Hrest).
        exists (a :: a'), s1. repeat split; auto.
        * cbn [forallb]. rewrite (lower_letter_not_sep a c Hc (eq_sym Ec)). exact Na.
        * discriminate.
      + destruct (IH pat' f t tail Hp' Hl Hh) as (a' & s1 & -> & Na & _ & Hrest).
        exists (xE2 :: x84 :: xAA :: a'), s1. repeat split; auto. discriminate. }
  destruct (Letters 6%nat (B "docker") 3%nat s (B "://") eq_refl eq_refl H)
    as (a & s1 & -> & Na & Hne & H1).
  exists a.
  (* then ':' '/' '/' *)
  assert (Step : forall f s0 c tail,
             c <> "k"%byte ->
             has_str_prefix (c :: tail) (to_lower (S f) s0) = true ->
             exists a0 t, s0 = a0 :: t /\ lower_ascii a0 = c
                          /\ has_str_prefix tail (to_lower f t) = true).
  { intros f s0 c tail Hk Hh.
    destruct (to_lower (S f) s0) as [|y rest] eqn:TL; [cbn in Hh; discriminate|].
    apply has_str_prefix_cons in Hh as [-> Hh].
    destruct (to_lower_step _ _ _ _ TL) as [(a0 & t & -> & Ec & ->)|(t & -> & Ec & ->)].
    - exists a0, t. auto.
    - contradiction. }
  destruct (Step 2%nat s1 c_colon (B "//") ltac:(discriminate) H1) as (x1 & t1 & -> & L1 & H2).
  destruct (Step 1%nat t1 c_slash (B "/") ltac:(discriminate) H2) as (x2 & t2 & -> & L2 & H3).
  destruct (Step 0%nat t2 c_slash [] ltac:(discriminate) H3) as (x3 & t3 & -> & L3 & _).
  apply lower_is_colon in L1. apply lower_is_slash in L2. apply lower_is_slash in L3. subst.
  exists t3. repeat split; auto. apply Hne. discriminate.
Qed.

(* consequences used by the round-trip proof *)

Lemma not_sep_none : forall a, forallb not_sep a = true -> none_sat (is_sep_or_at c_colon) a = true.
Proof.
  intros a H. unfold none_sat. induction a as [|x t IH]; [reflexivity|].
  cbn [forallb] in *. apply andb_true_iff in H as [H1 H2]. rewrite (IH H2), andb_true_r.
  unfold not_sep in H1. apply andb_true_iff in H1 as [A B].
  unfold is_sep_or_at. apply negb_true_iff in A, B. rewrite A, B. reflexivity.
Qed.

(* an '@' before the first ':' : not a Docker URL *)
Lemma docker_url_no_user : forall user rest,
    none_sat (is_sep_or_at c_colon) user = true ->
    is_docker_url (user ++ c_at :: rest) = false.
Proof.
  intros user rest Nu. destruct (is_docker_url (user ++ c_at :: rest)) eqn:E; [|reflexivity].
  exfalso. destruct (docker_url_shape _ E) as (a & b & Es & Na & _).
  pose proof (break_at_app (is_sep_or_at c_colon) user c_at rest Nu (sep_or_at_at _)) as B1.
  pose proof (break_at_app (is_sep_or_at c_colon) a c_colon (c_slash :: c_slash :: b)
                           (not_sep_none _ Na) (sep_or_at_colon _)) as B2.
  rewrite Es in B1. rewrite B1 in B2. inversion B2.
Qed.

(* the byte after the first ':' is not '/' : not a Docker URL *)
Lemma docker_url_after_colon : forall pre x rest,
    none_sat (byte_is c_colon) pre = true -> x <> c_slash ->
    is_docker_url (pre ++ c_colon :: x :: rest) = false.
Proof.
  intros pre x rest Np Hx. destruct (is_docker_url (pre ++ c_colon :: x :: rest)) eqn:E; [|reflexivity].
  exfalso. destruct (docker_url_shape _ E) as (a & b & Es & Na & _).
  pose proof (break_at_app (byte_is c_colon) pre c_colon (x :: rest) Np
                           (proj2 (byte_is_true _ _) eq_refl)) as B1.
  assert (Nc : none_sat (byte_is c_colon) a = true).
  { destruct (none_sep_or_at_split _ _ (not_sep_none _ Na)) as [Nc _]. exact Nc. }
  pose proof (break_at_app (byte_is c_colon) a c_colon (c_slash :: c_slash :: b) Nc
                           (proj2 (byte_is_true _ _) eq_refl)) as B2.
  rewrite Es in B1. rewrite B1 in B2. inversion B2. subst. contradiction.
Qed.

Lemma docker_url_abs : forall s, is_abs s = true -> is_docker_url s = false.
Proof.
  intros s H. destruct (is_docker_url s) eqn:E; [|reflexivity]. exfalso.
  destruct (docker_url_shape _ E) as (a & b & -> & Na & Hne).
  destruct a as [|x a]; [contradiction|]. cbn [app is_abs] in H.
  apply byte_eqb_eq in H. subst x. cbn [forallb] in Na.
  apply andb_true_iff in Na as [Na _].
  destruct (docker_url_shape _ E) as (a2 & b2 & E2 & Na2 & Hne2).
  (* '/' can not be lowered to 'd' *)
  clear - E. unfold is_docker_url in E. cbn [app] in E.
  destruct (to_lower 9 (c_slash :: a ++ c_colon :: c_slash :: c_slash :: b)) as [|y r] eqn:TL;
    [cbn in E; discriminate|].
  apply has_str_prefix_cons in E as [-> _].
  destruct (to_lower_step _ _ _ _ TL) as [(a0 & t & Ea & Ec & _)|(t & Ea & _)].
  - inversion Ea; subst. vm_compute in Ec. discriminate.
  - inversion Ea.
Qed.

(* a forwarding endpoint (protocol ':' address) is not a Docker URL *)
Lemma docker_url_endpoint : forall p rest,
    fwd_valid_protocol p = true -> is_docker_url (p ++ c_colon :: rest) = false.
Proof.
  intros p rest V.
  destruct (valid_protocol_cases p V) as [E|[E|[E|[E|E]]]]; subst p;
    destruct rest as [|r1 [|r2 rest]]; reflexivity.
Qed.

(* "docker://" followed by anything is a Docker URL, and the parser strips
   exactly those nine bytes *)
Lemma docker_url_prefix : forall r, is_docker_url (docker_prefix ++ r) = true.
Proof. intros [|r1 [|r2 r]]; reflexivity. Qed.

Lemma skipn_docker_prefix : forall r, skipn 9 (docker_prefix ++ r) = r.
Proof. reflexivity. Qed.
