(* parseDocker / formatDocker: characterisation lemmas. *)
From Coq Require Import List Bool Arith NArith Lia String.
From Coq.Strings Require Import Byte.
Import ListNotations.
From Mv Require Import Common.Str Proof.Str Model.Url Proof.UrlBase Proof.UrlSsh Proof.UrlClass.
Open Scope N_scope.

Definition split_of (k : kind) : byte := match k with KSync => c_slash | KFwd => c_colon end.

Lemma split_not_at : forall k, Byte.eqb c_at (split_of k) = false.
Proof. intros []; reflexivity. Qed.

(* ---- user step (with the repair: an empty user name is rejected) ---- *)

Lemma docker_user_step_inv : forall fx k raw0 user raw1,
    fx_duser fx = true ->
    docker_user_step fx (split_of k) raw0 = inr (user, raw1) ->
    raw0 = upart user ++ raw1
    /\ none_sat (is_sep_or_at (split_of k)) user = true
    /\ (user = [] ->
        forall c r, break_at (byte_is (split_of k)) raw1 = (c, r) ->
                    none_sat (byte_is c_at) c = true).
Proof.
  intros fx k raw0 user raw1 F H. unfold docker_user_step in H.
  destruct (break_at (is_sep_or_at (split_of k)) raw0) as [pre rest] eqn:E1.
  destruct (break_at_spec _ _ _ _ E1) as (R1 & N1 & T1).
  destruct (none_sep_or_at_split _ _ N1) as [NC NA].
  destruct rest as [|x after].
  - inversion H; subst user raw1. repeat split; auto.
    intros _ c r Hb. rewrite app_nil_r in R1. subst pre.
    destruct (break_at_spec _ _ _ _ Hb) as (Q1 & _ & _).
    rewrite Q1 in NA. rewrite none_sat_app in NA. apply andb_true_iff in NA as [NA _]. exact NA.
  - destruct T1 as [T1|(x0 & t0 & T1 & T2)]; [discriminate|]. inversion T1; subst x0 t0.
    destruct (Byte.eqb x (split_of k)) eqn:ES.
    + apply byte_eqb_eq in ES. subst x.
      inversion H; subst user raw1. repeat split; auto.
      intros _ c r Hb. rewrite R1 in Hb.
      rewrite (break_at_app (byte_is (split_of k)) pre (split_of k) after NC
                            (proj2 (byte_is_true _ _) eq_refl)) in Hb.
      inversion Hb; subst. exact NA.
    + destruct pre as [|p0 pre'].
      * rewrite F in H. discriminate.
      * inversion H; subst user raw1.
        destruct (sep_or_at_cases _ _ T2) as [Ex|Ex]; subst x;
          [rewrite byte_eqb_refl in ES; discriminate|].
        repeat split; auto.
        -- cbn [upart]. rewrite R1. rewrite <- app_assoc. reflexivity.
        -- intro Hn. discriminate.
Qed.

Lemma docker_user_step_intro : forall fx k user cont t,
    none_sat (is_sep_or_at (split_of k)) user = true ->
    none_sat (byte_is (split_of k)) cont = true ->
    (user = [] -> none_sat (byte_is c_at) cont = true) ->
    docker_user_step fx (split_of k) (upart user ++ cont ++ split_of k :: t)
    = inr (user, cont ++ split_of k :: t).
Proof.
  intros fx k user cont t Nu Nc Hat. unfold docker_user_step.
  destruct user as [|u0 user'].
  - cbn [upart app].
    rewrite (break_at_app (is_sep_or_at (split_of k)) cont (split_of k) t).
    + rewrite byte_eqb_refl. reflexivity.
    + apply none_sep_or_at_join; [exact Nc | apply Hat; reflexivity].
    + apply sep_or_at_colon.
  - cbn [upart]. rewrite <- app_assoc.
    change ([c_at] ++ cont ++ split_of k :: t) with (c_at :: cont ++ split_of k :: t).
    rewrite (break_at_app (is_sep_or_at (split_of k)) (u0 :: user') c_at
                          (cont ++ split_of k :: t) Nu (sep_or_at_at _)).
    rewrite split_not_at. reflexivity.
Qed.

(* ---- container step ---- *)

Lemma docker_container_step_inv : forall sp raw1 cont path0,
    docker_container_step sp raw1 = inr (cont, path0) ->
    raw1 = cont ++ path0 /\ none_sat (byte_is sp) cont = true /\ cont <> []
    /\ (exists t, path0 = sp :: t)
    /\ break_at (byte_is sp) raw1 = (cont, path0).
Proof.
  intros sp raw1 cont path0 H. unfold docker_container_step in H.
  destruct (break_at (byte_is sp) raw1) as [c rest] eqn:E.
  destruct (break_at_spec _ _ _ _ E) as (R & N & T).
  destruct c as [|c0 c']; destruct rest as [|y r]; try discriminate.
  inversion H; subst cont path0.
  destruct T as [T|(y0 & t0 & T & T')]; [discriminate|]. inversion T; subst y0 t0.
  apply byte_is_true in T'. subst y.
  repeat split; auto. - discriminate. - exists r. reflexivity.
Qed.

Lemma docker_container_step_intro : forall sp cont t,
    none_sat (byte_is sp) cont = true -> cont <> [] ->
    docker_container_step sp (cont ++ sp :: t) = inr (cont, sp :: t).
Proof.
  intros sp cont t N Hc. unfold docker_container_step.
  rewrite (break_at_app (byte_is sp) cont sp t N (proj2 (byte_is_true _ _) eq_refl)).
  destruct cont; [contradiction|reflexivity].
Qed.

(* ---- path processing of synchronization URLs ---- *)

Lemma letter_not_slash_tilde : forall a,
    is_letter a = true -> Byte.eqb a c_slash = false /\ Byte.eqb a c_tilde = false.
Proof. intros a H. destruct a; vm_compute in H; try discriminate; split; reflexivity. Qed.

Lemma windows_path_head : forall s,
    is_windows_path s = true ->
    exists a t, s = a :: t /\ Byte.eqb a c_slash = false /\ Byte.eqb a c_tilde = false.
Proof.
  intros s H. unfold is_windows_path in H.
  destruct s as [|a [|b [|c t]]]; try discriminate.
  apply andb_true_iff in H as [H _]. apply andb_true_iff in H as [H _].
  destruct (letter_not_slash_tilde a H) as [A B]. exists a, (b :: c :: t). auto.
Qed.

(* what Format appends for a synchronization path *)
Definition docker_fmt_path (p : str) : option str :=
  match p with
  | [] => None
  | x :: _ =>
      if Byte.eqb x c_slash then Some p
      else if Byte.eqb x c_tilde || is_windows_path p then Some (c_slash :: p)
      else None
  end.

Lemma docker_sync_path_roundtrip : forall t,
    exists t', docker_fmt_path (docker_sync_path (c_slash :: t)) = Some (c_slash :: t')
               /\ docker_sync_path (c_slash :: t') = docker_sync_path (c_slash :: t).
Proof.
  intros t. unfold docker_sync_path at 1 3.
  destruct t as [|y r].
  - (* "/" *) cbn. exists []. split; reflexivity.
  - destruct (Byte.eqb y c_tilde) eqn:Ty.
    + apply byte_eqb_eq in Ty. subst y. cbn [tl].
      destruct (is_windows_path r) eqn:W.
      * (* "/~C:\x" becomes "C:\x" *)
        destruct (windows_path_head r W) as (a & t0 & -> & A1 & A2).
        exists (a :: t0). split.
        -- unfold docker_fmt_path. rewrite A1, W, orb_true_r. reflexivity.
        -- unfold docker_sync_path. rewrite A2. cbn [tl]. rewrite W. reflexivity.
      * (* "/~x" becomes "~x" *)
        exists (c_tilde :: r). split.
        -- unfold docker_fmt_path. reflexivity.
        -- unfold docker_sync_path. rewrite byte_eqb_refl. cbn [tl]. rewrite W. reflexivity.
    + cbn [tl].
      destruct (is_windows_path (y :: r)) eqn:W.
      * (* "/C:\x" becomes "C:\x" *)
        destruct (windows_path_head _ W) as (a & t0 & E & A1 & A2). inversion E; subst a t0.
        exists (y :: r). split.
        -- unfold docker_fmt_path. rewrite A1, W, orb_true_r. reflexivity.
        -- unfold docker_sync_path. rewrite Ty. cbn [tl]. rewrite W. reflexivity.
      * (* "/x" stays *)
        exists (y :: r). split.
        -- unfold docker_fmt_path. rewrite byte_eqb_refl. reflexivity.
        -- unfold docker_sync_path. rewrite Ty. cbn [tl]. rewrite W. reflexivity.
Qed.

Lemma docker_fmt_path_valid : forall p f,
    docker_fmt_path p = Some f ->
    match p with
    | x :: _ => Byte.eqb x c_slash || Byte.eqb x c_tilde || is_windows_path p
    | [] => false
    end = true.
Proof.
  intros p f H. unfold docker_fmt_path in H. destruct p as [|x t]; [discriminate|].
  destruct (Byte.eqb x c_slash); [reflexivity|].
  destruct (Byte.eqb x c_tilde || is_windows_path (x :: t)) eqn:E; [|discriminate].
  cbn [orb]. apply orb_true_iff in E as [E|E]; rewrite E; [reflexivity|apply orb_true_r].
Qed.

(* ---- the whole parser ---- *)

Definition mk_docker (k : kind) (user cont path : str) (env : list (str * str)) : url :=
  {| u_kind := k; u_proto := PDocker; u_user := user; u_host := cont; u_port := 0;
     u_path := path; u_env := env; u_params := [] |}.

(* [raw0] is the text after the nine-byte prefix *)
Definition docker_shape (fx : fixes) (raw0 : str) (k : kind) (env : list (str * str)) (u : url) : Prop :=
  exists user cont t,
    raw0 = upart user ++ cont ++ split_of k :: t
    /\ none_sat (is_sep_or_at (split_of k)) user = true
    /\ none_sat (byte_is (split_of k)) cont = true
    /\ cont <> []
    /\ (user = [] -> none_sat (byte_is c_at) cont = true)
    /\ (fx_dash fx = true -> starts_with_dash user = false /\ starts_with_dash cont = false)
    /\ match k with
       | KSync => u = mk_docker k user cont (docker_sync_path (c_slash :: t)) env
       | KFwd => u = mk_docker k user cont t env /\ exists r, fwd_parse t = Some r
       end.

Lemma parse_docker_inv : forall fx raw k env u,
    fx_duser fx = true ->
    parse_docker fx raw k env = inr u -> docker_shape fx (skipn 9 raw) k env u.
Proof.
  intros fx raw k env u F H. unfold parse_docker in H.
  change (match k with KSync => c_slash | KFwd => c_colon end) with (split_of k) in H.
  cbv zeta in H.
  destruct (docker_user_step fx (split_of k) (skipn 9 raw)) as [e|[user raw1]] eqn:US; [discriminate|].
  destruct (fx_dash fx && starts_with_dash user) eqn:D1; [discriminate|].
  destruct (docker_container_step (split_of k) raw1) as [e|[cont path0]] eqn:CS; [discriminate|].
  destruct (fx_dash fx && starts_with_dash cont) eqn:D2; [discriminate|].
  destruct (docker_user_step_inv _ _ _ _ _ F US) as (R0 & Nu & Hat).
  destruct (docker_container_step_inv _ _ _ _ CS) as (R1 & Nc & Hc & (t & ->) & B1).
  exists user, cont, t.
  split; [rewrite R0, R1; reflexivity|].
  split; [exact Nu|]. split; [exact Nc|]. split; [exact Hc|].
  split; [intro Hu; apply (Hat Hu _ _ B1)|].
  split.
  { intro Fd. rewrite Fd in D1, D2. cbn [andb] in D1, D2. split; assumption. }
  destruct k.
  - inversion H. reflexivity.
  - cbn [tl] in H. destruct (fwd_parse t) as [r|] eqn:FP; [|discriminate].
    inversion H. split; [reflexivity|]. exists r. reflexivity.
Qed.

Lemma parse_docker_intro : forall fx raw k env u,
    docker_shape fx (skipn 9 raw) k env u -> parse_docker fx raw k env = inr u.
Proof.
  intros fx raw k env u (user & cont & t & R & Nu & Nc & Hc & Hat & D & Hu).
  unfold parse_docker.
  change (match k with KSync => c_slash | KFwd => c_colon end) with (split_of k).
  cbv zeta. rewrite R.
  rewrite (docker_user_step_intro fx k user cont t Nu Nc Hat).
  assert (D1 : fx_dash fx && starts_with_dash user = false).
  { destruct (fx_dash fx); [|reflexivity]. destruct (D eq_refl) as [-> _]. reflexivity. }
  rewrite D1.
  rewrite (docker_container_step_intro (split_of k) cont t Nc Hc).
  assert (D2 : fx_dash fx && starts_with_dash cont = false).
  { destruct (fx_dash fx); [|reflexivity]. destruct (D eq_refl) as [_ ->]. reflexivity. }
  rewrite D2.
  destruct k.
  - subst u. reflexivity.
  - destruct Hu as [-> [r FP]]. cbn [tl split_of]. rewrite FP. reflexivity.
Qed.

(* weaker facts that hold with or without the repairs: enough for validity *)
Lemma parse_docker_fields : forall fx raw k env u,
    parse_docker fx raw k env = inr u ->
    u_kind u = k /\ u_proto u = PDocker /\ u_host u <> [] /\ u_port u = 0
    /\ (fx_dash fx = true -> starts_with_dash (u_user u) = false /\ starts_with_dash (u_host u) = false)
    /\ match k with
       | KSync => exists t, u_path u = docker_sync_path (c_slash :: t)
       | KFwd => exists r, fwd_parse (u_path u) = Some r
       end.
Proof.
  intros fx raw k env u H. unfold parse_docker in H.
  change (match k with KSync => c_slash | KFwd => c_colon end) with (split_of k) in H.
  cbv zeta in H.
  destruct (docker_user_step fx (split_of k) (skipn 9 raw)) as [e|[user raw1]] eqn:US; [discriminate|].
  destruct (fx_dash fx && starts_with_dash user) eqn:D1; [discriminate|].
  destruct (docker_container_step (split_of k) raw1) as [e|[cont path0]] eqn:CS; [discriminate|].
  destruct (fx_dash fx && starts_with_dash cont) eqn:D2; [discriminate|].
  destruct (docker_container_step_inv _ _ _ _ CS) as (R1 & Nc & Hc & (t & ->) & B1).
  assert (DD : fx_dash fx = true -> starts_with_dash user = false /\ starts_with_dash cont = false).
  { intro Fd. rewrite Fd in D1, D2. cbn [andb] in D1, D2. split; assumption. }
  destruct k.
  - inversion H; subst u. cbn. repeat split; auto; try apply DD; auto. exists t. reflexivity.
  - cbn [tl] in H. destruct (fwd_parse t) as [r|] eqn:FP; [|discriminate].
    inversion H; subst u. cbn. repeat split; auto; try apply DD; auto. exists r. exact FP.
Qed.

(* ---- Format of a parsed Docker URL ---- *)

Lemma format_docker_parsed : forall k user cont t env,
    exists t',
      format_docker (mk_docker k user cont
                       (match k with KSync => docker_sync_path (c_slash :: t) | KFwd => t end) env)
      = docker_prefix ++ upart user ++ cont ++ split_of k :: t'
      /\ match k with
         | KSync => docker_sync_path (c_slash :: t') = docker_sync_path (c_slash :: t)
         | KFwd => t' = t
         end.
Proof.
  intros k user cont t env.
  assert (R1 : match user with [] => cont | b :: l => (b :: l) ++ c_at :: cont end = upart user ++ cont).
  { destruct user; [reflexivity|]. cbn [upart]. rewrite <- app_assoc. reflexivity. }
  unfold format_docker. cbn [u_host u_user u_kind u_path mk_docker]. rewrite R1.
  destruct k.
  - destruct (docker_sync_path_roundtrip t) as (t' & Ef & Es).
    exists t'. split; [|exact Es].
    unfold docker_fmt_path in Ef.
    destruct (docker_sync_path (c_slash :: t)) as [|x p] eqn:Ep; [discriminate|].
    destruct (Byte.eqb x c_slash) eqn:X.
    + inversion Ef. rewrite <- app_assoc. reflexivity.
    + destruct (Byte.eqb x c_tilde || is_windows_path (x :: p)) eqn:Y; [|discriminate].
      inversion Ef; subst t'. rewrite <- app_assoc. reflexivity.
  - exists t. split; [|reflexivity]. rewrite <- app_assoc. reflexivity.
Qed.
