(* forwarding.Parse and parseSCPSSH: characterisation lemmas. *)
From Coq Require Import List Bool Arith NArith Lia String.
From Coq.Strings Require Import Byte.
Import ListNotations.
From Mv Require Import Common.Str Proof.Str Model.Url Proof.UrlBase.
Open Scope N_scope.

(* ================================================================ *)
(* forwarding.Parse                                                  *)

Lemma valid_protocol_cases : forall p,
    fwd_valid_protocol p = true ->
    p = s_tcp \/ p = s_tcp4 \/ p = s_tcp6 \/ p = s_unix \/ p = s_npipe.
Proof.
  intros p H. unfold fwd_valid_protocol in H.
  repeat (apply orb_true_iff in H; destruct H as [H|H]);
    apply str_eqb_eq in H; auto 10.
Qed.

Lemma valid_protocol_no_colon : forall p,
    fwd_valid_protocol p = true -> none_sat (byte_is c_colon) p = true.
Proof.
  intros p H. destruct (valid_protocol_cases p H) as [E|[E|[E|[E|E]]]]; subst; reflexivity.
Qed.

Lemma valid_protocol_no_at : forall p,
    fwd_valid_protocol p = true -> none_sat (byte_is c_at) p = true.
Proof.
  intros p H. destruct (valid_protocol_cases p H) as [E|[E|[E|[E|E]]]]; subst; reflexivity.
Qed.

Lemma fwd_parse_some : forall s p a,
    fwd_parse s = Some (p, a) ->
    s = p ++ c_colon :: a /\ none_sat (byte_is c_colon) p = true
    /\ fwd_valid_protocol p = true /\ a <> [].
Proof.
  intros s p a H. unfold fwd_parse in H. destruct s as [|x t]; [discriminate|].
  destruct (break_at (byte_is c_colon) (x :: t)) as [pr rest] eqn:E.
  destruct rest as [|y addr]; [discriminate|].
  destruct (fwd_valid_protocol pr) eqn:V; cbn [negb] in H; [|discriminate].
  destruct addr as [|z addr']; [discriminate|].
  inversion H; subst.
  destruct (break_at_spec _ _ _ _ E) as (E1 & E2 & [E3|(x0 & t0 & E3 & E4)]); [discriminate|].
  inversion E3; subst. apply byte_is_true in E4. subst.
  repeat split; auto. discriminate.
Qed.

Lemma fwd_parse_intro : forall p a,
    fwd_valid_protocol p = true -> a <> [] -> fwd_parse (p ++ c_colon :: a) = Some (p, a).
Proof.
  intros p a V Ha. unfold fwd_parse.
  destruct (p ++ c_colon :: a) as [|x t] eqn:E; [destruct p; discriminate|].
  rewrite <- E.
  rewrite (break_at_app (byte_is c_colon) p c_colon a (valid_protocol_no_colon p V)
                        (proj2 (byte_is_true _ _) eq_refl)).
  rewrite V. cbn [negb]. destruct a; [contradiction|reflexivity].
Qed.

(* when the text before the first ':' is known *)
Lemma fwd_parse_none_iff : forall pre rest,
    none_sat (byte_is c_colon) pre = true -> rest <> [] ->
    (fwd_parse (pre ++ c_colon :: rest) = None <-> fwd_valid_protocol pre = false).
Proof.
  intros pre rest Hp Hr. unfold fwd_parse.
  destruct (pre ++ c_colon :: rest) as [|x t] eqn:E; [destruct pre; discriminate|].
  rewrite <- E.
  rewrite (break_at_app (byte_is c_colon) pre c_colon rest Hp (proj2 (byte_is_true _ _) eq_refl)).
  destruct (fwd_valid_protocol pre); cbn [negb].
  - destruct rest; [contradiction|]. split; discriminate.
  - split; reflexivity.
Qed.

Lemma fwd_parse_has_colon : forall s r, fwd_parse s = Some r -> (1 <= count c_colon s)%nat.
Proof.
  intros s [p a] H. apply fwd_parse_some in H as (-> & _ & _ & _).
  rewrite count_app, count_cons_eq. lia.
Qed.

(* ================================================================ *)
(* the port segment                                                  *)

(* [path] does not begin with a run of digits followed by ':' *)
Definition port_free (path : str) : bool :=
  match break_at non_digit path with
  | (_, x :: _) => negb (Byte.eqb x c_colon)
  | (_, []) => true
  end.

Lemma digits_none_sat : forall ds, all_digits ds = true -> none_sat non_digit ds = true.
Proof.
  intros ds H. unfold all_digits, none_sat, non_digit in *.
  induction ds as [|x t IH]; [reflexivity|]. cbn [forallb] in *.
  apply andb_true_iff in H as [A B]. rewrite A. cbn. apply IH. exact B.
Qed.

Lemma none_sat_digits : forall ds, none_sat non_digit ds = true -> all_digits ds = true.
Proof.
  intros ds H. unfold all_digits, none_sat, non_digit in *.
  induction ds as [|x t IH]; [reflexivity|]. cbn [forallb] in *.
  apply andb_true_iff in H as [A B]. apply negb_true_iff in A. apply negb_false_iff in A.
  rewrite A. cbn. apply IH. exact B.
Qed.

Lemma colon_non_digit : non_digit c_colon = true.
Proof. reflexivity. Qed.

(* ================================================================ *)
(* parseSCPSSH                                                       *)

Definition upart (user : str) : str :=
  match user with [] => [] | _ => user ++ [c_at] end.

Definition mk_ssh (k : kind) (user host : str) (port : N) (path : str) : url :=
  {| u_kind := k; u_proto := PSSH; u_user := user; u_host := host; u_port := port;
     u_path := path; u_env := []; u_params := [] |}.

Definition path_ok (k : kind) (path : str) : Prop :=
  match k with
  | KSync => path <> []
  | KFwd => exists r, fwd_parse path = Some r
  end.

(* the port part [pp] of the text and the port it denotes *)
Definition port_shape (port : N) (pp path : str) : Prop :=
  (port = 0 /\ pp = [] /\ port_free path = true)
  \/ (exists ds, pp = ds ++ [c_colon] /\ all_digits ds = true
                 /\ parse_uint16 ds = Some port).

Lemma port_like_prefix_free : forall path, port_like_prefix path = negb (port_free path).
Proof.
  intro path. unfold port_like_prefix, port_free.
  destruct (break_at non_digit path) as [d [|x r]]; [reflexivity|].
  rewrite negb_involutive. reflexivity.
Qed.

Definition ssh_shape (fx : fixes) (raw : str) (k : kind) (u : url) : Prop :=
  exists user host port pp path,
    u = mk_ssh k user host port path
    /\ raw = upart user ++ host ++ c_colon :: pp ++ path
    /\ none_sat (is_sep_or_at c_colon) user = true
    /\ none_sat (byte_is c_colon) host = true
    /\ host <> []
    /\ (user = [] -> none_sat (byte_is c_at) host = true)
    /\ port_shape port pp path
    /\ path_ok k path
    /\ (fx_dash fx = true -> starts_with_dash user = false /\ starts_with_dash host = false).

Lemma sep_or_at_colon : forall sep, is_sep_or_at sep sep = true.
Proof. intro sep. unfold is_sep_or_at. rewrite byte_eqb_refl. reflexivity. Qed.

Lemma sep_or_at_at : forall sep, is_sep_or_at sep c_at = true.
Proof. intro sep. unfold is_sep_or_at. rewrite byte_eqb_refl. apply orb_true_r. Qed.

Lemma sep_or_at_cases : forall sep x, is_sep_or_at sep x = true -> x = sep \/ x = c_at.
Proof.
  intros sep x H. unfold is_sep_or_at in H. apply orb_true_iff in H as [H|H];
    apply byte_eqb_eq in H; auto.
Qed.

Lemma none_sep_or_at_split : forall sep s,
    none_sat (is_sep_or_at sep) s = true ->
    none_sat (byte_is sep) s = true /\ none_sat (byte_is c_at) s = true.
Proof.
  intros sep s H. split; eapply none_sat_weaken; try exact H; intros x Hx;
    apply byte_is_true in Hx; subst; [apply sep_or_at_colon | apply sep_or_at_at].
Qed.

Lemma none_sep_or_at_join : forall sep s,
    none_sat (byte_is sep) s = true -> none_sat (byte_is c_at) s = true ->
    none_sat (is_sep_or_at sep) s = true.
Proof.
  intros sep s. unfold none_sat. induction s as [|x t IH]; cbn [forallb]; [auto|].
  intros A B. apply andb_true_iff in A as [A1 A2]. apply andb_true_iff in B as [B1 B2].
  apply andb_true_iff. split; [|auto].
  unfold is_sep_or_at, byte_is in *. apply negb_true_iff in A1, B1. rewrite A1, B1. reflexivity.
Qed.

Lemma path_check_ok : forall k path, path_check k path = inr tt <-> path_ok k path.
Proof.
  intros k path. unfold path_check. destruct k; cbn [path_ok].
  - destruct path; split; intro H; try discriminate; try reflexivity; contradiction.
  - destruct (fwd_parse path) as [r|]; split; intro H; try discriminate; try reflexivity.
    + exists r. reflexivity.
    + destruct H as [r H]. discriminate.
Qed.

(* ---- user step ---- *)

Lemma ssh_user_step_inv : forall raw user raw1,
    ssh_user_step raw = inr (user, raw1) ->
    raw = upart user ++ raw1
    /\ none_sat (is_sep_or_at c_colon) user = true
    /\ (user = [] ->
        forall h r, break_at (byte_is c_colon) raw1 = (h, r) -> none_sat (byte_is c_at) h = true).
Proof.
  intros raw user raw1 H. unfold ssh_user_step in H.
  destruct (break_at (is_sep_or_at c_colon) raw) as [pre rest] eqn:E1.
  destruct (break_at_spec _ _ _ _ E1) as (R1 & N1 & T1).
  destruct rest as [|x after].
  - inversion H; subst user raw1. repeat split; auto.
    intros _ h r Hb. rewrite app_nil_r in R1. subst pre.
    destruct (break_at_spec _ _ _ _ Hb) as (Q1 & Q2 & _).
    destruct (none_sep_or_at_split _ _ N1) as [_ NA].
    rewrite Q1 in NA. rewrite none_sat_app in NA. apply andb_true_iff in NA as [NA _]. exact NA.
  - destruct T1 as [T1|(x0 & t0 & T1 & T2)]; [discriminate|]. inversion T1; subst x0 t0.
    destruct (Byte.eqb x c_at) eqn:EA.
    + apply byte_eqb_eq in EA. subst x.
      destruct pre as [|p0 pre']; [discriminate|].
      inversion H; subst user raw1. repeat split; auto.
      * cbn [upart]. rewrite R1. rewrite <- app_assoc. reflexivity.
      * intros Hn. discriminate.
    + inversion H; subst user raw1. repeat split; auto.
      intros _ h r Hb.
      destruct (sep_or_at_cases _ _ T2) as [Ex|Ex]; subst x;
        [|rewrite byte_eqb_refl in EA; discriminate].
      destruct (none_sep_or_at_split _ _ N1) as [NC NA].
      rewrite R1 in Hb.
      rewrite (break_at_app (byte_is c_colon) pre c_colon after NC
                            (proj2 (byte_is_true _ _) eq_refl)) in Hb.
      inversion Hb; subst. exact NA.
Qed.

Lemma ssh_user_step_intro : forall user host rest,
    none_sat (is_sep_or_at c_colon) user = true ->
    none_sat (byte_is c_colon) host = true ->
    (user = [] -> none_sat (byte_is c_at) host = true) ->
    ssh_user_step (upart user ++ host ++ c_colon :: rest) = inr (user, host ++ c_colon :: rest).
Proof.
  intros user host rest Nu Nh Hat. unfold ssh_user_step.
  destruct user as [|u0 user'].
  - cbn [upart app].
    rewrite (break_at_app (is_sep_or_at c_colon) host c_colon rest).
    + reflexivity.
    + apply none_sep_or_at_join; [exact Nh | apply Hat; reflexivity].
    + apply sep_or_at_colon.
  - cbn [upart]. rewrite <- app_assoc.
    change ([c_at] ++ host ++ c_colon :: rest) with (c_at :: host ++ c_colon :: rest).
    rewrite (break_at_app (is_sep_or_at c_colon) (u0 :: user') c_at
                          (host ++ c_colon :: rest) Nu (sep_or_at_at _)).
    rewrite byte_eqb_refl. reflexivity.
Qed.

(* ---- host step ---- *)

Lemma ssh_host_step_inv : forall raw1 host raw2,
    ssh_host_step raw1 = inr (host, raw2) ->
    raw1 = host ++ c_colon :: raw2 /\ none_sat (byte_is c_colon) host = true /\ host <> []
    /\ break_at (byte_is c_colon) raw1 = (host, c_colon :: raw2).
Proof.
  intros raw1 host raw2 H. unfold ssh_host_step in H.
  destruct (break_at (byte_is c_colon) raw1) as [h rest1] eqn:E2.
  destruct (break_at_spec _ _ _ _ E2) as (R2 & N2 & T2).
  destruct h as [|h0 h']; destruct rest1 as [|y r2]; try discriminate.
  destruct T2 as [T2|(y0 & t0 & T2 & T2')]; [discriminate|]. inversion T2; subst y0 t0.
  apply byte_is_true in T2'. subst y.
  inversion H; subst host raw2. repeat split; auto. discriminate.
Qed.

Lemma ssh_host_step_intro : forall host rest,
    none_sat (byte_is c_colon) host = true -> host <> [] ->
    ssh_host_step (host ++ c_colon :: rest) = inr (host, rest).
Proof.
  intros host rest Nh Hh. unfold ssh_host_step.
  rewrite (break_at_app (byte_is c_colon) host c_colon rest Nh (proj2 (byte_is_true _ _) eq_refl)).
  destruct host; [contradiction|reflexivity].
Qed.

(* ---- port step ---- *)

Lemma ssh_port_step_inv : forall raw2 port path,
    ssh_port_step raw2 = inr (port, path) ->
    exists pp, raw2 = pp ++ path /\ port_shape port pp path.
Proof.
  intros raw2 port path H. unfold ssh_port_step in H.
  destruct (break_at non_digit raw2) as [digits rest2] eqn:E3.
  destruct (break_at_spec _ _ _ _ E3) as (R3 & N3 & T3).
  destruct rest2 as [|x after].
  - inversion H; subst port path. exists []. split; [reflexivity|].
    left. repeat split; auto. unfold port_free. rewrite E3. reflexivity.
  - destruct (Byte.eqb x c_colon) eqn:EC.
    + apply byte_eqb_eq in EC. subst x.
      destruct (parse_uint16 digits) as [p|] eqn:PU; [|discriminate].
      inversion H; subst port path.
      exists (digits ++ [c_colon]). split.
      * rewrite R3. rewrite <- app_assoc. reflexivity.
      * right. exists digits. repeat split; auto.
        apply none_sat_digits. exact N3.
    + inversion H; subst port path. exists []. split; [reflexivity|].
      left. repeat split; auto. unfold port_free. rewrite E3. rewrite EC. reflexivity.
Qed.

Lemma ssh_port_step_intro : forall port pp path,
    port_shape port pp path -> ssh_port_step (pp ++ path) = inr (port, path).
Proof.
  intros port pp path [(-> & -> & PF)|(ds & -> & AD & PU)]; unfold ssh_port_step.
  - cbn [app]. unfold port_free in PF.
    destruct (break_at non_digit path) as [d r] eqn:E.
    destruct r as [|x after]; [reflexivity|].
    apply negb_true_iff in PF. rewrite PF. reflexivity.
  - rewrite <- app_assoc. cbn [app].
    rewrite (break_at_app non_digit ds c_colon path (digits_none_sat _ AD) colon_non_digit).
    rewrite byte_eqb_refl, PU. reflexivity.
Qed.

(* ---- the whole parser ---- *)

Lemma parse_ssh_inv : forall fx raw k u,
    parse_ssh fx raw k = inr u -> ssh_shape fx raw k u.
Proof.
  intros fx raw k u H. unfold parse_ssh in H.
  destruct (ssh_user_step raw) as [e|[user raw1]] eqn:US; [discriminate|].
  destruct (fx_dash fx && starts_with_dash user) eqn:D1; [discriminate|].
  destruct (ssh_host_step raw1) as [e|[host raw2]] eqn:HS; [discriminate|].
  destruct (fx_dash fx && starts_with_dash host) eqn:D2; [discriminate|].
  destruct (ssh_port_step raw2) as [e|[port path]] eqn:PS; [discriminate|].
  destruct (path_check k path) as [e|[]] eqn:PC; [discriminate|].
  inversion H; subst u.
  destruct (ssh_user_step_inv _ _ _ US) as (Rraw & Nuser & Hat).
  destruct (ssh_host_step_inv _ _ _ HS) as (R2 & N2 & Hh & B2).
  destruct (ssh_port_step_inv _ _ _ PS) as (pp & Rp & PSH).
  apply path_check_ok in PC.
  exists user, host, port, pp, path.
  split; [reflexivity|].
  split; [rewrite Rraw, R2, Rp; reflexivity|].
  split; [exact Nuser|].
  split; [exact N2|].
  split; [exact Hh|].
  split; [intro Hu; apply (Hat Hu _ _ B2)|].
  split; [exact PSH|].
  split; [exact PC|].
  intro F. rewrite F in D1, D2. cbn [andb] in D1, D2. split; assumption.
Qed.

Lemma parse_ssh_intro : forall fx raw k u,
    ssh_shape fx raw k u -> parse_ssh fx raw k = inr u.
Proof.
  intros fx raw k u (user & host & port & pp & path & -> & -> & Nu & Nh & Hh & Hat & PSH & PK & D).
  unfold parse_ssh.
  rewrite (ssh_user_step_intro user host (pp ++ path) Nu Nh Hat).
  assert (D1 : fx_dash fx && starts_with_dash user = false).
  { destruct (fx_dash fx); [|reflexivity]. destruct (D eq_refl) as [-> _]. reflexivity. }
  rewrite D1.
  rewrite (ssh_host_step_intro host (pp ++ path) Nh Hh).
  assert (D2 : fx_dash fx && starts_with_dash host = false).
  { destruct (fx_dash fx); [|reflexivity]. destruct (D eq_refl) as [_ ->]. reflexivity. }
  rewrite D2.
  rewrite (ssh_port_step_intro port pp path PSH).
  apply path_check_ok in PK. rewrite PK. reflexivity.
Qed.
