(* Lemmas about Model/Varint.v: byte conversions, list helpers, and the
   round trip  read_uvarint (uvarint n ++ r) = n, r  for every n < 2^64. *)
From Coq Require Import List Arith NArith Bool Lia Strings.Byte.
From Coq Require Import ZifyBool ZifyNat ZifyN.
Import ListNotations.
From Mv Require Import Model.Varint.
Local Open Scope N_scope.

(* ---- bytes -------------------------------------------------------------- *)
Lemma bval_lt : forall b, bval b < 256.
Proof. intro b. unfold bval. pose proof (Byte.to_N_bounded b). lia. Qed.

Lemma bval_b8 : forall n, bval (b8 n) = n mod 256.
Proof.
  intro n. unfold b8, bval.
  destruct (Byte.of_N (n mod 256)) as [b|] eqn:E.
  - apply Byte.to_of_N in E. exact E.
  - apply Byte.of_N_None_iff in E.
    pose proof (N.mod_lt n 256). lia.
Qed.

Lemma b8_bval : forall b, b8 (bval b) = b.
Proof.
  intro b. unfold b8. rewrite N.mod_small by apply bval_lt.
  unfold bval. rewrite Byte.of_to_N. reflexivity.
Qed.

Lemma bval_inj : forall a b, bval a = bval b -> a = b.
Proof. intros a b H. rewrite <- (b8_bval a), <- (b8_bval b), H. reflexivity. Qed.

(* ---- list helpers --------------------------------------------------------- *)
Lemma lenN_acc_spec : forall A (l : list A) a, lenN_acc l a = a + N.of_nat (length l).
Proof.
  induction l as [|x t IH]; intro a; cbn [lenN_acc length].
  - lia.
  - rewrite IH. lia.
Qed.

Lemma lenN_spec : forall A (l : list A), lenN l = N.of_nat (length l).
Proof. intros. unfold lenN. rewrite lenN_acc_spec. lia. Qed.

Lemma lenN_nil : forall A, lenN (@nil A) = 0.
Proof. reflexivity. Qed.

Lemma lenN_cons : forall A (x : A) l, lenN (x :: l) = 1 + lenN l.
Proof. intros. rewrite !lenN_spec. cbn [length]. lia. Qed.

Lemma lenN_app : forall A (a b : list A), lenN (a ++ b) = lenN a + lenN b.
Proof. intros. rewrite !lenN_spec, app_length. lia. Qed.

Lemma lenN_zero : forall A (l : list A), lenN l = 0 -> l = [].
Proof. intros A [|x t] H; [reflexivity|]. rewrite lenN_cons in H. lia. Qed.

Lemma rev'_spec : forall A (l : list A), rev' l = rev l.
Proof. intros. unfold rev'. symmetry. apply rev_alt. Qed.

Lemma bytes_eqb_eq : forall a b, bytes_eqb a b = true <-> a = b.
Proof.
  induction a as [|x a IH]; intros [|y b]; cbn [bytes_eqb]; split; intro H;
    try reflexivity; try discriminate.
  - destruct (Byte.eqb x y) eqn:E; [|discriminate].
    apply Byte.byte_dec_bl in E. apply IH in H. subst. reflexivity.
  - injection H as -> ->. rewrite (Byte.byte_dec_lb eq_refl). apply IH. reflexivity.
Qed.

(* ---- bit arithmetic ------------------------------------------------------- *)
Lemma lor_shiftl_add : forall x v s, x < 2 ^ s -> N.lor x (N.shiftl v s) = x + v * 2 ^ s.
Proof.
  intros x v s Hx. rewrite N.shiftl_mul_pow2.
  assert (Hland : N.land x (v * 2 ^ s) = 0).
  { apply N.bits_inj. intro m. rewrite N.land_spec, N.bits_0.
    destruct (N.ltb_spec m s) as [Hm|Hm].
    - rewrite N.mul_pow2_bits_low by exact Hm. apply andb_false_r.
    - rewrite <- (N.mod_small x (2 ^ s)) by exact Hx.
      rewrite N.mod_pow2_bits_high by exact Hm. reflexivity. }
  rewrite <- N.lxor_lor by exact Hland.
  symmetry. apply N.add_nocarry_lxor. exact Hland.
Qed.

Lemma land_127 : forall a, N.land a 127 = a mod 128.
Proof. intro a. change 127 with (N.ones 7). rewrite N.land_ones. reflexivity. Qed.

(* ---- the round trip -------------------------------------------------------- *)
Lemma pow2_63 : 2 ^ 63 = 9223372036854775808. Proof. reflexivity. Qed.
Lemma pow2_64 : 2 ^ 64 = 18446744073709551616. Proof. reflexivity. Qed.

Lemma read_uvarint_fuel :
  forall fuel n x i r,
    (i + fuel = 10)%nat -> (1 <= fuel)%nat ->
    x < 2 ^ (7 * N.of_nat i) -> n * 2 ^ (7 * N.of_nat i) < 2 ^ 64 ->
    read_uvarint_from {| vx := x; vs := 7 * N.of_nat i; vi := i |} (uvarint_fuel fuel n ++ r)
    = UvOk (x + n * 2 ^ (7 * N.of_nat i)) r.
Proof.
  induction fuel as [|fuel IH]; intros n x i r Hi Hf Hx Hn; [lia|].
  (* at the last position only 0 and 1 fit *)
  assert (Hlast : i = 9%nat -> n < 2).
  { intro E. subst i. change (7 * N.of_nat 9) with 63 in Hn.
    rewrite pow2_63, pow2_64 in Hn. lia. }
  cbn [uvarint_fuel]. destruct (n <? 128) eqn:Hlt.
  - apply N.ltb_lt in Hlt.
    cbn [app read_uvarint_from]. unfold vstep. cbn [vx vs vi].
    rewrite bval_b8, (N.mod_small n 256) by lia.
    replace (n <? 128) with true by (symmetry; apply N.ltb_lt; exact Hlt).
    destruct (Nat.eqb i 9 && (1 <? n)) eqn:E.
    + apply andb_true_iff in E. destruct E as [E1 E2].
      apply Nat.eqb_eq in E1. apply N.ltb_lt in E2. specialize (Hlast E1). lia.
    + rewrite lor_shiftl_add by exact Hx. reflexivity.
  - apply N.ltb_ge in Hlt.
    cbn [app read_uvarint_from]. unfold vstep. cbn [vx vs vi].
    rewrite bval_b8.
    pose proof (N.mod_lt n 128 ltac:(lia)) as Hm.
    rewrite (N.mod_small (n mod 128 + 128) 256) by lia.
    replace (n mod 128 + 128 <? 128) with false by (symmetry; apply N.ltb_ge; lia).
    destruct (Nat.eqb i 9) eqn:E9.
    + apply Nat.eqb_eq in E9. specialize (Hlast E9). lia.
    + apply Nat.eqb_neq in E9.
      rewrite land_127.
      rewrite (N.add_mod (n mod 128) 128 128), N.mod_same, N.add_0_r by lia.
      rewrite !N.mod_mod by lia.
      rewrite lor_shiftl_add by exact Hx.
      replace (7 * N.of_nat i + 7) with (7 * N.of_nat (S i)) by lia.
      assert (Hp : 2 ^ (7 * N.of_nat (S i)) = 2 ^ (7 * N.of_nat i) * 128).
      { replace (7 * N.of_nat (S i)) with (7 * N.of_nat i + 7) by lia.
        rewrite N.pow_add_r. reflexivity. }
      pose proof (N.div_mod n 128 ltac:(lia)) as Hdm.
      set (P := 2 ^ (7 * N.of_nat i)) in *.
      set (q := n / 128) in *. set (m := n mod 128) in *.
      rewrite IH.
      * rewrite Hp. f_equal. rewrite Hdm. ring.
      * lia.
      * lia.
      * rewrite Hp. nia.
      * rewrite Hp.
        assert (q * (P * 128) <= n * P) by (rewrite Hdm; nia).
        lia.
Qed.

Lemma read_uvarint_uvarint :
  forall n r, n < 2 ^ 64 -> read_uvarint (uvarint n ++ r) = UvOk n r.
Proof.
  intros n r Hn. unfold read_uvarint, uvarint.
  pose proof (read_uvarint_fuel 10 n 0 0 r eq_refl ltac:(lia)) as H.
  change (7 * N.of_nat 0) with 0 in H. change (2 ^ 0) with 1 in H.
  rewrite N.mul_1_r, N.add_0_l in H. apply H; lia.
Qed.

(* every encoding has between one and ten bytes *)
Lemma uvarint_fuel_nonempty : forall fuel n, (1 <= fuel)%nat -> uvarint_fuel fuel n <> [].
Proof.
  intros [|f] n Hf; [lia|]. cbn [uvarint_fuel]. destruct (n <? 128); discriminate.
Qed.

Lemma uvarint_nonempty : forall n, uvarint n <> [].
Proof. intro n. apply uvarint_fuel_nonempty. lia. Qed.

Lemma uvarint_fuel_length : forall fuel n, (length (uvarint_fuel fuel n) <= fuel)%nat.
Proof.
  induction fuel as [|f IH]; intro n; cbn [uvarint_fuel].
  - cbn. lia.
  - destruct (n <? 128); cbn [length]; [lia|]. specialize (IH (n / 128)). lia.
Qed.

Lemma uvarint_length : forall n, (length (uvarint n) <= 10)%nat.
Proof. intro n. apply uvarint_fuel_length. Qed.
