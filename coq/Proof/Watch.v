(* Proofs for C42 about Model/Watch.v: invariants over every schedule. *)
From Coq Require Import List Bool Arith Lia.
Import ListNotations.
From Mv Require Import Model.Watch.

(* some schedule leads from an initial state (acceleration allowed or not,
   root content d) to s *)
Definition reachable (fixed : bool) (d : nat) (s : st) : Prop :=
  exists a sched, run fixed (init a d) sched = Some s.

(* the content the next poll compare is made against *)
Definition base (s : st) : nat :=
  match pc s with
  | PScanned _ _ c _ => c
  | PCompare c _ _ _ => c
  | _ => pprev s
  end.

Definition pc_holds (p : ppc) : bool :=
  match p with PScanning _ _ | PScanned _ _ _ _ => true | _ => false end.
Definition cc_holds (c : cpc) : bool :=
  match c with CScanning _ _ => true | _ => false end.

(* the flag the compare of the current poll iteration will see *)
Definition pending_forced (fixed : bool) (s : st) : bool :=
  match pc s with
  | PScanned _ _ _ _ => fixed && forced s
  | PCompare _ _ fz _ => fz
  | _ => false
  end.

Definition pc_window (p : ppc) : option (nat * window) :=
  match p with
  | PScanned _ _ c w => Some (c, w)
  | PCompare c _ _ w => Some (c, w)
  | _ => None
  end.

Definition scan_began (s : st) : option nat :=
  match pc s with
  | PScanning b _ | PScanned b _ _ _ => Some b
  | _ => None
  end.

Definition cached_ok (e : event) : Prop :=
  match e with EvScanCached _ b lt => lt < b | _ => True end.

Record inv (fixed : bool) (s : st) : Prop := {
  i_lock : match lock s with
           | Free => pc_holds (pc s) = false /\ cc_holds (cc s) = false
           | ByPoll => pc_holds (pc s) = true /\ cc_holds (cc s) = false
           | ByCtrl => pc_holds (pc s) = false /\ cc_holds (cc s) = true
           end;
  i_now : last_tend s < now s;
  i_pbegan : forall b, scan_began s = Some b -> last_tend s < b /\ b < now s;
  i_cbegan : forall b r, cc s = CScanning b r -> last_tend s < b /\ b < now s;
  i_accel : accel s = true -> exists i, snap s = Some i /\ last_tend s < sbegan i;
  i_log : forall e, In e (log s) -> cached_ok e;
  i_same : g_based s = true -> g_edits s = 0 -> g_tchg s = false -> disk s = base s;
  i_diff : g_based s = true -> g_edits s = 1 -> g_tchg s = false -> disk s <> base s;
  i_tf : fixed = true -> g_tchg s = true -> cc s = TRunning true \/ forced s = true;
  i_tu : g_tchg s = true -> cc s = TRunning true \/ g_tended s = true;
  i_scanned : forall b f c w, pc s = PScanned b f c w -> g_tchg s = true -> cc s = TRunning true;
  i_tbe : 1 <= g_edits s -> g_tended s = true -> g_tbe s = true \/ g_sae s = true;
  i_duty : forall c w, pc_window (pc s) = Some (c, w) ->
           wbased w = true -> wedits w = 1 -> (fixed = true \/ wtbe w = false) ->
           c <> pprev s \/ pending_forced fixed s = true \/ wsa w = true \/ cc s = TRunning true
}.

Lemma inv_init : forall fixed a d, inv fixed (init a d).
Proof.
  intros fixed a d. constructor; cbn; try (intros; discriminate); try lia; auto.
Qed.

Ltac inv_pre I :=
  destruct I as [Ilock Inow Ipb Icb Iacc Ilog Isame Idiff Itf Itu Iscd Itbe Iduty];
  unfold scan_began in Ipb; unfold base in Isame, Idiff; unfold pending_forced in Iduty.

Ltac norm :=
  match goal with
  | Ilock : _, Ipb : _, Isame : _, Idiff : _, Iduty : _ |- _ =>
      cbn in Ilock, Ipb, Isame, Idiff, Iduty
  end.

(* generic closing tactic for the invariant's components *)
Ltac bounds :=
  repeat match goal with
  | Ipb : forall b, Some ?x = Some b -> _ |- _ => pose proof (Ipb x eq_refl); clear Ipb
  | Icb : forall b r, ?c = CScanning b r -> _, C : ?c = CScanning ?b0 ?r0 |- _ =>
      pose proof (Icb b0 r0 C); clear Icb
  end.

Ltac fin :=
  try solve
    [ assumption | reflexivity | discriminate | lia | tauto | congruence
    | intros; discriminate
    | intros ? Hb; inversion Hb; subst; lia
    | intros ? ? Hb; inversion Hb; subst; lia
    | intros ? Hb; match goal with Ipb : forall b, _ = Some b -> _ |- _ => specialize (Ipb _ Hb) end; lia
    | intros ? ? Hb; match goal with Icb : forall b r, _ = CScanning b r -> _ |- _ => specialize (Icb _ _ Hb) end; lia
    | intros; bounds; intuition lia
    | intros; bounds; intuition congruence
    | intros; bounds; intuition (try discriminate; try congruence; try lia; auto)
    | intros ? [<-|?]; cbn; auto
    | intros ? [<-|[<-|?]]; cbn; auto ].

Ltac fin2 :=
  try solve
    [ (* i_scanned *)
      intros ? ? ? ? Hp TC;
      match goal with Iscd : forall b f c w, _ = PScanned b f c w -> _ |- _ =>
        pose proof (Iscd _ _ _ _ Hp TC) end; congruence
    | intros ? ? ? ? Hp TC; discriminate Hp
    | (* i_duty carried over *)
      intros cx wx Hw WB WE WT;
      match goal with Iduty : forall c w, _ = Some (c, w) -> _ |- _ =>
        destruct (Iduty cx wx Hw WB WE WT) as [Y|[Y|[Y|Y]]] end;
      try discriminate; try congruence; auto
    | (* i_tf / i_tu carried over *)
      intros FX TC;
      match goal with Itf : _ = true -> _ = true -> _ \/ forced _ = true |- _ => destruct (Itf FX TC) as [Y|Y] end;
      try discriminate; try congruence; auto
    | intros TC;
      match goal with Itu : _ = true -> _ \/ g_tended _ = true |- _ => destruct (Itu TC) as [Y|Y] end;
      try discriminate; try congruence; auto
    | (* i_accel with a fresh snapshot *)
      intros; eexists; split; [reflexivity|]; cbn; bounds; lia ].

Ltac build := constructor; unfold scan_began, base, pending_forced; cbn; fin; fin2.

Lemma inv_step : forall fixed s a s', inv fixed s -> step fixed s a = Some s' -> inv fixed s'.
Proof.
  intros fixed s a s' I E. inv_pre I.
  destruct a as [| | | | | |fl| |fl| |c0| |c0]; cbn [step] in E.
  - (* tick *)
    inversion E; subst; clear E. build.
  - (* poll begin *)
    destruct (pc s) as [|b first|b first c w|c ign fz w] eqn:P; try discriminate; norm. destruct (lock s) eqn:L; try discriminate; norm.
    destruct (pfirst s || tick s); [|discriminate]. inversion E; subst; clear E. build.
  - (* poll fail *)
    destruct (pc s) as [|b first|b first c w|c ign fz w] eqn:P; try discriminate; norm. inversion E; subst; clear E. destruct (lock s) eqn:L; norm; build.
  - (* poll read *)
    destruct (pc s) as [|b first|b first c w|c ign fz w] eqn:P; try discriminate; norm. inversion E; subst; clear E. destruct (lock s) eqn:L; norm; build.
    all: intros c w Hw; inversion Hw; subst; clear Hw; cbn; intros WB WE WT;
      (destruct (g_tchg s) eqn:TC;
       [ destruct WT as [->|TB];
         [ destruct (Itf eq_refl eq_refl) as [R|F];
           [right; right; right; exact R|right; left; rewrite F; reflexivity]
         | destruct (Itu eq_refl) as [R|TE];
           [right; right; right; exact R|];
           destruct (Itbe ltac:(lia) TE) as [X|X]; [congruence|right; right; left; exact X] ]
       | left; apply Idiff; auto ]).
  - (* poll end *)
    destruct (pc s) as [|b first|b first c w|c ign fz w] eqn:P; try discriminate; norm. inversion E; subst; clear E. destruct (lock s) eqn:L; norm; build.
    all: intros FX TC; left; eapply Iscd; [reflexivity|exact TC].
  - (* poll compare *)
    destruct (pc s) as [|b first|b first c w|c ign fz w] eqn:P; try discriminate; norm.
    destruct ((negb (Nat.eqb c (pprev s)) && negb ign) || fz) eqn:SB;
      inversion E; subst; clear E; destruct (lock s) eqn:L; norm; build.
  - (* scan *)
    destruct (cc s) as [|b read|changed] eqn:C; try discriminate; norm. destruct (lock s) eqn:L; try discriminate; norm.
    destruct (accel s && negb fl) eqn:A;
      [destruct (snap s) as [i|] eqn:SN; [|discriminate]|]; inversion E; subst; clear E; build.
    all: intros e [<-|IN]; [cbn|auto];
      apply andb_true_iff in A; destruct A as [A _];
      destruct (Iacc A) as (i0 & S0 & LT); try rewrite SN in S0; inversion S0; subst; exact LT.
  - (* scan read *)
    destruct (cc s) as [|b read|changed] eqn:C; try discriminate; norm. destruct read; try discriminate.
    inversion E; subst; clear E. destruct (lock s) eqn:L; norm; build.
    all: intros b0 r Hb; inversion Hb; subst; pose proof (Icb _ _ eq_refl); lia.
  - (* scan end *)
    destruct (cc s) as [|b read|changed] eqn:C; try discriminate; norm.
    destruct fl; [destruct read as [c|]; [|discriminate]|]; inversion E; subst; clear E;
      destruct (lock s) eqn:L; norm; build.
    all: intros A; eexists; split; [reflexivity|]; cbn; pose proof (Icb _ _ eq_refl); lia.
  - (* transition begin *)
    destruct (cc s) as [|b read|changed] eqn:C; try discriminate; norm. destruct (lock s) eqn:L; try discriminate; norm. inversion E; subst; clear E. build.
  - (* transition change *)
    destruct (cc s) as [|b read|changed] eqn:C; try discriminate; norm. inversion E; subst; clear E. destruct (lock s) eqn:L; norm; build.
  - (* transition end *)
    destruct (cc s) as [|b read|changed] eqn:C; try discriminate; norm. destruct (lock s) eqn:L; try discriminate; norm.
    destruct changed; inversion E; subst; clear E;
      destruct (pc s) as [|b first|b first c w|c ign fz w] eqn:P; norm; build.
    all: try solve [intros FX TC; right; rewrite FX; reflexivity].
    all: try solve [intros FX TC; destruct (Itf FX TC) as [Y|Y]; [discriminate|];
                    right; rewrite andb_false_r; exact Y].
    all: try solve [intros c1 w1 Hw; inversion Hw; subst; cbn; intros; right; right; left; reflexivity].
  - (* edit *)
    destruct (Nat.eqb c0 (disk s)) eqn:D; [discriminate|]. apply Nat.eqb_neq in D.
    inversion E; subst; clear E. destruct (lock s) eqn:L; norm; build.
    all: intros GB GE TC; inversion GE as [GE0]; rewrite <- (Isame GB GE0 TC); exact D.
Qed.

Lemma run_inv : forall fixed sched s s', inv fixed s -> run fixed s sched = Some s' -> inv fixed s'.
Proof.
  intros fixed sched; induction sched as [|a t IH]; intros s s' I E; cbn in E.
  - inversion E; subst; exact I.
  - destruct (step fixed s a) as [s1|] eqn:S; [|discriminate].
    eapply IH; [eapply inv_step; eauto|exact E].
Qed.

Lemma reachable_inv : forall fixed d s, reachable fixed d s -> inv fixed s.
Proof. intros fixed d s (a & sched & R). eapply run_inv; [apply inv_init|exact R]. Qed.

(* ---------- the theorems ---------- *)

(* not stale: whenever Scan returns the cached snapshot, that snapshot was
   taken by a scan that began after the last Transition that changed the disk
   had ended *)
Lemma not_stale_log : forall fixed d s c b lt,
  reachable fixed d s -> In (EvScanCached c b lt) (log s) -> lt < b.
Proof. intros fixed d s c b lt R IN. exact (i_log _ _ (reachable_inv _ _ _ R) _ IN). Qed.

Lemma not_stale_step : forall fixed d s full s',
  reachable fixed d s -> step fixed s (AScan full) = Some s' ->
  accel s = true -> full = false ->
  exists i, snap s = Some i /\ last_tend s < sbegan i
            /\ log s' = EvScanCached (scontent i) (sbegan i) (last_tend s) :: log s.
Proof.
  intros fixed d s full s' R E A ->. pose proof (reachable_inv _ _ _ R) as I.
  destruct (i_accel _ _ I A) as (i & SN & LT). exists i. split; [exact SN|]. split; [exact LT|].
  cbn [step] in E. destruct (cc s); try discriminate. destruct (lock s); try discriminate.
  rewrite A, SN in E. cbn in E. inversion E; subst. reflexivity.
Qed.

(* accelerate is never left on by a Transition that changed the disk *)
Lemma tend_clears : forall fixed s s',
  step fixed s ATEnd = Some s' -> cc s = TRunning true ->
  accel s' = false /\ exists e, hd_error (log s') = Some (EvStrobe SrcTransition e).
Proof.
  intros fixed s s' E C. cbn [step] in E. rewrite C in E. destruct (lock s); try discriminate.
  inversion E; subst. cbn. split; [reflexivity|eexists; reflexivity].
Qed.

(* noticed: the compare that closes a polling window with exactly one
   content-changing external edit in it *)
Definition noticed_statement (fixed : bool) : Prop :=
  forall d s c ign fz w,
    reachable fixed d s -> pc s = PCompare c ign fz w ->
    wbased w = true -> ign = false -> wedits w = 1 ->
    compare_strobes s = true \/ wsa w = true \/ cc s = TRunning true.

Lemma noticed_duty : forall fixed d s c ign fz w,
  reachable fixed d s -> pc s = PCompare c ign fz w ->
  wbased w = true -> ign = false -> wedits w = 1 -> (fixed = true \/ wtbe w = false) ->
  compare_strobes s = true \/ wsa w = true \/ cc s = TRunning true.
Proof.
  intros fixed d s c ign fz w R P WB -> WE WT. pose proof (reachable_inv _ _ _ R) as I.
  pose proof (i_duty _ _ I c w) as D. rewrite P in D. cbn in D.
  specialize (D eq_refl WB WE WT). unfold compare_strobes. rewrite P. unfold pending_forced in D.
  rewrite P in D.
  destruct D as [N|[F|[S|T]]]; auto.
  - left. apply Nat.eqb_neq in N. rewrite N. reflexivity.
  - left. rewrite F. apply orb_true_r.
Qed.

Lemma noticed_fixed : noticed_statement true.
Proof. intros d s c ign fz w R P WB IG WE. eapply noticed_duty; eauto. Qed.

Lemma noticed_unfixed_partial : forall d s c ign fz w,
  reachable false d s -> pc s = PCompare c ign fz w ->
  wbased w = true -> ign = false -> wedits w = 1 -> wtbe w = false ->
  compare_strobes s = true \/ wsa w = true \/ cc s = TRunning true.
Proof. intros d s c ign fz w R P WB IG WE TB. eapply noticed_duty; eauto. Qed.

(* reversal: the poll sees exactly the content it saw before (an external edit
   undid what a Transition had done); with the repair it is noticed all the same *)
Lemma reversal_fixed : forall d s c ign fz w,
  reachable true d s -> pc s = PCompare c ign fz w ->
  wbased w = true -> ign = false -> wedits w = 1 -> c = pprev s ->
  fz = true \/ wsa w = true \/ cc s = TRunning true.
Proof.
  intros d s c ign fz w R P WB IG WE EQ.
  destruct (noticed_fixed d s c ign fz w R P WB IG WE) as [S|X]; [|auto].
  unfold compare_strobes in S. rewrite P in S. subst c. rewrite Nat.eqb_refl in S. cbn in S.
  left. exact S.
Qed.

(* ---------- the defect: the code as it is misses a reversal ---------- *)

(* root content 5; the first poll scan establishes the baseline; a Transition
   changes the root to 7 and strobes; the controller rescans (full: accelerate
   was cleared) and sees 7; the user restores 5; the next poll scan sees 5 =
   its previous snapshot: no strobe, no transition running, nothing after the
   edit. *)
Definition reversal_schedule : list action :=
  [APollBegin; APollRead; APollEnd; APollCompare;
   ATBegin; ATChange 7; ATEnd;
   AScan false; AScanRead; AScanEnd true;
   AEdit 5;
   ATick; APollBegin; APollRead; APollEnd].

Lemma reversal_unnoticed_unfixed :
  exists s c ign fz w,
    run false (init true 5) reversal_schedule = Some s /\ pc s = PCompare c ign fz w
    /\ wbased w = true /\ ign = false /\ wedits w = 1
    /\ compare_strobes s = false /\ wsa w = false /\ cc s = CIdle
    /\ hd_error (log s) = Some (EvScanFull 7 8).
Proof.
  vm_compute. do 5 eexists. repeat split; reflexivity.
Qed.

Lemma noticed_refuted_unfixed : ~ noticed_statement false.
Proof.
  intros N. destruct reversal_unnoticed_unfixed as (s & c & ign & fz & w & R & P & WB & IG & WE & CS & SA & CC & _).
  destruct (N 5 s c ign fz w (ex_intro _ true (ex_intro _ _ R)) P WB IG WE) as [X|[X|X]]; congruence.
Qed.

Lemma reversal_noticed_fixed :
  exists s, run true (init true 5) (reversal_schedule ++ [APollCompare]) = Some s
            /\ hd_error (log s) = Some (EvStrobe SrcPoll 16).
Proof. vm_compute. eexists. split; reflexivity. Qed.
