(* Soundness of the C42 checker on observed histories (Model/WatchObs.v). *)
From Coq Require Import List Bool Arith NArith Lia.
Import ListNotations.
From Mv Require Import Model.WatchObs.

(* fresh, declaratively: whatever precedes a Scan in the history, the content
   it returned is one the root has had since the last changing Transition
   returned *)
Definition prop_fresh (c0 : nat) (evs : list oev) : Prop :=
  forall pre t0 t1 c post, evs = pre ++ XScan t0 t1 c :: post ->
    In c (snd (allowed c0 [c0] pre)).

Lemma check_fresh_sound_gen : forall evs cur acc,
  check_fresh cur acc evs = true ->
  forall pre t0 t1 c post, evs = pre ++ XScan t0 t1 c :: post ->
    In c (snd (allowed cur acc pre)).
Proof.
  induction evs as [|e evs IH]; intros cur acc E pre t0 t1 c post EQ.
  - destruct pre; discriminate.
  - destruct pre as [|e' pre'].
    + cbn in EQ. inversion EQ; subst. cbn in E. apply andb_true_iff in E. destruct E as [E _].
      apply existsb_exists in E. destruct E as (x & I & X). apply Nat.eqb_eq in X. subst x. exact I.
    + cbn in EQ. inversion EQ; subst e' evs.
      destruct e as [t c1 ext|t changed|s0 s1 c1|t]; cbn [check_fresh allowed] in *.
      * eapply IH; eauto.
      * destruct changed; eapply IH; eauto.
      * apply andb_true_iff in E. destruct E as [_ E]. eapply IH; eauto.
      * eapply IH; eauto.
Qed.

Lemma check_fresh_sound : forall c0 evs, check_fresh c0 [c0] evs = true -> prop_fresh c0 evs.
Proof. intros c0 evs E pre t0 t1 c post EQ. eapply check_fresh_sound_gen; eauto. Qed.

(* noticed, declaratively *)
Definition prop_noticed (W warm tend : N) (evs : list oev) : Prop :=
  forall t, In t (edit_times evs) ->
    (warm <= t)%N -> (t + W <= tend)%N ->
    (forall t', In t' (edit_times evs) -> ~ ((t' < t)%N /\ (t < t' + W)%N)) ->
    (forall t', In t' (change_times evs) -> ~ ((t < t')%N /\ (t' <= t + W)%N)) ->
    exists p, In p (poll_times evs) /\ (t < p)%N /\ (p <= t + W)%N.

Lemma check_noticed_sound : forall W warm tend evs,
  check_noticed W warm tend evs = true -> prop_noticed W warm tend evs.
Proof.
  intros W warm tend evs E t IN WA TE ISO PER.
  unfold check_noticed in E. rewrite forallb_forall in E. specialize (E t IN).
  assert (O : owed W warm tend evs t = true).
  { unfold owed. repeat (apply andb_true_iff; split).
    - apply N.leb_le; exact WA.
    - apply N.leb_le; exact TE.
    - apply forallb_forall. intros t' I'. apply negb_true_iff. apply andb_false_iff.
      destruct (t' <? t)%N eqn:A; [|left; reflexivity]. right.
      destruct (t <? t' + W)%N eqn:B; [|reflexivity].
      apply N.ltb_lt in A, B. exfalso. eapply ISO; eauto.
    - apply forallb_forall. intros t' I'. apply negb_true_iff. apply andb_false_iff.
      destruct (t <? t')%N eqn:A; [|left; reflexivity]. right.
      destruct (t' <=? t + W)%N eqn:B; [|reflexivity].
      apply N.ltb_lt in A. apply N.leb_le in B. exfalso. eapply PER; eauto. }
  rewrite O in E. cbn in E. unfold notified in E. apply existsb_exists in E.
  destruct E as (p & IP & C). apply andb_true_iff in C. destruct C as [C1 C2].
  apply N.ltb_lt in C1. apply N.leb_le in C2. exists p. auto.
Qed.

Definition prop_C42 (W warm tend : N) (c0 : nat) (evs : list oev) : Prop :=
  prop_fresh c0 evs /\ prop_noticed W warm tend evs.

Lemma check_C42_sound : forall W warm tend c0 evs,
  check_C42 W warm tend c0 evs = true -> prop_C42 W warm tend c0 evs.
Proof.
  intros W warm tend c0 evs E. unfold check_C42 in E. apply andb_true_iff in E. destruct E as [F N].
  split; [apply check_fresh_sound; exact F|apply check_noticed_sound; exact N].
Qed.
