(* C01 - Two-way-safe synchronization never loses a modification.
   Property theorems only: each is closed by [exact <lemma>] from Proof/ and
   listed under Print Assumptions at the end.

   Vocabulary (Model/CheckC01.v): [subtree a b] - a arises from b by deletions
   only; [unsync_free e] - no untracked/problematic/phantom entry in e;
   [side_safe anc side chs] - every change in chs expects exactly what the scan
   saw at its path, and what it overwrites is unsync_free and a deletion-only
   subtree of the ancestor there; [stops_at anc al be q anc'] - reconcile's
   recursion reaches q, the sides disagree there, anc' is the ancestor argument
   handed to the disagreement handler; [has_non_deletion] - the side has
   creations/modifications relative to the ancestor (extractNonDeletionChanges
   of the diff is non-empty). Well-formedness is Entry.EnsureValid: the
   ancestor passes EnsureValid(true), the scans EnsureValid(false). *)
From Coq Require Import List Bool Arith String.
Import ListNotations.
From Mv Require Import Model.Entry Model.Reconcile Model.CheckC01
  Proof.EntryFacts Proof.C01Base Proof.C01Diff Proof.C01Reach Proof.C01.
Open Scope string_scope.

(* ---------- what the vocabulary means, path by path ---------- *)
Theorem c01_subtree_meaning : forall a b,
  wf false a = true ->
  (subtree a b = true <->
   forall q x, at_path a q = Some x ->
     exists y, at_path b q = Some y /\ shallow_eqb x y = true).
Proof. exact subtree_meaning. Qed.

Theorem c01_unsync_free_meaning : forall a,
  wf false a = true ->
  (unsync_free a = true <->
   forall q x, at_path a q = Some x -> kind_sync (kind_of x) = true).
Proof. exact unsync_free_meaning. Qed.

(* ---------- one cycle ---------- *)

(* Whatever the plan deletes or overwrites, on either side, is exactly what the
   scan saw there (so the transition's just-in-time check compares against the
   right thing), contains nothing unsynchronizable, and differs from the
   last-synchronized tree by deletions only: nothing created or modified since
   then is lost. *)
Theorem c01_overwritten_is_unchanged : forall anc al be,
  wf true anc = true -> wf false al = true -> wf false be = true ->
  let pl := reconcile TwoWaySafe anc al be in
  side_safe anc be (beta_ch pl) /\ side_safe anc al (alpha_ch pl).
Proof.
  exact (fun anc al be Wa Wl Wb =>
           conj (c01_beta_safe anc al be Wa Wl Wb)
                (c01_alpha_safe TwoWaySafe anc al be (or_introl eq_refl) Wa Wl Wb)).
Qed.

(* Where the recursion stops and both sides created or modified content, a
   conflict rooted exactly there is reported, and no change of either side
   lies at, above or below that path: both versions stay. (No well-formedness
   is needed for this part.) *)
Theorem c01_both_modified_conflict : forall anc al be q anc',
  stops_at anc al be q anc' ->
  has_non_deletion q anc' (at_path al q) = true ->
  has_non_deletion q anc' (at_path be q) = true ->
  let pl := reconcile TwoWaySafe anc al be in
  (exists c, In c (conflicts pl) /\ root c = q)
  /\ forall ch, In ch (alpha_ch pl ++ beta_ch pl) -> comparable q (cpath ch) = false.
Proof. exact c01_both_modified. Qed.

(* the same with "created or modified" measured against the saved ancestor's
   entry at that path *)
Theorem c01_both_modified_conflict_ancestor : forall anc al be q anc',
  stops_at anc al be q anc' ->
  has_non_deletion q (at_path anc q) (at_path al q) = true ->
  has_non_deletion q (at_path anc q) (at_path be q) = true ->
  let pl := reconcile TwoWaySafe anc al be in
  (exists c, In c (conflicts pl) /\ root c = q)
  /\ forall ch, In ch (alpha_ch pl ++ beta_ch pl) -> comparable q (cpath ch) = false.
Proof. exact c01_both_modified_ancestor. Qed.

(* the ancestor argument at a stopping point is the saved ancestor's entry
   there, or nil below a node where both sides agree with each other but not
   with the ancestor *)
Theorem c01_stops_at_ancestor : forall q anc al be anc',
  reached anc al be q = Some anc' -> anc' = at_path anc q \/ anc' = None.
Proof. exact reached_anc. Qed.

(* ---------- the checker applied to the implementation's plans ---------- *)
Theorem c01_check_sound : forall anc al be pl,
  check_c01 (TwoWaySafe, anc, al, be, pl) = true -> c01_plan_ok anc al be pl.
Proof. exact check_c01_sound. Qed.

Theorem c01_check_complete : forall anc al be pl,
  c01_plan_ok anc al be pl -> check_c01 (TwoWaySafe, anc, al, be, pl) = true.
Proof. exact (fun anc al be pl H => proj2 (c01_plan_ok_b_iff anc al be pl) H). Qed.

Theorem c01_check_model : forall m anc al be,
  wf true anc = true -> wf false al = true -> wf false be = true ->
  check_c01 (m, anc, al, be, reconcile m anc al be) = true.
Proof. exact check_c01_model. Qed.

(* ---------- histories ----------
   A history is any list of cycles. At each cycle the two scans are arbitrary
   well-formed trees (anything may have happened on disk since the previous
   cycle) and each Transition reports arbitrary results, or fails. The cycle is
   the controller's: Reconcile; ancestor := Apply(ancestor, ancestor changes ++
   alpha results ++ beta results); the new ancestor is kept only if it passes
   EnsureValid(true) (controller.go returns an error otherwise and the saved
   ancestor stays). At EVERY cycle of EVERY history the ancestor in force is
   valid and the one-cycle guarantee holds for that cycle's plan. *)
Theorem c01_history : forall h anc0,
  wf true anc0 = true -> (forall s, In s h -> step_wf s) ->
  forall anc s, In (anc, s) (run_history (cycle TwoWaySafe) anc0 h) ->
    wf true anc = true /\
    c01_plan_ok anc (st_alpha s) (st_beta s) (reconcile TwoWaySafe anc (st_alpha s) (st_beta s)).
Proof. exact c01_history_lemma. Qed.

(* The same for the cycle WITHOUT the EnsureValid gate, under the hypothesis
   (the statement of property C05, proved elsewhere) that Apply succeeds and
   yields a valid ancestor whenever every transition result lies in the outcome
   set {new, old, deletion-only part of new or of old}: then the gate never
   fires, the two cycles coincide, and the guarantee holds at every cycle. *)
Theorem c01_history_nogate_partial :
  apply_valid_hyp ->
  forall h anc0,
  wf true anc0 = true -> (forall s, In s h -> step_wf s) ->
  (forall anc s, In (anc, s) (run_history (cycle_nogate TwoWaySafe) anc0 h) ->
     step_outcomes_ok TwoWaySafe anc s) ->
  run_history (cycle_nogate TwoWaySafe) anc0 h = run_history (cycle TwoWaySafe) anc0 h
  /\ forall anc s, In (anc, s) (run_history (cycle_nogate TwoWaySafe) anc0 h) ->
       wf true anc = true /\
       c01_plan_ok anc (st_alpha s) (st_beta s) (reconcile TwoWaySafe anc (st_alpha s) (st_beta s)).
Proof. exact c01_history_nogate_lemma. Qed.

(* ---------- the hypotheses are satisfiable on non-trivial states ---------- *)
Definition f1 := EFile false "d1".
Definition f2 := EFile false "d2".
Definition f3 := EFile true "d3".
Definition ex_anc : oentry := Some (EDir [("a", f1); ("b", EDir [("c", f1); ("e", f1)]); ("k", f1)]).
(* alpha modified a, created u below b; beta deleted b/c and modified k *)
Definition ex_alpha : oentry :=
  Some (EDir [("a", f2); ("b", EDir [("c", f1); ("e", f1)]); ("k", f1)]).
Definition ex_beta : oentry :=
  Some (EDir [("a", f1); ("b", EDir [("e", f1); ("u", EUntracked)]); ("k", f3)]).

Example c01_example_plan :
  wf true ex_anc = true /\ wf false ex_alpha = true /\ wf false ex_beta = true /\
  let pl := reconcile TwoWaySafe ex_anc ex_alpha ex_beta in
  beta_ch pl = [mk ["a"] (Some f1) (Some f2)]
  /\ alpha_ch pl = [mk ["b"; "c"] (Some f1) None; mk ["k"] (Some f1) (Some f3)]
  /\ conflicts pl = [].
Proof. vm_compute. repeat split. Qed.

(* both sides modified a: conflict at a, nothing planned at or around it *)
Definition ex_beta2 : oentry :=
  Some (EDir [("a", f3); ("b", EDir [("e", f1)]); ("k", f1)]).

Example c01_example_conflict :
  stops_at ex_anc ex_alpha ex_beta2 ["a"] (Some f1)
  /\ has_non_deletion ["a"] (Some f1) (at_path ex_alpha ["a"]) = true
  /\ has_non_deletion ["a"] (Some f1) (at_path ex_beta2 ["a"]) = true
  /\ conflicts (reconcile TwoWaySafe ex_anc ex_alpha ex_beta2)
     = [mkc ["a"] [mk ["a"] (Some f1) (Some f2)] [mk ["a"] (Some f1) (Some f3)]]
  /\ alpha_ch (reconcile TwoWaySafe ex_anc ex_alpha ex_beta2)
     = [mk ["b"; "c"] (Some f1) None].
Proof. vm_compute. repeat split. Qed.

(* a two-cycle history: the first cycle's transitions succeed on beta and fail
   half-way on alpha (the deletion is reported as not done); the ancestor
   moves, and the second cycle plans against the new ancestor *)
Definition ex_step1 : hstep :=
  {| st_alpha := ex_alpha; st_beta := ex_beta;
     st_res_alpha := Some [Some f1; Some f3];
     st_res_beta := Some [Some f2] |}.
Definition ex_step2 : hstep :=
  {| st_alpha := Some (EDir [("a", f2); ("b", EDir [("c", f1); ("e", f1)]); ("k", f3)]);
     st_beta := Some (EDir [("a", f2); ("b", EDir [("e", f1); ("u", EUntracked)]); ("k", f3); ("n", f1)]);
     st_res_alpha := None; st_res_beta := None |}.

Example c01_example_history :
  step_wf ex_step1 /\ step_wf ex_step2
  /\ step_outcomes_ok TwoWaySafe ex_anc ex_step1
  /\ cycle TwoWaySafe ex_anc ex_step1
     = Some (EDir [("a", f2); ("b", EDir [("c", f1); ("e", f1)]); ("k", f3)])
  /\ cycle_nogate TwoWaySafe ex_anc ex_step1 = cycle TwoWaySafe ex_anc ex_step1
  /\ map fst (run_history (cycle TwoWaySafe) ex_anc [ex_step1; ex_step2])
     = [ex_anc; cycle TwoWaySafe ex_anc ex_step1]
  /\ alpha_ch (reconcile TwoWaySafe (cycle TwoWaySafe ex_anc ex_step1)
                         (st_alpha ex_step2) (st_beta ex_step2))
     = [mk ["b"; "c"] (Some f1) None; mk ["n"] None (Some f1)].
Proof.
  vm_compute. repeat split; auto.
  - intros cr [E|[E|[]]]; subst cr; vm_compute; auto.
  - intros cr [E|[]]; subst cr; vm_compute; auto.
Qed.

Print Assumptions c01_subtree_meaning.
Print Assumptions c01_unsync_free_meaning.
Print Assumptions c01_overwritten_is_unchanged.
Print Assumptions c01_both_modified_conflict.
Print Assumptions c01_both_modified_conflict_ancestor.
Print Assumptions c01_stops_at_ancestor.
Print Assumptions c01_check_sound.
Print Assumptions c01_check_complete.
Print Assumptions c01_check_model.
Print Assumptions c01_history.
Print Assumptions c01_history_nogate_partial.
