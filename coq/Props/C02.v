(* C02 - Directional modes respect their direction and protect the right side.
   Property theorems only: each is closed by [exact <lemma>] from Proof/ and
   listed under Print Assumptions at the end.

   Vocabulary: Model/CheckC01.v ([subtree], [unsync_free], [side_safe]) and
   Model/CheckC02.v ([beta_protected], [alpha_protected], [excluded],
   [mirrored], [read_only], [guarded]). The ancestor passes EnsureValid(true),
   the scans EnsureValid(false). *)
From Coq Require Import List Bool Arith String.
Import ListNotations.
From Mv Require Import Model.Entry Model.Reconcile Model.CheckC01 Model.CheckC02
  Proof.EntryFacts Proof.C01Base Proof.C01Diff Proof.C01Reach Proof.C01 Proof.C02Apply Proof.C02.
Open Scope string_scope.

(* In the one-way modes the plan contains no change of alpha, for arbitrary
   (even ill-formed) trees. *)
Theorem c02_oneway_alpha_untouched : forall m anc al be,
  m = OneWaySafe \/ m = OneWayReplica -> alpha_ch (reconcile m anc al be) = [].
Proof. exact oneway_alpha_untouched_modes. Qed.

(* One-way-safe: every beta change expects exactly what the scan saw, and the
   synchronizable content of beta there is a deletion-only subtree of the
   ancestor there (beta_protected); in fact beta there holds no
   unsynchronizable content at all and is itself such a subtree (side_safe).
   Nothing created or modified on beta since the last synchronization is
   deleted or overwritten. *)
Theorem c02_oneway_safe_beta : forall anc al be,
  wf true anc = true -> wf false al = true -> wf false be = true ->
  let pl := reconcile OneWaySafe anc al be in
  beta_protected anc be (beta_ch pl) /\ side_safe anc be (beta_ch pl).
Proof. exact oneway_safe_beta. Qed.

(* Two-way-resolved: every alpha change expects exactly what the scan saw and
   overwrites only a deletion-only subtree of the ancestor. *)
Theorem c02_resolved_alpha : forall anc al be,
  wf true anc = true -> wf false al = true -> wf false be = true ->
  let pl := reconcile TwoWayResolved anc al be in
  alpha_protected anc al (alpha_ch pl) /\ side_safe anc al (alpha_ch pl).
Proof. exact resolved_alpha. Qed.

(* One-way-replica: applying the plan's beta changes to beta (core.Apply)
   succeeds, and afterwards beta's synchronizable content agrees with alpha's
   at every path that is not at or below a reported conflict or problematic
   content. *)
Theorem c02_replica_mirror : forall anc al be,
  wf true anc = true -> wf false al = true -> wf false be = true ->
  mirrored al be (reconcile OneWayReplica anc al be).
Proof. exact replica_mirror. Qed.

(* ... and when no conflict is reported and neither side holds problematic
   content, it IS alpha's synchronizable content. *)
Theorem c02_replica_mirror_exact : forall anc al be,
  wf true anc = true -> wf false al = true -> wf false be = true ->
  let pl := reconcile OneWayReplica anc al be in
  conflicts pl = [] -> problem_free al -> problem_free be ->
  exists be', apply be (beta_ch pl) = FOk be' /\ synchronizable be' = synchronizable al.
Proof. exact replica_mirror_exact. Qed.

(* ---------- the checker applied to the implementation's plans ---------- *)
Theorem c02_check_sound : forall m anc al be pl,
  check_c02 (m, anc, al, be, pl) = true -> c02_plan_ok m anc al be pl.
Proof. exact check_c02_sound. Qed.

Theorem c02_check_complete : forall m anc al be pl,
  c02_plan_ok m anc al be pl -> check_c02 (m, anc, al, be, pl) = true.
Proof. exact (fun m anc al be pl H => proj2 (c02_plan_ok_b_iff m anc al be pl) H). Qed.

Theorem c02_check_model : forall m anc al be,
  wf true anc = true -> wf false al = true -> wf false be = true ->
  check_c02 (m, anc, al, be, reconcile m anc al be) = true.
Proof. exact check_c02_model. Qed.

(* ---------- the endpoint guard ----------
   readOnly := alpha && unidirectional. A read-only endpoint answers Stage and
   Transition with the refusal and issues no filesystem primitive, whatever
   the rest of the method would have done; every other endpoint hands the
   request on unchanged. *)
Theorem c02_readonly_iff : forall alpha cfg,
  read_only alpha cfg = true <-> alpha = true /\ unidirectional (effective_mode cfg) = true.
Proof. exact readonly_iff. Qed.

Theorem c02_readonly_refuses : forall (R P : Type) cfg (rest : unit -> R * list P),
  unidirectional (effective_mode cfg) = true ->
  guarded (read_only true cfg) rest = (Refused, []).
Proof. exact readonly_refuses. Qed.

Theorem c02_not_readonly_proceeds : forall (R P : Type) alpha cfg (rest : unit -> R * list P),
  read_only alpha cfg = false ->
  guarded (read_only alpha cfg) rest = (Proceeded (fst (rest tt)), snd (rest tt)).
Proof. exact not_readonly_proceeds. Qed.

(* an observation of the real endpoint that agrees with the guard model and
   left the root and the staging store untouched whenever it refused satisfies
   the property *)
Theorem c02_guard_obs_sound : forall o,
  guard_corr o = true ->
  (read_only (g_alpha o) (g_mode o) = true ->
   g_root_unchanged o = true /\ g_staging_unchanged o = true) ->
  guard_ok o = true.
Proof. exact guard_obs_sound. Qed.

(* ---------- the hypotheses are satisfiable on non-trivial states ---------- *)
Definition f1 := EFile false "d1".
Definition f2 := EFile false "d2".
Definition f3 := EFile true "d3".
Definition ex_anc : oentry := Some (EDir [("a", f1); ("b", EDir [("c", f1); ("e", f1)]); ("k", f1)]).
(* alpha modified a and deleted k; beta deleted b/c, modified k, created n and
   holds an untracked file under b *)
Definition ex_alpha : oentry :=
  Some (EDir [("a", f2); ("b", EDir [("c", f1); ("e", f1)])]).
Definition ex_beta : oentry :=
  Some (EDir [("a", f1); ("b", EDir [("e", f1); ("u", EUntracked)]); ("k", f3); ("n", f1)]).

Example c02_example_oneway_safe :
  wf true ex_anc = true /\ wf false ex_alpha = true /\ wf false ex_beta = true /\
  let pl := reconcile OneWaySafe ex_anc ex_alpha ex_beta in
  alpha_ch pl = []
  /\ beta_ch pl = [mk ["a"] (Some f1) (Some f2); mk ["b"; "c"] None (Some f1)]
  /\ map root (conflicts pl) = [].
Proof. vm_compute. repeat split. Qed.

Example c02_example_resolved :
  let pl := reconcile TwoWayResolved ex_anc ex_alpha ex_beta in
  alpha_ch pl = [mk ["b"; "c"] (Some f1) None; mk ["k"] None (Some f3); mk ["n"] None (Some f1)]
  /\ beta_ch pl = [mk ["a"] (Some f1) (Some f2)].
Proof. vm_compute. repeat split. Qed.

(* replica: everything on beta is forced to alpha's content, except below b,
   where the untracked file blocks nothing (it is not touched), and k, n go *)
Example c02_example_replica :
  let pl := reconcile OneWayReplica ex_anc ex_alpha ex_beta in
  alpha_ch pl = []
  /\ beta_ch pl = [mk ["a"] (Some f1) (Some f2); mk ["b"; "c"] None (Some f1);
                   mk ["k"] (Some f3) None; mk ["n"] (Some f1) None]
  /\ conflicts pl = []
  /\ apply ex_beta (beta_ch pl)
     = FOk (Some (EDir [("a", f2); ("b", EDir [("c", f1); ("e", f1); ("u", EUntracked)])]))
  /\ synchronizable (Some (EDir [("a", f2); ("b", EDir [("c", f1); ("e", f1); ("u", EUntracked)])]))
     = synchronizable ex_alpha.
Proof. vm_compute. repeat split. Qed.

(* a conflict in replica mode: beta holds a directory with untracked content
   where alpha holds a file; the path is excluded, everything else mirrors *)
Example c02_example_replica_conflict :
  let al := Some (EDir [("a", f2); ("b", f1)]) in
  let be := Some (EDir [("a", f1); ("b", EDir [("u", EUntracked)])]) in
  let pl := reconcile OneWayReplica ex_anc al be in
  map root (conflicts pl) = [["b"]]
  /\ beta_ch pl = [mk ["a"] (Some f1) (Some f2)]
  /\ excluded pl al be ["b"] = true /\ excluded pl al be ["a"] = false.
Proof. vm_compute. repeat split. Qed.

Example c02_example_guard :
  read_only true (Some OneWaySafe) = true /\ read_only true (Some OneWayReplica) = true
  /\ read_only true None = false /\ read_only false (Some OneWayReplica) = false
  /\ read_only true (Some TwoWayResolved) = false
  /\ guard_ok (Build_guard_obs true (Some OneWaySafe) true true true true) = true
  /\ guard_ok (Build_guard_obs true (Some OneWaySafe) true false true true) = false
  /\ guard_ok (Build_guard_obs true (Some OneWaySafe) true true true false) = false
  /\ guard_ok (Build_guard_obs true (Some OneWayReplica) false true true false) = false.
Proof. vm_compute. repeat split. Qed.

Print Assumptions c02_oneway_alpha_untouched.
Print Assumptions c02_oneway_safe_beta.
Print Assumptions c02_resolved_alpha.
Print Assumptions c02_replica_mirror.
Print Assumptions c02_replica_mirror_exact.
Print Assumptions c02_check_sound.
Print Assumptions c02_check_complete.
Print Assumptions c02_check_model.
Print Assumptions c02_readonly_iff.
Print Assumptions c02_readonly_refuses.
Print Assumptions c02_not_readonly_proceeds.
Print Assumptions c02_guard_obs_sound.
