(* C03 - Ignored, unsupported and problematic content is never removed or
   replaced (plan level: what core.Reconcile schedules; the on-disk part -
   directory removal refusing unknown content - belongs to C08).
   Property theorems only: each is closed by [exact <lemma>] from Proof/C03.v.

   Vocabulary (Model/CheckC06.v, Model/CheckC03.v):
     at_path e p      the entry of snapshot e at path p (None if absent)
     unsync_free x    x neither is nor contains untracked (ignored,
                      unsupported type), problematic or phantom content
     is_dirkind x     x is a directory (tracked, or phantom)
     prefix p q       exists s, q = p ++ s      strict_prefix: s non-empty
     handled a b p    reconcile hands p to the mode's disagreement handler:
                      it descends through every strict prefix of p and the
                      two sides disagree at p
     anc_seen anc a p the ancestor entry reconcile uses at p
     would_write m p anc x y X
                      the mode's handler, applied to the synchronizable parts
                      of the sides it may write (i.e. disregarding the
                      unsynchronizable content), schedules a transition on
                      side X at p
     residue p x      diff(p, x.synchronizable(), x): the unsynchronizable
                      content of x at or below p, as reconcile.go computes it
   Inputs: any mode, any ancestor, any valid snapshots - untracked,
   problematic and phantom entries at any depth included. *)
From Coq Require Import List Bool String Sorting.Permutation.
Import ListNotations.
From Mv Require Import Model.Entry Model.Reconcile Model.CheckC06 Model.CheckC03 Proof.C03.

(* (1) No transition over unsynchronizable content: a change scheduled at p
   on a side requires that side to hold nothing unsynchronizable at or below
   p, and every strict prefix of p to be a directory on that side (so the
   change does not replace an unsynchronizable entry above p either). *)
Theorem c03_no_change_over_unsync :
  forall (m : mode) (anc a b : oentry),
    wf false a = true -> wf false b = true ->
    forall (X : side) (ch : change),
      In ch (side_changes X (reconcile m anc a b)) ->
      unsync_free (at_path (side_entry X a b) (cpath ch)) = true
      /\ forall q, strict_prefix q (cpath ch) ->
           is_dirkind (at_path (side_entry X a b) q) = true.
Proof. exact reconcile_no_change_over_unsync. Qed.

(* (2) A conflict is reported instead: wherever the mode's decision would
   write side X at p while X holds unsynchronizable content at or below p, the
   plan contains a conflict rooted at p whose X-side changes are exactly that
   content (as a list up to order; on the model even equal, see below). *)
Theorem c03_conflict_instead :
  forall (m : mode) (anc a b : oentry),
    wf false a = true -> wf false b = true ->
    forall (p : path) (X : side),
      handled a b p ->
      would_write m p (anc_seen anc a p) (at_path a p) (at_path b p) X = true ->
      unsync_free (at_path (side_entry X a b) p) = false ->
      exists c, In c (conflicts (reconcile m anc a b)) /\ root c = p
                /\ Permutation (conflict_side X c) (residue p (at_path (side_entry X a b) p)).
Proof. exact reconcile_conflict_instead. Qed.

Theorem c03_conflict_instead_exact :
  forall (m : mode) (anc a b : oentry) (p : path) (X : side),
    wf false a = true -> wf false b = true ->
    handledb a b p = true ->
    would_write m p (anc_seen anc a p) (at_path a p) (at_path b p) X = true ->
    unsync_free (at_path (side_entry X a b) p) = false ->
    exists c, In c (conflicts (reconcile m anc a b)) /\ root c = p
              /\ conflict_side X c = residue p (at_path (side_entry X a b) p).
Proof. exact reconcile_conflict_instead_eq. Qed.

(* the residue is non-empty exactly when there is unsynchronizable content *)
Theorem c03_residue_nonempty_iff :
  forall (p : path) (x : oentry),
    wf false x = true -> is_nil (residue p x) = unsync_free x.
Proof. exact residue_nil. Qed.

(* (3) Problematic paths are skipped entirely: if either side is problematic
   at t, the plan contains nothing at or below t - no transition, no conflict
   root and no ancestor change (no hypothesis on the inputs at all). *)
Theorem c03_problem_skipped :
  forall (m : mode) (anc a b : oentry) (t : path),
    is_problem (at_path a t) = true \/ is_problem (at_path b t) = true ->
    forall r, In r (out_paths (reconcile m anc a b)) -> ~ prefix t r.
Proof. exact reconcile_problem_skipped. Qed.

(* The checker that the harness applies to core.Reconcile's own plans is
   sound for (1) /\ (2) /\ (3) ... *)
Theorem c03_check_sound :
  forall (m : mode) (anc a b : oentry) (pl : plan),
    check_c03 (m, anc, a, b, pl) = true ->
    c03_no_change_over_unsync_prop a b pl
    /\ c03_conflict_instead_prop m anc a b pl
    /\ c03_problem_skipped_prop a b pl.
Proof. exact check_c03_sound. Qed.

(* ... and the model's plan passes it. *)
Theorem c03_model_passes_check :
  forall (m : mode) (anc a b : oentry),
    wf false a = true -> wf false b = true ->
    check_c03 (m, anc, a, b, reconcile m anc a b) = true.
Proof. exact reconcile_check_c03. Qed.

(* Non-vacuity: one triple with a propagation (a), a conflict reported
   instead of removing a directory that holds an ignored file (b), a
   problematic path that is skipped (d) and an ancestor change (e) at once;
   the hypotheses of (1)-(3) are satisfied on it. *)
Example c03_example :
  reconcile TwoWaySafe ex3_anc ex3_alpha ex3_beta =
  {| anc_changes := [mk ["e"%string] None (Some (EFile false "d5"))];
     alpha_ch := [];
     beta_ch := [mk ["a"%string] (Some (EFile false "d1")) (Some (EFile false "d2"))];
     conflicts := [mkc ["b"%string]
                       [mk ["b"%string] (Some (EDir [("c"%string, EFile false "d1")])) None]
                       [mk ["b"%string; "u"%string] None (Some EUntracked)]] |}.
Proof. exact c03_example_plan. Qed.

Example c03_example_hypotheses :
  wf true ex3_anc = true /\ wf false ex3_alpha = true /\ wf false ex3_beta = true
  /\ handledb ex3_alpha ex3_beta ["b"%string] = true
  /\ would_write TwoWaySafe ["b"%string] (anc_seen ex3_anc ex3_alpha ["b"%string])
       (at_path ex3_alpha ["b"%string]) (at_path ex3_beta ["b"%string]) SBeta = true
  /\ unsync_free (at_path ex3_beta ["b"%string]) = false
  /\ is_problem (at_path ex3_beta ["d"%string]) = true.
Proof. exact c03_example_hyps. Qed.

Print Assumptions c03_no_change_over_unsync.
Print Assumptions c03_conflict_instead.
Print Assumptions c03_conflict_instead_exact.
Print Assumptions c03_residue_nonempty_iff.
Print Assumptions c03_problem_skipped.
Print Assumptions c03_check_sound.
Print Assumptions c03_model_passes_check.
