(* C03, addendum: on DISK, content that synchronization does not track is
   never removed or replaced by a transition.  (Props/C03.v, by another
   builder, is about the reconcile plans; this file is about core.Transition
   acting on a real tree, on the model of Model/Transition.v.)

   "Content synchronization does not track" as a transition can meet it:
     - something sitting at the path of a planned creation (the transition's
       old entry there is "nothing": it appeared after the scan, or it is an
       ignored / unsupported object the snapshot does not list);
     - a name inside a directory the plan removes that the expected entry does
       not list.
   For every environment (all failure placements, all cancellation points),
   cache, staging area -- in particular a staging directory on another
   filesystem, where files arrive through the copy-and-rename fallback --,
   modes, ownership, symbolic-link mode and plan with unrelated paths.
   The RACE: windows of the source are outside the model. *)
From Coq Require Import List Bool String NArith.
Import ListNotations.
From Mv Require Import Model.Entry Model.Fs Model.FsExt Model.Transition Model.TransitionCheck
     Proof.FsFacts Proof.TransPrims Proof.TransitionC08 Proof.TransitionC08Top
     Proof.TransitionC08Check.
Open Scope string_scope.
Open Scope list_scope.

(* whatever occupies the path of a planned creation is still there, byte for
   byte and type for type *)
Theorem c03_disk_target_kept :
  forall (norm : path -> string -> option string) (E : env) (rn : name) (ch : cache)
         (slm : slmode) (dfm ddm : N) (own fixed : bool)
         (plan : list change) (fs0 : node) (stg : store) (c : change) (y : node),
    rn <> "." -> tsorted fs0 -> plan_disjoint plan -> plan_paths_ok plan ->
    In c plan -> cold c = None ->
    get (rn :: cpath c) fs0 = Some y ->
    get (rn :: cpath c) (tfs (final norm E rn ch slm dfm ddm own fixed fs0 stg plan)) = Some y.
Proof. exact c03_target_kept_thm. Qed.

(* an unknown child of a directory the plan removes is untouched (and the
   directory therefore stays) *)
Theorem c03_disk_unknown_child :
  forall (norm : path -> string -> option string) (E : env) (rn : name) (ch : cache)
         (slm : slmode) (dfm ddm : N) (own fixed : bool)
         (plan : list change) (fs0 : node) (stg : store)
         (c : change) (e0 : entry) (q : path) (ec : list (name * entry))
         (m : meta) (cs : list (name * node)) (n : name) (y : node),
    rn <> "." -> tsorted fs0 -> plan_disjoint plan -> plan_paths_ok plan ->
    Forall (fun k => listed_name k = true) q -> listed_name n = true ->
    In c plan -> cold c = Some e0 -> expect_at e0 q = Some (EDir ec) ->
    get (rn :: cpath c ++ q) fs0 = Some (NDir m cs) ->
    nlookup n cs = Some y -> lookup n ec = None ->
    get (rn :: cpath c ++ q ++ [n]) (tfs (final norm E rn ch slm dfm ddm own fixed fs0 stg plan)) = Some y /\
    (exists m' cs', get (rn :: cpath c ++ q)
                        (tfs (final norm E rn ch slm dfm ddm own fixed fs0 stg plan)) = Some (NDir m' cs')) /\
    problem_between (tprobs (final norm E rn ch slm dfm ddm own fixed fs0 stg plan)) (cpath c) (q ++ [n]).
Proof. exact c08_unknown_child_thm. Qed.

(* soundness of the checker applied to the implementation's disk walks *)
Theorem c03_disk_check_sound :
  forall (rn : name) (pre post : node) (plan : list change),
    check_c03_disk rn pre post plan = true -> c03_disk_spec rn pre post plan.
Proof. exact check_c03_disk_sound. Qed.

(* the hypotheses are satisfiable and the conclusion is checked on a concrete
   state: a FIFO sits at the creation target n, the staged file lives on another
   device (copy-and-rename fallback), d holds the unknown child u *)
Definition z_meta (mode : N) : meta := {| m_mode := mode; m_size := 2; m_mtime := 5; m_fid := 7; m_dev := 1 |}.
Definition z_fs : node :=
  NDir (z_meta 493) [("root", NDir (z_meta 493)
     [("d", NDir (z_meta 493) [("u", NFile (z_meta 420) "uu")]); ("n", NOther (z_meta 420) 4096)])].
Definition z_plan : list change :=
  [{| cpath := ["d"]; cold := Some (EDir []); cnew := None |};
   {| cpath := ["n"]; cold := None; cnew := Some (EFile false "h") |}].
Definition z_store : store := [((["n"], "h"), {| sl_xdev := true; sl_obj := Some (SFile 384 "hh") |})].
Definition z_env : env :=
  {| oracle := fun _ => Ok; clock := fun _ => 0%N; fresh_id := fun _ => 0%N; temp_tag := fun _ => "0" |}.

Example c03_disk_example :
  let s := final (fun _ t => Some t) z_env "root" [] SLRaw 384 448 false true z_fs z_store z_plan in
  get ["root"; "n"] (tfs s) = Some (NOther (z_meta 420) 4096) /\
  get ["root"; "d"; "u"] (tfs s) = Some (NFile (z_meta 420) "uu") /\
  check_c03_disk "root" z_fs (tfs s) z_plan = true.
Proof. vm_compute. repeat split. Qed.

Print Assumptions c03_disk_target_kept.
Print Assumptions c03_disk_unknown_child.
Print Assumptions c03_disk_check_sound.
