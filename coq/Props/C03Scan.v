(* C03, scan-level addendum: ignored content never becomes synchronizable
   content of a snapshot. C03 proper (Props/C03.v) shows that Reconcile never
   plans a change over content a snapshot marks untracked; this is the premise
   it needs from the scan, for Mutagen-style and Docker-style ignorers alike
   (no reference semantics involved, hence no known-finding class).
   Property theorems only, each closed by [exact <lemma>]. *)
From Coq Require Import List Bool Arith String Ascii.
Import ListNotations.
From Mv Require Import Model.Entry Model.IgnoreScan Model.ScanIgnored.
From Mv Require Import Proof.IgnoreScan Proof.ScanIgnored.
Open Scope list_scope.

(* the checker means what it says: in a snapshot that passes, no File,
   Directory or SymbolicLink sits at a path whose effective verdict - the
   ignorer's status for the path itself, or for a nominal status the verdict
   inherited from the parent directory - is "ignored" *)
Theorem c03_scan_check_sound :
  forall (ign : ignorer) (snap : entry),
    check_c03_scan ign snap = true ->
    forall q e, In (q, e) (entries [] snap) -> synchronizable_entry e = true ->
                eff_ignored ign q (entry_is_dir e) = false.
Proof. exact check_c03_scan_sound. Qed.

(* the walk of scanner.directory (Model/IgnoreScan.v), for EVERY ignorer that
   requests traversal continuation for directories only and EVERY tree, yields
   a snapshot that passes: ignored content is recorded as untracked content or
   as a phantom directory, or not at all *)
Theorem c03_scan_model_passes :
  forall (ign : ignorer), cont_only_dirs ign ->
    forall root, check_c03_scan ign (snapshot ign root) = true.
Proof. exact scan_passes_c03. Qed.

(* the table of the real ignorer's answers that the harness supplies is an
   ignorer in that sense when its boolean side condition holds *)
Theorem c03_scan_table_contract :
  forall t, table_cont_only_dirs t = true -> cont_only_dirs (table_ignorer t).
Proof. exact table_cont_only_dirs_sound. Qed.

(* Non-vacuity: ignored-and-traversed directory with a re-included file; the
   ignored sibling stays untracked, the re-included file is content, and a
   snapshot that tracks the ignored sibling is rejected. *)
Example c03_scan_nonvacuous :
  let t := [("build", true, Ignored, true); ("build/keep", false, Unignored, false);
            ("build/junk", false, Nominal, false)]%string in
  let tree := FDir [("build", FDir [("junk", FFile "j"); ("keep", FFile "k")])]%string in
  table_cont_only_dirs t = true
  /\ snapshot (table_ignorer t) tree
     = EDir [("build", EPhantom [("junk", EUntracked); ("keep", EFile false "k")])]%string
  /\ check_c03_scan (table_ignorer t) (snapshot (table_ignorer t) tree) = true
  /\ check_c03_scan (table_ignorer t)
       (EDir [("build", EPhantom [("junk", EFile false "j"); ("keep", EFile false "k")])]%string) = false.
Proof. vm_compute. repeat split. Qed.

Print Assumptions c03_scan_check_sound.
Print Assumptions c03_scan_model_passes.
Print Assumptions c03_scan_table_contract.
