(* C04 — A fully applied cycle is a fixpoint and two-way endpoints converge.
   Property theorems only: each is closed by [exact <lemma>] from
   Proof/C04Main.v / Proof/C04Conv.v and followed by Print Assumptions.

   Setting (Model/C04Cycle.v): pl = reconcile m anc a b (Model/Reconcile.v,
   tied to core.Reconcile on every run); a' = apply a pl.alpha,
   b' = apply b pl.beta, anc' = apply anc (anc_updates pl) where
   anc_updates pl = pl.anc ++ [(path, New) of every alpha transition]
                           ++ [(path, New) of every beta transition],
   exactly the list controller.go builds when every transition succeeds.
   Inputs: a synchronizable ancestor (wf true), valid sides (wf false) without
   phantom directories (core.Reconcile's documented precondition; the
   controller reifies them right after the scans). Untracked and problematic
   content on either side is allowed: the statements are not restricted to
   fully synchronizable sides. *)
From Coq Require Import List Bool String.
Import ListNotations.
From Mv Require Import Model.Entry Model.Reconcile Model.C04Cycle
  Proof.C04Main Proof.C04Conv.

(* Apply never fails on the plan of a cycle: the applied trees exist. *)
Theorem c04_apply_total : forall m anc a b,
  wf true anc = true -> wf false a = true -> wf false b = true ->
  phantom_free a = true -> phantom_free b = true ->
  let pl := reconcile m anc a b in
  (exists a', apply a (alpha_ch pl) = FOk a')
  /\ (exists b', apply b (beta_ch pl) = FOk b')
  /\ (exists anc', apply anc (anc_updates pl) = FOk anc').
Proof. exact apply_total_model. Qed.

(* Every mode, every triple: the next cycle over the applied trees plans no
   change to the ancestor, to alpha or to beta, and reports conflicts at
   exactly the same roots (same list, same order). *)
Theorem c04_fixpoint : forall m anc a b anc' a' b',
  wf true anc = true -> wf false a = true -> wf false b = true ->
  phantom_free a = true -> phantom_free b = true ->
  apply a (alpha_ch (reconcile m anc a b)) = FOk a' ->
  apply b (beta_ch (reconcile m anc a b)) = FOk b' ->
  apply anc (anc_updates (reconcile m anc a b)) = FOk anc' ->
  let pl2 := reconcile m anc' a' b' in
  anc_changes pl2 = [] /\ alpha_ch pl2 = [] /\ beta_ch pl2 = []
  /\ map root (conflicts pl2) = map root (conflicts (reconcile m anc a b)).
Proof. exact fixpoint_model. Qed.

(* Two-way modes: at every path that is not at or under a reported conflict
   root and at which neither side (nor a prefix of the path) is untracked or
   problematic, both applied sides hold the same synchronizable content
   (shallow equality at every such path = identical synchronizable trees
   outside the exceptions). converge_at rs a' b' p =
     under_root rs p || negb (tracked a' p) || negb (tracked b' p)
     || oshallow_eqb (synchronizable (at_path a' p)) (synchronizable (at_path b' p)). *)
Theorem c04_converge : forall m anc a b a' b',
  two_way m = true ->
  wf true anc = true -> wf false a = true -> wf false b = true ->
  phantom_free a = true -> phantom_free b = true ->
  apply a (alpha_ch (reconcile m anc a b)) = FOk a' ->
  apply b (beta_ch (reconcile m anc a b)) = FOk b' ->
  forall p, converge_at (map root (conflicts (reconcile m anc a b))) a' b' p = true.
Proof. exact converge_model. Qed.

(* The executable checker applied to the implementation's outputs decides the
   property: whatever (plan1, anc', a', b', plan2) the implementation
   returned, if the checker accepts them then plan2 changes nothing, has the
   conflict roots of plan1 (as sets with multiplicity), and in two-way modes
   the returned sides converge at every path. *)
Theorem c04_check_sound : forall i o, check_c04 i o = true -> c04_holds i o.
Proof. exact check_c04_sound. Qed.

(* The model's own outputs pass the checker on every well-formed input. *)
Theorem c04_model_passes : forall i, wf_c04 i = true -> check_c04 i (model_c04 i) = true.
Proof. exact check_c04_model. Qed.

(* Non-vacuity: a one-way-safe cycle with, at once, a propagation (p), a
   both-modified-same record (s), the untrack rule with an ancestor change (u)
   and a conflict (c), next to untracked content on beta (x): the hypotheses
   hold, Apply succeeds and really changes beta and the ancestor. *)
Example c04_example :
  wf_c04 ex_in = true
  /\ (let pl := reconcile OneWaySafe ex_anc ex_a ex_b in
      List.length (beta_ch pl) = 1 /\ List.length (anc_changes pl) = 2
      /\ List.length (conflicts pl) = 1 /\ alpha_ch pl = [])
  /\ (exists anc' a' b',
        o_anc (model_c04 ex_in) = FOk anc' /\ o_a (model_c04 ex_in) = FOk a'
        /\ o_b (model_c04 ex_in) = FOk b' /\ a' = ex_a /\ b' <> ex_b /\ anc' <> ex_anc).
Proof. exact c04_example_ok. Qed.

Print Assumptions c04_apply_total.
Print Assumptions c04_fixpoint.
Print Assumptions c04_converge.
Print Assumptions c04_check_sound.
Print Assumptions c04_model_passes.
Print Assumptions c04_example.
