(* C05 - Saved sync state stays valid and faithful under any transition outcome.
   Property theorems only: each is closed by [exact <lemma>] from Proof/C05.v
   and followed by Print Assumptions.

   One synchronization cycle (controller.go, synchronize): the plan is
   pl = reconcile m anc alpha beta.  Each endpoint reports, per transition t,
   a result r with outcome_ok t r - the new content (complete success), the old
   content (failure, cancellation), nothing, or any prefix-closed sub-tree of
   the old content (partial removal) or of the new content (partial creation) -
   or its Transition call fails as a whole and it contributes no changes
   ([side_ok]).  The new ancestor is
       update anc pl ra rb = apply anc (anc_changes pl ++ ra ++ rb)
   and is then checked by EnsureValid(true) (= [wf true]).

   Domain ([inputs_ok]): the ancestor is synchronizable (EnsureValid(true), as
   enforced when the archive is loaded and by this very property), both sides
   are valid (EnsureValid(false)) and contain no phantom directories (the
   controller reifies them with core.ReifyPhantomDirectories before it calls
   core.Reconcile).  All theorems quantify over every such triple, every mode
   and every choice of outcomes; there is no bound on the trees. *)
From Coq Require Import List Bool Arith String.
Import ListNotations.
From Mv Require Import Model.Entry Model.Reconcile Model.Outcomes Proof.EntryFacts Proof.C05.

(* Updating the last-synchronized state succeeds. *)
Theorem c05_apply_total :
  forall (m : mode) (anc alpha beta : oentry) (ra rb : list change),
    inputs_ok anc alpha beta = true ->
    side_ok (alpha_ch (reconcile m anc alpha beta)) ra = true ->
    side_ok (beta_ch (reconcile m anc alpha beta)) rb = true ->
    exists anc', update anc (reconcile m anc alpha beta) ra rb = FOk anc'.
Proof. exact cycle_total. Qed.

(* It contains only synchronizable content (passes EnsureValid(true)). *)
Theorem c05_valid :
  forall (m : mode) (anc alpha beta : oentry) (ra rb : list change),
    inputs_ok anc alpha beta = true ->
    side_ok (alpha_ch (reconcile m anc alpha beta)) ra = true ->
    side_ok (beta_ch (reconcile m anc alpha beta)) rb = true ->
    forall anc', update anc (reconcile m anc alpha beta) ra rb = FOk anc' ->
    wf true anc' = true.
Proof. exact cycle_valid. Qed.

(* It records at each transitioned path exactly what the endpoint reported. *)
Theorem c05_exact :
  forall (m : mode) (anc alpha beta : oentry) (ra rb : list change),
    inputs_ok anc alpha beta = true ->
    side_ok (alpha_ch (reconcile m anc alpha beta)) ra = true ->
    side_ok (beta_ch (reconcile m anc alpha beta)) rb = true ->
    forall anc', update anc (reconcile m anc alpha beta) ra rb = FOk anc' ->
    forall r, In r (ra ++ rb) -> at_path anc' (cpath r) = cnew r.
Proof. exact cycle_exact. Qed.

(* Elsewhere - at every path that is not at or below a transitioned path - it
   agrees with the ancestor changes alone. *)
Theorem c05_frame :
  forall (m : mode) (anc alpha beta : oentry) (ra rb : list change),
    inputs_ok anc alpha beta = true ->
    side_ok (alpha_ch (reconcile m anc alpha beta)) ra = true ->
    side_ok (beta_ch (reconcile m anc alpha beta)) rb = true ->
    forall anc', update anc (reconcile m anc alpha beta) ra rb = FOk anc' ->
    exists a0, apply anc (anc_changes (reconcile m anc alpha beta)) = FOk a0
      /\ forall q, (forall r, In r (ra ++ rb) -> is_prefix (cpath r) q = false) ->
                   oshallow_eqb (at_path anc' q) (at_path a0 q) = true.
Proof. exact cycle_frame. Qed.

(* The structural facts about reconciliation plans behind the above: the
   ancestor changes apply (parents always resolvable, depth-first order) and
   give a synchronizable tree in which the parent of every transition root is
   a directory; transition roots form an antichain; old and new content of
   every transition is synchronizable. *)
Theorem c05_plan_ok :
  forall (m : mode) (anc alpha beta : oentry),
    inputs_ok anc alpha beta = true -> plan_ok anc (reconcile m anc alpha beta) = true.
Proof. exact reconcile_plan_ok. Qed.

(* The same conclusions for ANY plan with these structural properties (used
   when the harness replays the implementation's own plans). *)
Theorem c05_update_any_plan :
  forall (anc : oentry) (pl : plan) (ra rb : list change),
    plan_ok anc pl = true ->
    side_ok (alpha_ch pl) ra = true -> side_ok (beta_ch pl) rb = true ->
    c05_conclusion anc pl ra rb.
Proof. exact update_plan_ok. Qed.

(* The checker applied to the implementation's outputs is sound for the
   property, and the model's own output passes it on every input of the
   domain. *)
Theorem c05_check_sound : forall (i : c05_in) (o : c05_out),
  check_C05 i o = true -> c05_holds i o.
Proof. exact check_C05_sound. Qed.

Theorem c05_check_model :
  forall (m : mode) (anc alpha beta : oentry) (ra rb : list change),
    inputs_ok anc alpha beta = true ->
    let i := {| c_anc := anc; c_plan := reconcile m anc alpha beta; c_ra := ra; c_rb := rb |} in
    results_in_outcome_set i = true ->
    check_C05 i (model_C05 i) = true.
Proof. exact check_C05_model_reconcile. Qed.

(* Non-vacuity: a triple with untracked content on one side whose plan has
   three ancestor changes (a directory created on both sides, two levels deep)
   and one transition per side; alpha reports a partial removal, beta a
   failure; the new ancestor is computed. *)
Example c05_nontrivial :
  inputs_ok ex5_anc ex5_alpha ex5_beta = true
  /\ let pl := reconcile TwoWaySafe ex5_anc ex5_alpha ex5_beta in
     List.length (anc_changes pl) = 3 /\ List.length (alpha_ch pl) = 1 /\ List.length (beta_ch pl) = 1
     /\ side_ok (alpha_ch pl) ex5_ra = true /\ side_ok (beta_ch pl) ex5_rb = true
     /\ update ex5_anc pl ex5_ra ex5_rb =
        FOk (Some (EDir [("a", EFile false "d1"); ("k", EDir [("y", ELink "t")]);
                         ("n", EDir [("s", EDir [("f", EFile true "d3")])])])).
Proof. exact c05_example. Qed.

Print Assumptions c05_apply_total.
Print Assumptions c05_valid.
Print Assumptions c05_exact.
Print Assumptions c05_frame.
Print Assumptions c05_plan_ok.
Print Assumptions c05_update_any_plan.
Print Assumptions c05_check_sound.
Print Assumptions c05_check_model.
