(* C06 - Every path receives at most one action and conflicts are well formed.
   Property theorems only: each is closed by [exact <lemma>] from Proof/C06.v.

   Vocabulary (Model/CheckC06.v):
     roots pl        = paths of all alpha changes ++ paths of all beta changes
                       ++ roots of all conflicts (a list, with multiplicity)
     prefix p q      = exists s, q = p ++ s        strict_prefix: s non-empty
     at_path e p     = the entry of the snapshot e at path p (None if absent)
     phantom_free e  = e contains no phantom directory: the controller calls
                       core.Reconcile only after core.ReifyPhantomDirectories
                       (and phantoms do not exist with Mutagen-style ignores).
   The plan is the one of the model [reconcile] (Model/Reconcile.v), which the
   harness compares with core.Reconcile on every run; the same run applies
   [check_c06] to the plans that core.Reconcile itself returned. *)
From Coq Require Import List Bool String.
Import ListNotations.
From Mv Require Import Model.Entry Model.Reconcile Model.CheckC06 Proof.C06.

(* (1) At most one action per path: for EVERY mode and EVERY triple (no
   hypothesis at all), the scheduled paths - alpha transitions, beta
   transitions and conflict roots together - are pairwise distinct and none
   is a prefix of another: never two actions for the same path or for a path
   and one of its descendants, on the same endpoint, on opposite endpoints,
   or as a change alongside a conflict. *)
Theorem c06_antichain :
  forall (m : mode) (anc a b : oentry),
    let pl := reconcile m anc a b in
    NoDup (roots pl)
    /\ forall p q, In p (roots pl) -> In q (roots pl) -> prefix p q -> p = q.
Proof. exact reconcile_antichain. Qed.

(* (2) Conflicts are well formed (conflict.go: EnsureValid) and rooted where
   the disagreement occurs: for every mode, every valid synchronizable
   ancestor and all valid reified snapshots, each reported conflict names at
   least one change on each endpoint, every change is valid and lies at or
   below the root, and the root is the first path at which the two endpoints
   disagree (shallow-equal at every strict prefix, not shallow-equal there). *)
Theorem c06_conflict_wf :
  forall (m : mode) (anc a b : oentry),
    wf true anc = true -> wf false a = true -> wf false b = true ->
    phantom_free a = true -> phantom_free b = true ->
    forall c, In c (conflicts (reconcile m anc a b)) ->
      alpha_changes c <> [] /\ beta_changes c <> []
      /\ (forall ch, In ch (alpha_changes c ++ beta_changes c)%list ->
            change_valid false ch = true /\ prefix (root c) (cpath ch))
      /\ ((forall q, strict_prefix q (root c) ->
             oshallow_eqb (at_path a q) (at_path b q) = true)
          /\ oshallow_eqb (at_path a (root c)) (at_path b (root c)) = false).
Proof. exact reconcile_conflict_wf. Qed.

(* the hypothesis on phantom directories in (2) cannot be dropped: on an
   un-reified phantom directory the reconciliation reports a conflict without
   alpha changes (witness: TwoWaySafe, nil, nil, phantom directory) *)
Theorem c06_conflict_wf_needs_reified :
  exists m anc a b,
    wf true anc = true /\ wf false a = true /\ wf false b = true /\
    ~ (forall c, In c (conflicts (reconcile m anc a b)) -> conflict_wf a b c).
Proof. exact conflict_wf_needs_reified. Qed.

(* (3) Ancestor changes never lie strictly below a transition or a conflict
   root (every mode, every triple, no hypothesis) ... *)
Theorem c06_anc_disjoint :
  forall (m : mode) (anc a b : oentry) (ch : change) (r : path),
    In ch (anc_changes (reconcile m anc a b)) -> In r (roots (reconcile m anc a b)) ->
    ~ strict_prefix r (cpath ch).
Proof. exact reconcile_anc_disjoint. Qed.

(* ... and not at one either (more than the statement asks; not part of the
   checker) *)
Theorem c06_anc_not_at_root :
  forall (m : mode) (anc a b : oentry) (ch : change) (r : path),
    In ch (anc_changes (reconcile m anc a b)) -> In r (roots (reconcile m anc a b)) ->
    cpath ch <> r.
Proof. exact reconcile_anc_not_at_root. Qed.

(* The checker that the harness applies to core.Reconcile's own plans decides
   exactly (1) /\ (2) /\ (3) ... *)
Theorem c06_check_decides :
  forall (a b : oentry) (pl : plan),
    check_c06_plan a b pl = true <-> c06_prop a b pl.
Proof. exact check_c06_plan_spec. Qed.

Theorem c06_check_sound :
  forall (m : mode) (anc a b : oentry) (pl : plan),
    check_c06 (m, anc, a, b, pl) = true ->
    c06_antichain_prop pl /\ c06_conflict_wf_prop a b pl /\ c06_anc_disjoint_prop pl.
Proof. exact check_c06_sound. Qed.

(* ... and the model's plan passes it. *)
Theorem c06_model_passes_check :
  forall (m : mode) (anc a b : oentry),
    wf true anc = true -> wf false a = true -> wf false b = true ->
    phantom_free a = true -> phantom_free b = true ->
    check_c06 (m, anc, a, b, reconcile m anc a b) = true.
Proof. exact reconcile_check_c06. Qed.

(* (4) What is REPORTED to the user is the slim form of each conflict
   (conflict.go: Conflict.Slim, stored in the session state by the manager).
   Slimming preserves well-formedness, the root and the change paths on each
   endpoint - for ANY well-formed conflict: *)
Theorem c06_slim_wf :
  forall (a b : oentry) (c : conflict),
    conflict_wf a b c ->
    root (slim_conflict c) = root c
    /\ map cpath (alpha_changes (slim_conflict c)) = map cpath (alpha_changes c)
    /\ map cpath (beta_changes (slim_conflict c)) = map cpath (beta_changes c)
    /\ conflict_wf a b (slim_conflict c).
Proof. exact slim_reported_ok. Qed.

(* ... hence every reported conflict of the plan names at least one change on
   each endpoint and is rooted at the disagreement. *)
Theorem c06_reported_conflicts_wf :
  forall (m : mode) (anc a b : oentry),
    wf true anc = true -> wf false a = true -> wf false b = true ->
    phantom_free a = true -> phantom_free b = true ->
    Forall2 (reported_ok a b) (conflicts (reconcile m anc a b))
            (map slim_conflict (conflicts (reconcile m anc a b))).
Proof. exact reconcile_reported. Qed.

(* The checker applied to core.Reconcile's plan together with the Slim() of
   each of its conflicts is sound for (1)-(4), and the model passes it. *)
Theorem c06_check_reported_sound :
  forall (m : mode) (anc a b : oentry) (pl : plan) (reported : list conflict),
    check_c06_reported ((m, anc, a, b, pl), reported) = true ->
    c06_prop a b pl /\ Forall2 (reported_ok a b) (conflicts pl) reported.
Proof. exact check_c06_reported_sound. Qed.

Theorem c06_model_passes_check_reported :
  forall (m : mode) (anc a b : oentry),
    wf true anc = true -> wf false a = true -> wf false b = true ->
    phantom_free a = true -> phantom_free b = true ->
    check_c06_reported ((m, anc, a, b, reconcile m anc a b),
                        map slim_conflict (conflicts (reconcile m anc a b))) = true.
Proof. exact reconcile_check_c06_reported. Qed.

(* non-vacuity of (4): one-way-replica, alpha and ancestor absent where beta
   holds a directory with an ignored socket - the alpha side of the conflict is
   the synthetic nil-to-nil change, and the reported form keeps it *)
Example c06_reported_example :
  map slim_conflict (conflicts (reconcile OneWayReplica None ex_s_alpha ex_s_beta)) =
  [mkc ["data"%string] [mk ["data"%string] None None]
       [mk ["data"%string; "control.sock"%string] None (Some EUntracked)]].
Proof. exact c06_reported_example. Qed.

(* Non-vacuity: a triple that satisfies every hypothesis and yields a
   propagation (a: alpha modified), a conflict (b: both modified) and an
   ancestor change (c: both created the same file) at once. *)
Example c06_example_hypotheses :
  wf true ex_anc = true /\ wf false ex_alpha = true /\ wf false ex_beta = true
  /\ phantom_free ex_alpha = true /\ phantom_free ex_beta = true.
Proof. exact c06_example_hyps. Qed.

Example c06_example :
  reconcile TwoWaySafe ex_anc ex_alpha ex_beta =
  {| anc_changes := [mk ["c"%string] None (Some (EFile false "d3"))];
     alpha_ch := [];
     beta_ch := [mk ["a"%string] (Some (EFile false "d1")) (Some (EFile false "d2"))];
     conflicts := [mkc ["b"%string] [mk ["b"%string] (Some (EFile false "d1")) (Some (EFile false "d2"))]
                                    [mk ["b"%string] (Some (EFile false "d1")) (Some (EFile false "d3"))]] |}.
Proof. exact c06_example_plan. Qed.

Print Assumptions c06_antichain.
Print Assumptions c06_conflict_wf.
Print Assumptions c06_conflict_wf_needs_reified.
Print Assumptions c06_anc_disjoint.
Print Assumptions c06_anc_not_at_root.
Print Assumptions c06_check_decides.
Print Assumptions c06_check_sound.
Print Assumptions c06_model_passes_check.
Print Assumptions c06_slim_wf.
Print Assumptions c06_reported_conflicts_wf.
Print Assumptions c06_check_reported_sound.
Print Assumptions c06_model_passes_check_reported.
