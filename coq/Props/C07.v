(* C07 - Tree diff, apply, copy and filtering are mutually consistent.
   Property theorems only: each is closed by [exact <lemma>] from Proof/C07.v
   and followed by Print Assumptions.

   Scope of the value-level model: a Go *Entry is modelled by its value
   (Model/Entry.v), so "a copy compares equal to the original" is proved, while
   "a copy is unaffected by later changes to the original" is a statement about
   pointer aliasing that this model cannot express.  That clause is PARTIAL: it
   is tested on every run by the harness (goharness/cmd/difftree), which mutates
   the original after each copy behaviour and compares the copy with a deep
   snapshot; the checker [check_C07] receives both readings of the copy.
   The aliasing clause itself is proved on a heap model of Entry.Copy and the
   tree mutators in Props/C07Heap.v (Model/Heap.v, Proof/C07Heap.v). *)
From Coq Require Import List Bool Arith String.
Import ListNotations.
From Mv Require Import Model.Entry Model.DiffApply Proof.EntryFacts Proof.C07.

(* Applying the difference between two valid trees to the first yields the
   second (valid = accepted by Entry.EnsureValid with either flag). *)
Theorem c07_diff_apply : forall (s : bool) (a b : oentry),
  wf s a = true -> wf s b = true -> apply a (diff [] a b) = FOk b.
Proof. exact diff_apply. Qed.

(* The difference between a tree and itself is empty (any tree, any path). *)
Theorem c07_diff_self : forall (p : path) (a : oentry), diff p a a = [].
Proof. exact diff_self. Qed.

(* Filtering removes exactly the untracked, problematic and phantom sub-trees:
   the entries (path, entry without contents) of the filtered tree are exactly
   those entries of the tree for which the entry itself and all its ancestors
   are directories, files or symbolic links - same paths, same order, same
   shallow content. *)
Theorem c07_sync_spec : forall t : oentry,
  all_entries (synchronizable t) = sync_entries t.
Proof. exact sync_entries_spec. Qed.

(* The same in terms of look-ups: a path resolves in the filtered tree iff it
   resolves in the tree through synchronizable kinds only, and then to a
   shallow-equal entry. *)
Theorem c07_sync_at_path : forall (s : bool) (q : path) (t : oentry),
  wf s t = true ->
  (at_path (synchronizable t) q <> None <-> path_sync t q = true)
  /\ (at_path (synchronizable t) q <> None ->
      oshallow_eqb (at_path (synchronizable t) q) (at_path t q) = true).
Proof. exact sync_at_path_spec. Qed.

(* The filtered tree is synchronizable, and filtering it again changes nothing. *)
Theorem c07_sync_valid : forall (s : bool) (t : oentry),
  wf s t = true ->
  wf true (synchronizable t) = true
  /\ synchronizable (synchronizable t) = synchronizable t.
Proof. exact sync_valid. Qed.

(* Entry counts equal the number of synchronizable entries. *)
Theorem c07_count : forall t : oentry,
  count t = List.length (sync_entries t)
  /\ count t = List.length (all_entries (synchronizable t)).
Proof. exact count_both. Qed.

(* Copies compare equal to the original (slim copies: shallow-equal, without
   contents).  Value level only; see the note at the top for aliasing. *)
Theorem c07_copy_value : forall (b : copy_behavior) (e : oentry),
  match b with
  | CopySlim => oshallow_eqb (copy b e) e = true /\ contents (copy b e) = []
  | _ => copy b e = e
  end.
Proof. exact copy_value. Qed.

(* Full statement of the aliasing clause, not expressible at the value level:
   for every copy behaviour B, every entry e, and every later mutation of cells
   reachable from e that B promises isolation from (Deep: any; 
   DeepPreservingLeaves: contents maps at every level; Shallow and Slim: the
   root's own fields and contents map), the value of e.Copy(B) read after the
   mutation equals its value read before.  Checked by execution only. *)

(* The checker applied by the harness to the implementation's outputs is sound
   for the property, and the model's own outputs pass it. *)
Theorem c07_check_sound : forall (i : c07_in) (o : c07_out),
  check_C07 i o = true -> c07_holds i o.
Proof. exact check_C07_sound. Qed.

Theorem c07_check_model : forall i : c07_in,
  wf_C07 i = true -> check_C07 i (model_C07 i) = true.
Proof. exact check_C07_model. Qed.

(* Non-vacuity: two well-formed trees with untracked, problematic and phantom
   content; their diff has five changes and applies exactly. *)
Example c07_nontrivial :
  wf false ex_a = true /\ wf false ex_b = true
  /\ List.length (diff [] ex_a ex_b) = 5
  /\ apply ex_a (diff [] ex_a ex_b) = FOk ex_b
  /\ count ex_a = 4
  /\ synchronizable ex_a = Some (EDir [("a", EFile false "d1"); ("b", EDir [("d", ELink "t")])]).
Proof. exact c07_example. Qed.

Print Assumptions c07_diff_apply.
Print Assumptions c07_diff_self.
Print Assumptions c07_sync_spec.
Print Assumptions c07_sync_at_path.
Print Assumptions c07_sync_valid.
Print Assumptions c07_count.
Print Assumptions c07_copy_value.
Print Assumptions c07_check_sound.
Print Assumptions c07_check_model.
