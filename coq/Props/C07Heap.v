(* C07, aliasing clause - "copies of a tree ... are unaffected by later changes
   to the original" - on a heap model of Go pointers (Model/Heap.v).
   Property theorems only: each is closed by [exact <lemma>] from
   Proof/C07Heap.v and followed by Print Assumptions.

   Model: a *Entry is a location, the heap maps locations to cells
   (kind/fields/children as name -> location), [repr h l e] says that location
   l represents the Model/Entry.v tree e in heap h ([abs_f] is the computed
   form), Entry.Copy is transcribed for its four behaviours with the sharing of
   the Go code, and [run ms h] applies a sequence of mutations: the ones the
   code base performs on trees - contents insert/delete on a directory cell
   (Apply), kind/contents rewrite of a phantom directory cell (reification) -
   which are the [listed] ones, plus an arbitrary overwrite of any cell
   ([MScribble]).  A mutation "of the original" is one whose target is a cell
   that existed before the copy (target < length h) or was allocated after it
   (>= length h1); the copy's own new cells are the ones nobody else holds. *)
From Coq Require Import List Bool Arith String.
Import ListNotations.
From Mv Require Import Model.Entry Model.DiffApply Model.Heap Proof.EntryFacts Proof.C07Heap.

(* Each behaviour returns a cell whose abstraction is the value-level result
   proved in Props/C07.v (c07_copy_value): the tree itself, or its slim form;
   the heap only grows, the original is still represented, the returned cell
   is new. *)
Theorem c07_copy_value_heap :
  forall (b : copy_behavior) (h : heap) (l : loc) (e : entry) (f : nat),
    repr h l e -> depth_entry e <= f ->
    exists ext c, copy_heap b f h l = Some ((h ++ ext)%list, c)
                  /\ repr (h ++ ext)%list c (value_copy b e)
                  /\ repr (h ++ ext)%list l e
                  /\ List.length h <= c.
Proof. exact copy_value_heap. Qed.

Theorem c07_value_copy_is_copy : forall b e, copy b (Some e) = Some (value_copy b e).
Proof. exact value_copy_spec. Qed.

(* Deep: after ANY sequence of mutations (including arbitrary overwrites) of
   cells other than the copy's own new cells, the copy still represents e. *)
Theorem c07_copy_isolated_deep :
  forall (h : heap) (l : loc) (e : entry) (f : nat) (h1 : heap) (c : loc) (ms : list mutation),
    repr h l e -> depth_entry e <= f ->
    copy_deep_f f h l = Some (h1, c) ->
    Forall (fun m => target m < List.length h \/ List.length h1 <= target m) ms ->
    repr (run ms h1) c e
    /\ forall g, depth_entry e <= g -> abs_f g (run ms h1) c = Some e.
Proof. exact copy_isolated_deep. Qed.

(* DeepPreservingLeaves: the same for every sequence of the mutators the code
   base applies to trees.  They act on directory cells only, leaf cells are
   never mutated - this is what makes sharing the leaves sound, and the theorem
   needs no further hypothesis on the targets. *)
Theorem c07_copy_isolated_dpl :
  forall (h : heap) (l : loc) (e : entry) (f : nat) (h1 : heap) (c : loc) (ms : list mutation),
    repr h l e -> depth_entry e <= f ->
    copy_dpl_f f h l = Some (h1, c) ->
    Forall (fun m => listed m = true /\ (target m < List.length h \/ List.length h1 <= target m)) ms ->
    repr (run ms h1) c e
    /\ forall g, depth_entry e <= g -> abs_f g (run ms h1) c = Some e.
Proof. exact copy_isolated_dpl. Qed.

(* Shallow: a new cell holding the same fields and the SAME child pointers; the
   cell itself (fields, contents map) is out of reach of any mutation of other
   cells - and nothing more is promised: a mutation below the original shows
   through the shared children ([c07_shallow_not_isolated]). *)
Theorem c07_shallow_shares :
  forall (h : heap) (l : loc) (v : cell) (h1 : heap) (c : loc),
    hget h l = Some v -> copy_shallow h l = Some (h1, c) ->
    c = List.length h /\ hget h1 c = Some v
    /\ forall ms, Forall (fun m => target m <> c) ms -> hget (run ms h1) c = Some v.
Proof. exact shallow_shares. Qed.

Theorem c07_shallow_not_isolated :
  let a := EDir [("a", EFile false "d1"); ("b", EDir [("c", ELink "t")])] in
  let ms := [MDel 2 "c"] in
  predict CopyShallow a ms = Some (EDir [("a", EFile false "d1"); ("b", EDir [])])
  /\ predict CopyDeep a ms = Some a
  /\ predict CopyDeepPreservingLeaves a ms = Some a.
Proof. exact shallow_not_isolated_example. Qed.

(* Slim: a new cell without contents; isolated from every mutation of any
   other cell. *)
Theorem c07_slim_isolated :
  forall (h : heap) (l : loc) (e : entry) (h1 : heap) (c : loc) (ms : list mutation),
    repr h l e -> copy_slim h l = Some (h1, c) ->
    Forall (fun m => target m <> c) ms ->
    repr (run ms h1) c (slim e)
    /\ forall g, 1 <= g -> abs_f g (run ms h1) c = Some (slim e).
Proof. exact slim_isolated. Qed.

(* Apply works on a DeepPreservingLeaves copy of its base: every directory cell
   reachable from that working copy is new, so the mutations Apply performs
   (contents insert/delete on directory cells of the working copy, or on cells
   it allocated later) never change what the base represents. *)
Theorem c07_apply_no_writethrough :
  forall (h : heap) (l : loc) (e : entry) (f : nat) (h1 : heap) (c : loc),
    repr h l e -> depth_entry e <= f ->
    copy_dpl_f f h l = Some (h1, c) ->
    (forall x v, reach h1 c x -> hget h1 x = Some v -> is_leaf_cell v = false -> List.length h <= x)
    /\ (forall ms,
          Forall (fun m => listed m = true /\ (reach h1 c (target m) \/ List.length h <= target m)) ms ->
          repr (run ms h1) l e
          /\ forall g, depth_entry e <= g -> abs_f g (run ms h1) l = Some e).
Proof. exact apply_no_writethrough. Qed.

(* The hypothesis [repr h l e] is satisfiable for every tree. *)
Theorem c07_heap_trees_exist : forall (e : entry) (h : heap),
  exists ext l, alloc_tree h e = ((h ++ ext)%list, l) /\ repr (h ++ ext)%list l e.
Proof. exact alloc_tree_ok. Qed.

(* Non-vacuity: one original with a file, a directory and a phantom directory;
   one mutation sequence using all four mutators; what each copy shows. *)
Example c07_heap_nontrivial :
  let a := EDir [("a", EFile false "d1"); ("b", EDir [("c", ELink "t")]); ("p", EPhantom [])] in
  let ms := [MDel 2 "c"; MScribble 0 (CProblem "mutated"); MSetLeaf 4 "z" (CFile true "m");
             MReify 3 false] in
  predict CopyDeep a ms = Some a
  /\ predict CopyDeepPreservingLeaves a ms
     = Some (EDir [("a", EProblem "mutated"); ("b", EDir [("c", ELink "t")]); ("p", EPhantom [])])
  /\ predict CopyShallow a ms
     = Some (EDir [("a", EProblem "mutated"); ("b", EDir []); ("p", EUntracked)])
  /\ predict CopySlim a ms = Some (EDir []).
Proof. exact heap_example. Qed.

Print Assumptions c07_copy_value_heap.
Print Assumptions c07_value_copy_is_copy.
Print Assumptions c07_copy_isolated_deep.
Print Assumptions c07_copy_isolated_dpl.
Print Assumptions c07_shallow_shares.
Print Assumptions c07_shallow_not_isolated.
Print Assumptions c07_slim_isolated.
Print Assumptions c07_apply_no_writethrough.
Print Assumptions c07_heap_trees_exist.
