(* C08 — Transitions never destroy content changed after the scan.
   Property theorems only: each is closed by [exact <lemma>] from
   Proof/TransitionC08Top.v and listed under Print Assumptions.

   Setting (Model/Transition.v): the tree is the parent directory of the
   synchronization root [rn]; [fs0] is the tree as it is when core.Transition
   starts, i.e. AFTER whatever edits happened behind the scan's back; [ch] is
   the scan-time cache; [stg] the staging area; E the environment whose oracle
   fixes the fate of every filesystem primitive (all fault placements and all
   cancellation points).  [final ... fs0 stg plan] is the state after
   core.Transition.  The theorems hold for EVERY environment, cache, staging
   area, default modes, ownership setting and symbolic-link mode.

   Hypotheses on the plan: paths made of names a directory can hold (no "." or
   ".."), and no transition path a prefix of another one (what reconciliation
   produces, C06); on the tree: directory listings sorted (Fs.v's canonical
   form).

   The check-then-act windows the source marks with RACE: (between
   ensureExpectedFile / ensureExpectedSymbolicLink / ReadContents and the
   following unlinkat / renameat) are OUTSIDE the model: no other process acts
   between two primitives of one transition. *)
From Coq Require Import List Bool String NArith.
Import ListNotations.
From Mv Require Import Model.Entry Model.Fs Model.FsExt Model.Transition Model.TransitionCheck
     Proof.FsFacts Proof.TransPrims Proof.TransitionC08 Proof.TransitionC08Top
     Proof.TransitionC08Check Proof.TransitionC08Model.
Open Scope string_scope.
Open Scope list_scope.

(* A file the plan expects (old entry of transition c, position q below its
   path, digest d) but which is not, metadata for metadata, the file the scan
   cached -- type, permission bits, size, modification time or file identity
   differ, there is no cache entry, or the cached digest is not d -- is still
   there, byte for byte and with all its metadata, after the transition, and a
   problem is recorded at its path (or, if a fault or a cancellation stopped
   the transition before it got there, at a path between the transition's path
   and it). *)
Theorem c08_file_guard :
  forall (norm : path -> string -> option string) (E : env) (rn : name) (ch : cache)
         (slm : slmode) (dfm ddm : N) (own fixed : bool)
         (plan : list change) (fs0 : node) (stg : store)
         (c : change) (e0 : entry) (q : path) (x : bool) (d : string) (y : node),
    rn <> "." -> tsorted fs0 -> plan_disjoint plan -> plan_paths_ok plan ->
    Forall (fun k => listed_name k = true) q ->
    In c plan -> cold c = Some e0 -> expect_at e0 q = Some (EFile x d) ->
    get (rn :: cpath c ++ q) fs0 = Some y ->
    file_ok ch y (cpath c ++ q) d = false ->
    get (rn :: cpath c ++ q) (tfs (final norm E rn ch slm dfm ddm own fixed fs0 stg plan)) = Some y /\
    problem_between (tprobs (final norm E rn ch slm dfm ddm own fixed fs0 stg plan)) (cpath c) q.
Proof. exact c08_file_guard_thm. Qed.

(* The same for a symbolic link whose (in portable mode: normalised) target is
   not the expected one, or which is no symbolic link any more. *)
Theorem c08_link_guard :
  forall (norm : path -> string -> option string) (E : env) (rn : name) (ch : cache)
         (slm : slmode) (dfm ddm : N) (own fixed : bool)
         (plan : list change) (fs0 : node) (stg : store)
         (c : change) (e0 : entry) (q : path) (t : string) (y : node),
    rn <> "." -> tsorted fs0 -> plan_disjoint plan -> plan_paths_ok plan ->
    Forall (fun k => listed_name k = true) q ->
    In c plan -> cold c = Some e0 -> expect_at e0 q = Some (ELink t) ->
    get (rn :: cpath c ++ q) fs0 = Some y ->
    link_ok norm slm y (cpath c ++ q) t = false ->
    get (rn :: cpath c ++ q) (tfs (final norm E rn ch slm dfm ddm own fixed fs0 stg plan)) = Some y /\
    problem_between (tprobs (final norm E rn ch slm dfm ddm own fixed fs0 stg plan)) (cpath c) q.
Proof. exact c08_link_guard_thm. Qed.

(* A directory that holds a name the expected entry does not list is not
   removed; the unknown child (with everything below it) is untouched, and a
   problem is recorded at the child's path (or between the transition's path
   and it). *)
Theorem c08_unknown_child :
  forall (norm : path -> string -> option string) (E : env) (rn : name) (ch : cache)
         (slm : slmode) (dfm ddm : N) (own fixed : bool)
         (plan : list change) (fs0 : node) (stg : store)
         (c : change) (e0 : entry) (q : path) (ec : list (name * entry))
         (m : meta) (cs : list (name * node)) (n : name) (y : node),
    rn <> "." -> tsorted fs0 -> plan_disjoint plan -> plan_paths_ok plan ->
    Forall (fun k => listed_name k = true) q -> listed_name n = true ->
    In c plan -> cold c = Some e0 -> expect_at e0 q = Some (EDir ec) ->
    get (rn :: cpath c ++ q) fs0 = Some (NDir m cs) ->
    nlookup n cs = Some y -> lookup n ec = None ->
    get (rn :: cpath c ++ q ++ [n])%list (tfs (final norm E rn ch slm dfm ddm own fixed fs0 stg plan)) = Some y /\
    (exists m' cs', get (rn :: cpath c ++ q)
                        (tfs (final norm E rn ch slm dfm ddm own fixed fs0 stg plan)) = Some (NDir m' cs')) /\
    problem_between (tprobs (final norm E rn ch slm dfm ddm own fixed fs0 stg plan)) (cpath c) (q ++ [n])%list.
Proof. exact c08_unknown_child_thm. Qed.

(* The general form all three are instances of: whatever lies at a position
   for which the transition's old entry holds no matching expectation
   ([unauth]) and which the removal would get to ([visits]) survives. *)
Theorem c08_guard :
  forall (norm : path -> string -> option string) (E : env) (rn : name) (ch : cache)
         (slm : slmode) (dfm ddm : N) (own fixed : bool)
         (plan : list change) (fs0 : node) (stg : store)
         (c : change) (e0 : entry) (q : path) (y : node),
    rn <> "." -> tsorted fs0 -> plan_disjoint plan -> plan_paths_ok plan ->
    Forall (fun k => listed_name k = true) q ->
    In c plan -> cold c = Some e0 ->
    get (rn :: cpath c ++ q) fs0 = Some y ->
    unauth norm ch slm y (cpath c) e0 q -> visits e0 q ->
    get (rn :: cpath c ++ q) (tfs (final norm E rn ch slm dfm ddm own fixed fs0 stg plan)) = Some y /\
    problem_between (tprobs (final norm E rn ch slm dfm ddm own fixed fs0 stg plan)) (cpath c) q.
Proof. exact c08_guard_general. Qed.

(* Soundness of the executable checker that is applied to the IMPLEMENTATION's
   outputs (disk walk before and after core.Transition, recorded problems):
   whatever check_c08 accepts satisfies the statement of C08 on those
   outputs: every node the old entry of a transition does not match -- a file
   whose metadata or cached digest differ, a link with another target,
   something that is not the expected directory, an unknown child of an
   expected directory -- is still there with all its metadata and content, and
   a problem lies on the way to it. *)
Theorem c08_check_sound :
  forall (norm : path -> string -> option string) (slm : slmode) (rn : name) (ch : cache)
         (pre post : node) (problems : list problem) (plan : list change),
    check_c08 norm slm rn ch pre post problems plan = true ->
    c08_spec norm slm rn ch pre post problems plan.
Proof. exact check_c08_sound. Qed.

(* The model's own output passes the checker: for every environment (all
   failure placements and cancellation points), cache, staging area, modes,
   ownership, symbolic-link mode; for every tree with sorted listings of
   listable names and every plan with unrelated paths whose old entries are
   valid entries (Entry.EnsureValid): check_c08 accepts the disk before, the
   disk after and the problems of the model transition. *)
Theorem c08_model_passes :
  forall (norm : path -> string -> option string) (E : env) (rn : name) (ch : cache)
         (slm : slmode) (dfm ddm : N) (own fixed : bool)
         (plan : list change) (fs0 : node) (stg : store),
    rn <> "." -> tsorted fs0 -> tlisted fs0 -> plan_disjoint plan -> plan_paths_ok plan ->
    Forall (fun c => wf false (cold c) = true) plan ->
    check_c08 norm slm rn ch fs0
              (tfs (final norm E rn ch slm dfm ddm own fixed fs0 stg plan))
              (tprobs (final norm E rn ch slm dfm ddm own fixed fs0 stg plan)) plan = true.
Proof. exact c08_model_passes_thm. Qed.

(* The hypotheses are satisfiable, and the guard fires, on a concrete state:
   root/ holds d/ with the file f (which the scan cached with mtime 5) and an
   unknown child u; f was rewritten since (mtime 9); the plan deletes d. *)
Definition x_meta (mode mtime : N) : meta :=
  {| m_mode := mode; m_size := 2; m_mtime := mtime; m_fid := 7; m_dev := 1 |}.
Definition x_fs : node :=
  NDir (x_meta 493 1) [("root", NDir (x_meta 493 1)
     [("d", NDir (x_meta 493 1) [("f", NFile (x_meta 420 9) "zz"); ("u", NFile (x_meta 420 3) "uu")])])].
Definition x_cache : cache :=
  [(["d"; "f"], {| ce_mode := 33188; ce_mtime := 5; ce_size := 2; ce_fid := 7; ce_digest := "h" |})].
Definition x_plan : list change :=
  [{| cpath := ["d"]; cold := Some (EDir [("f", EFile false "h")]); cnew := None |}].
Definition x_env : env :=
  {| oracle := fun _ => Ok; clock := fun _ => 0%N; fresh_id := fun _ => 0%N; temp_tag := fun _ => "0" |}.

Example c08_guard_fires :
  expect_at (EDir [("f", EFile false "h")]) ["f"] = Some (EFile false "h") /\
  file_ok x_cache (NFile (x_meta 420 9) "zz") ["d"; "f"] "h" = false /\
  let s := final (fun _ t => Some t) x_env "root" x_cache SLRaw 384 448 false false x_fs [] x_plan in
  get ["root"; "d"; "f"] (tfs s) = Some (NFile (x_meta 420 9) "zz") /\
  get ["root"; "d"; "u"] (tfs s) = Some (NFile (x_meta 420 3) "uu") /\
  tprobs s = [(["d"; "u"], PK_UNKNOWN_CONTENT); (["d"; "f"], PK_REMOVE_FILE)] /\
  check_c08 (fun _ t => Some t) SLRaw "root" x_cache x_fs (tfs s) (tprobs s) x_plan = true.
Proof. vm_compute. repeat split. Qed.

Print Assumptions c08_check_sound.
Print Assumptions c08_model_passes.
Print Assumptions c08_file_guard.
Print Assumptions c08_link_guard.
Print Assumptions c08_unknown_child.
Print Assumptions c08_guard.
