(* C09 — Transition results describe the disk exactly under any fault.
   Property theorems only: each is closed by [exact <lemma>] from
   Proof/TransitionC09.v and listed under Print Assumptions.

   Setting as in Props/C08.v.  [describes]: the entry core.Scan (no ignores,
   portable permissions, Linux) would report for a node, restricted to
   synchronizable content (Model/Transition.v [describe]); [dsc t p] is the
   description of what lies at the root-relative path p of the tree t.
   The oracle of the environment E ranges over ALL placements of failures and
   of the cancellation point.

   Status.  Proved in full: c09_results_len, c09_cancel, c09_cancel_start,
   c09_missing, the soundness of the checker, and c09_exact for arbitrary
   plans of synchronizable entries (files, symbolic links, directories of any
   depth, with the partial results of removeDirectory / createDirectory).
   The model carries a switch [fixed]: createSymbolicLink as it is in the code
   (false) or as repaired (true).  Exactness holds for fixed = true (or when
   no ownership is configured); [c09_exact_refuted_unfixed] shows that the
   code as it is violates it (a failed fchownat after symlinkat: the link
   exists, the result says nothing was created).  c09_exact_flat is the
   variant for plans over files and links that also covers the unrepaired
   code when the plan creates no link.  c09_describe_is_scan and
   c09_scan_agrees tie [describe] to the scan specification and scan model of
   C12: a scan after the transition agrees with the results.

   The check-then-act windows marked RACE: in the source are outside the
   model. *)
From Coq Require Import List Bool String NArith.
Import ListNotations.
From Mv Require Import Model.Entry Model.Fs Model.FsExt Model.Transition Model.TransitionCheck
     Proof.FsFacts Proof.TransPrims Proof.TransFrames Proof.TransFuns Proof.TransitionC09
     Proof.TransitionC09Dir Proof.TransitionC09Scan.
From Mv Require Model.Scan Model.ScanSpec.
Open Scope string_scope.
Open Scope list_scope.

(* one result per transition *)
Theorem c09_results_len :
  forall (norm : path -> string -> option string) (slm : slmode) (E : env) (rn : name) (ch : cache)
         (dfm ddm : N) (own fixed : bool) (fs0 : node) (stg : store) (plan : list change),
    List.length (snd (transition norm E rn ch slm dfm ddm own fixed fs0 stg plan)) = List.length plan.
Proof. exact c09_results_len_thm. Qed.

(* the checker applied to the implementation says exactly "every result
   describes the disk at its path, one result per transition" *)
Theorem c09_check_sound :
  forall (H : string -> string) (norm : path -> string -> option string) (nameok : name -> bool)
         (slm : slmode) (rn : name) (plan : list change) (post : node) (rs : list oentry),
    check_c09 H norm nameok slm rn plan post rs = true <->
    describes_all H norm nameok slm rn post plan rs.
Proof. exact check_c09_iff. Qed.

(* cancellation: from the first loop head that sees it on, the results are
   the old entries, nothing is issued any more *)
Theorem c09_cancel :
  forall (norm : path -> string -> option string) (slm : slmode) (E : env) (rn : name) (ch : cache)
         (dfm ddm : N) (own fixed : bool)
         (pre suf : list change) (s s1 : tstate) (rs1 : list oentry) (s2 : tstate) (rs : list oentry),
    trans_loop norm E rn ch slm dfm ddm own fixed pre s = (s1, rs1) ->
    cancelled E s1 = true ->
    trans_loop norm E rn ch slm dfm ddm own fixed (pre ++ suf) s = (s2, rs) ->
    rs = rs1 ++ map cold suf /\ tx s2 = tx s1 /\ tmiss s2 = tmiss s1 /\
    (forall c, In c suf -> In (cpath c, PK_CANCELLED) (tprobs s2)).
Proof. exact c09_cancel_thm. Qed.

Theorem c09_cancel_start :
  forall (norm : path -> string -> option string) (slm : slmode) (E : env) (rn : name) (ch : cache)
         (dfm ddm : N) (own fixed : bool) (fs0 : node) (stg : store) (plan : list change),
    oracle E 0 = Cancelled ->
    let '(s', rs) := transition norm E rn ch slm dfm ddm own fixed fs0 stg plan in
    rs = map cold plan /\ tfs s' = fs0 /\ tstg s' = stg.
Proof. exact c09_cancel_start_thm. Qed.

(* a missing staged file: error, providerMissingFiles set, the tree as before
   (no injected failure; any cancellation point; staging on any device) *)
Theorem c09_missing :
  forall (E : env) (dfm : N) (own : bool) (p : path) (target : entry) (h : path) (n : name)
         (rp : bool) (s s' : tstate) (r : result unit),
    find_and_move E dfm own p target h n rp s = (s', r) ->
    sl_obj (sget (p, entry_digest target) (tstg s)) = None ->
    N.land (file_mode dfm target) 511 <> 0%N \/ own = true ->
    fault_free E ->
    (forall m c, dir_at h (tfs s) = Some (m, c) -> True) ->
    is_ok r = false /\ tfs s' = tfs s /\ tmiss s' = true.
Proof. exact find_and_move_missing. Qed.

(* ---------- exactness ---------- *)

(* EXACTNESS.  For every environment (every placement of failures, every
   cancellation point), cache, symbolic-link mode, staging area that holds
   what it claims ([store_ok]), default file mode accepted for portable
   permissions with a read bit ([modes_ok]), and every plan of synchronizable
   old and new entries -- files, symbolic links, directories of any depth --
   whose paths are pairwise unrelated and whose names a scan reports: if
   before the transition the disk is what the plan's old entries say (nothing
   was edited after the scan: [pre_described]), then afterwards results[i]
   describes the disk at plan[i].path for every i, and there is one result per
   transition: the model's output passes check_c09.  Holds for the repaired
   createSymbolicLink, or when no ownership is configured. *)
Theorem c09_exact :
  forall (H : string -> string) (norm : path -> string -> option string) (nameok : name -> bool)
         (slm : slmode) (E : env) (rn : name) (ch : cache) (dfm ddm : N) (own fixed : bool)
         (fs0 : node) (stg : store) (plan : list change),
    modes_ok dfm -> fixed = true \/ own = false -> rn <> "." -> skip nameok rn = false ->
    plan_ok nameok plan -> paths_disjoint (map cpath plan) = true ->
    tsorted fs0 -> store_ok H stg ->
    pre_described H norm nameok slm rn fs0 plan = true ->
    check_c09 H norm nameok slm rn plan
              (tfs (fst (transition norm E rn ch slm dfm ddm own fixed fs0 stg plan)))
              (snd (transition norm E rn ch slm dfm ddm own fixed fs0 stg plan)) = true.
Proof. exact c09_exact_thm. Qed.

(* THE LINK TO THE SCAN (C12).  [describe] is not an ad-hoc notion: for a tree
   a fault-free scan reports without problems ([scannable]: one device, valid
   UTF-8 listable names, file sizes and modification times a scan accepts; the
   listings sorted), whatever entry the C12 specification [ScanSpec.describes]
   relates to a node under no ignores and no failures (portable permissions on
   a filesystem that preserves executability, the transition's symbolic-link
   mode), its synchronizable part (Entry.synchronizable: untracked and
   problematic content dropped) is exactly [describe] of that node. *)
Theorem c09_describe_is_scan :
  forall (H : string -> string) (ign : path -> bool -> Scan.ival)
         (flt : path -> Scan.fop -> outcome) (slm : slmode) (fix16 : bool),
    (forall p d, fst (ign p d) = Scan.INominal) -> (forall p op, flt p op = Ok) ->
    forall (rd : N) (x : node) (p : path) (oe : oentry),
      scannable rd x -> tsorted x ->
      ScanSpec.describes H ign flt (cfg_of slm fix16) rd p false x oe ->
      synchronizable oe = describe H (norm_of fix16) Scan.utf8_valid slm p x.
Proof. exact describe_is_scan. Qed.

(* A SCAN TAKEN IMMEDIATELY AFTER THE TRANSITION AGREES WITH THE RESULTS.
   Under the hypotheses of c09_exact (with the scan model's link normaliser
   and UTF-8 test as the outside world): if the scan model of C12
   (Model/Scan.v [scan_full], proved correct against [ScanSpec.describes] in
   Props/C12.v) runs without ignores and failures on the synchronization root
   as the transition left it and returns a snapshot, then for every i the
   synchronizable part of the snapshot at plan[i].path is results[i]. *)
Theorem c09_scan_agrees :
  forall (H : string -> string) (ign : path -> bool -> Scan.ival)
         (flt : path -> Scan.fop -> outcome) (slm : slmode) (fix16 : bool)
         (E : env) (rn : name) (ch : cache) (dfm ddm : N) (own fixed : bool),
    (forall p d, fst (ign p d) = Scan.INominal) -> (forall p op, flt p op = Ok) ->
    forall (fs0 : node) (stg : store) (plan : list change),
    modes_ok dfm -> fixed = true \/ own = false -> rn <> "." -> skip Scan.utf8_valid rn = false ->
    plan_ok Scan.utf8_valid plan -> paths_disjoint (map cpath plan) = true ->
    tsorted fs0 -> store_ok H stg ->
    pre_described H (norm_of fix16) Scan.utf8_valid slm rn fs0 plan = true ->
    let '(s', rs) := transition (norm_of fix16) E rn ch slm dfm ddm own fixed fs0 stg plan in
    forall snap c ic,
      scan_ready (get [rn] (tfs s')) ->
      Scan.scan_full H ign flt (cfg_of slm fix16) (get [rn] (tfs s')) = Scan.SOk snap c ic ->
      Forall2 (fun chg r => at_path (synchronizable (Scan.s_content snap)) (cpath chg) = r) plan rs.
Proof. exact c09_scan_agrees_thm. Qed.

(* The variant for plans whose old and new entries are files and
   symbolic links (creations, deletions, swaps, file <-> link replacements;
   every failure placement, missing staged files, cross-device staging,
   cancellation at every point).  For every environment, cache, staging area
   that holds what it claims ([store_ok]), default modes accepted by
   EnsureDefaultFileModeValid with a read bit ([modes_ok]): if before the
   transition the disk is what the plan's old entries say (nothing was edited
   after the scan), then afterwards results[i] describes the disk at plan[i].path
   for every i (and there is one result per transition): the model's output
   passes check_c09. *)
Theorem c09_exact_flat :
  forall (H : string -> string) (norm : path -> string -> option string) (nameok : name -> bool)
         (slm : slmode) (E : env) (rn : name) (ch : cache) (dfm ddm : N) (own fixed : bool)
         (fs0 : node) (stg : store) (plan : list change),
    modes_ok dfm -> rn <> "." -> skip nameok rn = false ->
    flat_plan nameok plan -> fixed = true \/ known_c09 own plan = false ->
    paths_disjoint (map cpath plan) = true ->
    tsorted fs0 -> store_ok H stg ->
    pre_described H norm nameok slm rn fs0 plan = true ->
    check_c09 H norm nameok slm rn plan
              (tfs (fst (transition norm E rn ch slm dfm ddm own fixed fs0 stg plan)))
              (snd (transition norm E rn ch slm dfm ddm own fixed fs0 stg plan)) = true.
Proof. exact c09_exact_partial_thm. Qed.

(* ---------- the defect in the code as it is ---------- *)
(* With an ownership configured (own = true), a failure of the fchownat that
   follows a successful symlinkat makes createSymbolicLink report an error:
   the result says "nothing created" while the link is on disk.  Witness: the
   synchronization root is an empty directory, the plan creates the link
   "l" -> "t", the third primitive (open root, symlinkat, fchownat) fails. *)
Definition w_env : env :=
  {| oracle := fun k => if Nat.eqb k 2 then Fail EIO else Ok;
     clock := fun _ => 0%N; fresh_id := fun _ => 0%N; temp_tag := fun _ => "0" |}.
Definition w_meta : meta := {| m_mode := 493; m_size := 0; m_mtime := 0; m_fid := 0; m_dev := 1 |}.
Definition w_fs : node := NDir w_meta [("root", NDir w_meta [])].
Definition w_plan : list change := [{| cpath := ["l"]; cold := None; cnew := Some (ELink "t") |}].

Theorem c09_exact_refuted_unfixed :
  exists (E : env) (fs0 : node) (plan : list change),
    known_c09 true plan = true /\
    pre_described (fun d => d) (fun _ t => Some t) (fun _ => true) SLRaw "root" fs0 plan = true /\
    check_c09 (fun d => d) (fun _ t => Some t) (fun _ => true) SLRaw "root" plan
              (tfs (fst (transition (fun _ t => Some t) E "root" [] SLRaw 384 448 true false fs0 [] plan)))
              (snd (transition (fun _ t => Some t) E "root" [] SLRaw 384 448 true false fs0 [] plan)) = false.
Proof. exists w_env, w_fs, w_plan. vm_compute. repeat split. Qed.

(* the same input with the repaired createSymbolicLink: the link is reported *)
Theorem c09_exact_fixed_witness :
  check_c09 (fun d => d) (fun _ t => Some t) (fun _ => true) SLRaw "root" w_plan
            (tfs (fst (transition (fun _ t => Some t) w_env "root" [] SLRaw 384 448 true true w_fs [] w_plan)))
            (snd (transition (fun _ t => Some t) w_env "root" [] SLRaw 384 448 true true w_fs [] w_plan)) = true /\
  tprobs (fst (transition (fun _ t => Some t) w_env "root" [] SLRaw 384 448 true true w_fs [] w_plan))
    = [(["l"], PK_LINK_PERMS)].
Proof. vm_compute. split; reflexivity. Qed.

(* ---------- the hypotheses are satisfiable on a non-trivial state ---------- *)
(* root/ holds a file "a" (content "c1") and a link "k"; the plan swaps "a"
   for the staged content "n1", deletes "k" and creates the link "m"; the
   third primitive is failed by injection (so the swap fails and reports the old entry).  All hypotheses of
   c09_exact_flat hold and the conclusion is checked by computation. *)
Definition x_meta (mode : N) : meta := {| m_mode := mode; m_size := 2; m_mtime := 5; m_fid := 7; m_dev := 1 |}.
Definition x_fs : node :=
  NDir w_meta [("root", NDir w_meta [("a", NFile (x_meta 420) "c1"); ("k", NLink (x_meta 511) "t")])].
Definition x_plan : list change :=
  [{| cpath := ["a"]; cold := Some (EFile false "c1"); cnew := Some (EFile true "n1") |};
   {| cpath := ["k"]; cold := Some (ELink "t"); cnew := None |};
   {| cpath := ["m"]; cold := None; cnew := Some (ELink "u") |}].
Definition x_cache : cache :=
  [(["a"], {| ce_mode := 33188; ce_mtime := 5; ce_size := 2; ce_fid := 7; ce_digest := "c1" |})].
Definition x_store : store := [((["a"], "n1"), {| sl_xdev := true; sl_obj := Some (SFile 384 "n1") |})].

Example c09_hypotheses_satisfiable :
  modes_ok 420 /\ "root" <> "." /\
  skip (fun _ => true) "root" = false /\
  known_c09 false x_plan = false /\
  paths_disjoint (map cpath x_plan) = true /\
  pre_described (fun d => d) (fun _ t => Some t) (fun _ => true) SLRaw "root" x_fs x_plan = true /\
  (* and, by computation, the conclusion for one fault placement *)
  snd (transition (fun _ t => Some t) w_env "root" x_cache SLRaw 420 448 false false x_fs x_store x_plan)
    = [Some (EFile false "c1"); None; Some (ELink "u")].
Proof. vm_compute. repeat split; first [reflexivity|discriminate]. Qed.

(* the same with directories: delete the directory d (holding the file a and
   the link k), create the directory n/ with the file f (staged across
   devices) and the empty directory e; the 6th primitive fails (inside the
   removal of d/a): d keeps a, and the partial results describe the disk *)
Definition y_fs : node :=
  NDir w_meta [("root", NDir w_meta [("d", NDir w_meta [("a", NFile (x_meta 420) "c1"); ("k", NLink (x_meta 511) "t")])])].
Definition y_plan : list change :=
  [{| cpath := ["d"]; cold := Some (EDir [("a", EFile false "c1"); ("k", ELink "t")]); cnew := None |};
   {| cpath := ["n"]; cold := None; cnew := Some (EDir [("e", EDir []); ("f", EFile true "n1")]) |}].
Definition y_cache : cache :=
  [(["d"; "a"], {| ce_mode := 33188; ce_mtime := 5; ce_size := 2; ce_fid := 7; ce_digest := "c1" |})].
Definition y_store : store := [((["n"; "f"], "n1"), {| sl_xdev := true; sl_obj := Some (SFile 384 "n1") |})].
Definition y_env : env :=
  {| oracle := fun k => if Nat.eqb k 5 then Fail EIO else Ok;
     clock := fun _ => 0%N; fresh_id := fun _ => 0%N; temp_tag := fun _ => "0" |}.

Example c09_directories_example :
  pre_described (fun d => d) (fun _ t => Some t) (fun _ => true) SLRaw "root" y_fs y_plan = true /\
  snd (transition (fun _ t => Some t) y_env "root" y_cache SLRaw 420 448 false false y_fs y_store y_plan)
    = [Some (EDir [("a", EFile false "c1")]); Some (EDir [("e", EDir []); ("f", EFile true "n1")])] /\
  check_c09 (fun d => d) (fun _ t => Some t) (fun _ => true) SLRaw "root" y_plan
    (tfs (fst (transition (fun _ t => Some t) y_env "root" y_cache SLRaw 420 448 false false y_fs y_store y_plan)))
    (snd (transition (fun _ t => Some t) y_env "root" y_cache SLRaw 420 448 false false y_fs y_store y_plan)) = true.
Proof. vm_compute. repeat split. Qed.

(* ... and the scan model of C12, run on the root as that transition left it,
   reports at the two paths exactly the two results (the premises of
   c09_scan_agrees hold there: the tree is well formed for a scan) *)
Example c09_scan_agrees_example :
  let out := transition (norm_of false) y_env "root" y_cache SLRaw 420 448 false false y_fs y_store y_plan in
  let root := get ["root"] (tfs (fst out)) in
  match root with Some x => ScanSpec.scan_wf x = true | None => False end /\
  match Scan.scan_full (fun d => d) (fun _ _ => (Scan.INominal, true)) (fun _ _ => Ok)
                       (cfg_of SLRaw false) root with
  | Scan.SOk s _ _ =>
    map (fun c => at_path (synchronizable (Scan.s_content s)) (cpath c)) y_plan = snd out
  | Scan.SErr => False
  end.
Proof. vm_compute. split; reflexivity. Qed.

Print Assumptions c09_results_len.
Print Assumptions c09_check_sound.
Print Assumptions c09_cancel.
Print Assumptions c09_cancel_start.
Print Assumptions c09_missing.
Print Assumptions c09_exact.
Print Assumptions c09_describe_is_scan.
Print Assumptions c09_scan_agrees.
Print Assumptions c09_exact_flat.
Print Assumptions c09_exact_refuted_unfixed.
Print Assumptions c09_exact_fixed_witness.
