(* C10 — Files written into a root always carry the planned content.
   Property theorems only: each is closed by [exact <lemma>] from
   Proof/StagingC10.v (or Proof/Staging.v) and followed by Print Assumptions.

   The hash function H is an arbitrary function (Section variable, no
   hypothesis): the statements are about the digest of what is on disk, so no
   collision assumption is needed. Streams, sink oracles and fault oracles are
   universally quantified data. *)
From Coq Require Import List Bool Arith NArith String.
Import ListNotations.
From Mv Require Import Model.Staging Proof.Staging Proof.StagingC10.
Local Open Scope string_scope.
Local Open Scope list_scope.

Section C10.
Variable H : bytes -> digest.

(* The invariant behind the property: after EVERY history of staging requests
   (with any reverse-lookup results), transmissions (any stream: corrupt,
   truncated, reordered, without Done, beyond the last file), finalizations,
   external edits of the root and transitions, with every sink oracle, what
   the store holds under (digest, path) has that digest. *)
Theorem c10_store_invariant :
  forall mx ops x0, store_ok H (sstore x0) -> store_ok H (sstore (fst (srun H mx x0 ops))).
Proof. exact (srun_store_ok H). Qed.

(* C10: after every such history, a Transition (every plan, every fault
   oracle) changes a path of the root only by putting there content whose
   digest is the one planned for that path; it reports one flag per planned
   file; and every planned file it does not install is accounted for by the
   missing-files flag or by a problem recorded at its path. *)
Theorem c10_installed_digest :
  forall mx ops x0 plan fs,
    store_ok H (sstore x0) ->
    let x := fst (srun H mx x0 ops) in
    let t0 := {| troot := sroot x; tstore := sstore x; tmissing := false; tproblems := [] |} in
    let t' := fst (transition H t0 plan fs) in
    let oks := snd (transition H t0 plan fs) in
    (forall p, f_lookup p (troot t') = f_lookup p (sroot x)
               \/ exists it c, In it plan /\ ipath it = p
                               /\ f_lookup p (troot t') = Some c /\ H c = idigest it)
    /\ List.length oks = List.length plan
    /\ (forall k it, nth_error plan k = Some it -> nth_error oks k = Some false ->
          tmissing t' = true \/ In (ipath it) (tproblems t')).
Proof. exact (installed_digest H). Qed.

(* one planned file, in any state satisfying the invariant ([step_spec]):
   installed with the planned digest and nothing else touched, or the root
   untouched and the failure reported (missing files or a problem there) *)
Theorem c10_install_step :
  forall t it f t' ok,
    store_ok H (tstore t) -> install H t it f = (t', ok) -> step_spec H t it t' ok.
Proof. exact (install_spec H). Qed.

(* rename/copy detection: whatever source the reverse lookup named and
   whatever happened to that file since the scan, stageFromRoot reports
   success only if the store now provides content with the requested digest
   for the path; and then it is a verbatim copy of a root file *)
Theorem c10_stage_from_root_verified :
  forall mx root s src p d s',
    store_ok H s ->
    stage_from_root H mx root s src p d = (s', true) ->
    exists c, provide s' p d = Some c /\ H c = d.
Proof. exact (stage_from_root_verified H). Qed.

Theorem c10_stage_from_root_copied :
  forall mx root s src p d s',
    stage_from_root H mx root s src p d = (s', true) -> contains s p d = false ->
    exists q c, src = Some q /\ f_lookup q root = Some c /\ H c = d /\ provide s' p d = Some c.
Proof. exact (stage_from_root_copied H). Qed.

(* soundness of the checker applied to the independently re-read root *)
Theorem c10_check_sound :
  forall before after plan missing np,
    check_C10 H before after plan missing np = true -> prop_C10 H before after plan missing np.
Proof. exact (check_C10_sound H). Qed.

(* the model's own Transition passes the checker *)
Theorem c10_model_passes :
  forall plan t fs t' oks,
    store_ok H (tstore t) -> tmissing t = false -> tproblems t = [] ->
    transition H t plan fs = (t', oks) ->
    check_C10 H (troot t) (troot t') plan (tmissing t') (List.length (tproblems t')) = true.
Proof. exact (model_passes_C10 H). Qed.

End C10.

(* the hypotheses are satisfiable on a non-trivial session: an intact
   transfer is installed, a corrupt one is reported missing and leaves the
   root alone, a local copy is taken from the root *)
Example c10_nontrivial :
  snd (srun Hid 1000 (x_empty [("a", "old")])
        [SStage [("n", "new"); ("m", "more"); ("k", "old")] [None; None; Some "a"] [empty_sig; empty_sig];
         SRecv (op_data "ne") true; SRecv (op_data "w") true; SRecv TDone true;
         SRecv (op_data "moXe") true; SRecv TDone true; SFinal;
         STransition [{| ipath := "n"; idigest := "new"; iold := None |};
                      {| ipath := "m"; idigest := "more"; iold := None |};
                      {| ipath := "k"; idigest := "old"; iold := None |}] []])
  = [XStage (Some ["n"; "m"]); XRecv RvOk; XRecv RvOk; XRecv RvOk; XRecv RvOk; XRecv RvOk;
     XFinal true; XTransition [true; false; true] true ["m"]].
Proof. exact example_session. Qed.

Print Assumptions c10_store_invariant.
Print Assumptions c10_installed_digest.
Print Assumptions c10_install_step.
Print Assumptions c10_stage_from_root_verified.
Print Assumptions c10_stage_from_root_copied.
Print Assumptions c10_check_sound.
Print Assumptions c10_model_passes.
Print Assumptions c10_nontrivial.
