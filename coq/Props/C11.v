(* C11 -- Root deletion, root type change and one-sided emptying halt the session.
   Property theorems only. *)
From Coq Require Import List Bool Arith String.
Import ListNotations.
From Mv Require Import Model.Entry Model.Reconcile Model.Safety Proof.Safety.
Local Open Scope list_scope.

(* oneEndpointEmptiedRoot fires exactly when all three are directories, the
   ancestor has at least two children and exactly one of alpha/beta has none *)
Theorem c11_emptied_iff : forall anc a b,
  one_endpoint_emptied_root anc a b = true <-> emptied_spec anc a b.
Proof. exact emptied_iff. Qed.

Theorem c11_root_del_iff : forall cs,
  contains_root_deletion cs = true <-> root_deletion_spec cs.
Proof. exact root_del_iff. Qed.

Theorem c11_root_type_iff : forall cs,
  contains_root_type_change cs = true <-> root_type_change_spec cs.
Proof. exact root_type_iff. Qed.

(* filteredPathsAreSubset decides "order-preserving sub-list" *)
Theorem c11_subset_iff : forall f o,
  filtered_paths_are_subset f o = true <-> subseq f o.
Proof. exact subset_iff. Qed.
