(* C11 -- Root deletion, root type change and one-sided emptying halt the session.
   Property theorems only. *)
From Coq Require Import List Bool Arith String.
Import ListNotations.
From Mv Require Import Model.Entry Model.Reconcile Model.Safety Model.Controller Model.ControllerCheck
     Proof.Safety Proof.ControllerBase Proof.ControllerHalt Proof.ControllerSound Proof.Controller.
Local Open Scope list_scope.

(* oneEndpointEmptiedRoot fires exactly when all three are directories, the
   ancestor has at least two children and exactly one of alpha/beta has none *)
Theorem c11_emptied_iff : forall anc a b,
  one_endpoint_emptied_root anc a b = true <-> emptied_spec anc a b.
Proof. exact emptied_iff. Qed.

Theorem c11_root_del_iff : forall cs,
  contains_root_deletion cs = true <-> root_deletion_spec cs.
Proof. exact root_del_iff. Qed.

Theorem c11_root_type_iff : forall cs,
  contains_root_type_change cs = true <-> root_type_change_spec cs.
Proof. exact root_type_iff. Qed.

(* filteredPathsAreSubset decides "order-preserving sub-list" *)
Theorem c11_subset_iff : forall f o,
  filtered_paths_are_subset f o = true <-> subseq f o.
Proof. exact subset_iff. Qed.

(* The halt cannot be dodged. With the other side equal to the ancestor [e]
   (synchronizable content), in every mode:
   - alpha's root deleted: the plan deletes beta's root (root-deletion check);
   - beta's root deleted: two-way modes plan the deletion of alpha's root, the
     one-way modes plan nothing at all for alpha;
   - alpha's root replaced by content of another kind: the plan changes the
     type of beta's root (root-type-change check);
   - beta's root replaced likewise: two-way modes plan the type change of
     alpha's root, one-way modes plan nothing for alpha. *)
Theorem c11_covers : forall m e,
  wf_entry true e = true ->
  contains_root_deletion (beta_ch (reconcile m (Some e) None (Some e))) = true
  /\ (if two_way m
      then contains_root_deletion (alpha_ch (reconcile m (Some e) (Some e) None)) = true
      else alpha_ch (reconcile m (Some e) (Some e) None) = [])
  /\ (forall a, wf_entry true a = true -> kind_of a <> kind_of e ->
        contains_root_type_change (beta_ch (reconcile m (Some e) (Some a) (Some e))) = true)
  /\ (forall b, wf_entry true b = true -> kind_of b <> kind_of e ->
        if two_way m
        then contains_root_type_change (alpha_ch (reconcile m (Some e) (Some e) (Some b))) = true
        else alpha_ch (reconcile m (Some e) (Some e) (Some b)) = []).
Proof. exact covers_all. Qed.

(* ... hence the controller's check sequence yields a halt in each of these
   situations, and HaltedOnRootEmptied whenever the emptied rule applies *)
Theorem c11_covers_verdict : forall m e,
  wf_entry true e = true ->
  safety_verdict m (Some e) None (Some e) <> None
  /\ (two_way m = true -> safety_verdict m (Some e) (Some e) None <> None)
  /\ (forall a, wf_entry true a = true -> kind_of a <> kind_of e ->
        safety_verdict m (Some e) (Some a) (Some e) <> None)
  /\ (forall b, wf_entry true b = true -> kind_of b <> kind_of e -> two_way m = true ->
        safety_verdict m (Some e) (Some e) (Some b) <> None)
  /\ (forall a b, emptied_spec (Some e) a b -> safety_verdict m (Some e) a b = Some HaltEmptied).
Proof. exact covers_verdict. Qed.

(* the checker applied to the results of the real functions is sound, and the
   model's own results pass it *)
Theorem c11_check_pred_sound : forall c, check_pred c = true -> pred_result_ok c.
Proof. exact check_pred_sound. Qed.

Theorem c11_check_pred_model :
  (forall anc a b, check_pred (PEmptied anc a b (one_endpoint_emptied_root anc a b)) = true) /\
  (forall cs, check_pred (PChanges cs (contains_root_deletion cs) (contains_root_type_change cs)) = true) /\
  (forall f o, check_pred (PSubset f o (filtered_paths_are_subset f o)) = true).
Proof. exact check_pred_model. Qed.

(* No propagation, for every schedule of the controller machine
   (Model/Controller.v) in every mode: whenever the two scans of a cycle have
   returned contents on which the check sequence yields a halt -- and no
   lifecycle command is active -- the loop emits nothing but the Shutdown of
   its two endpoints (no Stage, Supply, Transition, Scan, Poll or Connect), the
   status seen after the shutdowns is the corresponding Halted status, and this
   lasts until a lifecycle command (pause, resume, reset, terminate, shutdown)
   is called or a new manager is created. check_halt is the monitor that says
   exactly this (Model/ControllerCheck.v, hmon); it is the checker applied to
   the recorded histories of the real Manager. *)
Theorem c11_no_propagation : forall md manual sched st tr,
  run (init_state md manual) sched = Some (st, tr) -> check_halt md tr = true.
Proof. exact run_halt. Qed.

(* what passing the halt monitor means. It starts expecting the halted
   behaviour exactly when the second scan of a cycle has returned, the check
   sequence yields a halt on the ancestor given to the scans and the two
   returned contents, and no lifecycle command is active ... *)
Theorem c11_halt_arming : forall md m s r c m' k n,
  hmon_step md m (Sx s true r c) = Some m' -> h_halt m = None -> h_halt m' = Some (k, n) ->
  n = 0 /\ any_active is_lifecycle (h_act m) = false /\
  exists ca cb, safety_verdict md (h_anc m) ca cb = Some k /\
                ((s = Alpha /\ ca = c /\ h_rb m = SOk cb) \/ (s = Beta /\ cb = c /\ h_ra m = SOk ca)).
Proof. exact halt_arming. Qed.

(* ... and from then on, as long as no lifecycle command is called and no new
   manager is created, every accepted endpoint event is the entry or exit of
   Shutdown (no Stage, Supply, Transition, Scan, Poll, Connect), and a status
   observed after both shutdowns returned is the Halted status of that check *)
Theorem c11_halt_sound : forall md tr m m' k shut,
  mon_run (hmon_step md) m tr = Some m' -> h_halt m = Some (k, shut) ->
  (forall t c, In (Ca t c) tr -> is_lifecycle c = false) -> (forall l, ~ In (Nm l) tr) ->
  (exists shut', h_halt m' = Some (k, shut') /\ shut <= shut') /\
  (forall e, In e tr -> is_endpoint e = true -> is_shutdown_event e = true) /\
  (forall st, In (ObT true (Some st)) tr -> 2 <= shut -> st = halt_status k).
Proof. exact halt_sound. Qed.

(* the hypotheses are satisfiable: a schedule on which the emptied-root check
   fires (second cycle, after the ancestor was saved by the first) *)
Example c11_example_halting_run :
  exists st tr, run (init_state TwoWaySafe false) halting_schedule = Some (st, tr)
                /\ In (IHalt HaltEmptied) tr /\ status st = 1 /\ option_map lp (loop st) = Some LHalted
                /\ arch_file st = Some two_files /\ check_halt TwoWaySafe tr = true.
Proof. exact halting_example. Qed.

(* the hypotheses are satisfiable on non-trivial states *)
Example c11_example_emptied :
  one_endpoint_emptied_root
    (Some (EDir [("a"%string, EFile false "d1"%string); ("b"%string, EFile false "d2"%string)]))
    (Some (EDir [])) (Some (EDir [("a"%string, EFile false "d1"%string)])) = true
  /\ one_endpoint_emptied_root
    (Some (EDir [("a"%string, EFile false "d1"%string)])) (Some (EDir [])) (Some (EDir [("a"%string, EFile false "d1"%string)])) = false.
Proof. split; reflexivity. Qed.

Example c11_example_covers :
  safety_verdict TwoWaySafe (Some (EDir [("a"%string, EFile false "d1"%string)])) None
                 (Some (EDir [("a"%string, EFile false "d1"%string)])) = Some HaltRootDeletion
  /\ safety_verdict OneWayReplica (Some (EDir [("a"%string, EFile false "d1"%string)])) (Some (EFile false "d2"%string))
                 (Some (EDir [("a"%string, EFile false "d1"%string)])) = Some HaltRootTypeChange.
Proof. split; vm_compute; reflexivity. Qed.

Print Assumptions c11_emptied_iff.
Print Assumptions c11_root_del_iff.
Print Assumptions c11_root_type_iff.
Print Assumptions c11_subset_iff.
Print Assumptions c11_covers.
Print Assumptions c11_covers_verdict.
Print Assumptions c11_no_propagation.
Print Assumptions c11_halt_arming.
Print Assumptions c11_halt_sound.
Print Assumptions c11_check_pred_sound.
Print Assumptions c11_check_pred_model.
