(* C12 - A scan describes the filesystem exactly.

   Model: Model/Fs.v (filesystem trees), Model/Scan.v (core.Scan transcribed),
   Model/ScanSpec.v (the independent specification [describes], the checker
   [check_C12]).  All theorems quantify over every tree, every content hash H,
   every ignorer, every configuration (symbolic link mode, permissions mode,
   probed behaviour) and every assignment of faults to the primitives a scan
   issues (path-indexed; see the header of Model/Scan.v).

   Preconditions, stated in the theorems: [scan_wf x] = the tree is well formed
   (sorted distinct valid names, permission bits < 07777+1, file size = content
   length) and no invalid-UTF-8 name's escaped form collides with a valid
   sibling name (with such a collision the Go map keeps whichever entry the
   directory listing yields last; the model keeps one of them too);
   [flt [] FOpenRoot = Ok] = the root could be opened (otherwise Scan returns an
   error or, for a missing root, the empty snapshot: c12_absent). *)
From Coq Require Import List Bool String NArith.
From Mv Require Import Model.Entry Model.Fs Model.Scan Model.ScanSpec
     Proof.ScanC12 Proof.ScanC12Top.
Import ListNotations.

(* the snapshot content of a fresh full scan is related to the tree by the
   specification: every child is accounted for exactly once under its (escaped)
   name; regular files carry executability (only when the filesystem preserves
   it and the mode is portable) and the digest of their content; links are
   reported according to the mode; other types and ignored paths are untracked
   without traversal; unreadable content, invalid names, crossings are
   problems *)
Theorem c12_describes :
  forall H ign flt cfg x s c ic,
    scan_wf x = true -> flt [] FOpenRoot = Ok ->
    scan_full H ign flt cfg (Some x) = SOk s c ic ->
    describes H ign (root_opened flt) cfg (m_dev (node_meta x)) [] false x (s_content s).
Proof. exact c12_describes_lemma. Qed.

Theorem c12_absent :
  forall H ign flt cfg s c ic,
    scan_full H ign flt cfg None = SOk s c ic ->
    s_content s = None /\ s_cnt s = cnt0 /\ c = ct_empty /\ ic = [].
Proof. exact c12_absent_lemma. Qed.

(* the four counters equal the folds over the returned content (bytes: the
   sizes of the regular files the content lists as files) *)
Theorem c12_counts :
  forall H ign flt cfg x s c ic,
    scan_wf x = true -> flt [] FOpenRoot = Ok ->
    scan_full H ign flt cfg (Some x) = SOk s c ic ->
    s_cnt s = content_counts (Some x) (s_content s).
Proof. exact c12_counts_lemma. Qed.

(* temporary names: whatever is listed is accounted for by a child without the
   temporary prefix, and no listed name carries the prefix (neither a name
   that is valid UTF-8 nor the escaped form of one that is not) *)
Theorem c12_temp_omitted :
  forall H ign flt cfg rootdev p mask c out,
    describes_kids H ign flt cfg rootdev p mask c out ->
    forall k e, lookup k out = Some e ->
                is_temp k = false /\
                exists n y, In (n, y) c /\ is_temp n = false /\ out_key n = Some k.
Proof.
  exact (fun H ign flt cfg rootdev p mask c out Hd k e El =>
           conj (no_temp_key H ign flt cfg rootdev p mask c out Hd k e El)
                (listed_not_temp H ign flt cfg rootdev p mask c out Hd k e El)).
Qed.

(* the checker applied to the implementation's snapshots is sound *)
Theorem c12_check_sound :
  forall H ign flt cfg root s,
    check_C12 H ign flt cfg root s = true -> c12_holds H ign flt cfg root s.
Proof. exact check_C12_sound. Qed.

(* the model's own output passes the checker *)
Theorem c12_model_passes :
  forall H ign flt cfg root s c ic,
    match root with Some x => scan_wf x = true /\ flt [] FOpenRoot = Ok | None => True end ->
    scan_full H ign flt cfg root = SOk s c ic ->
    check_C12 H ign flt cfg root s = true.
Proof. exact c12_model_passes. Qed.

(* the hypotheses are satisfiable on a non-trivial tree (temporary name,
   invalid name, executable file, portable / absolute links, a FIFO, an
   ignored directory) *)
Example c12_nontrivial :
  scan_wf ex_tree = true /\
  exists c ic,
    scan_full ex_H ex_ign ex_flt ex_cfg (Some ex_tree) =
    SOk {| s_content :=
             Some (EDir [("a", EFile true "h:hello");
                         (escape_name (Common.Bytes.bs [98;97;100;255]), EProblem "non-UTF-8 filename");
                         ("d", EDir [("l", ELink "../a");
                                     ("m", EProblem "invalid symbolic link: target is absolute");
                                     ("p", EUntracked)]);
                         ("ig", EUntracked)]);
           s_preserves := true; s_decomposes := false;
           s_cnt := {| n_dirs := 2; n_files := 1; n_links := 1; n_bytes := 5 |} |} c ic.
Proof. exact c12_example. Qed.

Print Assumptions c12_describes.
Print Assumptions c12_absent.
Print Assumptions c12_counts.
Print Assumptions c12_temp_omitted.
Print Assumptions c12_check_sound.
Print Assumptions c12_model_passes.
Print Assumptions c12_nontrivial.
