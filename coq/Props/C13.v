(* C13 - Accelerated scans equal full scans.

   Model: Model/Scan.v ([scan] with a baseline snapshot, recheck paths, the
   digest cache and the ignore cache of the previous scan: dirty-path closure,
   re-use of baseline directories with propagation of cache entries, the Linux
   empty-directory heuristic, digest re-use keyed on type/mtime/size/file id).
   Theorems quantify over every pair of trees (before / after the edits),
   every hash, ignorer, configuration, recheck set, and every assignment of
   faults to the directory and link primitives.

   Hypotheses, as in the property:
   * the baseline and the digest cache are those of a full scan of the old tree
     (this re-establishes itself: c13_history); the ignore cache only has to
     agree with the ignorer ([ic_consistent]; the accelerated scan returns a
     *subset* of the full scan's ignore cache, observed and harmless, so equality
     of ignore caches is not claimed);
   * [unchanged_off_dirty]: a directory that is neither a recheck path nor above
     one, and that was not empty, is unchanged.  c13_equal_reported derives it
     from "every created, deleted or modified path is a recheck path";
   * [key_sound]: a regular file whose modification time, size and file id are
     unchanged has unchanged content;
   * the synchronization root stays on the same device, and both roots are
     directories (file roots take no baseline; not covered by these theorems);
   * [nofilefaults]: no regular file is unreadable.  This hypothesis is needed:
     c13_unreadable_refuted shows that a file that can no longer be opened but
     whose (mtime, size, file id) are unchanged is reported as a file from the
     digest cache and as a problem by a scan without a cache. *)
From Coq Require Import List Bool String NArith.
From Mv Require Import Model.Entry Model.Fs Model.Scan Model.ScanSpec
     Proof.ScanC12Top Proof.ScanIc Proof.ScanC13Top Proof.ScanC13Hist.
Import ListNotations.

Section C13.
  Variable H : string -> string.
  Variable ign : path -> bool -> ival.
  Variable flt : path -> fop -> outcome.
  Variable cfg : config.
  Hypothesis no_unreadable_files : nofilefaults flt.

  (* snapshot and digest cache of the accelerated scan are those of a fresh
     full scan of the new tree, and the returned ignore cache again agrees with
     the ignorer *)
  Theorem c13_equal :
    forall (XO : option node) mN cN recheck s0 c0 ic0f ic0,
      match XO with Some xo => scan_wf xo = true | None => True end ->
      scan_wf (NDir mN cN) = true ->
      scan_full H ign flt cfg XO = SOk s0 c0 ic0f ->
      ic_consistent ign ic0 ->
      (forall mo co, XO = Some (NDir mo co) ->
         m_dev mo = m_dev mN /\
         unchanged_off_dirty recheck (NDir mo co) (NDir mN cN) /\
         key_sound (NDir mo co) (NDir mN cN) /\
         (recheck = [] -> NDir mo co = NDir mN cN)) ->
      out_agree ign (scan_accel H ign flt cfg s0 recheck c0 ic0 (Some (NDir mN cN)))
                (scan_full H ign flt cfg (Some (NDir mN cN))).
  Proof. exact (c13_equal_dir H ign flt cfg no_unreadable_files). Qed.

  (* the same with the hypothesis in the property's words: every created,
     deleted or modified path is a recheck path *)
  Theorem c13_equal_reported :
    forall xo xn recheck s0 c0 ic0f ic0,
      scan_wf xo = true -> scan_wf xn = true -> is_dir xo = true -> is_dir xn = true ->
      m_dev (node_meta xo) = m_dev (node_meta xn) ->
      (forall q, changed xo xn q -> In q recheck) ->
      key_sound xo xn ->
      scan_full H ign flt cfg (Some xo) = SOk s0 c0 ic0f ->
      ic_consistent ign ic0 ->
      out_agree ign (scan_accel H ign flt cfg s0 recheck c0 ic0 (Some xn))
                (scan_full H ign flt cfg (Some xn)).
  Proof.
    exact (fun xo xn recheck s0 c0 ic0f ic0 =>
             c13_equal_reported_lemma H ign flt cfg xo xn recheck s0 c0 ic0f ic0 no_unreadable_files).
  Qed.

  (* histories: the controller feeds every result into the next scan; after any
     sequence of edit batches that satisfy the hypotheses the state is that of a
     fresh full scan of the last tree *)
  Theorem c13_history :
    forall steps x0 s0 c0 ic0 s c ic,
      scan_wf x0 = true -> is_dir x0 = true ->
      scan_full H ign flt cfg (Some x0) = SOk s0 c0 ic0 ->
      history_ok x0 steps ->
      run_history H ign flt cfg (s0, c0, ic0) steps = Some (s, c, ic) ->
      exists ic', scan_full H ign flt cfg (Some (last_tree x0 steps)) = SOk s c ic'.
  Proof. exact (c13_history_lemma H ign flt cfg no_unreadable_files). Qed.

  (* supersets of the recheck paths give the same result *)
  Theorem c13_extra_paths :
    forall xo xn r1 r2 s0 c0 ic0f ic0,
      scan_wf xo = true -> edit_ok r1 xo xn -> incl r1 r2 ->
      scan_full H ign flt cfg (Some xo) = SOk s0 c0 ic0f ->
      ic_consistent ign ic0 ->
      out_agree ign (scan_accel H ign flt cfg s0 r2 c0 ic0 (Some xn))
                (scan_full H ign flt cfg (Some xn)).
  Proof. exact (c13_extra_paths_lemma H ign flt cfg no_unreadable_files). Qed.
End C13.

(* the checker applied to the implementation's results, and the model's own
   results pass it *)
Theorem c13_check_sound :
  forall accel full, check_C13 accel full = true -> c13_holds accel full.
Proof. exact check_C13_sound. Qed.

Theorem c13_model_passes :
  forall ign accel full, out_agree ign accel full -> check_C13 accel full = true.
Proof. exact check_C13_of_agree. Qed.

(* the hypotheses are satisfiable on a non-trivial pair of trees (content
   rewrite with a new mtime, a created link, an untouched subdirectory that is
   re-used from the baseline) *)
Example c13_nontrivial_edit : edit_ok ex13_recheck ex13_old ex13_new.
Proof. exact ex13_edit_ok. Qed.

Example c13_nontrivial :
  exists s0 c0 ic0 s c ic ic',
    scan_full ex_H ex_ign ex_flt ex_cfg (Some ex13_old) = SOk s0 c0 ic0 /\
    scan_accel ex_H ex_ign ex_flt ex_cfg s0 ex13_recheck c0 ic0 (Some ex13_new) = SOk s c ic /\
    scan_full ex_H ex_ign ex_flt ex_cfg (Some ex13_new) = SOk s c ic' /\
    at_path (s_content s) ["d"; "f"]%string = Some (EFile true "h:yy") /\
    at_path (s_content s) ["a"]%string = Some (EFile false "h:zz").
Proof. exact ex13_equal. Qed.

(* without [nofilefaults] the statement fails *)
Theorem c13_unreadable_refuted :
  exists s0 c0 ic0 s c ic s' c' ic',
    scan_full ex_H ex_ign ex_flt ex_cfg (Some ex13_old) = SOk s0 c0 ic0 /\
    scan_accel ex_H ex_ign ex13_flt ex_cfg s0 [["a"%string]] c0 ic0 (Some ex13_old) = SOk s c ic /\
    scan_full ex_H ex_ign ex13_flt ex_cfg (Some ex13_old) = SOk s' c' ic' /\
    at_path (s_content s) ["a"%string] = Some (EFile false "h:x") /\
    at_path (s_content s') ["a"%string] = Some (EProblem "unable to open file: permission denied").
Proof. exact ex13_unreadable. Qed.

Print Assumptions c13_equal.
Print Assumptions c13_equal_reported.
Print Assumptions c13_history.
Print Assumptions c13_extra_paths.
Print Assumptions c13_check_sound.
Print Assumptions c13_model_passes.
Print Assumptions c13_nontrivial_edit.
Print Assumptions c13_nontrivial.
Print Assumptions c13_unreadable_refuted.
