(* C14 - Mutagen-style ignores: last match wins, ignored directories pruned.
   Property theorems only; each is closed by [exact <lemma>] from
   Proof/IgnoreMutagen.v or Proof/IgnoreScan.v; Print Assumptions at the end.

   FULL STATEMENT (properties.jsonl): a path is ignored exactly when the last
   pattern matching it is a non-negated one; patterns without a slash match the
   final component anywhere, leading-slash or slash-containing patterns are
   anchored at the root, trailing-slash patterns match only directories, "**"
   spans directory levels; nothing beneath an ignored directory is scanned or
   synchronized; version-control directories are excluded when the option is on.

   What is proved, and where it is partial. The loop, the parsing flags, the
   pruning walk and the VCS wrapper are proved in full. "Matching" is the
   documented glob meaning [Matches] (Proof/IgnoreMutagen.v: '*', '?' and classes
   never match '/', a "**" component stands for zero or more whole components);
   [glob_match true] is proved sound and complete for it. The implementation
   uses doublestar.Match, modelled by [glob_match false] and tied to the real
   library on every run; it coincides with the documented meaning on every
   pattern WITHOUT a bracket class that admits '/' ([c14_doublestar_partial],
   hypothesis [known_C14 = false]) and differs inside that class
   ([c14_doublestar_refuted]): "a[!b]c" matches the path "a/c". *)
From Coq Require Import List Bool Arith String Ascii.
Import ListNotations.
From Mv Require Import Model.Entry Model.IgnoreScan Model.IgnoreMutagen.
From Mv Require Import Proof.IgnoreScan Proof.IgnoreMutagen.
Open Scope list_scope.

(* ---- last match wins: the three skip rules of Ignorer.Ignore are sound ---- *)
(* For ANY pattern type, polarity and per-pattern matcher m: the short-circuit
   loop with its negatedPatternsRemaining counter returns the status of the
   last pattern of the list that matches (Nominal if none does). *)
Theorem c14_last_match_wins :
  forall (P : Type) (neg m : P -> bool) (pats : list P),
    run_loop neg m pats = last_match_status neg m pats.
Proof. exact run_loop_last_match. Qed.

(* ... where "the last pattern that matches" means what it says *)
Theorem c14_last_match_meaning :
  forall (P : Type) (m : P -> bool) (pats : list P),
    match last_match m pats with
    | Some p => exists l1 l2, pats = l1 ++ p :: l2 /\ m p = true
                              /\ forall q, In q l2 -> m q = false
    | None => forall q, In q pats -> m q = false
    end.
Proof. exact last_match_spec. Qed.

(* the loop invariant itself (any starting status), which also shows that the
   counter is decremented only when it is positive *)
Theorem c14_loop_invariant :
  forall (P : Type) (neg m : P -> bool) (pats : list P) (st : status),
    ignore_loop neg m pats st (count_neg neg pats)
    = match last_match m pats with Some p => pol neg p | None => st end.
Proof. exact ignore_loop_inv. Qed.

(* Ignorer.Ignore of the model, for either reading of the glob language *)
Theorem c14_ignore_last_match :
  forall strict pats path dir,
    ignore strict pats path dir
    = (last_match_status negated (fun p => pat_matches strict p path dir) pats, false).
Proof. exact ignore_last_match. Qed.

(* ---- the glob language ---- *)
Theorem c14_glob_sound_complete :
  forall cs name, glob_match true cs name = true <-> Matches cs name.
Proof. exact glob_sound_complete. Qed.

(* per pattern: ignorePattern.matches under the documented meaning *)
Theorem c14_pattern_matches_iff :
  forall p path dir, pat_matches true p path dir = true <-> PatMatches p path dir.
Proof. exact pat_matches_iff. Qed.

(* full statement about the implementation's matcher (false, see refuted): *)
Definition c14_doublestar_full_statement : Prop :=
  forall cs name, glob_match false cs name = glob_match true cs name.

Theorem c14_doublestar_partial :
  forall pats path dir,
    known_C14 pats = false ->
    ignore false pats path dir = ignore true pats path dir.
Proof. exact ignore_agree. Qed.

Theorem c14_doublestar_glob_partial :
  forall cs name,
    existsb comp_admits_slash cs = false ->
    glob_match false cs name = glob_match true cs name.
Proof. exact glob_match_agree. Qed.

Theorem c14_doublestar_refuted :
  exists raw path,
    match parse_all [str_of raw] with
    | Some pats => known_C14 pats = true
                   /\ ignore false pats (str_of path) false = (Ignored, false)
                   /\ ignore true pats (str_of path) false = (Nominal, false)
    | None => False
    end.
Proof. exists "a[!b]c"%string, "a/c"%string. vm_compute. auto. Qed.

(* ---- parsing: negation, anchoring, directory-only, leaf flag ---- *)
(* [cs] is a pattern body in clean form (non-empty components other than "."
   and "..", without '/'), [g] its glob parse. *)
Theorem c14_leaf_anchor_dir :
  forall neg cs g,
    good_body cs -> parse_glob (join_slash cs) = Some g ->
    (* no leading or trailing slash: a slash-free pattern also matches the base
       name, a pattern with an inner slash does not *)
    parse_body neg (join_slash cs)
    = Some {| negated := neg; dir_only := false;
              match_leaf := match cs with _ :: _ :: _ => false | _ => true end;
              text := join_slash cs; comps := g |}
    (* a leading slash anchors *)
    /\ parse_body neg (ch_slash :: join_slash cs)
       = Some {| negated := neg; dir_only := false; match_leaf := false;
                 text := join_slash cs; comps := g |}
    (* a trailing slash makes the pattern directory-only *)
    /\ parse_body neg (join_slash cs ++ [ch_slash])
       = Some {| negated := neg; dir_only := true;
                 match_leaf := match cs with _ :: _ :: _ => false | _ => true end;
                 text := join_slash cs; comps := g |}.
Proof.
  intros neg cs g Hg Hp.
  exact (conj (parse_body_plain neg cs g Hg Hp)
              (conj (parse_body_anchored neg cs g Hg Hp) (parse_body_dironly neg cs g Hg Hp))).
Qed.

(* a leading '!' negates and changes nothing else *)
Theorem c14_negation :
  forall c x,
    Ascii.eqb c ch_bang = false ->
    parse_pattern (ch_bang :: c :: x) = option_map negate (parse_pattern (c :: x))
    /\ (forall p, parse_pattern (c :: x) = Some p -> negated p = false).
Proof. exact parse_pattern_negated. Qed.

(* what the flags do at matching time *)
Theorem c14_flags_meaning :
  forall strict p path dir,
    (dir_only p = true -> pat_matches strict p path false = false)
    /\ (match_leaf p = false ->
        pat_matches strict p path dir
        = (negb (dir_only p) || dir) && glob_match strict (comps p) path)
    /\ (match_leaf p = true -> path <> [] ->
        pat_matches strict p path dir
        = (negb (dir_only p) || dir)
          && (glob_match strict (comps p) path
              || glob_match strict (comps p) (last (split_slash path) []))).
Proof.
  intros strict p path dir.
  exact (conj (pat_matches_dironly_file strict p path)
              (conj (pat_matches_anchored strict p path dir) (pat_matches_leaf strict p path dir))).
Qed.

(* ---- pruning ---- *)
(* Stated over the abstract walk of Model/IgnoreScan.v, which consults the
   ignorer exactly as scanner.directory does (the M-FS scan model of C12 is not
   built yet); the walk is tied to core.Scan on real trees by the harness. For
   ANY ignorer: below a directory for which it answers (Ignored, no
   continuation) nothing is opened and nothing appears in the snapshot. *)
Theorem c14_pruned :
  forall (ign : ignorer) (root : fnode) (q : rpath),
    q <> [] -> prunedb ign q true = true ->
    (forall v, In (EvRead v) (scan_log ign root) -> ~ Below q v)
    /\ (forall v e, In (v, e) (entries [] (snapshot ign root)) -> ~ Below q v).
Proof. exact pruned_no_traversal. Qed.

(* the pruned child itself: exactly one untracked entry, one consultation of
   the ignorer, nothing opened *)
Theorem c14_pruned_entry :
  forall (ign : ignorer) rp mask n ch,
    consulted_kind ch = true -> prunedb ign (n :: rp) (is_fdir ch) = true ->
    scan_child ign rp mask n ch = (EUntracked, [EvIgnore (n :: rp) (is_fdir ch)]).
Proof. exact pruned_child. Qed.

Theorem c14_one_entry_per_child :
  forall (ign : ignorer) rp mask c, map fst (fst (scan_list ign rp mask c)) = map fst c.
Proof. exact scan_list_names. Qed.

(* everything the walk opens is unpruned and has no pruned directory above *)
Theorem c14_opened_not_pruned :
  forall (ign : ignorer) root v,
    In (EvRead v) (scan_log ign root) -> v <> [] ->
    exists f, In (v, f) (fnodes [] root) /\ prunedb ign v (is_fdir f) = false.
Proof. exact opened_not_pruned. Qed.

(* for the Mutagen ignorer "ignored" alone prunes: it never continues *)
Theorem c14_mutagen_never_continues :
  forall strict vcs pats q dir, snd (mut_ignorer strict vcs pats q dir) = false.
Proof. exact mut_ignorer_no_continue. Qed.

(* version-control directories, when the option is on *)
Theorem c14_vcs :
  forall strict pats n rp,
    is_vcs_name n = true -> mut_ignorer strict true pats (n :: rp) true = (Ignored, false).
Proof. exact vcs_prunes. Qed.

(* ---- the checkers applied to the implementation's outputs ---- *)
Theorem c14_check_ignore_sound :
  forall pats path dir out,
    check_C14_ignore pats path dir out = true ->
    out = (last_match_status negated (fun p => pat_matches true p path dir) pats, false).
Proof. exact check_ignore_sound. Qed.

Theorem c14_check_ignore_model_passes :
  forall pats path dir,
    known_C14 pats = false -> check_C14_ignore pats path dir (ignore false pats path dir) = true.
Proof. exact check_ignore_model. Qed.

(* Non-vacuity: a list where all three skip rules fire and the last match is a
   negated pattern; a clean body satisfying the parsing hypotheses. *)
Example c14_nonvacuous :
  (match parse_all (map str_of ["*.b"; "!a.b"; "a/"; "c"; "!/a/c"]%string) with
   | Some pats =>
     ignore true pats (str_of "x/a.b") false = (Unignored, false)
     /\ ignore true pats (str_of "a") true = (Ignored, false)
     /\ ignore true pats (str_of "a") false = (Nominal, false)
     /\ ignore true pats (str_of "a/c") false = (Unignored, false)
     /\ ignore true pats (str_of "b/c") false = (Ignored, false)
     /\ known_C14 pats = false
   | None => False
   end)
  /\ good_body [str_of "a"; str_of "*.b"]
  /\ parse_glob (join_slash [str_of "a"; str_of "*.b"]) <> None.
Proof. vm_compute. repeat split; try reflexivity; try discriminate; try (intro H; discriminate H). Qed.

Print Assumptions c14_last_match_wins.
Print Assumptions c14_last_match_meaning.
Print Assumptions c14_loop_invariant.
Print Assumptions c14_ignore_last_match.
Print Assumptions c14_glob_sound_complete.
Print Assumptions c14_pattern_matches_iff.
Print Assumptions c14_doublestar_partial.
Print Assumptions c14_doublestar_glob_partial.
Print Assumptions c14_doublestar_refuted.
Print Assumptions c14_leaf_anchor_dir.
Print Assumptions c14_negation.
Print Assumptions c14_flags_meaning.
Print Assumptions c14_pruned.
Print Assumptions c14_pruned_entry.
Print Assumptions c14_one_entry_per_child.
Print Assumptions c14_opened_not_pruned.
Print Assumptions c14_mutagen_never_continues.
Print Assumptions c14_vcs.
Print Assumptions c14_check_ignore_sound.
Print Assumptions c14_check_ignore_model_passes.
