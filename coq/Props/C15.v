(* C15 - Docker-style ignores match Docker's build-context semantics.
   Property theorems only; each is closed by [exact <lemma>]; Print Assumptions
   at the end.

   FULL STATEMENT (properties.jsonl): with Docker-style ignore syntax the set
   of synchronized files and links is exactly the set Docker's .dockerignore
   processing would include from the same tree, including re-inclusion beneath
   excluded directories reachable through exclusion-pattern prefixes; an
   excluded directory is synchronized only if it holds synchronized content or
   was synchronized before.

   The faithful model REFUTES the first sentence ([c15_refuted], the two
   witnesses of DESIGN section 9), so it is proved in the partial form
   [c15_equiv_partial] whose hypothesis is exactly [known_C15 = false] on every
   path of the tree. The class: at some level q of a path's ancestor chain, the
   last pattern matching q itself is followed, later in the list, by a pattern
   of the opposite polarity that matches a proper ancestor of q. The second
   sentence is proved in full for one endpoint ([c15_excluded_directory_rule],
   [c15_phantom_iff_excluded]).

   Reference semantics = upstream MatchesOrParentMatches + moby's walk rule,
   both transcribed in Model/IgnoreDocker.v; the per-pattern matcher [m]
   (string compare / compiled regexp) is abstract: every theorem holds for ANY
   pattern type P, polarity [excl], cleaned text [ptext] and matcher [m]. *)
From Coq Require Import List Bool Arith String Ascii.
Import ListNotations.
From Mv Require Import Model.Entry Model.IgnoreScan Model.IgnoreMutagen Model.IgnoreDocker.
From Mv Require Import Proof.IgnoreScan Proof.IgnoreDocker Proof.Phantom Proof.C15Main.
Open Scope list_scope.

Section C15.
Variable P : Type.
Variable excl : P -> bool.
Variable ptext : P -> string.
Variable m : P -> rpath -> bool.

(* ---- the two loops ---- *)
(* upstream MatchesOrParentMatches (with its skip rule) = the polarity of the
   last pattern, in list order, matching the path or any ancestor *)
Theorem c15_reference_last_match :
  forall pats q, q <> [] -> mopm excl m pats q = docker_excluded excl m pats q.
Proof. exact (mopm_docker_excluded P excl m). Qed.

(* MatchesForMutagen (with its skip rules and exclusion counter) = the status
   of the last pattern matching exactly this path ... *)
Theorem c15_mutagen_exact_status :
  forall pats q dir, fst (mfm excl ptext m pats q dir) = exact_status excl m pats q.
Proof. exact (mfm_status P excl ptext m). Qed.

(* ... and traversal continues below a directory that is not explicitly
   re-included exactly when some "!" pattern has "dir/" as textual prefix *)
Theorem c15_mutagen_continuation :
  forall pats q dir,
    snd (mfm excl ptext m pats q dir)
    = dir && negb (status_eqb (exact_status excl m pats q) Unignored)
      && has_excl_prefix excl ptext pats q.
Proof. exact (mfm_continue P excl ptext m). Qed.

(* ---- one level, and the whole chain ---- *)
Theorem c15_level :
  forall pats q,
    q <> [] -> known_at excl m pats q = false ->
    docker_excluded excl m pats q
    = overlay (exact_status excl m pats q) (docker_excluded excl m pats (tl q)).
Proof. exact (docker_excluded_step P excl m). Qed.

(* Mutagen's effective verdict on a path (deepest explicitly matched level
   wins) is Docker's verdict (last pattern over the whole chain wins) *)
Theorem c15_effective_partial :
  forall pats q,
    known_C15 excl m pats q = false ->
    effective_ignored excl m pats q = docker_excluded excl m pats q.
Proof. exact (effective_docker P excl m). Qed.

(* ---- the statement of the property, partial ---- *)
Definition c15_full_statement : Prop :=
  forall pats root,
    wf_fnode root = true ->
    leaves (snapshot (dock_ignorer excl ptext m pats) root) = docker_leaves excl ptext m pats root.

(* For every tree, pattern list, matcher and ancestor, if no path of the tree
   lies in the class: after scanning with the Docker-style ignorer and
   reifying phantom directories (one endpoint), the synchronized files and
   links are exactly those of Docker's walk, in the same order; no phantom
   directory remains; the model never runs out of fuel. *)
Theorem c15_equiv_partial :
  forall pats root anc,
    wf_fnode root = true ->
    (forall v f, In (v, f) (fnodes [] root) -> known_C15 excl m pats v = false) ->
    let snap := snapshot (dock_ignorer excl ptext m pats) root in
    let r := reify anc (Some snap) None in
    r_oof r = false
    /\ r_a r = Some (reify_spec anc snap)
    /\ leaves (reify_spec anc snap) = docker_leaves excl ptext m pats root
    /\ phantom_free (reify_spec anc snap) = true
    /\ r_ca r = dir_count (reify_spec anc snap).
Proof. exact (equiv_partial P excl ptext m). Qed.

(* the raw snapshot already has Docker's files and links *)
Theorem c15_scan_leaves_partial :
  forall pats root,
    (forall v f, In (v, f) (fnodes [] root) -> known_C15 excl m pats v = false) ->
    leaves (snapshot (dock_ignorer excl ptext m pats) root) = docker_leaves excl ptext m pats root.
Proof. exact (leaves_equal P excl ptext m). Qed.

(* ---- excluded directories ---- *)
(* a directory the walk enters is a phantom exactly where Docker excludes it *)
Theorem c15_phantom_iff_excluded :
  forall pats root,
    (forall v f, In (v, f) (fnodes [] root) -> known_C15 excl m pats v = false) ->
    forall q e, In (q, e) (entries [] (snapshot (dock_ignorer excl ptext m pats) root)) ->
      match e with
      | EPhantom _ => docker_excluded excl m pats q = true
      | EDir _ => docker_excluded excl m pats q = false
      | _ => True
      end.
Proof. exact (phantom_iff_excluded P excl ptext m). Qed.
End C15.

(* such a directory is synchronized only if (and if) it holds tracked content
   or the ancestor has a directory there; otherwise it becomes untracked *)
Theorem c15_excluded_directory_rule :
  forall anc c,
    (Live anc (EPhantom c) -> reify_spec anc (EPhantom c) = EDir (reify_list anc c))
    /\ (~ Live anc (EPhantom c) -> reify_spec anc (EPhantom c) = EUntracked)
    /\ (Live anc (EPhantom c) <->
        is_edir anc = true \/ exists n x, In (n, x) c /\ Live (lookup n (contents anc)) x).
Proof. exact excluded_directory_rule. Qed.

(* reification keeps every file and link in place, whatever the ancestor *)
Theorem c15_reify_keeps_leaves :
  forall e anc rp, leaves_at rp (reify_spec anc e) = leaves_at rp e.
Proof. exact reify_keeps_leaves. Qed.

(* ReifyPhantomDirectories with beta = nil IS the declarative reification *)
Theorem c15_reify_one_sided :
  forall anc e,
    wf_entry false e = true ->
    reify anc (Some e) None
    = {| r_tracked := live anc e; r_ca := dir_count (reify_spec anc e); r_cb := 0;
         r_a := Some (reify_spec anc e); r_b := None; r_oof := false |}.
Proof. exact reify_one_sided_top. Qed.

(* ---- pattern preprocessing ---- *)
(* Every user pattern Mutagen accepts (docker/ignore.go, then
   patternmatcher.New) is read exactly as Docker's .dockerignore reader followed
   by patternmatcher.New reads it: same polarity, same cleaned text. ('#' lines
   are comments for Docker's file reader only.) *)
Theorem c15_preprocessing_agrees :
  forall raw x,
    match raw with c :: _ => Ascii.eqb c "#"%char = false | [] => True end ->
    mutagen_prep raw = Some x -> docker_prep raw = Some x.
Proof. exact prep_agree. Qed.

Example c15_preprocessing_examples :
  mutagen_prep (str_of "!./vendor/keep") = Some (true, str_of "vendor/keep")
  /\ mutagen_prep (str_of "!tmp/../build/out") = Some (true, str_of "build/out")
  /\ mutagen_prep (str_of "! /a//b/.") = Some (true, str_of "a/b")
  /\ mutagen_prep (str_of "/") = None
  /\ docker_prep (str_of "!./vendor/keep") = Some (true, str_of "vendor/keep").
Proof. exact prep_examples. Qed.

(* ---- refutation of the full statement inside the class ---- *)
Theorem c15_refuted :
  (known_C15 dexcl dmatch w1_pats (rp_of "a/b/f") = true
   /\ docker_leaves dexcl dtext dmatch w1_pats w1_tree = []
   /\ mutagen_leaves w1_pats w1_tree = [(rp_of "a/b/f", EFile false "d")])
  /\ (known_C15 dexcl dmatch w2_pats (rp_of "a/b") = true
      /\ docker_leaves dexcl dtext dmatch w2_pats w2_tree = [(rp_of "a/b", EFile false "d")]
      /\ mutagen_leaves w2_pats w2_tree = []).
Proof. exact refuted_witnesses. Qed.

(* ---- the checker applied to the implementation's reified snapshot ---- *)
Theorem c15_check_sound :
  forall pats tree anc rs,
    check_C15 pats tree anc rs = true ->
    forall pe, In pe (leaves rs) <-> In pe (docker_leaves dexcl dtext dmatch pats tree).
Proof. exact check_C15_leaves_sound. Qed.

(* Non-vacuity: a class-free pattern list with re-inclusion beneath an
   excluded directory; the phantom directories a and a/b are reified to
   directories because a/b/f is tracked, a/c is pruned. *)
Example c15_nonvacuous :
  wf_fnode ex_tree = true
  /\ forallb (fun vf => negb (known_C15 dexcl dmatch ex_pats (fst vf))) (fnodes [] ex_tree) = true
  /\ docker_leaves dexcl dtext dmatch ex_pats ex_tree
     = [(rp_of "a/b/f", EFile false "d"); (rp_of "z", EFile false "y")]
  /\ snapshot (dock_ignorer dexcl dtext dmatch ex_pats) ex_tree
     = EDir [("a", EPhantom [("b", EPhantom [("f", EFile false "d"); ("g", EUntracked)]);
                             ("c", EUntracked)]);
             ("z", EFile false "y")]%string
  /\ mutagen_leaves ex_pats ex_tree
     = [(rp_of "a/b/f", EFile false "d"); (rp_of "z", EFile false "y")].
Proof. exact example_class_free. Qed.

Print Assumptions c15_reference_last_match.
Print Assumptions c15_mutagen_exact_status.
Print Assumptions c15_mutagen_continuation.
Print Assumptions c15_level.
Print Assumptions c15_effective_partial.
Print Assumptions c15_equiv_partial.
Print Assumptions c15_scan_leaves_partial.
Print Assumptions c15_phantom_iff_excluded.
Print Assumptions c15_excluded_directory_rule.
Print Assumptions c15_reify_keeps_leaves.
Print Assumptions c15_reify_one_sided.
Print Assumptions c15_preprocessing_agrees.
Print Assumptions c15_refuted.
Print Assumptions c15_check_sound.
