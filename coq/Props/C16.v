(* C16 -- Portable symbolic links never point outside the root.

   Statement (properties.jsonl): in portable symbolic link mode, every link
   accepted for synchronization, whether found by a scan or created by a
   transition, resolves to a location inside the synchronization root. Empty,
   absolute, over-long, colon-containing or backslash-containing targets are
   rejected.

   The model (Model/Symlink.v) transcribes
   normalizeSymbolicLinkAndEnsurePortable with a boolean [fixed]:
     fixed = false  the code as it is in the repository (an empty component of
                    the target is counted like a name);
     fixed = true   the proposed repair (an empty component leaves the depth
                    unchanged).
   "Resolves inside the root" is POSIX lexical resolution of the target from
   the directory that holds the link: empty components and "." stay, ".." goes
   up, a name goes down; assumption (stated): the components walked are
   directories, not themselves links. The theorems below are about
   fixed = true; [c16_refuted_unfixed] shows that the statement is FALSE of the
   code as it is (witness: link "link" -> "a//../..").

   Property theorems only: each closed by [exact <lemma>] from Proof/Symlink.v. *)
From Coq Require Import List Bool ZArith String.
From Coq.Strings Require Import Byte.
Import ListNotations.
From Mv Require Import Common.Str Model.Symlink Proof.Symlink.
Open Scope Z_scope.

(* Every accepted target is returned unchanged and is never above the root at
   any point of its walk: for EVERY link path, EVERY target and EVERY initial
   segment of the target's components the depth below the root is >= 0. *)
Theorem c16_inside :
  forall (path target t' : str),
    normalize_portable true path target = inr t' ->
    t' = target /\
    forall p, is_prefix p (split_on c_slash t') ->
              0 <= resolve_depth (path_depth path) p.
Proof. exact normalize_fixed_inside. Qed.

(* The same on locations: wherever the root lies (names [base], outermost
   first) the walk never pops a name of [base]; after every initial segment
   the current directory is the root or below it. *)
Theorem c16_inside_location :
  forall (path target t' : str) (base : list str),
    normalize_portable true path target = inr t' ->
    forall p, is_prefix p (split_on c_slash t') ->
      exists below,
        resolve_loc (rev (base ++ link_dirs path)) p = below ++ rev base.
Proof. exact normalize_fixed_location. Qed.

(* Empty, over-long, colon-containing, backslash-containing and absolute
   targets are rejected (by the code as it is and by the repaired code). *)
Theorem c16_rejects :
  forall (fixed : bool) (path target : str),
    must_reject target = true ->
    exists e, normalize_portable fixed path target = inl e.
Proof. exact normalize_rejects. Qed.

(* Scan: in portable mode an entry of kind SymbolicLink is produced only for
   an accepted target (and carries the normalized target). *)
Theorem c16_scan :
  forall (path target t : str),
    scan_link true true path target = LESymbolicLink t ->
    normalize_portable true path target = inr t.
Proof. exact (scan_link_portable true). Qed.

(* Transition: in portable mode a link is created only if its target is
   accepted and already in normalized form; never in ignore mode. *)
Theorem c16_create :
  forall (path target : str),
    create_allowed true SLPortable path target = true ->
    normalize_portable true path target = inr target.
Proof. exact (create_allowed_portable true). Qed.

(* Transition, creation of a whole entry tree (a new directory with nested
   directories and links, any shape, any depth): a link inside the tree is
   created only if its target is accepted AT ITS OWN PATH (whose depth includes
   the directory levels of the tree), so it never leaves the root either; and
   every link of the tree is either created or has a problem recorded. *)
Theorem c16_create_tree :
  forall (path : str) (t : ctree) (p tg : str),
    In (p, tg) (created_links true SLPortable path t) ->
    In (p, tg) (links_of path t)
    /\ normalize_portable true p tg = inr tg
    /\ forall q, is_prefix q (split_on c_slash tg) -> 0 <= resolve_depth (path_depth p) q.
Proof. exact created_tree_links. Qed.

Theorem c16_create_tree_total :
  forall (fixed : bool) (mode : sl_mode) (path : str) (t : ctree) (p tg : str),
    In (p, tg) (links_of path t) ->
    In (p, tg) (created_links fixed mode path t) \/ In p (link_problems fixed mode path t).
Proof. exact tree_link_created_or_problem. Qed.

Example c16_create_tree_nontrivial :
  created_links true SLPortable (B "d")
    (CDir [(B "ok", CLink (B "../x")); (B "bad", CLink (B "../../secret"));
           (B "s", CDir [(B "deep", CLink (B "../../y")); (B "abs", CLink (B "/etc/passwd"))])])
  = [(B "d/ok", B "../x"); (B "d/s/deep", B "../../y")]
  /\ link_problems true SLPortable (B "d")
       (CDir [(B "ok", CLink (B "../x")); (B "bad", CLink (B "../../secret"));
              (B "s", CDir [(B "deep", CLink (B "../../y")); (B "abs", CLink (B "/etc/passwd"))])])
     = [B "d/bad"; B "d/s/abs"].
Proof. exact tree_example. Qed.

Theorem c16_create_ignore :
  forall (fixed : bool) (path target : str),
    create_allowed fixed SLIgnore path target = false.
Proof. exact create_ignore_never. Qed.

(* The checker applied to the implementation's outputs is sound and complete
   for the property, and the repaired model passes it on every input. *)
Theorem c16_check_sound :
  forall (path target : str) (out : sl_err + str),
    check_C16 path target out = true ->
    forall t', out = inr t' ->
      must_reject target = false /\
      forall p, is_prefix p (split_on c_slash t') ->
                0 <= resolve_depth (path_depth path) p.
Proof. exact check_C16_sound. Qed.

Theorem c16_check_complete :
  forall (path target t' : str),
    must_reject target = false ->
    (forall p, is_prefix p (split_on c_slash t') ->
               0 <= resolve_depth (path_depth path) p) ->
    check_C16 path target (inr t') = true.
Proof. exact check_C16_complete. Qed.

Theorem c16_model_passes_check :
  forall (path target : str),
    check_C16 path target (normalize_portable true path target) = true.
Proof. exact check_C16_model_passes. Qed.

Theorem c16_check_kernel_sound :
  forall (base : list str) (out : sl_err + str) (kernel : option (list str)),
    check_C16_kernel base out kernel = true ->
    forall t' loc, out = inr t' -> kernel = Some loc -> exists s, loc = base ++ s.
Proof. exact check_C16_kernel_sound. Qed.

Theorem c16_model_passes_kernel_check :
  forall (path target : str) (base : list str),
    check_C16_kernel base (normalize_portable true path target)
      (Some (rev (resolve_loc (rev (base ++ link_dirs path)) (split_on c_slash target))))
    = true.
Proof. exact check_C16_kernel_model_passes. Qed.

(* The code as it is in the repository REFUTES the statement: the link "link"
   (depth 0) with target "a//../.." is accepted although its walk ends one
   level above the root (in a tree sandbox/root it ends in sandbox). *)
Theorem c16_refuted_unfixed :
  exists (path target t' : str),
    normalize_portable false path target = inr t'
    /\ inside_all (path_depth path) (split_on c_slash t') = false
    /\ resolve_depth (path_depth path) (split_on c_slash t') = -1
    /\ resolve_loc (rev ([B "sandbox"; B "root"] ++ link_dirs path))
                   (split_on c_slash t') = [B "sandbox"].
Proof. exact unfixed_refuted. Qed.

(* ... and the repaired code rejects that witness. *)
Theorem c16_fixed_rejects_witness :
  normalize_portable true witness_path witness_target = inl ErrOutside.
Proof. exact fixed_rejects_witness. Qed.

(* Non-vacuity: the hypothesis of c16_inside is satisfiable by a target with
   a real walk (up, down, empty component, ".", up, up, down) at depth 2. *)
Example c16_accepts_nontrivial :
  normalize_portable true (B "d1/d2/link") (B "../x//./../../y")
  = inr (B "../x//./../../y")
  /\ resolve_depth (path_depth (B "d1/d2/link")) (split_on c_slash (B "../x//./../../y")) = 1
  /\ must_reject (B "../x//./../../y") = false.
Proof. exact fixed_accepts_example. Qed.

Print Assumptions c16_inside.
Print Assumptions c16_inside_location.
Print Assumptions c16_rejects.
Print Assumptions c16_scan.
Print Assumptions c16_create.
Print Assumptions c16_create_tree.
Print Assumptions c16_create_tree_total.
Print Assumptions c16_create_ignore.
Print Assumptions c16_check_sound.
Print Assumptions c16_check_complete.
Print Assumptions c16_model_passes_check.
Print Assumptions c16_check_kernel_sound.
Print Assumptions c16_model_passes_kernel_check.
Print Assumptions c16_refuted_unfixed.
Print Assumptions c16_fixed_rejects_witness.
