(* C17 — Synchronization never reaches outside the root through in-root
   symbolic links.  Property theorems only: each is closed by [exact <lemma>]
   from Proof/Confine.v and followed by Print Assumptions.

   Statement (properties.jsonl): scanning, staging, supplying file data and
   applying transitions never open, read, create, modify or delete anything
   outside the synchronization root by following a symbolic link that lives
   inside the root.  Operations whose path crosses such a link fail instead.

   FULL STATEMENT, and why what is proved is PARTIAL BY NATURE.  The full
   statement is about the kernel: "for every filesystem, the object each
   system call acts on lies in the root's physical subtree".  What a system
   call acts on is decided by the operating system: openat/fstatat/unlinkat/...
   on (descriptor, single name) with O_NOFOLLOW / AT_SYMLINK_NOFOLLOW act on
   the directory entry itself and fail on a link where a directory is needed.
   That is ASSUMED (it is written into [tree_world] and [walk_nofollow]; it is
   not proved).  What the theorems carry is everything the Go code is
   responsible for, the path-construction logic:

     c17_confined_*_partial   every primitive that scan / transition (remove,
        create, swap, staged-file moves, cross-device copies) / Opener.OpenFile
        (rsync base opens) / rsync.Transmit (supply) / stageFromRoot can issue, against EVERY
        answer function of the outside world (any filesystem, hostile ones
        included), is either (handle, one valid name) with the handle obtained
        from the root by single-name O_NOFOLLOW opens, or one of the
        enumerated absolute paths: the root itself (O_NOFOLLOW), the root's
        parent directory (the documented exception through which the root
        itself is replaced, where only the root's own name and the cross-device
        temporary beside it are touched), or a name inside the staging
        directory built from hexadecimal digests only.
     c17_location_partial     hence the position acted on, spelled from the
        root's parent, is  root_base :: proper names  - lexically inside the
        root with no "..", "." or separator anywhere - and under the assumed
        O_NOFOLLOW semantics it is the PHYSICAL position: c17_nofollow_physical.
     c17_crossing_fails_*     a path that crosses a link fails, on every
        physical tree with links, for the tree-level resolver and for the real
        walker / opener programs run in the world of that tree.

   Restrictions in the statements: the root path is cleaned (its base name is a
   proper name); directory listings contain non-empty single-component names
   other than "." and ".." (what readdir returns and Go filters); staged files
   are addressed by non-empty hexadecimal digests; nobody else renames the
   directories the handles refer to while an operation runs. *)
From Coq Require Import List Arith String Ascii Bool.
Import ListNotations.
From Mv Require Import Model.Confine Proof.Confine.

Local Open Scope string_scope.

(* ---- every primitive is confined: all operations, all answer functions ---- *)

Theorem c17_confined_scan_partial :
  forall (root staging : string), valid_name (root_base root) = true ->
  forall fuel, confined root staging (scan root fuel).
Proof. exact confined_scan. Qed.

Theorem c17_confined_transition_partial :
  forall (root staging : string) (ownership : bool), valid_name (root_base root) = true ->
  forall links_ignored rnds cs, forallb change_ok cs = true ->
    confined root staging (transition root staging ownership links_ignored rnds cs).
Proof. exact confined_transition. Qed.

Theorem c17_confined_walk_partial :
  forall (root staging : string), valid_name (root_base root) = true ->
  forall path validate_leaf, confined root staging (walk_to_parent root path validate_leaf).
Proof. exact confined_walk_to_parent. Qed.

(* Opener.OpenFile, any sequence of paths (rsync.Transmit, the receiver's base
   opens, Stage's signature opens), from any opener state reached that way *)
Theorem c17_confined_opener_partial :
  forall (root staging : string), valid_name (root_base root) = true ->
  forall o paths, opener_ok root o -> confined root staging (opener_open_files root o paths).
Proof. exact confined_opener. Qed.

(* rsync.Transmit / Endpoint.Supply: every requested path costs exactly one
   Opener.OpenFile and nothing else is opened when it fails *)
Theorem c17_confined_transmit_partial :
  forall (root staging : string), valid_name (root_base root) = true ->
  forall paths, confined root staging (transmit root paths).
Proof. exact confined_transmit. Qed.

Theorem c17_confined_stage_partial :
  forall (root staging : string), valid_name (root_base root) = true ->
  forall o src rnd dhex phex, opener_ok root o -> hex_ok dhex phex = true ->
    confined root staging (stage_from_root root staging o src rnd dhex phex).
Proof. exact confined_stage_from_root. Qed.

(* [confined] read on executions: whatever (sane) world the program runs in,
   every primitive of its trace satisfies prim_ok *)
Theorem c17_confined_trace :
  forall root staging A (m : prog A) (world : nat -> prim -> answer) i,
    (forall j p, sane (world j p) = true) ->
    confined root staging m ->
    Forall (fun pa => prim_ok root staging (fst pa) = true) (fst (run world i m)).
Proof. exact confined_run. Qed.

(* ---- hence the location ---- *)

(* a handle obtained from the root sits at or below the root, and its position
   is spelled with proper names only *)
Theorem c17_handle_location_partial :
  forall root h, from_root root h = true ->
    exists rest, phys root h = root_base root :: rest
                 /\ Forall (fun c => valid_name c = true) rest.
Proof. exact phys_from_root. Qed.

(* the object a confined (handle, name) pair designates is inside the root -
   or, in the root's parent, the cross-device temporary beside a file root *)
Theorem c17_location_partial :
  forall root h n, at_ok root h n = true ->
    (exists rest, (phys root h ++ [n])%list = root_base root :: rest
                  /\ Forall (fun c => valid_name c = true) rest)
    \/ (h = HRootParent /\ prefix cross_device_pattern n = true /\ valid_name n = true
        /\ (phys root h ++ [n])%list = [n]).
Proof. exact at_ok_location. Qed.

(* ---- physical trees with links: the two resolvers ---- *)

(* the chain of O_NOFOLLOW opens reaches the object physically at that
   position, never the target of a link *)
Theorem c17_nofollow_physical :
  forall comps t x, walk_nofollow t comps = Some x -> at_phys t comps = Some x.
Proof. exact walk_nofollow_at_phys. Qed.

(* a path that crosses a link fails *)
Theorem c17_crossing_fails :
  forall pre suf t a tg, suf <> [] -> at_phys t pre = Some (NLink a tg) ->
    walk_nofollow t (pre ++ suf) = None.
Proof. exact walk_nofollow_crossing_fails. Qed.

(* without links on the way the code's resolver and the kernel's
   link-following resolver of the joined path agree (the restriction to
   single-name opens loses nothing) *)
Theorem c17_resolvers_agree :
  forall comps fuel top pos t x,
    List.length comps < fuel ->
    at_phys top pos = Some t ->
    walk_nofollow t comps = Some x ->
    (forall a tg, x <> NLink a tg) ->
    Forall (fun c => plain c = true) comps ->
    resolve_follow fuel top pos comps = Some (pos ++ comps)%list.
Proof. exact resolve_follow_agrees. Qed.

(* ---- the real programs in the world of a physical tree ---- *)

Theorem c17_walk_location :
  forall root top rcs, at_phys top [root_base root] = Some (NDir rcs) ->
  forall path v h leaf,
    (path =? "") = false ->
    Forall (fun c => plain c = true) (removelast (split_slash path)) ->
    exec (tree_world root top) (walk_to_parent root path v) = OkR (h, leaf) ->
    leaf = last (split_slash path) ""
    /\ phys root h = root_base root :: removelast (split_slash path)
    /\ exists cs, walk_nofollow top (root_base root :: removelast (split_slash path)) = Some (NDir cs)
                  /\ at_phys top (phys root h) = Some (NDir cs).
Proof. exact walk_to_parent_tree. Qed.

Theorem c17_crossing_fails_walk :
  forall root top rcs, at_phys top [root_base root] = Some (NDir rcs) ->
  forall path v pre suf a tg,
    (path =? "") = false ->
    Forall (fun c => plain c = true) (removelast (split_slash path)) ->
    removelast (split_slash path) = (pre ++ suf)%list ->
    at_phys top (root_base root :: pre) = Some (NLink a tg) ->
    exec (tree_world root top) (walk_to_parent root path v) = ErrR.
Proof. exact walk_to_parent_crossing_fails. Qed.

(* a successful Opener.OpenFile opened the regular file physically at
   root/path through real directories; so if any component (the leaf
   included) is a link, it fails *)
Theorem c17_opener_location :
  forall root top rcs, at_phys top [root_base root] = Some (NDir rcs) ->
  forall path,
    (path =? "") = false ->
    Forall (fun c => plain c = true) (split_slash path) ->
    snd (exec (tree_world root top) (opener_open_file root new_opener path)) = OkR tt ->
    at_phys top (root_base root :: split_slash path) = Some NFile
    /\ exists cs, walk_nofollow top (root_base root :: removelast (split_slash path)) = Some (NDir cs).
Proof. exact opener_open_file_tree. Qed.

(* ---- the checker applied to the implementation's observed system calls ---- *)

Theorem c17_check_sound :
  forall root staging canary observed,
    check_C17 root staging canary observed = true ->
    holds_C17 root staging canary observed.
Proof. exact check_C17_sound. Qed.

(* ---- non-vacuity ---- *)

(* the two resolvers differ exactly where a link is met *)
Example c17_follow_escapes :
  let top := NDir [("canary", NDir [("secret", NFile)]);
                   ("root", NDir [("l", NLink false [".."; "canary"]);
                                  ("m", NLink true ["canary"]);
                                  ("d", NDir [("f", NFile)])])] in
  resolve_follow 8 top [] ["root"; "l"; "secret"] = Some ["canary"; "secret"]
  /\ resolve_follow 8 top [] ["root"; "m"; "secret"] = Some ["canary"; "secret"]
  /\ walk_nofollow top ["root"; "l"; "secret"] = None
  /\ walk_nofollow top ["root"; "m"; "secret"] = None
  /\ walk_nofollow top ["root"; "l"] = Some (NLink false [".."; "canary"])
  /\ walk_nofollow top ["root"; "d"; "f"] = Some NFile
  /\ resolve_follow 8 top [] ["root"; "d"; "f"] = Some ["root"; "d"; "f"].
Proof. exact follow_escapes. Qed.

(* the real programs on a tree whose root contains a link to ../canary *)
Example c17_programs_on_a_tree :
  let top := NDir [("canary", NDir [("secret", NFile)]);
                   ("root", NDir [("l", NLink false [".."; "canary"]);
                                  ("d", NDir [("f", NFile)])])] in
  let w := tree_world "/x/root" top in
  root_base "/x/root" = "root"
  /\ root_parent_path "/x/root" = "/x/"
  /\ snd (exec w (opener_open_file "/x/root" new_opener "l/secret")) = ErrR
  /\ snd (exec w (opener_open_file "/x/root" new_opener "d/f")) = OkR tt
  /\ exec w (walk_to_parent "/x/root" "l/new" false) = ErrR
  /\ exec w (walk_to_parent "/x/root" "d/new" false) = OkR (HChild HRoot "d", "new")
  /\ forallb (fun pa => prim_ok "/x/root" "/x/staging" (fst pa))
             (fst (run (fun _ => w) 0 (scan "/x/root" 5))) = true
  /\ map fst (fst (run (fun _ => w) 0 (scan "/x/root" 5))) =
     [PAbsOpen "/x/root" false; PChoice "root-is-directory";
      PListDir HRoot; PStatAt HRoot "l"; PStatAt HRoot "d";
      PChoice "ignored-or-invalid-name"; PReadlinkAt HRoot "l";
      PChoice "ignored-or-invalid-name"; PChoice "same-device";
      POpenAt HRoot "d" true; PListDir (HChild HRoot "d");
      PStatAt (HChild HRoot "d") "f"; PChoice "ignored-or-invalid-name";
      PChoice "digest-cached"; POpenAt (HChild HRoot "d") "f" false].
Proof. exact programs_on_a_tree. Qed.

Print Assumptions c17_confined_scan_partial.
Print Assumptions c17_confined_transition_partial.
Print Assumptions c17_confined_walk_partial.
Print Assumptions c17_confined_opener_partial.
Print Assumptions c17_confined_transmit_partial.
Print Assumptions c17_confined_stage_partial.
Print Assumptions c17_confined_trace.
Print Assumptions c17_handle_location_partial.
Print Assumptions c17_location_partial.
Print Assumptions c17_nofollow_physical.
Print Assumptions c17_crossing_fails.
Print Assumptions c17_resolvers_agree.
Print Assumptions c17_walk_location.
Print Assumptions c17_crossing_fails_walk.
Print Assumptions c17_opener_location.
Print Assumptions c17_check_sound.
