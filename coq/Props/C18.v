(* C18 — Executability survives synchronization through an endpoint that
   cannot store it. Property theorems only: each is closed by [exact <lemma>]
   from Proof/C18Main.v and followed by Print Assumptions.

   Setting (Model/Exec.v): P = the endpoint that preserves executability,
   N = the endpoint that does not (its scans report every file as
   non-executable). One cycle, as in controller.go:synchronize when exactly
   one side preserves: N1 = propagate_exec anc P N (PropagateExecutability,
   the three rules of executability.go), then reconcile m anc alpha beta with
   N1 in N's place (x_n_alpha says whether N is alpha). p_changes = the
   changes the plan applies to P.

   FULL STATEMENT (what the property text demands):
     Definition c18_full_statement : Prop :=
       forall i, wf_c18_core i ->
         bit_stable (x_n_alpha i) (x_p i) (x_n i) (snd (c18_plan i)).
   It is FALSE of the faithful model and of the code (c18_refuted,
   c18_refuted_replica below; recorded in known-findings.txt as class
   known_C18). What is proved is the statement outside that class
   (c18_bit_stable_partial, hypothesis exactly known_C18 i = false), the
   class being decided from the inputs alone:
     known_C18 i = some path holds a file on both sides with different
     content, N is alpha, the bit N carries after propagation differs from
     P's bit, and the mode overwrites P with N's version there
     (two-way-resolved: N's content is not the ancestor's, i.e. both sides
     changed the content; one-way-replica: always, P being a mirror of N). *)
From Coq Require Import List Bool String.
Import ListNotations.
From Mv Require Import Model.Entry Model.Reconcile Model.C04Cycle Model.Exec
  Proof.C18Exec Proof.C18Main Proof.C18Exact.

(* What propagation does at a path (all inputs): the bit of a file of N after
   propagation is P's bit when P holds the same content there; else the
   ancestor's bit when the ancestor holds the same content; else P's bit when
   P's content is the ancestor's (N edited the file); else N's own bit.
   rule_bit anc_q p_q xn dn =
     if file_with p_q dn then exec_of p_q else if file_with anc_q dn then exec_of anc_q
     else if same_file_digest p_q anc_q then exec_of p_q else xn. *)
Theorem c18_sources : forall anc p n q xn dn,
  phantom_free n = true ->
  at_path n q = Some (EFile xn dn) ->
  at_path (propagate_exec anc p n) q
  = Some (EFile (rule_bit (at_path anc q) (at_path p q) xn dn) dn).
Proof. exact sources_model. Qed.

(* Every mode, both orientations, every triple outside the class: whatever
   change the plan applies to P, at every path where the file exists on both
   sides the entry it installs there carries the bit P already has. *)
Theorem c18_bit_stable_partial : forall i,
  wf_c18_core i -> known_C18 i = false ->
  bit_stable (x_n_alpha i) (x_p i) (x_n i) (snd (c18_plan i)).
Proof. exact bit_stable_model. Qed.

(* Two-way-safe, either orientation: over every history of snapshots (P_k,
   N_k) - arbitrary edits and chmods on P, arbitrary content edits on N -
   with every cycle applied exactly and the next cycle starting from the
   ancestor the previous one saved, a cycle never changes a bit on P where
   the file exists on both sides: after the cycle P holds a file there with
   the bit P had when it was scanned. So the bit on P changes only by P's own
   chmods. (c18_run stops where the controller would: Apply failing or an
   invalid new ancestor.) *)
Theorem c18_history : forall na steps anc,
  wf true anc = true -> Forall step_ok steps ->
  forall p n p', In (p, n, p') (c18_run TwoWaySafe na anc steps) ->
  forall q xp dp xn dn,
    at_path p q = Some (EFile xp dp) -> at_path n q = Some (EFile xn dn) ->
    exists d', at_path p' q = Some (EFile xp d').
Proof. exact history_model. Qed.

(* The excluded class is real: anc = file(d1, exec), P = beta = file(d3, exec),
   N = alpha = file(d2) under two-way-resolved: the plan rewrites P to
   (d2, not exec). *)
Theorem c18_refuted : exists i, refutes i.
Proof. exact refuted_model. Qed.

Theorem c18_refuted_witness : refutes c18_witness.
Proof. exact refutes_witness. Qed.

(* Second shape of the class: P = beta edited the content and set the bit, N =
   alpha unchanged, one-way-replica: P is reverted to the last-synchronized
   content and bit. *)
Theorem c18_refuted_replica : refutes c18_witness_replica.
Proof. exact refutes_witness_replica. Qed.

(* The class is exact: for every input inside it the plan does install a bit
   different from P's at a path where the file exists on both sides. Together
   with c18_bit_stable_partial: bit_stable i <-> known_C18 i = false. *)
Theorem c18_class_exact : forall i,
  wf_c18_core i -> known_C18 i = true ->
  ~ bit_stable (x_n_alpha i) (x_p i) (x_n i) (snd (c18_plan i)).
Proof. exact class_exact_model. Qed.

(* The executable checker applied to the implementation's outputs decides the
   property: N1 is N with bits that come from matching content only, and the
   returned plan keeps every bit of P where the file exists on both sides. *)
Theorem c18_check_sound : forall i o, check_c18 i o = true -> c18_holds i o.
Proof. exact check_c18_sound. Qed.

(* Outside the class the model's own outputs pass the checker. *)
Theorem c18_model_passes : forall i,
  wf_c18 i = true -> known_C18 i = false -> check_c18 i (model_c18 i) = true.
Proof. exact check_c18_model. Qed.

(* Non-vacuity: a two-way-safe triple outside the class in which rule 3
   propagates a bit to an edited file of N (s) and rule 1 to an unchanged one
   (t), and the plan really changes P (s takes N's new content, bit kept). *)
Example c18_example :
  wf_c18 c18_ex = true /\ known_C18 c18_ex = false
  /\ List.length (p_changes true (snd (c18_plan c18_ex))) = 1
  /\ fst (c18_plan c18_ex)
     = Some (EDir [("s"%string, EFile true "d2"%string); ("t"%string, EFile true "d1"%string)]).
Proof. exact c18_example_ok. Qed.

Print Assumptions c18_sources.
Print Assumptions c18_bit_stable_partial.
Print Assumptions c18_history.
Print Assumptions c18_refuted.
Print Assumptions c18_refuted_witness.
Print Assumptions c18_refuted_replica.
Print Assumptions c18_class_exact.
Print Assumptions c18_check_sound.
Print Assumptions c18_model_passes.
Print Assumptions c18_example.
