(* C19 — rsync deltas reconstruct the target exactly.
   Property theorems only: each is closed by [exact <lemma>] from
   Proof/Rsync.v or Proof/RsyncHash.v and listed under Print Assumptions.

   Model: Model/Rsync.v transcribes engine.go (weakHash, rollWeakHash,
   Signature, Deltify with its sendBlock/sendData closures, Patch/PatchBytes).
   The strong hash H (SHA-1 in the Go code), equality on digests and the
   non-emptiness test on digests are Section variables; what is assumed of them
   is written as hypotheses below and becomes a premise of each theorem. *)
From Coq Require Import List Arith ZArith Bool.
From Coq Require Import Init.Byte.
Import ListNotations.
From Mv Require Import Model.Rsync Proof.RsyncHash Proof.Rsync.

Section C19.
Variable D : Type.                         (* digests *)
Variable H : list byte -> D.               (* the strong hash *)
Variable Deqb : D -> D -> bool.            (* bytes.Equal on digests *)
Variable strong_valid : D -> bool.         (* len(Strong) != 0 *)
Hypothesis Deqb_spec : forall a b, Deqb a b = true <-> a = b.
Hypothesis H_valid : forall x, strong_valid (H x) = true.

(* Full statement of the round trip: for EVERY base, target, block size > 0 and
   maximum data-operation size (0 = default), if the strong hash does not
   collide between a block of the base and a contiguous piece of the target,
   then applying the delta computed against the base's signature to the base
   reproduces the target byte for byte. *)
Theorem c19_roundtrip :
  forall (base target : list byte) (blk maxop : nat) (s : sig D) (ops : list op),
    0 < blk ->
    signature H base blk = Some s ->
    collision_free H base blk target ->
    deltify H Deqb target s maxop = Some ops ->
    patch base s ops = Some target.
Proof. exact (deltify_roundtrip D H Deqb Deqb_spec). Qed.

(* The fuelled loops never run out of fuel and the "less than a block" panic
   is unreachable: signature and delta are always produced. *)
Theorem c19_signature_total :
  forall (base : list byte) (blk : nat), 0 < blk -> exists s, signature H base blk = Some s.
Proof. exact (fun base blk => @signature_total D H base blk). Qed.

Theorem c19_deltify_total :
  forall (base target : list byte) (blk maxop : nat) (s : sig D),
    0 < blk -> signature H base blk = Some s ->
    exists ops, deltify H Deqb target s maxop = Some ops.
Proof. exact (deltify_total D H Deqb Deqb_spec). Qed.

(* Every operation passes Operation.EnsureValid; block operations start inside
   the signature and end within it.  No assumption on the strong hash. *)
Theorem c19_ops_wf :
  forall (base target : list byte) (blk maxop : nat) (s : sig D) (ops : list op),
    0 < blk -> signature H base blk = Some s ->
    deltify H Deqb target s maxop = Some ops ->
    Forall (fun o => op_valid o = true /\
                     (is_data o = false ->
                      ostart o < length (shashes s) /\
                      ostart o + ocount o <= length (shashes s))) ops.
Proof. exact (deltify_ops_wf D H Deqb Deqb_spec). Qed.

(* Literal data never exceeds the limit (65536 when the limit is given as 0). *)
Theorem c19_data_bound :
  forall (base target : list byte) (blk maxop : nat) (s : sig D) (ops : list op),
    0 < blk -> signature H base blk = Some s ->
    deltify H Deqb target s maxop = Some ops ->
    Forall (fun o => length (odata o) <= eff_max maxop) ops.
Proof. exact (deltify_data_bound D H Deqb Deqb_spec). Qed.

Theorem c19_default_bound :
  eff_max 0 = N.to_nat 65536 /\ forall m, m <> 0 -> eff_max m = m.
Proof. exact eff_max_default. Qed.

(* An unchanged target is sent without literal data (no assumption on
   collisions: equal bytes have equal hashes). *)
Theorem c19_unchanged_no_literal :
  forall (base : list byte) (blk maxop : nat) (s : sig D) (ops : list op),
    0 < blk -> signature H base blk = Some s ->
    deltify H Deqb base s maxop = Some ops ->
    Forall (fun o => is_data o = false) ops.
Proof. exact (deltify_unchanged_no_literal D H Deqb Deqb_spec). Qed.

(* Signature.EnsureValid accepts every computed signature. *)
Theorem c19_sig_valid :
  forall (base : list byte) (blk : nat) (s : sig D),
    0 < blk -> signature H base blk = Some s -> sig_valid strong_valid s = true.
Proof. exact (sig_valid_signature D H strong_valid H_valid). Qed.

(* The checker applied to the implementation's outputs decides exactly the
   property: soundness (and completeness) of check_C19. *)
Theorem c19_check_sound :
  forall (base target : list byte) (blk maxop : nat) (ops : list op),
    check_C19 H strong_valid base target blk maxop ops = true ->
    C19_holds H strong_valid base target blk maxop ops.
Proof. exact (fun b t k m o => proj1 (check_C19_iff D H strong_valid b t k m o)). Qed.

Theorem c19_check_complete :
  forall (base target : list byte) (blk maxop : nat) (ops : list op),
    C19_holds H strong_valid base target blk maxop ops ->
    check_C19 H strong_valid base target blk maxop ops = true.
Proof. exact (fun b t k m o => proj2 (check_C19_iff D H strong_valid b t k m o)). Qed.

(* The model's own output passes the checker. *)
Theorem c19_model_passes :
  forall (base target : list byte) (blk maxop : nat) (s : sig D) (ops : list op),
    0 < blk -> signature H base blk = Some s ->
    collision_free H base blk target ->
    deltify H Deqb target s maxop = Some ops ->
    check_C19 H strong_valid base target blk maxop ops = true.
Proof. exact (fun b t k m s o => model_passes_check D H Deqb strong_valid Deqb_spec b t k m s o H_valid). Qed.

End C19.

(* Rolling the weak hash by one byte equals recomputing it on the shifted
   window (uint32 wrap-around and the final mod 2^16 included). *)
Theorem c19_roll :
  forall (out : byte) (rest : list byte) (inb : byte) (wk r1 r2 : Z),
    let n := length (out :: rest) in
    weak_hash (out :: rest) n = (wk, r1, r2) ->
    roll_hash r1 r2 out inb n = weak_hash (rest ++ [inb]) n.
Proof. exact roll_correct. Qed.

(* The evaluation-friendly masks are the uint32 wrap and the modulus 2^16. *)
Theorem c19_u32_is_mod : forall x : Z, u32 x = (x mod 4294967296)%Z.
Proof. exact u32_mod. Qed.

Theorem c19_m16_is_mod : forall x : Z, m16 x = (x mod 65536)%Z.
Proof. exact m16_mod. Qed.

(* Non-vacuity: the hypotheses are satisfiable (identity hash, which is what
   the harness uses) on a case whose delta mixes block and data operations. *)
Example c19_hypotheses_satisfiable :
  collision_free (fun x : list byte => x) ex_base 2 ex_target /\
  exists s ops, signature (fun x : list byte => x) ex_base 2 = Some s /\
    deltify (fun x : list byte => x) list_eqb ex_target s 2 = Some ops /\
    ops = [block_op 1 1; data_op [x7a]; block_op 0 1; data_op [x67]; block_op 3 1] /\
    patch ex_base s ops = Some ex_target.
Proof. exact c19_example_holds. Qed.

Print Assumptions c19_roundtrip.
Print Assumptions c19_signature_total.
Print Assumptions c19_deltify_total.
Print Assumptions c19_ops_wf.
Print Assumptions c19_data_bound.
Print Assumptions c19_default_bound.
Print Assumptions c19_unchanged_no_literal.
Print Assumptions c19_sig_valid.
Print Assumptions c19_check_sound.
Print Assumptions c19_check_complete.
Print Assumptions c19_model_passes.
Print Assumptions c19_roll.
Print Assumptions c19_u32_is_mod.
Print Assumptions c19_m16_is_mod.
Print Assumptions c19_hypotheses_satisfiable.
