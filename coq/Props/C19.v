(* placeholder while the harness is brought up *)
From Mv Require Import Model.Rsync.
