(* C20 — rsync transfers report every transmission failure.
   Property theorems only: each is closed by [exact <lemma>] from
   Proof/RsyncTx.v and listed under Print Assumptions.

   Model: Model/Rsync.v, [deltify_tx fixed tx] = Engine.Deltify with a
   transmitter oracle tx (call k succeeds iff tx k), the transmitter's call log
   as output; [transmit_files fixed rx] = rsync.Transmit with a receiver oracle.
   [fixed] selects one return statement of the closure sendBlock:
     fixed = false : the tree as it is (return nil after a failed flush)
     fixed = true  : the repaired code (return err).
   The property is PROVED for fixed = true and REFUTED for fixed = false. *)
From Coq Require Import List Arith ZArith Bool.
From Coq Require Import Init.Byte.
Import ListNotations.
From Mv Require Import Model.Rsync Proof.Rsync Proof.RsyncTx.

Section C20.
Variable D : Type.
Variable H : list byte -> D.
Variable Deqb : D -> D -> bool.

(* For EVERY transmit oracle: if the repaired Deltify reports success then no
   transmit call failed, and the delivered operations are exactly those of the
   failure-free run.  No assumption on the hash or the signature. *)
Theorem c20_no_silent_loss :
  forall (tx : nat -> bool) (target : list byte) (s : sig D) (maxop : nat) (t : tlog),
    deltify_tx H Deqb true tx target s maxop = (DOk, t) ->
    any_failed t = false /\
    deltify_tx H Deqb true all_ok target s maxop = (DOk, t).
Proof. exact (no_silent_loss D H Deqb). Qed.

(* The same in terms of the oracle: every transmit call that was made
   succeeded (the call log is faithful to the oracle, c20_log_faithful). *)
Theorem c20_no_silent_loss_calls :
  forall (tx : nat -> bool) (target : list byte) (s : sig D) (maxop : nat) (t : tlog),
    deltify_tx H Deqb true tx target s maxop = (DOk, t) ->
    (forall i, i < length t -> tx i = true) /\
    deltify_tx H Deqb true all_ok target s maxop = (DOk, t).
Proof. exact (no_silent_loss_calls D H Deqb). Qed.

Theorem c20_log_faithful :
  forall (fixed : bool) (tx : nat -> bool) (target : list byte) (s : sig D) (maxop : nat) (i : nat) (b : bool),
    nth_error (map snd (snd (deltify_tx H Deqb fixed tx target s maxop))) i = Some b -> b = tx i.
Proof. exact (log_faithful D H Deqb). Qed.

(* What transmit.go relies on ("as soon as it's returned non-nil, the transmit
   function won't be called again"): the outcome of the last call tells
   whether any call failed. *)
Theorem c20_last_call_tells :
  forall (tx : nat -> bool) (target : list byte) (s : sig D) (maxop : nat) (r : dres) (t : tlog),
    deltify_tx H Deqb true tx target s maxop = (r, t) -> last_ok t = true ->
    any_failed t = false /\ deltify_tx H Deqb true all_ok target s maxop = (r, t).
Proof. exact (last_call_tells D H Deqb). Qed.

(* Under any oracle and either variant Deltify returns nil or an error: no
   panic, no exhausted fuel. *)
Theorem c20_returns :
  forall (fixed : bool) (tx : nat -> bool) (base target : list byte) (blk maxop : nat) (s : sig D),
    0 < blk -> signature H base blk = Some s ->
    okerr (fst (deltify_tx H Deqb fixed tx target s maxop)).
Proof. exact (deltify_tx_returns D H Deqb). Qed.

Hypothesis Deqb_spec : forall a b, Deqb a b = true <-> a = b.

(* With C19: for any failure point(s), either the sender returns an error or
   no call failed and the receiver rebuilds exactly the target. *)
Theorem c20_either :
  forall (tx : nat -> bool) (base target : list byte) (blk maxop : nat) (s : sig D) (r : dres) (t : tlog),
    0 < blk -> signature H base blk = Some s -> collision_free H base blk target ->
    deltify_tx H Deqb true tx target s maxop = (r, t) ->
    r <> DOk \/ (any_failed t = false /\ patch base s (sent_of t) = Some target).
Proof. exact (either_error_or_target D H Deqb Deqb_spec). Qed.

(* rsync.Transmit: success is reported only if no Receive failed and the
   receiver was handed, file by file, exactly the failure-free delta followed
   by Done, or an explicit per-file error for a file that cannot be opened. *)
Theorem c20_transmit :
  forall (rx : nat -> bool) (fs : list (tfile D)) (r : list (tmsg * bool)),
    transmit_files H Deqb true rx fs = (r, TOk) ->
    rx_any_failed r = false /\
    delivered r = concat (map (expected_file H Deqb true) fs).
Proof. exact (transmit_exact D H Deqb). Qed.

(* ... hence, with C19, under any Receive failures: Transmit returns an error,
   or every file's delivered operations rebuild its target. *)
Theorem c20_transmit_either :
  forall (rx : nat -> bool) (files : list (list byte * option (list byte) * nat))
         (tfs : list (tfile D)) (r : list (tmsg * bool)) (res : tres),
    Forall2 (file_rel D H) files tfs ->
    transmit_files H Deqb true rx tfs = (r, res) ->
    check_C20_transmit H files (is_terr res) r = true.
Proof. exact (fun rx => transmit_either D H Deqb rx Deqb_spec). Qed.

(* The repaired model passes the checker under every oracle. *)
Theorem c20_model_passes :
  forall (tx : nat -> bool) (base target : list byte) (blk maxop : nat) (s : sig D) (r : dres) (t : tlog),
    0 < blk -> signature H base blk = Some s -> collision_free H base blk target ->
    deltify_tx H Deqb true tx target s maxop = (r, t) ->
    check_C20 H base target blk (negb (dres_eqb r DOk)) t = true.
Proof. exact (fun tx b t k m s r l => fixed_model_passes_check_C20 D H Deqb tx b t k m s r l Deqb_spec). Qed.

End C20.

(* Soundness of the checker that is applied to the implementation's runs:
   it accepts only if an error was reported, or no call failed and the
   delivered operations rebuild the target. *)
Theorem c20_check_sound :
  forall (D : Type) (H : list byte -> D) (base target : list byte) (blk : nat) (err : bool) (t : tlog),
    check_C20 H base target blk err t = true ->
    err = true \/
    (any_failed t = false /\
     exists s, signature H base blk = Some s /\ patch base s (sent_of t) = Some target).
Proof. exact check_C20_sound. Qed.

(* The tree as it is violates the property: one failed transmit call, Deltify
   reports success, the receiver rebuilds "a" instead of "aa".  (Witness found
   by the harness sweep; base "a", target "aa", block size 1, call 0 fails once.) *)
Theorem c20_refuted_unfixed :
  exists (tx : nat -> bool) (base target : list byte) (blk maxop : nat) (s : sig (list byte)) (t : tlog),
    signature Hident base blk = Some s /\
    deltify_tx Hident list_eqb false tx target s maxop = (DOk, t) /\
    any_failed t = true /\
    patch base s (sent_of t) <> Some target /\
    check_C20 Hident base target blk false t = false.
Proof. exact unfixed_refuted. Qed.

(* Non-vacuity: on the same inputs the repaired variant reports the error. *)
Example c20_fixed_reports_witness :
  fst (deltify_tx Hident list_eqb true wit_tx [x61; x61] wit_sig 1) = DErr.
Proof. exact fixed_reports_witness. Qed.

Print Assumptions c20_no_silent_loss.
Print Assumptions c20_no_silent_loss_calls.
Print Assumptions c20_log_faithful.
Print Assumptions c20_last_call_tells.
Print Assumptions c20_returns.
Print Assumptions c20_either.
Print Assumptions c20_transmit.
Print Assumptions c20_transmit_either.
Print Assumptions c20_model_passes.
Print Assumptions c20_check_sound.
Print Assumptions c20_refuted_unfixed.
Print Assumptions c20_fixed_reports_witness.
