From Mv Require Import Model.Remote.
